/-
The 1.x quick-cue and loop *encoders* regenerated from the C++ sources (`Gen.ImplV1.encodeCues`,
`encodeLoops`; tools/tr_blobs_v1.py) equal the hand-written mirror `Impl.V1.encodeCues` / `encodeLoops`.

The regenerated code is the C++ statement by statement: `std::accumulate` of the label lengths in `int64_t`
(with the conversions through `size_t` the lambda performs), `throw hot_cues_overflow` for more than 8 slots,
the checked `129 + total_label_length`, the buffer, a range-`for` over the optional slots whose body either
throws (empty label, label > 255 bytes) or writes the slot (`if (c) {…} else {…}` on the optional), and the
closing `if (ptr != end) throw std::runtime_error` — which is how fewer than 8 slots are rejected.
The hand model computes the slot bytes first (`encodeSlots`), then compares lengths.

Hypothesis (`_partial`): the payload is below 2^63 bytes (`std::vector<std::byte>::max_size()`); above it the
`int64_t` accumulation / the `size_t` size wrap resp. the vector constructor throws `length_error`, while the
hand model uses unbounded naturals.
-/
import EngineModel.Gen.ImplV1Gen
import EngineModel.Impl.V1
import Proofs.WrLemmas
import Proofs.CxxPrimsLemmas
import Proofs.CursorCxxV1Lemmas
import Proofs.ImplV2
import Proofs.ImplV1GenBeat
set_option linter.unusedSimpArgs false

namespace EngineModel
namespace Wr

/-- `m` appends exactly `w` (which fits) and then tests `ptr != end`: `e` when the buffer is not full. -/
def WritesEnd (m : Wr Unit) (w : Bytes) (e : Exn) : Prop :=
  ∀ size out, out.length + w.length ≤ size →
    m size out = if out.length + w.length = size then .ok ((), out ++ w) else .throw e

theorem WritesEnd.endCheck (e : Exn) :
    WritesEnd (notAtEnd >>= fun t => if t = true then throwW e else pure ()) [] e := by
  intro size out _
  simp only [List.length_nil, Nat.add_zero, List.append_nil]
  by_cases h : out.length = size <;> simp [notAtEnd, h]

theorem Writes.bindEnd {m n : Wr Unit} {a b : Bytes} {e : Exn} (hm : Writes m a) (hn : WritesEnd n b e) :
    WritesEnd (m >>= fun _ => n) (a ++ b) e := by
  intro size out h
  simp only [List.length_append] at h
  simp only [bind_run, hm size out (by omega)]
  rw [hn size (out ++ a) (by simp; omega)]
  simp [Nat.add_assoc]

theorem WritesEnd.congr {m : Wr Unit} {a b : Bytes} {e : Exn} (hm : WritesEnd m a e) (h : a = b) : WritesEnd m b e :=
  h ▸ hm

theorem run_of_writesEnd {m : Wr Unit} {w : Bytes} {e : Exn} {size : Nat} (h : WritesEnd m w e)
    (hs : w.length ≤ size) (hm : size ≤ 9223372036854775807) :
    run size m = if w.length = size then .ok w else .throw e := by
  have := h size [] (by simp; omega)
  have hnot : ¬ (9223372036854775807 < size) := by omega
  simp only [run, hnot, if_false, this, List.length_nil, Nat.zero_add, List.nil_append]
  by_cases hq : w.length = size <;> simp [hq]

theorem pre_throw {α} {m : Wr α} {e : Exn} (k : α → Res Bytes) (h : m 0 [] = .throw e) : pre m k = .throw e := by
  simp [pre, h]

theorem sum_map_add {α} (c : Nat) (f : α → Nat) (l : List α) :
    (l.map (fun q => c + f q)).sum = c * l.length + (l.map f).sum := by
  induction l with
  | nil => rfl
  | cons q r ih => simp only [List.map_cons, List.sum_cons, List.length_cons, ih, Nat.mul_add]; omega

theorem rep4 (m : Wr Unit) : rep 4 m = (m >>= fun _ => m >>= fun _ => m >>= fun _ => m >>= fun _ => pure ()) := rfl
theorem rep6 (m : Wr Unit) : rep 6 m =
    (m >>= fun _ => m >>= fun _ => m >>= fun _ => m >>= fun _ => m >>= fun _ => m >>= fun _ => pure ()) := rfl

/-! ### a range-`for` over slots whose body writes the slot or throws, against `encodeSlots` -/

theorem forIn_slots_ok {α} {f : α → Wr Unit} {enc : α → Res Bytes}
    (hok : ∀ x b, enc x = .ok b → Writes (f x) b) :
    ∀ (xs : List α) (b : Bytes), Impl.V1.encodeSlots enc xs = .ok b → Writes (forIn' xs f) b := by
  intro xs
  induction xs with
  | nil =>
    intro b h
    simp only [Impl.V1.encodeSlots, Res.ok.injEq] at h
    subst h
    exact Writes.pure
  | cons x r ih =>
    intro b h
    simp only [Impl.V1.encodeSlots] at h
    cases hx : enc x with
    | throw e => rw [hx] at h; simp at h
    | ub u => rw [hx] at h; simp at h
    | ok bx =>
      rw [hx] at h
      simp only [] at h
      cases hr : Impl.V1.encodeSlots enc r with
      | throw e => rw [hr] at h; simp at h
      | ub u => rw [hr] at h; simp at h
      | ok br =>
        rw [hr] at h
        simp only [Res.ok.injEq] at h
        subst h
        simp only [forIn']
        exact (hok x bx hx).bind (ih br hr)

theorem encodeSlots_length {α} {enc : α → Res Bytes} {len : α → Nat}
    (hlen : ∀ x b, enc x = .ok b → b.length = len x) :
    ∀ (xs : List α) (b : Bytes), Impl.V1.encodeSlots enc xs = .ok b → b.length = (xs.map len).sum := by
  intro xs
  induction xs with
  | nil =>
    intro b h
    simp only [Impl.V1.encodeSlots, Res.ok.injEq] at h
    subst h
    rfl
  | cons x r ih =>
    intro b h
    simp only [Impl.V1.encodeSlots] at h
    cases hx : enc x with
    | throw e => rw [hx] at h; simp at h
    | ub u => rw [hx] at h; simp at h
    | ok bx =>
      rw [hx] at h
      simp only [] at h
      cases hr : Impl.V1.encodeSlots enc r with
      | throw e => rw [hr] at h; simp at h
      | ub u => rw [hr] at h; simp at h
      | ok br =>
        rw [hr] at h
        simp only [Res.ok.injEq] at h
        subst h
        simp [hlen x bx hx, ih br hr]

theorem encodeSlots_noub {α} {enc : α → Res Bytes} (hub : ∀ x u, enc x ≠ .ub u) :
    ∀ (xs : List α) (u : Ub), Impl.V1.encodeSlots enc xs ≠ .ub u := by
  intro xs
  induction xs with
  | nil => intro u h; simp [Impl.V1.encodeSlots] at h
  | cons x r ih =>
    intro u h
    simp only [Impl.V1.encodeSlots] at h
    cases hx : enc x with
    | throw e => rw [hx] at h; simp at h
    | ub u' => exact hub x u' hx
    | ok bx =>
      rw [hx] at h
      simp only [] at h
      cases hr : Impl.V1.encodeSlots enc r with
      | throw e => rw [hr] at h; simp at h
      | ub u' => exact ih u' hr
      | ok br => rw [hr] at h; simp at h

/-- the loop throws what the first failing slot throws — it cannot overflow the buffer first when the buffer
has room for all slots -/
theorem forIn_slots_throw {α} {f : α → Wr Unit} {enc : α → Res Bytes} {len : α → Nat}
    (hok : ∀ x b, enc x = .ok b → Writes (f x) b) (hlen : ∀ x b, enc x = .ok b → b.length = len x)
    (hthrow : ∀ x e, enc x = .throw e → ∀ size out, f x size out = .throw e) :
    ∀ (xs : List α) (e : Exn), Impl.V1.encodeSlots enc xs = .throw e → ∀ (size : Nat) (out : Bytes),
      out.length + (xs.map len).sum ≤ size → forIn' xs f size out = .throw e := by
  intro xs
  induction xs with
  | nil => intro e h; simp [Impl.V1.encodeSlots] at h
  | cons x r ih =>
    intro e h size out hroom
    simp only [List.map_cons, List.sum_cons] at hroom
    simp only [Impl.V1.encodeSlots] at h
    simp only [forIn', bind_run]
    cases hx : enc x with
    | throw e' =>
      rw [hx] at h
      simp only [Res.throw.injEq] at h
      subst h
      rw [hthrow x e' hx]
    | ub u => rw [hx] at h; simp at h
    | ok bx =>
      rw [hx] at h
      simp only [] at h
      have hl := hlen x bx hx
      rw [hok x bx hx size out (by omega)]
      simp only []
      cases hr : Impl.V1.encodeSlots enc r with
      | throw e' =>
        rw [hr] at h
        simp only [Res.throw.injEq] at h
        subst h
        exact ih e' hr size _ (by rw [List.length_append]; omega)
      | ub u => rw [hr] at h; simp at h
      | ok br => rw [hr] at h; simp at h

end Wr

namespace Gen.ImplV1
open Codec Wr

theorem encodeCues_body1_writes (c : UInt8) : Writes (encodeCues_body1 c) [c] := by
  unfold encodeCues_body1
  exact Writes.put _

theorem encodeLoops_body1_writes (c : UInt8) : Writes (encodeLoops_body1 c) [c] := by
  unfold encodeLoops_body1
  exact Writes.put _

/-! ### quick cues -/

def cueLen (q : Option Impl.V1.HotCue) : Nat :=
  match q with
  | some c => c.label.length
  | none => 0

theorem cueLabels_sum (v : List (Option Impl.V1.HotCue)) :
    Impl.V2.labelsLen (Impl.V1.cueLabels v) = (v.map cueLen).sum := by
  induction v with
  | nil => rfl
  | cons s v ih =>
    cases s with
    | none =>
      simp only [Impl.V1.cueLabels, List.filterMap_cons, Option.map_none, List.map_cons, cueLen, List.sum_cons,
        Nat.zero_add] at ih ⊢
      exact ih
    | some l =>
      simp only [Impl.V1.cueLabels, List.filterMap_cons, Option.map_some, List.map_cons, cueLen, Impl.V2.labelsLen,
        List.sum_cons] at ih ⊢
      rw [ih]

theorem encodeCueSlot_len (q : Option Impl.V1.HotCue) (b : Bytes) (h : Impl.V1.encodeCueSlot q = .ok b) :
    b.length = 13 + cueLen q := by
  cases q with
  | none =>
    simp only [Impl.V1.encodeCueSlot, Res.ok.injEq] at h
    subst h
    simp [cueLen, Impl.V2.u64be_enc_length]
  | some c =>
    simp only [Impl.V1.encodeCueSlot] at h
    split at h
    · simp at h
    · split at h
      · simp at h
      · simp only [Res.ok.injEq] at h
        subst h
        simp [cueLen, lp8, Impl.V2.u64be_enc_length, V2.color, map, pair, u8]
        omega

theorem encodeCueSlot_noub (q : Option Impl.V1.HotCue) (u : Ub) : Impl.V1.encodeCueSlot q ≠ .ub u := by
  cases q with
  | none => simp [Impl.V1.encodeCueSlot]
  | some c =>
    simp only [Impl.V1.encodeCueSlot]
    split
    · simp
    · split <;> simp

theorem encodeCues_body2_ok (q : Option Impl.V1.HotCue) (b : Bytes) (h : Impl.V1.encodeCueSlot q = .ok b) :
    Writes (encodeCues_body2 q) b := by
  cases q with
  | none =>
    simp only [Impl.V1.encodeCueSlot, Res.ok.injEq] at h
    subst h
    unfold encodeCues_body2
    simp only [rep4, CxxPrims.encode_uint8_eq, CxxPrims.encode_double_be_eq]
    refine Writes.congr
      ((Writes.put _).bind <| (Writes.put _).bind <| (Writes.put _).bind <| (Writes.put _).bind <|
        (Writes.put _).bind <| (Writes.put _).bind Writes.pure) ?_
    simp [u8]
  | some c =>
    simp only [Impl.V1.encodeCueSlot] at h
    by_cases h0 : c.label.length = 0
    · simp [h0] at h
    · by_cases h255 : 255 < c.label.length
      · simp [h0, h255] at h
      · simp only [h0, h255, if_false, Res.ok.injEq] at h
        subst h
        have h255' : ¬ (c.label.length > 255) := h255
        unfold encodeCues_body2
        simp only [h0, h255', decide_false, Bool.false_eq_true, if_false, CxxPrims.encode_uint8_eq,
          CxxPrims.encode_double_be_eq]
        refine Writes.congr
          ((Writes.put _).bind <| (Writes.forIn encodeCues_body1_writes _).bind <|
            (Writes.put _).bind <| (Writes.put _).bind <| (Writes.put _).bind <| (Writes.put _).bind <|
            Writes.put _) ?_
        simp [lp8, V2.color, map, pair, u8, flatMap_singleton]

theorem encodeCues_body2_throw (q : Option Impl.V1.HotCue) (e : Exn) (h : Impl.V1.encodeCueSlot q = .throw e)
    (size : Nat) (out : Bytes) : encodeCues_body2 q size out = .throw e := by
  cases q with
  | none => simp [Impl.V1.encodeCueSlot] at h
  | some c =>
    simp only [Impl.V1.encodeCueSlot] at h
    unfold encodeCues_body2
    by_cases h0 : c.label.length = 0
    · simp only [h0, if_true, Res.throw.injEq] at h
      subst h
      simp [h0]
    · by_cases h255 : 255 < c.label.length
      · simp only [h0, h255, if_true, if_false, Res.throw.injEq] at h
        subst h
        have h255' : c.label.length > 255 := h255
        simp [h0, h255']
      · simp [h0, h255] at h

theorem flag_byte (b : Bool) :
    UInt8.ofNat (Cxx.u64OfInt (if b = true then (0 : Int) else 1)) = (if b = true then 0 else 1 : UInt8) := by
  cases b <;> decide

/-- `quick_cues_data::encode`.
Full statement: `encodeCues = Impl.V1.encodeCues` — false only for label totals of 2^63 bytes and more (no machine
holds them): `std::accumulate` runs in `int64_t`, `129 + total_label_length` is checked `int64_t` arithmetic and
`std::vector<std::byte>(size)` throws `length_error` above `max_size()`; the hand model has unbounded naturals. -/
theorem encodeCues_eq_partial (v : Impl.V1.Cues)
    (h : 129 + Impl.V2.labelsLen (Impl.V1.cueLabels v.cues) < 9223372036854775808) :
    encodeCues v = Impl.V1.encodeCues v := by
  rw [cueLabels_sum] at h
  unfold encodeCues Impl.V1.encodeCues
  by_cases h8 : 8 < v.cues.length
  · have h8' : v.cues.length > 8 := h8
    rw [pre_throw (e := .dj "hot_cues_overflow") _ (by simp [h8'])]
    simp [h8]
  · have h8' : ¬ (v.cues.length > 8) := h8
    have hacc := accumulate_lengths cueLen v.cues 0 (by omega) (by omega)
    simp only [Int.zero_add] at hacc
    have hsz : Cxx.u64OfInt (129 + (((v.cues.map cueLen).sum : Nat) : Int)) = 129 + (v.cues.map cueLen).sum := by
      unfold Cxx.u64OfInt Cxx.two64; omega
    generalize hT : List.foldl _ (0 : Int) v.cues = T
    have hT' : T = (((v.cues.map cueLen).sum : Nat) : Int) := by rw [← hT]; exact hacc
    subst hT'
    rw [pre_ok (a := 129 + (v.cues.map cueLen).sum) _ (by
      simp only [bind_run, pure_run, h8', decide_false, Bool.false_eq_true, if_false]
      rw [chkI64_run (by omega) (by omega)]
      simp only [hsz])]
    simp only [h8, if_false, cueLabels_sum]
    have hsum : (v.cues.map (fun q => 13 + cueLen q)).sum = 13 * v.cues.length + (v.cues.map cueLen).sum :=
      sum_map_add 13 cueLen v.cues
    have h8hdr : (CxxPrims.encode_int64_be (Prim.u64OfInt (Cxx.i64OfU64 v.cues.length))).length = 8 := by
      rw [CxxPrims.encode_int64_be_eq]; rfl
    cases hs : Impl.V1.encodeSlots Impl.V1.encodeCueSlot v.cues with
    | ub u => exact absurd hs (encodeSlots_noub encodeCueSlot_noub _ u)
    | throw e =>
      simp only []
      have hnot : ¬ (9223372036854775807 < 129 + (v.cues.map cueLen).sum) := by omega
      simp only [run, hnot, if_false, bind_run]
      rw [Writes.put _ _ [] (by rw [h8hdr]; simp; omega)]
      simp only []
      rw [forIn_slots_throw (len := fun q => 13 + cueLen q) encodeCues_body2_ok encodeCueSlot_len
        encodeCues_body2_throw v.cues e hs _ _ (by rw [hsum]; simp [h8hdr]; omega)]
    | ok slots =>
      simp only []
      have hslots := encodeSlots_length (len := fun q => 13 + cueLen q) encodeCueSlot_len v.cues slots hs
      rw [hsum] at hslots
      have hw : WritesEnd (do
          Wr.put (CxxPrims.encode_int64_be (Prim.u64OfInt (Cxx.i64OfU64 (List.length v.cues))))
          Wr.forIn' v.cues encodeCues_body2
          Wr.put (CxxPrims.encode_double_be v.adjMain)
          Wr.put (CxxPrims.encode_uint8 (UInt8.ofNat (Cxx.u64OfInt (if (F64.eq v.adjMain v.defMain) then (0 : Int) else (1 : Int)))))
          Wr.put (CxxPrims.encode_double_be v.defMain)
          let t2 ← Wr.notAtEnd
          if t2 then Wr.throwW .runtime_error else
          pure ())
          (u64be.enc (UInt64.ofNat v.cues.length) ++ slots ++ u64be.enc v.adjMain ++
            [if F64.eq v.adjMain v.defMain then 0 else 1] ++ u64be.enc v.defMain) .runtime_error := by
        simp only [CxxPrims.encode_double_be_eq, CxxPrims.encode_int64_be_eq, CxxPrims.encode_uint8_eq, count_bits,
          flag_byte]
        refine WritesEnd.congr
          ((Writes.put _).bindEnd <| (forIn_slots_ok encodeCues_body2_ok v.cues slots hs).bindEnd <|
            (Writes.put _).bindEnd <| (Writes.put _).bindEnd <| (Writes.put _).bindEnd <|
            WritesEnd.endCheck _) ?_
        simp [u8, List.append_assoc]
      have hlen : (u64be.enc (UInt64.ofNat v.cues.length) ++ slots ++ u64be.enc v.adjMain ++
            [if F64.eq v.adjMain v.defMain then 0 else 1] ++ u64be.enc v.defMain).length =
          25 + 13 * v.cues.length + (v.cues.map cueLen).sum := by
        simp only [List.length_append, Impl.V2.u64be_enc_length, hslots, List.length_cons, List.length_nil]
        omega
      rw [run_of_writesEnd hw (by rw [hlen]; omega) (by omega), hlen]
      by_cases hn : v.cues.length = 8
      · have q1 : 25 + 13 * v.cues.length + (v.cues.map cueLen).sum = 129 + (v.cues.map cueLen).sum := by omega
        simp [q1]
      · have q1 : ¬ (25 + 13 * v.cues.length + (v.cues.map cueLen).sum = 129 + (v.cues.map cueLen).sum) := by omega
        have q2 : ¬ (129 + (v.cues.map cueLen).sum < 25 + 13 * v.cues.length + (v.cues.map cueLen).sum) := by omega
        have q3 : 25 + 13 * v.cues.length + (v.cues.map cueLen).sum < 129 + (v.cues.map cueLen).sum := by omega
        have q4 : ¬ (25 + 13 * v.cues.length = 129) := by omega
        simp [q1, q2, q3, q4]

/-! ### loops -/

def loopLen (q : Option Impl.V1.LoopV) : Nat :=
  match q with
  | some c => c.label.length
  | none => 0

theorem loopLabels_sum (v : Impl.V1.Loops) :
    Impl.V2.labelsLen (Impl.V1.loopLabels v) = (v.map loopLen).sum := by
  induction v with
  | nil => rfl
  | cons s v ih =>
    cases s with
    | none =>
      simp only [Impl.V1.loopLabels, List.filterMap_cons, Option.map_none, List.map_cons, loopLen, List.sum_cons,
        Nat.zero_add] at ih ⊢
      exact ih
    | some l =>
      simp only [Impl.V1.loopLabels, List.filterMap_cons, Option.map_some, List.map_cons, loopLen, Impl.V2.labelsLen,
        List.sum_cons] at ih ⊢
      rw [ih]

theorem encodeLoopSlot_len (q : Option Impl.V1.LoopV) (b : Bytes) (h : Impl.V1.encodeLoopSlot q = .ok b) :
    b.length = 23 + loopLen q := by
  cases q with
  | none =>
    simp only [Impl.V1.encodeLoopSlot, Res.ok.injEq] at h
    subst h
    simp [loopLen, Impl.V2.u64le_enc_length]
  | some c =>
    simp only [Impl.V1.encodeLoopSlot] at h
    split at h
    · simp at h
    · split at h
      · simp at h
      · simp only [Res.ok.injEq] at h
        subst h
        simp [loopLen, lp8, Impl.V2.u64le_enc_length, V2.color, map, pair, u8]
        omega

theorem encodeLoopSlot_noub (q : Option Impl.V1.LoopV) (u : Ub) : Impl.V1.encodeLoopSlot q ≠ .ub u := by
  cases q with
  | none => simp [Impl.V1.encodeLoopSlot]
  | some c =>
    simp only [Impl.V1.encodeLoopSlot]
    split
    · simp
    · split <;> simp

theorem encodeLoops_body2_ok (q : Option Impl.V1.LoopV) (b : Bytes) (h : Impl.V1.encodeLoopSlot q = .ok b) :
    Writes (encodeLoops_body2 q) b := by
  cases q with
  | none =>
    simp only [Impl.V1.encodeLoopSlot, Res.ok.injEq] at h
    subst h
    unfold encodeLoops_body2
    simp only [rep6, CxxPrims.encode_uint8_eq, CxxPrims.encode_double_le_eq]
    refine Writes.congr
      ((Writes.put _).bind <| (Writes.put _).bind <| (Writes.put _).bind <| (Writes.put _).bind <|
        (Writes.put _).bind <| (Writes.put _).bind <| (Writes.put _).bind <| (Writes.put _).bind <|
        (Writes.put _).bind Writes.pure) ?_
    simp [u8]
  | some c =>
    simp only [Impl.V1.encodeLoopSlot] at h
    by_cases h0 : c.label.length = 0
    · simp [h0] at h
    · by_cases h255 : 255 < c.label.length
      · simp [h0, h255] at h
      · simp only [h0, h255, if_false, Res.ok.injEq] at h
        subst h
        have h255' : ¬ (c.label.length > 255) := h255
        unfold encodeLoops_body2
        simp only [h0, h255', decide_false, Bool.false_eq_true, if_false, CxxPrims.encode_uint8_eq,
          CxxPrims.encode_double_le_eq]
        refine Writes.congr
          ((Writes.put _).bind <| (Writes.forIn encodeLoops_body1_writes _).bind <|
            (Writes.put _).bind <| (Writes.put _).bind <| (Writes.put _).bind <| (Writes.put _).bind <|
            (Writes.put _).bind <| (Writes.put _).bind <| (Writes.put _).bind <| Writes.put _) ?_
        simp [lp8, V2.color, map, pair, u8, flatMap_singleton]

theorem encodeLoops_body2_throw (q : Option Impl.V1.LoopV) (e : Exn) (h : Impl.V1.encodeLoopSlot q = .throw e)
    (size : Nat) (out : Bytes) : encodeLoops_body2 q size out = .throw e := by
  cases q with
  | none => simp [Impl.V1.encodeLoopSlot] at h
  | some c =>
    simp only [Impl.V1.encodeLoopSlot] at h
    unfold encodeLoops_body2
    by_cases h0 : c.label.length = 0
    · simp only [h0, if_true, Res.throw.injEq] at h
      subst h
      simp [h0]
    · by_cases h255 : 255 < c.label.length
      · simp only [h0, h255, if_true, if_false, Res.throw.injEq] at h
        subst h
        have h255' : c.label.length > 255 := h255
        simp [h0, h255']
      · simp [h0, h255] at h

/-- `loops_data::encode`.
Full statement: `encodeLoops = Impl.V1.encodeLoops` — false only for payloads of 2^63 bytes and more (see
`encodeCues_eq_partial`; here the size `8 + 23 * n + total` is computed in wrapping `size_t`). -/
theorem encodeLoops_eq_partial (v : Impl.V1.Loops)
    (h : 8 + 23 * v.length + Impl.V2.labelsLen (Impl.V1.loopLabels v) < 9223372036854775808) :
    encodeLoops v = Impl.V1.encodeLoops v := by
  rw [loopLabels_sum] at h
  unfold encodeLoops Impl.V1.encodeLoops
  have hacc := accumulate_lengths loopLen v 0 (by omega) (by omega)
  simp only [Int.zero_add] at hacc
  have hsz : Cxx.u64OfInt (((v.map loopLen).sum : Nat) : Int) = (v.map loopLen).sum := by
    unfold Cxx.u64OfInt Cxx.two64; omega
  simp only []
  generalize hT : List.foldl _ (0 : Int) v = T
  have hT' : T = (((v.map loopLen).sum : Nat) : Int) := by rw [← hT]; exact hacc
  subst hT'
  simp only [hsz, loopLabels_sum]
  simp (disch := omega) only [u64_add_small, u64_mul_small]
  have hsum : (v.map (fun q => 23 + loopLen q)).sum = 23 * v.length + (v.map loopLen).sum :=
    sum_map_add 23 loopLen v
  have h8hdr : (CxxPrims.encode_int64_le (Prim.u64OfInt (Cxx.i64OfU64 v.length))).length = 8 := by
    rw [CxxPrims.encode_int64_le_eq]; rfl
  cases hs : Impl.V1.encodeSlots Impl.V1.encodeLoopSlot v with
  | ub u => exact absurd hs (encodeSlots_noub encodeLoopSlot_noub _ u)
  | throw e =>
    simp only []
    have hnot : ¬ (9223372036854775807 < 8 + 23 * v.length + (v.map loopLen).sum) := by omega
    simp only [run, hnot, if_false, bind_run]
    rw [Writes.put _ _ [] (by rw [h8hdr]; simp; omega)]
    simp only []
    rw [forIn_slots_throw (len := fun q => 23 + loopLen q) encodeLoops_body2_ok encodeLoopSlot_len
      encodeLoops_body2_throw v e hs _ _ (by rw [hsum]; simp [h8hdr]; omega)]
  | ok slots =>
    simp only []
    have hslots := encodeSlots_length (len := fun q => 23 + loopLen q) encodeLoopSlot_len v slots hs
    rw [hsum] at hslots
    have hlen : (u64le.enc (UInt64.ofNat v.length) ++ slots).length = 8 + 23 * v.length + (v.map loopLen).sum := by
      simp only [List.length_append, Impl.V2.u64le_enc_length, hslots]; omega
    rw [hlen]
    simp only [Nat.lt_irrefl, if_false]
    refine run_of_writesTo ?_ hlen (by omega)
    simp only [CxxPrims.encode_int64_le_eq, count_bits]
    refine WritesTo.congr
      ((Writes.put _).bindTo <| (forIn_slots_ok encodeLoops_body2_ok v slots hs).bindTo <|
        WritesTo.endCheck _) ?_
    simp

end Gen.ImplV1
end EngineModel
