/-
Laws of the writer monad `Wr` (Impl/CursorCxx.lean) in which the generated
encoders run: a writer that only appends bytes (`Writes m w`) fills a buffer of
exactly `w.length` bytes with `w`.
-/
import EngineModel.Impl.CursorCxx
import EngineModel.Format.Codec
set_option linter.unusedSimpArgs false

namespace EngineModel
namespace Wr

@[simp] theorem bind_run {α β} (m : Wr α) (f : α → Wr β) (size : Nat) (out : Bytes) :
    (m >>= f) size out = match m size out with
      | .ok (a, o) => f a size o
      | .throw e => .throw e
      | .ub u => .ub u := rfl
@[simp] theorem pure_run {α} (a : α) (size : Nat) (out : Bytes) : (pure a : Wr α) size out = .ok (a, out) := rfl
@[simp] theorem throwW_run {α} (e : Exn) (size : Nat) (out : Bytes) : (throwW e : Wr α) size out = .throw e := rfl

/-- `m` appends exactly the bytes `w` whenever they fit. -/
def Writes (m : Wr Unit) (w : Bytes) : Prop :=
  ∀ size out, out.length + w.length ≤ size → m size out = .ok ((), out ++ w)

theorem Writes.put (b : Bytes) : Writes (put b) b := by
  intro size out h
  simp [Wr.put, h]

theorem Writes.pure : Writes (pure ()) [] := by
  intro size out _
  simp

theorem Writes.bind {m n : Wr Unit} {a b : Bytes} (hm : Writes m a) (hn : Writes n b) :
    Writes (m >>= fun _ => n) (a ++ b) := by
  intro size out h
  simp only [List.length_append] at h
  simp only [bind_run, hm size out (by omega)]
  rw [hn size (out ++ a) (by simp; omega)]
  simp

theorem Writes.forIn {α} {f : α → Wr Unit} {g : α → Bytes} (h : ∀ x, Writes (f x) (g x)) :
    ∀ xs : List α, Writes (forIn' xs f) (xs.flatMap g) := by
  intro xs
  induction xs with
  | nil => exact Writes.pure
  | cons x r ih =>
    simp only [forIn', List.flatMap_cons]
    exact (h x).bind ih

theorem Writes.congr {m : Wr Unit} {a b : Bytes} (hm : Writes m a) (e : a = b) : Writes m b := e ▸ hm

/-- Exact buffer sizing: the returned vector is what was written. -/
theorem run_of_writes {m : Wr Unit} {w : Bytes} {size : Nat} (h : Writes m w) (hs : w.length = size)
    (hm : size ≤ 9223372036854775807) : run size m = .ok w := by
  have := h size [] (by simp; omega)
  have hnot : ¬ (9223372036854775807 < size) := by omega
  simp [run, this, hs, hnot]

/-- Spec's repetition of an element encoder is a `flatMap`. -/
theorem encL_eq_flatMap {α} (c : Codec α) (l : List α) : Codec.encL c l = l.flatMap c.enc := by
  induction l with
  | nil => rfl
  | cons a l ih => simp [Codec.encL, ih]

theorem u64_add_small {a b : Nat} (h : a + b < 18446744073709551616) : Cxx.U64.add a b = a + b := by
  simp [Cxx.U64.add, Cxx.two64, Nat.mod_eq_of_lt h]

theorem u64_mul_small {a b : Nat} (h : a * b < 18446744073709551616) : Cxx.U64.mul a b = a * b := by
  simp [Cxx.U64.mul, Cxx.two64, Nat.mod_eq_of_lt h]

/-- `static_cast<int64_t>(v.size())` stored as a bit pattern is the count itself. -/
theorem count_bits (n : Nat) : Prim.u64OfInt (Cxx.i64OfU64 n) = UInt64.ofNat n := by
  apply UInt64.toNat_inj.mp
  unfold Prim.u64OfInt Cxx.i64OfU64 Cxx.two64
  simp only [UInt64.toNat_ofNat']
  split <;> omega

theorem Writes.forIn_mem {α} {f : α → Wr Unit} {g : α → Bytes} :
    ∀ xs : List α, (∀ x ∈ xs, Writes (f x) (g x)) → Writes (forIn' xs f) (xs.flatMap g) := by
  intro xs
  induction xs with
  | nil => intro _; exact Writes.pure
  | cons x r ih =>
    intro h
    simp only [forIn', List.flatMap_cons]
    exact (h x (by simp)).bind (ih (fun y hy => h y (by simp [hy])))

/-- A loop whose body throws on the first "bad" element, and only appends bytes before it,
throws — it cannot overflow the buffer first when the buffer has room for all the appended bytes. -/
theorem forIn_throws {α} {f : α → Wr Unit} {g : α → Bytes} {e : Exn} (bad : α → Prop)
    (hgood : ∀ x, ¬ bad x → Writes (f x) (g x)) (hbad : ∀ x, bad x → ∀ size out, f x size out = .throw e) :
    ∀ xs : List α, (∃ x ∈ xs, bad x) → ∀ size out, out.length + (xs.flatMap g).length ≤ size →
      forIn' xs f size out = .throw e := by
  intro xs
  induction xs with
  | nil => intro ⟨x, hx, _⟩; simp at hx
  | cons x r ih =>
    intro hex size out hroom
    simp only [forIn', bind_run]
    by_cases hb : bad x
    · rw [hbad x hb]
    · simp only [List.flatMap_cons, List.length_append] at hroom
      rw [hgood x hb size out (by omega)]
      simp only []
      obtain ⟨y, hy, hyb⟩ := hex
      have hy' : y ∈ r := by
        rcases List.mem_cons.mp hy with rfl | h
        · exact absurd hyb hb
        · exact h
      exact ih ⟨y, hy', hyb⟩ size (out ++ g x) (by rw [List.length_append]; omega)

theorem flatMap_singleton (l : Bytes) : l.flatMap (fun c => [c]) = l := by
  induction l with
  | nil => rfl
  | cons a l ih => simp [List.flatMap_cons, ih]

/-- `std::accumulate` of the label lengths in `int64_t` (with the conversions through `size_t`
that the lambda performs) is their sum as long as it stays below 2^63. -/
theorem accumulate_lengths {α} (len : α → Nat) : ∀ (l : List α) (x : Int), 0 ≤ x →
    x + ((l.map len).sum : Nat) < 9223372036854775808 →
    List.foldl (fun (x : Int) (e : α) => Cxx.i64OfU64 (Cxx.U64.add (Cxx.u64OfInt x) (len e))) x l =
      x + ((l.map len).sum : Nat) := by
  intro l
  induction l with
  | nil => intro x _ _; simp
  | cons a l ih =>
    intro x hx hb
    simp only [List.foldl_cons, List.map_cons, List.sum_cons] at hb ⊢
    have step : Cxx.i64OfU64 (Cxx.U64.add (Cxx.u64OfInt x) (len a)) = x + (len a : Int) := by
      unfold Cxx.i64OfU64 Cxx.U64.add Cxx.u64OfInt Cxx.two64
      split <;> omega
    rw [step, ih (x + len a) (by omega) (by omega)]
    omega

/-- The overview waveform's flat point bytes seen as the C++ vector of points. -/
theorem triples_length : ∀ (n : Nat) (b : Bytes), b.length ≤ n → (triples b).length = b.length / 3 := by
  intro n
  induction n with
  | zero => intro b h; match b, h with | [], _ => rfl
  | succ n ih =>
    intro b h
    match b with
    | [] => rfl
    | [_] => simp [triples]
    | [_, _] => simp [triples]
    | x :: y :: z :: r =>
      simp only [triples, List.length_cons]
      rw [ih r (by simp at h; omega)]
      omega

theorem triples_flat : ∀ (n : Nat) (b : Bytes), b.length ≤ n → b.length % 3 = 0 →
    (triples b).flatMap (fun e => [e.1, e.2.1, e.2.2]) = b := by
  intro n
  induction n with
  | zero => intro b h _; match b, h with | [], _ => rfl
  | succ n ih =>
    intro b h h3
    match b, h3 with
    | [], _ => rfl
    | [_], h3 => simp at h3
    | [_, _], h3 => simp at h3
    | x :: y :: z :: r, h3 =>
      simp only [triples, List.flatMap_cons]
      rw [ih r (by simp at h; omega) (by simp at h3; omega)]
      rfl

theorem triple_bytes (b : Bytes) (h : b.length = 3) : [(triple b).1, (triple b).2.1, (triple b).2.2] = b := by
  match b, h with
  | [x, y, z], _ => rfl

end Wr
end EngineModel
