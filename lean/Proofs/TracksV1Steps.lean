/-
Step lemmas for the 1.x `writeSnap`: which conversions can fail, how, and what
they yield when they do not.
-/
import EngineModel.TracksV1.Model
import Proofs.TracksV1Float

namespace EngineModel.TracksV1

open Impl.V1 (GMarker HotCue LoopV Entry Wave Beat Cues Loops)
open Fl (FOps)

/-! ### `Res` plumbing -/

@[simp] theorem Res.bind_ok' {α β} (a : α) (f : α → Res β) : (Res.ok a).bind f = f a := rfl
@[simp] theorem Res.bind_throw' {α β} (e : Exn) (f : α → Res β) : (Res.throw e : Res α).bind f = .throw e := rfl
@[simp] theorem Res.bind_ub' {α β} (u : Ub) (f : α → Res β) : (Res.ub u : Res α).bind f = .ub u := rfl

/-- "ok or throw": never undefined behaviour. -/
def Defined {α} (r : Res α) : Prop := ∀ u, r ≠ .ub u

theorem Defined.ok {α} (a : α) : Defined (Res.ok a) := fun _ h => by cases h
theorem Defined.throw {α} (e : Exn) : Defined (Res.throw e : Res α) := fun _ h => by cases h

theorem Defined.bind {α β} {r : Res α} {f : α → Res β} (h : Defined r) (hf : ∀ a, r = .ok a → Defined (f a)) :
    Defined (r.bind f) := by
  cases r with
  | ok a => exact hf a rfl
  | throw e => exact Defined.throw e
  | ub u => exact absurd rfl (h u)

theorem Res.bind_eq_ok {α β} {r : Res α} {f : α → Res β} {b : β} (h : r.bind f = .ok b) :
    ∃ a, r = .ok a ∧ f a = .ok b := by
  cases r with
  | ok a => exact ⟨a, rfl, h⟩
  | throw e => cases h
  | ub u => cases h

/-! ### `mapRes` -/

theorem mapRes_ok_map {α β} (f : α → Res β) (g : α → β) (l : List α) (h : ∀ a ∈ l, f a = .ok (g a)) :
    mapRes f l = .ok (l.map g) := by
  induction l with
  | nil => rfl
  | cons a t ih =>
    have ha := h a (List.mem_cons_self ..)
    have ht := ih (fun b hb => h b (List.mem_cons_of_mem _ hb))
    simp [mapRes, ha, ht]

theorem mapRes_defined {α β} (f : α → Res β) (l : List α) (h : ∀ a ∈ l, Defined (f a)) : Defined (mapRes f l) := by
  induction l with
  | nil => exact Defined.ok _
  | cons a t ih =>
    have ha := h a (List.mem_cons_self ..)
    have ht := ih (fun b hb => h b (List.mem_cons_of_mem _ hb))
    unfold mapRes
    cases hfa : f a with
    | ok b =>
      cases hm : mapRes f t with
      | ok r => exact Defined.ok _
      | throw e => exact Defined.throw _
      | ub u => exact absurd hm (ht u)
    | throw e => exact Defined.throw _
    | ub u => exact absurd hfa (ha u)

theorem mapRes_ok_all {α β} (f : α → Res β) (l : List α) (r : List β) (h : mapRes f l = .ok r) :
    ∀ a ∈ l, ∃ b, f a = .ok b := by
  induction l generalizing r with
  | nil => intro a ha; cases ha
  | cons a t ih =>
    unfold mapRes at h
    cases hfa : f a with
    | ok b =>
      rw [hfa] at h
      cases hm : mapRes f t with
      | ok r' =>
        intro c hc
        cases hc with
        | head => exact ⟨b, hfa⟩
        | tail _ hc' => exact ih r' hm c hc'
      | throw e => rw [hm] at h; cases h
      | ub u => rw [hm] at h; cases h
    | throw e => rw [hfa] at h; cases h
    | ub u => rw [hfa] at h; cases h

/-! ### length, BPM -/

theorem i64div_pos (a d : Int) (ha : Cxx.inI64 a = true) (hd : 1 ≤ d) : ∃ q, Cxx.I64.div a d = some q := by
  unfold Cxx.I64.div
  have hne : ¬ d = 0 := by omega
  rw [if_neg hne]
  unfold Cxx.inI64 Cxx.i64Min Cxx.i64Max at ha
  simp only [decide_eq_true_eq] at ha
  have hin : Cxx.inI64 (a.tdiv d) = true := by
    unfold Cxx.inI64 Cxx.i64Min Cxx.i64Max
    simp only [decide_eq_true_eq]
    by_cases h0 : 0 ≤ a
    · have h1 := Int.tdiv_le_self d h0
      have h2 : 0 ≤ a.tdiv d := Int.tdiv_nonneg h0 (by omega)
      omega
    · have hn : 0 ≤ -a := by omega
      have h1 := Int.tdiv_le_self d hn
      have h2 : 0 ≤ (-a).tdiv d := Int.tdiv_nonneg hn (by omega)
      rw [Int.neg_tdiv] at h1 h2
      omega
  unfold Cxx.chk64
  rw [if_pos hin]
  exact ⟨_, rfl⟩

theorem inI64_s64 (x : UInt64) : Cxx.inI64 (Prim.s64 x) = true := by
  have := Prim.s64_range x
  unfold Cxx.inI64 Cxx.i64Min Cxx.i64Max
  simp only [decide_eq_true_eq]
  omega

theorem lengthCalculated_ok (c : Option UInt64) (r : Option Bits) : ∃ v, lengthCalculated c r = .ok v := by
  unfold lengthCalculated
  cases c with
  | none => exact ⟨none, rfl⟩
  | some c =>
    cases r with
    | none => exact ⟨none, rfl⟩
    | some r =>
      simp only
      by_cases hr : Fl.rateDivisible r = true
      · obtain ⟨d, hd, hd1⟩ := Fl.toI64_pos_of_rateDivisible r hr
        obtain ⟨q, hq⟩ := i64div_pos (Prim.s64 c) d (inI64_s64 c) hd1
        simp [hr, hd, hq]
      · simp [hr]

theorem roundedBpm_ok (b : Option Bits) : ∃ v, roundedBpm b = .ok v := by
  unfold roundedBpm
  cases b with
  | none => exact ⟨none, rfl⟩
  | some b =>
    simp only
    by_cases h : Fl.absLt63 b = true
    · obtain ⟨v, hv⟩ := Fl.toI64_some_of_absLt63 b h
      simp [h, hv]
    · simp [h]

theorem roundedBpm_none : roundedBpm none = .ok none := rfl

/-! ### waveform extents never hit undefined behaviour -/

theorem extentsRate_toI64 (r : Bits) : ∃ v, Fl.toI64 (extentsRate r) = some v := by
  unfold extentsRate
  by_cases h : Fl.absLt63 r = true
  · rw [if_pos h]; exact Fl.toI64_some_of_absLt63 r h
  · rw [if_neg h]; exact ⟨0, Fl.toI64_zero⟩

theorem toI64_inI64 (x : Bits) (v : Int) (h : Fl.toI64 x = some v) : Cxx.inI64 v = true := by
  unfold Fl.toI64 at h
  simp only at h
  by_cases he : F64.expOf x = 2047
  · rw [if_pos he] at h; cases h
  · rw [if_neg he] at h
    generalize (if F64.signOf x = true then
        -((if F64.expOf x = 0 then 0
          else if F64.expOf x ≥ 1075 then (F64.manOf x + 4503599627370496) * 2 ^ (F64.expOf x - 1075)
          else (F64.manOf x + 4503599627370496) / 2 ^ (1075 - F64.expOf x) : Nat) : Int)
      else ((if F64.expOf x = 0 then 0
          else if F64.expOf x ≥ 1075 then (F64.manOf x + 4503599627370496) * 2 ^ (F64.expOf x - 1075)
          else (F64.manOf x + 4503599627370496) / 2 ^ (1075 - F64.expOf x) : Nat) : Int)) = w at h
    by_cases hin : Cxx.inI64 w = true
    · rw [if_pos hin] at h
      cases h
      exact hin
    · rw [if_neg hin] at h; cases h

/-- `(x / 210) * 2` stays inside `int64_t`. -/
theorem qn_some (o : FOps) (x : Bits) (v : Int) (h : Fl.toI64 x = some v) :
    ∃ q, Gen.TrackUtils.waveform_quantisation_number o.cxx x = some q ∧ Cxx.inI64 q = true := by
  have hin := toI64_inI64 x v h
  unfold Cxx.inI64 Cxx.i64Min Cxx.i64Max at hin
  simp only [decide_eq_true_eq] at hin
  have hdiv : Cxx.I64.div v 210 = some (v.tdiv 210) ∧ (v.tdiv 210) * 2 ≤ 9223372036854775807 ∧
      -9223372036854775808 ≤ (v.tdiv 210) * 2 := by
    by_cases h0 : 0 ≤ v
    · have he := Int.tdiv_eq_ediv_of_nonneg (b := 210) h0
      unfold Cxx.I64.div Cxx.chk64 Cxx.inI64 Cxx.i64Min Cxx.i64Max
      rw [he]
      have : (decide (-9223372036854775808 ≤ v / 210 ∧ v / 210 ≤ 9223372036854775807)) = true := by
        simp only [decide_eq_true_eq]; omega
      simp [this]
      omega
    · have hn : 0 ≤ -v := by omega
      have he := Int.tdiv_eq_ediv_of_nonneg (b := 210) hn
      rw [Int.neg_tdiv] at he
      have hv : v.tdiv 210 = -((-v) / 210) := by omega
      unfold Cxx.I64.div Cxx.chk64 Cxx.inI64 Cxx.i64Min Cxx.i64Max
      rw [hv]
      have : (decide (-9223372036854775808 ≤ -((-v) / 210) ∧ -((-v) / 210) ≤ 9223372036854775807)) = true := by
        simp only [decide_eq_true_eq]; omega
      simp [this]
      omega
  obtain ⟨hd, hhi, hlo⟩ := hdiv
  have hm : Cxx.I64.mul (v.tdiv 210) 2 = some (v.tdiv 210 * 2) := by
    unfold Cxx.I64.mul Cxx.chk64 Cxx.inI64 Cxx.i64Min Cxx.i64Max
    have : decide (-9223372036854775808 ≤ v.tdiv 210 * 2 ∧ v.tdiv 210 * 2 ≤ 9223372036854775807) = true := by
      simp only [decide_eq_true_eq]; omega
    simp [this]
  -- (the commuted product too, so that a harmless `2 * (x / 210)` in the source keeps this proof)
  have hm' : Cxx.I64.mul 2 (v.tdiv 210) = some (v.tdiv 210 * 2) := by
    rw [← hm]; unfold Cxx.I64.mul; rw [Int.mul_comm]
  refine ⟨v.tdiv 210 * 2, ?_, ?_⟩
  · unfold Gen.TrackUtils.waveform_quantisation_number
    have ht : o.cxx.toI64 x = some v := h
    simp [ht, hd, hm, hm']
  · unfold Cxx.inI64 Cxx.i64Min Cxx.i64Max
    simp only [decide_eq_true_eq]; omega

theorem u64OfInt_ne_zero (q : Int) (hq : q ≠ 0) (hin : Cxx.inI64 q = true) : Cxx.u64OfInt q ≠ 0 := by
  unfold Cxx.inI64 Cxx.i64Min Cxx.i64Max at hin
  simp only [decide_eq_true_eq] at hin
  unfold Cxx.u64OfInt Cxx.two64
  omega

theorem ovwExtents_ok (o : FOps) (n : UInt64) (r : Bits) : ∃ e, ovwExtents o n r = .ok e := by
  obtain ⟨v, hv⟩ := extentsRate_toI64 r
  obtain ⟨q, hq, hin⟩ := qn_some o (extentsRate r) v hv
  unfold ovwExtents Gen.TrackUtils.calculate_overview_waveform_extents
  rw [hq]
  simp only [Option.bind_eq_bind, Option.bind_some, Option.pure_def]
  by_cases hz : (decide (n.toNat = Cxx.u64OfInt 0) || decide (q = 0)) = true
  · simp [hz, liftUb]
  · have hq0 : q ≠ 0 := by
      intro h; apply hz; simp [h]
    have hu := u64OfInt_ne_zero q hq0 hin
    simp [hz, liftUb, Cxx.U64.div, Cxx.U64.mod, hu]

theorem hiresExtents_ok (o : FOps) (n : UInt64) (r : Bits) : ∃ e, hiresExtents o n r = .ok e := by
  obtain ⟨v, hv⟩ := extentsRate_toI64 r
  obtain ⟨q, hq, hin⟩ := qn_some o (extentsRate r) v hv
  unfold hiresExtents Gen.TrackUtils.calculate_high_resolution_waveform_extents
  rw [hq]
  simp only [Option.bind_eq_bind, Option.bind_some, Option.pure_def]
  by_cases hz : (decide (n.toNat = Cxx.u64OfInt 0) || decide (q = 0)) = true
  · simp [hz, liftUb]
  · have hq0 : q ≠ 0 := by
      intro h; apply hz; simp [h]
    have hu := u64OfInt_ne_zero q hq0 hin
    simp [hz, liftUb, Cxx.U64.div, Cxx.U64.mod, hu]

/-! ### resampling stays inside the waveform -/

theorem resample_ok (w : List Entry) (size : Nat) (hw : w ≠ []) : ∃ es, resample w size = .ok es := by
  unfold resample
  have hlen : 0 < w.length := List.length_pos_iff.mpr hw
  have hall : ∀ i ∈ List.range size,
      (fun i => liftUb (w[w.length * (2 * i + 1) / (2 * size)]?) Ub.oob_index) i =
        .ok ((fun i => w[w.length * (2 * i + 1) / (2 * size)]?.getD default) i) := by
    intro i hi
    have hi' : i < size := List.mem_range.mp hi
    have hidx : w.length * (2 * i + 1) / (2 * size) < w.length := by
      apply (Nat.div_lt_iff_lt_mul (by omega)).mpr
      have : 2 * i + 1 < 2 * size := by omega
      exact Nat.mul_lt_mul_of_pos_left this hlen
    simp only
    rw [List.getElem?_eq_getElem hidx]
    rfl
  exact ⟨_, mapRes_ok_map _ _ _ hall⟩

theorem toOverview_ok (o : FOps) (c : Option UInt64) (r : Option Bits) (w : List Entry) :
    ∃ v, toOverview o c r w = .ok v := by
  unfold toOverview
  cases c with
  | none => exact ⟨_, rfl⟩
  | some n =>
    cases r with
    | none => exact ⟨_, rfl⟩
    | some r =>
      obtain ⟨⟨size, spe⟩, he⟩ := ovwExtents_ok o n r
      simp only [he]
      by_cases hw : w.isEmpty = true
      · simp [hw]
      · have hne : w ≠ [] := by intro h; apply hw; simp [h]
        obtain ⟨es, hes⟩ := resample_ok w size hne
        simp [hw, hes]

/-- The condition under which a waveform can be stored. -/
def waveStorable (c : Option UInt64) (r : Option Bits) (w : List Entry) : Prop :=
  w = [] ∨ ∃ n rr, c = some n ∧ r = some rr ∧ n ≠ 0 ∧ F64.isZero rr = false

theorem toHires_ok (o : FOps) (c : Option UInt64) (r : Option Bits) (w : List Entry) (h : waveStorable c r w) :
    ∃ spe, toHires o c r w = .ok ⟨spe, w⟩ := by
  unfold toHires
  rcases h with hw | ⟨n, rr, hc, hr, hn, hz⟩
  · subst hw
    cases c with
    | none => exact ⟨_, rfl⟩
    | some n =>
      cases r with
      | none => exact ⟨_, rfl⟩
      | some rr =>
        simp only
        by_cases hz : (n = 0 || F64.isZero rr) = true
        · simp [hz]
        · obtain ⟨⟨sz, spe⟩, he⟩ := hiresExtents_ok o n rr
          simp [hz, he]
  · subst hc hr
    obtain ⟨⟨sz, spe⟩, he⟩ := hiresExtents_ok o n rr
    have : (n = 0 || F64.isZero rr) = false := by simp [hn, hz]
    simp [this, he]

theorem toHires_cases (o : FOps) (c : Option UInt64) (r : Option Bits) (w : List Entry) :
    (∃ v, toHires o c r w = .ok v ∧ waveStorable c r w) ∨
    (toHires o c r w = .throw (.dj "invalid_track_snapshot") ∧ ¬ waveStorable c r w) := by
  by_cases hs : waveStorable c r w
  · obtain ⟨spe, h⟩ := toHires_ok o c r w hs
    exact Or.inl ⟨_, h, hs⟩
  · right
    refine ⟨?_, hs⟩
    have hw : w ≠ [] := fun h => hs (Or.inl h)
    have hwe : w.isEmpty = false := by cases w <;> simp_all
    unfold toHires
    cases c with
    | none => simp [hwe]
    | some n =>
      cases r with
      | none => simp [hwe]
      | some rr =>
        simp only
        by_cases hz : (n = 0 || F64.isZero rr) = true
        · simp [hz, hwe]
        · exfalso
          apply hs
          right
          refine ⟨n, rr, rfl, rfl, ?_, ?_⟩
          · intro h; apply hz; simp [h]
          · cases hzz : F64.isZero rr with
            | false => rfl
            | true => exfalso; apply hz; simp [hzz]

theorem toLoops_cases (ls : List (Option LoopV)) :
    (ls.length ≤ 8 ∧ toLoops ls = .ok (padTo8 ls)) ∨ (8 < ls.length ∧ toLoops ls = .throw (.dj "loops_overflow")) := by
  unfold toLoops
  by_cases h : 8 < ls.length
  · right; simp [h]
  · left; simp [h]; omega

end EngineModel.TracksV1
