/-
Statement-level lemmas for the schema-1.x crate model: what the INSTEAD OF
triggers of the List-backed views (>= 1.9.1) do to the stored rows equals the
plain table statement of the older schemas, so that the rest of the proofs can
work with `filter` / `map` / `++` for every schema version.
-/
import EngineModel.Api.CratesV1
import Mathlib.Data.List.Nodup

namespace EngineModel.Api.CratesV1
open EngineModel.Pure.Detect

theorem forEachOld_filter_ne {α} [BEq α] [LawfulBEq α] (olds t : List α) :
    forEachOld olds (fun old acc => acc.filter (fun r => !(r == old))) t
      = t.filter (fun r => !olds.contains r) := by
  unfold forEachOld
  induction olds generalizing t with
  | nil => simp
  | cons o os ih =>
    simp only [List.foldl_cons, ih, List.filter_filter]
    apply List.filter_congr
    intro r _
    simp [Bool.and_comm]

theorem deletePairs_eq (s : Schema) (t : List (Id × Id)) (p : Id × Id → Bool) :
    deletePairs s t p = t.filter (fun r => !p r) := by
  unfold deletePairs
  split
  · rw [forEachOld_filter_ne]
    apply List.filter_congr
    intro r hr
    simp [List.mem_filter, hr]
  · rfl

theorem deleteCrate_eq (s : Schema) (crate : List CrateRow) (c : Id) :
    deleteCrate s crate c = crate.filter (fun r => !(r.id == c)) := by
  unfold deleteCrate
  split
  · rw [forEachOld_filter_ne]
    apply List.filter_congr
    intro r hr
    by_cases hc : r.id = c <;> simp [List.mem_filter, hr, hc]
  · rfl

/-- Is the membership row visible through the `CrateTrackList` view? -/
def ctlVisible (s : Schema) (db : Db) (r : Id × Id) : Bool := !hasListViews s || crateExists db r.1

theorem ctlView_eq (s : Schema) (db : Db) : ctlView s db = db.ctl.filter (ctlVisible s db) := by
  unfold ctlView ctlVisible
  split <;> rename_i h
  · simp [h]
  · simp [h]

theorem deleteCtl_ctl (s : Schema) (db : Db) (p : Id × Id → Bool) :
    (deleteCtl s db p).ctl = db.ctl.filter (fun r => !(ctlVisible s db r && p r)) := by
  unfold deleteCtl
  split <;> rename_i h
  · simp only [forEachOld_filter_ne]
    apply List.filter_congr
    intro r hr
    simp [ctlView, h, ctlVisible, List.mem_filter, hr, Bool.or_comm]
  · simp [ctlVisible, h]

theorem deleteCtl_other (s : Schema) (db : Db) (p : Id × Id → Bool) :
    (deleteCtl s db p).crate = db.crate ∧ (deleteCtl s db p).cpl = db.cpl ∧ (deleteCtl s db p).ch = db.ch ∧
    (deleteCtl s db p).track = db.track ∧ (deleteCtl s db p).trackSeq = db.trackSeq := by
  unfold deleteCtl
  split <;> simp

/-- With unique ids at most one row has a given id. -/
theorem filter_id_of_nodup {crate : List CrateRow} (h : (crate.map (·.id)).Nodup) (c : Id) :
    crate.filter (·.id == c) = [] ∨ ∃ r, r ∈ crate ∧ r.id = c ∧ crate.filter (·.id == c) = [r] := by
  induction crate with
  | nil => simp
  | cons a l ih =>
    simp only [List.map_cons, List.nodup_cons] at h
    by_cases hac : a.id = c
    · right
      refine ⟨a, by simp, hac, ?_⟩
      have : l.filter (·.id == c) = [] := by
        rw [List.filter_eq_nil_iff]
        intro r hr hrc
        simp only [beq_iff_eq] at hrc
        exact h.1 (by rw [hac, ← hrc]; exact List.mem_map_of_mem hr)
      simp [List.filter_cons, hac, this]
    · rcases ih h.2 with h0 | ⟨r, hr, hrc, hf⟩
      · left; simp [List.filter_cons, hac, h0]
      · right; exact ⟨r, by simp [hr], hrc, by simp [List.filter_cons, hac, hf]⟩

theorem updateCratePath_eq (s : Schema) {crate : List CrateRow} (h : (crate.map (·.id)).Nodup) (c : Id) (path : Name) :
    updateCratePath s crate c path = crate.map (fun r => if r.id == c then { r with path := path } else r) := by
  unfold updateCratePath
  split
  · rcases filter_id_of_nodup h c with h0 | ⟨r, hr, hrc, hf⟩
    · rw [h0]
      simp only [forEachOld, List.foldl_nil]
      rw [List.filter_eq_nil_iff] at h0
      symm
      conv => rhs; rw [← List.map_id crate]
      apply List.map_congr_left
      intro x hx
      have := h0 x hx
      simp_all
    · rw [hf]
      simp only [forEachOld, List.foldl_cons, List.foldl_nil]
      apply List.map_congr_left
      intro x hx
      by_cases hxc : x.id = c
      · have : x = r := List.inj_on_of_nodup_map h hx hr (by rw [hxc, hrc])
        simp [this, hrc]
      · have : ¬ x = r := fun e => hxc (by rw [e, hrc])
        simp [hxc, this]
  · rfl

theorem updateCrateTitlePath_eq (s : Schema) {crate : List CrateRow} (h : (crate.map (·.id)).Nodup) (c : Id)
    (title path : Name) :
    updateCrateTitlePath s crate c title path
      = crate.map (fun r => if r.id == c then { r with title := title, path := path } else r) := by
  unfold updateCrateTitlePath
  split
  · rcases filter_id_of_nodup h c with h0 | ⟨r, hr, hrc, hf⟩
    · rw [h0]
      simp only [forEachOld, List.foldl_nil]
      rw [List.filter_eq_nil_iff] at h0
      symm
      conv => rhs; rw [← List.map_id crate]
      apply List.map_congr_left
      intro x hx
      have := h0 x hx
      simp_all
    · rw [hf]
      simp only [forEachOld, List.foldl_cons, List.foldl_nil]
      apply List.map_congr_left
      intro x hx
      by_cases hxc : x.id = c
      · have : x = r := List.inj_on_of_nodup_map h hx hr (by rw [hxc, hrc])
        simp [this, hrc]
      · have : ¬ x = r := fun e => hxc (by rw [e, hrc])
        simp [hxc, this]
  · rfl

/-! ### id allocation -/
theorem le_foldl_max (l : List Int) (init : Int) : init ≤ l.foldl max init ∧ ∀ x ∈ l, x ≤ l.foldl max init := by
  induction l generalizing init with
  | nil => simp
  | cons a l ih =>
    simp only [List.foldl_cons, List.mem_cons]
    have := ih (max init a)
    refine ⟨by omega, ?_⟩
    intro x hx
    rcases hx with rfl | hx
    · omega
    · exact this.2 x hx

theorem le_maxId {l : List Int} {x : Int} (h : x ∈ l) : x ≤ maxId l := (le_foldl_max l 0).2 x h

theorem idRowid_eq (l : List Id) : idRowid l = maxId l + 1 := by
  unfold idRowid
  cases l <;> simp [maxId]

theorem newCrateId_eq (s : Schema) (db : Db) : newCrateId s db = maxId (db.crate.map (·.id)) + 1 := by
  unfold newCrateId
  split
  · rfl
  · exact idRowid_eq _

theorem newCrateId_fresh (s : Schema) (db : Db) : newCrateId s db ∉ db.crate.map (·.id) := by
  intro h
  have h1 : newCrateId s db ≤ maxId (db.crate.map (·.id)) := le_maxId h
  rw [newCrateId_eq] at h1
  have : ∀ m : Int, ¬ (m + 1 ≤ m) := by intro m; omega
  exact this _ h1

end EngineModel.Api.CratesV1
