/-
Typed columns (property C18, REVIEW item "get() defined on reachable states"):
what an aligned write stores in a column is `colTyped` for the member's declared
type, the triggers keep rows typed, and a typed row is read by an aligned
SELECT / accessor without `ub` and without an exception.
-/
import Proofs.TableTrack
namespace EngineModel
namespace Table

/-! ## values -/

/-- What `wconv` stores for a well-typed member value is typed for its column. -/
theorem wconv_colTyped {ty : FTy} {v : FVal} {x : Val} (hv : wtv ty v = true)
    (hw : wconv ty.wconv v = .ok x) : colTyped ty x = true := by
  cases ty <;> cases v <;> simp only [wtv, Bool.false_eq_true] at hv
  case i64.int i => simp only [FTy.wconv, wconv, Res.ok.injEq] at hw; subst hw; rfl
  case oi64.oint o =>
    cases o <;> (simp only [FTy.wconv, wconv, Res.ok.injEq] at hw; subst hw; rfl)
  case oi32.oint o =>
    cases o with
    | none => simp only [FTy.wconv, wconv, Res.ok.injEq] at hw; subst hw; rfl
    | some i => simp only [FTy.wconv, wconv, Res.ok.injEq] at hw; subst hw; simpa [colTyped] using hv
  case str.str s => simp only [FTy.wconv, wconv, Res.ok.injEq] at hw; subst hw; rfl
  case ostr.ostr o =>
    cases o <;> (simp only [FTy.wconv, wconv, Res.ok.injEq] at hw; subst hw; rfl)
  case odbl.oreal o =>
    cases o with
    | none => simp only [FTy.wconv, wconv, Res.ok.injEq] at hw; subst hw; rfl
    | some b =>
      simp only [FTy.wconv, wconv, Res.ok.injEq, storeReal] at hw
      split at hw
      · subst hw; rfl
      · rename_i hnan
        split at hw
        · subst hw
          show (!F64.isNaN F64.zero) = true
          decide
        · subst hw
          show (!F64.isNaN b) = true
          simpa using hnan
  case bool.bool b =>
    simp only [FTy.wconv, wconv, Res.ok.injEq] at hw; subst hw
    cases b <;> rfl
  case time.time ns =>
    simp only [FTy.wconv, wconv, Res.ok.injEq] at hw; subst hw
    exact truncSec_in64 hv
  case otime.otime o =>
    cases o with
    | none => simp only [FTy.wconv, wconv, Res.ok.injEq] at hw; subst hw; rfl
    | some ns =>
      simp only [FTy.wconv, wconv, Res.ok.injEq] at hw; subst hw
      exact truncSec_in64 hv
  case timeText.time ns =>
    simp only [FTy.wconv, wconv, Res.ok.injEq] at hw; subst hw
    simp only [Bool.and_eq_true] at hv
    exact hv.2
  case blob.blob k b =>
    simp only [FTy.wconv, wconv] at hw
    split at hw
    · rename_i henc
      simp only [Res.ok.injEq] at hw; subst hw
      simp only [colTyped, Bool.and_eq_true]
      exact ⟨hv, henc⟩
    · cases hw

/-- Reading a typed column with the parameter type and conversion of the
member's declared type is defined. -/
theorem rconv_colTyped {ty : FTy} {x : Val} (h : colTyped ty x = true) :
    ∃ v, rconv ty.pty ty.rconv x = .ok v := by
  cases ty <;> cases x <;> simp only [colTyped, Bool.false_eq_true] at h <;>
    simp only [FTy.pty, FTy.rconv, rconv, readInt, readOptInt, parseFt, fromBlob]
  all_goals first
    | exact ⟨_, rfl⟩
    | (simp only [toTimePoint, h, if_true, Res.bind]; exact ⟨_, rfl⟩)
    | (have h0 : toTimePoint 0 = .ok 0 := by decide
       simp only [h0, Res.bind]; exact ⟨_, rfl⟩)
    | (simp only [Bool.and_eq_true, decide_eq_true_eq] at h
       simp only [h.1, if_true]; exact ⟨_, rfl⟩)

/-- A column typed for the accessor type of a member is typed for the member
(the two creation dates: an optional time point for a time point). -/
theorem colTyped_acc (f : TField) {x : Val} (h : colTyped f.accTy x = true) : colTyped f.ty x = true := by
  by_cases hsame : f.accTy = f.ty
  · rw [← hsame]; exact h
  · have hty : f.ty = .time ∧ f.accTy = .otime := by
      cases f <;> first | (exact absurd rfl hsame) | exact ⟨rfl, rfl⟩
    rw [hty.1]; rw [hty.2] at h
    cases x <;> simp only [colTyped, Bool.false_eq_true] at h ⊢
    exact h

/-! ## rows -/

/-- `rowTypedT`, member by member. -/
def RowTyped (raw : Raw TCol) : Prop := ∀ f : TField, colTyped f.ty (raw f.col) = true

theorem rowTypedT_iff (raw : Raw TCol) : rowTypedT raw = true ↔ RowTyped raw := by
  unfold rowTypedT RowTyped
  rw [List.all_eq_true]
  exact ⟨fun h f => h f (TField.mem_all f), fun h f _ => h f⟩

theorem RowTyped.applyFix {uuid : Val} (hu : uuidTyped uuid = true) {raw : Raw TCol} (h : RowTyped raw) :
    RowTyped (applyFix uuid raw) := by
  intro f
  by_cases h1 : f = .origin_track_id
  · subst h1
    unfold Table.applyFix
    split
    · simp only [fixOrigin]
      rw [show TField.origin_track_id.col = TCol.originTrackId from rfl,
        setCol_other _ _ (by decide), setCol_same]
      rfl
    · exact h _
  by_cases h2 : f = .origin_database_uuid
  · subst h2
    unfold Table.applyFix
    split
    · simp only [fixOrigin]
      rw [show TField.origin_database_uuid.col = TCol.originDatabaseUuid from rfl, setCol_same]
      cases uuid <;> first | rfl | (simp only [uuidTyped, Bool.false_eq_true] at hu)
    · exact h _
  rw [applyFix_other _ _ (fun hc => h1 (TField.col_inj (g := .origin_track_id) hc))
    (fun hc => h2 (TField.col_inj (g := .origin_database_uuid) hc))]
  exact h f

theorem RowTyped.stampRow {raw : Raw TCol} (h : RowTyped raw) (st : Option Int)
    (hst : ∀ t, st = some t → in64 (t * 1000000000) = true) : RowTyped (stampRow st raw) := by
  intro f
  cases st with
  | none => exact h f
  | some t =>
    by_cases hf : f = .last_edit_time
    · subst hf
      simp only [Table.stampRow]
      rw [show TField.last_edit_time.col = TCol.lastEditTime from rfl, setCol_same]
      exact hst t rfl
    · rw [stampRow_other _ _ (fun hc => hf (TField.col_inj (g := .last_edit_time) hc))]
      exact h f

/-- Members an INSERT / UPDATE does not write: the id and those the schema has no column for. -/
theorem not_writable {s : Schema2} {f : TField} (h : f ∉ TField.writable s) : f = .id ∨ f.present s = false := by
  by_cases hid : f = .id
  · exact Or.inl hid
  · right
    cases hp : f.present s with
    | false => rfl
    | true => exact absurd (TField.mem_writable.mpr ⟨hid, hp⟩) h

/-- The row an aligned INSERT / UPDATE leaves (before the triggers) is typed when
the columns it does not write are. -/
theorem RowTyped.written {s : Schema2} {ps : List (WB TCol TField)} {r : Row TField} {l : List (TCol × Val)}
    (hps : alignedW tSpec (TField.writable s) [] ps = true) (he : evalParams r ps = .ok l)
    (hr : wtRowT r) {base : Raw TCol}
    (hbase : ∀ f, f ∉ TField.writable s → colTyped f.ty (base f.col) = true) :
    RowTyped (assign base l) := by
  intro f
  by_cases hw : f ∈ TField.writable s
  · obtain ⟨x, hx, hc⟩ := assign_evalParams hps he base hw
    rw [tSpec_tyOf] at hx
    rw [show assign base l f.col = x from hc]
    exact wconv_colTyped (hr f) hx
  · have hnot : f.col ∉ l.map (·.1) := by
      intro hc
      have := evalParams_cols_need hps he hc
      obtain ⟨g, hg, hgc⟩ := List.mem_map.mp this
      rw [tSpec_colOf] at hgc
      exact hw (TField.col_inj hgc ▸ hg)
    rw [assign_not_mem _ _ _ hnot]
    exact hbase f hw

theorem RowTyped.setCol {old : Raw TCol} (h : RowTyped old) {f : TField} {v : FVal} {x : Val}
    (hv : wtv f.accTy v = true) (hw : wconv f.accTy.wconv v = .ok x) : RowTyped (setCol old f.col x) := by
  intro g
  by_cases hg : g = f
  · subst hg
    rw [setCol_same]
    exact colTyped_acc g (wconv_colTyped hv hw)
  · rw [setCol_other _ _ (fun hc => hg (TField.col_inj hc))]
    exact h g

/-! ## `get` and the accessors are defined on typed rows -/

/-- An aligned SELECT reads a typed row without `ub` and without an exception. -/
theorem readRow_typed {s : Schema2} {sel : List (RB TCol TField)} (hsel : alignedR tSpec (TField.present s) sel = true)
    {raw : Raw TCol} (h : RowTyped raw) : ∃ g, readRow raw sel = .ok g := by
  apply readRow_of_all
  intro b hb
  rw [alignedR_src hsel hb]
  unfold expectedSrc
  split
  · simp only [readSrc, tSpec_colOf, tSpec_tyOf]
    exact rconv_colTyped (h b.field)
  · rw [absentSrc_read]; exact ⟨_, rfl⟩

/-- **`get` is defined on well-formed states**: it answers `nullopt` for an id
with no row and a row otherwise — never `ub`, never an exception. -/
theorem track_get_defined {s : Schema2} {st : TStmts} (ha : alignedT s st = true) {d : TDb} (hwf : d.Wf) (i : Int) :
    (findRow .id d.rows i = none ∧ tGet st d i = .ok none) ∨
    (∃ raw g, findRow .id d.rows i = some raw ∧ tGet st d i = .ok (some g)) := by
  simp only [alignedT, Bool.and_eq_true] at ha
  obtain ⟨⟨⟨⟨⟨⟨_, _⟩, _⟩, hsel⟩, _⟩, _⟩, _⟩ := ha
  cases hf : findRow .id d.rows i with
  | none => left; exact ⟨rfl, by unfold tGet; rw [hf]⟩
  | some raw =>
    right
    obtain ⟨hmem, _⟩ := findRow_some hf
    obtain ⟨g, hg⟩ := readRow_typed hsel ((rowTypedT_iff raw).mp (hwf.cols raw hmem))
    exact ⟨raw, g, rfl, by unfold tGet; rw [hf]; simp only [hg]⟩

theorem track_get_of_find {s : Schema2} {st : TStmts} (ha : alignedT s st = true) {d : TDb} (hwf : d.Wf) {i : Int}
    {raw : Raw TCol} (hf : findRow .id d.rows i = some raw) : ∃ g, tGet st d i = .ok (some g) := by
  rcases track_get_defined ha hwf i with ⟨h, _⟩ | ⟨_, g, _, hg⟩
  · rw [hf] at h; cases h
  · exact ⟨g, hg⟩

end Table
end EngineModel
