/-
Small list lemmas shared by the crate proofs (core Lean only).
-/
namespace EngineModel.ListAux

theorem length_le_of_nodup_subset {l m : List Int} (hn : l.Nodup) (hs : ∀ x ∈ l, x ∈ m) :
    l.length ≤ m.length := by
  induction l generalizing m with
  | nil => simp
  | cons a l ih =>
    have hn' := List.nodup_cons.mp hn
    have ha : a ∈ m := hs a (by simp)
    have hsub : ∀ x ∈ l, x ∈ m.erase a := by
      intro x hx
      have hne : x ≠ a := fun e => hn'.1 (e ▸ hx)
      exact (List.mem_erase_of_ne hne).mpr (hs x (List.mem_cons_of_mem _ hx))
    have := ih hn'.2 hsub
    rw [List.length_erase_of_mem ha] at this
    have hpos : 0 < m.length := List.length_pos_of_mem ha
    simp only [List.length_cons]; omega

theorem find?_unique {β : Type} {p : β → Bool} {l : List β} {r : β} (hr : r ∈ l) (hp : p r = true)
    (hu : ∀ r' ∈ l, p r' = true → r' = r) : l.find? p = some r := by
  induction l with
  | nil => simp at hr
  | cons a l ih =>
    by_cases ha : p a = true
    · rw [List.find?_cons_of_pos ha, hu a (by simp) ha]
    · rw [List.find?_cons_of_neg ha]
      rcases List.mem_cons.mp hr with h | h
      · subst h; exact absurd hp ha
      · exact ih h (fun r' hr' => hu r' (List.mem_cons_of_mem _ hr'))

/-- `g 0, …, g (k-1)` are pairwise different. -/
theorem nodup_map_range {g : Nat → Int} {k : Nat} (h : ∀ i j, i < j → j < k → g i ≠ g j) :
    ((List.range k).map g).Nodup := by
  induction k with
  | zero => simp
  | succ k ih =>
    rw [List.range_succ, List.map_append]
    refine List.nodup_append.mpr ⟨ih (fun i j hij hj => h i j hij (by omega)), by simp, ?_⟩
    intro a ha b hb
    simp only [List.map_cons, List.map_nil, List.mem_singleton] at hb
    subst hb
    obtain ⟨i, hi, rfl⟩ := List.mem_map.mp ha
    exact h i k (List.mem_range.mp hi) (by omega)

end EngineModel.ListAux
