/-
Helper lemmas for Properties/C15Faults.lean, schema 1.x crates (the counterpart of Proofs/C15FaultsV2.lean).
-/
import EngineModel.Api.FaultsV1
import Properties.C14
import Proofs.NoUbCratesV1

namespace EngineModel.Proofs.C15FaultsV1
open EngineModel EngineModel.Api.CratesV1 EngineModel.Api.CratesV1.C15 EngineModel.Api.FaultsV1 EngineModel.Pure.Detect
open EngineModel.Spec.Txn EngineModel.Spec.Stmts EngineModel.Properties.C14

theorem stmts_no_rollback (s : Schema) (d : Db) (op : Op) : ∀ x ∈ stmts s d op, x.kind ≠ .rollback := by
  have hb : ∀ x ∈ body s d op, x.kind ≠ .rollback := by
    intro x hx h
    have := CratesV1Stmts.body_rw s d op x hx
    simp [Cmd.rw, h] at this
  intro x hx
  unfold stmts at hx
  split at hx
  · simp only [txn, List.mem_cons, List.mem_append, List.not_mem_nil, or_false] at hx
    rcases hx with (rfl | hx) | rfl
    · simp [Cmd.kind]
    · exact hb x hx
    · simp [Cmd.kind]
  · exact hb x hx

theorem raised_restores (s : Schema) (d : Db) (op : Op) (fault : Option Nat) (auto : Bool)
    (hr : (call fault auto (stmts s d op) d).raised = true) : (call fault auto (stmts s d op) d).conn = Conn.idle d :=
  (C14_shape_sound (stmts s d op) (CratesV1Stmts.stmts_atomic s d op) fault auto d).1 hr

theorem callF_state (s : Schema) (d : Db) (op : Op) (plan : Option Plan) :
    (callF s d op plan).1 = d ∨ (callF s d op plan).1 = (step s d op).1 := by
  cases plan with
  | none => right; rfl
  | some p =>
    simp only [callF]
    split
    · right; rfl
    · split
      · rename_i hr
        left
        have := raised_restores s d op (some p.k) p.auto hr
        show (progRun s d op p).conn.view = d
        unfold progRun; rw [this]; rfl
      · right; rfl

theorem callF_fault_inside (s : Schema) (d : Db) (op : Op) (p : Plan) (hk : p.k < positions s d op)
    (hu : ∀ u, (step s d op).2 ≠ .ub u) : callF s d op (some p) = (d, .throw .sqlite_error) := by
  have h := C14_crates_v1_all_or_nothing s d op p.k p.auto hk
  have hr : (progRun s d op p).raised = true := h.1
  have hc : (progRun s d op p).conn = Conn.idle d := h.2
  unfold callF
  cases hs : (step s d op).2 with
  | ub u' => exact absurd hs (hu u')
  | ok o => simp only [hs, hr, if_true, hc]; rfl
  | throw e => simp only [hs, hr, if_true, hc]; rfl

theorem callF_outcome (s : Schema) (d : Db) (op : Op) (plan : Option Plan) :
    (callF s d op plan).2 = (step s d op).2 ∨ (callF s d op plan).2 = .throw .sqlite_error := by
  cases plan with
  | none => left; rfl
  | some p =>
    simp only [callF]
    split
    · left; rfl
    · split
      · right; rfl
      · left; rfl

theorem cinv_callF {s : Schema} {d : Db} (hI : CInv s d) (op : Op) (plan : Option Plan) : CInv s (callF s d op plan).1 := by
  rcases callF_state s d op plan with h | h
  · rw [h]; exact hI
  · rw [h]; exact step_cinv s hI op

theorem cinv_runF (s : Schema) (hist : List FCall) : ∀ {d : Db}, CInv s d → CInv s (runF s d hist) := by
  induction hist with
  | nil => intro d hI; exact hI
  | cons c t ih => intro d hI; exact ih (cinv_callF hI c.1 c.2)

theorem callF_defined {s : Schema} {d : Db} (hI : CInv s d) (op : Op) (plan : Option Plan) (u : Ub) :
    (callF s d op plan).2 ≠ .ub u := by
  rcases callF_outcome s d op plan with h | h
  · rw [h]; exact step_defined s hI.finv op u
  · rw [h]; intro hh; cases hh

theorem outcomesF_defined (s : Schema) (hist : List FCall) : ∀ {d : Db}, CInv s d →
    ∀ r ∈ outcomesF s d hist, ∀ u, r ≠ .ub u := by
  induction hist with
  | nil => intro d _ r hr; cases hr
  | cons c t ih =>
    intro d hI r hr u
    simp only [outcomesF, List.mem_cons] at hr
    rcases hr with e | e
    · rw [e]; exact callF_defined hI c.1 c.2 u
    · exact ih (cinv_callF hI c.1 c.2) r e u

end EngineModel.Proofs.C15FaultsV1
