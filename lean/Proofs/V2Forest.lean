/-
Schema 2.x crates refine Spec.Forest: for every operation of the Model on a state
whose forest is well-formed, the Spec's verdict on the abstracted forest allows
what the Model does, and the forest afterwards is the abstraction of the Model
state afterwards (`FStep`, `fstep`).
-/
import Proofs.V2Bridge

set_option linter.dupNamespace false
set_option linter.unusedSimpArgs false

namespace EngineModel.Db.V2

open EngineModel.Db.Chain EngineModel.Spec EngineModel.Spec.Forest EngineModel.ListAux

/-! ### sub-operations in closed form -/

theorem plAdd_invalid (d : Db) {title : Bytes} (parent next : Int) (h : Forest.validName title = false) :
    plAdd d title parent next = (d, .throw (exn "crate_invalid_name")) := by
  simp [plAdd, ensureValidName_eq, h]

theorem plAdd_valid (d : Db) {title : Bytes} (parent next : Int) (h : Forest.validName title = true) :
    plAdd d title parent next =
      ({ d with pl := insertBefore d.pl (d.plSeq + 1) parent next title, plSeq := d.plSeq + 1 }, .ok (some (d.plSeq + 1))) := by
  simp [plAdd, ensureValidName_eq, h]

theorem plUpdate_invalid (d : Db) (i : Int) {title : Bytes} (parent next : Int) (h : Forest.validName title = false) :
    plUpdate d i title parent next = (d, .throw (exn "crate_invalid_name")) := by
  simp [plUpdate, ensureValidName_eq, h]

theorem plUpdate_clash (d : Db) {i : Int} {title : Bytes} {parent : Int} (next : Int) {old : Row Bytes}
    (h : Forest.validName title = true) (hg : get d.pl i = some old) (hc : titleClash d.pl i parent title = true) :
    plUpdate d i title parent next = (d, .throw .sqlite_error) := by
  simp only [plUpdate, ensureValidName_eq, h, if_true, hg, hc]
  split <;> rfl

theorem plUpdate_same (d : Db) {i : Int} {title : Bytes} {old : Row Bytes}
    (h : Forest.validName title = true) (hg : get d.pl i = some old) (hc : titleClash d.pl i old.key title = false) :
    plUpdate d i title old.key old.next = ({ d with pl := setVal d.pl i title }, .ok none) := by
  simp [plUpdate, ensureValidName_eq, h, hg, hc]

theorem plUpdate_move (d : Db) {i : Int} {title : Bytes} {parent : Int} (next : Int) {old : Row Bytes}
    (h : Forest.validName title = true) (hg : get d.pl i = some old) (hk : old.key ≠ parent)
    (hc : titleClash d.pl i parent title = false) :
    plUpdate d i title parent next = ({ d with pl := move d.pl i old.key old.next parent next title }, .ok none) := by
  have : (old.next == next && old.key == parent) = false := by simp [hk]
  simp [plUpdate, ensureValidName_eq, h, hg, hc, this]

/-! ### remove_crate -/

/-- `DELETE FROM Playlist WHERE id = ?` for each of `L`, when the children of members of `L` are in `L`:
exactly the rows with an id in `L` go. -/
theorem cores_foldl_deleteCascade {α : Type} (L : List Int) (u : Table α)
    (hcl : ∀ c ∈ cores u, L.contains c.2.1 = true → L.contains c.1 = true) :
    cores (L.foldl deleteCascade u) = (cores u).filter (fun c => !L.contains c.1) := by
  induction L generalizing u with
  | nil =>
    simp only [List.foldl_nil, List.contains_nil, Bool.not_false]
    exact (List.filter_eq_self.mpr (fun _ _ => rfl)).symm
  | cons a L ih =>
    simp only [List.foldl_cons]
    cases hg : Chain.get u a with
    | none =>
      rw [deleteCascade_none hg]
      have hna : ∀ c ∈ cores u, c.1 ≠ a := by
        intro c hc e
        obtain ⟨r, hr, rfl⟩ := mem_cores.mp hc
        exact get_none hg (by simp only [ids, List.mem_map]; exact ⟨r, hr, e⟩)
      rw [ih]
      · apply List.filter_congr
        intro c hc
        simp [List.contains_cons, hna c hc]
      · intro c hc hk
        have := hcl c hc (by simp [List.contains_cons, List.contains_iff_mem.mp hk])
        simp only [List.contains_cons, Bool.or_eq_true, beq_iff_eq] at this
        rcases this with e | e
        · exact absurd e (hna c hc)
        · exact e
    | some old =>
      have h1 := cores_deleteCascade hg
      rw [ih]
      · rw [h1, List.filter_filter]
        apply List.filter_congr
        intro c hc
        by_cases hca : c.1 = a
        · simp [hca]
        · by_cases hcL : L.contains c.1 = true
          · have hcL' : c.1 ∈ L := List.contains_iff_mem.mp hcL
            simp [hca, hcL']
          · have hka : c.2.1 ≠ a := by
              intro e
              have := hcl c hc (by simp [e])
              simp only [List.contains_cons, Bool.or_eq_true, beq_iff_eq] at this
              rcases this with e' | e'
              · exact hca e'
              · exact hcL e'
            simp [hca, hcL, hka]
      · intro c hc hk
        rw [h1] at hc
        obtain ⟨hc1, hc2⟩ := List.mem_filter.mp hc
        have := hcl c hc1 (by simp [List.contains_cons, List.contains_iff_mem.mp hk])
        simp only [List.contains_cons, Bool.or_eq_true, beq_iff_eq] at this
        rcases this with e | e
        · simp [e] at hc2
        · exact e

theorem get_of_mem_pl {d : Db} (hn : (ids d.pl).Nodup) {r : Row Bytes} (hr : r ∈ d.pl) : get d.pl r.id = some r :=
  get_of_mem hn hr

theorem absF_parentOf_row {d : Db} (hn : (ids d.pl).Nodup) {r : Row Bytes} (hr : r ∈ d.pl) :
    (absF d).parentOf r.id = parentOpt r.key := by
  rw [absF_parentOf, get_of_mem hn hr]; rfl

/-- The removed set `c :: descendants c` is closed under "child of". -/
theorem gone_closed {d : Db} (hn : (ids d.pl).Nodup) (hpos : ∀ r ∈ d.pl, 0 < r.id) {c : Int} (hc : c ∈ ids d.pl) :
    ∀ k ∈ cores d.pl, (c :: descSet d c).contains k.2.1 = true → (c :: descSet d c).contains k.1 = true := by
  intro k hk hkey
  obtain ⟨r, hr, rfl⟩ := mem_cores.mp hk
  simp only [core] at hkey ⊢
  have hcpos : 0 < c := by
    simp only [ids, List.mem_map] at hc
    obtain ⟨r0, hr0, e⟩ := hc
    rw [← e]; exact hpos r0 hr0
  have hkey' : r.key = c ∨ r.key ∈ descSet d c := by
    simpa [List.contains_cons] using hkey
  have hk0 : r.key ≠ 0 := by
    rcases hkey' with e | e
    · rw [e]; omega
    · obtain ⟨h1, _⟩ := mem_descSet.mp e
      simp only [ids, List.mem_map] at h1
      obtain ⟨r0, hr0, e0⟩ := h1
      have := hpos r0 hr0
      omega
  have hpo : (absF d).parentOf r.id = some r.key := by
    rw [absF_parentOf_row hn hr, parentOpt_of_ne hk0]
  have hanc : (absF d).isAncestor c r.id = true := by
    rcases hkey' with e | e
    · rw [← e]; exact Forest.isAncestor_of_parent hpo
    · exact Forest.isAncestor_trans (mem_descSet.mp e).2 (Forest.isAncestor_of_parent hpo)
  have : r.id ∈ descSet d c :=
    mem_descSet.mpr ⟨by simp only [ids, List.mem_map]; exact ⟨r, hr, rfl⟩, hanc⟩
  simp [List.contains_cons, this]

/-- `G` lists exactly the crate `c` and its descendants (in whatever order the view delivered them). -/
def IsGone (d : Db) (c : Int) (G : List Int) : Prop := ∀ x, x ∈ G ↔ x = c ∨ x ∈ descSet d c

theorem IsGone.contains {d : Db} {c : Int} {G : List Int} (hG : IsGone d c G) (x : Int) :
    G.contains x = (c :: descSet d c).contains x := by
  have h1 := hG x
  have h2 : x ∈ c :: descSet d c ↔ x = c ∨ x ∈ descSet d c := List.mem_cons
  cases ha : G.contains x <;> cases hb : (c :: descSet d c).contains x
  · rfl
  · have := List.contains_iff_mem.mpr (h1.mpr (h2.mp (List.contains_iff_mem.mp hb)))
    rw [ha] at this; exact absurd this (by simp)
  · have := List.contains_iff_mem.mpr (h2.mpr (h1.mp (List.contains_iff_mem.mp ha)))
    rw [hb] at this; exact absurd this (by simp)
  · rfl

theorem isGone_cons {d : Db} {c : Int} {l : List Int} (h : ∀ x, x ∈ l ↔ x ∈ descSet d c) : IsGone d c (c :: l) := by
  intro x; rw [List.mem_cons, h x]

theorem gone_closed' {d : Db} (hn : (ids d.pl).Nodup) (hpos : ∀ r ∈ d.pl, 0 < r.id) {c : Int} (hc : c ∈ ids d.pl)
    {G : List Int} (hG : IsGone d c G) :
    ∀ k ∈ cores d.pl, G.contains k.2.1 = true → G.contains k.1 = true := by
  intro k hk h
  rw [hG.contains] at h ⊢
  exact gone_closed hn hpos hc k hk h

theorem cores_plRemove_pl {d : Db} (hn : (ids d.pl).Nodup) (hpos : ∀ r ∈ d.pl, 0 < r.id) {c : Int} (hc : c ∈ ids d.pl)
    {G : List Int} (hG : IsGone d c G) :
    cores (plRemove d G).pl = (cores d.pl).filter (fun k => !(c :: descSet d c).contains k.1) := by
  have : cores (plRemove d G).pl = (cores d.pl).filter (fun k => !G.contains k.1) := by
    unfold plRemove
    exact cores_foldl_deleteCascade _ _ (gone_closed' hn hpos hc hG)
  rw [this]
  apply List.filter_congr
  intro k _
  rw [hG.contains]

theorem absF_plRemove {d : Db} (hn : (ids d.pl).Nodup) (hpos : ∀ r ∈ d.pl, 0 < r.id) {c : Int} (hc : c ∈ ids d.pl)
    {G : List Int} (hG : IsGone d c G) :
    absF (plRemove d G) = Forest.removeSubtree (absF d) c := by
  have hcores := cores_plRemove_pl hn hpos hc hG
  unfold absF Forest.removeSubtree
  rw [hcores]
  congr 1
  show List.map crateOf _ = List.filter _ (List.map crateOf (cores d.pl))
  rw [List.filter_map]
  congr 1
  apply List.filter_congr
  intro k hk
  obtain ⟨r, hr, rfl⟩ := mem_cores.mp hk
  simp only [Function.comp, crateOf, core]
  have hmem : r.id ∈ ids d.pl := by simp only [ids, List.mem_map]; exact ⟨r, hr, rfl⟩
  have hiff : r.id ∈ descSet d c ↔ (⟨(cores d.pl).map crateOf⟩ : Forest.Forest).isAncestor c r.id = true := by
    rw [mem_descSet]
    exact ⟨fun h => h.2, fun h => ⟨hmem, h⟩⟩
  by_cases h1 : r.id = c
  · simp [h1]
  · by_cases h2 : r.id ∈ descSet d c
    · have := hiff.mp h2
      simp [List.contains_cons, h1, h2, this]
    · have : (⟨(cores d.pl).map crateOf⟩ : Forest.Forest).isAncestor c r.id = false := by
        cases hx : (⟨(cores d.pl).map crateOf⟩ : Forest.Forest).isAncestor c r.id with
        | false => rfl
        | true => exact absurd (hiff.mpr hx) h2
      simp [List.contains_cons, h1, h2, this]

/-! ### the Spec's verdicts in closed form -/

section spec
variable {f : Forest.Forest}

theorem spec_createRoot_acc {n : Bytes} (i : Int) (hv : Forest.validName n = true) (ht : f.nameTaken none n = false) :
    Forest.step f (.createRoot n) i = .accept ⟨f.crates ++ [⟨i, n, none⟩]⟩ := by
  simp [Forest.step, hv, ht]

theorem spec_createRoot_rej {n : Bytes} (h : Forest.validName n = false ∨ f.nameTaken none n = true) :
    ∀ i f', Forest.step f (.createRoot n) i ≠ .accept f' := by
  intro i f'
  simp only [Forest.step]
  rcases h with h | h
  · simp [h]
  · split
    · simp
    · simp [h]

theorem spec_createSub_acc {p : Int} {n : Bytes} (i : Int) (hl : f.live p = true) (hv : Forest.validName n = true)
    (ht : f.nameTaken (some p) n = false) :
    Forest.step f (.createSub p n) i = .accept ⟨f.crates ++ [⟨i, n, some p⟩]⟩ := by
  simp [Forest.step, hl, hv, ht]

theorem spec_createSub_rej {p : Int} {n : Bytes}
    (h : f.live p = false ∨ Forest.validName n = false ∨ f.nameTaken (some p) n = true) :
    ∀ i f', Forest.step f (.createSub p n) i ≠ .accept f' := by
  intro i f'
  simp only [Forest.step]
  rcases h with h | h | h
  · simp [h]
  · split
    · simp
    · simp [h]
  · split
    · simp
    · split
      · simp
      · simp [h]

theorem spec_rename_acc {c : Int} {n : Bytes} (i : Int) (hl : f.live c = true) (hv : Forest.validName n = true)
    (ht : f.nameTaken (f.parentOf c) n (some c) = false) :
    Forest.step f (.rename c n) i = .accept (Forest.setNameOf f c n) := by
  simp [Forest.step, hl, hv, ht]

theorem spec_rename_rej {c : Int} {n : Bytes}
    (h : f.live c = false ∨ Forest.validName n = false ∨ f.nameTaken (f.parentOf c) n (some c) = true) :
    ∀ i f', Forest.step f (.rename c n) i ≠ .accept f' := by
  intro i f'
  simp only [Forest.step]
  rcases h with h | h | h
  · simp [h]
  · split
    · simp
    · simp [h]
  · split
    · simp
    · split
      · simp
      · simp [h]

theorem spec_setParent_acc {c : Int} {p : Option Int} {nm : Bytes} (i : Int) (hl : f.live c = true)
    (hn : f.nameOf c = some nm)
    (hp : ∀ q, p = some q → q ≠ c ∧ f.live q = true ∧ f.isAncestor c q = false)
    (ht : f.nameTaken p nm (some c) = false) :
    Forest.step f (.setParent c p) i = .accept (Forest.setParentOf f c p) := by
  cases p with
  | none => simp [Forest.step, hl, hn, ht]
  | some q =>
    obtain ⟨h1, h2, h3⟩ := hp q rfl
    simp [Forest.step, hl, hn, ht, h1, h2, h3]

theorem spec_setParent_rej {c : Int} {p : Option Int}
    (h : f.live c = false ∨ (∃ q, p = some q ∧ (q = c ∨ f.live q = false ∨ f.isAncestor c q = true)) ∨
      (∃ nm, f.nameOf c = some nm ∧ f.nameTaken p nm (some c) = true)) :
    ∀ i f', Forest.step f (.setParent c p) i ≠ .accept f' := by
  intro i f'
  simp only [Forest.step]
  split
  · simp
  · cases p with
    | none =>
      rcases h with h | ⟨q, hq, _⟩ | ⟨nm, h1, h2⟩
      · simp_all
      · simp at hq
      · simp [h1, h2]
    | some q =>
      simp only
      split
      · simp
      · split
        · simp
        · split
          · simp
          · rename_i hqc hlq hanc
            rcases h with h | ⟨q', hq', h⟩ | ⟨nm, h1, h2⟩
            · simp_all
            · simp only [Option.some.injEq] at hq'
              subst hq'
              rcases h with h | h | h
              · simp [h] at hqc
              · simp [h] at hlq
              · simp [h] at hanc
            · simp [h1, h2]

theorem spec_remove_acc {c : Int} (i : Int) (hl : f.live c = true) :
    Forest.step f (.remove c) i = .accept (Forest.removeSubtree f c) := by
  simp [Forest.step, hl]

theorem spec_remove_rej {c : Int} (hl : f.live c = false) : ∀ i f', Forest.step f (.remove c) i ≠ .accept f' := by
  intro i f'; simp [Forest.step, hl]

end spec

/-! ### one Model step against the Spec forest -/

/-- How one Model step relates to the Spec forest. -/
inductive FStep (d : Db) (op : Op) : Prop
  | throws (e : Exn) (h : step d op = (d, .throw e))
      (hv : ∀ fop, forestOp op = some fop →
        (∀ n f', Forest.step (absF d) fop n ≠ .accept f') ∨ afterOk (absF d) op = false)
  | okF (out : Out) (fop : Forest.Op) (h2 : (step d op).2 = .ok out) (hf : forestOp op = some fop)
      (hacc : Forest.step (absF d) fop (newIdOf (.ok out)) = .accept (absF (step d op).1))
      (hnew : isCreate op = true → out = some (d.plSeq + 1))
      (hseq : (step d op).1.plSeq = if isCreate op then d.plSeq + 1 else d.plSeq)
  | okN (out : Out) (h2 : (step d op).2 = .ok out) (hf : forestOp op = none) (hpl : (step d op).1.pl = d.pl)
      (hseq : (step d op).1.plSeq = d.plSeq)

theorem parentOpt_zero : parentOpt 0 = none := rfl

theorem live_of_get {d : Db} {c : Int} {row : Row Bytes} (hg : get d.pl c = some row) : (absF d).live c = true := by
  rw [← plExists_eq_live, plExists_iff, ← get_isSome_iff, hg]; rfl

theorem live_false_of_get {d : Db} {c : Int} (hg : get d.pl c = none) : (absF d).live c = false := by
  rw [Forest.live_false_iff, absF_ids]; exact get_none hg

theorem mem_crates_of_row {d : Db} {r : Row Bytes} (hr : r ∈ d.pl) : rowCrate r ∈ (absF d).crates := by
  rw [absF_crates]; exact List.mem_map.mpr ⟨r, hr, rfl⟩

theorem pos_of_live {d : Db} (hW : Forest.Wf (absF d)) {q : Int} (hq : q ∈ ids d.pl) : 0 < q := by
  simp only [ids, List.mem_map] at hq
  obtain ⟨r, hr, rfl⟩ := hq
  exact hW.id_pos (rowCrate r) (mem_crates_of_row hr)

/-- plAdd after all guards of a creation have passed. -/
theorem fstep_add {d : Db} {op : Op} {name : Bytes} {k b : Int} {p : Option Int}
    (hstep : step d op = plAdd d name k b) (hcr : isCreate op = true)
    (hfop : forestOp op = some (match p with | none => .createRoot name | some q => .createSub q name))
    (hpk : parentOpt k = p) (hlive : ∀ q, p = some q → (absF d).live q = true)
    (hfree : (findId d k name).isSome = false) : FStep d op := by
  have hnt : (absF d).nameTaken p name none = false := by rw [← hpk, ← findId_isSome]; exact hfree
  by_cases hv : Forest.validName name = true
  · rw [plAdd_valid d k b hv] at hstep
    refine .okF (some (d.plSeq + 1)) _ (by rw [hstep]) hfop ?_ (fun _ => rfl) (by rw [hstep, hcr]; rfl)
    rw [hstep]
    simp only [newIdOf]
    rw [absF_insert, hpk]
    cases p with
    | none => exact spec_createRoot_acc _ hv hnt
    | some q => exact spec_createSub_acc _ (hlive q rfl) hv hnt
  · have hv' : Forest.validName name = false := by simpa using hv
    rw [plAdd_invalid d k b hv'] at hstep
    refine .throws _ hstep ?_
    intro fop hf
    rw [hfop] at hf
    simp only [Option.some.injEq] at hf
    subst hf
    left
    cases p with
    | none => exact spec_createRoot_rej (Or.inl hv')
    | some q => exact spec_createSub_rej (Or.inr (Or.inl hv'))

theorem fstep_taken {d : Db} {op : Op} {name : Bytes} {k : Int} {p : Option Int} {e : Exn}
    (hstep : step d op = (d, .throw e))
    (hfop : forestOp op = some (match p with | none => .createRoot name | some q => .createSub q name))
    (hpk : parentOpt k = p) (htaken : (findId d k name).isSome = true) : FStep d op := by
  have hnt : (absF d).nameTaken p name none = true := by rw [← hpk, ← findId_isSome]; exact htaken
  refine .throws _ hstep ?_
  intro fop hf
  rw [hfop] at hf
  simp only [Option.some.injEq] at hf
  subst hf
  left
  cases p with
  | none => exact spec_createRoot_rej (Or.inr hnt)
  | some q => exact spec_createSub_rej (Or.inr (Or.inr hnt))

theorem fstep_createRoot (d : Db) (name : Bytes) : FStep d (.createRoot name) := by
  by_cases hf : (findId d 0 name).isSome = true
  · exact fstep_taken (p := none) (e := exn "crate_already_exists") (by simp [step, hf]) rfl parentOpt_zero hf
  · have hf' : (findId d 0 name).isSome = false := by simpa using hf
    exact fstep_add (p := none) (k := 0) (b := 0) (by simp [step, hf']) rfl rfl parentOpt_zero (by simp) hf'

theorem not_mem_rowsOf_of_get_none {d : Db} {a k : Int} (hg : get d.pl a = none) : a ∉ ids (rowsOf d.pl k) := by
  intro h
  simp only [ids, List.mem_map] at h
  obtain ⟨r, hr, e⟩ := h
  exact get_none hg (by simp only [ids, List.mem_map]; exact ⟨r, (mem_rowsOf.mp hr).1, e⟩)

theorem not_mem_rowsOf_of_key {d : Db} (hn : (ids d.pl).Nodup) {a k : Int} {row : Row Bytes} (hg : get d.pl a = some row)
    (hk : row.key ≠ k) : a ∉ ids (rowsOf d.pl k) := by
  intro h
  simp only [ids, List.mem_map] at h
  obtain ⟨r, hr, e⟩ := h
  obtain ⟨hrt, hrk⟩ := mem_rowsOf.mp hr
  obtain ⟨hrow, hid⟩ := get_some hg
  have := eq_of_id_eq hn hrt hrow (e.trans hid.symm)
  rw [this] at hrk
  exact hk hrk

theorem fstep_createRootAfter {d : Db} (hn : (ids d.pl).Nodup) (name : Bytes) (after : Int) :
    FStep d (.createRootAfter name after) := by
  by_cases hf : (findId d 0 name).isSome = true
  · exact fstep_taken (p := none) (e := exn "crate_already_exists") (by simp [step, hf]) rfl parentOpt_zero hf
  · have hf' : (findId d 0 name).isSome = false := by simpa using hf
    cases hg : get d.pl after with
    | none =>
      refine .throws (exn "crate_deleted") (by simp [step, hf', hg]) ?_
      intro fop _
      right
      simp only [afterOk, absF_roots]
      have := not_mem_rowsOf_of_get_none (k := 0) hg
      simpa using this
    | some a =>
      by_cases hk : a.key = 0
      · have hk' : (a.key != 0) = false := by simp [hk]
        exact fstep_add (p := none) (k := 0) (b := a.next) (by simp [step, hf', hg, hk']) rfl rfl parentOpt_zero (by simp) hf'
      · have hk' : (a.key != 0) = true := by simpa using hk
        refine .throws (exn "crate_invalid_parent") (by simp [step, hf', hg, hk']) ?_
        intro fop _
        right
        simp only [afterOk, absF_roots]
        have := not_mem_rowsOf_of_key hn hg hk
        simpa using this

theorem fstep_createSub {d : Db} (hW : Forest.Wf (absF d)) (p : Int) (name : Bytes) : FStep d (.createSub p name) := by
  by_cases he : plExists d p = true
  · have hp0 : p ≠ 0 := by have := pos_of_live hW (plExists_iff.mp he); omega
    by_cases hf : (findId d p name).isSome = true
    · exact fstep_taken (p := some p) (e := exn "crate_already_exists") (by simp [step, he, hf]) rfl (parentOpt_of_ne hp0) hf
    · have hf' : (findId d p name).isSome = false := by simpa using hf
      refine fstep_add (p := some p) (k := p) (b := 0) (by simp [step, he, hf']) rfl rfl (parentOpt_of_ne hp0) ?_ hf'
      intro q hq
      simp only [Option.some.injEq] at hq
      subst hq
      rw [← plExists_eq_live]; exact he
  · have he' : plExists d p = false := by simpa using he
    refine .throws (exn "crate_deleted") (by simp [step, he']) ?_
    intro fop hfop
    simp only [forestOp, Option.some.injEq] at hfop
    subst hfop
    left
    exact spec_createSub_rej (Or.inl (by rw [← plExists_eq_live]; exact he'))

theorem fstep_createSubAfter {d : Db} (hW : Forest.Wf (absF d)) (p : Int) (name : Bytes) (after : Int) :
    FStep d (.createSubAfter p name after) := by
  have hn : (ids d.pl).Nodup := by rw [← absF_ids]; exact hW.ids_nodup
  by_cases he : plExists d p = true
  · have hp0 : p ≠ 0 := by have := pos_of_live hW (plExists_iff.mp he); omega
    by_cases hf : (findId d p name).isSome = true
    · exact fstep_taken (p := some p) (e := exn "crate_already_exists") (by simp [step, he, hf]) rfl (parentOpt_of_ne hp0) hf
    · have hf' : (findId d p name).isSome = false := by simpa using hf
      cases hg : get d.pl after with
      | none =>
        refine .throws (exn "crate_deleted") (by simp [step, he, hf', hg]) ?_
        intro fop _
        right
        simp only [afterOk, absF_children d hp0]
        have := not_mem_rowsOf_of_get_none (k := p) hg
        simpa using this
      | some a =>
        by_cases hk : a.key = p
        · have hk' : (a.key != p) = false := by simp [hk]
          refine fstep_add (p := some p) (k := p) (b := a.next) (by simp [step, he, hf', hg, hk']) rfl rfl
            (parentOpt_of_ne hp0) ?_ hf'
          intro q hq
          simp only [Option.some.injEq] at hq
          subst hq
          rw [← plExists_eq_live]; exact he
        · have hk' : (a.key != p) = true := by simpa using hk
          refine .throws (exn "crate_invalid_parent") (by simp [step, he, hf', hg, hk']) ?_
          intro fop _
          right
          simp only [afterOk, absF_children d hp0]
          have := not_mem_rowsOf_of_key hn hg hk
          simpa using this
  · have he' : plExists d p = false := by simpa using he
    refine .throws (exn "crate_deleted") (by simp [step, he']) ?_
    intro fop hfop
    simp only [forestOp, Option.some.injEq] at hfop
    subst hfop
    left
    exact spec_createSub_rej (Or.inl (by rw [← plExists_eq_live]; exact he'))

theorem absF_parentOf_get {d : Db} {c : Int} {row : Row Bytes} (hg : get d.pl c = some row) :
    (absF d).parentOf c = parentOpt row.key := by
  rw [absF_parentOf, hg]; rfl

theorem absF_nameOf_get {d : Db} {c : Int} {row : Row Bytes} (hg : get d.pl c = some row) :
    (absF d).nameOf c = some row.val := by
  rw [absF_nameOf, hg]; rfl

theorem fstep_rename (d : Db) (c : Int) (name : Bytes) : FStep d (.rename c name) := by
  cases hg : get d.pl c with
  | none =>
    refine .throws (exn "crate_deleted") (by simp [step, hg]) ?_
    intro fop hfop
    simp only [forestOp, Option.some.injEq] at hfop
    subst hfop
    left
    exact spec_rename_rej (Or.inl (live_false_of_get hg))
  | some row =>
    have hstep : step d (.rename c name) = plUpdate d c name row.key row.next := by simp [step, hg]
    by_cases hv : Forest.validName name = true
    · by_cases hc : titleClash d.pl c row.key name = true
      · rw [plUpdate_clash d row.next hv hg hc] at hstep
        refine .throws _ hstep ?_
        intro fop hfop
        simp only [forestOp, Option.some.injEq] at hfop
        subst hfop
        left
        refine spec_rename_rej (Or.inr (Or.inr ?_))
        rw [absF_parentOf_get hg, ← titleClash_eq]; exact hc
      · have hc' : titleClash d.pl c row.key name = false := by simpa using hc
        rw [plUpdate_same d hv hg hc'] at hstep
        refine .okF none (.rename c name) (by rw [hstep]) rfl ?_ (by simp [isCreate]) (by rw [hstep]; rfl)
        rw [hstep]
        simp only
        rw [absF_setVal]
        refine spec_rename_acc _ (live_of_get hg) hv ?_
        rw [absF_parentOf_get hg, ← titleClash_eq]; exact hc'
    · have hv' : Forest.validName name = false := by simpa using hv
      rw [plUpdate_invalid d c row.key row.next hv'] at hstep
      refine .throws _ hstep ?_
      intro fop hfop
      simp only [forestOp, Option.some.injEq] at hfop
      subst hfop
      left
      exact spec_rename_rej (Or.inr (Or.inl hv'))

/-- set_parent after its guards: the row moves to the end of the list of `k`, or (already there) is rewritten in place. -/
def setParentCore (d : Db) (c : Int) (row : Row Bytes) (k : Int) : Db × Res Out :=
  if row.key != k then plUpdate d c row.val k 0 else plUpdate d c row.val row.key row.next

theorem row_unique {d : Db} (hn : (ids d.pl).Nodup) {c : Int} {row : Row Bytes} (hg : get d.pl c = some row) :
    ∀ r ∈ d.pl, r.id = c → r = row := by
  intro r hr e
  obtain ⟨hrow, hid⟩ := get_some hg
  exact eq_of_id_eq hn hr hrow (e.trans hid.symm)

theorem fstep_setParentCore {d : Db} (hW : Forest.Wf (absF d)) {c : Int} {p : Option Int} {row : Row Bytes}
    (hg : get d.pl c = some row) (hstep : step d (.setParent c p) = setParentCore d c row (keyOf p))
    (hp : ∀ q, p = some q → q ≠ c ∧ (absF d).live q = true ∧ (absF d).isAncestor c q = false) :
    FStep d (.setParent c p) := by
  have hn : (ids d.pl).Nodup := by rw [← absF_ids]; exact hW.ids_nodup
  obtain ⟨hrow, hid⟩ := get_some hg
  have hv : Forest.validName row.val = true := hW.names_valid (rowCrate row) (mem_crates_of_row hrow)
  have hpk : parentOpt (keyOf p) = p := by
    apply parentOpt_keyOf
    intro q hq
    have := pos_of_live hW (by rw [← absF_ids]; exact Forest.live_iff.mp (hp q hq).2.1)
    omega
  unfold setParentCore at hstep
  by_cases hk : row.key = keyOf p
  · -- already a child of p: plain rewrite of the same title
    have hk' : (row.key != keyOf p) = false := by simp [hk]
    rw [hk'] at hstep
    simp only [Bool.false_eq_true, if_false] at hstep
    have hc : titleClash d.pl c row.key row.val = false := by
      unfold titleClash
      rw [List.any_eq_false]
      intro r hr hb
      simp only [Bool.and_eq_true, bne_iff_ne, ne_eq, beq_iff_eq] at hb
      obtain ⟨⟨hne, hkey⟩, hval⟩ := hb
      apply hne
      have := hW.names_unique (rowCrate r) (mem_crates_of_row hr) (rowCrate row) (mem_crates_of_row hrow)
        (by simp [rowCrate, hkey]) (by simp [rowCrate, hval])
      have hid' : r.id = row.id := by simpa [rowCrate] using congrArg Forest.Crate.id this
      rw [hid', hid]
    rw [plUpdate_same d hv hg hc] at hstep
    refine .okF none (.setParent c p) (by rw [hstep]) rfl ?_ (by simp [isCreate]) (by rw [hstep]; rfl)
    rw [hstep]
    simp only
    rw [absF_setVal]
    have e1 : Forest.setNameOf (absF d) c row.val = absF d := by
      apply setNameOf_same
      intro x hx hxc
      rw [absF_crates] at hx
      obtain ⟨r, hr, rfl⟩ := List.mem_map.mp hx
      have := row_unique hn hg r hr hxc
      rw [this]; rfl
    have e2 : Forest.setParentOf (absF d) c p = absF d := by
      apply setParentOf_same
      intro x hx hxc
      rw [absF_crates] at hx
      obtain ⟨r, hr, rfl⟩ := List.mem_map.mp hx
      have := row_unique hn hg r hr hxc
      rw [this]
      simp only [rowCrate]
      rw [hk, hpk]
    rw [e1]
    conv => rhs; rw [← e2]
    refine spec_setParent_acc _ (live_of_get hg) (absF_nameOf_get hg) hp ?_
    rw [← hpk, ← titleClash_eq, ← hk]; exact hc
  · have hk' : (row.key != keyOf p) = true := by simpa using hk
    rw [hk'] at hstep
    simp only [if_true] at hstep
    by_cases hc : titleClash d.pl c (keyOf p) row.val = true
    · rw [plUpdate_clash d 0 hv hg hc] at hstep
      refine .throws _ hstep ?_
      intro fop hfop
      simp only [forestOp, Option.some.injEq] at hfop
      subst hfop
      left
      refine spec_setParent_rej (Or.inr (Or.inr ⟨row.val, absF_nameOf_get hg, ?_⟩))
      rw [← hpk, ← titleClash_eq]; exact hc
    · have hc' : titleClash d.pl c (keyOf p) row.val = false := by simpa using hc
      rw [plUpdate_move d 0 hv hg hk hc'] at hstep
      refine .okF none (.setParent c p) (by rw [hstep]) rfl ?_ (by simp [isCreate]) (by rw [hstep]; rfl)
      rw [hstep]
      simp only
      rw [absF_move d c row.key row.next (keyOf p) 0 row.val (fun r hr e => by rw [row_unique hn hg r hr e]), hpk]
      refine spec_setParent_acc _ (live_of_get hg) (absF_nameOf_get hg) hp ?_
      rw [← hpk, ← titleClash_eq]; exact hc'

theorem fstep_setParent {d : Db} (hW : Forest.Wf (absF d)) (c : Int) (p : Option Int) : FStep d (.setParent c p) := by
  by_cases hpc : p = some c
  · subst hpc
    refine .throws (exn "crate_invalid_parent") (by simp [step]) ?_
    intro fop hfop
    simp only [forestOp, Option.some.injEq] at hfop
    subst hfop
    left
    exact spec_setParent_rej (Or.inr (Or.inl ⟨c, rfl, Or.inl rfl⟩))
  · have hpc' : (p == some c) = false := by simpa using hpc
    cases hg : get d.pl c with
    | none =>
      refine .throws (exn "crate_deleted") (by simp [step, hpc', hg]) ?_
      intro fop hfop
      simp only [forestOp, Option.some.injEq] at hfop
      subst hfop
      left
      exact spec_setParent_rej (Or.inl (live_false_of_get hg))
    | some row =>
      cases p with
      | none =>
        refine fstep_setParentCore hW hg ?_ (by simp)
        simp only [step, hpc', hg, setParentCore, keyOf]
        rfl
      | some q =>
        have hqc : q ≠ c := fun e => hpc (by rw [e])
        by_cases he : plExists d q = true
        · obtain ⟨ds, hds, hmem⟩ := descendantIds_ok hW c
          by_cases hdesc : q ∈ descSet d c
          · have hq : q ∈ ds := (hmem q).mpr hdesc
            refine .throws (exn "crate_invalid_parent") (by simp [step, hpc', hg, he, hds, hq]) ?_
            intro fop hfop
            simp only [forestOp, Option.some.injEq] at hfop
            subst hfop
            left
            have := (mem_descSet.mp hdesc).2
            exact spec_setParent_rej (Or.inr (Or.inl ⟨q, rfl, Or.inr (Or.inr this)⟩))
          · have hdesc' : ds.contains q = false := by
              have : q ∉ ds := fun h => hdesc ((hmem q).mp h)
              simpa using this
            refine fstep_setParentCore hW hg ?_ ?_
            · simp only [step, hpc', hg, he, hds, hdesc', setParentCore, keyOf]
              rfl
            · intro q' hq'
              simp only [Option.some.injEq] at hq'
              subst hq'
              refine ⟨hqc, by rw [← plExists_eq_live]; exact he, ?_⟩
              cases ha : (absF d).isAncestor c q with
              | false => rfl
              | true =>
                exact absurd (mem_descSet.mpr ⟨plExists_iff.mp he, ha⟩) hdesc
        · have he' : plExists d q = false := by simpa using he
          refine .throws (exn "crate_deleted") (by simp [step, hpc', hg, he']) ?_
          intro fop hfop
          simp only [forestOp, Option.some.injEq] at hfop
          subst hfop
          left
          exact spec_setParent_rej (Or.inr (Or.inl ⟨q, rfl, Or.inr (Or.inl (by rw [← plExists_eq_live]; exact he'))⟩))

theorem fstep_removeCrate {d : Db} (hW : Forest.Wf (absF d)) (c : Int) : FStep d (.removeCrate c) := by
  have hn : (ids d.pl).Nodup := by rw [← absF_ids]; exact hW.ids_nodup
  by_cases he : plExists d c = true
  · obtain ⟨ds, hds, hmem⟩ := descendantIds_ok hW c
    have hstep : step d (.removeCrate c) = (plRemove d (c :: ds), .ok none) := by simp [step, he, hds]
    refine .okF none (.remove c) (by rw [hstep]) rfl ?_ (by simp [isCreate]) (by rw [hstep]; rfl)
    rw [hstep]
    simp only
    rw [absF_plRemove hn (fun r hr => hW.id_pos (rowCrate r) (mem_crates_of_row hr)) (plExists_iff.mp he) (isGone_cons hmem)]
    exact spec_remove_acc _ (by rw [← plExists_eq_live]; exact he)
  · have he' : plExists d c = false := by simpa using he
    refine .throws .invalid_argument (by simp [step, he']) ?_
    intro fop hfop
    simp only [forestOp, Option.some.injEq] at hfop
    subst hfop
    left
    exact spec_remove_rej (by rw [← plExists_eq_live]; exact he')

theorem peAddBack_cases (d : Db) (l t u : Int) (f : Bool) :
    (∃ e, peAddBack d l t u f = (d, .throw e)) ∨
    (∃ out, (peAddBack d l t u f).2 = .ok out ∧ (peAddBack d l t u f).1.pl = d.pl ∧ (peAddBack d l t u f).1.plSeq = d.plSeq) := by
  unfold peAddBack
  cases peFind d l t u with
  | some e =>
    cases f with
    | true => left; exact ⟨_, rfl⟩
    | false => right; exact ⟨_, rfl, rfl, rfl⟩
  | none => right; exact ⟨_, rfl, rfl, rfl⟩

/-- The operations that do not touch the Playlist table. -/
theorem fstep_other {d : Db} {op : Op} (hf : forestOp op = none) : FStep d op := by
  have hvac : ∀ fop, forestOp op = some fop →
      (∀ n f', Forest.step (absF d) fop n ≠ .accept f') ∨ afterOk (absF d) op = false := by
    intro fop h; rw [hf] at h; simp at h
  cases op with
  | createRoot _ => simp [forestOp] at hf
  | createRootAfter _ _ => simp [forestOp] at hf
  | createSub _ _ => simp [forestOp] at hf
  | createSubAfter _ _ _ => simp [forestOp] at hf
  | rename _ _ => simp [forestOp] at hf
  | setParent _ _ => simp [forestOp] at hf
  | removeCrate _ => simp [forestOp] at hf
  | createTrack => exact .okN _ rfl hf rfl rfl
  | removeTrack t =>
    by_cases hc : t ∈ d.tracks
    · refine .okN none (by simp [step, hc]) hf (by simp [step, hc]) (by simp [step, hc])
    · exact .throws .invalid_argument (by simp [step, hc]) hvac
  | addTrack c t =>
    by_cases he : plExists d c = true
    · by_cases ht : t ∈ d.tracks
      · have hstep : step d (.addTrack c t) = peAddBack d c t 0 false := by simp [step, he, ht]
        rcases peAddBack_cases d c t 0 false with ⟨e, h⟩ | ⟨out, h1, h2, h3⟩
        · exact .throws e (by rw [hstep, h]) hvac
        · exact .okN out (by rw [hstep, h1]) hf (by rw [hstep, h2]) (by rw [hstep, h3])
      · exact .throws (exn "track_deleted") (by simp [step, he, ht]) hvac
    · have he' : plExists d c = false := by simpa using he
      exact .throws (exn "crate_deleted") (by simp [step, he']) hvac
  | removeTrackFrom c t =>
    cases hg : peFind d c t 0 with
    | some e => exact .okN none (by simp [step, hg]) hf (by simp [step, hg]) (by simp [step, hg])
    | none => exact .okN none (by simp [step, hg]) hf (by simp [step, hg]) (by simp [step, hg])
  | clearTracks c => exact .okN none rfl hf rfl rfl
  | peAddBack l t u f =>
    have hstep : step d (.peAddBack l t u f) = peAddBack d l t u f := rfl
    rcases peAddBack_cases d l t u f with ⟨e, h⟩ | ⟨out, h1, h2, h3⟩
    · exact .throws e (by rw [hstep, h]) hvac
    · exact .okN out (by rw [hstep, h1]) hf (by rw [hstep, h2]) (by rw [hstep, h3])
  | peRemove l e =>
    by_cases hc : ((rowsOf d.pe l).find? (·.id == e)).isNone = true
    · exact .throws .invalid_argument (by simp only [step, hc, if_true]) hvac
    · have hc' : ((rowsOf d.pe l).find? (·.id == e)).isNone = false := by simpa using hc
      exact .okN none (by simp only [step, hc']; rfl) hf (by simp only [step, hc']; rfl) (by simp only [step, hc']; rfl)
  | peClear l => exact .okN none rfl hf rfl rfl

/-- Every Model step on a state with a well-formed forest is allowed by the Spec. -/
theorem fstep {d : Db} (hW : Forest.Wf (absF d)) (op : Op) : FStep d op := by
  have hn : (ids d.pl).Nodup := by rw [← absF_ids]; exact hW.ids_nodup
  cases op with
  | createRoot n => exact fstep_createRoot d n
  | createRootAfter n a => exact fstep_createRootAfter hn n a
  | createSub p n => exact fstep_createSub hW p n
  | createSubAfter p n a => exact fstep_createSubAfter hW p n a
  | rename c n => exact fstep_rename d c n
  | setParent c p => exact fstep_setParent hW c p
  | removeCrate c => exact fstep_removeCrate hW c
  | createTrack => exact fstep_other rfl
  | removeTrack t => exact fstep_other rfl
  | addTrack c t => exact fstep_other rfl
  | removeTrackFrom c t => exact fstep_other rfl
  | clearTracks c => exact fstep_other rfl
  | peAddBack l t u f => exact fstep_other rfl
  | peRemove l e => exact fstep_other rfl
  | peClear l => exact fstep_other rfl

end EngineModel.Db.V2
