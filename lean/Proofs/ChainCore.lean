/-
Chains, part 2.

* `cores t`: the columns of a chain table that the chain logic never rewrites
  (id, key, payload), in row order.  Every chain operation is characterised on
  `cores` (what rows exist afterwards, in which order, with which key / payload)
  without any well-formedness hypothesis — the abstraction functions of C07 / C08
  (forest, membership) only look at `cores`.
* `R` for `DELETE FROM Playlist WHERE id = ?` under trigger_after_delete_List
  (`deleteCascade`): the row leaves the list of its key, the list keyed by the row
  itself is dropped.
* frame lemmas: operations on one key leave the rows of every other key untouched.
-/
import Proofs.Chain

namespace EngineModel.Db.Chain

open EngineModel.Spec EngineModel.ListAux

variable {α : Type}

def core (r : Row α) : Int × Int × α := (r.id, r.key, r.val)
def cores (t : Table α) : List (Int × Int × α) := t.map core

@[simp] theorem core_updRow (p : Row α → Bool) (e : Int → Int) (r : Row α) : core (updRow p e r) = core r := by
  unfold updRow core; split <;> rfl

@[simp] theorem cores_updNext (p : Row α → Bool) (e : Int → Int) (t : Table α) : cores (updNext p e t) = cores t := by
  simp [cores, updNext, Function.comp_def]

theorem cores_append (t u : Table α) : cores (t ++ u) = cores t ++ cores u := by
  simp [cores]

theorem cores_filter (t : Table α) (p : Row α → Bool) (q : Int × Int × α → Bool) (h : ∀ r, p r = q (core r)) :
    cores (t.filter p) = (cores t).filter q := by
  unfold cores
  rw [List.filter_map]
  have : p = q ∘ core := by funext r; exact h r
  rw [this]

theorem ids_eq_cores (t : Table α) : ids t = (cores t).map (·.1) := by
  simp [ids, cores, core, Function.comp_def]

theorem mem_cores {t : Table α} {c : Int × Int × α} : c ∈ cores t ↔ ∃ r ∈ t, core r = c := by
  simp [cores]

/-! ### INSERT, add_back -/

theorem cores_insertBefore (t : Table α) (n k b : Int) (v : α) :
    cores (insertBefore t n k b v) = cores t ++ [(n, k, v)] := by
  unfold insertBefore
  simp only [cores_updNext, cores_append]
  rfl

theorem cores_appendBack (t : Table α) (n k : Int) (v : α) :
    cores (appendBack t n k v) = cores t ++ [(n, k, v)] := by
  unfold appendBack
  simp only [cores_updNext, cores_append]
  rfl

/-! ### UPDATE of payload / position -/

theorem cores_setVal (t : Table α) (i : Int) (v : α) :
    cores (setVal t i v) = (cores t).map (fun c => if c.1 == i then (c.1, c.2.1, v) else c) := by
  unfold setVal cores
  simp only [List.map_map]
  apply List.map_congr_left
  intro r _
  simp only [Function.comp, core]
  by_cases h : (r.id == i) = true <;> simp [h]

theorem cores_move (t : Table α) (i ok on nk tg : Int) (v : α) :
    cores (move t i ok on nk tg v) = (cores t).map (fun c => if c.1 == i then (i, nk, v) else c) := by
  unfold move
  simp only []
  have : ∀ u : Table α, cores (u.map fun r => if r.id == i then { r with val := v, key := nk, next := tg } else r)
      = (cores u).map (fun c => if c.1 == i then (i, nk, v) else c) := by
    intro u
    unfold cores
    simp only [List.map_map]
    apply List.map_congr_left
    intro r _
    simp only [Function.comp, core]
    by_cases h : (r.id == i) = true
    · have h' : r.id = i := by simpa using h
      simp [h']
    · simp [h]
  rw [this, cores_updNext, cores_updNext, cores_updNext]

/-! ### DELETE -/

theorem deleteCascade_none {t : Table α} {i : Int} (h : get t i = none) : deleteCascade t i = t := by
  unfold deleteCascade; rw [h]

theorem cores_deleteCascade {t : Table α} {i : Int} {old : Row α} (h : get t i = some old) :
    cores (deleteCascade t i) = (cores t).filter (fun c => c.1 != i && c.2.1 != i) := by
  have hid : old.id = i := (get_some h).2
  unfold deleteCascade
  rw [h]
  simp only [hid]
  rw [cores_filter _ (fun r => r.key != i) (fun c => c.2.1 != i) (fun _ => rfl), cores_updNext,
    cores_filter _ (fun r => r.id != i) (fun c => c.1 != i) (fun _ => rfl), List.filter_filter]
  congr 1
  funext c
  exact Bool.and_comm _ _

/-- `DELETE … WHERE listId = k AND id = i` when ids with value `i` only occur under key `k`
(always the case when ids are a key and `i` was read from list `k`): the rows with id `i` go. -/
theorem cores_deleteKeyed {t : Table α} (fires : Row α → Bool) {k i : Int}
    (hk : ∀ r ∈ t, r.id = i → r.key = k) :
    cores (deleteKeyed fires t k i) = (cores t).filter (fun c => c.1 != i) := by
  unfold deleteKeyed
  cases hf : (rowsOf t k).find? (·.id == i) with
  | none =>
    simp only
    have : ∀ c ∈ cores t, (c.1 != i) = true := by
      intro c hc
      obtain ⟨r, hr, rfl⟩ := mem_cores.mp hc
      simp only [core, bne_iff_ne, ne_eq]
      intro e
      have := List.find?_eq_none.mp hf r (mem_rowsOf.mpr ⟨hr, hk r hr e⟩)
      simp [e] at this
    exact (List.filter_eq_self.mpr this).symm
  | some old =>
    simp only
    rw [cores_filter _ (fun r => r.id != i) (fun c => c.1 != i) (fun _ => rfl)]
    split
    · rw [cores_updNext]
    · rfl

theorem cores_foldl_deleteKeyed (fires : Row α → Bool) (k : Int) (L : List Int) (t : Table α)
    (hk : ∀ c ∈ cores t, c.1 ∈ L → c.2.1 = k) :
    cores (L.foldl (fun t i => deleteKeyed fires t k i) t) = (cores t).filter (fun c => !L.contains c.1) := by
  induction L generalizing t with
  | nil =>
    simp only [List.foldl_nil, List.contains_nil, Bool.not_false]
    exact (List.filter_eq_self.mpr (fun _ _ => rfl)).symm
  | cons a L ih =>
    simp only [List.foldl_cons]
    have h1 : cores (deleteKeyed fires t k a) = (cores t).filter (fun c => c.1 != a) := by
      apply cores_deleteKeyed
      intro r hr e
      exact hk (core r) (mem_cores.mpr ⟨r, hr, rfl⟩) (by simp [core, e])
    rw [ih, h1, List.filter_filter]
    · congr 1
      funext c
      by_cases h : c.1 = a
      · simp [h]
      · simp [h]
    · intro c hc hcL
      rw [h1] at hc
      exact hk c (List.mem_filter.mp hc).1 (List.mem_cons_of_mem _ hcL)

/-- `DELETE FROM PlaylistEntity WHERE listId = k`: exactly the rows of list `k` go. -/
theorem cores_clearKey (fires : Row α → Bool) {t : Table α} (hn : (ids t).Nodup) (k : Int) :
    cores (clearKey fires t k) = (cores t).filter (fun c => c.2.1 != k) := by
  unfold clearKey
  rw [cores_foldl_deleteKeyed]
  · apply List.filter_congr
    intro c hc
    obtain ⟨r, hr, rfl⟩ := mem_cores.mp hc
    simp only [core]
    by_cases hkk : r.key = k
    · have : r.id ∈ (rowsOf t k).map (·.id) := List.mem_map.mpr ⟨r, mem_rowsOf.mpr ⟨hr, hkk⟩, rfl⟩
      simp [hkk, this]
    · have : r.id ∉ (rowsOf t k).map (·.id) := by
        intro hm
        obtain ⟨r', hr', e⟩ := List.mem_map.mp hm
        obtain ⟨hr't, hr'k⟩ := mem_rowsOf.mp hr'
        have := eq_of_id_eq hn hr't hr e
        rw [this] at hr'k; exact hkk hr'k
      simp [hkk, this]
  · intro c hc hcL
    obtain ⟨r, hr, rfl⟩ := mem_cores.mp hc
    obtain ⟨r', hr', e⟩ := List.mem_map.mp hcL
    obtain ⟨hr't, hr'k⟩ := mem_rowsOf.mp hr'
    have := eq_of_id_eq hn hr't hr e
    simp only [core]
    rw [← this]; exact hr'k

/-! ### `R` under `DELETE FROM Playlist WHERE id = ?` with trigger_after_delete_List -/

/-- Dropping every row of key `k` (the trigger's `DELETE … WHERE parentListId = OLD.id`). -/
theorem R_dropKey {A : Int → List Int} {t : Table α} (h : R A t) (k : Int) :
    R (setKey A k []) (t.filter (fun r => r.key != k)) := by
  have hm : ∀ {r : Row α}, r ∈ t.filter (fun r => r.key != k) ↔ r ∈ t ∧ r.key ≠ k := by
    intro r; simp [List.mem_filter]
  constructor
  · exact nodup_ids_filter _ h.ids_nodup
  · intro r hr; exact h.id_pos r (hm.mp hr).1
  · intro k'
    by_cases hk : k' = k
    · subst hk; simp
    · rw [setKey_other _ _ hk]; exact h.nodup _
  · intro r hr
    obtain ⟨hr, hk⟩ := hm.mp hr
    rw [setKey_other _ _ hk]; exact h.mem r hr
  · intro r hr
    obtain ⟨hr, hk⟩ := hm.mp hr
    rw [setKey_other _ _ hk]; exact h.next r hr
  · intro k' x hx
    by_cases hk : k' = k
    · subst hk; simp at hx
    · rw [setKey_other _ _ hk] at hx
      obtain ⟨r, hr, e1, e2⟩ := h.cover k' x hx
      exact ⟨r, hm.mpr ⟨hr, by rw [e2]; exact hk⟩, e1, e2⟩

/-- Under `R`, a row whose successor is `x ≠ 0` lives in the list that contains `x`:
the trigger's `UPDATE … WHERE nextListId = OLD.id` (no key test) only touches siblings. -/
theorem R.key_of_next {A : Int → List Int} {t : Table α} (h : R A t) {r old : Row α} (hr : r ∈ t) (hold : old ∈ t)
    (hn : r.next = old.id) : r.key = old.key := by
  have h1 := h.next r hr
  rw [hn] at h1
  rcases succ_mem_or_zero (A r.key) r.id with h0 | hm
  · rw [h0] at h1
    exact absurd h1 (Int.ne_of_gt (h.id_pos old hold))
  · rw [← h1] at hm
    exact h.key_unique hm (h.mem old hold)

theorem deleteCascade_eq {A : Int → List Int} {t : Table α} (h : R A t) {i : Int} {old : Row α}
    (hg : get t i = some old) :
    deleteCascade t i = (spliceOut t old.id old.key old.next).filter (fun r => r.key != old.id) := by
  obtain ⟨hold, hid⟩ := get_some hg
  unfold deleteCascade
  rw [hg]
  simp only
  congr 1
  unfold spliceOut updNext
  rw [List.filter_map]
  have : ((fun r : Row α => r.id != old.id) ∘ updRow (fun r => r.next == old.id && r.key == old.key) (fun _ => old.next))
      = (fun r : Row α => r.id != old.id) := by
    funext r; simp [Function.comp]
  rw [this, hid]
  apply List.map_congr_left
  intro r hr
  have hrt : r ∈ t := (List.mem_filter.mp hr).1
  unfold updRow
  by_cases hn : r.next = old.id
  · have := h.key_of_next hrt hold hn
    rw [hid] at hn
    simp [hn, this]
  · rw [hid] at hn
    simp [hn]

/-- `DELETE FROM Playlist WHERE id = i` (row present): `i` leaves the list of its key, the list keyed `i` is dropped. -/
theorem R_deleteCascade {A : Int → List Int} {t : Table α} (h : R A t) {i : Int} {old : Row α}
    (hg : get t i = some old) :
    R (setKey (setKey A old.key ((A old.key).erase i)) i []) (deleteCascade t i) := by
  obtain ⟨hold, hid⟩ := get_some hg
  rw [deleteCascade_eq h hg]
  have := R_dropKey (R_spliceOut h hold) old.id
  rw [hid] at this
  rw [hid]
  exact this

/-! ### frame: operations on one key leave the rows of the other keys untouched -/

theorem rowsOf_updNext_other {t : Table α} {p : Row α → Bool} {e : Int → Int} {k k' : Int}
    (hp : ∀ r, p r = true → r.key = k) (hk : k' ≠ k) : rowsOf (updNext p e t) k' = rowsOf t k' := by
  unfold rowsOf updNext
  rw [List.filter_map]
  have : ((fun r : Row α => r.key == k') ∘ updRow p e) = (fun r : Row α => r.key == k') := by
    funext r; simp [Function.comp]
  rw [this]
  conv => rhs; rw [← List.map_id (List.filter (fun r => r.key == k') t)]
  apply List.map_congr_left
  intro r hr
  have hrk : r.key = k' := by simpa using (List.mem_filter.mp hr).2
  have : p r = false := by
    cases hpr : p r with
    | false => rfl
    | true => exact absurd (hp r hpr) (by rw [hrk]; exact hk)
  simp [updRow_neg this]

theorem rowsOf_deleteKeyed_other {t : Table α} (fires : Row α → Bool) (hn : (ids t).Nodup) {k i k' : Int}
    (hk : k' ≠ k) : rowsOf (deleteKeyed fires t k i) k' = rowsOf t k' := by
  unfold deleteKeyed
  cases hf : (rowsOf t k).find? (·.id == i) with
  | none => rfl
  | some old =>
    simp only
    have h1 := List.mem_of_find?_eq_some hf
    have h2 : old.id = i := by simpa using List.find?_some hf
    obtain ⟨hot, hok⟩ := mem_rowsOf.mp h1
    have hfilt : ∀ u : Table α, (∀ r ∈ u, r.key = k' → r.id ≠ i) →
        rowsOf (u.filter (fun r => r.id != i)) k' = rowsOf u k' := by
      intro u hu
      unfold rowsOf
      rw [List.filter_filter]
      apply List.filter_congr
      intro r hr
      by_cases hrk : r.key = k'
      · simp [hrk, hu r hr hrk]
      · simp [hrk]
    have hne : ∀ r ∈ t, r.key = k' → r.id ≠ i := by
      intro r hr hrk e
      have := eq_of_id_eq hn hr hot (e.trans h2.symm)
      rw [this, hok] at hrk; exact hk hrk.symm
    split
    · rw [hfilt]
      · exact rowsOf_updNext_other (k := k) (by intro r hr; simp at hr; rw [hr.2, hok]) hk
      · intro r hr hrk
        obtain ⟨r0, hr0, rfl⟩ := mem_updNext.mp hr
        rw [updRow_id]; rw [updRow_key] at hrk; exact hne r0 hr0 hrk
    · exact hfilt t hne

theorem ids_nodup_deleteKeyed {t : Table α} (fires : Row α → Bool) (hn : (ids t).Nodup) (k i : Int) :
    (ids (deleteKeyed fires t k i)).Nodup := by
  unfold deleteKeyed
  cases (rowsOf t k).find? (·.id == i) with
  | none => exact hn
  | some old =>
    simp only
    apply nodup_ids_filter
    split
    · rw [ids_updNext]; exact hn
    · exact hn

end EngineModel.Db.Chain
