/-
Groundwork for the 1.x lens theorems (C06): the invariant unpacked, `snapshot()`
as a total function on rows satisfying it, and the exact shape of the rows
after a successful single-column PerformanceData update (the decode-after-encode
guard of `set_performance_data_column` only lets through values that the codec
returns unchanged).
-/
import EngineModel.TracksV1.SpecLens
import Proofs.TracksV1RoundTrip

namespace EngineModel.TracksV1

open Impl.V1 (GMarker HotCue LoopV Entry Wave Beat Cues Loops)
open Fl (FOps)

set_option linter.unusedSimpArgs false

/-! ### cells of the two meta-data tables -/

theorem cell_aset_same {β} (k : Int) (v : Option β) (l : List (Int × Option β)) : cell k (aset k v l) = v := by
  unfold cell; rw [aget_aset_same]; rfl

theorem cell_aset_other {β} (k k2 : Int) (v : Option β) (l : List (Int × Option β)) (h : k2 ≠ k) :
    cell k2 (aset k v l) = cell k2 l := by
  unfold cell; rw [aget_aset_other _ _ _ _ h]

/-! ### the invariant, unpacked -/

structure InvP (r : TrackRows) : Prop where
  path : ∃ p, r.track.path = some p
  len : ∀ l, r.track.length = some l → -9223372036854775808 ≤ 1000 * l ∧ 1000 * l ≤ 9223372036854775807
  ts : ∀ t, cell 1 r.mint = some t → -9223372036854775808 ≤ 1000000000 * t ∧ 1000000000 * t ≤ 9223372036854775807
  cues : ∀ p, r.perf = some p → p.cues.cues.length = 8
  loops : ∀ p, r.perf = some p → p.loops.length = 8
  key : ∀ p, r.perf = some p → ∀ k, p.trackData.key = some k → cell 4 r.mint = some (Prim.s32 k)

theorem inv_iff (r : TrackRows) : Inv r = true ↔ InvP r := by
  unfold Inv fitsI64
  constructor
  · intro h
    simp only [Bool.and_eq_true, Option.all_eq_true_iff_get, decide_eq_true_eq] at h
    obtain ⟨⟨⟨h1, h2⟩, h3⟩, h4⟩ := h
    refine ⟨?_, ?_, ?_, ?_, ?_, ?_⟩
    · cases hp : r.track.path with
      | none => rw [hp] at h1; cases h1
      | some p => exact ⟨p, rfl⟩
    · intro l hl; have := h2 (by rw [hl]; rfl); simpa [hl] using this
    · intro t ht; have := h3 (by rw [ht]; rfl); simpa [ht] using this
    · intro p hp; have := h4 (by rw [hp]; rfl); simp only [hp, Option.get_some] at this; exact this.1.1
    · intro p hp; have := h4 (by rw [hp]; rfl); simp only [hp, Option.get_some] at this; exact this.1.2
    · intro p hp k hk
      have := h4 (by rw [hp]; rfl)
      simp only [hp, Option.get_some] at this
      have h5 := this.2 (by rw [hk]; rfl)
      simpa [hk] using h5
  · intro ⟨⟨p, hp⟩, h2, h3, h4, h5, h6⟩
    simp only [Bool.and_eq_true, Option.all_eq_true_iff_get, decide_eq_true_eq]
    refine ⟨⟨⟨by rw [hp]; rfl, ?_⟩, ?_⟩, ?_⟩
    · intro hs
      exact h2 _ (Option.some_get hs).symm
    · intro hs
      exact h3 _ (Option.some_get hs).symm
    · intro hs
      have hp' := (Option.some_get hs).symm
      refine ⟨⟨h4 _ hp', h5 _ hp'⟩, ?_⟩
      intro hk
      exact h6 _ hp' _ (Option.some_get hk).symm

/-! ### `snapshot()` on rows satisfying the invariant -/

/-- `readSnap` with the two scalings carried out (they cannot overflow under `Inv`). -/
def snapOf (o : FOps) (s : Schema) (r : TrackRows) : Snap :=
  { album := cell 3 r.mstr
    artist := cell 2 r.mstr
    averageLoudness := r.perf.bind (·.trackData.loudness)
    beatgrid := (r.perf.map (·.beat.adj)).getD []
    bitrate := r.track.bitrate.map Prim.u32OfInt
    bpm := match r.track.bpmAnalyzed with
      | some b => some b
      | none => r.track.bpm.map o.ofI64
    comment := cell 5 r.mstr
    composer := cell 7 r.mstr
    duration := (r.track.length.map fun l => 1000 * l).map Prim.u64OfInt
    fileBytes := (fileBytesCol s r.track).map Prim.u64OfInt
    genre := cell 4 r.mstr
    hotCues := (r.perf.map (·.cues.cues)).getD []
    key := match r.perf.bind (·.trackData.key) with
      | some k => some k
      | none => (cell 4 r.mint).map Prim.u32OfInt
    lastPlayedAt := ((cell 1 r.mint).map fun t => 1000000000 * t).map Prim.u64OfInt
    loops := (r.perf.map (·.loops)).getD []
    mainCue := r.perf.bind fun p => if F64.isZero p.cues.adjMain then none else some p.cues.adjMain
    publisher := cell 6 r.mstr
    rating := (cell 5 r.mint).map Prim.u32OfInt
    relativePath := r.track.path
    sampleCount := r.perf.bind (·.trackData.sampleCount)
    sampleRate := r.perf.bind (·.trackData.sampleRate)
    title := cell 1 r.mstr
    trackNumber := r.track.playOrder.map Prim.u32OfInt
    waveform := (r.perf.map (·.hires.entries)).getD []
    year := r.track.year.map Prim.u32OfInt }

theorem optMul_of_fits (k : Int) (v : Option Int)
    (h : ∀ a, v = some a → -9223372036854775808 ≤ k * a ∧ k * a ≤ 9223372036854775807) :
    optMul k v = .ok (v.map fun a => k * a) := by
  cases v with
  | none => rfl
  | some a => simp [optMul, mulI64_ok k a (h a rfl)]

theorem readSnap_of_inv (o : FOps) (s : Schema) (r : TrackRows) (h : InvP r) :
    readSnap o s r = .ok (snapOf o s r) := by
  unfold readSnap
  simp only [optMul_of_fits 1000 _ h.len, optMul_of_fits 1000000000 _ h.ts, bind, Res.bind, Res.pure_eq, pure]
  rfl

/-! ### the decode-after-encode guard lets through only values the codec returns unchanged -/

theorem eqOptF_zeroNoneF (x : Option Bits) (h : eqOptF (zeroNoneF x) x = true) : zeroNoneF x = x := by
  cases x with
  | none => rfl
  | some a =>
    unfold zeroNoneF at h ⊢
    simp only [Option.bind_some] at h ⊢
    by_cases hz : F64.isZero a = true
    · rw [if_pos hz] at h; simp [eqOptF] at h
    · rw [if_neg hz]

theorem guard_track (v v' : Impl.V1.Track)
    (h : colGuard (fun x => Res.ok (normTrack x)) eqTrack v = .ok v') : v' = v := by
  unfold colGuard at h
  simp only at h
  by_cases he : eqTrack (normTrack v) v = true
  · rw [if_pos he] at h
    cases h
    unfold eqTrack at he
    simp only [Bool.and_eq_true, beq_iff_eq] at he
    obtain ⟨⟨⟨h1, h2⟩, h3⟩, h4⟩ := he
    obtain ⟨sr, sc, ld, ky⟩ := v
    unfold normTrack at h1 h2 h3 h4 ⊢
    simp only at h1 h2 h3 h4 ⊢
    rw [eqOptF_zeroNoneF _ h1, eqOptF_zeroNoneF _ h3, h2, h4]
  · rw [if_neg he] at h; cases h

theorem guard_beat (v v' : Beat) (h : colGuard normBeat eqBeat v = .ok v') :
    v' = v ∧ Impl.V1.validGrid v.dflt = true ∧ Impl.V1.validGrid v.adj = true ∧
      all2 eqMarker v.adj v.adj = true := by
  unfold colGuard at h
  unfold normBeat at h
  by_cases hv : (!Impl.V1.validGrid v.dflt || !Impl.V1.validGrid v.adj) = true
  · rw [if_pos hv] at h; cases h
  · rw [if_neg hv] at h
    simp only at h
    have hv' : Impl.V1.validGrid v.dflt = true ∧ Impl.V1.validGrid v.adj = true := by
      cases h1 : Impl.V1.validGrid v.dflt <;> cases h2 : Impl.V1.validGrid v.adj <;> simp_all
    split at h
    · rename_i he
      cases h
      unfold eqBeat at he
      simp only [Bool.and_eq_true] at he
      obtain ⟨⟨⟨h1, h2⟩, _⟩, h4⟩ := he
      obtain ⟨sr, sc, d, a⟩ := v
      simp only at h1 h2 h4 ⊢
      rw [eqOptF_zeroNoneF _ h1, eqOptF_zeroNoneF _ h2]
      exact ⟨rfl, hv'.1, hv'.2, h4⟩
    · cases h

/-- Generic: a slot-wise codec that is decided by a Boolean test. -/
theorem mapRes_ok_spec {α} (f : α → Res α) (g : α → α) (p : α → Bool)
    (hc : ∀ a, (p a = true ∧ f a = .ok (g a)) ∨ (p a = false ∧ ∃ e, f a = .throw e))
    (l r : List α) (h : mapRes f l = .ok r) : l.all p = true ∧ r = l.map g := by
  induction l generalizing r with
  | nil => unfold mapRes at h; cases h; exact ⟨rfl, rfl⟩
  | cons a t ih =>
    unfold mapRes at h
    rcases hc a with ⟨hp, hf⟩ | ⟨_, e, hf⟩
    · rw [hf] at h
      simp only at h
      cases hm : mapRes f t with
      | ok r' =>
        rw [hm] at h
        cases h
        obtain ⟨h1, h2⟩ := ih r' hm
        exact ⟨by simp [hp, h1], by simp [h2]⟩
      | throw e => rw [hm] at h; cases h
      | ub u => rw [hm] at h; cases h
    · rw [hf] at h; cases h

theorem mapRes_length {α β} (f : α → Res β) (l : List α) (r : List β) (h : mapRes f l = .ok r) :
    r.length = l.length := by
  induction l generalizing r with
  | nil => unfold mapRes at h; cases h; rfl
  | cons a t ih =>
    unfold mapRes at h
    cases hf : f a with
    | ok b =>
      rw [hf] at h
      simp only at h
      cases hm : mapRes f t with
      | ok r' => rw [hm] at h; cases h; simp [ih r' hm]
      | throw e => rw [hm] at h; cases h
      | ub u => rw [hm] at h; cases h
    | throw e => rw [hf] at h; cases h
    | ub u => rw [hf] at h; cases h

theorem all2_map_self {α} (eq : α → α → Bool) (g : α → α) (hg : ∀ a, eq (g a) a = true → g a = a) (l : List α)
    (h : all2 eq (l.map g) l = true) : l.map g = l := by
  induction l with
  | nil => rfl
  | cons a t ih =>
    simp only [List.map_cons, all2, Bool.and_eq_true] at h
    simp only [List.map_cons]
    rw [hg a h.1, ih h.2]

theorem normCue_fix (q : Option HotCue) (h : eqOpt eqCue (Spec.normCue q) q = true) : Spec.normCue q = q := by
  cases q with
  | none => rfl
  | some c =>
    unfold Spec.normCue at h ⊢
    simp only at h ⊢
    by_cases hc : c.off = F64.negOne
    · rw [if_pos hc] at h; simp [eqOpt] at h
    · rw [if_neg hc]

theorem normLoop_fix (q : Option LoopV) (h : eqOpt eqLoop (Spec.normLoop q) q = true) : Spec.normLoop q = q := by
  cases q with
  | none => rfl
  | some c =>
    unfold Spec.normLoop at h ⊢
    simp only at h ⊢
    by_cases hc : c.start = F64.negOne
    · rw [if_pos hc] at h; simp [eqOpt] at h
    · rw [if_neg hc]

/-- A cue column that passes the guard: stored as given, eight slots, every slot acceptable and
already in normal form. -/
theorem guard_cues (v v' : Cues) (h : colGuard normCues eqCues v = .ok v') :
    v' = v ∧ v.cues.length = 8 ∧ v.cues.all Spec.cueOk = true ∧ v.cues.map Spec.normCue = v.cues := by
  unfold colGuard at h
  cases hn : normCues v with
  | throw e => rw [hn] at h; cases h
  | ub u => rw [hn] at h; cases h
  | ok w =>
    rw [hn] at h
    simp only at h
    unfold normCues at hn
    by_cases h8 : 8 < v.cues.length
    · rw [if_pos h8] at hn; cases hn
    · rw [if_neg h8] at hn
      cases hm : mapRes normCueSlot v.cues with
      | throw e => rw [hm] at hn; cases hn
      | ub u => rw [hm] at hn; cases hn
      | ok cs =>
        rw [hm] at hn
        simp only at hn
        by_cases h7 : v.cues.length < 8
        · rw [if_pos h7] at hn; cases hn
        · rw [if_neg h7] at hn
          cases hn
          obtain ⟨hall, hcs⟩ := mapRes_ok_spec normCueSlot Spec.normCue Spec.cueOk normCueSlot_cases _ _ hm
          split at h
          · rename_i he
            cases h
            unfold eqCues at he
            simp only [Bool.and_eq_true] at he
            obtain ⟨⟨h1, _⟩, _⟩ := he
            rw [hcs] at h1
            have hfix := all2_map_self (eqOpt eqCue) Spec.normCue normCue_fix _ h1
            refine ⟨?_, by omega, hall, hfix⟩
            rw [hcs, hfix]
          · cases h

theorem guard_loops (v v' : Loops) (h : colGuard normLoops eqLoops v = .ok v') :
    v' = v ∧ List.all v Spec.loopOk = true ∧ List.map Spec.normLoop v = v := by
  unfold colGuard at h
  cases hn : normLoops v with
  | throw e => rw [hn] at h; cases h
  | ub u => rw [hn] at h; cases h
  | ok w =>
    rw [hn] at h
    simp only at h
    unfold normLoops at hn
    obtain ⟨hall, hcs⟩ := mapRes_ok_spec normLoopSlot Spec.normLoop Spec.loopOk normLoopSlot_cases _ _ hn
    split at h
    · rename_i he
      cases h
      unfold eqLoops at he
      rw [hcs] at he
      have hfix := all2_map_self (eqOpt eqLoop) Spec.normLoop normLoop_fix _ he
      refine ⟨?_, hall, hfix⟩
      rw [hcs, hfix]
    · cases h

theorem guard_hires (v v' : Wave) (h : colGuard (fun x => Res.ok (normHires x)) eqWave v = .ok v') : v' = v := by
  unfold colGuard at h
  simp only at h
  split at h
  · cases h; rfl
  · cases h

theorem opaque255_idem (e : Entry) : opaque255 (opaque255 e) = opaque255 e := rfl

theorem guard_ovw (spe : Bits) (es : List Entry) (v' : Wave)
    (h : colGuard (fun x => Res.ok (normOvw x)) eqWave ⟨spe, es.map opaque255⟩ = .ok v') :
    v' = ⟨spe, es.map opaque255⟩ := by
  unfold colGuard at h
  simp only at h
  split at h
  · cases h
    unfold normOvw
    simp only [List.map_map]
    congr 1
  · cases h

/-! ### shape of the rows after a single-column update -/

theorem setCol_ok {α} (r r' : TrackRows) (norm : α → Res α) (eq : α → α → Bool) (v : α)
    (put : PerfRow → α → PerfRow) (h : setCol r norm eq v put = .ok r') :
    ∃ v' p, colGuard norm eq v = .ok v' ∧ r.perf = some p ∧
      r' = { r with perf := some { put p v' with isAnalyzed := 1 } } := by
  unfold setCol at h
  cases hg : colGuard norm eq v with
  | throw e => rw [hg] at h; cases h
  | ub u => rw [hg] at h; cases h
  | ok v' =>
    rw [hg] at h
    simp only at h
    cases hp : r.perf with
    | none => rw [hp] at h; cases h
    | some p =>
      rw [hp] at h
      cases h
      exact ⟨v', p, rfl, rfl, rfl⟩

theorem setTrackCol_ok (r r' : TrackRows) (v : Impl.V1.Track) (h : setTrackCol r v = .ok r') :
    ∃ p, r.perf = some p ∧ r' = { r with perf := some { p with trackData := v, isAnalyzed := 1 } } := by
  obtain ⟨v', p, hg, hp, hr⟩ := setCol_ok _ _ _ _ _ _ h
  rw [guard_track v v' hg] at hr
  exact ⟨p, hp, hr⟩

theorem setBeatCol_ok (r r' : TrackRows) (v : Beat) (h : setBeatCol r v = .ok r') :
    ∃ p, r.perf = some p ∧ r' = { r with perf := some { p with beat := v, isAnalyzed := 1 } } ∧
      Impl.V1.validGrid v.adj = true ∧ all2 eqMarker v.adj v.adj = true := by
  obtain ⟨v', p, hg, hp, hr⟩ := setCol_ok _ _ _ _ _ _ h
  obtain ⟨he, _, hv, ha⟩ := guard_beat v v' hg
  rw [he] at hr
  exact ⟨p, hp, hr, hv, ha⟩

theorem setCuesCol_ok (r r' : TrackRows) (v : Cues) (h : setCuesCol r v = .ok r') :
    ∃ p, r.perf = some p ∧ r' = { r with perf := some { p with cues := v, isAnalyzed := 1 } } ∧
      v.cues.length = 8 ∧ v.cues.all Spec.cueOk = true ∧ v.cues.map Spec.normCue = v.cues := by
  obtain ⟨v', p, hg, hp, hr⟩ := setCol_ok _ _ _ _ _ _ h
  obtain ⟨he, h1, h2, h3⟩ := guard_cues v v' hg
  rw [he] at hr
  exact ⟨p, hp, hr, h1, h2, h3⟩

theorem setLoopsCol_ok (r r' : TrackRows) (v : Loops) (h : setLoopsCol r v = .ok r') :
    ∃ p, r.perf = some p ∧ r' = { r with perf := some { p with loops := v, isAnalyzed := 1 } } ∧
      List.all v Spec.loopOk = true ∧ List.map Spec.normLoop v = v := by
  obtain ⟨v', p, hg, hp, hr⟩ := setCol_ok _ _ _ _ _ _ h
  obtain ⟨he, h2, h3⟩ := guard_loops v v' hg
  rw [he] at hr
  exact ⟨p, hp, hr, h2, h3⟩

theorem setHiresCol_ok (r r' : TrackRows) (v : Wave) (h : setHiresCol r v = .ok r') :
    ∃ p, r.perf = some p ∧ r' = { r with perf := some { p with hires := v, isAnalyzed := 1 } } := by
  obtain ⟨v', p, hg, hp, hr⟩ := setCol_ok _ _ _ _ _ _ h
  rw [guard_hires v v' hg] at hr
  exact ⟨p, hp, hr⟩

theorem setOvwCol_ok (r r' : TrackRows) (v : Wave) (h : setOvwCol r v = .ok r') :
    ∃ p, r.perf = some p ∧
      r' = { r with perf := some { p with overview := ⟨v.spe, v.entries.map opaque255⟩, isAnalyzed := 1 } } := by
  obtain ⟨v', p, hg, hp, hr⟩ := setCol_ok _ _ _ _ _ _ h
  rw [guard_ovw v.spe v.entries v' hg] at hr
  exact ⟨p, hp, hr⟩

/-! ### a setter on the PerformanceData row never returns `ub` -/

theorem colGuard_defined {α} (norm : α → Res α) (eq : α → α → Bool) (v : α) (h : Defined (norm v)) :
    Defined (colGuard norm eq v) := by
  unfold colGuard
  cases hn : norm v with
  | ok v' => simp only; split <;> first | exact Defined.ok _ | exact Defined.throw _
  | throw e => exact Defined.throw _
  | ub u => exact absurd hn (h u)

theorem setCol_defined {α} (r : TrackRows) (norm : α → Res α) (eq : α → α → Bool) (v : α)
    (put : PerfRow → α → PerfRow) (h : Defined (norm v)) : Defined (setCol r norm eq v put) := by
  unfold setCol
  have hd := colGuard_defined norm eq v h
  cases hg : colGuard norm eq v with
  | ok v' => simp only; cases r.perf <;> first | exact Defined.ok _ | exact Defined.throw _
  | throw e => exact Defined.throw _
  | ub u => exact absurd hg (hd u)

end EngineModel.TracksV1
