/-
Composite 2.x library: the COMPOSITION theorems.  After any admissible history of the composite

  * the crate tables, seen with the ids of the real Track rows, are exactly the tables the crate package reaches
    on `crateHist` (the same calls as that package sees them: a `create_track` that went through is its
    `createTrack`, `remove_track` its `removeTrack`, a setter / update / observer nothing), and
  * the Track table is exactly the table the track package reaches on `trackHist`.

So every history theorem of the packages (C07V2 / C08V2 / C09 / C11V2 on `Db.V2.run`, C01V2 / C06V2 / C11V2Tracks on
`TDb.run`) holds of the corresponding part of the composite — with "live track" meaning a ROW of the Track table.
-/
import Proofs.Lib2Step

namespace EngineModel.Lib.V2
open EngineModel EngineModel.Db.Chain EngineModel.TracksV2
open EngineModel.Table (Schema2)

theorem empty_crates (s : Schema2) (uuid : Bytes) : (Lib2.empty s uuid).crates = EngineModel.Db.V2.Db.empty := rfl

/-- a track call other than `remove`, seen from the crate package: nothing, or — exactly when it is a
`create_track` that returned normally — `createTrack` -/
theorem trackCall_view {s : Schema2} {L : Lib2} (h : LibCore s L) (ops : FOps) (op : TOp) (hop : ∀ id, op ≠ .remove id) :
    ((trackCall ops s op L).1.crates = L.crates ∧ ((∃ x, op = .create x) → isOk (trackCall ops s op L).2 = false)) ∨
    ((∃ x, op = .create x) ∧ isOk (trackCall ops s op L).2 = true ∧
      (trackCall ops s op L).1.crates = (EngineModel.Db.V2.step L.crates .createTrack).1) := by
  unfold trackCall
  simp only []
  have hs := tstep ops (toT s) h.tr op
  revert hs
  generalize (L.tdb.step ops (toT s) op).1 = tdb'
  generalize (L.tdb.step ops (toT s) op).2 = res
  intro hs
  cases hs with
  | failed _ _ hf =>
    left
    cases res with
    | ok v => exact absurd rfl (hf v)
    | throw e => exact ⟨rfl, fun _ => rfl⟩
    | ub u => exact ⟨rfl, fun _ => rfl⟩
  | created x row hw =>
    right
    refine ⟨⟨x, rfl⟩, rfl, ?_⟩
    simp only []
    split
    · rw [logAppend_crates]; exact created_crates L row
    · exact created_crates L row
  | updated id x t row hf hw =>
    left
    refine ⟨?_, fun ⟨_, e⟩ => by cases e⟩
    simp only []
    split
    · rw [logAppend_crates]; exact rep_crates L t row
    · exact rep_crates L t row
  | set id σ t row hf ha =>
    left
    refine ⟨?_, fun ⟨_, e⟩ => by cases e⟩
    simp only []
    split
    · rw [logAppend_crates]; exact rep_crates L t row
    · exact rep_crates L t row
  | removed id t hf => exact absurd rfl (hop id)

theorem snd_bind_isOk {α β} (m : M2 α) (f : α → β) (L : Lib2) :
    isOk ((m >>= fun a => (pure (f a) : M2 β)) L).2 = isOk (m L).2 := by
  rw [m2_bind_pure_snd]
  cases (m L).2 <;> rfl

/-- **one call**: the crate view after the call is the crate package's step on what it sees of the call -/
theorem crates_step (ops : FOps) (s : Schema2) {L : Lib2} (h : LibCore s L) (c : Call) (ha : c.admissible = true) :
    (step ops s L c).1.crates =
      match crateOpOf ops s L c with
      | some op => (EngineModel.Db.V2.step L.crates op).1
      | none => L.crates := by
  cases ho : c.isObserver
  case true =>
    rw [observer_unchanged ops s L c ho]
    cases c <;> first | (exfalso; exact Bool.noConfusion ho) | rfl
  case false =>
    cases c <;> first | (exfalso; exact Bool.noConfusion ho) | skip
    case foreignEntry c t u =>
      simp only [crateOpOf, step]
      split
      · rw [m2_bind_pure_fst]
        exact crateCall_crates L _ (by simpa [crateMem, Call.admissible] using ha)
      · rfl
    case plantPrepare t =>
      simp only [crateOpOf, step]
      split <;> rfl
    case createTrack x =>
      have hv := trackCall_view h ops (.create x) (fun id e => by cases e)
      have e1 : (step ops s L (.createTrack x)).1 = (trackCall ops s (.create x) L).1 := by
        simp only [step]; rw [m2_bind_pure_fst]
      have e2 : isOk (step ops s L (.createTrack x)).2 = isOk (trackCall ops s (.create x) L).2 := by
        simp only [step]; exact snd_bind_isOk _ _ L
      simp only [crateOpOf, e2]
      rw [e1]
      rcases hv with ⟨h1, h2⟩ | ⟨_, h2, h3⟩
      · rw [h2 ⟨x, rfl⟩]; exact h1
      · rw [h2]; exact h3
    case removeTrack t =>
      simp only [step, crateOpOf]; rw [m2_bind_pure_fst]; exact removeTrack_crates s t L
    case trackUpdate t x =>
      simp only [step, crateOpOf]; rw [m2_bind_pure_fst]
      rcases trackCall_view h ops (.update t x) (fun id e => by cases e) with ⟨h1, _⟩ | ⟨⟨_, e⟩, _⟩
      · exact h1
      · cases e
    case trackSet t σ =>
      simp only [step, crateOpOf]; rw [m2_bind_pure_fst]
      rcases trackCall_view h ops (.set t σ) (fun id e => by cases e) with ⟨h1, _⟩ | ⟨⟨_, e⟩, _⟩
      · exact h1
      · cases e
    all_goals (simp only [step, crateOpOf]; rw [m2_bind_pure_fst]; exact crateCall_crates L _ rfl)

theorem crateOpOf_memOp (ops : FOps) (s : Schema2) (L : Lib2) (c : Call) (ha : c.admissible = true) :
    ∀ op, crateOpOf ops s L c = some op → EngineModel.Db.V2.memOp op = true := by
  intro op hop
  cases c <;> simp only [crateOpOf] at hop <;> (try (cases hop; done)) <;> try (cases hop; rfl)
  case createTrack x => split at hop <;> cases hop; rfl
  case foreignEntry c t u =>
    split at hop
    · cases hop; simpa [EngineModel.Db.V2.memOp, Call.admissible] using ha
    · cases hop

theorem crateOpOf_apiOp (ops : FOps) (s : Schema2) (L : Lib2) (c : Call) (ha : c.isApi = true) :
    ∀ op, crateOpOf ops s L c = some op → EngineModel.Db.V2.apiOp op = true := by
  intro op hop
  cases c <;> simp only [crateOpOf] at hop <;> (try (cases hop; done)) <;> try (cases hop; rfl)
  case createTrack x => split at hop <;> cases hop; rfl
  case foreignEntry c t u => exact absurd ha (by simp [Call.isApi])

theorem v2_run_append (d : CDb) (a b : List COp) :
    EngineModel.Db.V2.run d (a ++ b) = EngineModel.Db.V2.run (EngineModel.Db.V2.run d a) b := by
  induction a generalizing d with
  | nil => rfl
  | cons x xs ih => simp only [List.cons_append, EngineModel.Db.V2.run]; exact ih _

/-- **Composition, crate side**: after any admissible history the crate tables of the composite (with the ids of
the real Track rows) are the crate package's tables after `crateHist`. -/
theorem crates_run (ops : FOps) (s : Schema2) {L : Lib2} (h : LibCore s L) (hist : List Call)
    (ha : hist.all Call.admissible = true) :
    (run ops s L hist).crates = EngineModel.Db.V2.run L.crates (crateHist ops s L hist) := by
  induction hist generalizing L with
  | nil => rfl
  | cons c cs ih =>
    simp only [List.all_cons, Bool.and_eq_true] at ha
    have h1 := crates_step ops s h c ha.1
    have h' := libCore_step ops s h c ha.1
    show (run ops s (step ops s L c).1 cs).crates = _
    rw [ih h' ha.2, h1]
    simp only [crateHist]
    rw [v2_run_append]
    cases crateOpOf ops s L c with
    | none => rfl
    | some op => rfl

theorem crateHist_memOp (ops : FOps) (s : Schema2) (L : Lib2) (hist : List Call) (ha : hist.all Call.admissible = true) :
    (crateHist ops s L hist).all EngineModel.Db.V2.memOp = true := by
  induction hist generalizing L with
  | nil => rfl
  | cons c cs ih =>
    simp only [List.all_cons, Bool.and_eq_true] at ha
    simp only [crateHist, List.all_append, Bool.and_eq_true]
    refine ⟨?_, ih _ ha.2⟩
    cases hc : crateOpOf ops s L c with
    | none => rfl
    | some op => simp [crateOpOf_memOp ops s L c ha.1 op hc]

theorem crateHist_apiOp (ops : FOps) (s : Schema2) (L : Lib2) (hist : List Call) (ha : hist.all Call.isApi = true) :
    (crateHist ops s L hist).all EngineModel.Db.V2.apiOp = true := by
  induction hist generalizing L with
  | nil => rfl
  | cons c cs ih =>
    simp only [List.all_cons, Bool.and_eq_true] at ha
    simp only [crateHist, List.all_append, Bool.and_eq_true]
    refine ⟨?_, ih _ ha.2⟩
    cases hc : crateOpOf ops s L c with
    | none => rfl
    | some op => simp [crateOpOf_apiOp ops s L c ha.1 op hc]

theorem crateHist_append (ops : FOps) (s : Schema2) (L : Lib2) (a b : List Call) :
    crateHist ops s L (a ++ b) = crateHist ops s L a ++ crateHist ops s (run ops s L a) b := by
  induction a generalizing L with
  | nil => rfl
  | cons c cs ih =>
    simp only [List.cons_append, crateHist, List.append_assoc]
    rw [ih]; rfl

theorem run_append (ops : FOps) (s : Schema2) (L : Lib2) (a b : List Call) :
    run ops s L (a ++ b) = run ops s (run ops s L a) b := by
  unfold run; rw [List.foldl_append]

/-! ### track side -/

theorem trackCall_tdb (ops : FOps) (s : Schema2) (op : TOp) (L : Lib2) :
    (trackCall ops s op L).1.tdb = (L.tdb.step ops (toT s) op).1 := by
  unfold trackCall
  simp only []
  cases (L.tdb.step ops (toT s) op).2 with
  | ok v =>
    simp only []
    split
    · rw [(logAppend_tdb _ _ _).1]
    · rfl
  | throw e => rfl
  | ub u => rfl

theorem removeTrack_tdb (s : Schema2) (t : Nat) (L : Lib2) :
    (removeTrack s t L).1.tdb = (L.tdb.step (⟨fun _ => 0, fun _ => 0, fun _ _ => 0⟩ : FOps) (toT s) (.remove t)).1 := by
  rw [removeTrack_eq]
  show _ = ((callRemove t >>= fun _ => (pure 0 : M Nat)) L.tdb).1
  rw [fst_bind_pure, callRemove_eq]
  split <;> rfl

theorem remove_ops_irrelevant (o1 o2 : FOps) (s : TracksV2.Schema) (db : TDb) (t : Nat) :
    (db.step o1 s (.remove t)).1 = (db.step o2 s (.remove t)).1 := rfl

/-- **one call, track side** -/
theorem tdb_step (ops : FOps) (s : Schema2) (L : Lib2) (c : Call) :
    (step ops s L c).1.tdb =
      match trackOpOf c with
      | some op => (L.tdb.step ops (toT s) op).1
      | none => L.tdb := by
  cases ho : c.isObserver
  case true =>
    rw [observer_unchanged ops s L c ho]
    cases c <;> first | (exfalso; exact Bool.noConfusion ho) | rfl
  case false =>
    cases c <;> first | (exfalso; exact Bool.noConfusion ho) | skip
    case foreignEntry c t u =>
      simp only [trackOpOf, step]
      split
      · rw [m2_bind_pure_fst]; rfl
      · rfl
    case plantPrepare t =>
      simp only [trackOpOf, step]
      split <;> rfl
    case createTrack x => simp only [step, trackOpOf]; rw [m2_bind_pure_fst]; exact trackCall_tdb ..
    case trackUpdate t x => simp only [step, trackOpOf]; rw [m2_bind_pure_fst]; exact trackCall_tdb ..
    case trackSet t σ => simp only [step, trackOpOf]; rw [m2_bind_pure_fst]; exact trackCall_tdb ..
    case removeTrack t =>
      simp only [step, trackOpOf]; rw [m2_bind_pure_fst, removeTrack_tdb]; exact remove_ops_irrelevant ..
    all_goals (simp only [step, trackOpOf]; rw [m2_bind_pure_fst]; rfl)

/-- **Composition, track side**: the Track table of the composite is the track package's table after `trackHist`. -/
theorem tdb_run (ops : FOps) (s : Schema2) (L : Lib2) (hist : List Call) :
    (run ops s L hist).tdb = L.tdb.run ops (toT s) (trackHist hist) := by
  induction hist generalizing L with
  | nil => rfl
  | cons c cs ih =>
    show (run ops s (step ops s L c).1 cs).tdb = _
    rw [ih, tdb_step]
    simp only [trackHist, List.filterMap_cons]
    cases trackOpOf c with
    | none => rfl
    | some op => rfl

end EngineModel.Lib.V2
