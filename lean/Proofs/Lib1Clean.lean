/-
The tracks package's stronger invariant `DbClean` (every stored blob passes the decode-after-encode guard: the hypothesis
of its acceptance theorems `v1_C06_accepts*`) on the composite: kept by every call under the package's float law
`FloatLaw o`, for histories whose `create_track` / `update` snapshots are NaN-free (`noNaNCalls`, decidable — NaN is
outside C01 / C06's quantifier).
-/
import Proofs.Lib1Inv
import Proofs.TracksV1AcceptDb

namespace EngineModel.Lib.V1
open EngineModel.Api
open EngineModel.TracksV1 (Snap Field TrackRows aget aset DbClean Clean FloatLaw dbCreate dbUpdate dbSet)
open EngineModel.TracksV1.Fl (FOps)

/-- Every snapshot handed to `create_track` / `update` in the history is NaN-free. -/
def noNaNCalls : List Call → Bool
  | [] => true
  | .createTrack x :: cs => TracksV1.Spec.NoNaN x && noNaNCalls cs
  | .update _ x :: cs => TracksV1.Spec.NoNaN x && noNaNCalls cs
  | _ :: cs => noNaNCalls cs

theorem clean_step (o : FOps) (hl : FloatLaw o) {s : VSchema} {L : Lib1} (hi : LibInv s L) (h : DbClean L.tr) (c : Call)
    (hn : noNaNCalls [c] = true) : DbClean (step o s L c).1.tr := by
  by_cases hc : c.isObserver = true
  · rw [step_observer o s L c hc]; exact h
  · cases c with
    | createTrack x =>
      have hx : TracksV1.Spec.NoNaN x = true := by simpa [noNaNCalls] using hn
      obtain ⟨id, seq, hcr, hmax⟩ := CratesV1.createTrack_spec (toDetect s) L.cr
      show DbClean (createTrack o s L x).1.tr
      unfold createTrack
      rw [hcr]
      simp only
      cases hd : dbCreate o L.tr x with
      | throw e => exact h
      | ub u => exact h
      | ok p =>
        obtain ⟨d', id0⟩ := p
        simp only
        have hc' := TracksV1.dbCreate_clean o hl L.tr d' x id0 h hx hd
        obtain ⟨rows, hw, hd'⟩ := TracksV1.dbCreate_rows o L.tr d' x id0 hd
        have hid0 := dbCreate_id o L.tr d' x id0 hd
        have h0 : ∀ e ∈ L.tr.tracks, e.1 ≠ id0 := by
          intro e he; rw [hid0]; have := TracksV1.nextId_fresh L.tr e he; omega
        have h1 := fresh_of_maxId hi hmax
        have hnone : ∀ k, (∀ e ∈ L.tr.tracks, e.1 ≠ k) → aget k L.tr.tracks = none := by
          intro k hk
          cases hh : aget k L.tr.tracks with
          | none => rfl
          | some r => exact absurd rfl (hk _ (TracksV1.aget_mem _ _ _ hh))
        subst hd'
        rw [relabel_append L.tr id0 id rows h0]
        intro id' r hr
        have hr' : aget id' (L.tr.tracks ++ [(id, rows)]) = some r := hr
        by_cases hy : id' = id
        · subst hy
          rw [TracksV1.aget_append_fresh _ _ _ (hnone _ h1)] at hr'
          cases hr'
          exact hc' id0 rows (TracksV1.aget_append_fresh _ _ _ (hnone _ h0))
        · rw [TracksV1.aget_append_other _ _ _ _ hy] at hr'
          exact h id' r hr'
    | removeTrack t => exact TracksV1.dbRemove_clean L.tr t h
    | update t x =>
      have hx : TracksV1.Spec.NoNaN x = true := by simpa [noNaNCalls] using hn
      show DbClean (viaTracks L (dbUpdate o L.tr t x)).1.tr
      cases hu : dbUpdate o L.tr t x with
      | throw e => exact h
      | ub u => exact h
      | ok d' => exact TracksV1.dbUpdate_clean o hl L.tr d' x t h hx hu
    | set t f v =>
      show DbClean (viaTracks L (dbSet o L.tr t f v)).1.tr
      cases hu : dbSet o L.tr t f v with
      | throw e => exact h
      | ub u => exact h
      | ok d' => exact TracksV1.dbSet_clean o L.tr d' t f v h hu
    | createRootCrate n => exact h
    | createRootCrateAfter n a => exact h
    | removeCrate c => exact h
    | addTrack c u => exact h
    | crateRemoveTrack c u => exact h
    | clearTracks c => exact h
    | createSubCrate c n => exact h
    | createSubCrateAfter c n a => exact h
    | setName c n => exact h
    | setParent c p => exact h
    | _ => exact absurd rfl hc

theorem noNaNCalls_cons (c : Call) (cs : List Call) : noNaNCalls (c :: cs) = (noNaNCalls [c] && noNaNCalls cs) := by
  cases c <;> simp [noNaNCalls]

theorem clean_run (o : FOps) (hl : FloatLaw o) {s : VSchema} : ∀ (cs : List Call) {L : Lib1}, LibInv s L → DbClean L.tr →
    noNaNCalls cs = true → DbClean (run o s L cs).tr := by
  intro cs
  induction cs with
  | nil => intro L _ h _; exact h
  | cons c cs ih =>
    intro L hi h hn
    rw [noNaNCalls_cons, Bool.and_eq_true] at hn
    rw [run_cons]
    exact ih (libInv_step o hi c) (clean_step o hl hi h c hn.1) hn.2

end EngineModel.Lib.V1
