/-
`information_table` (property C18, second round): `get` on the created library,
and `update_current_played_indicator` changes that member only.
-/
import Proofs.TableTrack
import EngineModel.Table.Info
namespace EngineModel
namespace Table

theorem IField.mem_all (f : IField) : f ∈ IField.all := by cases f <;> decide
theorem IField.nodup_all : nodupB IField.all = true := by decide
theorem IField.col_inj {f g : IField} (h : f.col = g.col) : f = g := by
  cases f <;> cases g <;> first | rfl | (exact absurd h (by decide))

/-- `get` on the row the schema creator stores. -/
theorem info_get_created {st : IStmts} (ha : alignedI st = true) (s : Schema2) (uuid : Bytes) (cpi : Int) :
    iGet st (infoRow s (.text uuid) cpi) = .ok (normInfo s uuid cpi) := by
  simp only [alignedI, Bool.and_eq_true, decide_eq_true_eq] at ha
  unfold iGet
  apply readRow_aligned _ ha.1.2 IField.nodup_all IField.mem_all
  intro f
  cases f <;> rfl

/-- What `get` returns is, member by member, what the declared read conversion
makes of the member's own column. -/
theorem info_get_members {st : IStmts} (ha : alignedI st = true) {raw : Raw ICol} {g : Row IField}
    (h : iGet st raw = .ok g) (f : IField) : rconv f.ty.pty f.ty.rconv (raw f.col) = .ok (g f) := by
  simp only [alignedI, Bool.and_eq_true, decide_eq_true_eq] at ha
  have := readRow_aligned_inv ha.1.2 IField.nodup_all h (f := f) (IField.mem_all f)
  simp only [expectedSrc, if_true, readSrc] at this
  exact this

/-- **update_current_played_indicator changes that member only**: `get` afterwards
returns the row it returned before with `current_played_indicator` replaced. -/
theorem info_set_get {st : IStmts} (ha : alignedI st = true) {raw : Raw ICol} {g : Row IField}
    (h : iGet st raw = .ok g) (v : Int) : iGet st (iSetCpi st raw v) = .ok (normInfoSet v g) := by
  have ha' := ha
  simp only [alignedI, Bool.and_eq_true, decide_eq_true_eq] at ha'
  unfold iGet iSetCpi
  apply readRow_aligned _ ha'.1.2 IField.nodup_all IField.mem_all
  intro f
  simp only [expectedSrc, if_true, readSrc, ha'.2]
  show rconv _ _ (setCol raw IField.current_played_indicator.col (.int v) f.col) = _
  unfold normInfoSet
  by_cases hf : f = .current_played_indicator
  · subst hf
    rw [setCol_same]; rfl
  · rw [setCol_other _ _ (fun hc => hf (IField.col_inj hc))]
    simp only [hf, if_false]
    exact info_get_members ha h f

end Table
end EngineModel
