/-
On the AUTOINCREMENT schemas (1.17.0, 1.18.0 desktop / os) a track id is never issued twice: `sqlite_sequence` only grows
and bounds every Track id, so `create_track` never reports an id at or below it.  Hence the stale-track clause holds in
FULL there (no `reissuesTrack` hypothesis).
-/
import Proofs.Lib1Members

namespace EngineModel.Lib.V1
open EngineModel.Api
open EngineModel.Api.CratesV1 (liveTrack trackAutoinc)
open EngineModel.Api.CratesV1.C15 (SeqOk CInv)
open EngineModel.TracksV1 (Snap Field TrackRows aget aset dbCreate)
open EngineModel.TracksV1.Fl (FOps)

theorem createTrack_seq_mono (s : Pure.Detect.Schema) (db : CratesV1.Db) :
    db.trackSeq ≤ (CratesV1.createTrack s db).1.trackSeq := by
  unfold CratesV1.createTrack
  split
  · show db.trackSeq ≤ max db.trackSeq _ + 1; omega
  · exact Int.le_refl _

theorem triggerFold_seq_mono (olds : List CratesV1.TrackRow) : ∀ (acc : CratesV1.Db),
    acc.trackSeq ≤ (olds.foldl CratesV1.triggerStep acc).trackSeq := by
  induction olds with
  | nil => intro acc; exact Int.le_refl _
  | cons o os ih =>
    intro acc
    rw [List.foldl_cons]
    refine Int.le_trans ?_ (ih _)
    unfold CratesV1.triggerStep
    split
    · show acc.trackSeq ≤ max acc.trackSeq _ + 1; omega
    · exact Int.le_refl _

theorem removeTrack_seq_mono (s : Pure.Detect.Schema) (db : CratesV1.Db) (t : Id) :
    db.trackSeq ≤ (CratesV1.removeTrack s db t).1.trackSeq := by
  have h5 := (CratesV1.deleteCtl_other s db (fun r => r.2 == t)).2.2.2.2
  rw [CratesV1.removeTrack_unfold]
  split
  · refine Int.le_trans ?_ (triggerFold_seq_mono _ _)
    show db.trackSeq ≤ (CratesV1.deleteCtl s db _).trackSeq
    rw [h5]; exact Int.le_refl _
  · show db.trackSeq ≤ (CratesV1.deleteCtl s db _).trackSeq
    rw [h5]; exact Int.le_refl _

/-- `sqlite_sequence` of Track never decreases, whatever the call. -/
theorem step_seq_mono (o : FOps) {s : VSchema} {L : Lib1} (h : LibInv s L) (c : Call) :
    L.cr.trackSeq ≤ (step o s L c).1.cr.trackSeq := by
  rw [step_cr]
  cases hcr : crOp o L c with
  | none => exact Int.le_refl _
  | some op =>
    simp only
    by_cases hop : crateOnly op = true
    · rw [(crateOp_track (toDetect s) h.crates.toFInv op hop).2]; exact Int.le_refl _
    · cases op with
      | createTrack => exact createTrack_seq_mono _ _
      | removeTrack t => exact removeTrack_seq_mono _ _ t
      | _ => exact absurd rfl hop

theorem step_cinv_lib (o : FOps) {s : VSchema} {L : Lib1} (hc : CInv (toDetect s) L.cr) (c : Call) :
    CInv (toDetect s) (step o s L c).1.cr := by
  rw [step_cr]
  cases crOp o L c with
  | none => exact hc
  | some op => exact CratesV1.C15.step_cinv (toDetect s) hc op

/-- On an AUTOINCREMENT schema no continuation re-issues an id at or below `sqlite_sequence`. -/
theorem no_reissue_autoinc (o : FOps) {s : VSchema} (ha : trackAutoinc (toDetect s) = true) (t : Id) :
    ∀ (cs : List Call) {L : Lib1}, LibInv s L → CInv (toDetect s) L.cr → t ≤ L.cr.trackSeq → reissuesTrack o s L cs t = false := by
  intro cs
  induction cs with
  | nil => intro L _ _ _; rfl
  | cons c cs ih =>
    intro L h hc ht
    rw [reissuesTrack_cons, Bool.or_eq_false_iff]
    refine ⟨?_, ih (libInv_step o h c) (step_cinv_lib o hc c) (Int.le_trans ht (step_seq_mono o h c))⟩
    cases c with
    | createTrack x =>
      show ((Out.newId (createTrack o s L x).2 == some t) || false) = false
      rw [Bool.or_false]
      have hid : CratesV1.createTrack (toDetect s) L.cr =
          ({ L.cr with track := L.cr.track ++ [⟨max L.cr.trackSeq (CratesV1.maxId (L.cr.track.map (·.id))) + 1, true⟩],
                       trackSeq := max L.cr.trackSeq (CratesV1.maxId (L.cr.track.map (·.id))) + 1 },
           .ok (.id (max L.cr.trackSeq (CratesV1.maxId (L.cr.track.map (·.id))) + 1))) := by
        unfold CratesV1.createTrack
        rw [if_pos ha]
      unfold createTrack
      rw [hid]
      simp only
      cases dbCreate o L.tr x with
      | ok p =>
        simp only [Out.newId]
        have hm : L.cr.trackSeq ≤ max L.cr.trackSeq (CratesV1.maxId (L.cr.track.map (·.id))) := Int.le_max_left _ _
        have : max L.cr.trackSeq (CratesV1.maxId (L.cr.track.map (·.id))) + 1 ≠ t := by
          generalize max L.cr.trackSeq (CratesV1.maxId (L.cr.track.map (·.id))) = m at hm
          intro e
          have h3 : ∀ a b c : Int, c ≤ a → a ≤ b → b + 1 = c → False := by intro a b c; omega
          exact h3 _ _ _ ht hm e
        simpa using this
      | throw e => rfl
      | ub u => rfl
    | _ => rfl

end EngineModel.Lib.V1
