/-
`Db/V2CratesStmts.lean`: the statement programs of the 2.x crate / membership
calls are what `Db.V2.step` computes, and each is an atomic shape.
-/
import EngineModel.Db.V2CratesStmts
import Proofs.Stmts

namespace EngineModel.Proofs.V2CratesStmts
open EngineModel EngineModel.Db.V2 EngineModel.Db.Chain EngineModel.Spec.Txn EngineModel.Spec.Stmts
open EngineModel.Proofs.Stmts

theorem body_rw (d : Db) (op : Op) : ∀ x ∈ body d op, Cmd.rw x = true := by
  intro x hx
  cases op with
  | rename c n =>
    simp only [body] at hx
    split at hx <;> simp only [List.mem_cons, List.not_mem_nil, or_false] at hx
    · rcases hx with rfl | rfl | rfl <;> rfl
    · subst hx; rfl
  | setParent c p =>
    simp only [body] at hx
    split at hx
    · split at hx <;> split at hx <;> simp only [List.mem_cons, List.not_mem_nil, or_false] at hx <;>
        (rcases hx with rfl | rfl | rfl | rfl | rfl <;> rfl)
    · simp only [List.mem_cons, List.not_mem_nil, or_false] at hx; subst hx; rfl
  | removeCrate c =>
    simp only [body, List.mem_cons, List.mem_append, List.mem_map] at hx
    rcases hx with rfl | rfl | ⟨a, _, rfl⟩ | ⟨a, _, rfl⟩ <;> rfl
  | removeTrack t =>
    simp only [body, List.mem_append, List.mem_map, List.mem_cons, List.not_mem_nil, or_false] at hx
    rcases hx with ⟨a, _, rfl⟩ | rfl <;> rfl
  | addTrack c t =>
    simp only [body] at hx
    split at hx <;> simp only [List.mem_cons, List.not_mem_nil, or_false] at hx
    · rcases hx with rfl | rfl | rfl <;> rfl
    · rcases hx with rfl | rfl | rfl | rfl <;> rfl
  | removeTrackFrom c t =>
    simp only [body] at hx
    split at hx <;> simp only [List.mem_cons, List.not_mem_nil, or_false] at hx
    · rcases hx with rfl | rfl <;> rfl
    · subst hx; rfl
  | peAddBack l t u f =>
    simp only [body] at hx
    split at hx <;> simp only [List.mem_cons, List.not_mem_nil, or_false] at hx
    · subst hx; rfl
    · rcases hx with rfl | rfl <;> rfl
  | createRoot n =>
    simp only [body, List.mem_cons, List.not_mem_nil, or_false] at hx
    rcases hx with rfl | rfl <;> rfl
  | createRootAfter n a =>
    simp only [body, List.mem_cons, List.not_mem_nil, or_false] at hx
    rcases hx with rfl | rfl | rfl <;> rfl
  | createSub p n =>
    simp only [body, List.mem_cons, List.not_mem_nil, or_false] at hx
    rcases hx with rfl | rfl | rfl <;> rfl
  | createSubAfter p n a =>
    simp only [body, List.mem_cons, List.not_mem_nil, or_false] at hx
    rcases hx with rfl | rfl | rfl | rfl <;> rfl
  | createTrack =>
    simp only [body, List.mem_cons, List.not_mem_nil, or_false] at hx; subst hx; rfl
  | clearTracks c =>
    simp only [body, List.mem_cons, List.not_mem_nil, or_false] at hx; subst hx; rfl
  | peRemove l e =>
    simp only [body, List.mem_cons, List.not_mem_nil, or_false] at hx; subst hx; rfl
  | peClear l =>
    simp only [body, List.mem_cons, List.not_mem_nil, or_false] at hx; subst hx; rfl

theorem okState_of_ok (r : Db × Res Out) (out : Out) (h : r.2 = .ok out) : okState r = some r.1 := by
  unfold okState; rw [h]

theorem writesOf_map_tot {β : Type} (xs : List β) (g : β → Db → Db) :
    writesOf (xs.map fun x => tot (g x)) = xs.map fun x => fun d => some (g x d) := by
  induction xs with
  | nil => rfl
  | cons x xs ih =>
    show (fun d => some (g x d)) :: writesOf (xs.map fun x => tot (g x)) = _
    rw [ih]; rfl

theorem applyAll_map_tot {β : Type} (xs : List β) (g : β → Db → Db) (d : Db) :
    applyAll (xs.map fun x => fun d => some (g x d)) d = some (xs.foldl (fun acc x => g x acc) d) := by
  induction xs generalizing d with
  | nil => rfl
  | cons x xs ih => simp [applyAll, Option.bind, ih]

theorem foldl_pe (xs : List Int) (g : Table Ent → Int → Table Ent) (d : Db) :
    xs.foldl (fun acc x => { acc with pe := g acc.pe x }) d = { d with pe := xs.foldl g d.pe } := by
  induction xs generalizing d with
  | nil => rfl
  | cons x xs ih => simp only [List.foldl_cons]; rw [ih]

theorem foldl_pl (xs : List Int) (g : Table Bytes → Int → Table Bytes) (d : Db) :
    xs.foldl (fun acc x => { acc with pl := g acc.pl x }) d = { d with pl := xs.foldl g d.pl } := by
  induction xs generalizing d with
  | nil => rfl
  | cons x xs ih => simp only [List.foldl_cons]; rw [ih]

theorem applyAll_append' {α : Type} (p q : List (α → Option α)) (a b : α) (h : applyAll p a = some b) :
    applyAll (p ++ q) a = applyAll q b := by
  rw [EngineModel.Proofs.Txn.applyAll_append, h]; rfl

/-- **The statement program is the model's call**: whenever `step` returns normally, applying the writes of the
program in order to the prior tables gives exactly the tables `step` returns. -/
theorem body_replay (d : Db) (op : Op) (out : Out) (h : (step d op).2 = .ok out) :
    applyAll (writesOf (body d op)) d = some (step d op).1 := by
  cases op with
  | createRoot n =>
    simp only [step] at h ⊢
    split at h
    · simp at h
    · rename_i hd
      simp only [hd, if_false, body, writesOf, applyAll, wPlAdd, Option.bind]
      rw [okState_of_ok _ out h]; simp
  | createRootAfter n a =>
    simp only [step] at h ⊢
    split at h
    · simp at h
    · rename_i hd
      simp only [hd, if_false] at h ⊢
      cases hg : get d.pl a with
      | none => simp [hg] at h
      | some r =>
        simp only [hg] at h ⊢
        split at h
        · simp at h
        · rename_i hk
          simp only [hk, if_false, body, writesOf, applyAll, wPlAdd, Option.bind, nextOf, hg]
          rw [okState_of_ok _ out h]; simp
  | createSub p n =>
    simp only [step] at h ⊢
    split at h
    · simp at h
    · rename_i h1
      split at h
      · simp at h
      · rename_i h2
        simp only [h1, h2, if_false, body, writesOf, applyAll, wPlAdd, Option.bind]
        rw [okState_of_ok _ out h]; simp
  | createSubAfter p n a =>
    simp only [step] at h ⊢
    split at h
    · simp at h
    · rename_i h1
      split at h
      · simp at h
      · rename_i h2
        simp only [h1, h2, if_false] at h ⊢
        cases hg : get d.pl a with
        | none => simp [hg] at h
        | some r =>
          simp only [hg] at h ⊢
          split at h
          · simp at h
          · rename_i hk
            simp only [hk, if_false, body, writesOf, applyAll, wPlAdd, Option.bind, nextOf, hg]
            rw [okState_of_ok _ out h]; simp
  | rename c n =>
    simp only [step] at h ⊢
    cases hg : get d.pl c with
    | none => simp [hg] at h
    | some row =>
      simp only [hg] at h ⊢
      simp only [body, hg, writesOf, applyAll, wPlUpdate, Option.bind]
      rw [okState_of_ok _ out h]
  | setParent c p =>
    simp only [step] at h ⊢
    split at h
    · simp at h
    · rename_i hself
      simp only [hself, if_false] at h ⊢
      cases hg : get d.pl c with
      | none => simp [hg] at h
      | some row =>
        simp only [hg] at h ⊢
        cases p with
        | none =>
          simp only at h ⊢
          split at h
          · rename_i hk
            simp only [hk, if_true, body, hg, writesOf, applyAll, wPlUpdate, Option.bind]
            rw [okState_of_ok _ out h]; simp
          · rename_i hk
            simp only [hk, Bool.false_eq_true, if_false, body, hg, writesOf, applyAll, wPlUpdate, Option.bind]
            rw [okState_of_ok _ out h]
        | some q =>
          simp only at h ⊢
          split at h
          · simp at h
          · rename_i h1
            simp only [h1, if_false] at h ⊢
            cases hdesc : descendantIds d.pl c with
            | throw e => simp [hdesc] at h
            | ub u => simp [hdesc] at h
            | ok ds =>
              simp only [hdesc] at h ⊢
              split at h
              · simp at h
              · rename_i h2
                simp only [h2, if_false] at h ⊢
                split at h
                · rename_i hk
                  simp only [hk, if_true, body, hg, writesOf, applyAll, wPlUpdate, Option.bind]
                  rw [okState_of_ok _ out h]; simp
                · rename_i hk
                  simp only [hk, Bool.false_eq_true, if_false, body, hg, writesOf, applyAll, wPlUpdate, Option.bind]
                  rw [okState_of_ok _ out h]
  | removeCrate c =>
    simp only [step] at h ⊢
    split at h
    · simp at h
    · rename_i he
      simp only [he, if_false] at h ⊢
      cases hdesc : descendantIds d.pl c with
      | throw e => simp [hdesc] at h
      | ub u => simp [hdesc] at h
      | ok ds =>
        simp only [hdesc, body, removedBelow, writesOf, writesOf_append, plRemove]
        have e1 : (c :: ds).map wClearKey =
            (c :: ds).map fun l => tot (fun d : Db => { d with pe := clearKey fires d.pe l }) := rfl
        have e2 : (c :: ds).map wDeleteList =
            (c :: ds).map fun i => tot (fun d : Db => { d with pl := deleteCascade d.pl i }) := rfl
        rw [e1, e2, writesOf_map_tot, writesOf_map_tot]
        rw [applyAll_append' _ _ _ _ (applyAll_map_tot _ _ _), applyAll_map_tot]
        rw [foldl_pe _ (fun pe l => clearKey fires pe l), foldl_pl _ (fun pl i => deleteCascade pl i)]
        simp
  | createTrack =>
    simp [body, writesOf, applyAll, tot, Option.bind]
  | removeTrack t =>
    simp only [step] at h ⊢
    split at h
    · rename_i hc
      simp only [hc, if_true, body, writesOf_append]
      have e1 : (ids d.pl).map (fun l => wRemoveFromList l t) =
          (ids d.pl).map fun l => tot (fun d : Db => { d with pe := rmTrackIn t d.pe l }) := rfl
      rw [e1, writesOf_map_tot, applyAll_append' _ _ _ _ (applyAll_map_tot _ _ _)]
      rw [foldl_pe _ (fun pe l => rmTrackIn t pe l)]
      simp [writesOf, applyAll, wDeleteTrack, tot, Option.bind]
    · simp at h
  | addTrack c t =>
    simp only [step] at h ⊢
    split at h
    · simp at h
    · rename_i h1
      split at h
      · simp at h
      · rename_i h2
        simp only [h1, h2, if_false, peAddBack] at h ⊢
        cases hf : peFind d c t 0 with
        | some e => simp [body, hf, writesOf, applyAll]
        | none => simp [body, hf, writesOf, applyAll, wAppendBack, tot, Option.bind]
  | removeTrackFrom c t =>
    simp only [step] at h ⊢
    cases hf : peFind d c t 0 with
    | some e => simp [body, hf, writesOf, applyAll, wDeleteEntity, tot, Option.bind]
    | none => simp [body, hf, writesOf, applyAll]
  | clearTracks c => simp [step, body, writesOf, applyAll, wClearKey, tot, Option.bind]
  | peAddBack l t u f =>
    simp only [step, peAddBack] at h ⊢
    cases hf : peFind d l t u with
    | some e =>
      simp only [hf] at h ⊢
      split at h
      · simp at h
      · rename_i hd
        simp [hd, body, hf, writesOf, applyAll]
    | none => simp [body, hf, writesOf, applyAll, wAppendBack, tot, Option.bind]
  | peRemove l e =>
    simp only [step] at h ⊢
    split at h
    · simp at h
    · rename_i hn
      simp [hn, body, writesOf, applyAll, wDeleteEntity, tot, Option.bind]
  | peClear l => simp [step, body, writesOf, applyAll, wClearKey, tot, Option.bind]

theorem flat_one_write (d : Db) (op : Op) (h : scopedAt d op = false) :
    ((body d op).filter (·.kind == .write)).length ≤ 1 := by
  cases op with
  | rename c n => simp [scopedAt] at h
  | setParent c p => simp [scopedAt] at h
  | removeCrate c => simp [scopedAt] at h
  | removeTrack t => simp [scopedAt] at h
  | addTrack c t =>
    simp only [scopedAt, Option.isNone_eq_false_iff, Option.isSome_iff_exists] at h
    obtain ⟨e, he⟩ := h
    simp [body, he, Cmd.kind]
  | peAddBack l t u f =>
    simp only [scopedAt, Option.isNone_eq_false_iff, Option.isSome_iff_exists] at h
    obtain ⟨e, he⟩ := h
    simp [body, he, Cmd.kind]
  | removeTrackFrom c t =>
    simp only [body]
    split <;> simp [Cmd.kind, wDeleteEntity, tot]
  | createRoot n => simp [body, Cmd.kind, wPlAdd]
  | createRootAfter n a => simp [body, Cmd.kind, wPlAdd]
  | createSub p n => simp [body, Cmd.kind, wPlAdd]
  | createSubAfter p n a => simp [body, Cmd.kind, wPlAdd]
  | createTrack => simp [body, Cmd.kind, tot]
  | clearTracks c => simp [body, Cmd.kind, wClearKey, tot]
  | peRemove l e => simp [body, Cmd.kind, wDeleteEntity, tot]
  | peClear l => simp [body, Cmd.kind, wClearKey, tot]

/-- every public mutating call of the 2.x crate / membership code issues an atomic shape, on every prior state -/
theorem stmts_atomic (d : Db) (op : Op) : atomicShape (shapeOf op d) = true := by
  unfold shapeOf stmts
  cases hs : scopedAt d op
  · simp only [Bool.false_eq_true, if_false]
    exact atomic_flat _ (body_rw d op) (flat_one_write d op hs)
  · simp only [if_true]
    exact atomic_txn _ (body_rw d op)

/-- the fault-free run of the program makes exactly `step`'s result durable -/
theorem stmts_run (d : Db) (op : Op) (out : Out) (auto : Bool) (h : (step d op).2 = .ok out) :
    (call none auto (stmts d op) d).raised = false ∧
    (call none auto (stmts d op) d).conn = Conn.idle (step d op).1 := by
  unfold stmts
  cases hs : scopedAt d op
  · simp only [Bool.false_eq_true, if_false]
    exact flat_run auto _ (body_rw d op) d _ (body_replay d op out h)
  · simp only [if_true]
    exact txn_run auto _ (body_rw d op) d _ (body_replay d op out h)

/-- the skeleton of a successful call is one of the operation's allowed skeletons -/
theorem stmts_skeleton (d : Db) (op : Op) (out : Out) (h : (step d op).2 = .ok out) :
    ∃ k ∈ allowed op, skeleton (shapeOf op d) = k.kinds := by
  unfold shapeOf stmts
  cases op with
  | createRoot n => exact ⟨.single, by simp [allowed], rfl⟩
  | createRootAfter n a => exact ⟨.single, by simp [allowed], rfl⟩
  | createSub p n => exact ⟨.single, by simp [allowed], rfl⟩
  | createSubAfter p n a => exact ⟨.single, by simp [allowed], rfl⟩
  | createTrack => exact ⟨.single, by simp [allowed], rfl⟩
  | clearTracks c => exact ⟨.single, by simp [allowed], rfl⟩
  | peRemove l e => exact ⟨.single, by simp [allowed], rfl⟩
  | peClear l => exact ⟨.single, by simp [allowed], rfl⟩
  | removeTrackFrom c t =>
    simp only [scopedAt, Bool.false_eq_true, if_false, body]
    cases hf : peFind d c t 0 with
    | some e => exact ⟨.single, by simp [allowed], rfl⟩
    | none => exact ⟨.none, by simp [allowed], rfl⟩
  | addTrack c t =>
    rcases hf : peFind d c t 0 with _ | e
    · refine ⟨.scope, by simp [allowed], ?_⟩
      simp only [scopedAt, body, hf]; rfl
    · refine ⟨.none, by simp [allowed], ?_⟩
      simp only [scopedAt, body, hf]; rfl
  | peAddBack l t u f =>
    rcases hf : peFind d l t u with _ | e
    · refine ⟨.scope, by simp [allowed], ?_⟩
      simp only [scopedAt, body, hf]; rfl
    · refine ⟨.none, by simp [allowed], ?_⟩
      simp only [scopedAt, body, hf]; rfl
  | rename c n =>
    refine ⟨.scope, by simp [allowed], ?_⟩
    simp only [scopedAt, if_true]
    rw [skeleton_txn _ (body_rw d _)]
    simp only [step] at h
    cases hg : get d.pl c with
    | none => simp [hg] at h
    | some row => simp [body, hg, hasWrite, Cmd.kind, wPlUpdate, Skeleton.kinds]
  | setParent c p =>
    refine ⟨.scope, by simp [allowed], ?_⟩
    simp only [scopedAt, if_true]
    rw [skeleton_txn _ (body_rw d _)]
    simp only [step] at h
    split at h
    · simp at h
    · cases hg : get d.pl c with
      | none => simp [hg] at h
      | some row =>
        cases p <;> simp only [body, hg] <;> split <;> simp [hasWrite, Cmd.kind, wPlUpdate, Skeleton.kinds]
  | removeCrate c =>
    refine ⟨.scope, by simp [allowed], ?_⟩
    simp only [scopedAt, if_true]
    rw [skeleton_txn _ (body_rw d _)]
    simp [body, hasWrite, Cmd.kind, wClearKey, tot, Skeleton.kinds]
  | removeTrack t =>
    refine ⟨.scope, by simp [allowed], ?_⟩
    simp only [scopedAt, if_true]
    rw [skeleton_txn _ (body_rw d _)]
    simp [body, hasWrite, Cmd.kind, wDeleteTrack, tot, Skeleton.kinds]

end EngineModel.Proofs.V2CratesStmts
