/-
`zlib_compress` regenerated from the C++ (`Gen/ZlibGen.lean`, tools/tr_zlib.py) against the hand model
`Impl.Zlib.compress` (`Impl/ZlibCompress.lean`).

* `compress_eq_partial` — `Gen.Zlib.compress o s0 fuel buf c0 = Impl.Zlib.compress o s0 fuel buf` (same output
  bytes AND same call log) for every deflate oracle that never claims more input than its window or more
  output than `avail_out` (`DSized` — the first two conjuncts of `DContract.step_ok`), every stream state,
  EVERY fuel (the same number on both sides: one unit per outer-loop head and per `deflate` call), every
  payload (the empty one included: both sides `ub oob_index`) and every initial content `c0` of the by-value
  parameter `compressed`.
  Full statement (no `DSized`):
      ∀ o s0 fuel buf c0, Gen.Zlib.compress o s0 fuel buf c0 = Impl.Zlib.compress o s0 fuel buf
  is false: for an oracle that answers `avail_out + 1` bytes the regenerated code has written past the local
  array (`ub oob_write`) while the hand model appends the bytes (comment at the end of the file).

The proof is a simulation (`csim`) between the nested regenerated loops and the flat hand state machine
`cloop`, from per-body lemmas (`cbody1_spec`, `cbody2_eq`) that unfold the regenerated bodies: a change of the
C++ that changes the translation breaks them.
-/
import Proofs.ZlibGenEq
set_option linter.unusedVariables false
set_option linter.unusedSimpArgs false

namespace EngineModel.Gen.Zlib
open EngineModel EngineModel.Impl EngineModel.Impl.Zlib EngineModel.Impl.ZlibCxx

/-- the deflate oracle never claims more input than it was given nor more output than `avail_out` -/
def DSized {σ} (o : DOracle σ) : Prop :=
  ∀ s win n f, (o.step s win n f).2.1 ≤ win.length ∧ (o.step s win n f).2.2.1.length ≤ n

theorem DSized.of_contract {σ} {o : DOracle σ} (c : DContract o) : DSized o :=
  fun s win n f => ⟨(c.step_ok s win n f).1, (c.step_ok s win n f).2.1⟩

theorem toU32_chunk : toU32 16384 = 16384 := by unfold toU32; omega

theorem flushOfInt_finish (x : Int) : flushOfInt x = .finish ↔ x = 4 := by
  unfold flushOfInt; split <;> simp [*]

/-- the hand loops only ever append to the accumulator -/
theorem cloop_acc {σ} (o : DOracle σ) (buf pre : Bytes) : ∀ (fuel : Nat) (s : σ) (ptr : Nat) (ph : CPhase)
    (acc : Bytes) (log : List DCall),
    cloop o buf fuel s ptr ph (pre ++ acc) log =
      match cloop o buf fuel s ptr ph acc log with
      | .ok (a, l) => .ok (pre ++ a, l)
      | .throw e => .throw e
      | .ub u => .ub u := by
  intro fuel
  induction fuel with
  | zero => intro s ptr ph acc log; simp [cloop]
  | succ fuel ih =>
    intro s ptr ph acc log
    cases ph with
    | outer => simp only [cloop]; exact ih _ _ _ _ _
    | inner win flush =>
      rw [cloop, cloop]
      rcases o.step s win chunk flush with ⟨ret, consumed, out, s'⟩
      simp only [List.append_assoc]
      split
      · exact ih _ _ _ _ _
      · split
        · rfl
        · exact ih _ _ _ _ _

/-- what the regenerated state has in common with a position of the hand model's loop (the accumulator and
the call log are read off the state itself) -/
structure CGInv {σ} (buf : Bytes) (v : CompressVars σ) (s : σ) (ptr : Nat) : Prop where
  h0 : v.p0 = buf
  hp : v.l0 = ptr
  he : v.l1 = buf.length
  hc : v.l2 = 16384
  ho : v.l7.length = 16384
  hs : v.l6.st = some s
  hle : ptr ≤ buf.length

/-- outcome of the regenerated outer loop against the hand model's verdict -/
def CRel {σ} (x : Out (CompressVars σ) Bytes) (y : Res (Bytes × List DCall)) : Prop :=
  match x with
  | .ok (.norm, v, _) => y = .ok (v.p1, v.l6.log.reverse)
  | .ok (.brk, _, _) => False
  | .ok (.ret _, _, _) => False
  | .throw e => y = .throw e
  | .ub u => y = .ub u

/-- one `deflate` call of the inner loop, given what the oracle answered -/
theorem cbody2_eq {σ} (o : DOracle σ) (s0 : σ) (buf : Bytes) (v : CompressVars σ) (s : σ)
    (ptr : Nat) (fuel : Nat) (hi : CGInv buf v s ptr) (hw : v.l6.next_in + v.l6.avail_in = ptr)
    (ret : Ret) (consumed : Nat) (produced : Bytes) (s' : σ)
    (hr : o.step s ((buf.drop v.l6.next_in).take v.l6.avail_in) 16384 (flushOfInt v.l4)
      = (ret, consumed, produced, s'))
    (hcons : consumed ≤ v.l6.avail_in) (hprod : produced.length ≤ 16384) :
    compress_body2 o s0 v fuel =
      .ok (.norm,
        { v with p1 := v.p1 ++ produced, l5 := produced.length,
                 l7 := produced ++ v.l7.drop produced.length,
                 l6 := { next_in := v.l6.next_in + consumed, avail_in := v.l6.avail_in - consumed,
                         next_out := produced.length, avail_out := 16384 - produced.length, st := some s',
                         log := (⟨flushOfInt v.l4, v.l6.avail_in, consumed, produced, ret⟩ : DCall) :: v.l6.log } },
        fuel) := by
  obtain ⟨h0, hp, he, hc, ho, hs, hle⟩ := hi
  obtain ⟨p0, p1, l0, l1, l2, l3, l4, l5, ⟨ni, ai, no, ao, st, log⟩, l7⟩ := v
  simp only at h0 hp he hc ho hs hw hr hcons ⊢
  subst h0 hp hc hs
  have hreg1 : ¬ (p0.length < ni + ai) := by omega
  have hreg2 : ¬ (l7.length < 16384) := by omega
  have hsz2 : ¬ (ai < consumed ∨ 16384 < produced.length) := by omega
  have hins : ¬ ((produced ++ List.drop produced.length l7).length < produced.length ∨ produced.length < 0) := by
    simp only [List.length_append]; omega
  unfold compress_body2
  simp only [ZlibCxx.deflate, toU32_chunk, hreg1, hreg2, hr, hsz2, if_false, Res.bind,
    List.take_zero, List.nil_append, Nat.zero_add, u32sub_chunk produced.length hprod,
    ZlibCxx.insertRange, hins, List.drop_zero, Nat.sub_zero, List.take_left']

theorem cbody2_ok {σ} (o : DOracle σ) (s0 : σ) (buf : Bytes) (v : CompressVars σ) (s : σ)
    (ptr : Nat) (fuel : Nat) (hi : CGInv buf v s ptr) (hw : v.l6.next_in + v.l6.avail_in = ptr)
    (ret : Ret) (consumed : Nat) (produced : Bytes) (s' : σ)
    (hr : o.step s ((buf.drop v.l6.next_in).take v.l6.avail_in) 16384 (flushOfInt v.l4)
      = (ret, consumed, produced, s'))
    (hcons : consumed ≤ v.l6.avail_in) (hprod : produced.length ≤ 16384) :
    ∃ v', compress_body2 o s0 v fuel = .ok (.norm, v', fuel) ∧ CGInv buf v' s' ptr ∧
      v'.l4 = v.l4 ∧ v'.l6.next_in = v.l6.next_in + consumed ∧ v'.l6.avail_in = v.l6.avail_in - consumed ∧
      v'.l6.avail_out = 16384 - produced.length ∧ v'.p1 = v.p1 ++ produced ∧
      v'.l6.log = (⟨flushOfInt v.l4, v.l6.avail_in, consumed, produced, ret⟩ : DCall) :: v.l6.log := by
  refine ⟨_, cbody2_eq o s0 buf v s ptr fuel hi hw ret consumed produced s' hr hcons hprod,
    ⟨hi.h0, hi.hp, hi.he, hi.hc, ?_, rfl, hi.hle⟩, rfl, rfl, rfl, rfl, rfl, rfl⟩
  have := hi.ho
  simp only [List.length_append, List.length_drop]; omega

/-- the head of the outer loop up to the inner loop -/
theorem cbody1_spec {σ} (o : DOracle σ) (s0 : σ) (buf : Bytes) (v : CompressVars σ) (s : σ)
    (ptr : Nat) (fuel : Nat) (hi : CGInv buf v s ptr) :
    ∃ v', compress_body1 o s0 v fuel =
        (andThen (doWhile (compress_body2 o s0) compress_cond2 fuel v' fuel) fun v fuel => .ok (.norm, v, fuel)) ∧
      CGInv buf v' s (ptr + (if ptr + chunk < buf.length then chunk else buf.length - ptr)) ∧
      flushOfInt v'.l4 = (if ptr + chunk < buf.length then Flush.noFlush else Flush.finish) ∧
      v'.l6.next_in = ptr ∧
      v'.l6.avail_in = (if ptr + chunk < buf.length then chunk else buf.length - ptr) ∧
      v'.p1 = v.p1 ∧ v'.l6.log = v.l6.log := by
  obtain ⟨h0, hp, he, hc, ho, hs, hle⟩ := hi
  obtain ⟨p0, p1, l0, l1, l2, l3, l4, l5, ⟨ni, ai, no, ao, st, log⟩, l7⟩ := v
  simp only at h0 hp he hc ho hs ⊢
  subst h0 hp hc hs he
  have hchunk : chunk = 16384 := rfl
  rw [hchunk]
  have htn : Int.toNat ((l0 : Int) + 16384) = l0 + 16384 := by omega
  by_cases hmore : l0 + 16384 < p0.length
  · have hadv : ¬ (p0.length < l0 + 16384) := by omega
    refine ⟨⟨p0, p1, l0 + 16384, p0.length, 16384, l3, 0, l5, ⟨l0, 16384, no, ao, some s, log⟩, l7⟩, ?_,
      ⟨rfl, by simp only [hmore, if_true], rfl, rfl, ho, rfl, by simp only [hmore, if_true]; omega⟩,
      by simp [hmore, flushOfInt], rfl, by simp only [hmore, if_true], rfl, rfl⟩
    unfold compress_body1
    simp only [htn, hmore, decide_true, if_true, toU32_chunk, ZlibCxx.ptrAdvance, Res.bind, hadv, if_false]
  · have hav : toU32 ((p0.length : Int) - (l0 : Int)) = p0.length - l0 := toU32_sub _ _ hle (by omega)
    have hadv : ¬ (p0.length < l0 + (p0.length - l0)) := by omega
    refine ⟨⟨p0, p1, l0 + (p0.length - l0), p0.length, 16384, l3, 4, l5,
        ⟨l0, p0.length - l0, no, ao, some s, log⟩, l7⟩, ?_,
      ⟨rfl, by simp only [hmore, if_false], rfl, rfl, ho, rfl, by simp only [hmore, if_false]; omega⟩,
      by simp [hmore, flushOfInt], rfl, by simp only [hmore, if_false], rfl, rfl⟩
    unfold compress_body1
    simp only [htn, hmore, decide_false, Bool.false_eq_true, if_false, hav, ZlibCxx.ptrAdvance, Res.bind, hadv]

theorem csim {σ} (o : DOracle σ) (hsz : DSized o) (s0 : σ) (buf : Bytes) : ∀ fuel : Nat,
    (∀ g v s ptr, fuel ≤ g → CGInv buf v s ptr →
      CRel (doWhile (compress_body1 o s0) compress_cond1 g v fuel)
        (cloop o buf fuel s ptr .outer v.p1 v.l6.log)) ∧
    (∀ gi g v s ptr, fuel ≤ gi → fuel ≤ g → CGInv buf v s ptr → v.l6.next_in + v.l6.avail_in = ptr →
      CRel (step compress_cond1 (doWhile (compress_body1 o s0) compress_cond1 g)
            (andThen (doWhile (compress_body2 o s0) compress_cond2 gi v fuel) fun v fuel => .ok (.norm, v, fuel)))
        (cloop o buf fuel s ptr (.inner ((buf.drop v.l6.next_in).take v.l6.avail_in) (flushOfInt v.l4))
          v.p1 v.l6.log)) := by
  intro fuel
  induction fuel with
  | zero =>
    refine ⟨?_, ?_⟩
    · intro g v s ptr _ _
      cases g <;> simp [doWhile, CRel, cloop]
    · intro gi g v s ptr _ _ _ _
      cases gi <;> simp [doWhile, andThen, step, CRel, cloop]
  | succ fuel ih =>
    obtain ⟨ih1, ih2⟩ := ih
    refine ⟨?_, ?_⟩
    · intro g v s ptr hg hi
      obtain ⟨g, rfl⟩ : ∃ g', g = g' + 1 := ⟨g - 1, by omega⟩
      simp only [doWhile, cloop, decide_eq_true_eq]
      obtain ⟨v', hb, hi', hfl, hni, hai, hp1, hlog⟩ := cbody1_spec o s0 buf v s ptr fuel hi
      rw [hb]
      have := ih2 fuel g v' s _ (Nat.le_refl _) (by omega) hi' (by rw [hni, hai])
      rw [hni, hai, hfl, hp1, hlog] at this
      exact this
    · intro gi g v s ptr hgi hg hi hw
      obtain ⟨gi, rfl⟩ : ∃ g', gi = g' + 1 := ⟨gi - 1, by omega⟩
      have hchunk : chunk = 16384 := rfl
      have hwl : ((buf.drop v.l6.next_in).take v.l6.avail_in).length = v.l6.avail_in := by
        have := hi.hle
        simp only [List.length_take, List.length_drop]; omega
      have hsz' := hsz s ((buf.drop v.l6.next_in).take v.l6.avail_in) 16384 (flushOfInt v.l4)
      rw [hwl] at hsz'
      rcases hr : o.step s ((buf.drop v.l6.next_in).take v.l6.avail_in) 16384 (flushOfInt v.l4)
        with ⟨ret, consumed, produced, s'⟩
      rw [hr] at hsz'
      obtain ⟨hcons, hprod⟩ := hsz'
      simp only at hcons hprod
      have hr' : o.step s ((buf.drop v.l6.next_in).take v.l6.avail_in) chunk (flushOfInt v.l4)
          = (ret, consumed, produced, s') := hr
      simp only [doWhile]
      rw [cloop, hr']
      simp only
      rw [hwl]
      obtain ⟨v', hb, hi', hl4, hni, hai, hao, hp1, hlog⟩ :=
        cbody2_ok o s0 buf v s ptr fuel hi hw ret consumed produced s' hr hcons hprod
      rw [hb]
      by_cases hfull : produced.length = chunk
      · have hc2 : compress_cond2 v' = true := by
          simp only [compress_cond2, hao, decide_eq_true_eq]; omega
        simp only [step, hc2, if_true, hfull]
        have := ih2 gi g v' s' ptr (by omega) (by omega) hi' (by omega)
        rw [hni, hai, ← take_drop_window, hl4, hp1, hlog] at this
        exact this
      · have hc2 : compress_cond2 v' = false := by
          simp only [compress_cond2, hao, decide_eq_false_iff_not]; omega
        simp only [step, hc2, andThen, hfull, if_false, Bool.false_eq_true]
        by_cases hfin : flushOfInt v.l4 = .finish
        · have h44 : v'.l4 = 4 := by rw [hl4]; exact (flushOfInt_finish _).mp hfin
          have hc1 : compress_cond1 v' = false := by
            simp only [compress_cond1, h44, ne_eq, not_true_eq_false, decide_false]
          simp only [hc1, hfin, if_true, if_false, Bool.false_eq_true, CRel, hp1, hlog]
        · have hne4 : v'.l4 ≠ 4 := by rw [hl4]; exact fun h => hfin ((flushOfInt_finish _).mpr h)
          have hc1 : compress_cond1 v' = true := by
            simp only [compress_cond1, decide_eq_true_eq]; exact hne4
          simp only [hc1, hfin, if_true, if_false]
          have := ih1 g v' s' ptr (by omega) hi'
          rw [hp1, hlog] at this
          exact this

/-! #### the prologue -/

theorem resize4_length (c0 : Bytes) : (resize c0 4).length = 4 := by
  unfold resize
  simp only [List.length_append, List.length_take, List.length_replicate]; omega

theorem encode_prefix (n : Nat) (c0 : Bytes) :
    encodeI32BEAt (i32OfNat n) (resize c0 4) 0 = .ok (lenPrefix n) := by
  have hl := resize4_length c0
  have hd : (resize c0 4).drop 4 = [] := List.drop_eq_nil_iff.mpr (by omega)
  unfold encodeI32BEAt
  have hlt : ¬ ((resize c0 4).length < 0 + 4) := by omega
  simp only [hlt, if_false, List.take_zero, List.nil_append, Nat.zero_add, hd, List.append_nil, i32OfNat,
    Prim.u32OfInt_s32, lenPrefix]

/-- **`zlib_compress` regenerated from the C++ = the hand model**: same bytes, same call log, same fuel. -/
theorem compress_eq_partial {σ} (o : DOracle σ) (hsz : DSized o) (s0 : σ) (fuel : Nat) (buf c0 : Bytes) :
    compress o s0 fuel buf c0 = Impl.Zlib.compress o s0 fuel buf := by
  unfold compress compress_fn compress_init Impl.Zlib.compress
  have htl : tooLong 4 = false := by decide
  simp only [htl, Bool.false_eq_true, if_false, encode_prefix, Res.bind]
  by_cases h0 : buf.length = 0
  · simp only [h0, Nat.le_refl, if_true, result, Res.bind]
  · have hpos : ¬ (buf.length ≤ 0) := by omega
    simp only [h0, hpos, if_false, ZlibCxx.deflateInit, ne_eq, not_true_eq_false, decide_false,
      Bool.false_eq_true]
    have hrel := (csim o hsz s0 buf fuel).1 fuel
      ⟨buf, lenPrefix buf.length, 0, 0 + buf.length, 16384, 0, 0, 0, ⟨0, 0, 0, 0, some s0, []⟩,
        List.replicate 16384 0⟩ s0 0 (Nat.le_refl _)
      ⟨rfl, rfl, Nat.zero_add _, rfl, List.length_replicate, rfl, Nat.zero_le _⟩
    have hacc := cloop_acc o buf (lenPrefix buf.length) fuel s0 0 .outer [] []
    rw [List.append_nil] at hacc
    simp only at hrel
    rw [hacc] at hrel
    generalize doWhile (compress_body1 o s0) compress_cond1 fuel _ fuel = x at hrel ⊢
    generalize cloop o buf fuel s0 0 .outer [] [] = y at hrel ⊢
    rcases x with ⟨⟨fl, v', f'⟩⟩ | e | u
    · cases fl with
      | norm =>
        simp only [CRel] at hrel
        rcases y with ⟨a, l⟩ | e | u
        · simp only [Res.ok.injEq, Prod.mk.injEq] at hrel
          simp only [andThen, ZlibCxx.deflateEnd, result, Res.bind, ← hrel.1, ← hrel.2]
        · simp at hrel
        · simp at hrel
      | brk => exact absurd hrel (by simp [CRel])
      | ret r => exact absurd hrel (by simp [CRel])
    · simp only [CRel] at hrel
      rcases y with ⟨a, l⟩ | e' | u <;> simp at hrel
      simp only [andThen, result, Res.bind, hrel]
    · simp only [CRel] at hrel
      rcases y with ⟨a, l⟩ | e | u' <;> simp at hrel
      simp only [andThen, result, Res.bind, hrel]

/- The statement without `DSized` is false: for an oracle that answers `avail_out + 1` bytes (e.g.
`step _ _ n _ := (.streamEnd, 0, List.replicate (n + 1) 7, ())`, payload `[0]`) the regenerated function is
`ub oob_write` (the answer does not fit the local array) while the hand model returns the 16385 bytes. -/

end EngineModel.Gen.Zlib
