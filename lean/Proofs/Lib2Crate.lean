/-
Composite 2.x library: what a call of the crate package does to its stand-in for the Track table
(`Db.tracks`, `Db.trSeq`): nothing, except `createTrack` / `removeTrack`.  This is what lets the composite
hand the crate package a read-only *view* of the real Track table.
-/
import EngineModel.Lib.V2
import Proofs.V2Members

namespace EngineModel.Lib.V2
open EngineModel EngineModel.Db.Chain EngineModel.Db.V2

theorem plAdd_tracks (d : CDb) (n : Bytes) (p k : Int) :
    (plAdd d n p k).1.tracks = d.tracks ∧ (plAdd d n p k).1.trSeq = d.trSeq := by
  unfold plAdd
  split <;> exact ⟨rfl, rfl⟩

theorem plUpdate_tracks (d : CDb) (i : Int) (n : Bytes) (p k : Int) :
    (plUpdate d i n p k).1.tracks = d.tracks ∧ (plUpdate d i n p k).1.trSeq = d.trSeq := by
  unfold plUpdate
  repeat' split
  all_goals exact ⟨rfl, rfl⟩

theorem peAddBack_tracks (d : CDb) (l t u : Int) (f : Bool) :
    (peAddBack d l t u f).1.tracks = d.tracks ∧ (peAddBack d l t u f).1.trSeq = d.trSeq := by
  unfold peAddBack
  repeat' split
  all_goals exact ⟨rfl, rfl⟩

/-- every call of the crate package other than `createTrack` / `removeTrack` leaves the track ids and the
track counter alone -/
theorem cstep_tracks (d : CDb) (op : COp) (h1 : op ≠ .createTrack) (h2 : ∀ t, op ≠ .removeTrack t) :
    (EngineModel.Db.V2.step d op).1.tracks = d.tracks ∧ (EngineModel.Db.V2.step d op).1.trSeq = d.trSeq := by
  cases op with
  | createTrack => exact absurd rfl h1
  | removeTrack t => exact absurd rfl (h2 t)
  | createRoot n => simp only [EngineModel.Db.V2.step]; split; exact ⟨rfl, rfl⟩; exact plAdd_tracks ..
  | createRootAfter n a =>
    simp only [EngineModel.Db.V2.step]
    repeat' split
    all_goals first | exact ⟨rfl, rfl⟩ | exact plAdd_tracks ..
  | createSub p n =>
    simp only [EngineModel.Db.V2.step]
    repeat' split
    all_goals first | exact ⟨rfl, rfl⟩ | exact plAdd_tracks ..
  | createSubAfter p n a =>
    simp only [EngineModel.Db.V2.step]
    repeat' split
    all_goals first | exact ⟨rfl, rfl⟩ | exact plAdd_tracks ..
  | rename c n =>
    simp only [EngineModel.Db.V2.step]
    split
    · exact ⟨rfl, rfl⟩
    · exact plUpdate_tracks ..
  | setParent c p =>
    simp only [EngineModel.Db.V2.step]
    repeat' split
    all_goals first | exact ⟨rfl, rfl⟩ | exact plUpdate_tracks ..
  | removeCrate c =>
    simp only [EngineModel.Db.V2.step]
    repeat' split
    all_goals exact ⟨rfl, rfl⟩
  | addTrack c t =>
    simp only [EngineModel.Db.V2.step]
    repeat' split
    all_goals first | exact ⟨rfl, rfl⟩ | exact peAddBack_tracks ..
  | removeTrackFrom c t =>
    simp only [EngineModel.Db.V2.step]
    split <;> exact ⟨rfl, rfl⟩
  | clearTracks c => exact ⟨rfl, rfl⟩
  | peAddBack l t u f => exact peAddBack_tracks ..
  | peRemove l e =>
    simp only [EngineModel.Db.V2.step]
    split <;> exact ⟨rfl, rfl⟩
  | peClear l => exact ⟨rfl, rfl⟩

end EngineModel.Lib.V2

namespace EngineModel.Lib.V2
open EngineModel EngineModel.Db.Chain EngineModel.Db.V2

/-! ### a call of the crate package that does not return normally has written nothing -/

theorem plAdd_cases (d : CDb) (n : Bytes) (p k : Int) :
    (plAdd d n p k).1 = d ∨ ∃ v, (plAdd d n p k).2 = .ok v := by
  unfold plAdd
  split <;> first | exact Or.inl rfl | exact Or.inr ⟨_, rfl⟩

theorem plUpdate_cases (d : CDb) (i : Int) (n : Bytes) (p k : Int) :
    (plUpdate d i n p k).1 = d ∨ ∃ v, (plUpdate d i n p k).2 = .ok v := by
  unfold plUpdate
  repeat' split
  all_goals first | exact Or.inl rfl | exact Or.inr ⟨_, rfl⟩

theorem peAddBack_cases (d : CDb) (l t u : Int) (f : Bool) :
    (peAddBack d l t u f).1 = d ∨ ∃ v, (peAddBack d l t u f).2 = .ok v := by
  unfold peAddBack
  repeat' split
  all_goals first | exact Or.inl rfl | exact Or.inr ⟨_, rfl⟩

/-- every call of the crate package either leaves its tables as they were or returns normally -/
theorem cstep_cases (d : CDb) (op : COp) :
    (EngineModel.Db.V2.step d op).1 = d ∨ ∃ v, (EngineModel.Db.V2.step d op).2 = .ok v := by
  cases op with
  | createRoot n => simp only [EngineModel.Db.V2.step]; split; exact Or.inl rfl; exact plAdd_cases ..
  | createRootAfter n a =>
    simp only [EngineModel.Db.V2.step]
    repeat' split
    all_goals first | exact Or.inl rfl | exact plAdd_cases ..
  | createSub p n =>
    simp only [EngineModel.Db.V2.step]
    repeat' split
    all_goals first | exact Or.inl rfl | exact plAdd_cases ..
  | createSubAfter p n a =>
    simp only [EngineModel.Db.V2.step]
    repeat' split
    all_goals first | exact Or.inl rfl | exact plAdd_cases ..
  | rename c n =>
    simp only [EngineModel.Db.V2.step]
    split
    · exact Or.inl rfl
    · exact plUpdate_cases ..
  | setParent c p =>
    simp only [EngineModel.Db.V2.step]
    repeat' split
    all_goals first | exact Or.inl rfl | exact plUpdate_cases ..
  | removeCrate c =>
    simp only [EngineModel.Db.V2.step]
    repeat' split
    all_goals first | exact Or.inl rfl | exact Or.inr ⟨_, rfl⟩
  | createTrack => exact Or.inr ⟨_, rfl⟩
  | removeTrack t =>
    simp only [EngineModel.Db.V2.step]
    split <;> first | exact Or.inl rfl | exact Or.inr ⟨_, rfl⟩
  | addTrack c t =>
    simp only [EngineModel.Db.V2.step]
    repeat' split
    all_goals first | exact Or.inl rfl | exact peAddBack_cases ..
  | removeTrackFrom c t =>
    simp only [EngineModel.Db.V2.step]
    split <;> exact Or.inr ⟨_, rfl⟩
  | clearTracks c => exact Or.inr ⟨_, rfl⟩
  | peAddBack l t u f => exact peAddBack_cases ..
  | peRemove l e =>
    simp only [EngineModel.Db.V2.step]
    split <;> first | exact Or.inl rfl | exact Or.inr ⟨_, rfl⟩
  | peClear l => exact Or.inr ⟨_, rfl⟩

end EngineModel.Lib.V2
