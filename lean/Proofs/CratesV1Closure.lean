/-
The bullet "children(c) is exactly the set of crates whose parent is c, descendants(c) is the transitive
closure of children" stated directly on the Model's queries.
-/
import Proofs.CratesV1WfConv
import Mathlib.Logic.Relation

namespace EngineModel.Api.CratesV1
open EngineModel.Pure.Detect EngineModel.Spec

variable {db : Db}

/-- `p` is what `parent()` answers for `x`. -/
def ParentIs (db : Db) (x p : Id) : Prop := crateParent db x = .ok (some p)

theorem parentIs_iff (h : FInv db) (x p : Id) : ParentIs db x p ↔ Par db x p := by
  unfold ParentIs
  rw [q_parent h, abs_parentOf h, ← parentOf_eq_some h]
  constructor
  · intro e; injection e
  · intro e; rw [e]

theorem children_iff_parent (h : FInv db) (c k : Id) : k ∈ crateChildren db c ↔ ParentIs db k c := by
  rw [mem_crateChildren, parentIs_iff h]

theorem descendants_iff_transGen (h : FInv db) (c y : Id) :
    y ∈ crateDescendants db c ↔ Relation.TransGen (ParentIs db) y c := by
  rw [mem_crateDescendants, ← isAncestor_iff h, Forest.Forest.isAncestor_iff_transGen]
  have : Forest.Forest.parentRel (absForest db) = ParentIs db := by
    funext x p
    unfold Forest.Forest.parentRel
    rw [abs_parentOf h, parentOf_eq_some h, parentIs_iff h]
  rw [this]

theorem roots_iff_no_parent (h : FInv db) (x : Id) :
    x ∈ dbRootCrates db ↔ (crateIsValid db x = .ok true ∧ crateParent db x = .ok none) := by
  have hx : x ∈ dbRootCrates db ↔ (x, x) ∈ db.cpl := by
    unfold dbRootCrates sortIds
    rw [List.mem_mergeSort]
    simp only [List.mem_map, List.mem_filter, beq_iff_eq]
    constructor
    · rintro ⟨r, ⟨hr, h2⟩, rfl⟩
      have : r = (r.1, r.1) := Prod.ext rfl h2
      rw [← this]; exact hr
    · intro hm; exact ⟨(x, x), ⟨hm, rfl⟩, rfl⟩
  rw [hx, isValid_iff h, q_parent h, abs_parentOf h]
  constructor
  · intro hm
    have hl : x ∈ ids db := (h.cplTotal x).mp (List.mem_map_of_mem (f := (·.1)) hm)
    obtain ⟨r, hr, rfl⟩ := exists_row hl
    exact ⟨hl, by rw [(root_row_iff h hr).mpr hm]⟩
  · rintro ⟨hl, hp⟩
    obtain ⟨r, hr, rfl⟩ := exists_row hl
    have : parentOf db r.id = none := by injection hp
    exact (root_row_iff h hr).mp this

end EngineModel.Api.CratesV1
