/-
Schema 2.x crates refine Spec.Forest, history level: the invariant `PlInv`
(well-formed forest, ids within the AUTOINCREMENT counter) holds after every
history, the Spec judge never objects, and whatever the Spec rejects the Model
rejects without effect.
-/
import Proofs.V2Forest

set_option linter.dupNamespace false
set_option linter.unusedSimpArgs false

namespace EngineModel.Db.V2

open EngineModel.Db.Chain EngineModel.Spec EngineModel.Spec.Forest EngineModel.ListAux

structure PlInv (d : Db) : Prop where
  wf : Forest.Wf (absF d)
  seq : ∀ i ∈ ids d.pl, i ≤ d.plSeq
  seq0 : 0 ≤ d.plSeq

theorem plInv_empty : PlInv Db.empty := by
  refine ⟨?_, by simp [Db.empty, ids], by simp [Db.empty]⟩
  exact Forest.wf_empty

theorem forestOp_isCreate {op : Op} {fop : Forest.Op} (h : forestOp op = some fop) : fop.isCreate = isCreate op := by
  cases op <;> simp [forestOp] at h <;> subst h <;> rfl

theorem fresh_next {d : Db} (hI : PlInv d) : d.plSeq + 1 ∉ (absF d).ids ∧ 0 < d.plSeq + 1 := by
  refine ⟨?_, by have := hI.seq0; omega⟩
  rw [absF_ids]
  intro h
  have := hI.seq _ h
  omega

theorem judgeF_of_fstep {d : Db} (hI : PlInv d) {op : Op} (h : FStep d op) :
    judgeF (absF d) op (step d op).2 = some (absF (step d op).1) := by
  cases h with
  | throws e h hv =>
    rw [h]
    unfold judgeF
    cases hf : forestOp op with
    | none => rfl
    | some fop =>
      simp only [outcome, Bool.false_and, Bool.false_eq_true, if_false]
      unfold verdictF
      rcases hv fop hf with hv | hv
      · cases hs : Forest.step (absF d) fop (newIdOf (.throw e)) with
        | accept f' => exact absurd hs (hv _ _)
        | reject => split <;> rfl
        | either f' => split <;> rfl
      · rw [hv]
        simp only [Bool.false_eq_true, if_false]
        cases Forest.step (absF d) fop (newIdOf (.throw e)) <;> rfl
  | okF out fop h2 hf hacc hnew hseq =>
    rw [h2]
    unfold judgeF
    simp only [hf, outcome]
    have hcheck : (true && isCreate op && !(Forest.freshId (absF d) (newIdOf (.ok out)) && decide (0 < newIdOf (.ok out)))) = false := by
      cases hc : isCreate op with
      | false => simp
      | true =>
        rw [hnew hc]
        obtain ⟨h1, h2⟩ := fresh_next hI
        have : (absF d).live (d.plSeq + 1) = false := Forest.live_false_iff.mpr h1
        simp [newIdOf, Forest.freshId, this, h2]
    rw [hcheck]
    simp only [Bool.false_eq_true, if_false]
    unfold verdictF
    rw [hacc]
    split <;> rfl
  | okN out h2 hf hpl hseq =>
    rw [h2]
    unfold judgeF
    simp only [hf]
    rw [absF_congr hpl]

theorem plInv_of_fstep {d : Db} (hI : PlInv d) {op : Op} (h : FStep d op) : PlInv (step d op).1 := by
  cases h with
  | throws e h hv => rw [h]; exact hI
  | okF out fop h2 hf hacc hnew hseq =>
    have hcr := forestOp_isCreate hf
    refine ⟨?_, ?_, ?_⟩
    · apply Forest.step_accept_wf hI.wf fop _ ?_ hacc
      intro hc
      rw [hcr] at hc
      rw [hnew hc]
      exact fresh_next hI
    · intro i hi
      rw [← absF_ids] at hi
      rcases Forest.step_accept_ids fop _ hacc i hi with h1 | ⟨h1, h2⟩
      · rw [absF_ids] at h1
        have := hI.seq i h1
        rw [hseq]; split <;> omega
      · rw [hcr] at h1
        rw [hseq, h1, h2, hnew h1]
        simp [newIdOf]
    · rw [hseq]; have := hI.seq0; split <;> omega
  | okN out h2 hf hpl hseq =>
    refine ⟨by rw [absF_congr hpl]; exact hI.wf, by rw [hpl, hseq]; exact hI.seq, by rw [hseq]; exact hI.seq0⟩

theorem plInv_step {d : Db} (hI : PlInv d) (op : Op) : PlInv (step d op).1 :=
  plInv_of_fstep hI (fstep hI.wf op)

theorem plInv_run {d : Db} (hI : PlInv d) (ops : List Op) : PlInv (run d ops) := by
  induction ops generalizing d with
  | nil => exact hI
  | cons op ops ih => exact ih (plInv_step hI op)

/-- The Spec judge, driven by the Model's answers, never objects, and tracks exactly the abstraction of the Model state. -/
theorem specRunF_eq {d : Db} (hI : PlInv d) (ops : List Op) : specRunF d (absF d) ops = some (absF (run d ops)) := by
  induction ops generalizing d with
  | nil => rfl
  | cons op ops ih =>
    simp only [specRunF, run]
    rw [judgeF_of_fstep hI (fstep hI.wf op)]
    exact ih (plInv_step hI op)

/-- Whatever the Spec rejects, the Model rejects, leaving the whole state unchanged. -/
theorem rejected_without_effect {d : Db} (hI : PlInv d) {op : Op} {fop : Forest.Op} (hf : forestOp op = some fop)
    (hrej : ∀ n f', Forest.step (absF d) fop n ≠ .accept f') : ∃ e, step d op = (d, .throw e) := by
  cases fstep hI.wf op with
  | throws e h _ => exact ⟨e, h⟩
  | okF out fop' h2 hf' hacc _ _ =>
    rw [hf] at hf'
    simp only [Option.some.injEq] at hf'
    subst hf'
    exact absurd hacc (hrej _ _)
  | okN out h2 hf' _ _ => rw [hf] at hf'; simp at hf'

/-- A step adds at most the next AUTOINCREMENT id, and the counter never goes back. -/
theorem ids_step {d : Db} (hI : PlInv d) (op : Op) :
    d.plSeq ≤ (step d op).1.plSeq ∧ ∀ x ∈ ids (step d op).1.pl, x ∈ ids d.pl ∨ x = d.plSeq + 1 := by
  cases fstep hI.wf op with
  | throws e h _ => rw [h]; exact ⟨Int.le_refl _, fun x hx => Or.inl hx⟩
  | okF out fop h2 hf hacc hnew hseq =>
    have hcr := forestOp_isCreate hf
    refine ⟨by rw [hseq]; split <;> omega, ?_⟩
    intro x hx
    rw [← absF_ids] at hx
    rcases Forest.step_accept_ids fop _ hacc x hx with h1 | ⟨h1, h2⟩
    · left; rw [← absF_ids]; exact h1
    · right
      rw [hcr] at h1
      rw [h2, hnew h1]; rfl
  | okN out h2 hf hpl hseq => rw [hpl, hseq]; exact ⟨Int.le_refl _, fun x hx => Or.inl hx⟩

/-- An id that has been handed out and is no longer in the table never comes back. -/
theorem never_returns {d : Db} (hI : PlInv d) {i : Int} (hle : i ≤ d.plSeq) (hni : i ∉ ids d.pl) (ops : List Op) :
    i ∉ ids (run d ops).pl := by
  induction ops generalizing d with
  | nil => exact hni
  | cons op ops ih =>
    obtain ⟨h1, h2⟩ := ids_step hI op
    refine ih (plInv_step hI op) (by omega) ?_
    intro hx
    rcases h2 i hx with h | h
    · exact hni h
    · omega

theorem run_append (d : Db) (a b : List Op) : run d (a ++ b) = run (run d a) b := by
  induction a generalizing d with
  | nil => rfl
  | cons op a ih => simp only [List.cons_append, run]; exact ih _

end EngineModel.Db.V2
