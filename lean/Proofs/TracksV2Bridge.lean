/-
Bridge between the row store of the 2.x track model (`tablePut`, C01 / C06) and
the table layer of C18 (`EngineModel/Table/Track.lean`: the INSERT / UPDATE /
SELECT column lists of `track_table.cpp`, regenerated from the source for each
schema range): for each of the seven versions `tablePut s` is exactly what
`get ∘ add` and `get ∘ update` return.  This is where the schema parameter of
C01V2 / C06V2 gets its content.
-/
import Proofs.TableTrack
import Proofs.TableTrackWf
import Proofs.TracksV2
import EngineModel.TracksV2.Model

namespace EngineModel
namespace TracksV2

open Prim Table

def Schema.to2 : Schema → Schema2
  | .s2_18_0 => .s2_18_0 | .s2_20_1 => .s2_20_1 | .s2_20_2 => .s2_20_2 | .s2_20_3 => .s2_20_3
  | .s2_21_0 => .s2_21_0 | .s2_21_1 => .s2_21_1 | .s2_21_2 => .s2_21_2

/-- The `track_row` value the 2.x track code hands to `track_table::add` /
`update` (and gets from `get`): the columns of `Row` plus the id, the origin
pair, `date_added` and `last_edit_time`, as the typed members of C18's table
model. -/
def toTable (id : Int) (ouuid : Bytes) (oid : Int) (dateAdded lastEdit : Int) (r : Row) : Table.Row TField
  | .id => .int id
  | .play_order => .oint (r.playOrder.map s64)
  | .length => .int (s64 r.length)
  | .bpm => .oint (r.bpm.map s64)
  | .year => .oint (r.year.map s64)
  | .path => .str r.path
  | .filename => .str r.filename
  | .bitrate => .oint (r.bitrate.map s64)
  | .bpm_analyzed => .oreal r.bpmAnalyzed
  | .album_art_id => .int (s64 r.albumArtId)
  | .file_bytes => .oint (r.fileBytes.map s64)
  | .title => .ostr r.title
  | .artist => .ostr r.artist
  | .album => .ostr r.album
  | .genre => .ostr r.genre
  | .comment => .ostr r.comment
  | .label => .ostr r.label
  | .composer => .ostr r.composer
  | .remixer => .ostr r.remixer
  | .key => .oint (r.key.map s32)
  | .rating => .int (s64 r.rating)
  | .album_art => .ostr r.albumArt
  | .time_last_played => .otime (r.timeLastPlayed.map s64)
  | .is_played => .bool r.isPlayed
  | .file_type => .str r.fileType
  | .is_analyzed => .bool r.isAnalyzed
  | .date_created => .time (s64 r.dateCreated)
  | .date_added => .time dateAdded
  | .is_available => .bool r.isAvailable
  | .is_metadata_of_packed_track_changed => .bool r.isMetadataOfPackedTrackChanged
  | .is_performance_data_of_packed_track_changed => .bool r.isPerformanceDataOfPackedTrackChanged
  | .played_indicator => .oint (r.playedIndicator.map s64)
  | .is_metadata_imported => .bool r.isMetadataImported
  | .pdb_import_key => .int (s64 r.pdbImportKey)
  | .streaming_source => .ostr r.streamingSource
  | .uri => .ostr r.uri
  | .is_beat_grid_locked => .bool r.isBeatGridLocked
  | .origin_database_uuid => .str ouuid
  | .origin_track_id => .int oid
  | .track_data => .blob (.track r.trackData.1 r.trackData.2)
  | .overview_waveform_data => .blob (.ovw r.ovw.1 r.ovw.2)
  | .beat_data => .blob (.beat r.beat.1 r.beat.2)
  | .quick_cues => .blob (.cues r.cues.1 r.cues.2)
  | .loops => .blob (.loops r.loops.1 r.loops.2)
  | .third_party_source_id => .oint (r.thirdPartySourceId.map s64)
  | .streaming_flags => .int (s64 r.streamingFlags)
  | .explicit_lyrics => .bool r.explicitLyrics
  | .active_on_load_loops => .oint (r.activeOnLoadLoops.map s64)
  | .last_edit_time => .time lastEdit

theorem in64_s64 (x : UInt64) : in64 (s64 x) = true := by
  unfold in64 s64
  have := x.toNat_lt
  simp only [decide_eq_true_eq]
  split <;> omega

theorem in32_s32 (x : UInt32) : in32 (s32 x) = true := by
  unfold in32 s32
  have := x.toNat_lt
  simp only [decide_eq_true_eq]
  split <;> omega

theorem wtv_oi64 (o : Option UInt64) : wtv .oi64 (.oint (o.map s64)) = true := by
  cases o <;> simp [wtv, in64_s64]
theorem wtv_oi32 (o : Option UInt32) : wtv .oi32 (.oint (o.map s32)) = true := by
  cases o <;> simp [wtv, in32_s32]
theorem wtv_otime (o : Option UInt64) : wtv .otime (.otime (o.map s64)) = true := by
  cases o <;> simp [wtv, in64_s64]

theorem wt_toTable (id : Int) (ou : Bytes) (oid da le : Int) (r : Row) (h1 : in64 id = true) (h2 : in64 oid = true)
    (h3 : in64 da = true) (h4 : in64 le = true) : wtRowT (toTable id ou oid da le r) := by
  intro f
  cases f <;> simp only [toTable, TField.ty] <;>
    first
    | exact wtv_oi64 _
    | exact wtv_oi32 _
    | exact wtv_otime _
    | simp [wtv, in64_s64, h1, h2, h3, h4, BlobV.kind]

/-- whole seconds of a tick count, the two ways -/
theorem s64_storeTime (t : UInt64) : s64 (storeTime t) = truncSec (s64 t) * 1000000000 := by
  unfold storeTime truncSec
  have hb := in64_s64 t
  unfold in64 at hb
  simp only [decide_eq_true_eq] at hb
  rw [tdiv_cases (s64 t) 1000000000 (by omega)]
  split
  · rw [s64_u64OfInt _ (by omega) (by omega)]
  · rw [s64_u64OfInt _ (by omega) (by omega)]

/-- **The row store of C01 / C06 is the per-schema table layer of C18.**
`tablePut s r` is, member for member, the normal form `normRowT` that C18 proves
`get ∘ add` (and `get ∘ update`) to return from the column lists regenerated
from `track_table.cpp` for schema `s` — with the id assigned, the origin pair
repaired by the trigger, `date_added` at whole seconds and `last_edit_time` as
the schema has it. -/
theorem tablePut_normRowT (s : Schema) (r r' : Row) (h : tablePut s r = .ok r') (u : Bytes) (da le : Int)
    (lastEdit : Option Int) (i i0 : Int) :
    normRowT s.to2 (.text u) lastEdit i (toTable i0 u 0 da le r) =
      toTable i u i (truncSec da * 1000000000)
        (if s.to2.ge .s2_20_3 then (match lastEdit with | some t => t * 1000000000 | none => truncSec le * 1000000000) else 0)
        r' := by
  have hr' : r' = { r with
      timeLastPlayed := r.timeLastPlayed.map storeTime
      dateCreated := storeTime r.dateCreated
      bpmAnalyzed := storeReal r.bpmAnalyzed
      activeOnLoadLoops := if s.hasActiveOnLoadLoops then r.activeOnLoadLoops else none } := by
    unfold tablePut putCues putLoops at h
    by_cases h1 : cuesEncodable r.cues.1 = true
    · by_cases h2 : loopsEncodable r.loops.1 = true
      · simp only [h1, h2, if_true, Res.bind, Res.ok.injEq] at h
        exact h.symm
      · simp [h1, h2, Res.bind] at h
    · simp [h1, Res.bind] at h
  subst hr'
  clear h
  funext f
  cases f <;> simp only [normRowT, toTable, originUnset, TField.present, TField.ty, normV, absentVal, readStr,
    beq_self_eq_true, Bool.true_or, if_true] <;> first | rfl | skip
  case bpm_analyzed =>
    cases hb : r.bpmAnalyzed with
    | none => rfl
    | some x =>
      simp only [storeReal, F64.zero]
      by_cases h1 : F64.isNaN x = true
      · simp [h1]
      · by_cases h2 : x = F64.negZero
        · subst h2; simp [h1]
        · simp [h1, h2]
  case time_last_played =>
    cases r.timeLastPlayed with
    | none => rfl
    | some t => simp only [Option.map_some, s64_storeTime]
  case date_created => rw [s64_storeTime]
  case active_on_load_loops => cases s <;> rfl
  case last_edit_time => cases s <;> cases lastEdit <;> rfl

/-- C18's `Schema2` statements for each of the seven versions exist and are aligned. -/
theorem stmts_aligned (s : Schema) : ∃ st, genStmts s.to2 = some st ∧ alignedT s.to2 st = true := by
  cases s <;> exact ⟨_, rfl, by decide⟩

/-- the bindings of the two blobs whose `to_blob()` can fail are in the INSERT and the UPDATE of every version -/
theorem blob_bindings (s : Schema) (st : TStmts) (h : genStmts s.to2 = some st) :
    (⟨.quickCues, .field .quick_cues .toBlob⟩ : WB TCol TField) ∈ st.ins ∧
    (⟨.loops, .field .loops .toBlob⟩ : WB TCol TField) ∈ st.ins ∧
    (⟨.quickCues, .field .quick_cues .toBlob⟩ : WB TCol TField) ∈ st.upd ∧
    (⟨.loops, .field .loops .toBlob⟩ : WB TCol TField) ∈ st.upd := by
  cases s <;> (cases h; decide)

/-- if the parameters of the statement could be evaluated, the row passes `tablePut`'s `to_blob()` checks -/
theorem tablePut_ok_of_params {ps : List (WB TCol TField)} {l : List (TCol × Val)} (s : Schema) (i0 : Int) (u : Bytes)
    (oid da le : Int) (r : Row)
    (hc : (⟨.quickCues, .field .quick_cues .toBlob⟩ : WB TCol TField) ∈ ps)
    (hl : (⟨.loops, .field .loops .toBlob⟩ : WB TCol TField) ∈ ps)
    (he : evalParams (toTable i0 u oid da le r) ps = .ok l) : ∃ r', tablePut s r = .ok r' := by
  obtain ⟨_, hall⟩ := evalParams_ok he
  obtain ⟨v1, h1, _⟩ := hall _ hc
  obtain ⟨v2, h2, _⟩ := hall _ hl
  simp only [evalSrc, toTable, wconv] at h1 h2
  have e1 : cuesEncodable r.cues.1 = true := by
    show (BlobV.cues r.cues.1 r.cues.2).encodable = true
    by_cases hh : (BlobV.cues r.cues.1 r.cues.2).encodable = true
    · exact hh
    · rw [if_neg hh] at h1; cases h1
  have e2 : loopsEncodable r.loops.1 = true := by
    show (BlobV.loops r.loops.1 r.loops.2).encodable = true
    by_cases hh : (BlobV.loops r.loops.1 r.loops.2).encodable = true
    · exact hh
    · rw [if_neg hh] at h2; cases h2
  refine ⟨{ r with
      timeLastPlayed := r.timeLastPlayed.map storeTime
      dateCreated := storeTime r.dateCreated
      bpmAnalyzed := storeReal r.bpmAnalyzed
      activeOnLoadLoops := if s.hasActiveOnLoadLoops then r.activeOnLoadLoops else none }, ?_⟩
  simp [tablePut, putCues, putLoops, e1, e2, Res.bind]

/-- **`create_track`'s table layer, per schema version.**  For each of the seven
2.x versions, with the INSERT and SELECT column lists regenerated from
`track_table.cpp` for that version: if `track_table::add` of the row
`snapshot_to_row` built (id 0, origin (uuid, 0)) succeeds with id `i`, then
`track_table::get(i)` returns exactly the row `tablePut s` describes, with id
`i` and origin (uuid, `i`). -/
theorem tablePut_is_get_add (s : Schema) :
    ∃ st, genStmts s.to2 = some st ∧
    ∀ (d d' : Table.TDb) (u : Bytes) (r : Row) (da le i : Int),
      d.Wf → d.uuid = .text u → in64 da = true → in64 le = true →
      tAdd st d (toTable 0 u 0 da le r) = (d', .ok i) →
      ∃ r', tablePut s r = .ok r' ∧
        tGet st d' i = .ok (some (toTable i u i (truncSec da * 1000000000)
          (if s.to2.ge .s2_20_3 then truncSec le * 1000000000 else 0) r')) := by
  obtain ⟨st, h1, h2⟩ := stmts_aligned s
  refine ⟨st, h1, ?_⟩
  intro d d' u r da le i hwf hu hda hle hadd
  obtain ⟨_, l, he, _⟩ := tAdd_ok hadd
  obtain ⟨b1, b2, _, _⟩ := blob_bindings s st h1
  obtain ⟨r', hput⟩ := tablePut_ok_of_params s 0 u 0 da le r b1 b2 he
  refine ⟨r', hput, ?_⟩
  have hwt := wt_toTable 0 u 0 da le r (by decide) (by decide) hda hle
  rw [track_add_get h2 hwf.ids hwt hadd, hu, tablePut_normRowT s r r' hput u da le none i 0]

/-- **`track::update`'s table layer, per schema version**: `get ∘ update` of the
row `snapshot_to_row` built (id of the track, origin (uuid, 0)) is `tablePut s`,
with the origin pair repaired and `last_edit_time` stamped by the database on
2.20.3 and later. -/
theorem tablePut_is_get_update (s : Schema) :
    ∃ st, genStmts s.to2 = some st ∧
    ∀ (d d' : Table.TDb) (u : Bytes) (r : Row) (da le i : Int) (old : Raw TCol),
      d.uuid = .text u → in64 i = true → in64 da = true → in64 le = true →
      findRow .id d.rows i = some old → in64 (d.clock * 1000000000) = true →
      tUpdate s.to2 st d (toTable i u 0 da le r) = (d', .ok ()) →
      ∃ r', tablePut s r = .ok r' ∧
        tGet st d' i = .ok (some (toTable i u i (truncSec da * 1000000000)
          (if s.to2.ge .s2_20_3 then d.clock * 1000000000 else 0) r')) ∧
        ∀ j, j ≠ i → findRow .id d'.rows j = findRow .id d.rows j := by
  obtain ⟨st, h1, h2⟩ := stmts_aligned s
  refine ⟨st, h1, ?_⟩
  intro d d' u r da le i old hu hi hda hle hex hclk hupd
  obtain ⟨i', l, n, _, _, he, _⟩ := tUpdate_ok hupd
  obtain ⟨_, _, b3, b4⟩ := blob_bindings s st h1
  obtain ⟨r', hput⟩ := tablePut_ok_of_params s i u 0 da le r b3 b4 he
  refine ⟨r', hput, ?_⟩
  have hwt := wt_toTable i u 0 da le r hi (by decide) hda hle
  obtain ⟨g1, g2, _⟩ := track_update_get h2 hwt (rfl : toTable i u 0 da le r .id = .int i) hex hclk hupd
  refine ⟨?_, g2⟩
  rw [g1, hu, tablePut_normRowT s r r' hput u da le _ i i]
  cases s <;> rfl

end TracksV2
end EngineModel
