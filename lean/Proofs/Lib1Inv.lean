/-
The whole-library invariant `LibInv` of the composite schema-1.x model (`EngineModel/Lib/V1.lean`) and its
preservation by every call of the alphabet — failed calls included.

`LibInv s L` = the crates package's `Inv`, the tracks package's `TableOk` (distinct ids, `UNIQUE(path)`, the row
invariant `DbInv`), and what ties the table families together:
  * `coupled`     the Track key table of the crates model and the per-track rows of the tracks model describe the
                  same set of tracks (`liveTrack` ⇔ rows present);
  * `noPlaceholder`  a NULL-path Track row exists on the AUTOINCREMENT schemas only;
  * `art` / `albumArt`  every Track row written by the library references album-art row 1, and that row exists;
  * `schema`, `infoM`, `infoP`  the version stamps of both files are the schema's.
-/
import EngineModel.Lib.V1
import Proofs.CratesV1Sim
import Proofs.CratesV1Coroll
import Proofs.NoUbCratesV1
import Proofs.TracksV1Table
import Proofs.TracksV1AcceptHist
import Proofs.TracksV1Txn
import Proofs.CratesV1TrackHist

namespace EngineModel.Lib.V1
open EngineModel.Api
open EngineModel.Api.CratesV1 (liveTrack trackAutoinc)
open EngineModel.TracksV1 (Snap Field TrackRows aget aset TableOk DbInv KeysDistinct PathsUnique dbCreate dbUpdate dbSet dbRemove nextId writeSnap)
open EngineModel.TracksV1.Fl (FOps)

structure LibInv (s : VSchema) (L : Lib1) : Prop where
  crates : CratesV1.Inv L.cr
  schema : L.tr.schema = s
  table : TableOk L.tr
  coupled : ∀ x, liveTrack L.cr x ↔ (L.tr.rows x).isSome = true
  noPlaceholder : trackAutoinc (toDetect s) = false → ∀ r ∈ L.cr.track, r.hasPath = true
  art : ∀ id r, L.tr.rows id = some r → r.track.idAlbumArt = some 1
  albumArt : L.albumArt.map (·.id) = [1]
  infoM : L.infoM.version = (toDetect s).version
  infoP : L.infoP.version = (toDetect s).version

theorem libInv_empty (s : VSchema) (um up dir : Bytes) : LibInv s (Lib1.empty s um up dir) := by
  refine ⟨CratesV1.inv_empty, rfl, ⟨List.nodup_nil, ?_, ?_⟩, ?_, ?_, ?_, rfl, rfl, rfl⟩
  · intro _ e1 he1; cases he1
  · intro id r h; cases h
  · intro x
    constructor
    · rintro ⟨r, hr, _⟩; cases hr
    · intro h; cases h
  · intro _ r hr; cases hr
  · intro id r h; cases h

/-! ### the crate operations leave the Track key table alone -/

def crateOnly : CratesV1.Op → Bool
  | .createTrack | .removeTrack _ => false
  | _ => true

theorem crateOp_track (s : Pure.Detect.Schema) {db : CratesV1.Db} (hf : CratesV1.FInv db) (op : CratesV1.Op)
    (hop : crateOnly op = true) :
    (CratesV1.step s db op).1.track = db.track ∧ (CratesV1.step s db op).1.trackSeq = db.trackSeq := by
  cases op with
  | createRoot n =>
    show (CratesV1.createRootCrate s db n).1.track = _ ∧ (CratesV1.createRootCrate s db n).1.trackSeq = _
    rcases CratesV1.C15.createRoot_cases s db n with e | e | e <;> rw [e] <;> exact ⟨rfl, rfl⟩
  | createSub c n =>
    show (CratesV1.createSubCrate s db c n).1.track = _ ∧ (CratesV1.createSubCrate s db c n).1.trackSeq = _
    rcases CratesV1.C15.createSub_cases s hf.idsNodup c n with e | e | e | ⟨_, e⟩ <;> rw [e] <;> exact ⟨rfl, rfl⟩
  | rename c n =>
    show (CratesV1.setName s db c n).1.track = _ ∧ (CratesV1.setName s db c n).1.trackSeq = _
    rcases CratesV1.C15.setName_cases s hf c n with e | e | ⟨_, e⟩ <;> rw [e] <;> exact ⟨rfl, rfl⟩
  | setParent c p =>
    show (CratesV1.setParent s db c p).1.track = _ ∧ (CratesV1.setParent s db c p).1.trackSeq = _
    rcases CratesV1.C15.setParent_cases s hf c p with e | e | ⟨_, e⟩ <;> rw [e] <;> exact ⟨rfl, rfl⟩
  | removeCrate c => exact CratesV1.C15.removeCrate_tracks s db c
  | addTrack c t =>
    obtain ⟨_, _, _, h4, h5⟩ := CratesV1.C15.addTrack_frame s db c t
    exact ⟨h4, h5⟩
  | removeTrackFrom c t =>
    obtain ⟨_, _, _, h4, h5⟩ := CratesV1.deleteCtl_other s db (fun r => r.1 == c && r.2 == t)
    exact ⟨h4, h5⟩
  | clearTracks c =>
    obtain ⟨_, _, _, h4, h5⟩ := CratesV1.deleteCtl_other s db (fun r => r.1 == c)
    exact ⟨h4, h5⟩
  | createTrack => cases hop
  | removeTrack t => cases hop

theorem inv_step1 (s : Pure.Detect.Schema) {db : CratesV1.Db} (h : CratesV1.Inv db) (op : CratesV1.Op) :
    CratesV1.Inv (CratesV1.step s db op).1 := (CratesV1.step_ok s h op).1

/-- A call owned by the crates package (not a track creation / removal) keeps `LibInv`. -/
theorem libInv_viaCrates {s : VSchema} {L : Lib1} (h : LibInv s L) (op : CratesV1.Op) (hop : crateOnly op = true) :
    LibInv s (viaCrates s L op).1 := by
  obtain ⟨ht, _⟩ := crateOp_track (toDetect s) h.crates.toFInv op hop
  refine ⟨inv_step1 _ h.crates op, h.schema, h.table, ?_, ?_, h.art, h.albumArt, h.infoM, h.infoP⟩
  · intro x
    show liveTrack (CratesV1.step (toDetect s) L.cr op).1 x ↔ _
    rw [CratesV1.liveTrack_congr ht]; exact h.coupled x
  · intro ha r hr
    have hr' : r ∈ (CratesV1.step (toDetect s) L.cr op).1.track := hr
    rw [ht] at hr'
    exact h.noPlaceholder ha r hr'

/-! ### update / setters -/

theorem rows_isSome_aset (d : TracksV1.Db) (id : Int) (r r' : TrackRows) (hr : d.rows id = some r) (x : Int) :
    ((({ d with tracks := aset id r' d.tracks } : TracksV1.Db).rows x).isSome) = (d.rows x).isSome := by
  unfold TracksV1.Db.rows
  by_cases hx : x = id
  · subst hx
    rw [TracksV1.aget_aset_same]
    unfold TracksV1.Db.rows at hr
    rw [hr]; rfl
  · rw [TracksV1.aget_aset_other _ _ _ _ hx]

/-- `writeSnap` always references album-art row 1. -/
theorem writeSnap_art (o : FOps) (s : VSchema) (x : Snap) (prior : Option TrackRows) (rows : TrackRows)
    (h : writeSnap o s x prior = .ok rows) : rows.track.idAlbumArt = some 1 := by
  unfold writeSnap at h
  split at h
  · cases h
  · obtain ⟨_, _, h⟩ := TracksV1.Res.bind_eq_ok h
    obtain ⟨_, _, h⟩ := TracksV1.Res.bind_eq_ok h
    obtain ⟨_, _, h⟩ := TracksV1.Res.bind_eq_ok h
    obtain ⟨_, _, h⟩ := TracksV1.Res.bind_eq_ok h
    obtain ⟨_, _, h⟩ := TracksV1.Res.bind_eq_ok h
    obtain ⟨_, _, h⟩ := TracksV1.Res.bind_eq_ok h
    obtain ⟨_, _, h⟩ := TracksV1.Res.bind_eq_ok h
    obtain ⟨_, _, h⟩ := TracksV1.Res.bind_eq_ok h
    simp only [Res.ok.injEq] at h
    subst h
    rfl

/-! ### no setter touches `Track.idAlbumArt` -/

namespace SetArt
open EngineModel.TracksV1

def art (r : TrackRows) : Option Int := r.track.idAlbumArt

theorem setCol_art {α} {r r' : TrackRows} {norm : α → Res α} {eq : α → α → Bool} {v : α} {put : PerfRow → α → PerfRow}
    (h : setCol r norm eq v put = .ok r') : art r' = art r := by
  obtain ⟨v', p, _, _, e⟩ := setCol_ok r r' norm eq v put h
  rw [e]; rfl

theorem set_art (o : FOps) (r r' : TrackRows) (f : Field) (v : f.ty) (h : TracksV1.set o r f v = .ok r') : art r' = art r := by
  cases f with
  | relativePath => simp only [TracksV1.set, Res.ok.injEq] at h; subst h; rfl
  | album => simp only [TracksV1.set, Res.ok.injEq] at h; subst h; rfl
  | artist => simp only [TracksV1.set, Res.ok.injEq] at h; subst h; rfl
  | comment => simp only [TracksV1.set, Res.ok.injEq] at h; subst h; rfl
  | composer => simp only [TracksV1.set, Res.ok.injEq] at h; subst h; rfl
  | genre => simp only [TracksV1.set, Res.ok.injEq] at h; subst h; rfl
  | publisher => simp only [TracksV1.set, Res.ok.injEq] at h; subst h; rfl
  | title => simp only [TracksV1.set, Res.ok.injEq] at h; subst h; rfl
  | averageLoudness => simp only [TracksV1.set] at h; exact setCol_art h
  | beatgrid => simp only [TracksV1.set] at h; exact setCol_art h
  | bitrate => simp only [TracksV1.set, Res.ok.injEq] at h; subst h; rfl
  | bpm =>
    simp only [TracksV1.set] at h
    obtain ⟨c, _, h⟩ := bind_ok_inv h
    simp only [Res.pure_eq, pure, Res.ok.injEq] at h
    subst h; rfl
  | duration => simp only [TracksV1.set, Res.ok.injEq] at h; subst h; rfl
  | hotCues => simp only [TracksV1.set] at h; exact setCol_art h
  | hotCueAt i =>
    simp only [TracksV1.set] at h
    obtain ⟨k, _, h⟩ := Res.bind_eq_ok h
    exact setCol_art h
  | key =>
    simp only [TracksV1.set] at h
    obtain ⟨r1, h1, h⟩ := Res.bind_eq_ok h
    simp only [Res.ok.injEq] at h; subst h
    exact (show art _ = art r1 from rfl).trans (setCol_art h1)
  | lastPlayedAt => simp only [TracksV1.set, Res.ok.injEq] at h; subst h; rfl
  | loops =>
    simp only [TracksV1.set] at h
    split at h
    · cases h
    · exact setCol_art h
  | loopAt i =>
    simp only [TracksV1.set] at h
    obtain ⟨k, _, h⟩ := Res.bind_eq_ok h
    exact setCol_art h
  | mainCue => simp only [TracksV1.set] at h; exact setCol_art h
  | rating => simp only [TracksV1.set, Res.ok.injEq] at h; subst h; rfl
  | sampleCount =>
    simp only [TracksV1.set] at h
    obtain ⟨secs, _, h⟩ := bind_ok_inv h
    obtain ⟨r2, h2, h⟩ := bind_ok_inv h
    obtain ⟨r3, h3, h⟩ := bind_ok_inv h
    have k2 : art r2 = art r := (setCol_art h2).trans rfl
    have k3 : art r3 = art r2 := setCol_art h3
    split at h
    · simp only [Res.pure_eq, pure, Res.ok.injEq] at h; subst h; exact k3.trans k2
    · obtain ⟨e, _, h⟩ := bind_ok_inv h
      exact (setCol_art h).trans (k3.trans k2)
  | sampleRate =>
    simp only [TracksV1.set] at h
    obtain ⟨secs, _, h⟩ := bind_ok_inv h
    obtain ⟨r2, h2, h⟩ := bind_ok_inv h
    obtain ⟨r3, h3, h⟩ := bind_ok_inv h
    obtain ⟨r4, h4, h⟩ := bind_ok_inv h
    have k2 : art r2 = art r := (setCol_art h2).trans rfl
    have k3 : art r3 = art r2 := setCol_art h3
    have k4 : art r4 = art r3 := by
      split at h4
      · simp only [Res.pure_eq, pure, Res.ok.injEq] at h4; subst h4; rfl
      · obtain ⟨e, _, h4⟩ := bind_ok_inv h4
        exact setCol_art h4
    split at h
    · simp only [Res.pure_eq, pure, Res.ok.injEq] at h; subst h; exact k4.trans (k3.trans k2)
    · obtain ⟨e, _, h⟩ := bind_ok_inv h
      exact (setCol_art h).trans (k4.trans (k3.trans k2))
  | trackNumber => simp only [TracksV1.set, Res.ok.injEq] at h; subst h; rfl
  | waveform =>
    simp only [TracksV1.set] at h
    obtain ⟨w, _, h⟩ := bind_ok_inv h
    obtain ⟨r1, h1, h⟩ := bind_ok_inv h
    exact (setCol_art h).trans (setCol_art h1)
  | year => simp only [TracksV1.set, Res.ok.injEq] at h; subst h; rfl

end SetArt

/-! ### `track::update` and the setters -/

theorem libInv_replaceRows {s : VSchema} {L : Lib1} (h : LibInv s L) (id : Int) (r r' : TrackRows)
    (hr : L.tr.rows id = some r) (hok : TableOk ({ L.tr with tracks := aset id r' L.tr.tracks } : TracksV1.Db))
    (hart : r'.track.idAlbumArt = some 1) :
    LibInv s { L with tr := { L.tr with tracks := aset id r' L.tr.tracks } } := by
  refine ⟨h.crates, h.schema, hok, ?_, h.noPlaceholder, ?_, h.albumArt, h.infoM, h.infoP⟩
  · intro x
    show liveTrack L.cr x ↔ _
    rw [rows_isSome_aset L.tr id r r' hr x]; exact h.coupled x
  · intro id' r'' h''
    by_cases hx : id' = id
    · subst hx
      have : aget id' (aset id' r' L.tr.tracks) = some r'' := h''
      rw [TracksV1.aget_aset_same] at this
      cases this; exact hart
    · have : aget id' (aset id r' L.tr.tracks) = some r'' := h''
      rw [TracksV1.aget_aset_other _ _ _ _ hx] at this
      exact h.art id' r'' this

theorem libInv_update (o : FOps) {s : VSchema} {L : Lib1} (h : LibInv s L) (t : Id) (x : Snap) :
    LibInv s (viaTracks L (dbUpdate o L.tr t x)).1 := by
  cases hu : dbUpdate o L.tr t x with
  | throw e => exact h
  | ub u => exact h
  | ok d' =>
    obtain ⟨prior, rows, hp, hw, hd'⟩ := TracksV1.dbUpdate_rows o L.tr d' x t hu
    have hok := TracksV1.dbUpdate_tableOk o L.tr d' t x h.table hu
    subst hd'
    exact libInv_replaceRows h t prior rows hp hok (writeSnap_art o _ x _ rows hw)

theorem libInv_set (o : FOps) {s : VSchema} {L : Lib1} (h : LibInv s L) (t : Id) (f : Field) (v : f.ty) :
    LibInv s (viaTracks L (dbSet o L.tr t f v)).1 := by
  cases hu : dbSet o L.tr t f v with
  | throw e => exact h
  | ub u => exact h
  | ok d' =>
    obtain ⟨r, r', hr, hs, hd'⟩ := TracksV1.dbSet_ok o L.tr d' t f v hu
    have hok := TracksV1.dbSet_tableOk o L.tr d' t f v h.table hu
    subst hd'
    refine libInv_replaceRows h t r r' hr hok ?_
    have := SetArt.set_art o r r' f v hs
    unfold SetArt.art at this
    rw [this]; exact h.art t r hr

/-! ### `database::create_track` -/

theorem mem_rows_isSome {β} : ∀ (l : List (Int × β)) (e : Int × β), e ∈ l → (aget e.1 l).isSome = true := by
  intro l
  induction l with
  | nil => intro e he; cases he
  | cons hd t ih =>
    intro e he
    obtain ⟨k, v⟩ := hd
    by_cases hk : k = e.1
    · simp [aget, hk]
    · rcases List.mem_cons.mp he with rfl | h'
      · exact absurd rfl hk
      · simp only [aget, hk, if_false]; exact ih e h'

theorem aget_isSome_mem {β} : ∀ (l : List (Int × β)) (k : Int), (aget k l).isSome = true → k ∈ l.map (·.1) := by
  intro l
  induction l with
  | nil => intro k h; simp [aget] at h
  | cons hd t ih =>
    intro k h
    obtain ⟨k0, v⟩ := hd
    by_cases hk : k0 = k
    · simp [hk]
    · simp only [aget, hk, if_false] at h
      simp only [List.map_cons, List.mem_cons]
      exact Or.inr (ih k h)

theorem relabel_append (d : TracksV1.Db) (id0 id : Int) (rows : TrackRows) (hf : ∀ e ∈ d.tracks, e.1 ≠ id0) :
    relabel { d with tracks := d.tracks ++ [(id0, rows)] } id0 id = { d with tracks := d.tracks ++ [(id, rows)] } := by
  unfold relabel
  simp only [List.map_append, List.map_cons, List.map_nil, if_true]
  congr 2
  conv => rhs; rw [← List.map_id d.tracks]
  apply List.map_congr_left
  intro e he
  simp [hf e he]

/-- The Track table's constraints do not depend on WHICH fresh id the new row got. -/
theorem tableOk_relabel (d : TracksV1.Db) (id0 id : Int) (rows : TrackRows)
    (h0 : ∀ e ∈ d.tracks, e.1 ≠ id0) (h1 : ∀ e ∈ d.tracks, e.1 ≠ id)
    (hok : TableOk ({ d with tracks := d.tracks ++ [(id0, rows)] } : TracksV1.Db)) :
    TableOk ({ d with tracks := d.tracks ++ [(id, rows)] } : TracksV1.Db) := by
  have hkeys : (d.tracks.map (·.1)).Nodup := by
    have := hok.keys
    unfold KeysDistinct at this
    simp only [List.map_append] at this
    exact (List.nodup_append.mp this).1
  have hnone0 : aget id0 d.tracks = none := by
    cases hh : aget id0 d.tracks with
    | none => rfl
    | some r => exact absurd rfl (h0 _ (TracksV1.aget_mem _ _ _ hh))
  have hnone1 : aget id d.tracks = none := by
    cases hh : aget id d.tracks with
    | none => rfl
    | some r => exact absurd rfl (h1 _ (TracksV1.aget_mem _ _ _ hh))
  refine ⟨?_, ?_, ?_⟩
  · unfold KeysDistinct
    simp only [List.map_append, List.map_cons, List.map_nil]
    rw [List.nodup_append]
    refine ⟨hkeys, by simp, ?_⟩
    intro a ha b hb
    simp only [List.mem_singleton] at hb
    subst hb
    obtain ⟨e, he, rfl⟩ := List.mem_map.mp ha
    exact h1 e he
  · intro hsch e1 he1 e2 he2 hne p hp1
    have hp := hok.paths hsch
    simp only [List.mem_append, List.mem_singleton] at he1 he2
    rcases he1 with m1 | m1 <;> rcases he2 with m2 | m2
    · exact hp e1 (List.mem_append_left _ m1) e2 (List.mem_append_left _ m2) hne p hp1
    · subst m2
      exact hp e1 (List.mem_append_left _ m1) (id0, rows) (List.mem_append_right _ (List.mem_singleton.mpr rfl))
        (h0 e1 m1) p hp1
    · subst m1
      exact hp (id0, rows) (List.mem_append_right _ (List.mem_singleton.mpr rfl)) e2 (List.mem_append_left _ m2)
        (fun e => h0 e2 m2 e.symm) p hp1
    · subst m1; subst m2; exact absurd rfl hne
  · intro id' r hr
    have hr' : aget id' (d.tracks ++ [(id, rows)]) = some r := hr
    by_cases hx : id' = id
    · subst hx
      rw [TracksV1.aget_append_fresh _ _ _ hnone1] at hr'
      cases hr'
      exact hok.rows id0 rows (TracksV1.aget_append_fresh _ _ _ hnone0)
    · rw [TracksV1.aget_append_other _ _ _ _ hx] at hr'
      by_cases hx0 : id' = id0
      · subst hx0; rw [hnone0] at hr'; cases hr'
      · exact hok.rows id' r (by
          show aget id' (d.tracks ++ [(id0, rows)]) = some r
          rw [TracksV1.aget_append_other _ _ _ _ hx0]; exact hr')

theorem dbCreate_id (o : FOps) (d d' : TracksV1.Db) (x : Snap) (id : Int) (h : dbCreate o d x = .ok (d', id)) :
    id = nextId d := by
  obtain ⟨rows, hw, _⟩ := TracksV1.dbCreate_rows o d d' x id h
  unfold dbCreate at h
  rw [hw] at h
  simp only at h
  split at h
  · cases h
  · simp only [Res.ok.injEq, Prod.mk.injEq] at h; exact h.2.symm

theorem fresh_of_maxId {s : VSchema} {L : Lib1} (h : LibInv s L) {id : Int}
    (hid : CratesV1.maxId (L.cr.track.map (·.id)) < id) : ∀ e ∈ L.tr.tracks, e.1 ≠ id := by
  intro e he
  have h1 : (L.tr.rows e.1).isSome = true := mem_rows_isSome _ e he
  obtain ⟨r, hr, hre, _⟩ := (h.coupled e.1).mpr h1
  have : e.1 ∈ L.cr.track.map (·.id) := List.mem_map.mpr ⟨r, hr, hre⟩
  exact CratesV1.maxId_lt_fresh this hid

theorem libInv_createTrack (o : FOps) {s : VSchema} {L : Lib1} (h : LibInv s L) (x : Snap) :
    LibInv s (createTrack o s L x).1 := by
  obtain ⟨id, seq, hc, hmax⟩ := CratesV1.createTrack_spec (toDetect s) L.cr
  unfold createTrack
  rw [hc]
  simp only
  cases hd : dbCreate o L.tr x with
  | throw e => exact h
  | ub u => exact h
  | ok p =>
    obtain ⟨d', id0⟩ := p
    simp only
    obtain ⟨rows, hw, hd'⟩ := TracksV1.dbCreate_rows o L.tr d' x id0 hd
    have hid0 := dbCreate_id o L.tr d' x id0 hd
    have hok' := TracksV1.dbCreate_tableOk o L.tr d' id0 x h.table hd
    have h0 : ∀ e ∈ L.tr.tracks, e.1 ≠ id0 := by
      intro e he; rw [hid0]; have := TracksV1.nextId_fresh L.tr e he; omega
    have h1 := fresh_of_maxId h hmax
    subst hd'
    rw [relabel_append L.tr id0 id rows h0]
    have hnone1 : aget id L.tr.tracks = none := by
      cases hh : aget id L.tr.tracks with
      | none => rfl
      | some r => exact absurd rfl (h1 _ (TracksV1.aget_mem _ _ _ hh))
    refine ⟨CratesV1.inv_createTrack h.crates hmax, h.schema, tableOk_relabel L.tr id0 id rows h0 h1 hok', ?_, ?_, ?_,
      h.albumArt, h.infoM, h.infoP⟩
    · intro y
      show liveTrack { L.cr with track := L.cr.track ++ [⟨id, true⟩], trackSeq := seq } y ↔
        (aget y (L.tr.tracks ++ [(id, rows)])).isSome = true
      by_cases hy : y = id
      · subst hy
        rw [TracksV1.aget_append_fresh _ _ _ hnone1]
        exact ⟨fun _ => rfl, fun _ => ⟨⟨y, true⟩, List.mem_append_right _ (List.mem_singleton.mpr rfl), rfl, rfl⟩⟩
      · rw [TracksV1.aget_append_other _ _ _ _ hy]
        have hcy := h.coupled y
        unfold TracksV1.Db.rows at hcy
        rw [← hcy]
        unfold liveTrack
        constructor
        · rintro ⟨r, hr, h1', h2'⟩
          rcases List.mem_append.mp hr with m | m
          · exact ⟨r, m, h1', h2'⟩
          · rw [List.mem_singleton] at m; subst m; exact absurd h1'.symm hy
        · rintro ⟨r, hr, h1', h2'⟩
          exact ⟨r, List.mem_append_left _ hr, h1', h2'⟩
    · intro ha r hr
      rcases List.mem_append.mp hr with m | m
      · exact h.noPlaceholder ha r m
      · rw [List.mem_singleton] at m; subst m; rfl
    · intro id' r hr
      have hr' : aget id' (L.tr.tracks ++ [(id, rows)]) = some r := hr
      by_cases hy : id' = id
      · subst hy
        rw [TracksV1.aget_append_fresh _ _ _ hnone1] at hr'
        cases hr'
        exact writeSnap_art o _ x none rows hw
      · rw [TracksV1.aget_append_other _ _ _ _ hy] at hr'
        exact h.art id' r hr'

/-! ### `database::remove_track` -/

theorem removeTrack_members (s : Pure.Detect.Schema) (db : CratesV1.Db) (t : Id) (ha : trackAutoinc s = false) :
    ∀ r ∈ (CratesV1.removeTrack s db t).1.track, r ∈ db.track := by
  rw [CratesV1.removeTrack_unfold]
  simp only [ha, Bool.false_eq_true, if_false]
  intro r hr
  have h1 := (List.mem_filter.mp hr).1
  have := (CratesV1.deleteCtl_other s db (fun r => r.2 == t)).2.2.2.1
  rw [this] at h1
  exact h1

theorem libInv_removeTrack {s : VSchema} {L : Lib1} (h : LibInv s L) (t : Id) : LibInv s (removeTrack s L t).1 := by
  obtain ⟨_, e1, e2, e3, e4, e5, e6⟩ := CratesV1.removeTrack_spec (toDetect s) h.crates t
  refine ⟨CratesV1.inv_removeTrack (toDetect s) h.crates t, h.schema, TracksV1.dbRemove_tableOk L.tr t h.table, ?_, ?_, ?_,
    h.albumArt, h.infoM, h.infoP⟩
  · intro x
    show liveTrack (CratesV1.removeTrack (toDetect s) L.cr t).1 x ↔ ((dbRemove L.tr t).rows x).isSome = true
    rw [e6 x]
    by_cases hx : x = t
    · subst hx
      have : (dbRemove L.tr x).rows x = none := TracksV1.aget_filter_ne _ _
      rw [this]
      exact ⟨fun hh => absurd rfl hh.2, fun hh => by cases hh⟩
    · have : (dbRemove L.tr t).rows x = L.tr.rows x := TracksV1.aget_filter_other _ _ _ hx
      rw [this, ← h.coupled x]
      exact ⟨fun hh => hh.1, fun hh => ⟨hh, hx⟩⟩
  · intro ha r hr
    exact h.noPlaceholder ha r (removeTrack_members (toDetect s) L.cr t ha r hr)
  · intro id r hr
    have hr : (dbRemove L.tr t).rows id = some r := hr
    by_cases hx : id = t
    · subst hx
      have : (dbRemove L.tr id).rows id = none := TracksV1.aget_filter_ne _ _
      rw [this] at hr; cases hr
    · have : (dbRemove L.tr t).rows id = L.tr.rows id := TracksV1.aget_filter_other _ _ _ hx
      rw [this] at hr
      exact h.art id r hr

/-! ### every call, every history -/

theorem step_observer (o : FOps) (s : VSchema) (L : Lib1) (c : Call) (hc : c.isObserver = true) :
    (step o s L c).1 = L := by
  cases c <;> first | (cases hc; done) | (simp only [step]; split <;> rfl)

theorem libInv_step (o : FOps) {s : VSchema} {L : Lib1} (h : LibInv s L) (c : Call) : LibInv s (step o s L c).1 := by
  by_cases hc : c.isObserver = true
  · rw [step_observer o s L c hc]; exact h
  · cases c with
    | createRootCrate n => exact libInv_viaCrates h _ rfl
    | createRootCrateAfter n a => exact libInv_viaCrates h _ rfl
    | createTrack x => exact libInv_createTrack o h x
    | removeCrate c => exact libInv_viaCrates h _ rfl
    | removeTrack t => exact libInv_removeTrack h t
    | addTrack c t => exact libInv_viaCrates h _ rfl
    | crateRemoveTrack c t => exact libInv_viaCrates h _ rfl
    | clearTracks c => exact libInv_viaCrates h _ rfl
    | createSubCrate c n => exact libInv_viaCrates h _ rfl
    | createSubCrateAfter c n a => exact libInv_viaCrates h _ rfl
    | setName c n => exact libInv_viaCrates h _ rfl
    | setParent c p => exact libInv_viaCrates h _ rfl
    | update t x => exact libInv_update o h t x
    | set t f v => exact libInv_set o h t f v
    | _ => exact absurd rfl hc

theorem run_cons (o : FOps) (s : VSchema) (L : Lib1) (c : Call) (cs : List Call) :
    run o s L (c :: cs) = run o s (step o s L c).1 cs := rfl

theorem run_append (o : FOps) (s : VSchema) (L : Lib1) (cs cs' : List Call) :
    run o s L (cs ++ cs') = run o s (run o s L cs) cs' := by
  unfold run; rw [List.foldl_append]

theorem libInv_run (o : FOps) {s : VSchema} : ∀ (cs : List Call) {L : Lib1}, LibInv s L → LibInv s (run o s L cs) := by
  intro cs
  induction cs with
  | nil => intro L h; exact h
  | cons c cs ih => intro L h; rw [run_cons]; exact ih (libInv_step o h c)

end EngineModel.Lib.V1
