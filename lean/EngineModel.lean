import EngineModel.Basic.Res
import EngineModel.Basic.Prim
import EngineModel.Format.Codec
import EngineModel.Format.V2
