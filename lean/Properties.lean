import Properties.C19
import Properties.C13
import Properties.C20
import Properties.C12
import Properties.C14
import Properties.C16
import Properties.C10
import Properties.C09
