import Properties.C19
import Properties.C13
