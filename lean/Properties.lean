import Properties.C19
import Properties.C13
import Properties.C20
import Properties.C01V2
import Properties.C06V2
