import Properties.C19
import Properties.C13
import Properties.C20
import Properties.C03
import Properties.C05
import Properties.C04
import Properties.C02
