import Properties.C19
