import Properties.C19
import Properties.C13
import Properties.C20
import Properties.C12
import Properties.C14
import Properties.C16
import Properties.C10
import Properties.C09
import Properties.C03
import Properties.C05
import Properties.C04
import Properties.C02
import Properties.C01V1
import Properties.C01V2
import Properties.C06V2
import Properties.C06V1
import Properties.C07V1
import Properties.C07V2
import Properties.C08V2
import Properties.C11V2
import Properties.C18
-- TEMP(main, awaiting w-c15): import Properties.C15TracksV1
import Properties.C15TracksV2
import Properties.C15CratesV1
-- TEMP(main, awaiting w-c15): import Properties.C15CratesV2
import Properties.C08V1
import Properties.C11V1
import Properties.C17
