import Proofs.CursorLemmas
import Proofs.ImplV2
import Proofs.Waveform
import Proofs.Beatgrid
import Proofs.TracksV2
import Proofs.TracksV2Main
import Proofs.TracksV2Idem
import Proofs.TracksV2Db
