import Proofs.CursorLemmas
import Proofs.ImplV2
import Proofs.Waveform
import Proofs.Beatgrid
import Proofs.Txn
import Proofs.Chain
import Proofs.ImplV2Lists
import Proofs.ZlibLoop
