import Proofs.CursorLemmas
import Proofs.ImplV2
import Proofs.Waveform
import Proofs.Beatgrid
import Proofs.ImplV2Lists
import Proofs.ZlibLoop
