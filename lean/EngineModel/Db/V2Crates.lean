/-
Model of the schema-2.x crate / membership code (after the `fix:` commits of the
crates-v2 work-package):

  src/djinterop/engine/v2/crate_impl.cpp
  src/djinterop/engine/v2/database_impl.cpp   (crate / track-removal parts)
  src/djinterop/engine/v2/playlist_table.cpp
  src/djinterop/engine/v2/playlist_entity_table.cpp
  schema_2_18_0.cpp … schema_2_21_2.cpp       (Playlist / PlaylistEntity DDL, triggers, views — identical in all seven)

State = the modelled columns of the three tables plus their AUTOINCREMENT counters
(`sqlite_sequence`).  Each function below mirrors one C++ function statement by
statement; SQL statements are the list operations of `Db/Chain.lean`.

Not modelled (constant / masked in the tie): `isPersisted` and
`isExplicitlyExported` (always 1 through this API; the isPersist* triggers then
rewrite 1 to 1), `lastEditTime`, `databaseUuid` (always the library's own),
`membershipReference` (always 0), and the UNIQUE (parentListId, nextListId)
constraint (never violated on states that satisfy the chain invariant; a
violation would surface as a `sqlite_error` divergence in the tie).
The recursive view PlaylistAllChildren is modelled by its own recursion (`levels`: the
seed row, then level after level the children of the previous level), including the
non-termination of the real query on a cyclic table.
-/
import EngineModel.Basic.Prim
import EngineModel.Db.Chain

namespace EngineModel.Db.V2

open EngineModel.Db.Chain

/-- Payload of a PlaylistEntity row: the track id and the database it lives in.  `uuid = 0` stands for the
library's own database uuid (what `Information.uuid` holds), any other value for a foreign database (a
playlist may reference tracks on another drive; the tie maps the tags to fixed synthetic uuid strings).
An entry's identity — and the schema's UNIQUE constraint — is (listId, databaseUuid, trackId). -/
structure Ent where
  track : Int
  uuid : Int
  deriving Repr, DecidableEq, Inhabited

structure Db where
  pl : Table Bytes          -- Playlist: id, key = parentListId, next = nextListId, val = title
  plSeq : Int               -- sqlite_sequence['Playlist']
  pe : Table Ent            -- PlaylistEntity: id, key = listId, next = nextEntityId, val = (trackId, databaseUuid)
  peSeq : Int
  tracks : List Int         -- Track.id
  trSeq : Int
  deriving Repr, DecidableEq, Inhabited

def Db.empty : Db := ⟨[], 0, [], 0, [], 0⟩

inductive Op where
  | createRoot (name : Bytes)
  | createRootAfter (name : Bytes) (after : Int)
  | createSub (p : Int) (name : Bytes)
  | createSubAfter (p : Int) (name : Bytes) (after : Int)
  | rename (c : Int) (name : Bytes)
  | setParent (c : Int) (p : Option Int)
  | removeCrate (c : Int)
  | createTrack
  | removeTrack (t : Int)
  | addTrack (c t : Int)
  | removeTrackFrom (c t : Int)
  | clearTracks (c : Int)
  -- table level (playlist_entity_table)
  | peAddBack (l t u : Int) (throwIfDup : Bool)
  | peRemove (l e : Int)
  | peClear (l : Int)
  deriving Repr, DecidableEq, Inhabited

/-- Result value of an operation: the id of the created crate / track / entity row. -/
abbrev Out := Option Int

def semicolon : UInt8 := 59

def exn (n : String) : Exn := .dj n

/-- ensure_valid_name -/
def ensureValidName (n : Bytes) : Res Unit :=
  if n.isEmpty then .throw (exn "crate_invalid_name")
  else if n.contains semicolon then .throw (exn "crate_invalid_name")
  else .ok ()

/-- playlist_table::exists -/
def plExists (d : Db) (i : Int) : Bool := (d.pl.filter (·.id == i)).length > 0

/-- playlist_table::find_id / find_root_id: the callback overwrites `result` (the assert is compiled out). -/
def findId (d : Db) (parent : Int) (title : Bytes) : Option Int :=
  ((d.pl.filter (fun r => r.val == title && r.key == parent)).getLast?).map (·.id)

/-- `SELECT id FROM Playlist WHERE parentListId = c` in row order. -/
def kidsOf (t : Table Bytes) (c : Int) : List Int := (t.filter (·.key == c)).map (·.id)

/-- The recursive step of the view `PlaylistAllChildren`
(`WITH FindAllChild AS (SELECT id, id FROM Playlist UNION ALL SELECT cte.id, p.id FROM Playlist p JOIN FindAllChild cte
ON cte.childListId = p.parentListId)`), for one root: SQLite keeps a queue of result rows and joins each dequeued row
with Playlist — i.e. level after level, the children of the rows of the previous level, until a level is empty.
With UNION ALL a cycle makes the query run for ever: more levels than rows can only mean that (`nontermination`). -/
def levels (t : Table Bytes) : Nat → List Int → Res (List Int)
  | _, [] => .ok []
  | 0, _ :: _ => .ub .nontermination
  | n + 1, lvl => (levels t n (lvl.flatMap (kidsOf t))).bind fun rest => .ok (lvl ++ rest)

/-- playlist_table::descendant_ids: `SELECT childListId FROM PlaylistAllChildren WHERE id = ?` (the view drops the
seed row `id = childListId`; a root that is not in the table has no seed row at all).  The order of the rows within a
level is the order in which SQLite scans Playlist for the join; nothing the library does depends on it. -/
def descendantIds (t : Table Bytes) (c : Int) : Res (List Int) :=
  if (ids t).contains c then levels t t.length (kidsOf t c) else .ok []

/-- The UNIQUE (title, parentListId) constraint as seen by an UPDATE of row `i`. -/
def titleClash (t : Table Bytes) (i key : Int) (title : Bytes) : Bool :=
  t.any (fun r => r.id != i && r.key == key && r.val == title)

/-- playlist_table::add (row.id = NONE): ensure_valid_name, INSERT under the triggers, last_insert_rowid. -/
def plAdd (d : Db) (title : Bytes) (parent next : Int) : Db × Res Out :=
  match ensureValidName title with
  | .throw e => (d, .throw e)
  | .ub u => (d, .ub u)
  | .ok () =>
    let i := d.plSeq + 1
    ({ d with pl := insertBefore d.pl i parent next title, plSeq := i }, .ok (some i))

/-- playlist_table::update(row) for a row that was read by `get` and then had
title / parent / next replaced.  One transaction: a constraint failure rolls everything back. -/
def plUpdate (d : Db) (i : Int) (title : Bytes) (parent next : Int) : Db × Res Out :=
  match ensureValidName title with
  | .throw e => (d, .throw e)
  | .ub u => (d, .ub u)
  | .ok () =>
    match get d.pl i with
    | none => (d, .throw .sqlite_error)        -- `SELECT … >> std::tie` on no row: sqlite::errors::no_rows
    | some old =>
      if old.next == next && old.key == parent then
        if titleClash d.pl i parent title then (d, .throw .sqlite_error)
        else ({ d with pl := setVal d.pl i title }, .ok none)
      else
        if titleClash d.pl i parent title then (d, .throw .sqlite_error)
        else ({ d with pl := move d.pl i old.key old.next parent next title }, .ok none)

def fires (r : Row Ent) : Bool := r.val.track > 0

/-- playlist_entity_table::get(list, track, database uuid) and add_back's own duplicate test —
`WHERE listId = ? AND trackId = ? AND databaseUuid = ?`; the callback overwrites its result.
(The two-argument get(list, track), which ignores the uuid, is no longer used by the crate API.) -/
def peFind (d : Db) (l t u : Int) : Option (Row Ent) :=
  (d.pe.filter (fun r => r.key == l && r.val.track == t && r.val.uuid == u)).getLast?

/-- playlist_entity_table::add_back -/
def peAddBack (d : Db) (l t u : Int) (throwIfDup : Bool) : Db × Res Out :=
  match peFind d l t u with
  | some e => if throwIfDup then (d, .throw .invalid_argument) else (d, .ok (some e.id))
  | none =>
    let i := d.peSeq + 1
    ({ d with pe := appendBack d.pe i l ⟨t, u⟩, peSeq := i }, .ok (some i))

/-- One round of database_impl::remove_track's loop: in list `l`, the entry of track `t` of this database
(`playlist_entity_table::get(list, track, uuid)`) is removed by its row id, if there is one. -/
def rmTrackIn (t : Int) (pe : Table Ent) (l : Int) : Table Ent :=
  match (pe.filter (fun r => r.key == l && r.val.track == t && r.val.uuid == 0)).getLast? with
  | some e => deleteKeyed fires pe l e.id
  | none => pe

/-- playlist_table::remove (after its existence test): one transaction — entities of the crate and of its
descendants, then the rows themselves (the first DELETE fires the trigger that
splices the siblings and deletes the children; the further DELETEs pick up the
deeper descendants the non-recursive trigger leaves behind). -/
def plRemove (d : Db) (removed : List Int) : Db :=
  let pe := removed.foldl (fun pe i => clearKey fires pe i) d.pe
  let pl := removed.foldl (fun pl i => deleteCascade pl i) d.pl
  { d with pe := pe, pl := pl }

def step (d : Db) : Op → Db × Res Out
  -- database_impl::create_root_crate
  | .createRoot name =>
    if (findId d 0 name).isSome then (d, .throw (exn "crate_already_exists"))
    else plAdd d name 0 0
  -- database_impl::create_root_crate_after
  | .createRootAfter name after =>
    if (findId d 0 name).isSome then (d, .throw (exn "crate_already_exists"))
    else match get d.pl after with
      | none => (d, .throw (exn "crate_deleted"))
      | some a =>
        if a.key != 0 then (d, .throw (exn "crate_invalid_parent"))
        else plAdd d name 0 a.next
  -- crate_impl::create_sub_crate
  | .createSub p name =>
    if !plExists d p then (d, .throw (exn "crate_deleted"))
    else if (findId d p name).isSome then (d, .throw (exn "crate_already_exists"))
    else plAdd d name p 0
  -- crate_impl::create_sub_crate_after
  | .createSubAfter p name after =>
    if !plExists d p then (d, .throw (exn "crate_deleted"))
    else if (findId d p name).isSome then (d, .throw (exn "crate_already_exists"))
    else match get d.pl after with
      | none => (d, .throw (exn "crate_deleted"))
      | some a =>
        if a.key != p then (d, .throw (exn "crate_invalid_parent"))
        else plAdd d name p a.next
  -- crate_impl::set_name
  | .rename c name =>
    match get d.pl c with
    | none => (d, .throw (exn "crate_deleted"))
    | some row => plUpdate d c name row.key row.next
  -- crate_impl::set_parent
  | .setParent c p =>
    if p == some c then (d, .throw (exn "crate_invalid_parent"))
    else match get d.pl c with
      | none => (d, .throw (exn "crate_deleted"))
      | some row =>
        match p with
        | some q =>
          if !plExists d q then (d, .throw (exn "crate_deleted"))
          else match descendantIds d.pl c with
            | .throw e => (d, .throw e)
            | .ub u => (d, .ub u)
            | .ok ds =>
              if ds.contains q then (d, .throw (exn "crate_invalid_parent"))
              else if row.key != q then plUpdate d c row.val q 0
              else plUpdate d c row.val row.key row.next
        | none =>
          if row.key != 0 then plUpdate d c row.val 0 0
          else plUpdate d c row.val row.key row.next
  -- database_impl::remove_crate
  | .removeCrate c =>
    if !plExists d c then (d, .throw .invalid_argument)      -- playlist_table::remove: no such row
    else match descendantIds d.pl c with
      | .throw e => (d, .throw e)
      | .ub u => (d, .ub u)
      | .ok ds => (plRemove d (c :: ds), .ok none)
  -- database_impl::create_track (of a valid snapshot)
  | .createTrack =>
    let i := d.trSeq + 1
    ({ d with tracks := d.tracks ++ [i], trSeq := i }, .ok (some i))
  -- database_impl::remove_track: one transaction — memberships (entries of this database) list by list, then track_table::remove
  -- (which throws when there is no such track: everything is rolled back)
  | .removeTrack t =>
    let pe := (ids d.pl).foldl (rmTrackIn t) d.pe
    if d.tracks.contains t then ({ d with pe := pe, tracks := d.tracks.filter (· != t) }, .ok none)
    else (d, .throw .invalid_argument)
  -- crate_impl::add_track
  | .addTrack c t =>
    if !plExists d c then (d, .throw (exn "crate_deleted"))
    else if !d.tracks.contains t then (d, .throw (exn "track_deleted"))
    else peAddBack d c t 0 false        -- the row carries library_->information().get().uuid
  -- crate_impl::remove_track: the entry of this database (uuid tag 0)
  | .removeTrackFrom c t =>
    match peFind d c t 0 with
    | some e => ({ d with pe := deleteKeyed fires d.pe c e.id }, .ok none)
    | none => (d, .ok none)
  -- crate_impl::clear_tracks
  | .clearTracks c => ({ d with pe := clearKey fires d.pe c }, .ok none)
  | .peAddBack l t u f => peAddBack d l t u f
  | .peRemove l e =>
    -- playlist_entity_table::remove: rows_modified() == 0 → invalid_argument (nothing was deleted, no trigger fired)
    if ((rowsOf d.pe l).find? (·.id == e)).isNone then (d, .throw .invalid_argument)
    else ({ d with pe := deleteKeyed fires d.pe l e }, .ok none)
  | .peClear l => ({ d with pe := clearKey fires d.pe l }, .ok none)

def run (d : Db) : List Op → Db
  | [] => d
  | op :: ops => run (step d op).1 ops

/-! ### queries -/

/-- database::crates -/
def qCrates (d : Db) : List Int := ids d.pl
/-- database::root_crates (ordered) -/
def qRoots (d : Db) : Res (List Int) := walkIds d.pl 0
/-- crate::children (ordered) -/
def qChildren (d : Db) (c : Int) : Res (List Int) := walkIds d.pl c
/-- crate::descendants -/
def qDescendants (d : Db) (c : Int) : Res (List Int) := descendantIds d.pl c
/-- crate::parent -/
def qParent (d : Db) (c : Int) : Res (Option Int) :=
  match get d.pl c with
  | none => .throw (exn "crate_deleted")
  | some r => if r.key == 0 then .ok none else .ok (some r.key)
/-- crate::name -/
def qName (d : Db) (c : Int) : Res Bytes :=
  match get d.pl c with
  | none => .throw (exn "crate_deleted")
  | some r => .ok r.val
/-- crate::is_valid / database::crate_by_id -/
def qValid (d : Db) (c : Int) : Bool := plExists d c
/-- database::crates_by_name -/
def qByName (d : Db) (n : Bytes) : List Int := (d.pl.filter (·.val == n)).map (·.id)
/-- database::root_crate_by_name / crate::sub_crate_by_name (parent 0 = root) -/
def qByParentName (d : Db) (p : Int) (n : Bytes) : Option Int := findId d p n
/-- crate::tracks (ordered): the entries of get_for_list that belong to this database -/
def qTracks (d : Db) (c : Int) : Res (List Int) :=
  (walkBack d.pe c).bind fun l => .ok ((l.filter (·.val.uuid == 0)).map (·.val.track))

/-- playlist_entity_table::track_ids (table level: every entry, whatever its database) -/
def qTrackIds (d : Db) (l : Int) : Res (List Int) := (walkBack d.pe l).bind fun rows => .ok (rows.map (·.val.track))
/-- playlist_entity_table::get_for_list as (entity id, track id, database uuid tag) -/
def qEntities (d : Db) (l : Int) : Res (List (Int × Int × Int)) :=
  (walkBack d.pe l).bind fun rows => .ok (rows.map fun r => (r.id, r.val.track, r.val.uuid))
/-- database::tracks -/
def qAllTracks (d : Db) : List Int := d.tracks

end EngineModel.Db.V2
