/-
Keyed singly-linked chains stored in a SQL table (schema 2.x `Playlist` with
key = parentListId / next = nextListId, and `PlaylistEntity` with key = listId /
next = nextEntityId).

A table is a `List (Row α)` in rowid order; every statement the library (or a
trigger of the schema) issues is a list operation:

  UPDATE … SET nextX = e WHERE p      ↦  `updNext p e`
  DELETE … WHERE id = ?               ↦  `filter`
  INSERT                              ↦  append (rowids are AUTOINCREMENT, so a new row is last)

and the composite operations mirror the statement sequences one by one:

  `insertBefore`  = INSERT INTO Playlist under trigger_before_insert_List / trigger_after_insert_List
  `deleteCascade` = DELETE FROM Playlist WHERE id = ? under trigger_after_delete_List
                    (the trigger's own DELETE of the children does not re-fire the trigger: recursive_triggers = OFF)
  `deleteKeyed`   = DELETE FROM PlaylistEntity WHERE … id = ? under trigger_before_delete_PlaylistEntity
  `move`          = the four UPDATE statements of playlist_table::update
  `appendBack`    = the INSERT + UPDATE of playlist_entity_table::add_back
  `clearKey`      = DELETE FROM PlaylistEntity WHERE listId = ? (row by row, trigger before each row)
  `walkBack`      = sort_ids / get_for_list: unordered_map next ↦ id, walked backwards from next = 0

`α` is the payload the chain logic never looks at (title / trackId).
-/
import EngineModel.Basic.Res

namespace EngineModel.Db.Chain

structure Row (α : Type) where
  id : Int
  key : Int
  next : Int
  val : α
  deriving Repr, DecidableEq, Inhabited

abbrev Table (α : Type) := List (Row α)

variable {α : Type}

def ids (t : Table α) : List Int := t.map (·.id)

/-- `SELECT … WHERE id = ?` (ids are a primary key: at most one row). -/
def get (t : Table α) (i : Int) : Option (Row α) := t.find? (·.id == i)

/-- `SELECT … WHERE key = ?` in rowid order. -/
def rowsOf (t : Table α) (k : Int) : Table α := t.filter (·.key == k)

/-- `UPDATE t SET next = e(next) WHERE p`. -/
def updRow (p : Row α → Bool) (e : Int → Int) (r : Row α) : Row α :=
  if p r then { r with next := e r.next } else r

def updNext (p : Row α → Bool) (e : Int → Int) (t : Table α) : Table α := t.map (updRow p e)

/-- INSERT of `(newId, key, target, v)` into `Playlist`:
BEFORE trigger  `UPDATE SET next = -(1 + next) WHERE next = NEW.next AND key = NEW.key`,
the row itself, AFTER trigger `UPDATE SET next = NEW.id WHERE next = -(1 + NEW.next) AND key = NEW.key`. -/
def insertBefore (t : Table α) (newId key target : Int) (v : α) : Table α :=
  let t1 := updNext (fun r => r.next == target && r.key == key) (fun n => -(1 + n)) t
  let t2 := t1 ++ [⟨newId, key, target, v⟩]
  updNext (fun r => r.next == -(1 + target) && r.key == key) (fun _ => newId) t2

/-- `DELETE FROM Playlist WHERE id = ?` with trigger_after_delete_List:
`UPDATE SET next = OLD.next WHERE next = OLD.id; DELETE WHERE key = OLD.id`
(no key test in the UPDATE; the nested DELETE fires no trigger). No row, no trigger. -/
def deleteCascade (t : Table α) (i : Int) : Table α :=
  match get t i with
  | none => t
  | some old =>
    let t1 := t.filter (fun r => r.id != i)
    let t2 := updNext (fun r => r.next == old.id) (fun _ => old.next) t1
    t2.filter (fun r => r.key != old.id)

/-- `DELETE FROM PlaylistEntity WHERE listId = ? AND id = ?` with
trigger_before_delete_PlaylistEntity (`WHEN OLD.trackId > 0`, passed as `fires`):
`UPDATE SET next = OLD.next WHERE next = OLD.id AND key = OLD.key`, then the row goes. -/
def deleteKeyed (fires : Row α → Bool) (t : Table α) (k i : Int) : Table α :=
  match (rowsOf t k).find? (·.id == i) with
  | none => t
  | some old =>
    let t1 := if fires old then updNext (fun r => r.next == old.id && r.key == old.key) (fun _ => old.next) t else t
    t1.filter (fun r => r.id != i)

/-- `DELETE FROM PlaylistEntity WHERE listId = ?`: the rows selected by the
WHERE clause are deleted one after the other, the trigger firing before each. -/
def clearKey (fires : Row α → Bool) (t : Table α) (k : Int) : Table α :=
  ((rowsOf t k).map (·.id)).foldl (fun t i => deleteKeyed fires t k i) t

/-- playlist_table::update, re-ordering branch (subject `i`, old position
`(oldKey, oldNext)` read by the SELECT, new position `(key, target)`, new payload):
1. `SET next = -(1 + next) WHERE id = i`
2. `SET next = oldNext WHERE next = i AND key = oldKey`
3. `SET next = i WHERE next = target AND key = key`
4. `SET val, key, next = target WHERE id = i`. -/
def move (t : Table α) (i oldKey oldNext key target : Int) (v : α) : Table α :=
  let t1 := updNext (fun r => r.id == i) (fun n => -(1 + n)) t
  let t2 := updNext (fun r => r.next == i && r.key == oldKey) (fun _ => oldNext) t1
  let t3 := updNext (fun r => r.next == target && r.key == key) (fun _ => i) t2
  t3.map fun r => if r.id == i then { r with val := v, key := key, next := target } else r

/-- `UPDATE … SET val = ? WHERE id = ?` (the non-re-ordering branch of update). -/
def setVal (t : Table α) (i : Int) (v : α) : Table α :=
  t.map fun r => if r.id == i then { r with val := v } else r

/-- playlist_entity_table::add_back after the duplicate test:
`INSERT (newId, key, 0, v)`; `UPDATE SET next = newId WHERE key = ? AND next = 0 AND id <> newId`. -/
def appendBack (t : Table α) (newId key : Int) (v : α) : Table α :=
  updNext (fun r => r.key == key && r.next == 0 && r.id != newId) (fun _ => newId)
    (t ++ [⟨newId, key, 0, v⟩])

/-- `m[next] = id` over the selected rows in row order: a later row overwrites
an earlier one with the same `next`; `find(n)`. -/
def lookupNext (rows : Table α) (n : Int) : Option (Row α) := rows.reverse.find? (·.next == n)

/-- The do-while of sort_ids / get_for_list after the first lookup: push the
found row to the front, look for the row whose `next` is its id. -/
def walkFuel (rows : Table α) : Nat → Int → List (Row α) → List (Row α)
  | 0, _, acc => acc
  | f + 1, cur, acc =>
    match lookupNext rows cur with
    | none => acc
    | some r => walkFuel rows f r.id (r :: acc)

/-- sort_ids / get_for_list.  Empty selection: empty result.  Otherwise the
tail (`next = 0`) is dereferenced without a test (the `assert` is compiled out
under NDEBUG): undefined behaviour when there is none.  The walk visits pairwise
different rows, so `rows.length` steps always suffice. -/
def walkBack (t : Table α) (k : Int) : Res (List (Row α)) :=
  let rows := rowsOf t k
  if rows.isEmpty then .ok []
  else match lookupNext rows 0 with
    | none => .ub .oob_read
    | some _ => .ok (walkFuel rows rows.length 0 [])

def walkIds (t : Table α) (k : Int) : Res (List Int) := (walkBack t k).bind fun l => .ok (l.map (·.id))

end EngineModel.Db.Chain
