/-
The public mutating calls of the schema-2.x crate / membership code
(`Db/V2Crates.lean`) as statement programs on the connection of `Spec/Txn.lean`
(C14, review item 3).

`stmts d op` = the statements the call issues on the prior tables `d` when
nothing fails.  A `write` is one SQL statement *with its triggers* (the
Playlist / PlaylistEntity chain surgery of the schema's triggers runs inside
the statement, SQLite's statement atomicity covers it): the functions of
`Db/Chain.lean`.  `playlist_table::update` (one scope around up to four UPDATEs
whose joint effect is `Chain.move` / `Chain.setVal`) and
`playlist_entity_table::add_back` (one scope around the UPDATE of the last
entity and the INSERT: `Chain.appendBack`) are one `write` inside their scope —
the tie compares skeletons, in which the writes of a scope count once.
Loops issue one statement per element (`playlist_table::remove`: one DELETE
FROM PlaylistEntity and one DELETE FROM Playlist per removed list;
`database::remove_track`: per list a lookup and the DELETE of the entry).
-/
import EngineModel.Db.V2Crates
import EngineModel.Spec.Stmts

namespace EngineModel.Db.V2
open EngineModel.Db.Chain EngineModel.Spec.Txn EngineModel.Spec.Stmts

abbrev Prog := List (Cmd Db)

def okState (r : Db × Res Out) : Option Db :=
  match r.2 with
  | .ok _ => some r.1
  | _ => none

/-- `INSERT INTO Playlist …` (playlist_table::add) -/
def wPlAdd (title : Bytes) (parent next : Int) : Cmd Db := .write fun d => okState (plAdd d title parent next)
/-- the UPDATEs of playlist_table::update on row `i` -/
def wPlUpdate (i : Int) (title : Bytes) (parent next : Int) : Cmd Db :=
  .write fun d => okState (plUpdate d i title parent next)
/-- `DELETE FROM PlaylistEntity WHERE listId = ?` -/
def wClearKey (l : Int) : Cmd Db := tot fun d => { d with pe := clearKey fires d.pe l }
/-- `DELETE FROM Playlist WHERE id = ?` -/
def wDeleteList (i : Int) : Cmd Db := tot fun d => { d with pl := deleteCascade d.pl i }
/-- the lookup + `DELETE FROM PlaylistEntity WHERE id = ?` of database::remove_track for one list -/
def wRemoveFromList (l t : Int) : Cmd Db := tot fun d => { d with pe := rmTrackIn t d.pe l }
/-- `DELETE FROM Track WHERE id = ?` -/
def wDeleteTrack (t : Int) : Cmd Db := tot fun d => { d with tracks := d.tracks.filter (· != t) }
/-- `DELETE FROM PlaylistEntity WHERE id = ?` -/
def wDeleteEntity (l e : Int) : Cmd Db := tot fun d => { d with pe := deleteKeyed fires d.pe l e }
/-- UPDATE of the last entity + INSERT of playlist_entity_table::add_back -/
def wAppendBack (l t u : Int) : Cmd Db :=
  tot fun d => { d with pe := appendBack d.pe (d.peSeq + 1) l ⟨t, u⟩, peSeq := d.peSeq + 1 }

def nextOf (d : Db) (after : Int) : Int :=
  match get d.pl after with
  | some a => a.next
  | none => 0

/-- the descendants `playlist_table::remove` reads from the recursive view (when that read succeeds) -/
def removedBelow (d : Db) (c : Int) : List Int :=
  match descendantIds d.pl c with
  | .ok ds => ds
  | _ => []

/-- reads and writes of the call (without the BEGIN / COMMIT of its scope) -/
def body (d : Db) : Op → Prog
  | .createRoot name => [.read, wPlAdd name 0 0]
  | .createRootAfter name after => [.read, .read, wPlAdd name 0 (nextOf d after)]
  | .createSub p name => [.read, .read, wPlAdd name p 0]
  | .createSubAfter p name after => [.read, .read, .read, wPlAdd name p (nextOf d after)]
  | .rename c name =>
    match get d.pl c with
    | some row => [.read, .read, wPlUpdate c name row.key row.next]
    | none => [.read]
  | .setParent c p =>
    match get d.pl c with
    | some row =>
      match p with
      | some q =>
        if row.key != q then [.read, .read, .read, .read, wPlUpdate c row.val q 0]
        else [.read, .read, .read, .read, wPlUpdate c row.val row.key row.next]
      | none =>
        if row.key != 0 then [.read, .read, wPlUpdate c row.val 0 0]
        else [.read, .read, wPlUpdate c row.val row.key row.next]
    | none => [.read]
  | .removeCrate c =>
    .read :: .read :: ((c :: removedBelow d c).map wClearKey ++ (c :: removedBelow d c).map wDeleteList)
  | .createTrack => [tot fun d => (step d .createTrack).1]
  | .removeTrack t => (ids d.pl).map (fun l => wRemoveFromList l t) ++ [wDeleteTrack t]
  | .addTrack c t =>
    match peFind d c t 0 with
    | some _ => [.read, .read, .read]
    | none => [.read, .read, .read, wAppendBack c t 0]
  | .removeTrackFrom c t =>
    match peFind d c t 0 with
    | some e => [.read, wDeleteEntity c e.id]
    | none => [.read]
  | .clearTracks c => [wClearKey c]
  | .peAddBack l t u _ =>
    match peFind d l t u with
    | some _ => [.read]
    | none => [.read, wAppendBack l t u]
  | .peRemove l e => [wDeleteEntity l e]
  | .peClear l => [wClearKey l]

/-- Does the call run (its writes) inside a `sqlite_transaction` scope on this prior state? -/
def scopedAt (d : Db) : Op → Bool
  | .rename _ _ | .setParent _ _ | .removeCrate _ | .removeTrack _ => true
  | .addTrack c t => (peFind d c t 0).isNone
  | .peAddBack l t u _ => (peFind d l t u).isNone
  | _ => false

/-- the statements of a call on the prior state `d`, when nothing fails -/
def stmts (d : Db) (op : Op) : Prog := if scopedAt d op then txn (body d op) else body d op

def shapeOf (op : Op) (d : Db) : List CmdKind := (stmts d op).map Cmd.kind

/-- The skeletons an operation can have (which one depends on the prior state only for `add_track`: already a
member → no statement; and `crate::remove_track`: not a member → no statement). -/
def allowed : Op → List Skeleton
  | .rename _ _ | .setParent _ _ | .removeCrate _ | .removeTrack _ => [.scope]
  | .addTrack _ _ | .peAddBack _ _ _ _ => [.scope, .none]
  | .removeTrackFrom _ _ => [.single, .none]
  | _ => [.single]

end EngineModel.Db.V2
