/-
Executable well-formedness of the raw 2.x crate tables (the 2.x half of C11's
`WfRaw`, and the invariant behind C07–C09): what an independent reader of the
SQLite file relies on.  The same function is (a) proved to hold on every state
reachable through the modelled API (Properties/C11V2.lean) and (b) evaluated by
the driver on the rows dumped from the real database after every step.
-/
import EngineModel.Db.V2Crates
import EngineModel.Spec.Forest

namespace EngineModel.Db.V2

open EngineModel.Db.Chain

def nodupB (l : List Int) : Bool := l.eraseDups.length == l.length

/-- ids are a key, positive, and not beyond the AUTOINCREMENT counter. -/
def idsOk {α} (t : Table α) (seq : Int) : Bool :=
  nodupB (ids t) && (ids t).all (fun i => 0 < i && i ≤ seq) && decide (0 ≤ seq)

/-- Every key's rows form one chain: walking back from `next = 0` meets every row of the key exactly once. -/
def chainsOk {α} (t : Table α) : Bool :=
  ((t.map (·.key)).eraseDups).all fun k =>
    match walkIds t k with
    | .ok l => l.length == (rowsOf t k).length && nodupB l
    | _ => false

/-- Following parentListId from `x` reaches a root (parent 0) within `fuel` steps, through existing rows only. -/
def reachesRoot (t : Table Bytes) : Nat → Int → Bool
  | 0, _ => false
  | n + 1, x =>
    match get t x with
    | none => false
    | some r => r.key == 0 || reachesRoot t n r.key

def forestOk (t : Table Bytes) : Bool := t.all fun r => reachesRoot t t.length r.id

def namesOk (t : Table Bytes) : Bool :=
  t.all (fun r => Spec.Forest.validName r.val) &&
  t.all (fun r => !t.any (fun r' => r'.id != r.id && r'.key == r.key && r'.val == r.val))

def entitiesOk (d : Db) : Bool :=
  -- every entry sits in an existing playlist and has a positive track id; an entry of the library's own
  -- database (uuid tag 0) refers to an existing track (tracks of other databases cannot be checked here)
  d.pe.all (fun e => plExists d e.key && decide (0 < e.val.track) && (e.val.uuid != 0 || d.tracks.contains e.val.track)) &&
  d.pe.all (fun e => !d.pe.any (fun e' => e'.id != e.id && e'.key == e.key && e'.val == e.val))

def tracksOk (d : Db) : Bool := nodupB d.tracks && d.tracks.all (fun i => 0 < i && i ≤ d.trSeq) && decide (0 ≤ d.trSeq)

/-- The chain part alone (holds also under the table-level entity operations). -/
def chainChecks (d : Db) : List (String × Bool) :=
  [("Playlist ids are not unique, not positive or beyond the AUTOINCREMENT counter", idsOk d.pl d.plSeq),
   ("the nextListId chains are not one acyclic list per parent covering all rows", chainsOk d.pl),
   ("PlaylistEntity ids are not unique, not positive or beyond the AUTOINCREMENT counter", idsOk d.pe d.peSeq),
   ("the nextEntityId chains are not one acyclic list per playlist covering all rows", chainsOk d.pe)]

def checks (d : Db) : List (String × Bool) :=
  chainChecks d ++
  [("a Playlist row has a parent that does not exist, or the parent relation has a cycle", forestOk d.pl),
   ("a Playlist title is invalid or repeated among siblings", namesOk d.pl),
   ("a PlaylistEntity row refers to a missing playlist or (own database) a missing track, or repeats a membership", entitiesOk d),
   ("Track ids are not unique, not positive or beyond the AUTOINCREMENT counter", tracksOk d)]

def wfChains (d : Db) : Bool := (chainChecks d).all (·.2)
def wfRaw (d : Db) : Bool := (checks d).all (·.2)

def wfChainsWhy (d : Db) : Option String := ((chainChecks d).find? (fun c => !c.2)).map (·.1)
def wfRawWhy (d : Db) : Option String := ((checks d).find? (fun c => !c.2)).map (·.1)

end EngineModel.Db.V2
