/-
Schema identification: the Spec table (from the public header
include/djinterop/engine/engine_schema.hpp: enumerator ↔ version string, the
two 1.18.0 variants told apart by the `isExternalTrack NUMERIC` marker) and
the directory-layout dispatch of `load_database`.
-/
namespace EngineModel.Pure.Detect

inductive Schema where
  | schema_1_6_0 | schema_1_7_1 | schema_1_9_1 | schema_1_11_1 | schema_1_13_0
  | schema_1_13_1 | schema_1_13_2 | schema_1_15_0 | schema_1_17_0
  | schema_1_18_0_desktop | schema_1_18_0_os
  | schema_2_18_0 | schema_2_20_1 | schema_2_20_2 | schema_2_20_3
  | schema_2_21_0 | schema_2_21_1 | schema_2_21_2 | schema_3_0_0
  deriving DecidableEq, Repr, Inhabited

open Schema

def Schema.all : List Schema :=
  [schema_1_6_0, schema_1_7_1, schema_1_9_1, schema_1_11_1, schema_1_13_0, schema_1_13_1,
   schema_1_13_2, schema_1_15_0, schema_1_17_0, schema_1_18_0_desktop, schema_1_18_0_os,
   schema_2_18_0, schema_2_20_1, schema_2_20_2, schema_2_20_3, schema_2_21_0, schema_2_21_1,
   schema_2_21_2, schema_3_0_0]

/-- Enumerator order (`operator>=` on `engine_schema`). -/
def Schema.ord : Schema → Nat
  | schema_1_6_0 => 0 | schema_1_7_1 => 1 | schema_1_9_1 => 2 | schema_1_11_1 => 3
  | schema_1_13_0 => 4 | schema_1_13_1 => 5 | schema_1_13_2 => 6 | schema_1_15_0 => 7
  | schema_1_17_0 => 8 | schema_1_18_0_desktop => 9 | schema_1_18_0_os => 10
  | schema_2_18_0 => 11 | schema_2_20_1 => 12 | schema_2_20_2 => 13 | schema_2_20_3 => 14
  | schema_2_21_0 => 15 | schema_2_21_1 => 16 | schema_2_21_2 => 17 | schema_3_0_0 => 18

def Schema.name : Schema → String
  | schema_1_6_0 => "schema_1_6_0" | schema_1_7_1 => "schema_1_7_1" | schema_1_9_1 => "schema_1_9_1"
  | schema_1_11_1 => "schema_1_11_1" | schema_1_13_0 => "schema_1_13_0" | schema_1_13_1 => "schema_1_13_1"
  | schema_1_13_2 => "schema_1_13_2" | schema_1_15_0 => "schema_1_15_0" | schema_1_17_0 => "schema_1_17_0"
  | schema_1_18_0_desktop => "schema_1_18_0_desktop" | schema_1_18_0_os => "schema_1_18_0_os"
  | schema_2_18_0 => "schema_2_18_0" | schema_2_20_1 => "schema_2_20_1" | schema_2_20_2 => "schema_2_20_2"
  | schema_2_20_3 => "schema_2_20_3" | schema_2_21_0 => "schema_2_21_0" | schema_2_21_1 => "schema_2_21_1"
  | schema_2_21_2 => "schema_2_21_2" | schema_3_0_0 => "schema_3_0_0"

def Schema.ofName (s : String) : Option Schema := Schema.all.find? (fun x => x.name == s)

/-- Version triple per the public `to_string` table. -/
def Schema.version : Schema → Int × Int × Int
  | schema_1_6_0 => (1, 6, 0) | schema_1_7_1 => (1, 7, 1) | schema_1_9_1 => (1, 9, 1)
  | schema_1_11_1 => (1, 11, 1) | schema_1_13_0 => (1, 13, 0) | schema_1_13_1 => (1, 13, 1)
  | schema_1_13_2 => (1, 13, 2) | schema_1_15_0 => (1, 15, 0) | schema_1_17_0 => (1, 17, 0)
  | schema_1_18_0_desktop => (1, 18, 0) | schema_1_18_0_os => (1, 18, 0)
  | schema_2_18_0 => (2, 18, 0) | schema_2_20_1 => (2, 20, 1) | schema_2_20_2 => (2, 20, 2)
  | schema_2_20_3 => (2, 20, 3) | schema_2_21_0 => (2, 21, 0) | schema_2_21_1 => (2, 21, 1)
  | schema_2_21_2 => (2, 21, 2) | schema_3_0_0 => (3, 0, 0)

/-- The documented variant marker: `some true` = booleans declared NUMERIC (Desktop). -/
def Schema.marker : Schema → Option Bool
  | schema_1_18_0_desktop => some true
  | schema_1_18_0_os => some false
  | _ => none

inductive Detected where
  | schema (s : Schema)
  | unsupported
  deriving DecidableEq, Repr, Inhabited

/-- Spec: the schema whose version triple (and marker, where one is defined) matches. -/
def specDetect (a b c : Int) (numeric : Bool) : Detected :=
  match Schema.all.find? (fun s => decide (s.version = (a, b, c)) &&
      (s.marker == none || s.marker == some numeric)) with
  | some s => .schema s
  | none => .unsupported

inductive LoadOutcome where
  | loaded (s : Schema)
  | unsupported_database
  | database_not_found
  | database_inconsistency
  deriving DecidableEq, Repr, Inhabited

def LoadOutcome.render : LoadOutcome → String
  | .loaded s => "ok " ++ s.name
  | .unsupported_database => "throw unsupported_database"
  | .database_not_found => "throw database_not_found"
  | .database_inconsistency => "throw database_inconsistency"

/-- `load_database`: layout dispatch (engine.cpp, engine_library_dir_utils.cpp)
around a detection function. -/
def loadModel (detect : Int → Int → Int → Bool → Detected)
    (legacy db2 : Bool) (a b c : Int) (numeric : Bool) : LoadOutcome :=
  if !legacy && !db2 then .database_not_found
  else if legacy && db2 then .database_not_found
  else match detect a b c numeric with
    | .unsupported => .unsupported_database
    | .schema s =>
      if db2 then (if schema_2_18_0.ord ≤ s.ord then .loaded s else .database_inconsistency)
      else .loaded s

/-! ### whole-function view: stored 64-bit numbers, Information lookup, directory layout -/

/-- What `load_database` can throw (C13's alphabet). -/
inductive LoadErr where
  | database_not_found | unsupported_database | database_inconsistency
  deriving DecidableEq, Repr, Inhabited

def Detected.toExcept : Detected → Except LoadErr Schema
  | .schema s => .ok s
  | .unsupported => .error .unsupported_database

/-- `static_cast<int>(int64_t)`: value modulo 2^32 into [-2^31, 2^31). -/
def narrowI32 (v : Int) : Int := (v + 2147483648) % 4294967296 - 2147483648

/-- Everything `load_database(directory)` looks at: which paths exist, and — of the `m.db` that
gets opened — how many `Information` tables `sqlite_master` lists, the three stored version
numbers (64-bit integers) and the 1.18.0 variant marker. -/
structure World where
  dirExists : Bool
  legacy : Bool      -- <dir>/m.db
  pdb : Bool         -- <dir>/p.db
  db2 : Bool         -- <dir>/Database2/m.db
  tableCount : Int
  vMajor : Int
  vMinor : Int
  vPatch : Int
  numeric : Bool
  deriving Repr, DecidableEq

def LoadOutcome.ofExcept : Except LoadErr Schema → LoadOutcome
  | .ok s => .loaded s
  | .error .database_not_found => .database_not_found
  | .error .unsupported_database => .unsupported_database
  | .error .database_inconsistency => .database_inconsistency

/-- `to_string(engine_schema)` as the public header prints it. -/
def Schema.versionString (s : Schema) : String :=
  let v := s.version
  s!"{v.1}.{v.2.1}.{v.2.2}" ++
    (match s.marker with | some true => " (Desktop)" | some false => " (OS)" | none => "")

/-- Spec of loading a directory, written from the property text:
no directory / no database / both layouts → `database_not_found`; otherwise the schema is
selected solely from the stored triple and the marker (`specDetect`), every other triple is
`unsupported_database`.  Three refusals that the text does not spell out are part of the Spec
and documented in design/C13.md: a legacy library without its `p.db`, an `m.db` without exactly
one `Information` table, and a Database2 directory stamped with a 1.x version are all reported
as `database_inconsistency` (no schema is *mis*identified: none is returned). -/
def specLoad (w : World) : LoadOutcome :=
  if !w.dirExists then .database_not_found
  else if !w.legacy && !w.db2 then .database_not_found
  else if w.legacy && w.db2 then .database_not_found
  else if w.legacy && !w.pdb then .database_inconsistency
  else if w.tableCount ≠ 1 then .database_inconsistency
  else match specDetect w.vMajor w.vMinor w.vPatch w.numeric with
    | .unsupported => .unsupported_database
    | .schema s =>
      if w.db2 && s.version.1 < 2 then .database_inconsistency else .loaded s

/-- `create_or_load_database`: creates exactly when loading reports "not found". -/
def createOrLoad (load : LoadOutcome) (requested : Schema) : Bool × LoadOutcome :=
  match load with
  | .database_not_found => (true, .loaded requested)
  | o => (false, o)

end EngineModel.Pure.Detect
