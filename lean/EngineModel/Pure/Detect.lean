/-
Schema identification: the Spec table (from the public header
include/djinterop/engine/engine_schema.hpp: enumerator ↔ version string, the
two 1.18.0 variants told apart by the `isExternalTrack NUMERIC` marker) and
the directory-layout dispatch of `load_database`.
-/
namespace EngineModel.Pure.Detect

inductive Schema where
  | schema_1_6_0 | schema_1_7_1 | schema_1_9_1 | schema_1_11_1 | schema_1_13_0
  | schema_1_13_1 | schema_1_13_2 | schema_1_15_0 | schema_1_17_0
  | schema_1_18_0_desktop | schema_1_18_0_os
  | schema_2_18_0 | schema_2_20_1 | schema_2_20_2 | schema_2_20_3
  | schema_2_21_0 | schema_2_21_1 | schema_2_21_2 | schema_3_0_0
  deriving DecidableEq, Repr, Inhabited

open Schema

def Schema.all : List Schema :=
  [schema_1_6_0, schema_1_7_1, schema_1_9_1, schema_1_11_1, schema_1_13_0, schema_1_13_1,
   schema_1_13_2, schema_1_15_0, schema_1_17_0, schema_1_18_0_desktop, schema_1_18_0_os,
   schema_2_18_0, schema_2_20_1, schema_2_20_2, schema_2_20_3, schema_2_21_0, schema_2_21_1,
   schema_2_21_2, schema_3_0_0]

/-- Enumerator order (`operator>=` on `engine_schema`). -/
def Schema.ord : Schema → Nat
  | schema_1_6_0 => 0 | schema_1_7_1 => 1 | schema_1_9_1 => 2 | schema_1_11_1 => 3
  | schema_1_13_0 => 4 | schema_1_13_1 => 5 | schema_1_13_2 => 6 | schema_1_15_0 => 7
  | schema_1_17_0 => 8 | schema_1_18_0_desktop => 9 | schema_1_18_0_os => 10
  | schema_2_18_0 => 11 | schema_2_20_1 => 12 | schema_2_20_2 => 13 | schema_2_20_3 => 14
  | schema_2_21_0 => 15 | schema_2_21_1 => 16 | schema_2_21_2 => 17 | schema_3_0_0 => 18

def Schema.name : Schema → String
  | schema_1_6_0 => "schema_1_6_0" | schema_1_7_1 => "schema_1_7_1" | schema_1_9_1 => "schema_1_9_1"
  | schema_1_11_1 => "schema_1_11_1" | schema_1_13_0 => "schema_1_13_0" | schema_1_13_1 => "schema_1_13_1"
  | schema_1_13_2 => "schema_1_13_2" | schema_1_15_0 => "schema_1_15_0" | schema_1_17_0 => "schema_1_17_0"
  | schema_1_18_0_desktop => "schema_1_18_0_desktop" | schema_1_18_0_os => "schema_1_18_0_os"
  | schema_2_18_0 => "schema_2_18_0" | schema_2_20_1 => "schema_2_20_1" | schema_2_20_2 => "schema_2_20_2"
  | schema_2_20_3 => "schema_2_20_3" | schema_2_21_0 => "schema_2_21_0" | schema_2_21_1 => "schema_2_21_1"
  | schema_2_21_2 => "schema_2_21_2" | schema_3_0_0 => "schema_3_0_0"

def Schema.ofName (s : String) : Option Schema := Schema.all.find? (fun x => x.name == s)

/-- Version triple per the public `to_string` table. -/
def Schema.version : Schema → Int × Int × Int
  | schema_1_6_0 => (1, 6, 0) | schema_1_7_1 => (1, 7, 1) | schema_1_9_1 => (1, 9, 1)
  | schema_1_11_1 => (1, 11, 1) | schema_1_13_0 => (1, 13, 0) | schema_1_13_1 => (1, 13, 1)
  | schema_1_13_2 => (1, 13, 2) | schema_1_15_0 => (1, 15, 0) | schema_1_17_0 => (1, 17, 0)
  | schema_1_18_0_desktop => (1, 18, 0) | schema_1_18_0_os => (1, 18, 0)
  | schema_2_18_0 => (2, 18, 0) | schema_2_20_1 => (2, 20, 1) | schema_2_20_2 => (2, 20, 2)
  | schema_2_20_3 => (2, 20, 3) | schema_2_21_0 => (2, 21, 0) | schema_2_21_1 => (2, 21, 1)
  | schema_2_21_2 => (2, 21, 2) | schema_3_0_0 => (3, 0, 0)

/-- The documented variant marker: `some true` = booleans declared NUMERIC (Desktop). -/
def Schema.marker : Schema → Option Bool
  | schema_1_18_0_desktop => some true
  | schema_1_18_0_os => some false
  | _ => none

inductive Detected where
  | schema (s : Schema)
  | unsupported
  deriving DecidableEq, Repr, Inhabited

/-- Spec: the schema whose version triple (and marker, where one is defined) matches. -/
def specDetect (a b c : Int) (numeric : Bool) : Detected :=
  match Schema.all.find? (fun s => decide (s.version = (a, b, c)) &&
      (s.marker == none || s.marker == some numeric)) with
  | some s => .schema s
  | none => .unsupported

inductive LoadOutcome where
  | loaded (s : Schema)
  | unsupported_database
  | database_not_found
  | database_inconsistency
  deriving DecidableEq, Repr, Inhabited

def LoadOutcome.render : LoadOutcome → String
  | .loaded s => "ok " ++ s.name
  | .unsupported_database => "throw unsupported_database"
  | .database_not_found => "throw database_not_found"
  | .database_inconsistency => "throw database_inconsistency"

/-- `load_database`: layout dispatch (engine.cpp, engine_library_dir_utils.cpp)
around a detection function. -/
def loadModel (detect : Int → Int → Int → Bool → Detected)
    (legacy db2 : Bool) (a b c : Int) (numeric : Bool) : LoadOutcome :=
  if !legacy && !db2 then .database_not_found
  else if legacy && db2 then .database_not_found
  else match detect a b c numeric with
    | .unsupported => .unsupported_database
    | .schema s =>
      if db2 then (if schema_2_18_0.ord ≤ s.ord then .loaded s else .database_inconsistency)
      else .loaded s

/-- `create_or_load_database`: creates exactly when loading reports "not found". -/
def createOrLoad (load : LoadOutcome) (requested : Schema) : Bool × LoadOutcome :=
  match load with
  | .database_not_found => (true, .loaded requested)
  | o => (false, o)

end EngineModel.Pure.Detect
