/-
Model of `normalize_beatgrid` (src/djinterop/engine/engine.cpp), generic over
the arithmetic of sample offsets: the driver instantiates `Num` with hardware
`Float` (bit-exact tie with the C++), the proofs with `ℚ` (Properties/C20).
Beat indices are `int` fields (`In32` is their type invariant); the C++ does
its index arithmetic at 64 bits (since the `fix:` that removed the `int`
overflows) — every such operation is a checked `chk64` here (`ub
signed_overflow` if it left `int64_t`; `C20_defined` proves it never does).
`Num.ceil32 x` is the range test `c >= -2^31 && c <= 2^31-1` on
`c = std::ceil(x)` followed by `static_cast<int32_t>(c)`: `none` = the test
failed (NaN or out of range), which the C++ rejects with invalid_argument.

`window` is the Spec of trimming, written from the property text ("the part of
the grid that overlaps the track"), independent of `trim`'s index arithmetic.
-/
import EngineModel.Basic.Res

namespace EngineModel.Pure.Beatgrid

structure Num (α : Type) where
  ofInt : Int → α
  add : α → α → α
  sub : α → α → α
  mul : α → α → α
  div : α → α → α
  /-- `a < b` -/
  lt : α → α → Bool
  /-- `a <= b` -/
  le : α → α → Bool
  /-- `static_cast<int32_t>(std::ceil(x))`; `none` when not representable. -/
  ceil32 : α → Option Int

structure Marker (α : Type) where
  index : Int
  off : α
  deriving Repr, DecidableEq

/-- `x` fits `int32_t` (the type of `beatgrid_marker::index`). -/
def In32 (x : Int) : Prop := -2147483648 ≤ x ∧ x ≤ 2147483647

instance (x : Int) : Decidable (In32 x) := by unfold In32; infer_instance

/-- Checked `int64_t` arithmetic. -/
def chk64 (x : Int) : Res Int :=
  if -9223372036854775808 ≤ x ∧ x ≤ 9223372036854775807 then .ok x else .ub .signed_overflow

/-- What `ceil32` promises by construction (range test before the cast). -/
def Num.Ceil32Ok {α : Type} (num : Num α) : Prop := ∀ x c, num.ceil32 x = some c → In32 c

variable {α : Type}

/-- Keep everything up to and including the first marker at or beyond the end. -/
def trimEnd (num : Num α) (g : List (Marker α)) (n : Int) : List (Marker α) :=
  match g.findIdx? (fun m => num.le (num.ofInt n) m.off) with
  | some i => g.take (i + 1)
  | none => g

/-- Drop the markers before the last one that is not after sample 0. -/
def trimStart (num : Num α) (g : List (Marker α)) : List (Marker α) :=
  let j := g.findIdx (fun m => num.lt (num.ofInt 0) m.off)
  if j = 0 then g else g.drop (j - 1)

def trim (num : Num α) (g : List (Marker α)) (n : Int) : List (Marker α) :=
  trimStart num (trimEnd num g n)

/-- Move the first marker along the first segment to beat index −4. -/
def fixFirst (num : Num α) : List (Marker α) → Res (List (Marker α))
  | m0 :: m1 :: rest => do
    let di ← chk64 (m1.index - m0.index)
    let spb := num.div (num.sub m1.off m0.off) (num.ofInt di)
    let k ← chk64 (4 + m0.index)
    pure (⟨-4, num.sub m0.off (num.mul (num.ofInt k) spb)⟩ :: m1 :: rest)
  | g => .ok g

/-- Move the last marker along the last segment to the first beat at or beyond the end. -/
def fixLast (num : Num α) (g : List (Marker α)) (n : Int) : Res (List (Marker α)) :=
  match g.reverse with
  | ml :: mp :: revRest => do
    let di ← chk64 (ml.index - mp.index)
    let spb := num.div (num.sub ml.off mp.off) (num.ofInt di)
    match num.ceil32 (num.div (num.sub (num.ofInt n) ml.off) spb) with
    | none => .throw .invalid_argument  -- beats to the end: NaN or not an `int32_t`
    | some adj => do
      let il ← chk64 (ml.index + adj)
      -- the track ends at or before the previous marker's beat: misplaced grid
      if il ≤ mp.index then .throw .invalid_argument else
      -- the new last index does not fit the index type
      if 2147483647 < il then .throw .invalid_argument else
      pure ((⟨il, num.add ml.off (num.mul (num.ofInt adj) spb)⟩ :: mp :: revRest).reverse)
  | _ => .ok g

def normalize (num : Num α) (g : List (Marker α)) (n : Int) : Res (List (Marker α)) :=
  if g.isEmpty then .ok [] else
  let t := trim num g n
  match t with
  | _ :: m1 :: _ =>
    if m1.index ≤ -4 then .throw .invalid_argument else do
      let f ← fixFirst num t
      fixLast num f n
  | _ => .throw .invalid_argument

/-! ### Spec of trimming (from the property text) -/

/-- `m` is kept unless a later marker is still at or before sample 0 (then `m` lies wholly
before the track start with another marker between it and the start) or an earlier marker
is already at or beyond the end `n`.  "Later"/"earlier" are read off the sample offsets
(the grid is strictly increasing).  So the window is: the last marker at or before sample 0
(or the first marker, if none is), every marker strictly inside the track, and the first
marker at or beyond the end (or the last marker, if none is). -/
def inWindow (num : Num α) (g : List (Marker α)) (n : Int) (m : Marker α) : Bool :=
  g.all (fun x => !num.lt m.off x.off || num.lt (num.ofInt 0) x.off) &&
  g.all (fun x => !num.lt x.off m.off || !num.le (num.ofInt n) x.off)

def window (num : Num α) (g : List (Marker α)) (n : Int) : List (Marker α) :=
  g.filter (inWindow num g n)

end EngineModel.Pure.Beatgrid
