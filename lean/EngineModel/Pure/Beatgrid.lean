/-
Model of `normalize_beatgrid` (src/djinterop/engine/engine.cpp), generic over
the arithmetic of sample offsets: the driver instantiates `Num` with hardware
`Float` (bit-exact tie with the C++), the proofs with `ℚ` (Properties/C20).
Every `int` operation of the C++ is checked (`ub signed_overflow`), the
`static_cast<int32_t>(std::ceil(x))` is `Num.ceil32` (`none` = out of range or
NaN = `ub float_cast_range`).
-/
import EngineModel.Basic.Res

namespace EngineModel.Pure.Beatgrid

structure Num (α : Type) where
  ofInt : Int → α
  add : α → α → α
  sub : α → α → α
  mul : α → α → α
  div : α → α → α
  /-- `a < b` -/
  lt : α → α → Bool
  /-- `a <= b` -/
  le : α → α → Bool
  /-- `static_cast<int32_t>(std::ceil(x))`; `none` when not representable. -/
  ceil32 : α → Option Int

structure Marker (α : Type) where
  index : Int
  off : α
  deriving Repr

def chk32 (x : Int) : Res Int :=
  if -2147483648 ≤ x ∧ x ≤ 2147483647 then .ok x else .ub .signed_overflow

variable {α : Type}

/-- Keep everything up to and including the first marker at or beyond the end. -/
def trimEnd (num : Num α) (g : List (Marker α)) (n : Int) : List (Marker α) :=
  match g.findIdx? (fun m => num.le (num.ofInt n) m.off) with
  | some i => g.take (i + 1)
  | none => g

/-- Drop the markers before the last one that is not after sample 0. -/
def trimStart (num : Num α) (g : List (Marker α)) : List (Marker α) :=
  let j := g.findIdx (fun m => num.lt (num.ofInt 0) m.off)
  if j = 0 then g else g.drop (j - 1)

def trim (num : Num α) (g : List (Marker α)) (n : Int) : List (Marker α) :=
  trimStart num (trimEnd num g n)

/-- Move the first marker along the first segment to beat index −4. -/
def fixFirst (num : Num α) : List (Marker α) → Res (List (Marker α))
  | m0 :: m1 :: rest => do
    let di ← chk32 (m1.index - m0.index)
    let spb := num.div (num.sub m1.off m0.off) (num.ofInt di)
    let k ← chk32 (4 + m0.index)
    pure (⟨-4, num.sub m0.off (num.mul (num.ofInt k) spb)⟩ :: m1 :: rest)
  | g => .ok g

/-- Move the last marker along the last segment to the first beat at or beyond the end. -/
def fixLast (num : Num α) (g : List (Marker α)) (n : Int) : Res (List (Marker α)) :=
  match g.reverse with
  | ml :: mp :: revRest => do
    let di ← chk32 (ml.index - mp.index)
    let spb := num.div (num.sub ml.off mp.off) (num.ofInt di)
    match num.ceil32 (num.div (num.sub (num.ofInt n) ml.off) spb) with
    | none => .ub .float_cast_range
    | some adj =>
      -- the track ends at or before the previous marker's beat: misplaced grid
      if ml.index + adj ≤ mp.index then .throw .invalid_argument else do
      let il ← chk32 (ml.index + adj)
      pure ((⟨il, num.add ml.off (num.mul (num.ofInt adj) spb)⟩ :: mp :: revRest).reverse)
  | _ => .ok g

def normalize (num : Num α) (g : List (Marker α)) (n : Int) : Res (List (Marker α)) :=
  if g.isEmpty then .ok [] else
  let t := trim num g n
  match t with
  | _ :: m1 :: _ =>
    if m1.index ≤ -4 then .throw .invalid_argument else do
      let f ← fixFirst num t
      fixLast num f n
  | _ => .throw .invalid_argument

end EngineModel.Pure.Beatgrid
