/-
The exact-rational instance of the beat-grid model: the arithmetic of
`normalize_beatgrid` carried out without rounding (Lean core `Rat`).  It is
executable (the driver runs it in the Float-vs-ℚ comparison stream of C20) and
it is the instance the C20 theorems are stated for.
-/
import EngineModel.Pure.Beatgrid

namespace EngineModel.Pure.Beatgrid

/-- Exact rational arithmetic; `ceil32` is the integer ceiling when it fits `int32_t`. -/
def ratNum : Num Rat where
  ofInt i := (i : Rat)
  add a b := a + b
  sub a b := a - b
  mul a b := a * b
  div a b := a / b
  lt a b := decide (a < b)
  le a b := decide (a ≤ b)
  ceil32 x := if In32 x.ceil then some x.ceil else none

theorem ratNum_ceil32Ok : ratNum.Ceil32Ok := by
  intro x c h
  simp only [ratNum] at h
  split at h
  · cases h; assumption
  · cases h

end EngineModel.Pure.Beatgrid
