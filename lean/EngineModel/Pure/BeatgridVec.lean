/-
Vocabulary of the translator tools/tr_beatgrid.py (hand-written, Mathlib-free):
what `std::vector<beatgrid_marker>`, its iterators and the C++ integer
conversions of `normalize_beatgrid` mean on `List (Marker α)`.  Every row of the
mapping table in design/C20_gen.md names one definition of this file.

An iterator is its distance from `begin()` (a `Nat`); the translator refuses to
use an iterator after the vector it came from was modified.  Every operation
whose C++ counterpart has a precondition is *checked* and answers `ub …` when
the precondition fails (iterator arithmetic outside `[begin, end]`, `erase` of
an invalid range, `operator[]` / `front()` / `back()` outside the vector —
the last three abort under `_GLIBCXX_ASSERTIONS`), so a proof that the
regenerated function equals the hand model has to *derive* that the guards of
the source make them succeed; nothing is totalised (`getD`, truncating `-`).
-/
import EngineModel.Pure.Beatgrid
import EngineModel.Pure.Cxx

namespace EngineModel.Pure.Beatgrid
namespace Vec

variable {α : Type}

/-- `v.begin()` -/
def ibegin (_v : List (Marker α)) : Nat := 0
/-- `v.end()` -/
def iend (v : List (Marker α)) : Nat := v.length

/-- `std::find_if(v.begin(), v.end(), p)`: the first position where `p` holds, `v.end()` if none. -/
def findIf (v : List (Marker α)) (p : Marker α → Bool) : Nat := v.findIdx p

/-- `it + k` on a random-access iterator of `v`; defined inside `[begin, end]` only. -/
def iterAdd (v : List (Marker α)) (it : Nat) (k : Int) : Res Nat :=
  if 0 ≤ (it : Int) + k ∧ (it : Int) + k ≤ (v.length : Int) then .ok ((it : Int) + k).toNat
  else .ub .oob_index

/-- `it - k`. -/
def iterSub (v : List (Marker α)) (it : Nat) (k : Int) : Res Nat := iterAdd v it (-k)

/-- `v.erase(first, last)`: requires `begin ≤ first ≤ last ≤ end`. -/
def erase (v : List (Marker α)) (first last : Nat) : Res (List (Marker α)) :=
  if first ≤ last ∧ last ≤ v.length then .ok (v.take first ++ v.drop last) else .ub .oob_index

/-- `v[i]` read (`i` a `size_t`); aborts outside the vector (`_GLIBCXX_ASSERTIONS`). -/
def get (v : List (Marker α)) (i : Nat) : Res (Marker α) :=
  match v[i]? with
  | some m => .ok m
  | none => .ub .oob_index

/-- `v[i].sample_offset = x` -/
def setOff (v : List (Marker α)) (i : Nat) (x : α) : Res (List (Marker α)) :=
  match v[i]? with
  | some m => .ok (v.set i { m with off := x })
  | none => .ub .oob_index

/-- `v[i].index = x` (`x` already an `int` value) -/
def setIndex (v : List (Marker α)) (i : Nat) (x : Int) : Res (List (Marker α)) :=
  match v[i]? with
  | some m => .ok (v.set i { m with index := x })
  | none => .ub .oob_index

/-- Position of `v.front()`; `front()` on an empty vector aborts. -/
def frontPos (v : List (Marker α)) : Res Nat := if v.isEmpty then .ub .oob_index else .ok 0
/-- Position of `v.back()`. -/
def backPos (v : List (Marker α)) : Res Nat := if v.isEmpty then .ub .oob_index else .ok (v.length - 1)

/-- Checked `int` arithmetic (`ub signed_overflow` outside `int32_t`). -/
def chk32 (x : Int) : Res Int :=
  if -2147483648 ≤ x ∧ x ≤ 2147483647 then .ok x else .ub .signed_overflow

/-- Integral conversion to `int32_t` (modular: implementation-defined before C++20, what gcc and
clang do; never undefined). -/
def wrapI32 (x : Int) : Int := (x + 2147483648) % 4294967296 - 2147483648

/-- `a || b` where evaluating `b` can be undefined: `b` is evaluated only when `a` is false. -/
def orElse (a : Bool) (b : Res Bool) : Res Bool := if a then .ok true else b
/-- `a && b`, same. -/
def andAlso (a : Bool) (b : Res Bool) : Res Bool := if a then b else .ok false

/-- A `double → double` library function the arithmetic class `Num` has no counterpart for
(`std::floor`, `std::round`, `std::trunc`, …).  The translator still emits the call, so that the
regenerated function reflects the source, but nothing can be proved about it (the constant is
opaque): the equality with the hand model then fails, as it must.  Executed as the identity. -/
opaque outside (name : String) (x : α) : α := x

end Vec
end EngineModel.Pure.Beatgrid
