/-
Vocabulary of the translator `tools/tr_convert_v2.py` (src/djinterop/engine/v2/convert_*.hpp →
`Gen/ConvertV2Gen.lean`): what the C++ operations the conversions use mean on the representations
of `TracksV2/Types.lean` (integers and doubles as bit patterns, strings as byte lists, vectors as
lists, `std::optional` as `Option`).  Hand-written, Mathlib-free, executable.  Every operation whose
C++ counterpart has a precondition is *checked* (`ub …` when it fails): dereferencing a disengaged
optional, signed overflow, division by zero, an out-of-range `double → int64_t` conversion.  Nothing
here mentions the hand model's conversion functions (`writeRating`, `readDuration`, …): the equalities
with them are theorems (`Proofs/ConvertV2GenEq.lean`), not definitions.  The only definitions shared
with the hand model are the primitive readings of bit patterns (`Prim.s32`, `Prim.s64`,
`Prim.u64OfInt`, `Prim.u32OfInt`, `F64.eq/ne/lt/le`) and `TracksV2.toI64`, the exact truncation of a
double (self-tested against the hardware by the driver command `t2.toi64` on every run).
-/
import EngineModel.TracksV2.Model

namespace EngineModel
namespace Cv

open Prim TracksV2

/-! ### literals -/
/-- an `int` / `int32_t` constant -/
def i32 (v : Int) : UInt32 := u32OfInt v
/-- an `int64_t` / `long` constant -/
def i64 (v : Int) : UInt64 := u64OfInt v
/-- an `unsigned long long` constant -/
def u64 (v : Int) : UInt64 := u64OfInt v
/-- a `uint8_t` constant -/
def u8 (v : Int) : UInt8 := UInt8.ofNat (v % 256).toNat

/-! ### integral conversions ([conv.integral]: value modulo 2^N) -/
/-- `int → int64_t` (sign extension) -/
def i32ToI64 (x : UInt32) : UInt64 := u64OfInt (s32 x)
/-- `int64_t → int` (modular) -/
def i64ToI32 (x : UInt64) : UInt32 := u32OfInt (s64 x)
/-- `int64_t → unsigned long long` and back: the same 64 bits -/
def i64ToU64 (x : UInt64) : UInt64 := x
def u64ToI64 (x : UInt64) : UInt64 := x
/-- `int → unsigned long long` -/
def i32ToU64 (x : UInt32) : UInt64 := u64OfInt (s32 x)
/-- `int → uint8_t` (modular) -/
def i32ToU8 (x : UInt32) : UInt8 := UInt8.ofNat (x.toNat % 256)
/-- `uint8_t → bool` (IntegralToBoolean) -/
def u8ToBool (x : UInt8) : Bool := x != 0

/-- `static_cast<int64_t>(double)`: undefined unless the truncated value is representable. -/
def f64ToI64 (x : F) : Res UInt64 :=
  match toI64 x with
  | none => .ub .float_cast_range
  | some v => .ok (u64OfInt v)

/-! ### signed comparisons and arithmetic on bit patterns -/
namespace I64
def eq (a b : UInt64) : Bool := decide (s64 a = s64 b)
def ne (a b : UInt64) : Bool := decide (s64 a ≠ s64 b)
def lt (a b : UInt64) : Bool := decide (s64 a < s64 b)
def le (a b : UInt64) : Bool := decide (s64 a ≤ s64 b)
def chk (v : Int) : Res UInt64 :=
  if v < -9223372036854775808 ∨ 9223372036854775807 < v then .ub .signed_overflow else .ok (u64OfInt v)
def add (a b : UInt64) : Res UInt64 := chk (s64 a + s64 b)
def sub (a b : UInt64) : Res UInt64 := chk (s64 a - s64 b)
def mul (a b : UInt64) : Res UInt64 := chk (s64 a * s64 b)
/-- C++ `/`: truncation toward zero; `x / 0` and `INT64_MIN / -1` are undefined. -/
def div (a b : UInt64) : Res UInt64 := if s64 b = 0 then .ub .div_zero else chk (Int.tdiv (s64 a) (s64 b))
end I64

namespace I32
def eq (a b : UInt32) : Bool := decide (s32 a = s32 b)
def ne (a b : UInt32) : Bool := decide (s32 a ≠ s32 b)
def lt (a b : UInt32) : Bool := decide (s32 a < s32 b)
def le (a b : UInt32) : Bool := decide (s32 a ≤ s32 b)
/-- `std::clamp(v, lo, hi)` = `(v < lo) ? lo : (hi < v) ? hi : v` (the translator only emits it for
constant bounds with `lo ≤ hi`, the precondition of `std::clamp`). -/
def clamp (v lo hi : UInt32) : UInt32 := if lt v lo then lo else if lt hi v then hi else v
end I32

namespace U64
def eq (a b : UInt64) : Bool := a == b
def ne (a b : UInt64) : Bool := a != b
def lt (a b : UInt64) : Bool := decide (a.toNat < b.toNat)
def le (a b : UInt64) : Bool := decide (a.toNat ≤ b.toNat)
end U64

/-! ### std::optional -/
/-- `*opt` / `opt->` (libstdc++ asserts `_M_is_engaged()`). -/
def deref {α} (o : Option α) : Res α :=
  match o with
  | none => .ub .empty_optional
  | some v => .ok v

/-- `opt.value()` -/
def value {α} (o : Option α) : Res α :=
  match o with
  | none => .throw .bad_optional_access
  | some v => .ok v

/-! ### short-circuit operators whose right operand has effects (a possible `ub`) -/
def andAlso (a : Bool) (b : Res Bool) : Res Bool := if a then b else .ok false
def orElse (a : Bool) (b : Res Bool) : Res Bool := if a then .ok true else b

/-! ### std::vector -/
/-- `for (auto&& c : xs) acc.push_back(f(c));` -/
def forPush {α β} (f : α → Res β) : List β → List α → Res (List β)
  | acc, [] => .ok acc
  | acc, c :: r => (f c).bind fun y => forPush f (acc ++ [y]) r

/-- `while (v.size() < n) v.push_back(e);` — `e` is evaluated once per iteration (it may be a call);
`fuel` bounds the iterations (each one makes `n - v.size()` smaller, so `n - v.size()` suffice). -/
def whilePushFuel {α} (n : Nat) (e : Res α) : Nat → List α → Res (List α)
  | 0, v => .ok v
  | fuel + 1, v => if v.length < n then e.bind fun x => whilePushFuel n e fuel (v ++ [x]) else .ok v

def whilePush {α} (n : Nat) (e : Res α) (v : List α) : Res (List α) := whilePushFuel n e (n - v.length) v

/-- `for (it = begin(xs); it != end(xs); ++it) { …s… }` with one local `s` carried through the iterations -/
def forFold {σ α} (f : σ → α → Res σ) : σ → List α → Res σ
  | s, [] => .ok s
  | s, x :: r => (f s x).bind fun s' => forFold f s' r

/-- `v.back()` (libstdc++ asserts `!empty()`) -/
def back {α} (v : List α) : Res α :=
  match v.getLast? with
  | none => .ub .oob_index
  | some x => .ok x

/-- a write through the reference `v.back()` returned -/
def setBack {α} (v : List α) (x : α) : List α := v.dropLast ++ [x]

/-! ### structures the conversions build that `Format/V2.lean` keeps as pairs -/
/-- `loops_blob` (the vector and the trailing `extra_data`) -/
structure LoopsBlob where
  loops : List V2.Loop
  extra : Bytes
  deriving Repr, DecidableEq, Inhabited

end Cv
end EngineModel
