/-
C++ integer semantics used by generated code: signed arithmetic is *checked*
(`none` = undefined behaviour: overflow, division by zero), unsigned 64-bit
arithmetic wraps, conversions follow [conv.integral].  Doubles are abstract:
`FloatOps F` lists the floating-point operations the code performs; theorems
quantify over it, the driver instantiates it with hardware `Float`.
-/
namespace EngineModel
namespace Cxx

def two64 : Nat := 18446744073709551616
def i64Min : Int := -9223372036854775808
def i64Max : Int := 9223372036854775807
def i32Min : Int := -2147483648
def i32Max : Int := 2147483647

structure FloatOps (F : Type) where
  /-- `static_cast<int64_t>(double)`: truncation; `none` when NaN or out of range (UB). -/
  toI64 : F → Option Int
  /-- `static_cast<double>(int64_t)` / implicit IntegralToFloating from a signed type. -/
  ofI64 : Int → F
  /-- IntegralToFloating from `unsigned long long`. -/
  ofU64 : Nat → F
  div : F → F → F

def inI64 (x : Int) : Bool := decide (i64Min ≤ x ∧ x ≤ i64Max)
def inI32 (x : Int) : Bool := decide (i32Min ≤ x ∧ x ≤ i32Max)
def chk64 (x : Int) : Option Int := if inI64 x then some x else none
def chk32 (x : Int) : Option Int := if inI32 x then some x else none

namespace I64
def add (a b : Int) : Option Int := chk64 (a + b)
def sub (a b : Int) : Option Int := chk64 (a - b)
def mul (a b : Int) : Option Int := chk64 (a * b)
/-- C++ `/` truncates toward zero. -/
def div (a b : Int) : Option Int := if b = 0 then none else chk64 (Int.tdiv a b)
end I64

namespace I32
def add (a b : Int) : Option Int := chk32 (a + b)
def sub (a b : Int) : Option Int := chk32 (a - b)
def mul (a b : Int) : Option Int := chk32 (a * b)
def div (a b : Int) : Option Int := if b = 0 then none else chk32 (Int.tdiv a b)
end I32

namespace U64
def add (a b : Nat) : Nat := (a + b) % two64
def sub (a b : Nat) : Nat := (a + two64 - b % two64) % two64
def mul (a b : Nat) : Nat := (a * b) % two64
def div (a b : Nat) : Option Nat := if b = 0 then none else some (a / b)
def mod (a b : Nat) : Option Nat := if b = 0 then none else some (a % b)
end U64

/-- signed → `unsigned long long` (value modulo 2^64). -/
def u64OfInt (i : Int) : Nat := (i % (two64 : Int)).toNat
/-- `unsigned long long` → `int64_t` (modular, C++20 / every supported ABI). -/
def i64OfU64 (n : Nat) : Int := if n % two64 < 9223372036854775808 then ((n % two64 : Nat) : Int) else ((n % two64 : Nat) : Int) - two64

end Cxx
end EngineModel
