/-
The hardware-`Float` instance of the beat-grid model — the one the driver runs
against the C++ bit for bit.  No law of floating-point arithmetic is available
in Lean (`Float` is opaque), so only the law-free theorems of C20 apply to it
(`C20_float_*`); `ceil32` makes its own contract (`Ceil32Ok`) hold by
construction: the final `In32` test repeats the range test of the C++ on the
converted integer (it never fails on real hardware).
-/
import EngineModel.Pure.Beatgrid

namespace EngineModel.Pure.Beatgrid

def floatNum : Num Float where
  ofInt i := (Int64.ofInt i).toFloat
  add a b := a + b
  sub a b := a - b
  mul a b := a * b
  div a b := a / b
  lt a b := a < b
  le a b := a ≤ b
  ceil32 x :=
    let c := x.ceil
    -- `!(c >= -2147483648.0 && c <= 2147483647.0)` (true for NaN)
    if c.isNaN ∨ c > 2147483647.0 ∨ c < -2147483648.0 then none else
    let v := c.toInt64.toInt
    if In32 v then some v else none

theorem floatNum_ceil32Ok : floatNum.Ceil32Ok := by
  intro x c h
  simp only [floatNum] at h
  split at h
  · cases h
  · split at h
    · cases h; assumption
    · cases h

end EngineModel.Pure.Beatgrid
