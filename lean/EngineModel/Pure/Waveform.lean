/-
Hand model of the recommended waveform extents (track_utils.hpp) over the
naturals: `r` is the sample rate truncated to an integer, `n` the sample count.
-/
namespace EngineModel.Pure.Waveform

/-- Quantisation number: rate / 105 rounded down to a multiple of two. -/
def qn (r : Nat) : Nat := (r / 210) * 2

/-- Number of entries of the recommended high-resolution waveform. -/
def hiSize (n r : Nat) : Nat := if n = 0 ∨ qn r = 0 then 0 else (n + qn r - 1) / qn r

/-- Samples per entry of the high-resolution waveform (as an integer). -/
def hiSpan (n r : Nat) : Nat := if n = 0 ∨ qn r = 0 then 0 else qn r

/-- Number of entries of the overview waveform. -/
def ovSize (n r : Nat) : Nat := if n = 0 ∨ qn r = 0 then 0 else 1024

/-- Sample count rounded down to the quantisation number (the overview spans this). -/
def ovRounded (n r : Nat) : Nat := if n = 0 ∨ qn r = 0 then 0 else (n / qn r) * qn r

end EngineModel.Pure.Waveform
