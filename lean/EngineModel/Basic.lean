def hello := "world"
