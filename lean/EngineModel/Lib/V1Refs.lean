/-
The schema-1.x whole-library model (`Lib/V1.lean`) EXTENDED by the rows of the four other tables that carry a foreign
key to Track and that `database::remove_track` deletes explicitly (foreign keys are not enforced on the connection):

    PlaylistTrackList, HistorylistTrackList, PreparelistTrackList   (from 1.9.1: views over ListTrackList, listType 1/2/3)
    CopiedTrack

No public call of the library INSERTS into these tables — Engine DJ does (a track put on a playlist / played in a
session / put on the prepare list / copied from another library), and `load_database` is public, so the rows are part
of the libraries the property speaks about.  `CallR` is the library's call alphabet plus ONE environment step
`plantRefs t` = "Engine writes one row naming track `t` in each of the four tables" (harness: `lib1.plantrefs`, through
the raw connection).  `stepR` runs the library calls through `Lib.V1.step` unchanged and adds exactly what
engine_database_impl.cpp (`remove_track`) does to these rows:

    DELETE FROM PlaylistTrackList WHERE trackId = ?      DELETE FROM HistorylistTrackList WHERE trackId = ?
    DELETE FROM PreparelistTrackList WHERE trackId = ?   DELETE FROM CopiedTrack WHERE trackId = ?

`stepRWith keeps` is the family of VARIANTS in which the DELETE of every table `k` with `keeps k = true` is missing
(`stepR = stepRWith (fun _ => false)` is the code); `Properties/C11Lib1Refs.lean` proves the invariant for `stepR` and
refutes it for each of the four single-table variants.
-/
import EngineModel.Lib.V1

namespace EngineModel.Lib.V1
open EngineModel.Api
open EngineModel.TracksV1.Fl (FOps)

/-- The four tables (besides the crate tables, MetaData, MetaDataInteger) with a foreign key to Track. -/
inductive RefTable where
  | playlist | historylist | preparelist | copied
  deriving DecidableEq, Repr, Inhabited

/-- The code `lib1.dump` prints for the table (the `OT` section). -/
def RefTable.code : RefTable → Int
  | .playlist => 1 | .historylist => 2 | .preparelist => 3 | .copied => 5

def RefTable.name : RefTable → String
  | .playlist => "PlaylistTrackList" | .historylist => "HistorylistTrackList"
  | .preparelist => "PreparelistTrackList" | .copied => "CopiedTrack"

def RefTable.all : List RefTable := [.playlist, .historylist, .preparelist, .copied]

/-- The library + the rows of the four tables: one `(table, trackId)` per row. -/
structure Lib1R where
  lib : Lib1
  refs : List (RefTable × Id)
  deriving Repr

def Lib1R.empty (s : VSchema) (uuidM uuidP dir : Bytes) : Lib1R := ⟨Lib1.empty s uuidM uuidP dir, []⟩

inductive CallR where
  | api (c : Call)            -- a public call of the library
  | plantRefs (t : Id)        -- Engine DJ: the track is put on a playlist, a history list, the prepare list, and is a copied track

/-- The environment step.  Only for a track that exists (`is_valid()`, the same Track table); a table that already
has a row of the track is left alone (CopiedTrack.trackId is a PRIMARY KEY).  `.bool true` = planted, `.bool false` =
skipped. -/
def plantRefs (R : Lib1R) (t : Id) : Lib1R × Res Out :=
  match trackLive R.lib t with
  | .ok true =>
    ({ R with refs := R.refs ++ (RefTable.all.filter fun k => !R.refs.contains (k, t)).map fun k => (k, t) }, .ok (.bool true))
  | .ok false => (R, .ok (.bool false))
  | .throw e => (R, .throw e)
  | .ub u => (R, .ub u)

/-- The four DELETE statements of `remove_track`; `keeps k` = the DELETE on table `k` is missing. -/
def dropRefs (keeps : RefTable → Bool) (refs : List (RefTable × Id)) (t : Id) : List (RefTable × Id) :=
  refs.filter fun x => keeps x.1 || x.2 != t

/-- One step.  Library calls go through `Lib.V1.step`; `remove_track` also deletes the rows naming the track (the
model's `remove_track` always returns — `CratesV1.removeTrack_spec` — so there is no rollback branch). -/
def stepRWith (keeps : RefTable → Bool) (o : FOps) (s : VSchema) (R : Lib1R) : CallR → Lib1R × Res Out
  | .plantRefs t => plantRefs R t
  | .api (.removeTrack t) =>
    let p := step o s R.lib (.removeTrack t)
    ({ lib := p.1, refs := dropRefs keeps R.refs t }, p.2)
  | .api c =>
    let p := step o s R.lib c
    ({ R with lib := p.1 }, p.2)

/-- The code that exists: all four DELETEs. -/
def stepR (o : FOps) (s : VSchema) (R : Lib1R) (c : CallR) : Lib1R × Res Out := stepRWith (fun _ => false) o s R c

def runRWith (keeps : RefTable → Bool) (o : FOps) (s : VSchema) (R : Lib1R) (cs : List CallR) : Lib1R :=
  cs.foldl (fun R c => (stepRWith keeps o s R c).1) R

def runR (o : FOps) (s : VSchema) (R : Lib1R) (cs : List CallR) : Lib1R := cs.foldl (fun R c => (stepR o s R c).1) R

/-- The library calls of a history (the environment steps dropped). -/
def apiCalls : List CallR → List Call
  | [] => []
  | .api c :: cs => c :: apiCalls cs
  | .plantRefs _ :: cs => apiCalls cs

/-! ### the raw dump -/

/-- From 1.9.1 Playlist / Historylist / Preparelist and their track lists are views over List / ListTrackList. -/
def hasListViews : VSchema → Bool
  | .s1_6_0 | .s1_7_1 => false
  | _ => true

/-- The `OT` section of `lib1.dump` as (table code, trackId): the four tables, and from 1.9.1 the ListTrackList rows
of a type other than 4 (code 6) behind the three views. -/
def refCodes (s : VSchema) (refs : List (RefTable × Id)) : List (Int × Id) :=
  refs.map (fun x => (x.1.code, x.2)) ++
  (if hasListViews s then (refs.filter fun x => x.1 != .copied).map fun x => (6, x.2) else [])

def codeName : Int → String
  | 1 => "PlaylistTrackList" | 2 => "HistorylistTrackList" | 3 => "PreparelistTrackList" | 5 => "CopiedTrack"
  | _ => "ListTrackList"

/-- The raw dump of the extended state: `raw` of the library with the `otherTrackRefs` section filled in. -/
def rawR (s : VSchema) (R : Lib1R) : Raw1 :=
  { raw R.lib with otherTrackRefs := (refCodes s R.refs).map fun x => (codeName x.1, x.2) }

end EngineModel.Lib.V1
