/-
The WHOLE schema-1.x library as one transition system (work-package composite-v1).

`Lib1` is one state holding everything a legacy-layout library stores in its two files:

  m.db   Track / MetaData / MetaDataInteger rows            — the tracks package's `TracksV1.Db`
         Crate / CrateParentList / CrateHierarchy / CrateTrackList (from 1.9.1: the type-4 rows of
         List / ListParentList / ListHierarchy / ListTrackList), the `Track (id, path IS NOT NULL)` key
         column with the NULL-path placeholder row and `sqlite_sequence` of the AUTOINCREMENT schemas
                                                             — the crates package's `CratesV1.Db`
         AlbumArt (the default row `(1, '', NULL)` every creator inserts — fix 7ba238d), Information
  p.db   PerformanceData rows (kept inside `TracksV1.Db`, per track), Information

`Call` is ONE alphabet = every public operation of `database`, `crate` and `track` on a 1.x library, with raw ids
as arguments (a handle is an id; "a handle of a removed object" and "an id that never existed" are ordinary
inputs).  `step` DELEGATES every call to the package model that owns it (imported, not copied) and adds only the
interactions between the table families, as the C++ performs them:

  * `database::create_track`: the id comes from the Track table's allocation rule (rowid rule before 1.17.0,
    AUTOINCREMENT with `sqlite_sequence` from 1.17.0 — `CratesV1.createTrack`), the rows and the outcome from the
    tracks package (`TracksV1.dbCreate`, which on its own can only count `MAX(id)+1`); a call that throws rolls
    the Track row and the sequence back;
  * `database::remove_track` (fixes 7f16946, b5e9c9c): the membership rows, the MetaData / MetaDataInteger /
    PerformanceData rows and the Track row go in one transaction (`CratesV1.removeTrack` incl. the
    `trigger_after_delete_Track` placeholder swap + `TracksV1.dbRemove`);
  * `crate::add_track` (05ed2a5) tests `Track.path IS NOT NULL` on the SAME Track table the track calls write;
  * setters / `update` / getters / `snapshot()` through the handle of a removed track (fa348b1, 353e3ca) and
    `is_valid()` / `track_by_id` (a5d64c8: the placeholder row is not a track) answer from that same table.

`Raw1` is a raw dump of all tables of both files (what the harness prints with an independent reader);
`raw : Lib1 → Raw1` projects the model state on it, and `libInvRaw : Raw1 → Bool` is the executable
whole-library invariant (the packages' invariants + referential integrity across the table families) that the
driver evaluates on the REAL dump and that `Properties/C11Lib1.lean` proves of `raw` of every reachable state.
-/
import EngineModel.Api.CratesV1Sim
import EngineModel.TracksV1.Accept

namespace EngineModel.Lib.V1
open EngineModel.Api
open EngineModel.TracksV1 (Snap Field Derived TrackRows PerfRow aget aset)
open EngineModel.TracksV1.Fl (FOps)

/-- The eleven schema versions of the legacy layout. -/
abbrev VSchema := TracksV1.Schema
abbrev Id := Int

/-- The same version in the 19-constructor enumeration the crates package (and schema detection) uses. -/
def toDetect : VSchema → Pure.Detect.Schema
  | .s1_6_0 => .schema_1_6_0 | .s1_7_1 => .schema_1_7_1 | .s1_9_1 => .schema_1_9_1
  | .s1_11_1 => .schema_1_11_1 | .s1_13_0 => .schema_1_13_0 | .s1_13_1 => .schema_1_13_1
  | .s1_13_2 => .schema_1_13_2 | .s1_15_0 => .schema_1_15_0 | .s1_17_0 => .schema_1_17_0
  | .s1_18_0_desktop => .schema_1_18_0_desktop | .s1_18_0_os => .schema_1_18_0_os

def ofDetect (d : Pure.Detect.Schema) : Option VSchema := TracksV1.Schema.all.find? fun s => toDetect s == d

/-! ### state -/

/-- The `Information` row of one file. -/
structure Info where
  uuid : Bytes
  version : Int × Int × Int
  deriving Repr, DecidableEq, Inhabited

structure ArtRow where
  id : Int
  hash : Bytes
  art : Option Bytes
  deriving Repr, DecidableEq, Inhabited

structure Lib1 where
  tr : TracksV1.Db            -- Track, MetaData, MetaDataInteger (m.db) and PerformanceData (p.db) rows, per track
  cr : CratesV1.Db            -- the crate tables, the Track key column (with placeholder rows) and sqlite_sequence
  albumArt : List ArtRow      -- m.db AlbumArt
  infoM : Info                -- m.db Information
  infoP : Info                -- p.db Information
  dir : Bytes                 -- the directory the library was opened from (`database::directory`)
  deriving Repr

/-- What `create_database` leaves: empty tables, the default album-art row, the two stamped Information rows
(the uuids are random: inputs). -/
def Lib1.empty (s : VSchema) (uuidM uuidP dir : Bytes) : Lib1 :=
  { tr := ⟨s, []⟩, cr := CratesV1.Db.empty, albumArt := [⟨1, [], none⟩],
    infoM := ⟨uuidM, (toDetect s).version⟩, infoP := ⟨uuidP, (toDetect s).version⟩, dir := dir }

/-! ### the call alphabet -/

inductive Call where
  -- database, mutating
  | createRootCrate (n : Bytes)
  | createRootCrateAfter (n : Bytes) (after : Id)
  | createTrack (x : Snap)
  | removeCrate (c : Id)
  | removeTrack (t : Id)
  -- crate, mutating
  | addTrack (c t : Id)
  | crateRemoveTrack (c t : Id)
  | clearTracks (c : Id)
  | createSubCrate (c : Id) (n : Bytes)
  | createSubCrateAfter (c : Id) (n : Bytes) (after : Id)
  | setName (c : Id) (n : Bytes)
  | setParent (c : Id) (p : Option Id)
  -- track, mutating
  | update (t : Id) (x : Snap)
  | set (t : Id) (f : Field) (v : f.ty)
  -- database, observing
  | crateById (c : Id)
  | crates
  | cratesByName (n : Bytes)
  | rootCrateByName (n : Bytes)
  | rootCrates
  | trackById (t : Id)
  | tracks
  | tracksByRelativePath (p : Bytes)
  | uuid
  | versionName
  | directory
  | verify
  -- crate, observing
  | crateIsValid (c : Id)
  | crateName (c : Id)
  | crateParent (c : Id)
  | crateChildren (c : Id)
  | crateDescendants (c : Id)
  | crateTracks (c : Id)
  | subCrateByName (c : Id) (n : Bytes)
  -- track, observing
  | trackIsValid (t : Id)
  | get (t : Id) (f : Field)
  | getDerived (t : Id) (d : Derived)
  | snapshot (t : Id)
  | containingCrates (t : Id)

/-- The classification of the public headers: `const` accessors, listings, lookups, `verify()`. -/
def Call.isObserver : Call → Bool
  | .createRootCrate _ | .createRootCrateAfter _ _ | .createTrack _ | .removeCrate _ | .removeTrack _
  | .addTrack _ _ | .crateRemoveTrack _ _ | .clearTracks _ | .createSubCrate _ _ | .createSubCrateAfter _ _ _
  | .setName _ _ | .setParent _ _ | .update _ _ | .set _ _ _ => false
  | _ => true

inductive Out where
  | unit
  | id (i : Id)
  | optId (o : Option Id)
  | ids (l : List Id)
  | bool (b : Bool)
  | bytes (b : Bytes)
  | snap (x : Snap)
  | val (f : Field) (v : f.ty)

/-- The id a call reported for a newly created object. -/
def Out.newId : Res Out → Option Id
  | .ok (.id i) => some i
  | _ => none

/-! ### delegation helpers -/

def mapRes {α β} (g : α → β) : Res α → Res β
  | .ok a => .ok (g a)
  | .throw e => .throw e
  | .ub u => .ub u

def convOut : CratesV1.Out → Out
  | .unit => .unit
  | .id i => .id i

/-- A call owned by the crates package: it sees and changes `L.cr` only. -/
def viaCrates (s : VSchema) (L : Lib1) (op : CratesV1.Op) : Lib1 × Res Out :=
  let p := CratesV1.step (toDetect s) L.cr op
  ({ L with cr := p.1 }, mapRes convOut p.2)

/-- A call owned by the tracks package that changes the rows of existing tracks only (`update`, setters): it sees
and changes `L.tr` only; a call that throws leaves the library as it was (transaction rolled back / nothing
written). -/
def viaTracks (L : Lib1) (r : Res TracksV1.Db) : Lib1 × Res Out :=
  match r with
  | .ok d => ({ L with tr := d }, .ok .unit)
  | .throw e => (L, .throw e)
  | .ub u => (L, .ub u)

/-- The row the tracks package wrote under ITS id (`MAX(id)+1`) is the row of the id the Track table allocated. -/
def relabel (d : TracksV1.Db) (id0 id : Int) : TracksV1.Db :=
  { d with tracks := d.tracks.map fun e => if e.1 = id0 then (id, e.2) else e }

/-- `database::create_track`.  `INSERT INTO Track` allocates the id (`CratesV1.createTrack`: rowid rule / AUTOINCREMENT
and `sqlite_sequence`); conversions, statements, `UNIQUE(path)` and the exception that wins are the tracks
package's (`TracksV1.dbCreate`); everything is one transaction. -/
def createTrack (o : FOps) (s : VSchema) (L : Lib1) (x : Snap) : Lib1 × Res Out :=
  match CratesV1.createTrack (toDetect s) L.cr with
  | (cr', .ok (.id id)) =>
    match TracksV1.dbCreate o L.tr x with
    | .ok (d', id0) => ({ L with cr := cr', tr := relabel d' id0 id }, .ok (.id id))
    | .throw e => (L, .throw e)
    | .ub u => (L, .ub u)
  | (_, .ok .unit) => (L, .throw .logic_error)      -- not reachable: the allocation always reports an id
  | (_, .throw e) => (L, .throw e)
  | (_, .ub u) => (L, .ub u)

/-- `database::remove_track`: one transaction deleting the membership rows, the dependent rows in both files and
the Track row (with the placeholder trigger of the AUTOINCREMENT schemas). -/
def removeTrack (s : VSchema) (L : Lib1) (t : Id) : Lib1 × Res Out :=
  let p := CratesV1.removeTrack (toDetect s) L.cr t
  ({ L with cr := p.1, tr := TracksV1.dbRemove L.tr t }, mapRes convOut p.2)

/-! ### observers -/

/-- `SELECT COUNT(*) FROM Track WHERE id = ? AND path IS NOT NULL` with the two-way test of `is_valid` / `track_by_id`. -/
def trackLive (L : Lib1) (t : Id) : Res Bool := CratesV1.trackIsValid L.cr t

/-- `SELECT id FROM Track WHERE path = ? ORDER BY id`. -/
def tracksByPath (L : Lib1) (p : Bytes) : List Id :=
  CratesV1.sortIds ((L.tr.tracks.filter fun e => e.2.track.path == some p).map (·.1))

/-- `filename()` / `file_extension()`: read `Track.path` (`track_deleted` when the row is gone). -/
def dbGetDerived (d : TracksV1.Db) (t : Id) (k : Derived) : Res Bytes :=
  match d.rows t with
  | some r => .ok (TracksV1.getDerived r k)
  | none => .throw (.dj "track_deleted")

/-- `to_string(engine_schema)`. -/
def versionName : VSchema → String
  | .s1_6_0 => "1.6.0" | .s1_7_1 => "1.7.1" | .s1_9_1 => "1.9.1" | .s1_11_1 => "1.11.1" | .s1_13_0 => "1.13.0"
  | .s1_13_1 => "1.13.1" | .s1_13_2 => "1.13.2" | .s1_15_0 => "1.15.0" | .s1_17_0 => "1.17.0"
  | .s1_18_0_desktop => "1.18.0 (Desktop)" | .s1_18_0_os => "1.18.0 (OS)"

/-- The answer of an observing call (`none` for a mutating one).  It is a function of the state: no observer
has a way to return a new state. -/
def observe (o : FOps) (s : VSchema) (L : Lib1) : Call → Option (Res Out)
  | .crateById c => some (mapRes .optId (CratesV1.dbCrateById L.cr c))
  | .crates => some (.ok (.ids (CratesV1.dbCrates L.cr)))
  | .cratesByName n => some (.ok (.ids (CratesV1.dbCratesByName L.cr n)))
  | .rootCrateByName n => some (.ok (.optId (CratesV1.rootCrateByName L.cr n)))
  | .rootCrates => some (.ok (.ids (CratesV1.dbRootCrates L.cr)))
  | .trackById t => some (mapRes (fun v => .optId (if v then some t else none)) (trackLive L t))
  | .tracks => some (.ok (.ids (CratesV1.dbTracks L.cr)))
  | .tracksByRelativePath p => some (.ok (.ids (tracksByPath L p)))
  | .uuid => some (.ok (.bytes L.infoM.uuid))
  | .versionName => some (.ok (.bytes (TracksV1.strBytes (versionName s))))
  | .directory => some (.ok (.bytes L.dir))
  | .verify => some (.ok .unit)      -- the catalog (DDL) is not part of `Lib1`: no call changes it (C12 / C17)
  | .crateIsValid c => some (mapRes .bool (CratesV1.crateIsValid L.cr c))
  | .crateName c => some (mapRes .bytes (CratesV1.crateName L.cr c))
  | .crateParent c => some (mapRes .optId (CratesV1.crateParent L.cr c))
  | .crateChildren c => some (.ok (.ids (CratesV1.sortIds (CratesV1.crateChildren L.cr c))))
  | .crateDescendants c => some (.ok (.ids (CratesV1.sortIds (CratesV1.crateDescendants L.cr c))))
  | .crateTracks c => some (.ok (.ids (CratesV1.sortIds (CratesV1.crateTracks (toDetect s) L.cr c))))
  | .subCrateByName c n => some (.ok (.optId (CratesV1.subCrateByName L.cr c n)))
  | .trackIsValid t => some (mapRes .bool (trackLive L t))
  | .get t f => some (mapRes (.val f) (TracksV1.dbGet o L.tr t f))
  | .getDerived t k => some (mapRes .bytes (dbGetDerived L.tr t k))
  | .snapshot t => some (mapRes .snap (TracksV1.dbSnap o L.tr t))
  | .containingCrates t => some (.ok (.ids (CratesV1.sortIds (CratesV1.trackContainingCrates (toDetect s) L.cr t))))
  | _ => none

/-! ### the composite step -/

/-- One public call on the whole library.  The observers go through the SAME function as the mutators and return
a state like every other call (that they return `L` itself is `C16_lib1_observer_unchanged`, not a type). -/
def step (o : FOps) (s : VSchema) (L : Lib1) : Call → Lib1 × Res Out
  | .createRootCrate n => viaCrates s L (.createRoot n)
  | .createRootCrateAfter n _ => viaCrates s L (.createRoot n)       -- 1.x ignores `after`
  | .createTrack x => createTrack o s L x
  | .removeCrate c => viaCrates s L (.removeCrate c)
  | .removeTrack t => removeTrack s L t
  | .addTrack c t => viaCrates s L (.addTrack c t)
  | .crateRemoveTrack c t => viaCrates s L (.removeTrackFrom c t)
  | .clearTracks c => viaCrates s L (.clearTracks c)
  | .createSubCrate c n => viaCrates s L (.createSub c n)
  | .createSubCrateAfter c n _ => viaCrates s L (.createSub c n)      -- 1.x ignores `after`
  | .setName c n => viaCrates s L (.rename c n)
  | .setParent c p => viaCrates s L (.setParent c p)
  | .update t x => viaTracks L (TracksV1.dbUpdate o L.tr t x)
  | .set t f v => viaTracks L (TracksV1.dbSet o L.tr t f v)
  | c =>
    match observe o s L c with
    | some r => (L, r)
    | none => (L, .throw .logic_error)

def run (o : FOps) (s : VSchema) (L : Lib1) (cs : List Call) : Lib1 := cs.foldl (fun L c => (step o s L c).1) L

/-- The full observation: the answers of a list of observing calls (every public accessor on every id of
interest — the caller chooses the ids, removed handles included). -/
def observeAll (o : FOps) (s : VSchema) (L : Lib1) (qs : List Call) : List (Res Out) := qs.map fun q => (step o s L q).2

/-! ### histories that re-issue an id (the honest 1.x form of the stale-handle clauses) -/

/-- Does some call of the continuation `cs` (run from `L`) report the id `y` for a newly created CRATE? -/
def reissuesCrate (o : FOps) (s : VSchema) : Lib1 → List Call → Id → Bool
  | _, [], _ => false
  | L, c :: cs, y =>
    ((match c with
      | .createRootCrate _ | .createRootCrateAfter _ _ | .createSubCrate _ _ | .createSubCrateAfter _ _ _ =>
        Out.newId (step o s L c).2 == some y
      | _ => false) : Bool) || reissuesCrate o s (step o s L c).1 cs y

/-- Does some `create_track` of the continuation report the id `y`? -/
def reissuesTrack (o : FOps) (s : VSchema) : Lib1 → List Call → Id → Bool
  | _, [], _ => false
  | L, c :: cs, y =>
    ((match c with
      | .createTrack _ => Out.newId (step o s L c).2 == some y
      | _ => false) : Bool) || reissuesTrack o s (step o s L c).1 cs y

/-! ### the two files, closing and loading again -/

/-- m.db: what the music file stores (PerformanceData lives in the other file). -/
structure MusicFile where
  info : Info
  tracks : List (Int × TrackRows)     -- Track / MetaData / MetaDataInteger rows per track (`perf = none`)
  cr : CratesV1.Db
  albumArt : List ArtRow
  deriving Repr

/-- p.db. -/
structure PerfFile where
  info : Info
  rows : List (Int × PerfRow)
  deriving Repr

def store (L : Lib1) : MusicFile × PerfFile :=
  (⟨L.infoM, L.tr.tracks.map (fun e => (e.1, { e.2 with perf := none })), L.cr, L.albumArt⟩,
   ⟨L.infoP, L.tr.tracks.filterMap fun e => e.2.perf.map fun p => (e.1, p)⟩)

/-- `load_database` on the two files: the schema is detected from the music file's version stamp (the two 1.18.0
variants by the marker, which the caller reads off the `Track` DDL: `numeric` = booleans declared NUMERIC); each
track's PerformanceData row is the row of the same id in p.db.  A PerformanceData row without a Track row has no
track to show through (it is lost from every observation). -/
def load (numeric : Bool) (dir : Bytes) (f : MusicFile × PerfFile) : Option (VSchema × Lib1) :=
  match Pure.Detect.specDetect f.1.info.version.1 f.1.info.version.2.1 f.1.info.version.2.2 numeric with
  | .schema d =>
    (ofDetect d).map fun s =>
      (s, { tr := ⟨s, f.1.tracks.map fun e => (e.1, { e.2 with perf := aget e.1 f.2.rows })⟩,
            cr := f.1.cr, albumArt := f.1.albumArt, infoM := f.1.info, infoP := f.2.info, dir := dir })
  | .unsupported => none

def markerOf : VSchema → Bool
  | .s1_18_0_desktop => true
  | _ => false

/-- Release every handle, close, load the directory again. -/
def reload (s : VSchema) (L : Lib1) : Option (VSchema × Lib1) := load (markerOf s) L.dir (store L)

/-! ### raw dumps and the executable whole-library invariant -/

/-- A raw dump of every table of m.db and p.db that carries a key of another table (what `lib1.dump` of the harness
prints with an independent reader).  Tables no public call writes (Playlist / Historylist / Preparelist and their
track lists, CopiedTrack; from 1.9.1 the rows of the List* tables with a type other than 4) appear with the keys
their declared foreign keys mention. -/
structure Raw1 where
  cr : CratesV1.Db                       -- Crate, CrateParentList, CrateHierarchy, CrateTrackList (stored), Track (id, path present)
  trackArt : List (Id × Option Int)      -- Track (id, idAlbumArt)
  metaStr : List (Id × Int)               -- MetaData (id, type)
  metaInt : List (Id × Int)              -- MetaDataInteger (id, type)
  perf : List Id                         -- perfdata.PerformanceData (id)
  albumArt : List Id                     -- AlbumArt (id)
  otherTrackRefs : List (String × Id)    -- (table, trackId) of every other table with a foreign key to Track
  infoM : List Info
  infoP : List Info
  deriving Repr, DecidableEq

def raw (L : Lib1) : Raw1 :=
  { cr := L.cr
    trackArt := L.cr.track.map fun r => (r.id, ((L.tr.rows r.id).bind fun x => x.track.idAlbumArt))
    metaStr := L.tr.tracks.flatMap fun e => e.2.mstr.map fun m => (e.1, m.1)
    metaInt := L.tr.tracks.flatMap fun e => e.2.mint.map fun m => (e.1, m.1)
    perf := L.tr.tracks.filterMap fun e => e.2.perf.map fun _ => e.1
    albumArt := L.albumArt.map (·.id)
    otherTrackRefs := []
    infoM := [L.infoM]
    infoP := [L.infoP] }

/-- What `PRAGMA music.foreign_key_check` reports over ALL declared foreign keys of the 1.x creators
(schema_1_6_0.cpp … schema_1_18_0_os.cpp): the three crate tables (the crates package's `fkViolations`),
MetaData.id / MetaDataInteger.id → Track.id, Track.idAlbumArt → AlbumArt.id (a NULL cell is no violation), and the
trackId of PlaylistTrackList / HistorylistTrackList / PreparelistTrackList / CopiedTrack (from 1.9.1: ListTrackList
of any type) → Track.id.  One entry per violating (table, row). -/
def fkViolationsAll (r : Raw1) : List (String × Id × Id) :=
  let tids := r.cr.track.map (·.id)
  CratesV1.fkViolations r.cr ++
  (r.metaStr.filter (fun m => !tids.contains m.1)).map (fun m => ("MetaData", m.1, m.2)) ++
  (r.metaInt.filter (fun m => !tids.contains m.1)).map (fun m => ("MetaDataInteger", m.1, m.2)) ++
  (r.trackArt.filterMap fun t => match t.2 with
    | some a => if r.albumArt.contains a then none else some ("Track", t.1, a)
    | none => none) ++
  (r.otherTrackRefs.filter (fun x => !tids.contains x.2)).map (fun x => (x.1, x.2, 0))

def liveIds (r : Raw1) : List Id := (r.cr.track.filter (·.hasPath)).map (·.id)

/-- The named conjuncts of the whole-library invariant on a raw dump. -/
def libChecks (s : VSchema) (r : Raw1) : List (String × Bool) :=
  let live := liveIds r
  [ ("crates-wellformed", CratesV1.WfRaw r.cr),
    ("foreign-keys-clean", fkViolationsAll r == []),
    ("metadata-of-live-tracks", r.metaStr.all fun m => live.contains m.1),
    ("metadatainteger-of-live-tracks", r.metaInt.all fun m => live.contains m.1),
    ("perfdata-mirrors-music", r.perf.all fun i => live.contains i),
    ("perfdata-key-unique", CratesV1.nodupB r.perf),
    ("track-art-rows-match", r.trackArt.map (·.1) == r.cr.track.map (·.id)),
    ("live-track-has-album-art", r.trackArt.all fun t => !live.contains t.1 || (match t.2 with
        | some a => r.albumArt.contains a
        | none => false)),
    ("placeholder-only-autoincrement", CratesV1.trackAutoinc (toDetect s) || r.cr.track.all (·.hasPath)),
    ("no-foreign-track-refs", r.otherTrackRefs.all fun x => live.contains x.2),
    ("information-music", r.infoM.length == 1 && r.infoM.all fun i => i.version == (toDetect s).version),
    ("information-perfdata", r.infoP.length == 1 && r.infoP.all fun i => i.version == (toDetect s).version) ]

def libInvRaw (s : VSchema) (r : Raw1) : Bool := (libChecks s r).all (·.2)

def libFailures (s : VSchema) (r : Raw1) : List String := ((libChecks s r).filter fun c => !c.2).map (·.1)

end EngineModel.Lib.V1
