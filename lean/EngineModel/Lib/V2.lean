/-
The whole schema-2.x library as ONE state and ONE call alphabet (work-package
composite-v2).

Until now every 2.x property was proved over a model of one table family: the
Track table (`TracksV2/Table.lean`: statement level, UNIQUE constraints,
triggers, transaction scopes) or the crate tables (`Db/V2Crates.lean`: Playlist
+ PlaylistEntity with their chains and triggers, and a bare list of track ids
standing in for the Track table).  Here both live in one state `Lib2`, together
with the Information row, the ChangeLog rows the schema's trigger writes, and
the two other tables that declare a foreign key (AlbumArt, PreparelistEntity).

`step` DELEGATES every single-table call to the package models — it imports
them and calls `TDb.step`, `Db.V2.step`, `callRemove`, `rmTrackIn`, `selectRow`,
`readSnap`, the getters of `Lens.lean`, the queries `q…` of `V2Crates.lean` — and
adds only what crosses tables, as the C++ performs it:

* `database::remove_track` (database_impl.cpp): ONE transaction around
  (a) per playlist, the entry of this track *of this database's uuid* is looked
  up and removed (fixes 37b35a5, 9a475eb), (b) before 2.20.3
  `UPDATE ChangeLog SET trackId = NULL WHERE trackId = ?` (fix 5043b29), (c)
  `track_table::remove` (`invalid_argument` when no row was deleted: everything
  is rolled back — fix 516c689);
* `crate::add_track` requires `track_table::exists` on the REAL Track table
  (fix d308111) and writes the library's own `Information.uuid` into the entry
  (uuid tag 0; fix 9a475eb);
* `trigger_after_update_Track` (schemas before 2.20.3): every UPDATE of a Track
  row — the nested UPDATE of the fix_origin triggers included — appends a
  ChangeLog row for that track, inside the statement / transaction of the call;
* the fix_origin triggers read `Information.uuid` (inside `TDb`: `tdb.uuid` IS
  the Information row's uuid; `Lib2.uuid`).

The crate package sees the Track table through the *view* `Lib2.crates`
(ids of the real Track rows, the real AUTOINCREMENT counter), so that its
theorems can be transported (Proofs/Lib2*.lean) without copying a definition.
-/
import EngineModel.TracksV2.Table
import EngineModel.TracksV2.Stmts
import EngineModel.Db.V2Crates
import EngineModel.Db.V2Wf
import EngineModel.Api.C15TracksV2
import EngineModel.Table.Names
import EngineModel.Spec.Stmts

namespace EngineModel.Lib.V2

open EngineModel EngineModel.Db.Chain EngineModel.TracksV2
open EngineModel.Table (Schema2)

abbrev CDb := EngineModel.Db.V2.Db
abbrev COp := EngineModel.Db.V2.Op
abbrev Ent := EngineModel.Db.V2.Ent
abbrev Getter := EngineModel.Api.C15TracksV2.Getter
abbrev Val := EngineModel.Api.C15TracksV2.Val

/-- the track package's own enumeration of the seven versions -/
def toT : Schema2 → TracksV2.Schema
  | .s2_18_0 => .s2_18_0 | .s2_20_1 => .s2_20_1 | .s2_20_2 => .s2_20_2 | .s2_20_3 => .s2_20_3
  | .s2_21_0 => .s2_21_0 | .s2_21_1 => .s2_21_1 | .s2_21_2 => .s2_21_2

/-- `ChangeLog` is a table (with `trigger_after_update_Track`) before 2.20.3 and a view from then on
(`library_->schema() < engine_schema::schema_2_20_3` in database_impl.cpp). -/
def hasChangeLog (s : Schema2) : Bool := !(s.ge .s2_20_3)

/-- one row of table `ChangeLog (id INTEGER PRIMARY KEY AUTOINCREMENT, trackId INTEGER REFERENCES Track (id))` -/
structure LogRow where
  id : Nat
  track : Option Nat
  deriving Repr, DecidableEq, Inhabited

/-- one row of table `PreparelistEntity (id, trackId REFERENCES Track (id), trackNumber)`; the library never
inserts into it (Engine does) — it is here because it declares a foreign key, which `remove_track` must honour -/
structure PrepRow where
  id : Nat
  track : Option Nat
  deriving Repr, DecidableEq, Inhabited

structure Lib2 where
  /-- table Track, `Information.uuid`, `sqlite_sequence['Track']` (the track package's state) -/
  tdb : TDb
  /-- table Playlist (id, key = parentListId, next = nextListId, val = title) and its AUTOINCREMENT counter -/
  pl : Table Bytes
  plSeq : Int
  /-- table PlaylistEntity (id, key = listId, next = nextEntityId, val = (trackId, databaseUuid tag)) -/
  pe : Table Ent
  peSeq : Int
  /-- table ChangeLog (schemas before 2.20.3) and its AUTOINCREMENT counter -/
  log : List LogRow
  logSeq : Nat
  /-- ids of table AlbumArt (the creator inserts the default row 1; referenced by `Track.albumArtId`) -/
  art : List Nat
  /-- table PreparelistEntity and its AUTOINCREMENT counter -/
  prep : List PrepRow
  prepSeq : Nat
  /-- `Information.schemaVersion{Major,Minor,Patch}` -/
  ver : Int × Int × Int
  deriving Repr, DecidableEq, Inhabited

/-- `SELECT uuid FROM Information` -/
def Lib2.uuid (L : Lib2) : Bytes := L.tdb.uuid

/-- what the schema creator of version `s` leaves (`schema_2_*::create`): empty tables, the Information
row (random uuid = input), the default album art row -/
def Lib2.empty (s : Schema2) (uuid : Bytes) : Lib2 :=
  { tdb := TDb.empty uuid, pl := [], plSeq := 0, pe := [], peSeq := 0, log := [], logSeq := 0,
    art := [1], prep := [], prepSeq := 0, ver := s.version }

/-- The crate package's state, with its stand-in for the Track table read off the real one. -/
def Lib2.crates (L : Lib2) : CDb :=
  ⟨L.pl, L.plSeq, L.pe, L.peSeq, L.tdb.rows.map (fun t => (t.id : Int)), (L.tdb.seq : Int)⟩

/-- write the crate tables back (the view of the Track table is read-only for the crate package) -/
def Lib2.withCrates (L : Lib2) (d : CDb) : Lib2 :=
  { L with pl := d.pl, plSeq := d.plSeq, pe := d.pe, peSeq := d.peSeq }

/-! ### the statement monad of a call on the whole library -/

def M2 (α : Type) := Lib2 → Lib2 × Res α

namespace M2

@[inline] def pure {α} (a : α) : M2 α := fun L => (L, .ok a)

@[inline] def bind {α β} (m : M2 α) (f : α → M2 β) : M2 β := fun L =>
  match m L with
  | (L', .ok a) => f a L'
  | (L', .throw e) => (L', .throw e)
  | (L', .ub u) => (L', .ub u)

instance : Monad M2 where
  pure := M2.pure
  bind := M2.bind

def throw {α} (e : Exn) : M2 α := fun L => (L, .throw e)

/-- a statement (or statement sequence) of the track package on the Track table -/
def track {α} (m : TracksV2.M α) : M2 α := fun L =>
  let r := m L.tdb
  ({ L with tdb := r.1 }, r.2)

/-- a statement that cannot fail by itself -/
def modify (f : Lib2 → Lib2) : M2 Unit := fun L => (f L, .ok ())

/-- `sqlite_transaction trans{db}; …; trans.commit();` — on unwind ROLLBACK: ALL tables as at BEGIN -/
def transaction {α} (body : M2 α) : M2 α := fun L =>
  match body L with
  | (L', .ok a) => (L', .ok a)
  | (_, .throw e) => (L, .throw e)
  | (_, .ub u) => (L, .ub u)

end M2

/-! ### cross-table pieces -/

/-- `trigger_after_update_Track`: `INSERT INTO ChangeLog (trackId) VALUES (NEW.id)`, `n` firings -/
def Lib2.logAppend (L : Lib2) (t : Nat) : Nat → Lib2
  | 0 => L
  | n + 1 => Lib2.logAppend { L with log := L.log ++ [⟨L.logSeq + 1, some t⟩], logSeq := L.logSeq + 1 } t n

/-- `UPDATE ChangeLog SET trackId = NULL WHERE trackId = ?` -/
def Lib2.logNullify (L : Lib2) (t : Nat) : Lib2 :=
  { L with log := L.log.map fun r => if r.track == some t then { r with track := none } else r }

/-- How often `trigger_after_update_Track` fires in a track call that returns normally: once per UPDATE
statement that changes the row — the writing statements of the call's statement program
(`TracksV2/Stmts.lean`, tied to the real statement trace by C14) — plus the nested UPDATE of
`trigger_after_insert_Track_fix_origin` / `trigger_after_update_Track_fix_origin`, which fires in
`create_track` and `update` because both write `originTrackId = 0` (an INSERT itself fires no UPDATE
trigger; `recursive_triggers` is off, so the nested UPDATE does not re-fire fix_origin, but it does fire
`trigger_after_update_Track`, a different trigger). -/
def logFires (ops : FOps) (tdb : TDb) : TOp → Nat
  | .create _ => 1
  | .update _ _ => 2
  | .set id σ => ((setBody ops tdb id σ).filter fun c => c.kind == .write).length
  | .remove _ => 0

/-- the track a call is about (for `create`: the id it returned) -/
def TOp.subject (v : Nat) : TOp → Nat
  | .create _ => v
  | .update id _ => id
  | .set id _ => id
  | .remove id => id

/-- A call of the track package on the whole library: its statements run on the Track table; when the call
returns normally the ChangeLog rows its UPDATEs caused are there too.  When it does not, every statement of
the call that had taken effect has been rolled back with its trigger effects (statement atomicity / the
`sqlite_transaction` scope: for the Track table that is the package's `C11V2T_failed_call_unchanged`), so no
ChangeLog row is left either. -/
def trackCall (ops : FOps) (s : Schema2) (op : TOp) : M2 Nat := fun L =>
  let r := L.tdb.step ops (toT s) op
  let L' := { L with tdb := r.1 }
  match r.2 with
  | .ok v => ((if hasChangeLog s then L'.logAppend (TOp.subject v op) (logFires ops L.tdb op) else L'), .ok v)
  | .throw e => (L', .throw e)
  | .ub u => (L', .ub u)

/-- a call of the crate package: it runs on the crate tables and reads the Track table through the view -/
def crateCall (op : COp) : M2 EngineModel.Db.V2.Out := fun L =>
  let r := EngineModel.Db.V2.step L.crates op
  (L.withCrates r.1, r.2)

/-- `database_impl::remove_track(tr)`, statement by statement. -/
def removeTrack (s : Schema2) (t : Nat) : M2 Unit :=
  M2.transaction do
    -- for (auto list_id : playlist().all_ids()) { row = playlist_entity.get(list_id, tr.id(), uuid); if (row) remove }
    M2.modify fun L => { L with pe := (ids L.pl).foldl (EngineModel.Db.V2.rmTrackIn (t : Int)) L.pe }
    -- if (schema < 2.20.3) UPDATE ChangeLog SET trackId = NULL WHERE trackId = ?
    if hasChangeLog s then M2.modify fun L => L.logNullify t else pure ()
    -- DELETE FROM PreparelistEntity WHERE trackId = ?   (this package's fix: the declared ON DELETE CASCADE is not active)
    M2.modify fun L => { L with prep := L.prep.filter fun r => r.track != some t }
    -- library_->track().remove(tr.id())   (DELETE; rows_modified() == 0 → invalid_argument)
    M2.track (callRemove t)

/-- `database_impl::remove_track` as a statement program on the connection of `Spec/Txn.lean` (the fault model of
C14: the k-th faultable statement — BEGIN, every DELETE / UPDATE, COMMIT — fails): BEGIN; per playlist the lookup
(a read) and the DELETE of the entry; before 2.20.3 the UPDATE of ChangeLog; the DELETE on PreparelistEntity; the DELETE of the track, which
(through `rows_modified() == 0 → invalid_argument`) fails the call when there is no such row; COMMIT. -/
def removeTrackBody (s : Schema2) (L : Lib2) (t : Nat) : List (Spec.Txn.Cmd Lib2) :=
  ((ids L.pl).flatMap fun l =>
    [Spec.Txn.Cmd.read, Spec.Stmts.tot fun (M : Lib2) => { M with pe := EngineModel.Db.V2.rmTrackIn (t : Int) M.pe l }]) ++
  (if hasChangeLog s then [Spec.Stmts.tot fun (M : Lib2) => M.logNullify t] else []) ++
  [Spec.Stmts.tot fun (M : Lib2) => { M with prep := M.prep.filter fun r => r.track != some t }] ++
  [.write fun (M : Lib2) =>
    if (M.tdb.rows.filter fun e => e.id == t).length = 0 then none
    else some { M with tdb := { M.tdb with rows := M.tdb.rows.filter fun e => !(e.id == t) } }]

def removeTrackStmts (s : Schema2) (L : Lib2) (t : Nat) : List (Spec.Txn.Cmd Lib2) :=
  Spec.Stmts.txn (removeTrackBody s L t)

/-! ### the call alphabet: every public operation of `database`, `crate` and `track` on a 2.x library -/

inductive Call where
  -- database: mutators
  | createTrack (x : Snap)
  | removeTrack (t : Nat)
  | createRootCrate (name : Bytes)
  | createRootCrateAfter (name : Bytes) (after : Int)
  | removeCrate (c : Int)
  -- database: observers
  | crates
  | crateById (c : Int)
  | cratesByName (name : Bytes)
  | rootCrates
  | rootCrateByName (name : Bytes)
  | tracks
  | trackById (t : Int)
  | tracksByRelativePath (p : Bytes)
  | uuid
  | versionName
  -- crate: mutators
  | crateAddTrack (c t : Int)
  | crateRemoveTrack (c t : Int)
  | crateClearTracks (c : Int)
  | crateCreateSub (c : Int) (name : Bytes)
  | crateCreateSubAfter (c : Int) (name : Bytes) (after : Int)
  | crateSetName (c : Int) (name : Bytes)
  | crateSetParent (c : Int) (p : Option Int)
  -- crate: observers
  | crateName (c : Int)
  | crateParent (c : Int)
  | crateChildren (c : Int)
  | crateDescendants (c : Int)
  | crateIsValid (c : Int)
  | crateSubByName (c : Int) (name : Bytes)
  | crateTracks (c : Int)
  -- track: mutators
  | trackUpdate (t : Nat) (x : Snap)
  | trackSet (t : Nat) (σ : Setter)
  -- track: observers
  | trackGet (t : Nat) (g : Getter)
  | trackSnapshot (t : Nat)
  | trackIsValid (t : Nat)
  -- NOT a call of the library: other software sharing the database (Engine itself) stores, in playlist `c`, an
  -- entry for track `t` of ANOTHER database `u` (uuid tag ≠ 0) — such entries may carry the numeric ids of the
  -- library's own tracks and must never be confused with them (fix 9a475eb)
  | foreignEntry (c t u : Int)
  -- NOT a call of the library either: Engine puts track `t` on its prepare list (a row of PreparelistEntity)
  | plantPrepare (t : Nat)
  deriving Repr

/-- the public alphabet of the library -/
def Call.isApi : Call → Bool
  | .foreignEntry _ _ _ | .plantPrepare _ => false
  | _ => true

/-- histories the composite theorems range over: the public alphabet, interleaved with foreign entries that are
foreign (another database's uuid, a positive track id) -/
def Call.admissible : Call → Bool
  | .foreignEntry _ t u => decide (u ≠ 0) && decide (0 < t)
  | _ => true

def Call.isObserver : Call → Bool
  | .crates | .crateById _ | .cratesByName _ | .rootCrates | .rootCrateByName _ | .tracks | .trackById _
  | .tracksByRelativePath _ | .uuid | .versionName | .crateName _ | .crateParent _ | .crateChildren _
  | .crateDescendants _ | .crateIsValid _ | .crateSubByName _ _ | .crateTracks _ | .trackGet _ _
  | .trackSnapshot _ | .trackIsValid _ => true
  | _ => false

inductive Out where
  | unit
  | id (i : Int)
  | oid (i : Option Int)
  | ids (l : List Int)
  | bool (b : Bool)
  | bytes (b : Bytes)
  | text (s : String)
  | snap (x : Snap)
  | val (v : Val)
  deriving Repr, DecidableEq

def outId : EngineModel.Db.V2.Out → Out
  | some i => .id i
  | none => .unit

/-- a SELECT-only piece of a call: the answer of a query of the crate package on what the connection sees -/
def crateQuery {α} (q : CDb → Res α) (f : α → Out) : M2 Out := fun L => (L, (q L.crates).bind fun a => .ok (f a))

/-- a SELECT-only piece of a call on the Track table (`selectRow` = `get_column`, no row → `track_row_id_error`) -/
def trackQuery {α} (t : Nat) (q : Row → Res α) (f : α → Out) : M2 Out := do
  let r ← M2.track (selectRow t)
  match q r with
  | .ok a => pure (f a)
  | .throw e => M2.throw e
  | .ub u => fun L => (L, .ub u)

def nat? (i : Int) : Option Nat := if 0 ≤ i then some i.toNat else none

/-- `track_table::exists(id)` for an `int64_t` id -/
def trackExists (L : Lib2) (i : Int) : Bool :=
  match nat? i with
  | some n => (L.tdb.find n).isSome
  | none => false

def versionName (v : Int × Int × Int) : String := s!"{v.1}.{v.2.1}.{v.2.2}"

/-- One public call on the whole library. -/
def step (ops : FOps) (s : Schema2) (L : Lib2) : Call → Lib2 × Res Out
  -- database
  | .createTrack x => (trackCall ops s (.create x) >>= fun i => (pure (Out.id i) : M2 Out)) L
  | .removeTrack t => (removeTrack s t >>= fun _ => (pure Out.unit : M2 Out)) L
  | .createRootCrate n => (crateCall (.createRoot n) >>= fun o => (pure (outId o) : M2 Out)) L
  | .createRootCrateAfter n a => (crateCall (.createRootAfter n a) >>= fun o => (pure (outId o) : M2 Out)) L
  | .removeCrate c => (crateCall (.removeCrate c) >>= fun _ => (pure Out.unit : M2 Out)) L
  | .crates => crateQuery (fun d => .ok (EngineModel.Db.V2.qCrates d)) Out.ids L
  | .crateById c => crateQuery (fun d => .ok (EngineModel.Db.V2.qValid d c)) (fun b => Out.oid (if b then some c else none)) L
  | .cratesByName n => crateQuery (fun d => .ok (EngineModel.Db.V2.qByName d n)) Out.ids L
  | .rootCrates => crateQuery EngineModel.Db.V2.qRoots Out.ids L
  | .rootCrateByName n => crateQuery (fun d => .ok (EngineModel.Db.V2.qByParentName d 0 n)) Out.oid L
  | .tracks => (L, .ok (.ids (L.tdb.rows.map fun t => (t.id : Int))))        -- track_table::all_ids
  | .trackById t => (L, .ok (.oid (if trackExists L t then some t else none)))
  | .tracksByRelativePath p =>                                               -- track_table::find_id_by_path
    (L, .ok (.ids ((L.tdb.rows.filter fun t => t.row.path == p).map fun t => (t.id : Int))))
  | .uuid => (L, .ok (.bytes L.uuid))
  | .versionName => (L, .ok (.text (versionName L.ver)))
  -- crate
  | .crateAddTrack c t => (crateCall (.addTrack c t) >>= fun _ => (pure Out.unit : M2 Out)) L
  | .crateRemoveTrack c t => (crateCall (.removeTrackFrom c t) >>= fun _ => (pure Out.unit : M2 Out)) L
  | .crateClearTracks c => (crateCall (.clearTracks c) >>= fun _ => (pure Out.unit : M2 Out)) L
  | .crateCreateSub c n => (crateCall (.createSub c n) >>= fun o => (pure (outId o) : M2 Out)) L
  | .crateCreateSubAfter c n a => (crateCall (.createSubAfter c n a) >>= fun o => (pure (outId o) : M2 Out)) L
  | .crateSetName c n => (crateCall (.rename c n) >>= fun _ => (pure Out.unit : M2 Out)) L
  | .crateSetParent c p => (crateCall (.setParent c p) >>= fun _ => (pure Out.unit : M2 Out)) L
  | .crateName c => crateQuery (fun d => EngineModel.Db.V2.qName d c) Out.bytes L
  | .crateParent c => crateQuery (fun d => EngineModel.Db.V2.qParent d c) Out.oid L
  | .crateChildren c => crateQuery (fun d => EngineModel.Db.V2.qChildren d c) Out.ids L
  | .crateDescendants c => crateQuery (fun d => EngineModel.Db.V2.qDescendants d c) Out.ids L
  | .crateIsValid c => crateQuery (fun d => .ok (EngineModel.Db.V2.qValid d c)) Out.bool L
  | .crateSubByName c n => crateQuery (fun d => .ok (EngineModel.Db.V2.qByParentName d c n)) Out.oid L
  | .crateTracks c => crateQuery (fun d => EngineModel.Db.V2.qTracks d c) Out.ids L
  -- track
  | .trackUpdate t x => (trackCall ops s (.update t x) >>= fun _ => (pure Out.unit : M2 Out)) L
  | .trackSet t σ => (trackCall ops s (.set t σ) >>= fun _ => (pure Out.unit : M2 Out)) L
  | .trackGet t g => trackQuery t (fun r => EngineModel.Api.C15TracksV2.getRow ops r g) Out.val L
  | .trackSnapshot t =>                                                      -- track_table::get → track_deleted
    (match L.tdb.find t with
     | some row => (L, (readSnap ops row.row).bind fun x => .ok (.snap x))
     | none => (L, .throw (.dj "track_deleted")))
  | .trackIsValid t => (L, .ok (.bool (L.tdb.find t).isSome))
  -- playlist_entity_table::add_back by another writer, into an existing playlist
  | .foreignEntry c t u =>
    if EngineModel.Db.V2.qValid L.crates c then (crateCall (.peAddBack c t u false) >>= fun _ => (pure Out.unit : M2 Out)) L
    else (L, .ok .unit)
  -- INSERT INTO PreparelistEntity (trackId, …) by Engine, for a track that exists
  | .plantPrepare t =>
    if (L.tdb.find t).isSome then
      ({ L with prep := L.prep ++ [⟨L.prepSeq + 1, some t⟩], prepSeq := L.prepSeq + 1 }, .ok .unit)
    else (L, .ok .unit)

/-- any history, whatever the outcomes of its calls (failed calls included) -/
def run (ops : FOps) (s : Schema2) (L : Lib2) (h : List Call) : Lib2 := h.foldl (fun L c => (step ops s L c).1) L

/-! ### everything observable, and reloading (C10)

Handles hold no state of their own: `v2::track_impl` = (`library_`, the `track_table` accessor, the id inherited
from `djinterop::track_impl`), `v2::crate_impl` = (`library_`, the `playlist_table` / `playlist_entity_table`
accessors, the id) — no cached row, no cached column; every accessor queries the connection.  So a handle IS its
id (the `Call`s take ids), and what a client can observe is a function of the stored tables. -/

def allGetters : List Getter :=
  [.album, .artist, .averageLoudness, .beatgrid, .bitrate, .bpm, .comment, .composer, .duration, .fileExtension,
   .filename, .genre, .hotCues, .key, .lastPlayedAt, .loops, .mainCue, .publisher, .rating, .relativePath, .sampleCount,
   .sampleRate, .title, .trackNumber, .waveform, .year] ++
  (List.range 9).flatMap fun i => [EngineModel.Api.C15TracksV2.Getter.hotCueAt (UInt32.ofNat i), EngineModel.Api.C15TracksV2.Getter.loopAt (UInt32.ofNat i)]

/-- every observer call on every crate and track the database lists (and on the given extra handles — ids the
client still holds, e.g. of removed objects) + the database-level observers -/
def observers (L : Lib2) (crateHandles : List Int) (trackHandles : List Nat) : List Call :=
  let cs := (ids L.pl) ++ crateHandles
  let ts := (L.tdb.rows.map (·.id)) ++ trackHandles
  let names := (L.pl.map (·.val)).eraseDups
  [Call.crates, .rootCrates, .tracks, .uuid, .versionName] ++
  names.flatMap (fun n => [Call.cratesByName n, .rootCrateByName n]) ++
  (L.tdb.rows.map fun t => Call.tracksByRelativePath t.row.path) ++
  cs.flatMap (fun c => [Call.crateById c, .crateName c, .crateParent c, .crateChildren c, .crateDescendants c,
    .crateIsValid c, .crateTracks c] ++ names.map fun n => Call.crateSubByName c n) ++
  ts.flatMap (fun (t : Nat) => [Call.trackById (t : Int), .trackIsValid t, .trackSnapshot t] ++ allGetters.map fun g => Call.trackGet t g)

def observeAll (ops : FOps) (s : Schema2) (L : Lib2) (crateHandles : List Int) (trackHandles : List Nat) :
    List (Call × Res Out) :=
  (observers L crateHandles trackHandles).map fun c => (c, (step ops s L c).2)

/-- A client session: the connection (committed library + the working copy of an open transaction, `Spec/Txn.lean`)
and the handles the client holds (ids). -/
structure Session where
  conn : Spec.Txn.Conn Lib2
  crateHandles : List Int
  trackHandles : List Nat

/-- release every handle, close, load again: a new connection on what was committed; no handle is held (a client
re-obtains them by id: `crate_by_id`, `track_by_id`) -/
def Session.reload (S : Session) : Session := ⟨S.conn.reopen, [], []⟩

/-- what the session's client observes: through the database and through the handles it holds -/
def Session.observe (ops : FOps) (s : Schema2) (S : Session) : List (Call × Res Out) :=
  observeAll ops s S.conn.view S.crateHandles S.trackHandles

/-! ### how a call of the composite shows to each package (for transporting the packages' history theorems)

`crateHist` / `trackHist`: the history of the composite, as the crate package and the track package see it.
Proofs/Lib2Sim.lean: the crate tables (with the real Track ids) after a composite history ARE the crate
package's tables after `crateHist`, the Track table IS the track package's table after `trackHist`. -/

def isOk {α} : Res α → Bool
  | .ok _ => true
  | _ => false

/-- the call as an operation of the crate package (`none`: the crate package sees nothing) -/
def crateOpOf (ops : FOps) (s : Schema2) (L : Lib2) : Call → Option COp
  | .createTrack x => if isOk (step ops s L (.createTrack x)).2 then some .createTrack else none
  | .removeTrack t => some (.removeTrack (t : Int))
  | .createRootCrate n => some (.createRoot n)
  | .createRootCrateAfter n a => some (.createRootAfter n a)
  | .removeCrate c => some (.removeCrate c)
  | .crateAddTrack c t => some (.addTrack c t)
  | .crateRemoveTrack c t => some (.removeTrackFrom c t)
  | .crateClearTracks c => some (.clearTracks c)
  | .crateCreateSub c n => some (.createSub c n)
  | .crateCreateSubAfter c n a => some (.createSubAfter c n a)
  | .crateSetName c n => some (.rename c n)
  | .crateSetParent c p => some (.setParent c p)
  | .foreignEntry c t u => if EngineModel.Db.V2.qValid L.crates c then some (.peAddBack c t u false) else none
  | _ => none

def crateHist (ops : FOps) (s : Schema2) (L : Lib2) : List Call → List COp
  | [] => []
  | c :: cs => (crateOpOf ops s L c).toList ++ crateHist ops s (step ops s L c).1 cs

/-- the call as an operation of the track package -/
def trackOpOf : Call → Option TOp
  | .createTrack x => some (.create x)
  | .trackUpdate t x => some (.update t x)
  | .trackSet t σ => some (.set t σ)
  | .removeTrack t => some (.remove t)
  | _ => none

def trackHist (hist : List Call) : List TOp := hist.filterMap trackOpOf

/-! ### the executable whole-library invariant (`LibInv`), evaluated by the tie on the REAL dump

= the package invariants (`Spec.tracksWf` on the Track table, `wfRaw` on the crate tables seen with the real
Track ids) + what crosses tables. -/

def Lib2.trackLive (L : Lib2) (t : Nat) : Bool := (L.tdb.find t).isSome

/-- every entry is of this database (uuid tag 0: `databaseUuid = Information.uuid`) -/
def allOwn (L : Lib2) : Bool := L.pe.all fun e => e.val.uuid == 0

/-- every entry of this database references a live Track row (a row of table Track, not an id stand-in) and
a live Playlist row -/
def entityRefsOk (L : Lib2) : Bool :=
  L.pe.all fun e => e.val.uuid != 0 ||
    (trackExists L e.val.track && (L.pl.any fun p => p.id == e.key))

/-- ChangeLog: only before 2.20.3; ids a key within the counter; `trackId` NULL or a live track -/
def logOk (s : Schema2) (L : Lib2) : Bool :=
  (hasChangeLog s || L.log.isEmpty) &&
  Spec.distinctBy (·.id) L.log && (L.log.all fun r => decide (1 ≤ r.id ∧ r.id ≤ L.logSeq)) &&
  L.log.all fun r => match r.track with
    | none => true
    | some t => L.trackLive t

/-- the default AlbumArt row exists and every `Track.albumArtId` references an AlbumArt row; every
PreparelistEntity row references a live track (or none) -/
def artOk (L : Lib2) : Bool :=
  L.art.contains 1 && (L.tdb.rows.all fun t => L.art.contains t.row.albumArtId.toNat) &&
  L.prep.all fun r => match r.track with
    | none => true
    | some t => L.trackLive t

def infoOk (s : Schema2) (L : Lib2) : Bool := L.ver == s.version

def libChecks (s : Schema2) (L : Lib2) : List (String × Bool) :=
  [("Track rows: derived columns (filename, fileType), origin columns vs Information.uuid / id, ids or paths not a key",
      Spec.tracksWf L.tdb),
   ("crate tables: " ++ ((EngineModel.Db.V2.wfRawWhy L.crates).getD ""), EngineModel.Db.V2.wfRaw L.crates),
   ("a PlaylistEntity row carries a databaseUuid other than Information.uuid", allOwn L),
   ("a PlaylistEntity row of this database references a Track row or a Playlist row that does not exist", entityRefsOk L),
   ("ChangeLog: a row references a track that does not exist, ids not a key / beyond the counter, or rows on a schema without the table",
      logOk s L),
   ("the default AlbumArt row is missing, a Track.albumArtId references no AlbumArt row, or a PreparelistEntity row references a track that does not exist", artOk L),
   ("Information row: the version triple differs from the schema's", infoOk s L)]

def libInv (s : Schema2) (L : Lib2) : Bool := (libChecks s L).all (·.2)

def libInvWhy (s : Schema2) (L : Lib2) : Option String := ((libChecks s L).find? fun c => !c.2).map (·.1)

/-! ### `PRAGMA foreign_key_check` over every table of the 2.x schemas that declares a foreign key

(read off `schema_2_*.cpp`; the same four in 2.18.0 – 2.20.2, without ChangeLog from 2.20.3 where it is a view):

  Track.albumArtId            → AlbumArt (id)   ON DELETE RESTRICT
  ChangeLog.trackId           → Track (id)      ON DELETE SET NULL      (before 2.20.3)
  PlaylistEntity.listId       → Playlist (id)   ON DELETE CASCADE
  PreparelistEntity.trackId   → Track (id)      ON DELETE CASCADE

(`PlaylistEntity.trackId` declares none — an entry may name a track of another database.)  A violation is a
child row whose key is not NULL and matches no parent row: (table, rowid, parent). -/
structure FkViolation where
  table : String
  rowid : Int
  parent : String
  deriving Repr, DecidableEq

def fkCheck (L : Lib2) : List FkViolation :=
  (L.tdb.rows.filterMap fun t =>
     if L.art.contains t.row.albumArtId.toNat then none else some ⟨"Track", t.id, "AlbumArt"⟩) ++
  (L.log.filterMap fun r => match r.track with
     | some t => if L.trackLive t then none else some ⟨"ChangeLog", r.id, "Track"⟩
     | none => none) ++
  (L.pe.filterMap fun e =>
     if L.pl.any (fun p => p.id == e.key) then none else some ⟨"PlaylistEntity", e.id, "Playlist"⟩) ++
  (L.prep.filterMap fun r => match r.track with
     | some t => if L.trackLive t then none else some ⟨"PreparelistEntity", r.id, "Track"⟩
     | none => none)

end EngineModel.Lib.V2
