/-
An independent decoder for RFC 1950 (zlib wrapper, Adler-32) and RFC 1951
(deflate: stored, fixed-Huffman and dynamic-Huffman blocks), written from the
RFCs (structure after Mark Adler's reference `puff`), executable and
Mathlib-free.  It is the framing half of the *independent implementation* of
property C02 and the result-level model of `zlib_uncompress` for C05.
Nothing here calls or mirrors libz.

Input is a byte list read LSB-first; a `Bits` cursor is the remaining bytes
plus the number of bits already taken from the head byte.  Every loop runs on
explicit fuel bounded by the number of input bits.
-/
import EngineModel.Basic.Prim

namespace EngineModel
namespace Zlib

structure Bits where
  bytes : Bytes
  used : Nat        -- bits already consumed from `bytes.head`, 0..7
  deriving Repr, Inhabited

namespace Bits

def ofBytes (b : Bytes) : Bits := ⟨b, 0⟩

/-- number of unread bits -/
def avail (b : Bits) : Nat := 8 * b.bytes.length - b.used

def bit (b : Bits) : Option (Nat × Bits) :=
  match b.bytes with
  | [] => none
  | x :: r =>
    let v := (x.toNat >>> b.used) % 2
    if b.used = 7 then some (v, ⟨r, 0⟩) else some (v, ⟨x :: r, b.used + 1⟩)

/-- `n` bits, least significant first. -/
def take : Nat → Bits → Option (Nat × Bits)
  | 0, b => some (0, b)
  | n + 1, b =>
    match b.bit with
    | none => none
    | some (v, b') =>
      match take n b' with
      | none => none
      | some (w, b'') => some (v + 2 * w, b'')

/-- discard the rest of a partially read byte -/
def align (b : Bits) : Bytes :=
  if b.used = 0 then b.bytes else b.bytes.drop 1

end Bits

/-! ### canonical Huffman codes -/

structure Huff where
  count : Array Nat      -- count[len] = number of symbols of that code length (0..15)
  symbol : Array Nat     -- symbols ordered by code
  deriving Repr, Inhabited

/-- Build the decoding table from code lengths.  Returns the table and
`left`: `none` = over-subscribed, `some 0` = complete, `some k` = incomplete. -/
def construct (lengths : List Nat) : Huff × Option Nat :=
  let count : Array Nat := lengths.foldl (fun c l => c.modify l (· + 1)) (Array.replicate 16 0)
  -- left = remaining code space after each length
  let left : Option Nat := (List.range 15).foldl (fun (acc : Option Nat) i =>
    match acc with
    | none => none
    | some l =>
      let l2 := 2 * l
      let c := count.getD (i + 1) 0
      if l2 < c then none else some (l2 - c)) (some 1)
  -- offsets of the first symbol of each length
  let offs : Array Nat := (List.range 14).foldl (fun (o : Array Nat) i =>
    o.push (o.getD (i + 1) 0 + count.getD (i + 1) 0)) #[0, 0]   -- offs[1] = 0, offs[l+1] = offs[l] + count[l]
  let nsym := lengths.length
  let (symbol, _) := (List.range nsym).foldl (fun (st : Array Nat × Array Nat) s =>
    let l := lengths.getD s 0
    if l = 0 then st else
    let (sym, o) := st
    (sym.setIfInBounds (o.getD l 0) s, o.modify l (· + 1))) (Array.replicate nsym 0, offs)
  (⟨count, symbol⟩, left)

/-- Decode one symbol (bit by bit, at most 15 bits). -/
def decodeSym (h : Huff) (b : Bits) : Option (Nat × Bits) :=
  let rec go2 (fuel len code first index : Nat) (b : Bits) : Option (Nat × Bits) :=
    match fuel with
    | 0 => none
    | fuel + 1 =>
      match b.bit with
      | none => none
      | some (v, b') =>
        let code := code + v
        let count := h.count.getD len 0
        if code < first + count then
          some (h.symbol.getD (index + (code - first)) 0, b')
        else
          go2 fuel (len + 1) (code * 2) ((first + count) * 2) (index + count) b'
  go2 15 1 0 0 0 b

def lenBase : Array Nat := #[3, 4, 5, 6, 7, 8, 9, 10, 11, 13, 15, 17, 19, 23, 27, 31, 35, 43, 51, 59, 67, 83, 99, 115,
  131, 163, 195, 227, 258]
def lenExtra : Array Nat := #[0, 0, 0, 0, 0, 0, 0, 0, 1, 1, 1, 1, 2, 2, 2, 2, 3, 3, 3, 3, 4, 4, 4, 4, 5, 5, 5, 5, 0]
def distBase : Array Nat := #[1, 2, 3, 4, 5, 7, 9, 13, 17, 25, 33, 49, 65, 97, 129, 193, 257, 385, 513, 769, 1025, 1537,
  2049, 3073, 4097, 6145, 8193, 12289, 16385, 24577]
def distExtra : Array Nat := #[0, 0, 0, 0, 1, 1, 2, 2, 3, 3, 4, 4, 5, 5, 6, 6, 7, 7, 8, 8, 9, 9, 10, 10, 11, 11, 12, 12,
  13, 13]

/-- copy `len` bytes from `dist` back (may overlap) -/
def copyBack (out : Array UInt8) (dist : Nat) : Nat → Array UInt8
  | 0 => out
  | n + 1 => copyBack (out.push (out.getD (out.size - dist) 0)) dist n

/-- Decode literal/length and distance codes until end-of-block. -/
def codes (lc dc : Huff) : Nat → Bits → Array UInt8 → Option (Bits × Array UInt8)
  | 0, _, _ => none
  | fuel + 1, b, out =>
    match decodeSym lc b with
    | none => none
    | some (sym, b) =>
      if sym < 256 then codes lc dc fuel b (out.push sym.toUInt8)
      else if sym = 256 then some (b, out)
      else
        let s := sym - 257
        if s ≥ 29 then none else
        match b.take (lenExtra.getD s 0) with
        | none => none
        | some (e, b) =>
          let len := lenBase.getD s 0 + e
          match decodeSym dc b with
          | none => none
          | some (ds, b) =>
            if ds ≥ 30 then none else
            match b.take (distExtra.getD ds 0) with
            | none => none
            | some (de, b) =>
              let dist := distBase.getD ds 0 + de
              if dist > out.size then none else
              codes lc dc fuel b (copyBack out dist len)

def fixedLit : Huff :=
  (construct (List.replicate 144 8 ++ List.replicate 112 9 ++ List.replicate 24 7 ++ List.replicate 8 8)).1
def fixedDist : Huff := (construct (List.replicate 30 5)).1

def clOrder : List Nat := [16, 17, 18, 0, 8, 7, 9, 6, 10, 5, 11, 4, 12, 3, 13, 2, 14, 1, 15]

/-- read the `n` literal/length + distance code lengths of a dynamic block -/
def readLengths (cl : Huff) (total : Nat) : Nat → Bits → List Nat → Option (Bits × List Nat)
  | 0, _, _ => none
  | fuel + 1, b, acc =>        -- acc is reversed
    if acc.length ≥ total then (if acc.length = total then some (b, acc.reverse) else none) else
    match decodeSym cl b with
    | none => none
    | some (sym, b) =>
      if sym < 16 then readLengths cl total fuel b (sym :: acc)
      else if sym = 16 then
        match acc with
        | [] => none
        | prev :: _ =>
          match b.take 2 with
          | none => none
          | some (e, b) =>
            if acc.length + 3 + e > total then none else
            readLengths cl total fuel b (List.replicate (3 + e) prev ++ acc)
      else if sym = 17 then
        match b.take 3 with
        | none => none
        | some (e, b) =>
          if acc.length + 3 + e > total then none else
          readLengths cl total fuel b (List.replicate (3 + e) 0 ++ acc)
      else
        match b.take 7 with
        | none => none
        | some (e, b) =>
          if acc.length + 11 + e > total then none else
          readLengths cl total fuel b (List.replicate (11 + e) 0 ++ acc)

def readClLengths : Nat → Bits → List Nat → Option (Bits × List Nat)
  | 0, b, acc => some (b, acc.reverse)
  | n + 1, b, acc =>
    match b.take 3 with
    | none => none
    | some (v, b) => readClLengths n b (v :: acc)

/-- a code is usable if complete, or incomplete with a single one-bit code -/
def usable (h : Huff) (left : Option Nat) (nsym : Nat) : Bool :=
  match left with
  | none => false
  | some 0 => true
  | some _ => nsym == h.count.getD 0 0 + h.count.getD 1 0

def dynamic (fuel : Nat) (b : Bits) (out : Array UInt8) : Option (Bits × Array UInt8) :=
  match b.take 5 with
  | none => none
  | some (hlit, b) =>
  match b.take 5 with
  | none => none
  | some (hdist, b) =>
  match b.take 4 with
  | none => none
  | some (hclen, b) =>
    let nlen := hlit + 257
    let ndist := hdist + 1
    let ncode := hclen + 4
    if nlen > 286 ∨ ndist > 30 then none else
    match readClLengths ncode b [] with
    | none => none
    | some (b, cls) =>
      -- place the code-length code lengths in their permuted order
      let arr : Array Nat := (clOrder.zip cls).foldl (fun a (p : Nat × Nat) => a.setIfInBounds p.1 p.2)
        (Array.replicate 19 0)
      let (clh, left) := construct arr.toList
      if left != some 0 then none else       -- the code-length code must be complete
      match readLengths clh (nlen + ndist) fuel b [] with
      | none => none
      | some (b, lens) =>
        if lens.getD 256 0 = 0 then none else
        let ll := lens.take nlen
        let dl := lens.drop nlen
        let (lh, lleft) := construct ll
        if !usable lh lleft nlen then none else
        let (dh, dleft) := construct dl
        if !usable dh dleft ndist then none else
        codes lh dh fuel b out

def stored (b : Bits) (out : Array UInt8) : Option (Bits × Array UInt8) :=
  match b.align with
  | l0 :: l1 :: n0 :: n1 :: r =>
    let len := l0.toNat + 256 * l1.toNat
    let nlen := n0.toNat + 256 * n1.toNat
    if len + nlen ≠ 65535 then none else
    if r.length < len then none else
    some (⟨r.drop len, 0⟩, (r.take len).foldl Array.push out)
  | _ => none

/-- the sequence of deflate blocks -/
def blocks : Nat → Bits → Array UInt8 → Option (Bits × Array UInt8)
  | 0, _, _ => none
  | fuel + 1, b, out =>
    match b.take 1 with
    | none => none
    | some (last, b) =>
    match b.take 2 with
    | none => none
    | some (ty, b) =>
      let r := if ty = 0 then stored b out
        else if ty = 1 then codes fixedLit fixedDist (b.avail + 1) b out
        else if ty = 2 then dynamic (b.avail + 1) b out
        else none
      match r with
      | none => none
      | some (b, out) => if last = 1 then some (b, out) else blocks fuel b out

/-- Raw deflate stream → (output, unread whole bytes after the final block). -/
def inflateRaw (input : Bytes) : Option (Bytes × Bytes) :=
  match blocks (8 * input.length + 1) (Bits.ofBytes input) #[] with
  | none => none
  | some (b, out) => some (out.toList, b.align)

def adler32 (data : Bytes) : Nat :=
  let (a, b) := data.foldl (fun (p : Nat × Nat) x =>
    let a := (p.1 + x.toNat) % 65521
    (a, (p.2 + a) % 65521)) (1, 0)
  b * 65536 + a

/-- RFC 1950: CMF, FLG, deflate data, Adler-32 (big-endian).  Returns the
uncompressed data and whatever follows the stream. -/
def inflate (input : Bytes) : Option (Bytes × Bytes) :=
  match input with
  | cmf :: flg :: r =>
    if (cmf.toNat * 256 + flg.toNat) % 31 ≠ 0 then none else
    if cmf.toNat % 16 ≠ 8 then none else
    if cmf.toNat / 16 > 7 then none else
    if (flg.toNat / 32) % 2 = 1 then none else       -- FDICT: preset dictionary not supported
    match inflateRaw r with
    | none => none
    | some (out, rest) =>
      match rest with
      | a :: b :: c :: d :: rest' =>
        if a.toNat * 16777216 + b.toNat * 65536 + c.toNat * 256 + d.toNat = adler32 out then some (out, rest')
        else none
      | _ => none
  | _ => none

end Zlib
end EngineModel
