/-
The simplest RFC 1950/1951 encoder: stored (uncompressed) deflate blocks in a
zlib wrapper, plus the Engine blob framing (4-byte big-endian uncompressed
length followed by the zlib stream).  Used to hand the real library blobs that
no libz encoder produced (property C02, direction Spec → library).
-/
import EngineModel.Zlib.Inflate

namespace EngineModel
namespace Zlib

def le16 (n : Nat) : Bytes := [(n % 256).toUInt8, (n / 256 % 256).toUInt8]

/-- one stored block: BFINAL, BTYPE=00, padding to the byte boundary (one header byte), LEN, NLEN, data -/
def storedBlock (final : Bool) (chunk : Bytes) : Bytes :=
  (if final then 1 else 0) :: (le16 chunk.length ++ le16 (65535 - chunk.length) ++ chunk)

def storedBlocks : Nat → Bytes → Bytes
  | 0, x => storedBlock true (x.take 65535)      -- not reached with enough fuel
  | fuel + 1, x =>
    if x.length ≤ 65535 then storedBlock true x
    else storedBlock false (x.take 65535) ++ storedBlocks fuel (x.drop 65535)

def be32 (n : Nat) : Bytes :=
  [(n / 16777216 % 256).toUInt8, (n / 65536 % 256).toUInt8, (n / 256 % 256).toUInt8, (n % 256).toUInt8]

/-- zlib stream made of stored blocks -/
def deflateStored (x : Bytes) : Bytes :=
  [0x78, 0x01] ++ storedBlocks x.length x ++ be32 (adler32 x)

/-- Engine framing of a compressed column -/
def frame (payload : Bytes) : Bytes := be32 payload.length ++ deflateStored payload

/-- Result-level reading of a stored compressed column, as the format defines it:
empty column or zero length = no data; otherwise the zlib stream after the
4-byte length (the length is advisory: it sizes the output buffer). -/
def unframe (blob : Bytes) : Option Bytes :=
  match blob with
  | [] => some []
  | a :: b :: c :: d :: r =>
    if a.toNat * 16777216 + b.toNat * 65536 + c.toNat * 256 + d.toNat = 0 then some [] else
    (inflate r).map (·.1)
  | _ => none

end Zlib
end EngineModel
