/-
The five schema-2.x performance-data layouts, written from the Engine format
description as data for the codec combinators (this is the *Spec*: the
independent reading of the binary layout, not a transcription of the C++).
Each value's `extra` is the free-form trailing remainder.
Doubles are `UInt64` bit patterns; `int64`/`int32` fields are bit patterns too.
-/
import EngineModel.Format.Codec

namespace EngineModel
namespace V2

open Codec

structure Color where
  a : UInt8
  r : UInt8
  g : UInt8
  b : UInt8
  deriving Repr, DecidableEq, Inhabited

def color : Codec Color :=
  map (fun (p : UInt8 × UInt8 × UInt8 × UInt8) => ⟨p.1, p.2.1, p.2.2.1, p.2.2.2⟩)
      (fun c => (c.a, c.r, c.g, c.b))
      (pair u8 (pair u8 (pair u8 u8)))

theorem color_sound : color.Sound (fun _ => True) :=
  (map_sound (fun _ => rfl)
    (pair_sound u8_sound (pair_sound u8_sound (pair_sound u8_sound u8_sound)))).mono
    (fun _ _ => ⟨trivial, trivial, trivial, trivial⟩)

theorem color_exact : color.Exact (fun _ => True) :=
  (map_exact (fun _ => rfl)
    (pair_exact u8_exact (pair_exact u8_exact (pair_exact u8_exact u8_exact)))).mono
    (fun _ _ => trivial)

/-! ## beat data -/

structure Marker where
  off : UInt64        -- double LE
  beatNo : UInt64     -- int64 LE
  nBeats : UInt32     -- int32 LE
  unk : UInt32        -- int32 LE
  deriving Repr, DecidableEq, Inhabited

def marker : Codec Marker :=
  map (fun (p : UInt64 × UInt64 × UInt32 × UInt32) => ⟨p.1, p.2.1, p.2.2.1, p.2.2.2⟩)
      (fun m => (m.off, m.beatNo, m.nBeats, m.unk))
      (pair u64le (pair u64le (pair u32le u32le)))

theorem marker_sound : marker.Sound (fun _ => True) :=
  (map_sound (fun _ => rfl)
    (pair_sound u64le_sound (pair_sound u64le_sound (pair_sound u32le_sound u32le_sound)))).mono
    (fun _ _ => ⟨trivial, trivial, trivial, trivial⟩)

theorem marker_exact : marker.Exact (fun _ => True) :=
  (map_exact (fun _ => rfl)
    (pair_exact u64le_exact (pair_exact u64le_exact (pair_exact u32le_exact u32le_exact)))).mono
    (fun _ _ => trivial)

theorem marker_enc_length (m : Marker) : (marker.enc m).length = 24 := rfl

def grid : Codec (List Marker) := counted u64be marker

structure Beat where
  sampleRate : UInt64   -- double BE
  samples : UInt64      -- double BE
  isSet : UInt8
  dflt : List Marker
  adj : List Marker
  deriving Repr, DecidableEq, Inhabited

def beat : Codec Beat :=
  map (fun (p : UInt64 × UInt64 × UInt8 × List Marker × List Marker) =>
        ⟨p.1, p.2.1, p.2.2.1, p.2.2.2.1, p.2.2.2.2⟩)
      (fun v => (v.sampleRate, v.samples, v.isSet, v.dflt, v.adj))
      (pair u64be (pair u64be (pair u8 (pair grid grid))))

def Beat.Valid (v : Beat) : Prop := v.dflt.length < maxCount ∧ v.adj.length < maxCount

theorem grid_sound : grid.Sound (fun l => l.length < maxCount) :=
  (counted_sound u64be_sound marker_sound).mono (fun _ h => ⟨h, fun _ _ => trivial⟩)

theorem grid_exact : grid.Exact (fun l => l.length < maxCount) :=
  (counted_exact u64be_exact marker_exact).mono (fun _ h => h.1)

theorem beat_sound : beat.Sound Beat.Valid :=
  (map_sound (fun _ => rfl)
    (pair_sound u64be_sound (pair_sound u64be_sound (pair_sound u8_sound
      (pair_sound grid_sound grid_sound))))).mono
    (fun _ h => ⟨trivial, trivial, trivial, h.1, h.2⟩)

theorem beat_exact : beat.Exact Beat.Valid :=
  (map_exact (fun _ => rfl)
    (pair_exact u64be_exact (pair_exact u64be_exact (pair_exact u8_exact
      (pair_exact grid_exact grid_exact))))).mono
    (fun _ h => ⟨h.2.2.2.1, h.2.2.2.2⟩)

/-! ## quick cues -/

structure Cue where
  label : Bytes
  off : UInt64          -- double BE
  color : Color
  deriving Repr, DecidableEq, Inhabited

def cue : Codec Cue :=
  map (fun (p : Bytes × UInt64 × Color) => ⟨p.1, p.2.1, p.2.2⟩)
      (fun q => (q.label, q.off, q.color))
      (pair lp8 (pair u64be color))

theorem cue_sound : cue.Sound (fun q => q.label.length ≤ 255) :=
  (map_sound (fun _ => rfl) (pair_sound lp8_sound (pair_sound u64be_sound color_sound))).mono
    (fun _ h => ⟨h, trivial, trivial⟩)

theorem cue_exact : cue.Exact (fun q => q.label.length ≤ 255) :=
  (map_exact (fun _ => rfl) (pair_exact lp8_exact (pair_exact u64be_exact color_exact))).mono
    (fun _ h => h.1)

/-- The wire form keeps the raw flag byte (bijective with the bytes). -/
structure CuesRaw where
  cues : List Cue
  adjMain : UInt64
  isAdj : UInt8
  defMain : UInt64
  deriving Repr, DecidableEq, Inhabited

def cuesRaw : Codec CuesRaw :=
  map (fun (p : List Cue × UInt64 × UInt8 × UInt64) => ⟨p.1, p.2.1, p.2.2.1, p.2.2.2⟩)
      (fun v => (v.cues, v.adjMain, v.isAdj, v.defMain))
      (pair (counted u64be cue) (pair u64be (pair u8 u64be)))

def CuesRaw.Valid (v : CuesRaw) : Prop :=
  v.cues.length < maxCount ∧ ∀ q ∈ v.cues, q.label.length ≤ 255

theorem cuesRaw_sound : cuesRaw.Sound CuesRaw.Valid :=
  (map_sound (fun _ => rfl)
    (pair_sound (counted_sound u64be_sound cue_sound)
      (pair_sound u64be_sound (pair_sound u8_sound u64be_sound)))).mono
    (fun _ h => ⟨h, trivial, trivial, trivial⟩)

theorem cuesRaw_exact : cuesRaw.Exact CuesRaw.Valid :=
  (map_exact (fun _ => rfl)
    (pair_exact (counted_exact u64be_exact cue_exact)
      (pair_exact u64be_exact (pair_exact u8_exact u64be_exact)))).mono
    (fun _ h => h.1)

/-- The library's view: the flag is a `bool`. -/
structure Cues where
  cues : List Cue
  adjMain : UInt64
  isAdj : Bool
  defMain : UInt64
  deriving Repr, DecidableEq, Inhabited

def Cues.toRaw (v : Cues) : CuesRaw := ⟨v.cues, v.adjMain, if v.isAdj then 1 else 0, v.defMain⟩
def CuesRaw.toCues (v : CuesRaw) : Cues := ⟨v.cues, v.adjMain, v.isAdj != 0, v.defMain⟩
/-- The one permitted normalisation of C04: a non-zero flag byte becomes 1. -/
def CuesRaw.normFlag (v : CuesRaw) : CuesRaw := { v with isAdj := if v.isAdj != 0 then 1 else 0 }

def cues : Codec Cues := map CuesRaw.toCues Cues.toRaw cuesRaw

def Cues.Valid (v : Cues) : Prop := v.cues.length < maxCount ∧ ∀ q ∈ v.cues, q.label.length ≤ 255

theorem toCues_toRaw (v : Cues) : v.toRaw.toCues = v := by
  cases v with
  | mk c a i d => cases i <;> rfl

theorem toRaw_toCues (v : CuesRaw) : v.toCues.toRaw = v.normFlag := by
  cases v with
  | mk c a i d => rfl

theorem cues_sound : cues.Sound Cues.Valid :=
  map_sound toCues_toRaw cuesRaw_sound

/-! ## loops -/

structure Loop where
  label : Bytes
  start : UInt64        -- double LE
  stop : UInt64         -- double LE
  isStart : UInt8
  isEnd : UInt8
  color : Color
  deriving Repr, DecidableEq, Inhabited

def loop : Codec Loop :=
  map (fun (p : Bytes × UInt64 × UInt64 × UInt8 × UInt8 × Color) =>
        ⟨p.1, p.2.1, p.2.2.1, p.2.2.2.1, p.2.2.2.2.1, p.2.2.2.2.2⟩)
      (fun l => (l.label, l.start, l.stop, l.isStart, l.isEnd, l.color))
      (pair lp8 (pair u64le (pair u64le (pair u8 (pair u8 color)))))

theorem loop_sound : loop.Sound (fun l => l.label.length ≤ 255) :=
  (map_sound (fun _ => rfl)
    (pair_sound lp8_sound (pair_sound u64le_sound (pair_sound u64le_sound
      (pair_sound u8_sound (pair_sound u8_sound color_sound)))))).mono
    (fun _ h => ⟨h, trivial, trivial, trivial, trivial, trivial⟩)

theorem loop_exact : loop.Exact (fun l => l.label.length ≤ 255) :=
  (map_exact (fun _ => rfl)
    (pair_exact lp8_exact (pair_exact u64le_exact (pair_exact u64le_exact
      (pair_exact u8_exact (pair_exact u8_exact color_exact)))))).mono
    (fun _ h => h.1)

abbrev Loops := List Loop

def loops : Codec Loops := counted u64le loop

def LoopsValid (v : Loops) : Prop := v.length < maxCount ∧ ∀ l ∈ v, l.label.length ≤ 255

theorem loops_sound : loops.Sound LoopsValid := counted_sound u64le_sound loop_sound
theorem loops_exact : loops.Exact LoopsValid := counted_exact u64le_exact loop_exact

/-! ## overview waveform -/

structure Ovw where
  spp : UInt64          -- double BE: samples per waveform point
  points : Bytes        -- 3 bytes (low, mid, high) per point
  maxPt : Bytes         -- 3 bytes
  deriving Repr, DecidableEq, Inhabited

def Ovw.count (v : Ovw) : UInt64 := UInt64.ofNat (v.points.length / 3)

def ovwBody (n : UInt64) : Codec Ovw :=
  map (fun (p : Unit × UInt64 × Bytes × Bytes) => ⟨p.2.1, p.2.2.1, p.2.2.2⟩)
      (fun v => ((), v.spp, v.points, v.maxPt))
      (pair (expect u64be n) (pair u64be (pair (bytesN (3 * n.toNat)) (bytesN 3))))

/-- Two equal signed counts, the per-point span, the points, one maximum point. -/
def ovw : Codec Ovw := dep (filter (fun k => decide (k.toNat < maxCount)) u64be) Ovw.count ovwBody

def Ovw.Valid (v : Ovw) : Prop :=
  v.points.length % 3 = 0 ∧ v.points.length / 3 < maxCount ∧ v.maxPt.length = 3

theorem ovwBody_sound (n : UInt64) :
    (ovwBody n).Sound (fun v => v.points.length = 3 * n.toNat ∧ v.maxPt.length = 3) :=
  (map_sound (fun _ => rfl)
    (pair_sound (expect_sound n u64be_sound trivial)
      (pair_sound u64be_sound (pair_sound (bytesN_sound _) (bytesN_sound 3))))).mono
    (fun _ h => ⟨trivial, trivial, h.1, h.2⟩)

theorem ovwBody_exact (n : UInt64) :
    (ovwBody n).Exact (fun v => v.points.length = 3 * n.toNat ∧ v.maxPt.length = 3) :=
  (map_exact (fun _ => rfl)
    (pair_exact (expect_exact n u64be_exact)
      (pair_exact u64be_exact (pair_exact (bytesN_exact _) (bytesN_exact 3))))).mono
    (fun _ h => ⟨h.2.2.1, h.2.2.2⟩)

theorem Ovw.count_toNat {v : Ovw} (h : v.points.length / 3 < maxCount) :
    v.count.toNat = v.points.length / 3 := by
  unfold Ovw.count
  simp [UInt64.toNat_ofNat]
  unfold maxCount at h; omega

theorem ovw_sound : ovw.Sound Ovw.Valid := by
  have h := dep_sound (key := Ovw.count) (filter_sound (p := fun k => decide (k.toNat < maxCount)) u64be_sound)
    ovwBody_sound
  refine h.mono ?_
  intro v ⟨h1, h2, h3⟩
  have hc := Ovw.count_toNat h2
  refine ⟨⟨trivial, by simp [hc, h2]⟩, ?_, h3⟩
  rw [hc]; omega

theorem ovw_exact : ovw.Exact Ovw.Valid := by
  have h := dep_exact (key := Ovw.count) (filter_exact (p := fun k => decide (k.toNat < maxCount)) u64be_exact)
    ovwBody_exact (by
      intro k v ⟨h1, _⟩
      unfold Ovw.count
      rw [h1]
      simp)
  refine h.mono ?_
  intro v ⟨⟨_, hk⟩, h1, h3⟩
  simp at hk
  refine ⟨by omega, ?_, h3⟩
  rw [h1]; simpa using hk

/-! ## track data -/

structure Track where
  sampleRate : UInt64   -- double BE
  samples : UInt64      -- int64 BE
  key : UInt32          -- int32 BE
  lo : UInt64           -- double BE
  mid : UInt64
  hi : UInt64
  deriving Repr, DecidableEq, Inhabited

def track : Codec Track :=
  map (fun (p : UInt64 × UInt64 × UInt32 × UInt64 × UInt64 × UInt64) =>
        ⟨p.1, p.2.1, p.2.2.1, p.2.2.2.1, p.2.2.2.2.1, p.2.2.2.2.2⟩)
      (fun v => (v.sampleRate, v.samples, v.key, v.lo, v.mid, v.hi))
      (pair u64be (pair u64be (pair u32be (pair u64be (pair u64be u64be)))))

theorem track_sound : track.Sound (fun _ => True) :=
  (map_sound (fun _ => rfl)
    (pair_sound u64be_sound (pair_sound u64be_sound (pair_sound u32be_sound
      (pair_sound u64be_sound (pair_sound u64be_sound u64be_sound)))))).mono
    (fun _ _ => ⟨trivial, trivial, trivial, trivial, trivial, trivial⟩)

theorem track_exact : track.Exact (fun _ => True) :=
  (map_exact (fun _ => rfl)
    (pair_exact u64be_exact (pair_exact u64be_exact (pair_exact u32be_exact
      (pair_exact u64be_exact (pair_exact u64be_exact u64be_exact)))))).mono
    (fun _ _ => trivial)

theorem track_enc_length (v : Track) : (track.enc v).length = 44 := rfl

end V2
end EngineModel
