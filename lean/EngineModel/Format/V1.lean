/-
The six schema-1.x performance-data layouts as a Spec: the wire formats are
codec-combinator layouts (the 1.x wire formats of beat data, quick cues and
loops are the 2.x ones; waveforms and track data are defined here), and the
logical values (`std::optional` fields, absent cue/loop slots, beat grids
without per-marker beat counts, waveforms without their maximum entry) are
related to the wire tuples by explicit `toWire` / `ofWire` maps written from
the format description:

* a double / integer field holding 0 means "absent";
* a cue (loop) slot whose (start) offset is exactly −1.0 is an empty slot;
  an empty slot is written with an empty label, offset(s) −1.0 and zero
  colour/flags; a present loop has both flags 1;
* a beat-grid marker carries the number of beats to the next marker, 0 on the
  last; a grid has 0 or 2..32768 markers, strictly increasing in index and
  offset; beat data may be followed by zero bytes only;
* the main-cue flag is 0 iff adjusted = default;
* waveforms end with one extra entry holding the per-channel maxima; the
  overview waveform has no opacity channel (read back as 255);
* quick cues hold exactly 8 slots when written.

`encodeX : value → Option Bytes` (`none` = outside the format) and
`decodeX : Bytes → Option value` (`none` = malformed).
-/
import EngineModel.Format.V2
import EngineModel.Impl.V1

namespace EngineModel
namespace V1
open Codec
open EngineModel.Impl.V1 (GMarker Beat HotCue Cues LoopV Loops Entry Wave Track)

def optZ (x : UInt64) : Option UInt64 := if F64.isZero x then none else some x

/-! ### track data: sample rate, sample count, average loudness, key; exactly 28 bytes -/

def trackWire : Codec (UInt64 × UInt64 × UInt64 × UInt32) := pair u64be (pair u64be (pair u64be u32be))

theorem trackWire_sound : trackWire.Sound (fun _ => True) :=
  (pair_sound u64be_sound (pair_sound u64be_sound (pair_sound u64be_sound u32be_sound))).mono
    (fun _ _ => ⟨trivial, trivial, trivial, trivial⟩)
theorem trackWire_exact : trackWire.Exact (fun _ => True) :=
  (pair_exact u64be_exact (pair_exact u64be_exact (pair_exact u64be_exact u32be_exact))).mono
    (fun _ _ => trivial)

def trackToWire (v : Track) : UInt64 × UInt64 × UInt64 × UInt32 :=
  (v.sampleRate.getD 0, v.sampleCount.getD 0, v.loudness.getD 0, v.key.getD 0)
def trackOfWire (w : UInt64 × UInt64 × UInt64 × UInt32) : Track :=
  ⟨optZ w.1, if w.2.1 = 0 then none else some w.2.1, optZ w.2.2.1, if w.2.2.2 = 0 then none else some w.2.2.2⟩

def encodeTrack (v : Track) : Option Bytes := some (trackWire.enc (trackToWire v))
def decodeTrack (bs : Bytes) : Option Track :=
  match trackWire.dec bs with
  | some (w, []) => some (trackOfWire w)
  | _ => none

/-! ### waveforms: count, count again, samples per entry, entries, one entry of maxima -/

structure WaveRaw where
  spe : UInt64
  points : Bytes
  maxPt : Bytes
  deriving Repr, DecidableEq, Inhabited

def waveBody (w : Nat) (n : UInt64) : Codec WaveRaw :=
  map (fun (p : Unit × UInt64 × Bytes × Bytes) => ⟨p.2.1, p.2.2.1, p.2.2.2⟩)
      (fun v => ((), v.spe, v.points, v.maxPt))
      (pair (expect u64be n) (pair u64be (pair (bytesN (w * n.toNat)) (bytesN w))))

def waveCount (w : Nat) (v : WaveRaw) : UInt64 := UInt64.ofNat (v.points.length / w)

def wave (w : Nat) : Codec WaveRaw :=
  dep (filter (fun k => decide (k.toNat < maxCount)) u64be) (waveCount w) (waveBody w)

def WaveRaw.Valid (w : Nat) (v : WaveRaw) : Prop :=
  v.points.length % w = 0 ∧ v.points.length / w < maxCount ∧ v.maxPt.length = w

theorem waveBody_sound (w : Nat) (n : UInt64) :
    (waveBody w n).Sound (fun v => v.points.length = w * n.toNat ∧ v.maxPt.length = w) :=
  (map_sound (fun _ => rfl)
    (pair_sound (expect_sound n u64be_sound trivial)
      (pair_sound u64be_sound (pair_sound (bytesN_sound _) (bytesN_sound w))))).mono
    (fun _ h => ⟨trivial, trivial, h.1, h.2⟩)

theorem waveBody_exact (w : Nat) (n : UInt64) :
    (waveBody w n).Exact (fun v => v.points.length = w * n.toNat ∧ v.maxPt.length = w) :=
  (map_exact (fun _ => rfl)
    (pair_exact (expect_exact n u64be_exact)
      (pair_exact u64be_exact (pair_exact (bytesN_exact _) (bytesN_exact w))))).mono
    (fun _ h => ⟨h.2.2.1, h.2.2.2⟩)

theorem waveCount_toNat {w : Nat} {v : WaveRaw} (h : v.points.length / w < maxCount) :
    (waveCount w v).toNat = v.points.length / w := by
  unfold waveCount
  simp [UInt64.toNat_ofNat]
  unfold maxCount at h; omega

theorem wave_sound (w : Nat) (hw : 0 < w) : (wave w).Sound (WaveRaw.Valid w) := by
  have h := dep_sound (key := waveCount w)
    (filter_sound (p := fun k => decide (k.toNat < maxCount)) u64be_sound) (waveBody_sound w)
  refine h.mono ?_
  intro v ⟨h1, h2, h3⟩
  have hc := waveCount_toNat h2
  refine ⟨⟨trivial, by simp [hc, h2]⟩, ?_, h3⟩
  rw [hc]
  have := Nat.div_add_mod v.points.length w
  omega

theorem wave_exact (w : Nat) (hw : 0 < w) : (wave w).Exact (WaveRaw.Valid w) := by
  have h := dep_exact (key := waveCount w)
    (filter_exact (p := fun k => decide (k.toNat < maxCount)) u64be_exact) (waveBody_exact w) (by
      intro k v ⟨h1, _⟩
      unfold waveCount
      rw [h1, Nat.mul_div_cancel_left _ hw]
      simp)
  refine h.mono ?_
  intro v ⟨⟨_, hk⟩, h1, h3⟩
  simp at hk
  have hc : v.points.length / w = (waveCount w v).toNat := by
    unfold waveCount at h1 ⊢
    rw [h1, Nat.mul_div_cancel_left _ hw]; simp
  refine ⟨?_, ?_, h3⟩
  · rw [h1]; exact Nat.mul_mod_right _ _
  · rw [hc]; exact hk

def maxOf (f : Entry → UInt8) (es : List Entry) : UInt8 :=
  es.foldl (fun m e => if m < f e then f e else m) 0

def flat3 (es : List Entry) : Bytes := es.flatMap fun e => [e.lv, e.mv, e.hv]
def flat6 (es : List Entry) : Bytes := es.flatMap fun e => [e.lv, e.mv, e.hv, e.lo, e.mo, e.ho]

def chunk3 : Bytes → List Entry
  | a :: b :: c :: r => ⟨a, b, c, 255, 255, 255⟩ :: chunk3 r
  | _ => []
def chunk6 : Bytes → List Entry
  | a :: b :: c :: d :: e :: f :: r => ⟨a, b, c, d, e, f⟩ :: chunk6 r
  | _ => []

def encodeOvw (v : Wave) : Option Bytes :=
  some ((wave 3).enc ⟨v.spe, flat3 v.entries,
    [maxOf (·.lv) v.entries, maxOf (·.mv) v.entries, maxOf (·.hv) v.entries]⟩)
def decodeOvw (bs : Bytes) : Option Wave :=
  match (wave 3).dec bs with
  | some (raw, []) => some ⟨raw.spe, chunk3 raw.points⟩
  | _ => none

def encodeHires (v : Wave) : Option Bytes :=
  some ((wave 6).enc ⟨v.spe, flat6 v.entries,
    [maxOf (·.lv) v.entries, maxOf (·.mv) v.entries, maxOf (·.hv) v.entries,
     maxOf (·.lo) v.entries, maxOf (·.mo) v.entries, maxOf (·.ho) v.entries]⟩)
def decodeHires (bs : Bytes) : Option Wave :=
  match (wave 6).dec bs with
  | some (raw, []) => some ⟨raw.spe, chunk6 raw.points⟩
  | _ => none

/-! ### quick cues (wire format = 2.x `cuesRaw`, no trailing data) -/

def cueToWire : Option HotCue → V2.Cue
  | none => ⟨[], F64.negOne, ⟨0, 0, 0, 0⟩⟩
  | some q => ⟨q.label, q.off, q.color⟩
def cueOfWire (q : V2.Cue) : Option HotCue :=
  if F64.ne q.off F64.negOne then some ⟨q.label, q.off, q.color⟩ else none

def cueSlotOk : Option HotCue → Bool
  | none => true
  | some q => decide (1 ≤ q.label.length ∧ q.label.length ≤ 255)

def encodeCues (v : Cues) : Option Bytes :=
  if v.cues.length = 8 ∧ v.cues.all cueSlotOk then
    some (V2.cuesRaw.enc ⟨v.cues.map cueToWire, v.adjMain, if F64.eq v.adjMain v.defMain then 0 else 1, v.defMain⟩)
  else none

def decodeCues (bs : Bytes) : Option Cues :=
  match V2.cuesRaw.dec bs with
  | some (raw, []) =>
    if raw.isAdj.toNat > 1 ∨ (raw.isAdj.toNat = 0 ∧ F64.ne raw.adjMain raw.defMain) then none
    else some ⟨raw.cues.map cueOfWire, raw.adjMain, raw.defMain⟩
  | _ => none

/-! ### loops (wire format = 2.x `loops`, no trailing data) -/

def loopToWire : Option LoopV → V2.Loop
  | none => ⟨[], F64.negOne, F64.negOne, 0, 0, ⟨0, 0, 0, 0⟩⟩
  | some l => ⟨l.label, l.start, l.stop, 1, 1, l.color⟩
def loopOfWire (l : V2.Loop) : Option LoopV :=
  if F64.ne l.start F64.negOne then some ⟨l.label, l.start, l.stop, l.color⟩ else none

def loopSlotOk : Option LoopV → Bool
  | none => true
  | some l => decide (1 ≤ l.label.length ∧ l.label.length ≤ 255)

def encodeLoops (v : Loops) : Option Bytes :=
  if v.all loopSlotOk then some (V2.loops.enc (v.map loopToWire)) else none

def decodeLoops (bs : Bytes) : Option Loops :=
  match V2.loops.dec bs with
  | some (ws, []) => some (ws.map loopOfWire)
  | _ => none

/-! ### beat data (wire format = 2.x `beat`, followed by zero bytes only) -/

/-- a well-formed grid: empty, or 2..32768 markers strictly increasing in index
(by less than 2^31) and in offset -/
def gridOk : List GMarker → Bool
  | [] => true
  | [_] => false
  | g => decide (g.length ≤ 32768) && go g
where
  go : List GMarker → Bool
    | a :: b :: rest =>
      decide (Prim.s32 a.index < Prim.s32 b.index) &&
      decide (Prim.s32 b.index - Prim.s32 a.index ≤ 2147483647) &&
      !F64.le b.off a.off && go (b :: rest)
    | _ => true

def gridToWire : List GMarker → List V2.Marker
  | [] => []
  | [a] => [⟨a.off, Prim.u64OfInt (Prim.s32 a.index), 0, 0⟩]
  | a :: b :: rest =>
    ⟨a.off, Prim.u64OfInt (Prim.s32 a.index), Prim.u32OfInt (Prim.s32 b.index - Prim.s32 a.index), 0⟩ ::
      gridToWire (b :: rest)

/-- markers read back: index = low 32 bits of the beat number -/
def gridOfWire (ws : List V2.Marker) : List GMarker :=
  ws.map fun m => ⟨UInt32.ofNat (m.beatNo.toNat % 4294967296), m.off⟩

/-- the announced beat counts must equal the index differences, 0 on the last -/
def countsOk : List V2.Marker → Bool
  | [] => true
  | [a] => a.nBeats == 0
  | a :: b :: rest =>
    decide (Prim.s32 (UInt32.ofNat (b.beatNo.toNat % 4294967296)) - Prim.s32 (UInt32.ofNat (a.beatNo.toNat % 4294967296))
      = Prim.s32 a.nBeats) && countsOk (b :: rest)

def wireGridOk (ws : List V2.Marker) : Bool := gridOk (gridOfWire ws) && countsOk ws

def encodeBeat (v : Beat) : Option Bytes :=
  if gridOk v.dflt && gridOk v.adj then
    some (V2.beat.enc ⟨v.sampleRate.getD 0, v.sampleCount.getD 0, 1, gridToWire v.dflt, gridToWire v.adj⟩)
  else none

def decodeBeat (bs : Bytes) : Option Beat :=
  match V2.beat.dec bs with
  | some (w, rest) =>
    if wireGridOk w.dflt && wireGridOk w.adj && rest.all (· == 0) then
      some ⟨optZ w.sampleRate, optZ w.samples, gridOfWire w.dflt, gridOfWire w.adj⟩
    else none
  | none => none

end V1
end EngineModel
