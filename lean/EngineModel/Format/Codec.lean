/-
A tiny codec-combinator language with its laws proved once, generically.
A `Codec α` is an encoder together with a prefix decoder that returns the
unconsumed remainder.  Two laws:

* `Sound c P`  — every `P`-valid value is decoded back from its encoding,
                 whatever bytes follow (round trip, property C03);
* `Exact c P`  — whatever the decoder accepts *is* the encoding of the decoded
                 value followed by the remainder, and the value is valid
                 (byte preservation, property C04; also: the decoder accepts
                 nothing that the encoder could not have produced).
-/
import EngineModel.Basic.Prim

namespace EngineModel

structure Codec (α : Type) where
  enc : α → Bytes
  dec : Bytes → Option (α × Bytes)

namespace Codec

def Sound {α} (c : Codec α) (P : α → Prop) : Prop :=
  ∀ a, P a → ∀ r, c.dec (c.enc a ++ r) = some (a, r)

def Exact {α} (c : Codec α) (P : α → Prop) : Prop :=
  ∀ bs a r, c.dec bs = some (a, r) → P a ∧ bs = c.enc a ++ r

/-- Decoding never produces a remainder longer than its input, and consumes
exactly the encoding's length. -/
theorem Exact.length_le {α} {c : Codec α} {P} (h : c.Exact P) {bs a r}
    (hd : c.dec bs = some (a, r)) : r.length ≤ bs.length := by
  have := (h bs a r hd).2
  rw [this]; simp

/-! ### primitives -/

def u8 : Codec UInt8 where
  enc x := [x]
  dec
    | b :: r => some (b, r)
    | [] => none

theorem u8_sound : u8.Sound (fun _ => True) := by
  intro a _ r; rfl

theorem u8_exact : u8.Exact (fun _ => True) := by
  intro bs a r h
  cases bs with
  | nil => simp [u8] at h
  | cons b t => simp [u8] at h; obtain ⟨rfl, rfl⟩ := h; simp [u8]

def u32be : Codec UInt32 where
  enc := Prim.encU32BE
  dec
    | a :: b :: c :: d :: r => some (Prim.decU32BE a b c d, r)
    | _ => none

def u32le : Codec UInt32 where
  enc := Prim.encU32LE
  dec
    | a :: b :: c :: d :: r => some (Prim.decU32LE a b c d, r)
    | _ => none

theorem u32be_sound : u32be.Sound (fun _ => True) := by
  intro x _ r
  obtain ⟨a, b, c, d, h, hd⟩ := Prim.encU32BE_cases x
  simp [u32be, h, hd]

theorem u32le_sound : u32le.Sound (fun _ => True) := by
  intro x _ r
  obtain ⟨a, b, c, d, h, hd⟩ := Prim.encU32LE_cases x
  simp [u32le, h, hd]

theorem u32be_exact : u32be.Exact (fun _ => True) := by
  intro bs x r h
  match bs, h with
  | a :: b :: c :: d :: t, h =>
    simp [u32be] at h
    obtain ⟨rfl, rfl⟩ := h
    simp [u32be, Prim.encU32BE_decU32BE]

theorem u32le_exact : u32le.Exact (fun _ => True) := by
  intro bs x r h
  match bs, h with
  | a :: b :: c :: d :: t, h =>
    simp [u32le] at h
    obtain ⟨rfl, rfl⟩ := h
    simp [u32le, Prim.encU32LE_decU32LE]

/-! ### sequencing -/

def pair {α β} (c : Codec α) (d : Codec β) : Codec (α × β) where
  enc p := c.enc p.1 ++ d.enc p.2
  dec bs :=
    match c.dec bs with
    | none => none
    | some (a, r) =>
      match d.dec r with
      | none => none
      | some (b, r') => some ((a, b), r')

theorem pair_sound {α β} {c : Codec α} {d : Codec β} {P Q}
    (hc : c.Sound P) (hd : d.Sound Q) : (pair c d).Sound (fun p => P p.1 ∧ Q p.2) := by
  intro ⟨a, b⟩ ⟨ha, hb⟩ r
  simp only [pair, List.append_assoc]
  rw [hc a ha]; simp only []; rw [hd b hb]

theorem pair_exact {α β} {c : Codec α} {d : Codec β} {P Q}
    (hc : c.Exact P) (hd : d.Exact Q) : (pair c d).Exact (fun p => P p.1 ∧ Q p.2) := by
  intro bs ⟨a, b⟩ r h
  simp only [pair] at h
  split at h
  · simp at h
  · rename_i a' r1 h1
    split at h
    · simp at h
    · rename_i b' r2 h2
      simp at h
      obtain ⟨⟨rfl, rfl⟩, rfl⟩ := h
      obtain ⟨pa, e1⟩ := hc _ _ _ h1
      obtain ⟨pb, e2⟩ := hd _ _ _ h2
      refine ⟨⟨pa, pb⟩, ?_⟩
      simp only [pair, List.append_assoc]
      rw [e1, e2]

/-- Transport along a bijection between the wire tuple and the value struct. -/
def map {α β} (f : α → β) (g : β → α) (c : Codec α) : Codec β where
  enc b := c.enc (g b)
  dec bs :=
    match c.dec bs with
    | none => none
    | some (a, r) => some (f a, r)

theorem map_sound {α β} {f : α → β} {g : β → α} {c : Codec α} {P}
    (hfg : ∀ b, f (g b) = b) (hc : c.Sound P) : (map f g c).Sound (fun b => P (g b)) := by
  intro b hb r
  simp only [map]
  rw [hc _ hb]; simp only [hfg]

theorem map_exact {α β} {f : α → β} {g : β → α} {c : Codec α} {P}
    (hgf : ∀ a, g (f a) = a) (hc : c.Exact P) : (map f g c).Exact (fun b => P (g b)) := by
  intro bs b r h
  simp only [map] at h
  split at h
  · simp at h
  · rename_i a r1 h1
    simp at h
    obtain ⟨rfl, rfl⟩ := h
    obtain ⟨pa, e⟩ := hc _ _ _ h1
    simp only [map, hgf]
    exact ⟨pa, e⟩

/-- 64-bit big-endian = two 32-bit big-endian halves, high first. -/
def u64be : Codec UInt64 :=
  map (fun p => Prim.join64 p.1 p.2) (fun x => (Prim.hi32 x, Prim.lo32 x)) (pair u32be u32be)

/-- 64-bit little-endian = two 32-bit little-endian halves, low first. -/
def u64le : Codec UInt64 :=
  map (fun p => Prim.join64 p.2 p.1) (fun x => (Prim.lo32 x, Prim.hi32 x)) (pair u32le u32le)

theorem u64be_sound : u64be.Sound (fun _ => True) := by
  have := map_sound (f := fun p : UInt32 × UInt32 => Prim.join64 p.1 p.2)
    (g := fun x => (Prim.hi32 x, Prim.lo32 x)) (fun b => Prim.join64_hi_lo b)
    (pair_sound u32be_sound u32be_sound)
  intro a _ r; exact this a ⟨trivial, trivial⟩ r

theorem u64le_sound : u64le.Sound (fun _ => True) := by
  have := map_sound (f := fun p : UInt32 × UInt32 => Prim.join64 p.2 p.1)
    (g := fun x => (Prim.lo32 x, Prim.hi32 x)) (fun b => Prim.join64_hi_lo b)
    (pair_sound u32le_sound u32le_sound)
  intro a _ r; exact this a ⟨trivial, trivial⟩ r

theorem u64be_exact : u64be.Exact (fun _ => True) := by
  have := map_exact (f := fun p : UInt32 × UInt32 => Prim.join64 p.1 p.2)
    (g := fun x => (Prim.hi32 x, Prim.lo32 x))
    (fun a => by simp [Prim.hi32_join64, Prim.lo32_join64])
    (pair_exact u32be_exact u32be_exact)
  intro bs a r h; exact ⟨trivial, (this bs a r h).2⟩

theorem u64le_exact : u64le.Exact (fun _ => True) := by
  have := map_exact (f := fun p : UInt32 × UInt32 => Prim.join64 p.2 p.1)
    (g := fun x => (Prim.lo32 x, Prim.hi32 x))
    (fun a => by simp [Prim.hi32_join64, Prim.lo32_join64])
    (pair_exact u32le_exact u32le_exact)
  intro bs a r h; exact ⟨trivial, (this bs a r h).2⟩

/-! ### fixed-length byte runs -/

def bytesN (n : Nat) : Codec Bytes where
  enc s := s
  dec bs := if n ≤ bs.length then some (bs.take n, bs.drop n) else none

theorem bytesN_sound (n : Nat) : (bytesN n).Sound (fun s => s.length = n) := by
  intro s hs r
  simp [bytesN, ← hs]

theorem bytesN_exact (n : Nat) : (bytesN n).Exact (fun s => s.length = n) := by
  intro bs s r h
  simp only [bytesN] at h
  split at h
  · simp at h
    obtain ⟨rfl, rfl⟩ := h
    simp [bytesN]; omega
  · simp at h

/-! ### repetition -/

def encL {α} (c : Codec α) : List α → Bytes
  | [] => []
  | a :: l => c.enc a ++ encL c l

def decN {α} (c : Codec α) : Nat → Bytes → Option (List α × Bytes)
  | 0, bs => some ([], bs)
  | n + 1, bs =>
    match c.dec bs with
    | none => none
    | some (a, r) =>
      match decN c n r with
      | none => none
      | some (l, r') => some (a :: l, r')

def rep {α} (n : Nat) (c : Codec α) : Codec (List α) := ⟨encL c, decN c n⟩

theorem decN_sound {α} {c : Codec α} {P} (hc : c.Sound P) :
    ∀ (l : List α), (∀ x ∈ l, P x) → ∀ r, decN c l.length (encL c l ++ r) = some (l, r) := by
  intro l
  induction l with
  | nil => intro _ r; rfl
  | cons a l ih =>
    intro hl r
    simp only [List.length_cons, decN, encL, List.append_assoc]
    rw [hc a (hl a (by simp))]; simp only []
    rw [ih (fun x hx => hl x (by simp [hx]))]

theorem decN_exact {α} {c : Codec α} {P} (hc : c.Exact P) :
    ∀ (n : Nat) (bs : Bytes) (l : List α) (r : Bytes), decN c n bs = some (l, r) →
      l.length = n ∧ (∀ x ∈ l, P x) ∧ bs = encL c l ++ r := by
  intro n
  induction n with
  | zero =>
    intro bs l r h
    simp [decN] at h
    obtain ⟨rfl, rfl⟩ := h
    simp [encL]
  | succ n ih =>
    intro bs l r h
    simp only [decN] at h
    split at h
    · simp at h
    · rename_i a r1 h1
      split at h
      · simp at h
      · rename_i l' r2 h2
        simp at h
        obtain ⟨rfl, rfl⟩ := h
        obtain ⟨pa, e1⟩ := hc _ _ _ h1
        obtain ⟨hl, hp, e2⟩ := ih _ _ _ h2
        refine ⟨by simp [hl], ?_, ?_⟩
        · intro x hx
          simp at hx
          rcases hx with rfl | hx
          · exact pa
          · exact hp x hx
        · simp only [encL, List.append_assoc]
          rw [e1, e2]

theorem rep_sound {α} {c : Codec α} {P} (n : Nat) (hc : c.Sound P) :
    (rep n c).Sound (fun l => l.length = n ∧ ∀ x ∈ l, P x) := by
  intro l ⟨hn, hl⟩ r
  subst hn
  exact decN_sound hc l hl r

theorem rep_exact {α} {c : Codec α} {P} (n : Nat) (hc : c.Exact P) :
    (rep n c).Exact (fun l => l.length = n ∧ ∀ x ∈ l, P x) := by
  intro bs l r h
  obtain ⟨h1, h2, h3⟩ := decN_exact hc n bs l r h
  exact ⟨⟨h1, h2⟩, h3⟩

/-! ### count-prefixed lists (signed 64-bit count, must be non-negative) -/

def maxCount : Nat := 9223372036854775808  -- 2^63

def counted {α} (cnt : Codec UInt64) (c : Codec α) : Codec (List α) where
  enc l := cnt.enc (UInt64.ofNat l.length) ++ encL c l
  dec bs :=
    match cnt.dec bs with
    | none => none
    | some (k, r) => if k.toNat < maxCount then decN c k.toNat r else none

theorem counted_sound {α} {cnt : Codec UInt64} {c : Codec α} {P}
    (hk : cnt.Sound (fun _ => True)) (hc : c.Sound P) :
    (counted cnt c).Sound (fun l => l.length < maxCount ∧ ∀ x ∈ l, P x) := by
  intro l ⟨hn, hl⟩ r
  simp only [counted, List.append_assoc]
  rw [hk _ trivial]
  have : (UInt64.ofNat l.length).toNat = l.length := by
    simp [UInt64.toNat_ofNat]
    unfold maxCount at hn; omega
  simp only [this, hn, if_true]
  exact decN_sound hc l hl r

theorem counted_exact {α} {cnt : Codec UInt64} {c : Codec α} {P}
    (hk : cnt.Exact (fun _ => True)) (hc : c.Exact P) :
    (counted cnt c).Exact (fun l => l.length < maxCount ∧ ∀ x ∈ l, P x) := by
  intro bs l r h
  simp only [counted] at h
  split at h
  · simp at h
  · rename_i k r1 h1
    split at h
    · rename_i hlt
      obtain ⟨_, e1⟩ := hk _ _ _ h1
      obtain ⟨hl, hp, e2⟩ := decN_exact hc _ _ _ _ h
      refine ⟨⟨by omega, hp⟩, ?_⟩
      simp only [counted, List.append_assoc]
      rw [e1, e2, hl]
      simp
    · simp at h

/-! ### u8-length-prefixed byte strings (labels) -/

def lp8 : Codec Bytes where
  enc s := s.length.toUInt8 :: s
  dec
    | [] => none
    | n :: r => if n.toNat ≤ r.length then some (r.take n.toNat, r.drop n.toNat) else none

theorem lp8_sound : lp8.Sound (fun s => s.length ≤ 255) := by
  intro s hs r
  have : s.length.toUInt8.toNat = s.length := by
    simp [Nat.toUInt8]; omega
  simp [lp8, this]

theorem lp8_exact : lp8.Exact (fun s => s.length ≤ 255) := by
  intro bs s r h
  cases bs with
  | nil => simp [lp8] at h
  | cons n t =>
    simp only [lp8] at h
    split at h
    · rename_i hle
      simp at h
      obtain ⟨rfl, rfl⟩ := h
      have hn := n.toNat_lt
      refine ⟨by simp; omega, ?_⟩
      simp only [lp8, List.cons_append, List.take_append_drop, List.length_take]
      congr 1
      apply UInt8.toNat_inj.mp
      simp [Nat.toUInt8]
      omega
    · simp at h

/-! ### a byte read as a boolean (any non-zero is true; written back as 1) -/

def boolByte : Codec Bool where
  enc b := [if b then 1 else 0]
  dec
    | [] => none
    | x :: r => some (x != 0, r)

theorem boolByte_sound : boolByte.Sound (fun _ => True) := by
  intro b _ r
  cases b <;> simp [boolByte]

/-! ### dependent sequencing, expected constants, side conditions -/

/-- A key is written first and selects the codec for the whole value
(count-prefixed and length-prefixed layouts are instances). -/
def dep {κ β} (c : Codec κ) (key : β → κ) (f : κ → Codec β) : Codec β where
  enc b := c.enc (key b) ++ (f (key b)).enc b
  dec bs :=
    match c.dec bs with
    | none => none
    | some (k, r) => (f k).dec r

theorem dep_sound {κ β} {c : Codec κ} {key : β → κ} {f : κ → Codec β} {Pk} {Pf : κ → β → Prop}
    (hc : c.Sound Pk) (hf : ∀ k, (f k).Sound (Pf k)) :
    (dep c key f).Sound (fun b => Pk (key b) ∧ Pf (key b) b) := by
  intro b ⟨h1, h2⟩ r
  simp only [dep, List.append_assoc]
  rw [hc _ h1]; simp only []
  exact hf _ b h2 r

theorem dep_exact {κ β} {c : Codec κ} {key : β → κ} {f : κ → Codec β} {Pk} {Pf : κ → β → Prop}
    (hc : c.Exact Pk) (hf : ∀ k, (f k).Exact (Pf k)) (hkey : ∀ k b, Pf k b → key b = k) :
    (dep c key f).Exact (fun b => Pk (key b) ∧ Pf (key b) b) := by
  intro bs b r h
  simp only [dep] at h
  split at h
  · simp at h
  · rename_i k r1 h1
    obtain ⟨pk, e1⟩ := hc _ _ _ h1
    obtain ⟨pb, e2⟩ := hf k _ _ _ h
    have hk := hkey k b pb
    subst hk
    refine ⟨⟨pk, pb⟩, ?_⟩
    simp only [dep, List.append_assoc]
    rw [e1, e2]

/-- A field whose value is determined by context: written from `k`, and
required to equal `k` when read. -/
def expect {κ} [DecidableEq κ] (c : Codec κ) (k : κ) : Codec Unit where
  enc _ := c.enc k
  dec bs :=
    match c.dec bs with
    | none => none
    | some (k', r) => if k' = k then some ((), r) else none

theorem expect_sound {κ} [DecidableEq κ] {c : Codec κ} {Pk} (k : κ) (hc : c.Sound Pk) (hk : Pk k) :
    (expect c k).Sound (fun _ => True) := by
  intro _ _ r
  simp only [expect]
  rw [hc _ hk]; simp

theorem expect_exact {κ} [DecidableEq κ] {c : Codec κ} {Pk} (k : κ) (hc : c.Exact Pk) :
    (expect c k).Exact (fun _ => True) := by
  intro bs u r h
  simp only [expect] at h
  split at h
  · simp at h
  · rename_i k' r1 h1
    split at h
    · rename_i hk
      simp at h
      subst h; subst hk
      obtain ⟨_, e⟩ := hc _ _ _ h1
      exact ⟨trivial, e⟩
    · simp at h

/-- Reject decoded values that fail a side condition. -/
def filter {α} (p : α → Bool) (c : Codec α) : Codec α where
  enc := c.enc
  dec bs :=
    match c.dec bs with
    | none => none
    | some (a, r) => if p a then some (a, r) else none

theorem filter_sound {α} {p : α → Bool} {c : Codec α} {P} (hc : c.Sound P) :
    (filter p c).Sound (fun a => P a ∧ p a = true) := by
  intro a ⟨h1, h2⟩ r
  simp only [filter]
  rw [hc _ h1]; simp [h2]

theorem filter_exact {α} {p : α → Bool} {c : Codec α} {P} (hc : c.Exact P) :
    (filter p c).Exact (fun a => P a ∧ p a = true) := by
  intro bs a r h
  simp only [filter] at h
  split at h
  · simp at h
  · rename_i a' r1 h1
    split at h
    · rename_i hp
      simp at h
      obtain ⟨rfl, rfl⟩ := h
      obtain ⟨pa, e⟩ := hc _ _ _ h1
      exact ⟨⟨pa, hp⟩, e⟩
    · simp at h

/-- Weakening / strengthening of the validity predicate. -/
theorem Sound.mono {α} {c : Codec α} {P Q : α → Prop} (h : c.Sound P) (hq : ∀ a, Q a → P a) :
    c.Sound Q := fun a ha r => h a (hq a ha) r

theorem Exact.mono {α} {c : Codec α} {P Q : α → Prop} (h : c.Exact P) (hq : ∀ a, P a → Q a) :
    c.Exact Q := fun bs a r hd => ⟨hq a (h bs a r hd).1, (h bs a r hd).2⟩

/-! ### consequences used by the property theorems -/

/-- Top-level round trip with a trailing free-form remainder (`extra_data`). -/
theorem Sound.top {α} {c : Codec α} {P} (h : c.Sound P) (a : α) (ha : P a) (extra : Bytes) :
    c.dec (c.enc a ++ extra) = some (a, extra) := h a ha extra

/-- Re-encoding what was decoded gives the original bytes back. -/
theorem Exact.reencode {α} {c : Codec α} {P} (h : c.Exact P) {bs a extra}
    (hd : c.dec bs = some (a, extra)) : c.enc a ++ extra = bs := ((h bs a extra hd).2).symm

end Codec
end EngineModel
