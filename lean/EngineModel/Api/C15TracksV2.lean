/-
C15, schema 2.x tracks: the public track operations as ONE step function over
the track model of `EngineModel/TracksV2/{Model,Lens}.lean`.

`step` dispatches to `Db.create` / `Db.update` / `Db.snapshot` / `Db.set` and to
the per-column getters of `Lens.lean` (written, proved and tied by the
tracks-2.x work-package) and adds only

* `remove`   — `database::remove_track` as far as the Track table goes
               (`track_table::remove`: `invalid_argument` when no row was deleted),
* `isValid`  — `track::is_valid()` = `track_table::exists`,
* `update` through a handle whose row is gone (the UPDATE matches no row: the
  snapshot is still converted, so its rejections are thrown first; then, since
  `fix:` 8862536, `track_deleted` — nothing is written),
* `handleId` / `handleCopy` — `track::id()` and copy / assignment / destruction of
  a handle (none touches the database).

Arguments are unconstrained: slot indices are any `UInt32` (the C++ `int`), ids
any `Nat`, snapshots any `Snap`, setter values any value of their type.
-/
import EngineModel.TracksV2.Lens

namespace EngineModel.Api.C15TracksV2
open EngineModel EngineModel.TracksV2

inductive Getter where
  | album | artist | averageLoudness | beatgrid | bitrate | bpm | comment | composer | duration
  | fileExtension | filename | genre | hotCueAt (i : UInt32) | hotCues | key | lastPlayedAt
  | loopAt (i : UInt32) | loops | mainCue | publisher | rating | relativePath | sampleCount | sampleRate
  | title | trackNumber | waveform | year
  deriving DecidableEq, Repr

inductive Val where
  | obytes (v : Option Bytes)
  | of (v : Option F)
  | grid (v : List GMarker)
  | ou32 (v : Option UInt32)
  | ou64 (v : Option UInt64)
  | bytes (v : Bytes)
  | ocue (v : Option HotCue)
  | cues (v : List (Option HotCue))
  | oloop (v : Option LoopV)
  | loops (v : List (Option LoopV))
  | wave (v : List WEntry)
  deriving DecidableEq, Repr

/-- One getter call on the row of its track. -/
def getRow (ops : FOps) (r : Row) : Getter → Res Val
  | .album => .ok (.obytes (getAlbum r))
  | .artist => .ok (.obytes (getArtist r))
  | .averageLoudness => .ok (.of (getAverageLoudness r))
  | .beatgrid => .ok (.grid (getBeatgrid r))
  | .bitrate => .ok (.ou32 (getBitrate r))
  | .bpm => .ok (.of (getBpm ops r))
  | .comment => .ok (.obytes (getComment r))
  | .composer => .ok (.obytes (getComposer r))
  | .duration => (getDuration r).bind fun d => .ok (.ou64 d)
  | .fileExtension => .ok (.bytes (getFileExtension' r))
  | .filename => .ok (.bytes (getFilename' r))
  | .genre => .ok (.obytes (getGenre r))
  | .hotCueAt i => (getHotCueAt r i).bind fun q => .ok (.ocue q)
  | .hotCues => .ok (.cues (getHotCues r))
  | .key => .ok (.ou32 (getKey r))
  | .lastPlayedAt => .ok (.ou64 (getLastPlayedAt r))
  | .loopAt i => (getLoopAt r i).bind fun q => .ok (.oloop q)
  | .loops => .ok (.loops (getLoops r))
  | .mainCue => .ok (.of (getMainCue r))
  | .publisher => .ok (.obytes (getPublisher r))
  | .rating => .ok (.ou32 (getRating r))
  | .relativePath => .ok (.bytes (getRelativePath r))
  | .sampleCount => .ok (.ou64 (getSampleCount r))
  | .sampleRate => .ok (.of (getSampleRate r))
  | .title => .ok (.obytes (getTitle r))
  | .trackNumber => .ok (.ou32 (getTrackNumber r))
  | .waveform => .ok (.wave (getWaveform r))
  | .year => .ok (.ou32 (getYear r))

inductive Op where
  | create (x : Snap)
  | update (id : Nat) (x : Snap)
  | snapshot (id : Nat)
  | get (id : Nat) (g : Getter)
  | set (id : Nat) (σ : Setter)
  | remove (id : Nat)
  | isValid (id : Nat)
  | handleId (id : Nat)
  | handleCopy (id : Nat)
  deriving Repr

inductive Out where
  | unit
  | id (i : Nat)
  | bool (b : Bool)
  | snap (x : Snap)
  | val (v : Val)
  deriving DecidableEq, Repr

/-- `track_table::exists` -/
def isValid (db : Db) (id : Nat) : Bool := (db.get id).isSome

/-- `track_table::remove` -/
def remove (db : Db) (id : Nat) : Db × Res Unit :=
  if isValid db id then ({ db with rows := db.rows.filter fun e => !(e.1 == id) }, .ok ())
  else (db, .throw .invalid_argument)

def lift {α} (db : Db) (r : Res α) (f : α → Out) : Db × Res Out :=
  match r with
  | .ok a => (db, .ok (f a))
  | .throw e => (db, .throw e)
  | .ub u => (db, .ub u)

def step (ops : FOps) (s : Schema) (db : Db) : Op → Db × Res Out
  | .create x => let p := db.create ops s x; lift p.1 p.2 Out.id
  | .update id x =>
    match db.get id with
    | some _ => let p := db.update ops s id x; lift p.1 p.2 fun _ => Out.unit
    | none => let p := db.update ops s id x; lift p.1 p.2 fun _ => Out.unit     -- `track_deleted` (fix 8862536)
  | .snapshot id => lift db (db.snapshot ops id) Out.snap
  | .get id g =>
    match db.get id with
    | some r => lift db (getRow ops r g) Out.val
    | none => (db, .throw .runtime_error)       -- track_row_id_error
  | .set id σ => let p := db.set ops id σ; lift p.1 p.2 fun _ => Out.unit
  | .remove id => let p := remove db id; lift p.1 p.2 fun _ => Out.unit
  | .isValid id => (db, .ok (.bool (isValid db id)))
  | .handleId id => (db, .ok (.id id))
  | .handleCopy id => (db, .ok (.id id))

def outcomes (ops : FOps) (s : Schema) (db : Db) : List Op → List (Res Out)
  | [] => []
  | op :: t => (step ops s db op).2 :: outcomes ops s (step ops s db op).1 t

/-- Forget the payload of an outcome. -/
def void {α} : Res α → Res Unit
  | .ok _ => .ok ()
  | .throw e => .throw e
  | .ub u => .ub u

/-! ### the invariant of stored rows -/

/-- The `length` column (whole seconds) scales back to milliseconds inside `int64_t`. -/
def rowOk (r : Row) : Bool := !(readDuration r.length).isUb

def dbOk (db : Db) : Bool := db.rows.all fun e => rowOk e.2

end EngineModel.Api.C15TracksV2
