/-
C15, schema 1.x tracks: the places of src/djinterop/engine/v1/engine_track_impl.cpp at which the
library's own code indexes a vector, dereferences an optional, converts a double to an integer or
divides — written as POSSIBLE `ub` outcomes behind the C++ guard *as regenerated from the source on
every run* (`Gen.C15Guards`, tools/tr_c15guards.py); the extents arithmetic is the regenerated
`Gen.TrackUtils` (tools/tr_trackutils.py).

`siteG` gives, for one call of the dispatcher `Api.C15TracksV1.step`, the outcome CLASS of those
places only (`ok ()` = "the call goes on": what it returns or throws is the tracks-1.x package's model):
  * the four per-slot accessors: range test, then `v[index]`;
  * `set_bpm`: `static_cast<int64_t>(std::ceil(*bpm))` behind `bpm && fabs(*bpm) < 2^63`;
  * create_track / update: `to_length_calculated`, `to_bpm_fields`, `to_overview_waveform_data`,
    `to_high_res_waveform_data` in the order `create_track` / `update` call them.
`stepG` answers `ub` when `siteG` does and is `step` otherwise.  A guard weakened or dropped in the C++
changes `Gen.C15Guards`; `stepG` then answers `ub` where the real code misbehaves, and the proofs of
Proofs/NoUbGuardsV1.lean (siteG = ok, stepG = step) no longer go through.
-/
import EngineModel.Api.C15TracksV1
import EngineModel.Gen.C15Guards
import EngineModel.Api.GuardedUtils

namespace EngineModel.Api.GuardedTracksV1
open EngineModel EngineModel.TracksV1 EngineModel.Api.C15TracksV1 EngineModel.Gen
open Fl (FOps)

def deref {α : Type} : Option α → Res α
  | some a => .ok a
  | none => .ub .empty_optional

/-- `v[index]` with an `int` index (converted to `size_type`): undefined outside `0 ≤ index < size()`. -/
def indexAt {α : Type} (l : List α) (i : Int) : Res α :=
  if 0 ≤ i then
    match l[i.toNat]? with
    | some a => .ok a
    | none => .ub .oob_index
  else .ub .oob_index

structure Guards where
  hotCueAt : Int → Nat → Bool                    -- engine_track_impl.cpp:781
  setHotCueAt : Int → Nat → Bool                 -- :796
  loopAt : Int → Nat → Bool                      -- :913
  setLoopAt : Int → Nat → Bool                   -- :927
  lengthCalcNone : Bool → Bool → Bool → Bool → Bool   -- :83
  bpmFieldsInRange : Bool → Bool → Bool          -- :130
  setBpmInRange : Bool → Bool → Bool             -- :668
  extentsRateOut : Bool → Bool                   -- :224
  overviewAbsent : Bool → Bool → Bool            -- :237
  overviewNonEmpty : Bool → Bool                 -- :246
  overviewLoop : Nat → Nat → Bool                -- :250
  hiresAbsent : Bool → Bool → Bool → Bool → Bool -- :269
  utilOvwZero : Nat → Int → F64.Bits → Bool      -- track_utils.hpp:60
  utilHiresZero : Nat → Int → F64.Bits → Bool    -- track_utils.hpp:42

def Guards.source : Guards where
  hotCueAt := C15Guards.v1_track_hot_cue_at_range
  setHotCueAt := C15Guards.v1_track_set_hot_cue_at_range
  loopAt := C15Guards.v1_track_loop_at_range
  setLoopAt := C15Guards.v1_track_set_loop_at_range
  lengthCalcNone := C15Guards.v1_length_calc_none
  bpmFieldsInRange := C15Guards.v1_bpm_fields_inrange
  setBpmInRange := C15Guards.v1_set_bpm_inrange
  extentsRateOut := C15Guards.v1_extents_rate_out
  overviewAbsent := C15Guards.v1_overview_absent
  overviewNonEmpty := C15Guards.v1_overview_nonempty
  overviewLoop := C15Guards.v1_overview_loop
  hiresAbsent := C15Guards.v1_hires_absent
  utilOvwZero := C15Guards.util_ovw_zero
  utilHiresZero := C15Guards.util_hires_zero

/-- the rows a per-slot accessor works on: those of the track, or the defaults on the handle of a removed track -/
def slotRows (d : Db) (id : Int) : TrackRows := (d.rows id).getD blankRows

def slotSiteG {α : Type} (guard : Int → Nat → Bool) (l : List α) (i : UInt32) : Res Unit :=
  if guard (Prim.s32 i) l.length then .ok ()                        -- the range test: throws std::out_of_range
  else (indexAt l (Prim.s32 i)).bind fun _ => .ok ()                -- `v[index]`

/-! ### the conversions of create_track / update -/

/-- `to_length_calculated` (engine_track_impl.cpp:75-90) -/
def lengthCalcSiteG (g : Guards) (count : Option UInt64) (rate : Option Bits) : Res Unit :=
  let ge1 := match rate with | some r => F64.le F64.one r | none => false
  let lt := match rate with | some r => F64.lt r Fl.two63 | none => false
  if g.lengthCalcNone count.isSome rate.isSome ge1 lt then .ok ()                       -- :83 return nullopt
  else (deref count).bind fun c => (deref rate).bind fun r =>                           -- :89 *sample_count, *sample_rate
    match Fl.toI64 r with                                                               -- :89 static_cast<int64_t>(…)
    | none => .ub .float_cast_range
    | some dv =>
      match Cxx.I64.div (Prim.s64 c) dv with                                            -- :89 `/`
      | some _ => .ok ()
      | none => .ub .div_zero

/-- `to_bpm_fields` (:125-140) -/
def bpmFieldsSiteG (g : Guards) (bpm : Option Bits) : Res Unit :=
  let lt := match bpm with | some b => Fl.absLt63 b | none => false
  if g.bpmFieldsInRange bpm.isSome lt then                                              -- :130
    (deref bpm).bind fun b =>                                                           -- :132 *bpm
      match Fl.toI64 b with                                                             -- :132 static_cast<int64_t>
      | some _ => .ok ()
      | none => .ub .float_cast_range
  else .ok ()

/-- `engine_track_impl::set_bpm` (:664-680): `static_cast<int64_t>(std::ceil(*bpm))` -/
def setBpmSiteG (g : Guards) (o : FOps) (bpm : Option Bits) : Res Unit :=
  let lt := match bpm with | some b => Fl.absLt63 b | none => false
  if g.setBpmInRange bpm.isSome lt then                                                 -- :668
    (deref bpm).bind fun b =>                                                           -- :670
      match Fl.toI64 (o.ceil b) with
      | some _ => .ok ()
      | none => .ub .float_cast_range
  else .ok ()

/-- `to_extents_sample_rate` (:219-230) -/
def extentsRateG (g : Guards) (r : Bits) : Bits := if g.extentsRateOut (Fl.absLt63 r) then F64.zero else r

/-- `for (i = 0; i < extents.size; ++i) waveform[waveform.size() * (2 * i + 1) / (2 * extents.size)]` (:250-255) -/
def overviewLoopG (g : Guards) (w : List Impl.V1.Entry) (size : Nat) : Nat → Nat → Res Unit
  | 0, _ => .ub .nontermination
  | fuel + 1, i =>
    if g.overviewLoop i size then
      match Cxx.U64.div (w.length * (2 * i + 1)) (2 * size) with                        -- :253 `/`
      | none => .ub .div_zero
      | some k => (indexAt w (k : Int)).bind fun _ => overviewLoopG g w size fuel (i + 1)   -- :252
    else .ok ()

/-- `to_overview_waveform_data` (:232-259) -/
def overviewSiteG (g : Guards) (o : FOps) (count : Option UInt64) (rate : Option Bits) (w : List Impl.V1.Entry) : Res Unit :=
  if g.overviewAbsent count.isSome rate.isSome then .ok ()                              -- :237
  else (deref count).bind fun n => (deref rate).bind fun r =>                           -- :244
    (GuardedUtils.extentsSiteG g.utilOvwZero Fl.toI64 n.toNat (extentsRateG g r)).bind fun _ =>   -- track_utils.hpp:52-69
    match Gen.TrackUtils.calculate_overview_waveform_extents o.cxx n.toNat (extentsRateG g r) with
    | none => .ub .div_zero
    | some (size, _) =>
      if g.overviewNonEmpty w.isEmpty then overviewLoopG g w size (size + 1) 0          -- :246-256
      else .ok ()

/-- `to_high_res_waveform_data` (:261-291) -/
def hiresSiteG (g : Guards) (o : FOps) (count : Option UInt64) (rate : Option Bits) : Res Unit :=
  let cz := match count with | some n => n == 0 | none => false
  let rz := match rate with | some r => F64.isZero r | none => false
  if g.hiresAbsent count.isSome cz rate.isSome rz then .ok ()                           -- :269 returns or throws
  else (deref count).bind fun n => (deref rate).bind fun r =>                           -- :286
    (GuardedUtils.extentsSiteG g.utilHiresZero Fl.toI64 n.toNat (extentsRateG g r)).bind fun _ =>   -- track_utils.hpp:35-49
    match Gen.TrackUtils.calculate_high_resolution_waveform_extents o.cxx n.toNat (extentsRateG g r) with
    | none => .ub .div_zero
    | some _ => .ok ()

def snapSiteG (g : Guards) (o : FOps) (x : Snap) : Res Unit :=
  match x.relativePath with
  | none => .ok ()                                                                      -- :1222 / :495 throws first
  | some _ =>
    (lengthCalcSiteG g x.sampleCount x.sampleRate).bind fun _ =>
    (bpmFieldsSiteG g x.bpm).bind fun _ =>
    (overviewSiteG g o x.sampleCount x.sampleRate x.waveform).bind fun _ =>
    hiresSiteG g o x.sampleCount x.sampleRate

/-! ### the dispatcher -/

def siteG (g : Guards) (o : FOps) (d : Db) : Op → Res Unit
  | .create x => snapSiteG g o x
  | .update _ x => snapSiteG g o x
  | .get id (.hotCueAt i) => slotSiteG g.hotCueAt (colCues (slotRows d id)).cues i
  | .get id (.loopAt i) => slotSiteG g.loopAt (colLoops (slotRows d id)) i
  | .set id (.hotCueAt i) _ => slotSiteG g.setHotCueAt (colCues (slotRows d id)).cues i
  | .set id (.loopAt i) _ => slotSiteG g.setLoopAt (colLoops (slotRows d id)) i
  | .set id .bpm v => if (d.rows id).isSome then setBpmSiteG g o v else .ok ()
  | _ => .ok ()

def stepGW (g : Guards) (o : FOps) (d : Db) (op : Op) : Db × Res Out :=
  match siteG g o d op with
  | .ub u => (d, .ub u)
  | _ => step o d op

def stepG (o : FOps) (d : Db) (op : Op) : Db × Res Out := stepGW Guards.source o d op

def outcomesG (o : FOps) (d : Db) : List Op → List (Res Out)
  | [] => []
  | op :: t => (stepG o d op).2 :: outcomesG o (stepG o d op).1 t

/-! ### the whole public alphabet of `database` / `track` over this model

`Call` adds to `Op` the database-level track queries (single SELECTs with a callback: no dereference /
index / division site in engine_database_impl.cpp — inventory of tools/tr_c15guards.py).  `uuid()`,
`version_name()`, `directory()`, `verify()` have NO content in this model (outcome `ok`); the tie exercises
them. -/

inductive Call where
  | op (o : Op)
  | dbTracks                          -- database::tracks
  | dbTrackById (id : Int)            -- database::track_by_id
  | dbTracksByPath (p : Bytes)        -- database::tracks_by_relative_path
  | dbUuid | dbVersionName | dbDirectory | dbVerify

inductive CallOut where
  | out (o : Out)
  | ids (l : List Int)
  | oid (i : Option Int)
  | unit

def callGW (g : Guards) (o : FOps) (d : Db) : Call → Db × Res CallOut
  | .op op =>
    let p := stepGW g o d op
    (p.1, match p.2 with | .ok a => .ok (.out a) | .throw e => .throw e | .ub u => .ub u)
  | .dbTracks => (d, .ok (.ids (d.tracks.map (·.1))))
  | .dbTrackById id => (d, .ok (.oid (if dbIsValid d id then some id else none)))
  | .dbTracksByPath p => (d, .ok (.ids ((d.tracks.filter fun e => e.2.track.path == some p).map (·.1))))
  | .dbUuid | .dbVersionName | .dbDirectory | .dbVerify => (d, .ok .unit)

def callG (o : FOps) (d : Db) (c : Call) : Db × Res CallOut := callGW Guards.source o d c

def callOutcomes (o : FOps) (d : Db) : List Call → List (Res CallOut)
  | [] => []
  | c :: t => (callG o d c).2 :: callOutcomes o (callG o d c).1 t

end EngineModel.Api.GuardedTracksV1
