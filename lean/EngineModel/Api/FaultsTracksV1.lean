/-
C15 on states left behind by FAILED calls, schema 1.x TRACKS.

The 1.x track model (`TracksV1/Accessors.lean`) is at call granularity, and its statement programs
(`TracksV1/Stmts.lean`, C14: `C14_tracks_v1_program`, `C14_tracks_v1_shape`) run over the SAME tables `TracksV1.Db`
the C15 API model `Api/C15TracksV1.step` / `GuardedTracksV1.stepG` is about — no projection is needed.

`callF o d op plan` — `create_track` / `track::update` / any `set_*` / `remove_track` under an optional fault plan.  No
plan: the guarded step.  With a plan `⟨k, auto⟩`: the call runs as its statement program `topStmts o op` (BEGIN, the
reads, ONE write = the joint effect of the call's statements, COMMIT — or the single write in autocommit mode for the
eleven unscoped setters, `Field.scoped`) on the connection of `Spec/Txn.lean`; if the run raises (the injected fault,
or the write refusing: the call throws by itself) the call throws and the next call starts from what the connection
reads then; otherwise the call is the guarded step.  Fault positions inside the joint write of a scoped call (between
its statements) are not positions of this model: C14's limit for 1.x tracks, unchanged.
-/
import EngineModel.Api.FaultsV2
import EngineModel.Api.GuardedTracksV1
import EngineModel.TracksV1.Stmts

namespace EngineModel.Api.FaultsTracksV1
open EngineModel EngineModel.TracksV1 EngineModel.Spec.Txn EngineModel.Spec.Stmts
open EngineModel.Api.C15TracksV1 EngineModel.Api.GuardedTracksV1
open Fl (FOps)

abbrev Plan := EngineModel.Api.FaultsV2.Plan

/-- the mutating calls inside the operation alphabet of the C15 track model -/
def toOp : TOp → Op
  | .create x => .create x
  | .update id x => .update id x
  | .set id f v => .set id f v
  | .remove id => .remove id

def progRun (o : FOps) (d : Db) (op : TOp) (p : Plan) : Outcome Db := call (some p.k) p.auto (topStmts o op) d

def callF (o : FOps) (d : Db) (op : TOp) : Option Plan → Db × Res Out
  | none => stepG o d (toOp op)
  | some p =>
    let st := stepG o d (toOp op)
    match st.2 with
    | .ub _ => st
    | _ =>
      let r := progRun o d op p
      if r.raised then (r.conn.view, .throw .sqlite_error) else st

abbrev FCall := TOp × Option Plan

def runF (o : FOps) (d : Db) : List FCall → Db
  | [] => d
  | c :: t => runF o (callF o d c.1 c.2).1 t

def outcomesF (o : FOps) (d : Db) : List FCall → List (Res Out)
  | [] => []
  | c :: t => (callF o d c.1 c.2).2 :: outcomesF o (callF o d c.1 c.2).1 t

def positions (o : FOps) (op : TOp) : Nat := countFaultable (topShapeOf o op)

end EngineModel.Api.FaultsTracksV1
