/-
C15 on states left behind by FAILED calls, schema 2.x TRACKS.

The statement programs of the 2.x track calls (`TracksV2/Stmts.lean`, the programs C14 proves all-or-nothing:
`C14_tracks_v2_program`, `C14_tracks_v2_shape`) run over the statement-level Track table `TDb`
(`TracksV2/Table.lean`); the C15 track theorems are about the API model `Api/C15TracksV2.step` /
`GuardedTracksV2.stepG` over the row store `TracksV2.Db`.  This file puts the two together:

* `callF ops s d op plan` — one public mutating track call (`create_track`, `track::update`, each of the 26
  `set_*`, `remove_track`) on the table `d` under an optional fault plan.  No plan: the statement-level call
  `TDb.step`.  With a plan `⟨k, auto⟩`: the call runs as ITS STATEMENT PROGRAM `topStmts ops s d op` on the
  connection of `Spec/Txn.lean` (`call`: the k-th faultable statement — BEGIN, COMMIT, any UPDATE / INSERT /
  DELETE — fails with no effect, every failure raises, the live RAII scope issues ROLLBACK while unwinding); a
  statement may also refuse by itself (`UNIQUE (path)`, the origin trigger, `rows_modified() == 0`: the write
  function answers `none`).  If the run raises the call throws and the next call starts from **what the
  connection reads then** (`Conn.view`); otherwise (position beyond the call) the call is `TDb.step`.
* `runF` / `outcomesF` — a history of such calls, each under its own plan or none.
* `view d` — the row store the public getters read (`TracksV2.Db`): the rows without the key-derived and origin
  columns, `nextId = seq + 1`.  `toOp` embeds the mutating calls into the operation alphabet of the C15 model.
* `unscoped` — the same calls as the library would issue them WITHOUT the `sqlite_transaction` scope (the body of
  the program in autocommit mode; the defect repaired by `dbbedfa` / `516c689`).
-/
import EngineModel.Api.FaultsV2
import EngineModel.Api.GuardedTracksV2
import EngineModel.TracksV2.Stmts

namespace EngineModel.Api.FaultsTracksV2
open EngineModel EngineModel.TracksV2 EngineModel.Spec.Txn EngineModel.Spec.Stmts

abbrev Plan := EngineModel.Api.FaultsV2.Plan

/-- the row store the public getters read: forget the key-derived and origin columns -/
def view (d : TDb) : Db := ⟨d.rows.map fun t => (t.id, t.row), d.seq + 1⟩

/-- the mutating calls inside the operation alphabet of the C15 track model -/
def toOp : TOp → C15TracksV2.Op
  | .create x => .create x
  | .update id x => .update id x
  | .set id σ => .set id σ
  | .remove id => .remove id

/-- the answer of the C15 model for the answer of the statement-level call (`create` returns the new id) -/
def outOf : TOp → Nat → C15TracksV2.Out
  | .create _, n => .id n
  | _, _ => .unit

def mapRes {α β} (f : α → β) : Res α → Res β
  | .ok a => .ok (f a)
  | .throw e => .throw e
  | .ub u => .ub u

/-- the connection after the statement program of the call under the plan -/
def progRun (ops : FOps) (s : Schema) (d : TDb) (op : TOp) (p : Plan) : Outcome TDb :=
  call (some p.k) p.auto (topStmts ops s d op) d

/-- One public mutating track call under an optional fault plan (see the header). -/
def callF (ops : FOps) (s : Schema) (d : TDb) (op : TOp) : Option Plan → TDb × Res Nat
  | none => d.step ops s op
  | some p =>
    let st := d.step ops s op
    match st.2 with
    | .ub _ => st
    | _ =>
      let r := progRun ops s d op p
      if r.raised then (r.conn.view, .throw .sqlite_error) else st

abbrev FCall := TOp × Option Plan

/-- a history of calls, each under its own plan -/
def runF (ops : FOps) (s : Schema) (d : TDb) : List FCall → TDb
  | [] => d
  | c :: t => runF ops s (callF ops s d c.1 c.2).1 t

def outcomesF (ops : FOps) (s : Schema) (d : TDb) : List FCall → List (Res Nat)
  | [] => []
  | c :: t => (callF ops s d c.1 c.2).2 :: outcomesF ops s (callF ops s d c.1 c.2).1 t

/-- number of fault positions of the call on this prior table -/
def positions (ops : FOps) (s : Schema) (d : TDb) (op : TOp) : Nat := countFaultable (topShapeOf ops s op d)

/-- the call as the library would issue it WITHOUT its `sqlite_transaction` scope: the reads and writes of the
body one by one in autocommit mode -/
def unscoped (ops : FOps) (s : Schema) (d : TDb) (op : TOp) : TProg := topBody ops s d op

end EngineModel.Api.FaultsTracksV2
