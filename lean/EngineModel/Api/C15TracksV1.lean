/-
C15, schema 1.x tracks: the public track operations as ONE step function over
the track model of `EngineModel/TracksV1/{Model,Accessors}.lean`.

This file adds nothing to what those operations compute: `step` dispatches to
`dbCreate` / `dbUpdate` / `dbSnap` / `dbGet` / `dbSet` / `getDerived` /
`dbRemove` / `dbIsValid` (written by the tracks-1.x work-package, tied there and
here; they include what a call through the handle of a removed track does) and
adds only

* `handleId` / `handleCopy` — `track::id()` and copy / assignment / destruction
               of a handle: a handle is a value (`shared_ptr` to an impl that
               holds the id); none of the three touches the database.

Every argument is unconstrained: slot indices are any `UInt32` (the C++ `int`),
ids are any `Int`, snapshots are any `Snap` (cue / loop lists and labels of any
length, absent optionals, doubles as arbitrary bit patterns).
-/
import EngineModel.TracksV1.Accessors

namespace EngineModel.Api.C15TracksV1
open EngineModel EngineModel.TracksV1
open Fl (FOps)

inductive Op where
  | create (x : Snap)
  | update (id : Int) (x : Snap)
  | snapshot (id : Int)
  | get (id : Int) (f : Field)
  | getDerived (id : Int) (g : Derived)
  | set (id : Int) (f : Field) (v : f.ty)
  | remove (id : Int)
  | isValid (id : Int)
  | handleId (id : Int)
  | handleCopy (id : Int)

inductive Out where
  | unit
  | id (i : Int)
  | bool (b : Bool)
  | snap (x : Snap)
  | val (f : Field) (v : f.ty)
  | bytes (b : Bytes)

def step (o : FOps) (d : Db) : Op → Db × Res Out
  | .create x =>
    match dbCreate o d x with
    | .ok (d', id) => (d', .ok (.id id))
    | .throw e => (d, .throw e)
    | .ub u => (d, .ub u)
  | .update id x =>
    match dbUpdate o d id x with
    | .ok d' => (d', .ok .unit)
    | .throw e => (d, .throw e)
    | .ub u => (d, .ub u)
  | .snapshot id =>
    match dbSnap o d id with
    | .ok x => (d, .ok (.snap x))
    | .throw e => (d, .throw e)
    | .ub u => (d, .ub u)
  | .get id f =>
    match dbGet o d id f with
    | .ok v => (d, .ok (.val f v))
    | .throw e => (d, .throw e)
    | .ub u => (d, .ub u)
  | .getDerived id g =>
    match d.rows id with
    | some r => (d, .ok (.bytes (getDerived r g)))
    | none => (d, .throw (.dj "track_deleted"))
  | .set id f v =>
    match dbSet o d id f v with
    | .ok d' => (d', .ok .unit)
    | .throw e => (d, .throw e)
    | .ub u => (d, .ub u)
  | .remove id => (dbRemove d id, .ok .unit)
  | .isValid id => (d, .ok (.bool (dbIsValid d id)))
  | .handleId id => (d, .ok (.id id))
  | .handleCopy id => (d, .ok (.id id))

/-- Forget the payload of an outcome (what the property talks about). -/
def void {α} : Res α → Res Unit
  | .ok _ => .ok ()
  | .throw e => .throw e
  | .ub u => .ub u

def run (o : FOps) (d : Db) : List Op → Db
  | [] => d
  | op :: ops => run o (step o d op).1 ops

/-- The outcomes of a script, in order. -/
def outcomes (o : FOps) (d : Db) : List Op → List (Res Out)
  | [] => []
  | op :: ops => (step o d op).2 :: outcomes o (step o d op).1 ops

/-! ### the invariant of stored rows -/

def mulFits (k : Int) (v : Option Int) : Bool :=
  match v with
  | none => true
  | some a => Cxx.inI64 (k * a)

/-- What `snapshot()` / `duration()` / `last_played_at()` rely on: the whole
seconds the library stored can be scaled back to milliseconds / nanoseconds
inside `int64_t`. -/
def rowsOk (r : TrackRows) : Bool :=
  mulFits 1000 r.track.length && mulFits 1000000000 (cell 1 r.mint)

/-- A sufficient form of the one law of double arithmetic the 1.x setters need (`set_bpm`:
`static_cast<int64_t>(std::ceil(bpm))` behind `fabs(bpm) < 2^63`; the law itself is
`TracksV1.Spec.CeilInRange`): rounding up keeps a magnitude below 2^63 below 2^63. -/
def CeilBounded (o : FOps) : Prop := ∀ b, Fl.absLt63 b = true → Fl.absLt63 (o.ceil b) = true

/-- IEEE-754 `ceil` on binary64 bit patterns (round toward +∞ to an integral value). -/
def ceilBits (x : F64.Bits) : F64.Bits :=
  let n := x.toNat
  let a := n % 9223372036854775808            -- magnitude bits
  let e := a / 4503599627370496               -- biased exponent
  if e ≥ 1075 then x                          -- already integral (or inf / NaN)
  else if e < 1023 then                       -- |x| < 1
    if a = 0 then x else if n ≥ 9223372036854775808 then F64.negZero else F64.one
  else
    let frac := a % 2 ^ (1075 - e)            -- bits below the binary point
    if frac = 0 then x
    else if n ≥ 9223372036854775808 then UInt64.ofNat (n - frac)   -- negative: toward zero
    else UInt64.ofNat (n - frac + 2 ^ (1075 - e))                  -- positive: next integer (carry into the exponent)


/-- the double arithmetic of a run with the bit-exact `ceil` -/
def withExactCeil (o : FOps) : FOps := { o with ceil := ceilBits }

end EngineModel.Api.C15TracksV1
