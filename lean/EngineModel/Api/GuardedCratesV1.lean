/-
C15, schema 1.x crates: the one dereference of the query paths of engine_crate_impl.cpp /
engine_database_impl.cpp (`*name` in `crate::name`, engine_crate_impl.cpp:281) behind its guard as
regenerated from the source (`Gen.C15Guards.v1_crate_name_none`).  Every other 1.x crate query is a
single SELECT with a callback and has no dereference / index / division site (inventory of
tools/tr_c15guards.py); the mutating paths are `Api.CratesV1.step` (its `ub`: the `update_path`
recursion).
-/
import EngineModel.Api.CratesV1
import EngineModel.Gen.C15Guards

namespace EngineModel.Api.GuardedCratesV1
open EngineModel EngineModel.Api.CratesV1 EngineModel.Gen

def deref {α : Type} : Option α → Res α
  | some a => .ok a
  | none => .ub .empty_optional

/-- `engine_crate_impl::name` (engine_crate_impl.cpp:261-282): the callback keeps the first title and throws
on a second row; then `if (!name) throw crate_deleted; return *name;`. -/
def crateNameG (noName : Bool → Bool) (db : Db) (c : Id) : Res Name :=
  match (db.crate.filter (·.id == c)).map (·.title) with
  | _ :: _ :: _ => .throw exCrateInconsistent                                   -- :271 (second row)
  | rows =>
    let name : Option Name := rows.head?                                        -- :268
    if noName name.isSome then .throw exCrateDeleted                            -- :276
    else deref name                                                             -- :281 `*name`

def crateNameSrc (db : Db) (c : Id) : Res Name := crateNameG C15Guards.v1_crate_name_none db c

end EngineModel.Api.GuardedCratesV1
