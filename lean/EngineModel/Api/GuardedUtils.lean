/-
C15: src/djinterop/engine/track_utils.hpp as far as it can invoke undefined behaviour — the double→int64
conversion and the `/ 210 * 2` of `waveform_quantisation_number`, then the "no extents" test, then the
division by the quantisation number — with the test taken from the source (`Gen.C15Guards.util_*_zero`,
regenerated on every run by tools/tr_c15guards.py, which also understands a test on the rate itself such as
`!(sample_rate > 0)`).  This complements `Gen.TrackUtils` (tools/tr_trackutils.py, the whole functions, but
only while they stay inside that translator's fragment).
-/
import EngineModel.Basic.Res
import EngineModel.Basic.F64
import EngineModel.Pure.Cxx

namespace EngineModel.Api.GuardedUtils
open EngineModel

/-- `calculate_{overview,high_resolution}_waveform_extents(sample_count, sample_rate)`: outcome class only. -/
def extentsSiteG (zero : Nat → Int → F64.Bits → Bool) (toI64 : F64.Bits → Option Int) (n : Nat) (r : F64.Bits) :
    Res Unit :=
  match toI64 r with
  | none => .ub .float_cast_range                                           -- track_utils.hpp:32 static_cast<int64_t>
  | some t =>
    match (Cxx.I64.div t 210).bind fun q => Cxx.I64.mul q 2 with            -- :32 `/ 210`, `* 2`
    | none => .ub .signed_overflow
    | some qn =>
      if zero n qn r then .ok ()                                            -- :42 / :60 return {0, 0}
      else
        match Cxx.U64.div n (Cxx.u64OfInt qn) with                          -- :47 / :65 `… / qn`
        | none => .ub .div_zero
        | some _ => .ok ()

end EngineModel.Api.GuardedUtils
