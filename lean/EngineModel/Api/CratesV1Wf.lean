/-
`WfRaw`: what C11 demands of the *stored* schema-1.x crate tables, written from
the property text ("path strings, parent list and flattened hierarchy all
describe the same forest"; membership rows without duplicates and only between
live crates and live tracks), as an executable predicate on a raw dump.  The
same function is evaluated on the Model's state (theorem `reachable → WfRaw`)
and, by the driver, on the rows read back from the real database file.

`absForest` reads the forest off the parent list; everything else is judged
against that forest with the Spec's own `isAncestor`.
-/
import EngineModel.Api.CratesV1
import EngineModel.Spec.Forest

namespace EngineModel.Api.CratesV1
open EngineModel.Spec

/-- The parent recorded for `c`: first parent-list row of `c`; a crate that is its own parent is a root. -/
def parentOf (db : Db) (c : Id) : Option Id :=
  match db.cpl.find? (·.1 == c) with
  | some r => if r.2 == c then none else some r.2
  | none => none

/-- Abstraction function: the forest the raw rows describe. -/
def absForest (db : Db) : Forest.Forest :=
  ⟨db.crate.map fun r => ⟨r.id, r.title, parentOf db r.id⟩⟩

/-- Names from the root down to `c`, each followed by ';' (fuel = number of crates). -/
def pathFuel (f : Forest.Forest) : Nat → Id → Name
  | 0, _ => []
  | n + 1, c =>
    match f.find c with
    | none => []
    | some r =>
      (match r.parent with
       | none => []
       | some p => pathFuel f n p) ++ r.name ++ [semicolon]

def pathOf (f : Forest.Forest) (c : Id) : Name := pathFuel f f.crates.length c

def nodupB {α} [BEq α] : List α → Bool
  | [] => true
  | a :: l => !l.contains a && nodupB l

/-- The named conjuncts of `WfRaw`. -/
def wfChecks (db : Db) : List (String × Bool) :=
  let f := absForest db
  let ids := db.crate.map (·.id)
  let liveTracks := (db.track.filter (·.hasPath)).map (·.id)
  [ ("crate-ids-unique", nodupB ids),
    ("names-valid", db.crate.all fun r => Forest.validName r.title),
    ("parentlist-functional", nodupB (db.cpl.map (·.1))),
    ("parentlist-total", ids.all fun c => (db.cpl.map (·.1)).contains c),
    ("parentlist-no-dead-rows", db.cpl.all fun r => ids.contains r.1 && ids.contains r.2),
    ("acyclic", ids.all fun c => !f.isAncestor c c),
    ("hierarchy-nodup", nodupB db.ch),
    ("hierarchy-no-dead-rows", db.ch.all fun r => ids.contains r.1 && ids.contains r.2),
    ("hierarchy-is-closure", ids.all fun a => ids.all fun c => db.ch.contains (a, c) == f.isAncestor a c),
    ("path-is-names-from-root", db.crate.all fun r => r.path == pathOf f r.id),
    ("tracklist-nodup", nodupB db.ctl),
    ("tracklist-crates-live", db.ctl.all fun r => ids.contains r.1),
    ("tracklist-tracks-live", db.ctl.all fun r => liveTracks.contains r.2),
    ("track-ids-unique", nodupB (db.track.map (·.id))) ]

/-- What `PRAGMA foreign_key_check` reports for the modelled tables: the child rows whose parent row is missing.
Declared foreign keys (schema_1_6_0.cpp … ; from 1.9.1 the same on the List* tables the views project):
CrateParentList.crateOriginId / crateParentId → Crate.id, CrateHierarchy.crateId / crateIdChild → Crate.id,
CrateTrackList.crateId → Crate.id, CrateTrackList.trackId → Track.id.  One entry per violating (table, row). -/
def fkViolations (db : Db) : List (String × Id × Id) :=
  let ids := db.crate.map (·.id)
  let tids := db.track.map (·.id)
  (db.cpl.filter (fun r => !(ids.contains r.1 && ids.contains r.2))).map (fun r => ("CrateParentList", r.1, r.2)) ++
  (db.ch.filter (fun r => !(ids.contains r.1 && ids.contains r.2))).map (fun r => ("CrateHierarchy", r.1, r.2)) ++
  (db.ctl.filter (fun r => !(ids.contains r.1 && tids.contains r.2))).map (fun r => ("CrateTrackList", r.1, r.2))

def WfRaw (db : Db) : Bool := (wfChecks db).all (·.2)

def wfFailures (db : Db) : List String := ((wfChecks db).filter (fun c => !c.2)).map (·.1)

end EngineModel.Api.CratesV1
