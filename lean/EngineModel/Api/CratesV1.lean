/-
Model of the schema-1.x (legacy layout, 1.6.0 … 1.18.0) crate code:
  src/djinterop/engine/v1/engine_crate_impl.cpp
  src/djinterop/engine/v1/engine_database_impl.cpp  (crate part, remove_crate, remove_track, tracks)
  src/djinterop/engine/v1/engine_track_impl.cpp     (containing_crates, is_valid)
and of the DDL in src/djinterop/engine/schema/schema_1_*.cpp that these statements hit.

Tables are `List` of rows in insertion (= rowid) order.  Every SQL statement the
library issues is one function below, named after the statement; a schema
version enters in three places only:
  * `hasListViews s` (>= 1.9.1): `Crate`, `CrateParentList`, `CrateHierarchy`,
    `CrateTrackList` are VIEWs over `List`, `ListParentList`, `ListHierarchy`,
    `ListTrackList` (rows of list type 4) with INSTEAD OF triggers; the model
    keeps the type-4 rows of the underlying tables and applies the triggers as
    written (the `…ViaTrigger` functions).  The one view that is not a plain
    projection is `CrateTrackList`, which INNER JOINs `List`: membership rows of
    a crate that no longer exists are invisible through the view (and cannot be
    deleted through it) but are still stored.
  * the id of a new crate: rowid allocation of an `INTEGER PRIMARY KEY` column
    (< 1.9.1, `idRowid`) versus `SELECT IFNULL(MAX(id), 0) + 1` (>= 1.9.1, `idMaxPlusOne`);
  * `trackAutoinc s` (>= 1.17.0): `Track.id` is AUTOINCREMENT and the
    `trigger_after_delete_Track` trigger leaves a NULL-path placeholder row.
No connection enables `PRAGMA foreign_keys` or `recursive_triggers`, so no
`ON DELETE CASCADE` clause ever fires: none is modelled.
Names are byte strings without NUL bytes (the title is bound as a C string).
-/
import EngineModel.Basic.Prim
import EngineModel.Basic.Res
import EngineModel.Pure.Detect

namespace EngineModel.Api.CratesV1
open EngineModel.Pure.Detect

abbrev Id := Int
abbrev Name := Bytes

def semicolon : UInt8 := 59

structure CrateRow where
  id : Id
  title : Name
  path : Name
  deriving Repr, DecidableEq, Inhabited

structure TrackRow where
  id : Id
  hasPath : Bool        -- `path IS NOT NULL`
  deriving Repr, DecidableEq, Inhabited

structure Db where
  crate : List CrateRow     -- Crate (id, title, path)            | type-4 rows of List
  cpl : List (Id × Id)      -- CrateParentList (origin, parent)   | type-4 rows of ListParentList
  ch : List (Id × Id)       -- CrateHierarchy (crateId, child)    | type-4 rows of ListHierarchy
  ctl : List (Id × Id)      -- CrateTrackList (crateId, trackId)  | type-4 rows of ListTrackList
  track : List TrackRow     -- Track (id, path IS NOT NULL)
  trackSeq : Int            -- sqlite_sequence.seq of Track (AUTOINCREMENT schemas)
  deriving Repr, DecidableEq, Inhabited

def Db.empty : Db := ⟨[], [], [], [], [], 0⟩

def hasListViews (s : Schema) : Bool := decide (s.ord ≥ Schema.schema_1_9_1.ord)
def trackAutoinc (s : Schema) : Bool := decide (s.ord ≥ Schema.schema_1_17_0.ord)
/-- The eleven schema versions this model is about. -/
def isV1 (s : Schema) : Bool := decide (s.ord ≤ Schema.schema_1_18_0_os.ord)

/-! ### exceptions -/
def exInvalidName : Exn := .dj "crate_invalid_name"
def exInvalidParent : Exn := .dj "crate_invalid_parent"
def exCrateDeleted : Exn := .dj "crate_deleted"
def exCrateInconsistent : Exn := .dj "crate_database_inconsistency"
def exTrackInconsistent : Exn := .dj "track_database_inconsistency"
def exAlreadyExists : Exn := .dj "crate_already_exists"
def exTrackDeleted : Exn := .dj "track_deleted"

/-! ### id allocation -/
def maxId (ids : List Id) : Id := ids.foldl max 0

/-- rowid of a row inserted into a table with an `INTEGER PRIMARY KEY` column and no explicit id:
1 for an empty table, otherwise largest rowid + 1. -/
def idRowid (ids : List Id) : Id := if ids.isEmpty then 1 else maxId ids + 1

/-- `SELECT IFNULL(MAX(id), 0) + 1 FROM Crate`. -/
def idMaxPlusOne (ids : List Id) : Id := maxId ids + 1

def newCrateId (s : Schema) (db : Db) : Id :=
  if hasListViews s then idMaxPlusOne (db.crate.map (·.id)) else idRowid (db.crate.map (·.id))

/-! ### statements on Crate -/

/-- `INSERT INTO Crate …`.  >= 1.9.1: trigger_insert_Crate inserts into List, whose
PRIMARY KEY (id, type) rejects a second type-4 row with the same id. -/
def insertCrate (_s : Schema) (db : Db) (r : CrateRow) : Res Db :=
  if db.crate.any (·.id == r.id) then .throw .sqlite_error     -- PRIMARY KEY (id) / PRIMARY KEY (id, type)
  else .ok { db with crate := db.crate ++ [r] }

/-- Rows of a view on which an INSTEAD OF trigger fires: the view is materialised
first, then the trigger body runs once per materialised row. -/
def forEachOld {α τ} (olds : List α) (body : α → τ → τ) (t : τ) : τ := olds.foldl (fun acc o => body o acc) t

/-- `UPDATE Crate SET title = ?, path = ? WHERE id = ?`.
trigger_update_Crate: `UPDATE List SET id = NEW.id, title = NEW.title, path = NEW.path
WHERE id = OLD.id AND title = OLD.title AND path = OLD.path`. -/
def updateCrateTitlePath (s : Schema) (crate : List CrateRow) (c : Id) (title path : Name) : List CrateRow :=
  if hasListViews s then
    forEachOld (crate.filter (·.id == c))
      (fun old t => t.map (fun r => if r == old then { r with title := title, path := path } else r)) crate
  else crate.map (fun r => if r.id == c then { r with title := title, path := path } else r)

/-- `UPDATE Crate SET path = ? WHERE id = ?` (same trigger; NEW.title = OLD.title). -/
def updateCratePath (s : Schema) (crate : List CrateRow) (c : Id) (path : Name) : List CrateRow :=
  if hasListViews s then
    forEachOld (crate.filter (·.id == c))
      (fun old t => t.map (fun r => if r == old then { r with path := path } else r)) crate
  else crate.map (fun r => if r.id == c then { r with path := path } else r)

/-- `DELETE FROM Crate WHERE id = ?`.  trigger_delete_Crate deletes the List rows equal to OLD. -/
def deleteCrate (s : Schema) (crate : List CrateRow) (c : Id) : List CrateRow :=
  if hasListViews s then
    forEachOld (crate.filter (·.id == c)) (fun old t => t.filter (fun r => !(r == old))) crate
  else crate.filter (fun r => !(r.id == c))

/-! ### statements on the pair tables -/

/-- `DELETE FROM <pair table> WHERE <p>`; through a view: the delete trigger removes the rows equal to OLD. -/
def deletePairs (s : Schema) (t : List (Id × Id)) (p : Id × Id → Bool) : List (Id × Id) :=
  if hasListViews s then forEachOld (t.filter p) (fun old acc => acc.filter (fun r => !(r == old))) t
  else t.filter (fun r => !p r)

/-- `INSERT INTO CrateHierarchy (crateId, crateIdChild) SELECT crateId, :child FROM CrateHierarchy
WHERE crateIdChild = :parent UNION SELECT :parent, :child` — UNION removes duplicate rows. -/
def hierarchyRowsFor (ch : List (Id × Id)) (child parent : Id) : List (Id × Id) :=
  (((ch.filter (·.2 == parent)).map (fun r => (r.1, child))) ++ [(parent, child)]).eraseDups

/-! ### the CrateTrackList view -/
def crateExists (db : Db) (c : Id) : Bool := db.crate.any (·.id == c)

/-- Rows visible through `CrateTrackList`. -/
def ctlView (s : Schema) (db : Db) : List (Id × Id) :=
  if hasListViews s then db.ctl.filter (fun r => crateExists db r.1) else db.ctl

/-- `DELETE FROM CrateTrackList WHERE <p>`: only rows visible through the view can be matched. -/
def deleteCtl (s : Schema) (db : Db) (p : Id × Id → Bool) : Db :=
  if hasListViews s then
    { db with ctl := forEachOld ((ctlView s db).filter p) (fun old acc => acc.filter (fun r => !(r == old))) db.ctl }
  else { db with ctl := db.ctl.filter (fun r => !p r) }

/-! ### queries (engine_crate_impl / engine_database_impl / engine_track_impl) -/

def sortIds (l : List Id) : List Id := l.mergeSort (· ≤ ·)

/-- `SELECT COUNT(*) FROM Crate WHERE id = ?` with the two-way test of is_valid / crate_by_id. -/
def crateIsValid (db : Db) (c : Id) : Res Bool :=
  let n := (db.crate.filter (·.id == c)).length
  if n == 1 then .ok true else if n > 1 then .throw exCrateInconsistent else .ok false

/-- Callback folds of the shape "first row wins, a second row throws unless the first value was empty". -/
def firstNonEmptyOrThrow (rows : List Name) : Res Name :=
  rows.foldlM (fun (acc : Name) (v : Name) => if acc.isEmpty then Res.ok v else Res.throw exCrateInconsistent) []

def crateName (db : Db) (c : Id) : Res Name :=
  match (db.crate.filter (·.id == c)).map (·.title) with
  | [] => .throw exCrateDeleted
  | [t] => .ok t
  | _ => .throw exCrateInconsistent

/-- `SELECT crateParentId FROM CrateParentList WHERE crateOriginId = ? AND crateParentId <> crateOriginId`. -/
def crateParent (db : Db) (c : Id) : Res (Option Id) :=
  match (db.cpl.filter (fun r => r.1 == c && r.2 != r.1)).map (·.2) with
  | [] => .ok none
  | [p] => .ok (some p)
  | _ => .throw exCrateInconsistent

/-- children(): `SELECT crateOriginId FROM CrateParentList WHERE crateParentId = ? AND crateOriginId <> crateParentId`. -/
def crateChildren (db : Db) (c : Id) : List Id := (db.cpl.filter (fun r => r.2 == c && r.1 != r.2)).map (·.1)

/-- descendants(): `SELECT crateIdChild FROM CrateHierarchy WHERE crateId = ?`. -/
def crateDescendants (db : Db) (c : Id) : List Id := (db.ch.filter (·.1 == c)).map (·.2)

def crateTracks (s : Schema) (db : Db) (c : Id) : List Id := ((ctlView s db).filter (·.1 == c)).map (·.2)

def trackContainingCrates (s : Schema) (db : Db) (t : Id) : List Id := ((ctlView s db).filter (·.2 == t)).map (·.1)

/-- Last row of an `ORDER BY cr.id` result wins (the callback overwrites). -/
def lastById (ids : List Id) : Option Id := (sortIds ids).getLast?

/-- sub_crate_by_name: `Crate cr JOIN CrateParentList cpl ON cpl.crateOriginId = cr.id WHERE cr.title = ?
AND cpl.crateParentId = ? AND cpl.crateOriginId <> cpl.crateParentId`. -/
def subCrateByName (db : Db) (c : Id) (n : Name) : Option Id :=
  lastById ((db.crate.filter (·.title == n)).flatMap fun cr =>
    (db.cpl.filter (fun r => r.1 == cr.id && r.2 == c && r.1 != r.2)).map (fun _ => cr.id))

def rootCrateByName (db : Db) (n : Name) : Option Id :=
  lastById ((db.crate.filter (·.title == n)).flatMap fun cr =>
    (db.cpl.filter (fun r => r.1 == cr.id && r.1 == r.2)).map (fun _ => cr.id))

def dbCrates (db : Db) : List Id := sortIds (db.crate.map (·.id))
def dbRootCrates (db : Db) : List Id := sortIds ((db.cpl.filter (fun r => r.2 == r.1)).map (·.1))
def dbCrateById (db : Db) (c : Id) : Res (Option Id) := do
  let v ← crateIsValid db c
  pure (if v then some c else none)
def dbCratesByName (db : Db) (n : Name) : List Id := sortIds ((db.crate.filter (·.title == n)).map (·.id))
/-- `SELECT id FROM Track WHERE path IS NOT NULL ORDER BY id`. -/
def dbTracks (db : Db) : List Id := sortIds ((db.track.filter (·.hasPath)).map (·.id))
/-- track::is_valid / database::track_by_id: `SELECT COUNT(*) FROM Track WHERE id = ? AND path IS NOT NULL`
(after the `fix:` a5d64c8 — the NULL-path placeholder row of the AUTOINCREMENT schemas is not a track). -/
def trackIsValid (db : Db) (t : Id) : Res Bool :=
  let n := (db.track.filter (fun r => r.id == t && r.hasPath)).length
  if n == 1 then .ok true else if n > 1 then .throw exTrackInconsistent else .ok false

/-! ### operations -/

inductive Op where
  | createRoot (name : Name)
  | createSub (c : Id) (name : Name)
  | rename (c : Id) (name : Name)
  | setParent (c : Id) (parent : Option Id)
  | removeCrate (c : Id)
  | addTrack (c : Id) (t : Id)
  | removeTrackFrom (c : Id) (t : Id)
  | clearTracks (c : Id)
  | createTrack
  | removeTrack (t : Id)
  deriving Repr, DecidableEq, Inhabited

inductive Out where
  | unit
  | id (i : Id)
  deriving Repr, DecidableEq, Inhabited

/-- ensure_valid_name / ensure_valid_crate_name. -/
def ensureValidName (n : Name) : Res Unit :=
  if n.isEmpty then .throw exInvalidName
  else if n.contains semicolon then .throw exInvalidName
  else .ok ()

/-- A `sqlite_transaction` scope: the body's writes are kept on normal return and
rolled back when it leaves by exception (or aborts). -/
def transaction {α} (db : Db) (body : Res (Db × α)) : Db × Res α :=
  match body with
  | .ok (db', a) => (db', .ok a)
  | .throw e => (db, .throw e)
  | .ub u => (db, .ub u)

/-- database::create_root_crate. -/
def createRootCrate (s : Schema) (db : Db) (name : Name) : Db × Res Out :=
  match ensureValidName name with
  | .throw e => (db, .throw e)
  | .ub u => (db, .ub u)
  | .ok () =>
    transaction db do
      if (rootCrateByName db name).isSome then Res.throw exAlreadyExists else
      let id := newCrateId s db
      let db1 ← insertCrate s db ⟨id, name, name ++ [semicolon]⟩
      let db2 := { db1 with cpl := db1.cpl ++ [(id, id)] }
      pure (db2, Out.id id)

/-- The `SELECT path FROM Crate WHERE id = ?` callback of create_sub_crate: no row → crate_deleted,
a second row → crate_database_inconsistency. -/
def selectOwnPath (db : Db) (c : Id) : Res Name :=
  match (db.crate.filter (·.id == c)).map (·.path) with
  | [] => .throw exCrateDeleted
  | [p] => .ok p
  | _ => .throw exCrateInconsistent

/-- crate::create_sub_crate. -/
def createSubCrate (s : Schema) (db : Db) (c : Id) (name : Name) : Db × Res Out :=
  match ensureValidName name with
  | .throw e => (db, .throw e)
  | .ub u => (db, .ub u)
  | .ok () =>
    transaction db do
      if (subCrateByName db c name).isSome then Res.throw exAlreadyExists else
      let path ← selectOwnPath db c
      let sub := newCrateId s db
      let db1 ← insertCrate s db ⟨sub, name, path ++ name ++ [semicolon]⟩
      let db2 := { db1 with cpl := db1.cpl ++ [(sub, c)] }
      let db3 := { db2 with ch := db2.ch ++ hierarchyRowsFor db2.ch sub c }
      pure (db3, Out.id sub)

/-- update_path (anonymous namespace): rewrite the path of `c` and, recursively, of its
children().  The C++ recursion has no bound; `fuel` = number of parent-list rows + 1 is
exceeded only when the data is cyclic, where the C++ overflows its stack. -/
def updatePath (s : Schema) (fuel : Nat) (db : Db) (c : Id) (parentPath : Name) : Res Db :=
  match fuel with
  | 0 => .ub .nontermination
  | fuel + 1 => do
    let name ← crateName db c
    let path := parentPath ++ name ++ [semicolon]
    let db1 := { db with crate := updateCratePath s db.crate c path }
    (crateChildren db1 c).foldlM (fun acc k => updatePath s fuel acc k path) db1

/-- `if (!is_valid()) throw crate_deleted{id()}`. -/
def requireValid (db : Db) (c : Id) : Res Unit := do
  let v ← crateIsValid db c
  if v then pure () else Res.throw exCrateDeleted

/-- crate::set_name. -/
def setName (s : Schema) (db : Db) (c : Id) (name : Name) : Db × Res Out :=
  match ensureValidName name with
  | .throw e => (db, .throw e)
  | .ub u => (db, .ub u)
  | .ok () =>
    transaction db do
      requireValid db c
      -- SELECT path FROM Crate c JOIN CrateParentList cpl ON c.id = cpl.crateParentId
      --   WHERE cpl.crateOriginId = ? AND cpl.crateOriginId <> cpl.crateParentId
      let parentPath ← firstNonEmptyOrThrow
        ((db.cpl.filter (fun r => r.1 == c && r.1 != r.2)).flatMap fun r =>
          (db.crate.filter (·.id == r.2)).map (·.path))
      let path := parentPath ++ name ++ [semicolon]
      let db1 := { db with crate := updateCrateTitlePath s db.crate c name path }
      let db2 ← (crateChildren db1 c).foldlM (fun acc k => updatePath s (db1.cpl.length + 1) acc k path) db1
      pure (db2, Out.unit)

/-- The nested loops of set_parent: one `DELETE FROM CrateHierarchy WHERE crateId = ? AND crateIdChild = ?`
per (old ancestor, member of the moved sub-tree). -/
def deleteHierarchyLinks (s : Schema) (ch : List (Id × Id)) (ancestors members : List Id) : List (Id × Id) :=
  ancestors.foldl (fun acc a => members.foldl (fun acc m => deletePairs s acc (fun r => r.1 == a && r.2 == m)) acc) ch

/-- One `INSERT INTO CrateHierarchy (crateId, crateIdChild) VALUES (?, ?)` per (new ancestor, member). -/
def hierarchyLinks (ancestors members : List Id) : List (Id × Id) :=
  ancestors.flatMap fun a => members.map fun m => (a, m)

/-- crate::set_parent. -/
def setParent (s : Schema) (db : Db) (c : Id) (parent : Option Id) : Db × Res Out :=
  if parent == some c then (db, .throw exInvalidParent)
  else
    transaction db do
      requireValid db c
      match parent with
      | some q => requireValid db q
      | none => pure ()
      match parent with
      | some q =>
        if (db.ch.filter (fun r => r.1 == c && r.2 == q)).length > 0 then Res.throw exInvalidParent else pure ()
      | none => pure ()
      let cpl1 := deletePairs s db.cpl (fun r => r.1 == c)
      let cpl2 := cpl1 ++ [(c, parent.getD c)]
      let subtree := c :: (db.ch.filter (·.1 == c)).map (·.2)
      let oldAncestors := (db.ch.filter (·.2 == c)).map (·.1)
      let ch1 := deleteHierarchyLinks s db.ch oldAncestors subtree
      let (ch2, parentPath) := match parent with
        | some q =>
          let newAncestors := q :: (ch1.filter (·.2 == q)).map (·.1)
          (ch1 ++ hierarchyLinks newAncestors subtree,
           (((db.crate.filter (·.id == q)).map (·.path)).getLast?).getD [])
        | none => (ch1, [])
      let db1 := { db with cpl := cpl2, ch := ch2 }
      let db2 ← updatePath s (db1.cpl.length + 1) db1 c parentPath
      pure (db2, Out.unit)

/-- database::remove_crate: the crate and every descendant, with their dependent rows. -/
def removeCrate (s : Schema) (db : Db) (c : Id) : Db × Res Out :=
  transaction db do
    let ids := c :: (db.ch.filter (·.1 == c)).map (·.2)
    let db' := ids.foldl (fun (acc : Db) id =>
      let a1 := deleteCtl s acc (fun r => r.1 == id)
      let a2 := { a1 with ch := deletePairs s a1.ch (fun r => r.1 == id || r.2 == id) }
      let a3 := { a2 with cpl := deletePairs s a2.cpl (fun r => r.1 == id) }
      { a3 with crate := deleteCrate s a3.crate id }) db
    pure (db', Out.unit)

/-- crate::add_track. -/
def addTrack (s : Schema) (db : Db) (c t : Id) : Db × Res Out :=
  transaction db do
    requireValid db c
    -- SELECT COUNT(*) FROM Track WHERE id = ? AND path IS NOT NULL
    if (db.track.filter (fun r => r.id == t && r.hasPath)).length > 0 then pure () else Res.throw exTrackDeleted
    let db1 := deleteCtl s db (fun r => r.1 == c && r.2 == t)
    pure ({ db1 with ctl := db1.ctl ++ [(c, t)] }, Out.unit)

/-- crate::remove_track. -/
def removeTrackFrom (s : Schema) (db : Db) (c t : Id) : Db × Res Out :=
  (deleteCtl s db (fun r => r.1 == c && r.2 == t), .ok .unit)

/-- crate::clear_tracks. -/
def clearTracks (s : Schema) (db : Db) (c : Id) : Db × Res Out :=
  (deleteCtl s db (fun r => r.1 == c), .ok .unit)

/-- database::create_track, as far as the Track table's id column goes (the rest of a
track is outside this model): INTEGER PRIMARY KEY rowid rule before 1.17.0, AUTOINCREMENT after. -/
def createTrack (s : Schema) (db : Db) : Db × Res Out :=
  if trackAutoinc s then
    let id := max db.trackSeq (maxId (db.track.map (·.id))) + 1
    ({ db with track := db.track ++ [⟨id, true⟩], trackSeq := id }, .ok (.id id))
  else
    let id := idRowid (db.track.map (·.id))
    ({ db with track := db.track ++ [⟨id, true⟩] }, .ok (.id id))

/-- database::remove_track: `DELETE FROM Track WHERE id = ?`; from 1.17.0 on
trigger_after_delete_Track (`WHEN OLD.id > COALESCE((SELECT MAX(id) FROM Track), 0)`)
replaces the NULL-path placeholder rows by a fresh one. -/
def removeTrack (s : Schema) (db0 : Db) (t : Id) : Db × Res Out :=
  -- DELETE FROM CrateTrackList WHERE trackId = ?   (then DELETE FROM Track WHERE id = ?)
  let db := deleteCtl s db0 (fun r => r.2 == t)
  let olds := db.track.filter (·.id == t)
  let tr1 := db.track.filter (fun r => !(r.id == t))
  if trackAutoinc s then
    let db' := olds.foldl (fun (acc : Db) old =>
      if old.id > maxId (acc.track.map (·.id)) then
        let tr2 := acc.track.filter (·.hasPath)
        let id := max acc.trackSeq (maxId (tr2.map (·.id))) + 1
        { acc with track := tr2 ++ [⟨id, false⟩], trackSeq := id }
      else acc) { db with track := tr1 }
    (db', .ok .unit)
  else ({ db with track := tr1 }, .ok .unit)

def step (s : Schema) (db : Db) : Op → Db × Res Out
  | .createRoot n => createRootCrate s db n
  | .createSub c n => createSubCrate s db c n
  | .rename c n => setName s db c n
  | .setParent c p => setParent s db c p
  | .removeCrate c => removeCrate s db c
  | .addTrack c t => addTrack s db c t
  | .removeTrackFrom c t => removeTrackFrom s db c t
  | .clearTracks c => clearTracks s db c
  | .createTrack => createTrack s db
  | .removeTrack t => removeTrack s db t

def run (s : Schema) (db : Db) (ops : List Op) : Db := ops.foldl (fun d op => (step s d op).1) db

/-! ### the observation (every public query, per crate / track / probe name) -/

structure CrateObs where
  id : Id
  valid : Res Bool
  name : Res Name
  parent : Res (Option Id)
  children : List Id
  descendants : List Id
  tracks : List Id
  byId : Res (Option Id)
  subByName : List (Option Id)      -- one per probe name
  deriving Repr, DecidableEq, Inhabited

structure TrackObs where
  id : Id
  valid : Res Bool
  containing : List Id
  deriving Repr, DecidableEq, Inhabited

structure NameObs where
  name : Name
  byName : List Id
  rootByName : Option Id
  deriving Repr, DecidableEq, Inhabited

structure Obs where
  crates : List Id
  roots : List Id
  tracks : List Id
  perCrate : List CrateObs
  perTrack : List TrackObs
  perName : List NameObs
  deriving Repr, DecidableEq, Inhabited

def dedupSorted (l : List Id) : List Id := (sortIds l).eraseDups

def observeCrate (s : Schema) (db : Db) (names : List Name) (c : Id) : CrateObs :=
  { id := c, valid := crateIsValid db c, name := crateName db c, parent := crateParent db c,
    children := sortIds (crateChildren db c), descendants := sortIds (crateDescendants db c),
    tracks := sortIds (crateTracks s db c), byId := dbCrateById db c,
    subByName := names.map (subCrateByName db c) }

/-- `handles` / `thandles`: ids of the crate / track handles the caller still holds. -/
def observe (s : Schema) (db : Db) (handles thandles : List Id) (names : List Name) : Obs :=
  { crates := dbCrates db, roots := dbRootCrates db, tracks := dbTracks db,
    perCrate := (dedupSorted (db.crate.map (·.id) ++ handles)).map (observeCrate s db names),
    perTrack := (dedupSorted ((db.track.filter (·.hasPath)).map (·.id) ++ thandles)).map fun t =>
      { id := t, valid := trackIsValid db t, containing := sortIds (trackContainingCrates s db t) },
    perName := names.map fun n => { name := n, byName := dbCratesByName db n, rootByName := rootCrateByName db n } }

end EngineModel.Api.CratesV1
