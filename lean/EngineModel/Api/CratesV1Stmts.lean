/-
The public mutating calls of the schema-1.x crate code (`Api/CratesV1.lean`) as
*statement programs* on the connection of `Spec/Txn.lean` (C14, review item 3).

`stmts s db op` is the sequence of statements the call issues on the prior
state `db` when nothing fails: the `BEGIN` / `COMMIT` of the
`sqlite_transaction` scope where engine_crate_impl.cpp / engine_database_impl.cpp
have one, a `read` for each SELECT, and one `write` per INSERT / UPDATE /
DELETE, each a function of the *current* tables (`Db → Option Db`; `none` = the
statement fails by itself: PRIMARY KEY).  Loops issue one statement per element
(`remove_crate`: four DELETEs per removed crate; `set_parent`: one DELETE per
(old ancestor, member), one INSERT per (new ancestor, member); `update_path`:
one UPDATE per crate of the subtree, in the order of the recursion).

`Proofs/CratesV1Stmts.lean` proves that these programs are what `step` computes
(the fault-free run makes exactly `(step s db op).1` durable) and that every one
of them is an atomic shape.
-/
import EngineModel.Api.CratesV1
import EngineModel.Spec.Stmts

namespace EngineModel.Api.CratesV1
open EngineModel.Pure.Detect EngineModel.Spec.Txn EngineModel.Spec.Stmts

abbrev Prog := List (Cmd Db)

/-- `INSERT INTO Crate (id, title, path) VALUES (?, ?, ?)` -/
def wInsertCrate (s : Schema) (r : CrateRow) : Cmd Db := .write fun d => (insertCrate s d r).toOption
/-- `INSERT INTO CrateParentList (crateOriginId, crateParentId) VALUES (?, ?)` -/
def wInsertCpl (r : Id × Id) : Cmd Db := tot fun d => { d with cpl := d.cpl ++ [r] }
/-- `INSERT INTO CrateHierarchy … SELECT … UNION SELECT :parent, :child` -/
def wInsertSubHierarchy (sub c : Id) : Cmd Db := tot fun d => { d with ch := d.ch ++ hierarchyRowsFor d.ch sub c }
/-- `INSERT INTO CrateHierarchy (crateId, crateIdChild) VALUES (?, ?)` -/
def wInsertCh (r : Id × Id) : Cmd Db := tot fun d => { d with ch := d.ch ++ [r] }
/-- `INSERT INTO CrateTrackList (crateId, trackId) VALUES (?, ?)` -/
def wInsertCtl (r : Id × Id) : Cmd Db := tot fun d => { d with ctl := d.ctl ++ [r] }
/-- `UPDATE Crate SET path = ? WHERE id = ?` -/
def wCratePath (s : Schema) (c : Id) (path : Name) : Cmd Db :=
  tot fun d => { d with crate := updateCratePath s d.crate c path }
/-- `UPDATE Crate SET title = ?, path = ? WHERE id = ?` -/
def wCrateTitlePath (s : Schema) (c : Id) (title path : Name) : Cmd Db :=
  tot fun d => { d with crate := updateCrateTitlePath s d.crate c title path }
/-- `DELETE FROM CrateTrackList WHERE …` -/
def wDeleteCtl (s : Schema) (p : Id × Id → Bool) : Cmd Db := tot fun d => deleteCtl s d p
/-- `DELETE FROM CrateHierarchy WHERE …` -/
def wDeleteCh (s : Schema) (p : Id × Id → Bool) : Cmd Db := tot fun d => { d with ch := deletePairs s d.ch p }
/-- `DELETE FROM CrateParentList WHERE …` -/
def wDeleteCpl (s : Schema) (p : Id × Id → Bool) : Cmd Db := tot fun d => { d with cpl := deletePairs s d.cpl p }
/-- `DELETE FROM Crate WHERE id = ?` -/
def wDeleteCrate (s : Schema) (c : Id) : Cmd Db := tot fun d => { d with crate := deleteCrate s d.crate c }

/-- `update_path` with its statements: `SELECT title`, `UPDATE Crate SET path`, `SELECT children`, then the
children in turn — the recursion of the C++, threading the tables it has reached. -/
def updatePathS (s : Schema) : Nat → Db → Id → Name → Res (Db × Prog)
  | 0, _, _, _ => .ub .nontermination
  | fuel + 1, db, c, parentPath => do
    let name ← crateName db c
    let path := parentPath ++ name ++ [semicolon]
    let db1 := { db with crate := updateCratePath s db.crate c path }
    let r ← (crateChildren db1 c).foldlM (fun (acc : Db × Prog) k => do
      let r ← updatePathS s fuel acc.1 k path
      pure (r.1, acc.2 ++ r.2)) (db1, [])
    pure (r.1, .read :: wCratePath s c path :: .read :: r.2)

/-- `DELETE FROM Track WHERE id = ?` with `trigger_after_delete_Track` (the second statement of
database::remove_track; `removeTrack s db t = deleteTrackRow s (deleteCtl s db (·.2 == t)) t`). -/
def deleteTrackRow (s : Schema) (db : Db) (t : Id) : Db :=
  let olds := db.track.filter (·.id == t)
  let tr1 := db.track.filter (fun r => !(r.id == t))
  if trackAutoinc s then
    olds.foldl (fun (acc : Db) old =>
      if old.id > maxId (acc.track.map (·.id)) then
        let tr2 := acc.track.filter (·.hasPath)
        let id := max acc.trackSeq (maxId (tr2.map (·.id))) + 1
        { acc with track := tr2 ++ [⟨id, false⟩], trackSeq := id }
      else acc) { db with track := tr1 }
  else { db with track := tr1 }

def progOf (r : Res (Db × Prog)) : Prog :=
  match r with
  | .ok (_, p) => p
  | _ => []

def resD {α} (r : Res α) (d : α) : α :=
  match r with
  | .ok a => a
  | _ => d

/-! the intermediate values of `crate::set_parent` (as in `setParent`) -/
def spSubtree (db : Db) (c : Id) : List Id := c :: (db.ch.filter (·.1 == c)).map (·.2)
def spOldAncestors (db : Db) (c : Id) : List Id := (db.ch.filter (·.2 == c)).map (·.1)
def spCh1 (s : Schema) (db : Db) (c : Id) : List (Id × Id) :=
  deleteHierarchyLinks s db.ch (spOldAncestors db c) (spSubtree db c)
def spLinks (s : Schema) (db : Db) (c : Id) : Option Id → List (Id × Id)
  | some q => hierarchyLinks (q :: ((spCh1 s db c).filter (·.2 == q)).map (·.1)) (spSubtree db c)
  | none => []
def spParentPath (db : Db) : Option Id → Name
  | some q => (((db.crate.filter (·.id == q)).map (·.path)).getLast?).getD []
  | none => []
def spDb1 (s : Schema) (db : Db) (c : Id) (parent : Option Id) : Db :=
  { db with cpl := deletePairs s db.cpl (fun r => r.1 == c) ++ [(c, parent.getD c)],
            ch := spCh1 s db c ++ spLinks s db c parent }

/-- the statements of a call on the prior state `db`, when nothing fails, without the BEGIN / COMMIT of its scope -/
def body (s : Schema) (db : Db) : Op → Prog
  -- database::create_root_crate: scope { SELECT root by name; INSERT Crate; INSERT CrateParentList }
  | .createRoot name =>
    let id := newCrateId s db
    [.read, .read, wInsertCrate s ⟨id, name, name ++ [semicolon]⟩, wInsertCpl (id, id)]
  -- crate::create_sub_crate: scope { SELECT sub by name; SELECT path; INSERT Crate; INSERT CrateParentList;
  --                                  INSERT CrateHierarchy … SELECT }
  | .createSub c name =>
    let path := resD (selectOwnPath db c) []
    let sub := newCrateId s db
    [.read, .read, .read, wInsertCrate s ⟨sub, name, path ++ name ++ [semicolon]⟩, wInsertCpl (sub, c),
      wInsertSubHierarchy sub c]
  -- crate::set_name: scope { SELECT COUNT; SELECT parent path; UPDATE Crate SET title, path; update_path(children) }
  | .rename c name =>
    let parentPath := resD (firstNonEmptyOrThrow
      ((db.cpl.filter (fun r => r.1 == c && r.1 != r.2)).flatMap fun r =>
        (db.crate.filter (·.id == r.2)).map (·.path))) []
    let path := parentPath ++ name ++ [semicolon]
    let db1 := { db with crate := updateCrateTitlePath s db.crate c name path }
    (.read :: .read :: wCrateTitlePath s c name path :: .read ::
      progOf ((crateChildren db1 c).foldlM (fun (acc : Db × Prog) k => do
        let r ← updatePathS s (db1.cpl.length + 1) acc.1 k path
        pure (r.1, acc.2 ++ r.2)) (db1, [])))
  -- crate::set_parent: scope { validity SELECTs; DELETE + INSERT CrateParentList; one DELETE FROM CrateHierarchy per
  --   (old ancestor, member of the subtree); one INSERT per (new ancestor, member); update_path }
  | .setParent c parent =>
    ([.read, .read, .read, wDeleteCpl s (fun r => r.1 == c), wInsertCpl (c, parent.getD c), .read, .read] ++
      ((spOldAncestors db c).flatMap fun a => (spSubtree db c).map fun m => wDeleteCh s (fun r => r.1 == a && r.2 == m)) ++
      [.read] ++ (spLinks s db c parent).map wInsertCh ++ [.read] ++
      progOf (updatePathS s ((spDb1 s db c parent).cpl.length + 1) (spDb1 s db c parent) c (spParentPath db parent)))
  -- database::remove_crate: scope { SELECT descendants; per crate: DELETE FROM CrateTrackList, CrateHierarchy,
  --   CrateParentList, Crate }
  | .removeCrate c =>
    (.read :: ((c :: (db.ch.filter (·.1 == c)).map (·.2)).flatMap fun id =>
      [wDeleteCtl s (fun r => r.1 == id), wDeleteCh s (fun r => r.1 == id || r.2 == id),
       wDeleteCpl s (fun r => r.1 == id), wDeleteCrate s id]))
  -- crate::add_track: scope { SELECT COUNT crate; SELECT COUNT track; DELETE + INSERT CrateTrackList }
  | .addTrack c t =>
    [.read, .read, wDeleteCtl s (fun r => r.1 == c && r.2 == t), wInsertCtl (c, t)]
  -- crate::remove_track / crate::clear_tracks: one DELETE, no scope
  | .removeTrackFrom c t => [wDeleteCtl s (fun r => r.1 == c && r.2 == t)]
  | .clearTracks c => [wDeleteCtl s (fun r => r.1 == c)]
  -- database::create_track / remove_track as far as this model's tables go (the other tables of a track are the
  -- subject of the tracks-1.x model): both run inside the scope of engine_database_impl.cpp / engine_track_impl.cpp
  | .createTrack => [tot fun d => (createTrack s d).1]
  | .removeTrack t => [wDeleteCtl s (fun r => r.2 == t), tot fun d => deleteTrackRow s d t]

/-- Does the call run inside a `sqlite_transaction` scope? -/
def scopedOp : Op → Bool
  | .removeTrackFrom _ _ | .clearTracks _ => false
  | _ => true

/-- the statements of a call on the prior state `db`, when nothing fails -/
def stmts (s : Schema) (db : Db) (op : Op) : Prog :=
  if scopedOp op then txn (body s db op) else body s db op

/-- `shapeOf`: the statement kinds of the call on prior state `db`. -/
def shapeOf (s : Schema) (op : Op) (db : Db) : List CmdKind := (stmts s db op).map Cmd.kind

/-- The skeleton of each operation, whatever the prior state and arguments. -/
def skeletonOf (op : Op) : Skeleton := if scopedOp op then .scope else .single

end EngineModel.Api.CratesV1
