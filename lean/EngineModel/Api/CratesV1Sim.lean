/-
How a history of Model operations drives the two Specs (C07: `Spec.Forest`,
C08: `Spec.Members`).  Exactly as the direct oracle of the tie does with the
real library's answers, the Specs are told only what a caller can see of each
call: whether it returned or threw, and the id it reported for a creation.  A
trace is `none` as soon as one outcome contradicts the Spec's verdict
(`accept` but threw, `reject` but returned).  The refinement theorems say that
the trace of every history is `some`, and that every query on the Model's
tables equals the Spec's query on the traced abstract state.
-/
import EngineModel.Api.CratesV1Wf
import EngineModel.Spec.Members

namespace EngineModel.Api.CratesV1
open EngineModel.Pure.Detect EngineModel.Spec

/-- The crate-structure operations, as the Spec names them. -/
def forestOp : Op → Option Forest.Op
  | .createRoot n => some (.createRoot n)
  | .createSub c n => some (.createSub c n)
  | .rename c n => some (.rename c n)
  | .setParent c p => some (.setParent c p)
  | .removeCrate c => some (.remove c)
  | _ => none

/-- The id a call reported (0 when it reported none). -/
def outId : Res Out → Id
  | .ok (.id i) => i
  | _ => 0

/-- One step of the abstract forest, driven by the outcome `r` of the Model's call. -/
def forestNext (f : Forest.Forest) (op : Op) (r : Res Out) : Option Forest.Forest :=
  match forestOp op with
  | none => some f
  | some sop => (Forest.step f sop (outId r)).next f r.isOk

def forestTrace (s : Schema) : Db → Forest.Forest → List Op → Option Forest.Forest
  | _, f, [] => some f
  | db, f, op :: ops =>
    match forestNext f op (step s db op).2 with
    | none => none
    | some f' => forestTrace s (step s db op).1 f' ops

/-- Tell the membership Spec of an event it only records (a crate or track came into existence / ceased to exist). -/
def membersTell (m : Members.State) (op : Members.Op) : Members.State :=
  match Members.step m op with
  | .accept m' | .either m' => m'
  | .reject => m

/-- One step of the abstract membership relation.  `before` / `after`: the answers of `crates()` around the call
(a removal drops the crates that are no longer listed).  A creation that reports the id of a live crate / live
track contradicts the Spec (`none`). -/
def membersNext (m : Members.State) (op : Op) (r : Res Out) (before after : List Id) : Option Members.State :=
  match op with
  | .createRoot _ | .createSub _ _ =>
    if r.isOk then (if m.crates.contains (outId r) then none else some (membersTell m (.newCrate (outId r)))) else some m
  | .removeCrate _ =>
    some (if r.isOk then membersTell m (.dropCrates (before.filter fun i => !after.contains i)) else m)
  | .createTrack =>
    if r.isOk then (if m.tracks.contains (outId r) then none else some (membersTell m (.newTrack (outId r)))) else some m
  | .removeTrack t => (Members.step m (.dropTrack t)).next m r.isOk
  | .addTrack c t => (Members.step m (.add c t)).next m r.isOk
  | .removeTrackFrom c t => (Members.step m (.remove c t)).next m r.isOk
  | .clearTracks c => (Members.step m (.clear c)).next m r.isOk
  | .rename _ _ | .setParent _ _ => some m

def membersTrace (s : Schema) : Db → Members.State → List Op → Option Members.State
  | _, m, [] => some m
  | db, m, op :: ops =>
    match membersNext m op (step s db op).2 (dbCrates db) (dbCrates (step s db op).1) with
    | none => none
    | some m' => membersTrace s (step s db op).1 m' ops

/-- The membership state a raw database describes (crates, tracks with a path, stored membership rows). -/
def absMembers (db : Db) : Members.State :=
  ⟨db.crate.map (·.id), (db.track.filter (·.hasPath)).map (·.id), db.ctl⟩

/-- Does some call of the continuation `ops` (run from `db`) report the id `y` for a newly created crate?
(The 1.x schemas allocate MAX(id)+1 / rowid, so the id of a removed crate can be handed out again.) -/
def reissues (s : Schema) : Db → List Op → Id → Bool
  | _, [], _ => false
  | db, op :: ops, y => decide ((step s db op).2 = .ok (.id y) ∧ forestOp op ≠ none) || reissues s (step s db op).1 ops y

/-- The (crate, track) pairs an operation is ABOUT (C08's frame property: the membership of every other pair is
unchanged).  `f` = the forest before the call (removing a crate is about its whole sub-tree). -/
def touches (f : Forest.Forest) : Op → Id × Id → Bool
  | .addTrack c t, p => p.1 == c && p.2 == t
  | .removeTrackFrom c t, p => p.1 == c && p.2 == t
  | .clearTracks c, p => p.1 == c
  | .removeTrack t, p => p.2 == t
  | .removeCrate c, p => p.1 == c || f.isAncestor c p.1
  | _, _ => false

end EngineModel.Api.CratesV1
