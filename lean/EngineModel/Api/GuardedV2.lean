/-
C15, schema 2.x crates: guarded mirrors of the two places where the model of
`Db/Chain.lean` / `Db/V2Crates.lean` replaces an unbounded C++ / SQLite loop by
a fuel-bounded total function that *silently stops* when the fuel is used up.
Here running out of fuel is the explicit outcome `ub nontermination`, so that
"the loop terminates" becomes a statement that can be proved (and that fails on
cyclic data):

* `walkBackG`  — the `do … while (it != end)` of `sort_ids` /
  `playlist_entity_table::get_for_list` (fuel = number of selected rows, as in
  `walkBack`; one more lookup decides whether the loop would go on);
* `isAncG` / `descendantIdsG` — the recursive view `PlaylistAllChildren` read by
  `playlist_table::descendant_ids` (fuel = number of Playlist rows, as in `isAnc`).

The functions delegate to the definitions of the crates-2.x work-package
(`lookupNext`, `rowsOf`, `get`); nothing of theirs is changed.
-/
import EngineModel.Db.V2Crates

namespace EngineModel.Api.GuardedV2
open EngineModel EngineModel.Db.Chain EngineModel.Db.V2

variable {α : Type}

/-- `walkFuel` with the loop condition re-tested when the fuel is used up. -/
def walkFuelG (rows : Table α) : Nat → Int → List (Row α) → Res (List (Row α))
  | 0, cur, acc =>
    match lookupNext rows cur with
    | none => .ok acc
    | some _ => .ub .nontermination
  | f + 1, cur, acc =>
    match lookupNext rows cur with
    | none => .ok acc
    | some r => walkFuelG rows f r.id (r :: acc)

/-- `walkBack` with both undefined behaviours explicit: no tail, and a walk that does not end. -/
def walkBackG (t : Table α) (k : Int) : Res (List (Row α)) :=
  let rows := rowsOf t k
  if rows.isEmpty then .ok []
  else match lookupNext rows 0 with
    | none => .ub .oob_read
    | some _ => walkFuelG rows rows.length 0 []

/-- `isAncFuel` where using up the fuel is `nontermination` (the recursive CTE keeps producing rows). -/
def isAncFuelG (t : Table Bytes) (a : Int) : Nat → Int → Res Bool
  | 0, _ => .ub .nontermination
  | n + 1, x =>
    match get t x with
    | none => .ok false
    | some r => if r.key == 0 then .ok false else if r.key == a then .ok true else isAncFuelG t a n r.key

def isAncG (t : Table Bytes) (a x : Int) : Res Bool := isAncFuelG t a t.length x

def filterG (p : Row Bytes → Res Bool) : List (Row Bytes) → Res (List (Row Bytes))
  | [] => .ok []
  | r :: l =>
    match p r with
    | .ok b =>
      match filterG p l with
      | .ok rs => .ok (if b then r :: rs else rs)
      | .throw e => .throw e
      | .ub u => .ub u
    | .throw e => .throw e
    | .ub u => .ub u

/-- `playlist_table::descendant_ids` over the guarded view. -/
def descendantIdsG (t : Table Bytes) (c : Int) : Res (List Int) :=
  match filterG (fun r => isAncG t c r.id) t with
  | .ok rs => .ok (rs.map (·.id))
  | .throw e => .throw e
  | .ub u => .ub u

/-! ### the public queries over the guarded walks -/

inductive Query where
  | crates | roots | children (c : Int) | descendants (c : Int) | parent (c : Int) | name (c : Int)
  | valid (c : Int) | byName (n : Bytes) | byParentName (p : Int) (n : Bytes) | tracks (c : Int)
  | entities (l : Int) | allTracks
  deriving Repr, DecidableEq

/-- Outcome class of a query (payload dropped: the values are C07–C09's subject). -/
def queryG (d : Db) : Query → Res Unit
  | .crates => .ok ()
  | .roots => (walkBackG d.pl 0).bind fun _ => .ok ()
  | .children c => (walkBackG d.pl c).bind fun _ => .ok ()
  | .descendants c => (descendantIdsG d.pl c).bind fun _ => .ok ()
  | .parent c => (qParent d c).bind fun _ => .ok ()
  | .name c => (qName d c).bind fun _ => .ok ()
  | .valid _ => .ok ()
  | .byName _ => .ok ()
  | .byParentName _ _ => .ok ()
  | .tracks c => (walkBackG d.pe c).bind fun _ => .ok ()
  | .entities l => (walkBackG d.pe l).bind fun _ => .ok ()
  | .allTracks => .ok ()

end EngineModel.Api.GuardedV2
