/-
C15, schema 2.x crates: the model of the crates-2.x work-package (`Db/V2Crates.lean`, `Db/Chain.lean`)
with every place at which the C++ can invoke undefined behaviour written as a POSSIBLE `ub`:

* `walkBackG` / `sortIdsG` / `getForListG` — the `do … while (it != end)` of `sort_ids` /
  `playlist_entity_table::get_for_list`: the package's `walkBack` gives the loop `rows.length` steps and then
  stops silently; here one more lookup decides whether the loop would go on (`ub nontermination`); the missing
  tail (`curr->second` on `end()`, the `assert` is compiled out) is `ub oob_read` in both;
* the recursive view `PlaylistAllChildren` (cycle test of set_parent, remove_crate, descendants()) is the
  package's own `descendantIds : Res` (level-wise iteration, `ub nontermination` on a cyclic table);
* `stepGW` / `q*G` — every `*opt` / `opt->` of crate_impl.cpp, database_impl.cpp and
  playlist_entity_table.cpp as `ub empty_optional` behind the guard the C++ has, the guard conditions being
  regenerated from the source on every run (`Gen.C15Guards`, tools/tr_c15guards.py).

Nothing of the package's files is changed.
-/
import EngineModel.Db.V2Crates
import EngineModel.Gen.C15Guards

namespace EngineModel.Api.GuardedV2
open EngineModel EngineModel.Db.Chain EngineModel.Db.V2 EngineModel.Gen

variable {α : Type}

/-- `walkFuel` with the loop condition re-tested when the fuel is used up. -/
def walkFuelG (rows : Table α) : Nat → Int → List (Row α) → Res (List (Row α))
  | 0, cur, acc =>
    match lookupNext rows cur with
    | none => .ok acc
    | some _ => .ub .nontermination
  | f + 1, cur, acc =>
    match lookupNext rows cur with
    | none => .ok acc
    | some r => walkFuelG rows f r.id (r :: acc)

/-- `walkBack` with both undefined behaviours explicit: no tail, and a walk that does not end. -/
def walkBackG (t : Table α) (k : Int) : Res (List (Row α)) :=
  let rows := rowsOf t k
  if rows.isEmpty then .ok []
  else match lookupNext rows 0 with
    | none => .ub .oob_read
    | some _ => walkFuelG rows rows.length 0 []

/-! ### every dereference of the C++ call paths, with the C++ guard taken from the source

The conditions named `C15Guards.*` are regenerated from the C++ on every run
(`tools/tr_c15guards.py`): a guard that is weakened or removed there changes the
definition here, `stepG` then answers `ub` where the real code dereferences, and
the proofs of `Proofs/NoUbCratesV2.lean` no longer go through. -/

/-- `*opt` / `opt->member` on a `std::optional`: undefined when it is empty. -/
def deref {α : Type} : Option α → Res α
  | some a => .ok a
  | none => .ub .empty_optional

/-- continue a call with the value of a dereference; `ub` ends it (nothing has been written yet) -/
def withDeref {α : Type} (d : Db) (x : Option α) (k : α → Db × Res Out) : Db × Res Out :=
  match deref x with
  | .ok a => k a
  | .throw e => (d, .throw e)
  | .ub u => (d, .ub u)

/-- `sort_ids` (playlist_table.cpp:49-67) on the rows selected by `child_ids` / `root_ids`. -/
def sortIdsG (t : Table Bytes) (k : Int) : Res (List (Row Bytes)) :=
  let rows := rowsOf t k
  if C15Guards.v2_pl_sort_ids_empty rows.isEmpty then .ok []       -- :53
  else match lookupNext rows 0 with                                -- :56 find(NO_NEXT); the assert is compiled out
    | none => .ub .oob_read                                        -- :61 `curr->second` on end()
    | some _ => walkFuelG rows rows.length 0 []                    -- :59-64 do … while (curr != end)

/-- `playlist_entity_table::get_for_list` (playlist_entity_table.cpp:142-177). -/
def getForListG (t : Table Ent) (k : Int) : Res (List (Row Ent)) :=
  let rows := rowsOf t k
  if C15Guards.v2_pe_get_for_list_empty rows.isEmpty then .ok []   -- :163
  else match lookupNext rows 0 with                                -- :166
    | none => .ub .oob_read                                        -- :171 `curr->second.id` on end()
    | some _ => walkFuelG rows rows.length 0 []                    -- :169-174

/-- The guard conditions of the mutating call paths.  `Guards.source` = what the C++ source says today
(regenerated on every run); other values describe hypothetical sources (a guard dropped or weakened) and
are used to show that each guard is needed (`…_counterexample` theorems). -/
structure Guards where
  rootAfterNoRow : Bool → Bool          -- database_impl.cpp:107  `!after_row`
  subAfterNoRow : Bool → Bool           -- crate_impl.cpp:132     `!after_row`
  setNameNoRow : Bool → Bool            -- crate_impl.cpp:228     `!row`
  setParentSelf : Bool → Bool → Bool    -- crate_impl.cpp:239     `parent && parent->id() == id()`
  setParentNoRow : Bool → Bool          -- crate_impl.cpp:245     `!row`
  setParentGiven : Bool → Bool          -- crate_impl.cpp:250     `parent`
  setParentGiven2 : Bool → Bool         -- crate_impl.cpp:267     `parent ? … : …`
  addBackExisting : Bool → Bool         -- playlist_entity_table.cpp:52 `existing_id`
  crateRemoveTrackFound : Bool → Bool   -- crate_impl.cpp:219     `row`
  dbRemoveTrackFound : Bool → Bool      -- database_impl.cpp:166  `row`

def Guards.source : Guards where
  rootAfterNoRow := C15Guards.v2_db_root_after_norow
  subAfterNoRow := C15Guards.v2_crate_sub_after_norow
  setNameNoRow := C15Guards.v2_crate_set_name_norow
  setParentSelf := C15Guards.v2_crate_set_parent_self
  setParentNoRow := C15Guards.v2_crate_set_parent_norow
  setParentGiven := C15Guards.v2_crate_set_parent_given
  setParentGiven2 := C15Guards.v2_crate_set_parent_given2
  addBackExisting := C15Guards.v2_pe_add_back_existing
  crateRemoveTrackFound := C15Guards.v2_crate_remove_track_found
  dbRemoveTrackFound := C15Guards.v2_db_remove_track_found

/-- `playlist_entity_table::add_back` (playlist_entity_table.cpp:36-85): `*existing_id` behind `if (existing_id)`. -/
def peAddBackG (g : Guards) (d : Db) (l t u : Int) (throwIfDup : Bool) : Db × Res Out :=
  let existing := peFind d l t u                                                       -- :46-50
  if g.addBackExisting existing.isSome then                                            -- :52
    if throwIfDup then (d, .throw .invalid_argument)
    else withDeref d existing fun e => (d, .ok (some e.id))                            -- :61 `*existing_id`
  else
    let i := d.peSeq + 1
    ({ d with pe := appendBack d.pe i l ⟨t, u⟩, peSeq := i }, .ok (some i))

/-- One round of the loop of `database_impl::remove_track` (database_impl.cpp:162-170): `row->id` behind `if (row)`. -/
def rmTrackInG (g : Guards) (t : Int) (acc : Res (Table Ent)) (l : Int) : Res (Table Ent) :=
  acc.bind fun pe =>
    let row := (pe.filter (fun r => r.key == l && r.val.track == t && r.val.uuid == 0)).getLast?   -- :165
    if g.dbRemoveTrackFound row.isSome then                                                       -- :166
      (deref row).bind fun e => .ok (deleteKeyed fires pe l e.id)                                 -- :168 row->id
    else .ok pe

/-- The cycle test of `crate_impl::set_parent` (crate_impl.cpp:250-265): `none` = no objection. -/
def setParentCheckG (g : Guards) (d : Db) (c : Int) (p : Option Int) : Res (Option Exn) :=
  if g.setParentGiven p.isSome then                                  -- :250 if (parent)
    (deref p).bind fun q =>                                                             -- :252 parent->id()
      if !plExists d q then .ok (some (exn "crate_deleted"))
      else (descendantIds d.pl c).bind fun ds =>                                       -- :257 the recursive view
        if ds.contains q then .ok (some (exn "crate_invalid_parent")) else .ok none     -- :258 (parent->id() again)
  else .ok none

/-- The mutating operations with every dereference and both unbounded evaluations explicit.
Operations whose call path has no such site (see the inventory in design/C15.md) are `step` itself. -/
def stepGW (g : Guards) (d : Db) : Op → Db × Res Out
  -- database_impl::create_root_crate_after (database_impl.cpp:96-132)
  | .createRootAfter name after =>
    if (findId d 0 name).isSome then (d, .throw (exn "crate_already_exists"))
    else
      let afterRow := get d.pl after                                                    -- :106
      if g.rootAfterNoRow afterRow.isSome then (d, .throw (exn "crate_deleted"))   -- :107
      else withDeref d afterRow fun a =>                                                -- :112 after_row->parent_list_id
        if a.key != 0 then (d, .throw (exn "crate_invalid_parent"))                     -- (:115 after_row->title)
        else withDeref d afterRow fun a' => plAdd d name 0 a'.next                      -- :126 after_row->next_list_id
  -- crate_impl::create_sub_crate_after (crate_impl.cpp:115-158)
  | .createSubAfter p name after =>
    if !plExists d p then (d, .throw (exn "crate_deleted"))
    else if (findId d p name).isSome then (d, .throw (exn "crate_already_exists"))
    else
      let afterRow := get d.pl after                                                    -- :131
      if g.subAfterNoRow afterRow.isSome then (d, .throw (exn "crate_deleted"))  -- :132
      else withDeref d afterRow fun a =>                                                -- :137
        if a.key != p then (d, .throw (exn "crate_invalid_parent"))                     -- (:141)
        else withDeref d afterRow fun a' => plAdd d name p a'.next                      -- :152
  -- crate_impl::set_name (crate_impl.cpp:225-235)
  | .rename c name =>
    let row := get d.pl c                                                               -- :227
    if g.setNameNoRow row.isSome then (d, .throw (exn "crate_deleted"))   -- :228
    else withDeref d row fun r => plUpdate d c name r.key r.next                        -- :233 row->title, :234 *row
  -- crate_impl::set_parent (crate_impl.cpp:237-277)
  | .setParent c p =>
    -- :239 `parent && parent->id() == id()`: the right operand dereferences `parent`
    let isSelf : Res Bool :=
      if p.isSome then (deref p).bind fun q => .ok (q == c) else .ok false
    match isSelf with
    | .ub u => (d, .ub u)
    | .throw e => (d, .throw e)
    | .ok self =>
      if g.setParentSelf p.isSome self then (d, .throw (exn "crate_invalid_parent"))
      else
        let row := get d.pl c                                                           -- :244
        if g.setParentNoRow row.isSome then (d, .throw (exn "crate_deleted"))   -- :245
        else
          match setParentCheckG g d c p with                                              -- :250-265
          | .ub u => (d, .ub u)
          | .throw e => (d, .throw e)
          | .ok (some e) => (d, .throw e)
          | .ok none =>
            -- :267 `parent ? parent->id() : PARENT_LIST_ID_NONE`
            let newParent : Res Int := if g.setParentGiven2 p.isSome then deref p else .ok 0
            match newParent with
            | .ub u => (d, .ub u)
            | .throw e => (d, .throw e)
            | .ok np =>
              withDeref d row fun r =>                                                  -- :268-276 row->…, *row
                if r.key != np then plUpdate d c r.val np 0
                else plUpdate d c r.val r.key r.next
  -- database_impl::remove_crate → playlist_table::remove (playlist_table.cpp:203-232)
  | .removeCrate c =>
    if !plExists d c then (d, .throw .invalid_argument)                                 -- :205
    else match descendantIds d.pl c with                                                -- :217 the recursive view
      | .ok ds => (plRemove d (c :: ds), .ok none)
      | .throw e => (d, .throw e)
      | .ub u => (d, .ub u)
  -- crate_impl::add_track (crate_impl.cpp:37-62) → add_back
  | .addTrack c t =>
    if !plExists d c then (d, .throw (exn "crate_deleted"))
    else if !d.tracks.contains t then (d, .throw (exn "track_deleted"))
    else peAddBackG g d c t 0 false
  | .peAddBack l t u f => peAddBackG g d l t u f
  -- database_impl::remove_track (database_impl.cpp:154-182)
  | .removeTrack t =>
    match (ids d.pl).foldl (rmTrackInG g t) (.ok d.pe) with
    | .ok pe =>
      if d.tracks.contains t then ({ d with pe := pe, tracks := d.tracks.filter (· != t) }, .ok none)
      else (d, .throw .invalid_argument)
    | .throw e => (d, .throw e)
    | .ub u => (d, .ub u)
  -- crate_impl::remove_track (crate_impl.cpp:211-223)
  | .removeTrackFrom c t =>
    let row := peFind d c t 0                                                           -- :217
    if g.crateRemoveTrackFound row.isSome then                                          -- :219
      withDeref d row fun e => ({ d with pe := deleteKeyed fires d.pe c e.id }, .ok none)   -- :221 row->id
    else (d, .ok none)
  | op => step d op

/-- the guarded step with the guards of the source as it is today -/
def stepG (d : Db) (op : Op) : Db × Res Out := stepGW Guards.source d op

def runG (d : Db) : List Op → Db
  | [] => d
  | op :: ops => runG (stepG d op).1 ops

/-- The outcomes of a script under the guarded step, in order. -/
def outcomesG (d : Db) : List Op → List (Res Out)
  | [] => []
  | op :: t => (stepG d op).2 :: outcomesG (stepG d op).1 t

/-! ### the public queries over the guarded walks -/

inductive Query where
  | crates | roots | children (c : Int) | descendants (c : Int) | parent (c : Int) | name (c : Int)
  | valid (c : Int) | byName (n : Bytes) | byParentName (p : Int) (n : Bytes) | tracks (c : Int)
  | entities (l : Int) | allTracks | trackById (t : Int) | crateById (c : Int)
  | dbUuid | dbVersionName | dbDirectory | dbVerify | crateDb (c : Int)   -- no model content: tie-only
  deriving Repr, DecidableEq

/-- crate::name (crate_impl.cpp:183-192) -/
def qNameG (d : Db) (c : Int) : Res Bytes :=
  let row := get d.pl c                                                                -- :185
  if C15Guards.v2_crate_name_norow row.isSome then .throw (exn "crate_deleted")        -- :186
  else (deref row).bind fun r => .ok r.val                                             -- :191 row->title

/-- crate::parent (crate_impl.cpp:194-209) -/
def qParentG (d : Db) (c : Int) : Res (Option Int) :=
  let row := get d.pl c                                                                -- :196
  if C15Guards.v2_crate_parent_norow row.isSome then .throw (exn "crate_deleted")      -- :197
  else (deref row).bind fun r =>                                                       -- :202 row->parent_list_id
    if r.key == 0 then .ok none else (deref row).bind fun r' => .ok (some r'.key)      -- :207

/-- crate::sub_crate_by_name (crate_impl.cpp:279-289) / database::root_crate_by_name (database_impl.cpp:197-207) -/
def qByParentNameG (d : Db) (p : Int) (n : Bytes) : Res (Option Int) :=
  let idMaybe := findId d p n
  let none' := if p == 0 then C15Guards.v2_db_root_by_name_none idMaybe.isSome
               else C15Guards.v2_crate_sub_by_name_none idMaybe.isSome
  if none' then .ok none else (deref idMaybe).bind fun i => .ok (some i)               -- `*id_maybe`

/-- Outcome class of a query (payload dropped: the values are C07–C09's subject). -/
def queryG (d : Db) : Query → Res Unit
  | .crates => .ok ()
  | .roots => (sortIdsG d.pl 0).bind fun _ => .ok ()
  | .children c => (sortIdsG d.pl c).bind fun _ => .ok ()
  | .descendants c => (descendantIds d.pl c).bind fun _ => .ok ()
  | .parent c => (qParentG d c).bind fun _ => .ok ()
  | .name c => (qNameG d c).bind fun _ => .ok ()
  | .valid _ => .ok ()
  | .byName _ => .ok ()
  | .byParentName p n => (qByParentNameG d p n).bind fun _ => .ok ()
  | .tracks c => (getForListG d.pe c).bind fun _ => .ok ()
  | .entities l => (getForListG d.pe l).bind fun _ => .ok ()
  | .allTracks => .ok ()
  | .trackById _ => .ok ()       -- track_table::exists
  | .crateById _ => .ok ()       -- playlist_table::exists
  | .dbUuid | .dbVersionName | .dbDirectory | .dbVerify | .crateDb _ => .ok ()

/-- **Every public operation of `database` / `crate`** over the 2.x crate model: a mutation or a query.
(`crate::add_tracks(first, last)` is the header template `for (it …) add_track(*it)`: a list of `addTrack`.) -/
inductive Call where
  | mutate (op : Op)
  | q (q : Query)
  deriving Repr, DecidableEq

def callG (d : Db) : Call → Db × Res Unit
  | .mutate op => let p := stepG d op; (p.1, p.2.bind fun _ => .ok ())
  | .q q => (d, queryG d q)

def callOutcomes (d : Db) : List Call → List (Res Unit)
  | [] => []
  | c :: t => (callG d c).2 :: callOutcomes (callG d c).1 t

def callRun (d : Db) : List Call → Db
  | [] => d
  | c :: t => callRun (callG d c).1 t

end EngineModel.Api.GuardedV2
