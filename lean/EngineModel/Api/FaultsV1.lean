/-
C15 on states left behind by FAILED calls, schema 1.x crates / memberships: the counterpart of
`Api/FaultsV2.lean` over `Api/CratesV1.step` and its statement programs `Api/CratesV1Stmts.stmts` (one write per
INSERT / UPDATE / DELETE, every loop iteration and every level of the `update_path` recursion a statement of its
own).  `callF s d op plan` runs the call's program on the connection of `Spec/Txn.lean` under the fault plan; a
failure raises, the RAII scope rolls back, the next call starts from what the connection reads then.
-/
import EngineModel.Api.CratesV1Stmts
import EngineModel.Api.FaultsV2

namespace EngineModel.Api.FaultsV1
open EngineModel EngineModel.Api.CratesV1 EngineModel.Pure.Detect
open EngineModel.Spec.Txn EngineModel.Spec.Stmts

abbrev Plan := EngineModel.Api.FaultsV2.Plan

def progRun (s : Schema) (d : Db) (op : Op) (p : Plan) : Outcome Db := call (some p.k) p.auto (stmts s d op) d

/-- One public mutating call under an optional fault plan (see `FaultsV2.callF`). -/
def callF (s : Schema) (d : Db) (op : Op) : Option Plan → Db × Res Out
  | none => step s d op
  | some p =>
    let r0 := step s d op
    match r0.2 with
    | .ub _ => r0
    | _ =>
      let r := progRun s d op p
      if r.raised then (r.conn.view, .throw .sqlite_error) else r0

abbrev FCall := Op × Option Plan

def runF (s : Schema) (d : Db) : List FCall → Db
  | [] => d
  | c :: t => runF s (callF s d c.1 c.2).1 t

def outcomesF (s : Schema) (d : Db) : List FCall → List (Res Out)
  | [] => []
  | c :: t => (callF s d c.1 c.2).2 :: outcomesF s (callF s d c.1 c.2).1 t

/-- number of fault positions of the call on this prior state -/
def positions (s : Schema) (d : Db) (op : Op) : Nat := countFaultable (shapeOf s op d)

/-- the call as the library would issue it WITHOUT its `sqlite_transaction` scope: the same statements in
autocommit mode -/
def unscoped (s : Schema) (d : Db) (op : Op) : Prog := body s d op

end EngineModel.Api.FaultsV1
