/-
Histories of the schema-1.x TRACK operations that can write `Track.path` — create_track, track::update,
every single-field setter (among them set_relative_path), remove_track — over the tracks package's
multi-track model `TracksV1.Db` (EngineModel/TracksV1/Accessors.lean), and the executable predicate
"the derived columns agree with the path" judged with the independent Spec of EngineModel/Spec/PathParts.lean.
A call that throws leaves the database as it was (its transaction is rolled back).
-/
import EngineModel.TracksV1.SpecLens
import EngineModel.Spec.PathParts

namespace EngineModel.Api.TrackColsV1
open EngineModel.TracksV1 EngineModel.Spec.PathParts
open Fl (FOps)

inductive TOp where
  | create (x : Snap)
  | update (id : Int) (x : Snap)
  | set (id : Int) (f : Field) (v : f.ty)
  | remove (id : Int)

def tStep (o : FOps) (d : TracksV1.Db) : TOp → TracksV1.Db
  | .create x => match dbCreate o d x with | .ok (d', _) => d' | _ => d
  | .update id x => match dbUpdate o d id x with | .ok d' => d' | _ => d
  | .set id f v => match dbSet o d id f v with | .ok d' => d' | _ => d
  | .remove id => dbRemove d id

def tRun (o : FOps) (d : TracksV1.Db) (ops : List TOp) : TracksV1.Db := ops.foldl (tStep o) d

/-- One track's rows: a path is stored, `Track.filename` is its file-name part and the MetaData text row of
type 13 holds the extension of that file name (NULL when it has none). -/
def rowDerivedOk (r : TrackRows) : Bool :=
  match r.track.path with
  | none => false
  | some p => r.track.filename == some (fileNamePart p) && aget 13 r.mstr == some (extensionPart (fileNamePart p))

def derivedOk (d : TracksV1.Db) : Bool := d.tracks.all fun e => rowDerivedOk e.2

end EngineModel.Api.TrackColsV1
