/-
C15 on states left behind by FAILED calls, schema 2.x crates / memberships.

`callF d op plan` = one public mutating call of the guarded model (`Api/GuardedV2.stepG`) executed as its
statement program (`Db/V2CratesStmts.stmts`, the program C14 proves all-or-nothing for) on the connection
of `Spec/Txn.lean`, under a fault plan: `some ⟨k, auto⟩` makes the k-th faultable statement of the call
(BEGIN, COMMIT, any writing statement) fail with no effect; a writing statement may also refuse by itself
(the UNIQUE (title, parentListId) constraint: the write function of `wPlUpdate` answers `none`).  Every
failure raises, the RAII scope rolls back (`Txn.exec`); what the connection reads afterwards
(`Conn.view`) is the state the next call starts from.

`runF` / `outcomesF` = a history of such calls, each with its own plan.

`unscoped` = the same calls as the library would issue them WITHOUT the `sqlite_transaction` scope of
`playlist_table::update` (the seeded change seeded/C15-3): the four UPDATE statements of the move one by
one in autocommit mode (`updateStmts`, the four `let`s of `Chain.move`), the last of which carries the
UNIQUE constraint.
-/
import EngineModel.Api.GuardedV2
import EngineModel.Db.V2CratesStmts

namespace EngineModel.Api.FaultsV2
open EngineModel EngineModel.Db.Chain EngineModel.Db.V2 EngineModel.Api.GuardedV2
open EngineModel.Spec.Txn EngineModel.Spec.Stmts

deriving instance DecidableEq for EngineModel.Spec.Txn.Conn

/-- a fault plan for one call: the `k`-th faultable statement fails; `auto` = SQLite rolls the transaction
back by itself on that error (it does for some error classes) -/
structure Plan where
  k : Nat
  auto : Bool
  deriving Repr, DecidableEq, Inhabited

/-- the connection after the statement program of the call under the plan -/
def progRun (d : Db) (op : Op) (p : Plan) : Outcome Db := call (some p.k) p.auto (stmts d op) d

/-- One public mutating call under an optional fault plan.  No plan: the guarded step.  With a plan: the
statement program runs on the connection; if it raises (the injected fault, or a statement that refuses by
itself) the call throws and the next call sees whatever the connection reads then; if it does not raise (the
fault position lies beyond the call) the call is the guarded step.  (A call that throws by itself from a guard
issues a prefix of the program: either the fault fires first or the guard throws — an exception either way.) -/
def callF (d : Db) (op : Op) : Option Plan → Db × Res Out
  | none => stepG d op
  | some p =>
    let s := stepG d op
    match s.2 with
    | .ub _ => s
    | _ =>
      let r := progRun d op p
      if r.raised then (r.conn.view, .throw .sqlite_error) else s

abbrev FCall := Op × Option Plan

/-- a history of calls, each under its own plan -/
def runF (d : Db) : List FCall → Db
  | [] => d
  | c :: t => runF (callF d c.1 c.2).1 t

def outcomesF (d : Db) : List FCall → List (Res Out)
  | [] => []
  | c :: t => (callF d c.1 c.2).2 :: outcomesF (callF d c.1 c.2).1 t

/-- number of fault positions of the call on this prior state -/
def positions (d : Db) (op : Op) : Nat := countFaultable (shapeOf op d)

/-! ### the same calls without the scope of `playlist_table::update` -/

/-- The UPDATE statements of `playlist_table::update(row)` one by one (playlist_table.cpp:252-310), for the row
`i` whose old position the SELECT at the top has read from the prior tables `d`.  Re-ordering branch: the four
statements of `Chain.move`; the last one rewrites title / parentListId / nextListId of the subject and is the
one the UNIQUE (title, parentListId) constraint can refuse. -/
def updateStmts (d : Db) (i : Int) (title : Bytes) (parent next : Int) : Prog :=
  match get d.pl i with
  | none => [.read]
  | some old =>
    if old.next == next && old.key == parent then
      [.read, .write fun d => if titleClash d.pl i parent title then none else some { d with pl := setVal d.pl i title }]
    else
      [.read,
       tot fun d => { d with pl := updNext (fun r => r.id == i) (fun n => -(1 + n)) d.pl },
       tot fun d => { d with pl := updNext (fun r => r.next == i && r.key == old.key) (fun _ => old.next) d.pl },
       tot fun d => { d with pl := updNext (fun r => r.next == next && r.key == parent) (fun _ => i) d.pl },
       .write fun d =>
         if titleClash d.pl i parent title then none
         else some { d with pl := d.pl.map fun r => if r.id == i then { r with val := title, key := parent, next := next } else r }]

/-- `crate::set_parent` / `crate::set_name` with the scope of `playlist_table::update` dropped: the reads of the
call, then the UPDATEs in autocommit mode (other operations: their program as it is). -/
def unscoped (d : Db) : Op → Prog
  | .rename c name =>
    match get d.pl c with
    | some row => [.read, .read] ++ updateStmts d c name row.key row.next
    | none => [.read]
  | .setParent c p =>
    match get d.pl c with
    | some row =>
      match p with
      | some q =>
        if row.key != q then [.read, .read, .read, .read] ++ updateStmts d c row.val q 0
        else [.read, .read, .read, .read] ++ updateStmts d c row.val row.key row.next
      | none =>
        if row.key != 0 then [.read, .read] ++ updateStmts d c row.val 0 0
        else [.read, .read] ++ updateStmts d c row.val row.key row.next
    | none => [.read]
  | op => stmts d op

end EngineModel.Api.FaultsV2
