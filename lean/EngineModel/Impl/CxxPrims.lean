/-
The primitive byte readers / writers of src/djinterop/engine/encode_decode_utils.hpp,
written from the C++ operator by operator (shifts, masks, ors on the bit
patterns) — *not* through the Spec's primitive codecs (Format/Codec.lean,
Basic/Prim.lean).  The generated blob codecs (Gen/ImplV2Gen.lean) read and write
through these; that they agree with the Spec's primitives is a theorem
(Proofs/CxxPrimsLemmas.lean), not a definition.

Integers are carried as bit patterns (`int32_t` ↦ `UInt32`, `int64_t` ↦ `UInt64`,
`double` ↦ the `UInt64` of its bits: the C++ `memcpy`s between `int64_t` and `double`).

Hand-written stand-in for the translation of encode_decode_utils.hpp itself
(lean/EngineModel/Gen/PrimGen.lean, another work-package); the names are those
of the C++ functions so that the generated code can be pointed at either.
-/
import EngineModel.Impl.Cursor

namespace EngineModel
namespace CxxPrims

/-! ### values -/

/-- `int32_t(u8 p0) | int32_t(u8 p1 << 8) | int32_t(u8 p2 << 16) | int32_t(u8 p3 << 24)` -/
def i32_of_le (p0 p1 p2 p3 : UInt8) : UInt32 :=
  p0.toUInt32 ||| (p1.toUInt32 <<< 8) ||| (p2.toUInt32 <<< 16) ||| (p3.toUInt32 <<< 24)

/-- `int32_t(u8 p0 << 24) | int32_t(u8 p1 << 16) | int32_t(u8 p2 << 8) | int32_t(u8 p3)` -/
def i32_of_be (p0 p1 p2 p3 : UInt8) : UInt32 :=
  (p0.toUInt32 <<< 24) ||| (p1.toUInt32 <<< 16) ||| (p2.toUInt32 <<< 8) ||| p3.toUInt32

/-- `ptr[0] = value & 0xFF; ptr[1] = (value >> 8) & 0xFF; ptr[2] = (value >> 16) & 0xFF; ptr[3] = (value >> 24) & 0xFF` -/
def bytes_i32_le (v : UInt32) : List UInt8 :=
  [(v &&& 0xFF).toUInt8, ((v >>> 8) &&& 0xFF).toUInt8, ((v >>> 16) &&& 0xFF).toUInt8, ((v >>> 24) &&& 0xFF).toUInt8]

/-- `ptr[0] = (value >> 24) & 0xFF; ptr[1] = (value >> 16) & 0xFF; ptr[2] = (value >> 8) & 0xFF; ptr[3] = value & 0xFF` -/
def bytes_i32_be (v : UInt32) : List UInt8 :=
  [((v >>> 24) &&& 0xFF).toUInt8, ((v >>> 16) &&& 0xFF).toUInt8, ((v >>> 8) &&& 0xFF).toUInt8, (v &&& 0xFF).toUInt8]

/-- `int64_t(uint32_t(e1)) | int64_t(uint32_t(e2)) << 32` -/
def i64_of_le (e1 e2 : UInt32) : UInt64 := e1.toUInt64 ||| (e2.toUInt64 <<< 32)

/-- `int64_t(uint32_t(e1)) << 32 | int64_t(uint32_t(e2))` -/
def i64_of_be (e1 e2 : UInt32) : UInt64 := (e1.toUInt64 <<< 32) ||| e2.toUInt64

/-! ### writers: the bytes stored through `ptr` (which the function returns advanced past them) -/

def encode_uint8 (v : UInt8) : List UInt8 := [v]
def encode_int32_le (v : UInt32) : List UInt8 := bytes_i32_le v
def encode_int32_be (v : UInt32) : List UInt8 := bytes_i32_be v
/-- `ptr = encode_int32_le(int32_t(value), ptr); ptr = encode_int32_le(int32_t(value >> 32), ptr);` -/
def encode_int64_le (v : UInt64) : List UInt8 := encode_int32_le v.toUInt32 ++ encode_int32_le (v >>> 32).toUInt32
/-- `ptr = encode_int32_be(int32_t(value >> 32), ptr); ptr = encode_int32_be(int32_t(value), ptr);` -/
def encode_int64_be (v : UInt64) : List UInt8 := encode_int32_be (v >>> 32).toUInt32 ++ encode_int32_be v.toUInt32
def encode_double_le (v : UInt64) : List UInt8 := encode_int64_le v
def encode_double_be (v : UInt64) : List UInt8 := encode_int64_be v

/-! ### readers: dereference `ptr[0..w)` unconditionally — out of bounds when fewer bytes remain -/

def decode_uint8 : Cur UInt8 := fun bs =>
  match bs with
  | p0 :: r => .ok (p0, r)
  | _ => .ub .oob_read

def decode_int32_le : Cur UInt32 := fun bs =>
  match bs with
  | p0 :: p1 :: p2 :: p3 :: r => .ok (i32_of_le p0 p1 p2 p3, r)
  | _ => .ub .oob_read

def decode_int32_be : Cur UInt32 := fun bs =>
  match bs with
  | p0 :: p1 :: p2 :: p3 :: r => .ok (i32_of_be p0 p1 p2 p3, r)
  | _ => .ub .oob_read

def decode_int64_le : Cur UInt64 := do
  let e1 ← decode_int32_le
  let e2 ← decode_int32_le
  pure (i64_of_le e1 e2)

def decode_int64_be : Cur UInt64 := do
  let e1 ← decode_int32_be
  let e2 ← decode_int32_be
  pure (i64_of_be e1 e2)

def decode_double_le : Cur UInt64 := decode_int64_le
def decode_double_be : Cur UInt64 := decode_int64_be

end CxxPrims
end EngineModel
