/-
Combinators used by the code that `tools/tr_blobs_v1.py` generates from the
schema-1.x codecs (src/djinterop/engine/v1/performance_data_format.cpp →
lean/EngineModel/Gen/ImplV1Gen.lean), beyond those of Impl/CursorCxx.lean:

* `try { … } catch (const E&) { }` around cursor-moving calls: `ptr` is assigned
  only by a *completed* `std::tie(x, ptr) = f(ptr, end)`, so the handler runs at
  the cursor the failing statement started from (`Cur.catchStmt`);
* `while (ptr != end) { …; ptr++; }` (`Cur.whileNotEnd`; a body that does not
  advance never ends: `ub nontermination`), `*ptr` (`Cur.peek1`);
* loops over an index with carried locals (`Cur.forIdx`, `Wr.forIdx`,
  `Cxx.forRange`), `v[i]` on a vector (`_GLIBCXX_ASSERTIONS`: out of range is
  `ub oob_index`);
* a range-`for` that updates locals of the enclosing function (`Wr.foldS`);
* `for (int i = 0; i < K; ++i)` with a literal bound (`Wr.rep`);
* `ptr != end` in an encoder (`Wr.notAtEnd`);
* integral conversions that the 2.x codecs do not use (`Cxx.i32OfInt`).

Hand-written (not generated).  Mathlib-free.
-/
import EngineModel.Impl.CursorCxx
import EngineModel.Basic.F64

namespace EngineModel

namespace Cxx

/-- `static_cast<int>(x)` for a wider signed `x`: the value modulo 2^32 (C++20; every supported ABI). -/
def i32OfInt (x : Int) : Int :=
  let m := x % 4294967296
  if m < 2147483648 then m else m - 4294967296

/-- `v[i]` on a `std::vector` (libstdc++ assertions on: an index past the end aborts). -/
def vecGet {α} (xs : List α) (i : Nat) : Res α :=
  match xs[i]? with
  | some a => .ok a
  | none => .ub .oob_index

/-- `v[i] = …` / `v[i].m = …` -/
def vecSet {α} (xs : List α) (i : Nat) (f : α → α) : Res (List α) :=
  match xs[i]? with
  | some a => .ok (xs.set i (f a))
  | none => .ub .oob_index

/-- `for (size_t i = lo; i < hi; ++i) body(i)` in a function that only validates (may throw). -/
def forRange (body : Nat → Res Unit) : Nat → Nat → Res Unit
  | _, 0 => .ok ()
  | lo, n + 1 => (body lo).bind fun _ => forRange body (lo + 1) n

end Cxx

namespace Cur

/-- One statement of a `try` block whose handler catches the classes `p`: on such an
exception the handler `h` runs from the cursor the statement started at. -/
def catchStmt {α β} (m : Cur α) (p : Exn → Bool) (h : Cur β) (k : α → Cur β) : Cur β := fun bs =>
  match m bs with
  | .ok (a, r) => k a r
  | .throw e => if p e then h bs else .throw e
  | .ub u => .ub u

/-- `*ptr` -/
def peek1 : Cur UInt8 := fun bs =>
  match bs with
  | b :: _ => .ok (b, bs)
  | [] => .ub .oob_read

def whileNotEndFuel (body : Cur Unit) : Nat → Cur Unit
  | 0 => ubC .nontermination
  | f + 1 => fun bs =>
    if bs.length = 0 then .ok ((), bs) else
    match body bs with
    | .ok (_, r) => whileNotEndFuel body f r
    | .throw e => .throw e
    | .ub u => .ub u

/-- `while (ptr != end) body`: ends when the cursor reaches the end.  The fuel (bytes left + 1)
suffices for every body that advances the cursor; one that does not loops for ever. -/
def whileNotEnd (body : Cur Unit) : Cur Unit := fun bs => whileNotEndFuel body (bs.length + 1) bs

/-- `for (size_t i = lo; i < lo + n; ++i) { st = body i st }` -/
def forIdxFrom {σ} (body : Nat → σ → Cur σ) : Nat → Nat → σ → Cur σ
  | _, 0, s => pure s
  | lo, n + 1, s => do
    let s' ← body lo s
    forIdxFrom body (lo + 1) n s'

/-- `for (size_t i = 0; i < n; ++i)` with the locals it updates as state. -/
def forIdx {σ} (n : Nat) (init : σ) (body : Nat → σ → Cur σ) : Cur σ := forIdxFrom body 0 n init

end Cur

namespace Wr

def lift {α} (x : Res α) : Wr α := fun _ out =>
  match x with
  | .ok a => .ok (a, out)
  | .throw e => .throw e
  | .ub u => .ub u

/-- `ptr != end` -/
def notAtEnd : Wr Bool := fun size out => .ok (decide (out.length ≠ size), out)

/-- signed 32-bit `+ - *` (checked) -/
def chkI32 (x : Int) : Wr Int := if Cxx.inI32 x then pure x else (fun _ _ => .ub .signed_overflow)

/-- signed 64-bit `+ - *` (checked) -/
def chkI64 (x : Int) : Wr Int := if Cxx.inI64 x then pure x else (fun _ _ => .ub .signed_overflow)

/-- statements of `encode()` that run before the buffer exists (validation): they may throw -/
def pre {α} (m : Wr α) (k : α → Res Bytes) : Res Bytes :=
  match m 0 [] with
  | .ok (a, _) => k a
  | .throw e => .throw e
  | .ub u => .ub u

/-- range-`for` that updates locals of the enclosing function (`st`) -/
def foldS {α σ} (xs : List α) (init : σ) (body : α → σ → Wr σ) : Wr σ :=
  match xs with
  | [] => pure init
  | x :: r => do
    let s ← body x init
    foldS r s body

/-- `for (int i = 0; i < n; ++i) body` with a literal `n`, counter unused -/
def rep (n : Nat) (body : Wr Unit) : Wr Unit :=
  match n with
  | 0 => pure ()
  | k + 1 => do body; rep k body

def forIdxFrom (body : Nat → Wr Unit) : Nat → Nat → Wr Unit
  | _, 0 => pure ()
  | lo, n + 1 => do body lo; forIdxFrom body (lo + 1) n

/-- `for (size_t i = 0; i < n; ++i) body(i)` -/
def forIdx (n : Nat) (body : Nat → Wr Unit) : Wr Unit := forIdxFrom body 0 n

end Wr
end EngineModel
