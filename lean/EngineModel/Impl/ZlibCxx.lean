/-
Support definitions for `Gen/ZlibGen.lean` (tools/tr_zlib.py): what the C++ constructs of
`zlib_uncompress` / `zlib_compress` (src/djinterop/engine/encode_decode_utils.cpp) mean.  Hand-written
and trusted (listed in design/zlibgen.md); the generated file only composes these.

* `Flow` — how a statement list ends: normally, by `break`, by `return e`.
* `doWhile` — `do body while (cond)`; ONE unit of a shared fuel counter per iteration of any loop
  (`ub nontermination` when it is used up).  The counter is threaded through the bodies, so a nested
  loop draws on the same counter (this is the accounting of the hand models `Impl.Zlib.loop` / `cloop`:
  one unit per outer-loop head and per `inflate` / `deflate` call).  `gas` only makes the recursion
  structural; it is started at the current fuel and never runs out before the fuel does.
* `IStream` / `DStream` — the `z_stream` fields the code touches: `next_in` as an index into the input
  vector, `next_out` as an index into the local output array, the two counters, and the opaque stream
  state (`none` before `inflateInit` / after `inflateEnd`).
* `inflate` / `deflate` — one `o.step` of the SAME oracle types as the hand models, after the region
  checks the real call would need: `[next_in, next_in + avail_in)` inside the input vector
  (`ub bad_zlib_region`), `[next_out, next_out + avail_out)` inside the output array (`ub oob_write`);
  an answer that claims more input than the window or more output than `avail_out` is a write outside
  the array (`ub oob_write`) — the hand models do not look at this (their theorems assume it away
  through the contracts), so the equalities of `Proofs/ZlibGenEq.lean` carry `Sized`.
-/
import EngineModel.Impl.ZlibCompress

namespace EngineModel
namespace Impl
namespace ZlibCxx
open EngineModel.Impl.Zlib

inductive Flow (ρ : Type) where
  | norm
  | brk
  | ret (r : ρ)
  deriving Repr

abbrev Out (S ρ : Type) := Res (Flow ρ × S × Nat)

/-- what follows one iteration of `do … while (cond)` -/
def step {S ρ} (cond : S → Bool) (again : S → Nat → Out S ρ) : Out S ρ → Out S ρ
  | .ok (.norm, v, fuel) => if cond v then again v fuel else .ok (.norm, v, fuel)
  | .ok (.brk, v, fuel) => .ok (.norm, v, fuel)
  | .ok (.ret r, v, fuel) => .ok (.ret r, v, fuel)
  | .throw e => .throw e
  | .ub u => .ub u

def doWhile {S ρ} (body : S → Nat → Out S ρ) (cond : S → Bool) : Nat → S → Nat → Out S ρ
  | 0, _, _ => .ub .nontermination
  | _ + 1, _, 0 => .ub .nontermination
  | gas + 1, v, fuel + 1 => step cond (doWhile body cond gas) (body v fuel)

/-- statements after a loop / a block: only when it ended normally -/
def andThen {S ρ} (x : Out S ρ) (k : S → Nat → Out S ρ) : Out S ρ :=
  match x with
  | .ok (.norm, v, fuel) => k v fuel
  | .ok (.brk, v, fuel) => .ok (.brk, v, fuel)
  | .ok (.ret r, v, fuel) => .ok (.ret r, v, fuel)
  | .throw e => .throw e
  | .ub u => .ub u

/-- the function result: a body that falls off its end has no value (`ub`; the translator only accepts
bodies whose last statement is a `return`) -/
def result {S ρ} (x : Out S ρ) : Res (ρ × S) :=
  match x with
  | .ok (.ret r, v, _) => .ok (r, v)
  | .ok (_, _, _) => .ub .oob_read
  | .throw e => .throw e
  | .ub u => .ub u

/-! ### integers -/

/-- conversion to `uInt` / `unsigned int` -/
def toU32 (x : Int) : Nat := (x % 4294967296).toNat
/-- `a - b` in `unsigned int` -/
def u32sub (a b : Nat) : Nat := (a % 4294967296 + 4294967296 - b % 4294967296) % 4294967296
/-- conversion to `size_t` -/
def toU64 (x : Int) : Nat := (x % 18446744073709551616).toNat
/-- `static_cast<int32_t>(size_t)` -/
def i32OfNat (n : Nat) : Int := Prim.s32 (UInt32.ofNat n)
/-- zlib return codes as the `int`s of zlib.h -/
def retCode : Ret → Int
  | .ok => 0 | .streamEnd => 1 | .needDict => 2 | .streamError => -2
  | .dataError => -3 | .memError => -4 | .bufError => -5
/-- `Z_NO_FLUSH` = 0, `Z_FINISH` = 4 (the translator only admits these two literals as flush values) -/
def flushOfInt (x : Int) : Flush := if x = 4 then .finish else .noFlush

/-! ### vectors of bytes -/

/-- `v.reserve(n)` / `v.resize(n)` throw `length_error` above `max_size()` = 2^63 − 1 bytes -/
def tooLong (n : Nat) : Bool := decide (9223372036854775807 < n)
/-- `v.resize(n)`: truncated or zero-filled -/
def resize (b : Bytes) (n : Nat) : Bytes := b.take n ++ List.replicate (n - b.length) 0
/-- `decode_int32_be(v.data() + i).first` -/
def decodeI32BEAt (b : Bytes) (i : Nat) : Res Int :=
  match b.drop i with
  | x0 :: x1 :: x2 :: x3 :: _ => .ok (Prim.s32 (Prim.decU32BE x0 x1 x2 x3))
  | _ => .ub .oob_read
/-- `encode_int32_be(x, v.data() + i)` -/
def encodeI32BEAt (x : Int) (b : Bytes) (i : Nat) : Res Bytes :=
  if b.length < i + 4 then .ub .oob_write
  else .ok (b.take i ++ Prim.encU32BE (Prim.u32OfInt x) ++ b.drop (i + 4))
/-- `v.insert(v.end(), a + i, a + j)` for an array `a` -/
def insertRange (v a : Bytes) (i j : Nat) : Res Bytes :=
  if a.length < j ∨ j < i then .ub .oob_read else .ok (v ++ (a.drop i).take (j - i))
/-- `p += n` for a pointer into a vector of `len` bytes: one past the end is the last valid value -/
def ptrAdvance (len p n : Nat) : Res Nat := if len < p + n then .ub .oob_read else .ok (p + n)

/-! ### z_stream -/

structure IStream (σ : Type) where
  next_in : Nat := 0
  avail_in : Nat := 0
  next_out : Nat := 0
  avail_out : Nat := 0
  st : Option σ := none

structure DStream (σ : Type) where
  next_in : Nat := 0
  avail_in : Nat := 0
  next_out : Nat := 0
  avail_out : Nat := 0
  st : Option σ := none
  log : List DCall := []

/-- `inflateInit(&strm)`: a fresh stream state; the code's `ret != Z_OK` test sees `Z_OK`
(allocation failure is not modelled — neither is it in the hand model) -/
def inflateInit {σ} (s0 : σ) (z : IStream σ) : Int × IStream σ := (0, { z with st := some s0 })
def inflateEnd {σ} (z : IStream σ) : IStream σ := { z with st := none }
def deflateInit {σ} (s0 : σ) (z : DStream σ) : Int × DStream σ := (0, { z with st := some s0 })
def deflateEnd {σ} (z : DStream σ) : DStream σ := { z with st := none }

/-- `ret = inflate(&strm, Z_NO_FLUSH)`: `inp` is the vector `next_in` points into, `out` the array
`next_out` points into.  Returns the code, the stream and the array after the call. -/
def inflate {σ} (o : Oracle σ) (inp out : Bytes) (z : IStream σ) : Res (Int × IStream σ × Bytes) :=
  match z.st with
  | none => .ub .bad_zlib_region
  | some s =>
    if inp.length < z.next_in + z.avail_in then .ub .bad_zlib_region else
    if out.length < z.next_out + z.avail_out then .ub .oob_write else
    match o.step s ((inp.drop z.next_in).take z.avail_in) z.avail_out with
    | (ret, consumed, produced, s') =>
      if z.avail_in < consumed ∨ z.avail_out < produced.length then .ub .oob_write else
      .ok (retCode ret,
           { z with next_in := z.next_in + consumed, avail_in := z.avail_in - consumed,
                    next_out := z.next_out + produced.length, avail_out := z.avail_out - produced.length,
                    st := some s' },
           out.take z.next_out ++ produced ++ out.drop (z.next_out + produced.length))

/-- `deflate(&strm, flush)`; the call is appended to the (ghost) log. -/
def deflate {σ} (o : DOracle σ) (inp out : Bytes) (z : DStream σ) (flush : Int) :
    Res (Int × DStream σ × Bytes) :=
  match z.st with
  | none => .ub .bad_zlib_region
  | some s =>
    if inp.length < z.next_in + z.avail_in then .ub .bad_zlib_region else
    if out.length < z.next_out + z.avail_out then .ub .oob_write else
    match o.step s ((inp.drop z.next_in).take z.avail_in) z.avail_out (flushOfInt flush) with
    | (ret, consumed, produced, s') =>
      if z.avail_in < consumed ∨ z.avail_out < produced.length then .ub .oob_write else
      .ok (retCode ret,
           { z with next_in := z.next_in + consumed, avail_in := z.avail_in - consumed,
                    next_out := z.next_out + produced.length, avail_out := z.avail_out - produced.length,
                    st := some s',
                    log := (⟨flushOfInt flush, z.avail_in, consumed, produced, ret⟩ : DCall) :: z.log },
           out.take z.next_out ++ produced ++ out.drop (z.next_out + produced.length))

end ZlibCxx
end Impl
end EngineModel
