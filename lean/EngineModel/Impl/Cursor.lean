/-
The cursor monad in which the C++ decoders are mirrored statement by
statement.  The state is the unread remainder of the buffer (`end - ptr` is its
length).  A primitive read (`decode_uint8`, `decode_int32_le`, …,
encode_decode_utils.hpp) dereferences `ptr[0..w)` unconditionally: when fewer
than `w` bytes remain that is an out-of-bounds read, i.e. `ub oob_read`.
Reads are defined through the Spec's primitive codecs, so a successful read
returns, by definition, what the Spec reads.
-/
import EngineModel.Basic.Res
import EngineModel.Basic.Checked
import EngineModel.Format.Codec

namespace EngineModel

def Cur (α : Type) := Bytes → Res (α × Bytes)

namespace Cur

@[inline] def pure' {α} (a : α) : Cur α := fun bs => .ok (a, bs)
@[inline] def bind' {α β} (m : Cur α) (f : α → Cur β) : Cur β := fun bs =>
  match m bs with
  | .ok (a, r) => f a r
  | .throw e => .throw e
  | .ub u => .ub u

instance : Monad Cur where
  pure := pure'
  bind := bind'

/-- Unchecked primitive read. -/
def rd {α} (c : Codec α) : Cur α := fun bs =>
  match c.dec bs with
  | some (a, r) => .ok (a, r)
  | none => .ub .oob_read

/-- `end - ptr`. -/
def remaining : Cur Nat := fun bs => .ok (bs.length, bs)

def throwC {α} (e : Exn) : Cur α := fun _ => .throw e

/-- `ptr += n` followed by use of the skipped bytes (`string::assign(ptr, n)`,
`memcpy`): out of bounds when fewer than `n` remain. -/
def takeN (n : Nat) : Cur Bytes := fun bs =>
  if n ≤ bs.length then .ok (bs.take n, bs.drop n) else .ub .oob_read

/-- A computation that does not touch the cursor (checked arithmetic, `Chk.*`). -/
def lift {α} (x : Res α) : Cur α := fun bs =>
  match x with
  | .ok a => .ok (a, bs)
  | .throw e => .throw e
  | .ub u => .ub u

/-- `decode_extra(ptr, end)`: everything that is left. -/
def rest : Cur Bytes := fun bs => .ok (bs, [])

/-- `for (i = 0; i < n; ++i) { body; push_back }`. -/
def forN {α} (body : Cur α) : Nat → Cur (List α)
  | 0 => pure []
  | n + 1 => do
    let a ← body
    let l ← forN body n
    pure (a :: l)

@[simp] theorem pure_run {α} (a : α) (bs : Bytes) : (pure a : Cur α) bs = .ok (a, bs) := rfl
@[simp] theorem bind_run {α β} (m : Cur α) (f : α → Cur β) (bs : Bytes) :
    (m >>= f) bs = match m bs with
      | .ok (a, r) => f a r
      | .throw e => .throw e
      | .ub u => .ub u := rfl
@[simp] theorem throwC_run {α} (e : Exn) (bs : Bytes) : (throwC e : Cur α) bs = .throw e := rfl
@[simp] theorem remaining_run (bs : Bytes) : remaining bs = .ok (bs.length, bs) := rfl
@[simp] theorem rest_run (bs : Bytes) : rest bs = .ok (bs, []) := rfl
@[simp] theorem lift_ok_run {α} (a : α) (bs : Bytes) : lift (.ok a) bs = .ok (a, bs) := rfl

theorem rd_of_dec {α} {c : Codec α} {bs a r} (h : c.dec bs = some (a, r)) :
    rd c bs = .ok (a, r) := by simp [rd, h]

theorem rd_none {α} {c : Codec α} {bs} (h : c.dec bs = none) : rd c bs = .ub .oob_read := by
  simp [rd, h]

end Cur

/-! ### how many bytes each primitive needs -/
namespace Codec

theorem u8_dec_some {bs : Bytes} (h : 1 ≤ bs.length) :
    ∃ a, u8.dec bs = some (a, bs.drop 1) := by
  match bs, h with
  | a :: r, _ => exact ⟨a, rfl⟩

theorem u32be_dec_some {bs : Bytes} (h : 4 ≤ bs.length) :
    ∃ a, u32be.dec bs = some (a, bs.drop 4) := by
  match bs, h with
  | a :: b :: c :: d :: r, _ => exact ⟨_, rfl⟩

theorem u32le_dec_some {bs : Bytes} (h : 4 ≤ bs.length) :
    ∃ a, u32le.dec bs = some (a, bs.drop 4) := by
  match bs, h with
  | a :: b :: c :: d :: r, _ => exact ⟨_, rfl⟩

theorem u64be_dec_some {bs : Bytes} (h : 8 ≤ bs.length) :
    ∃ a, u64be.dec bs = some (a, bs.drop 8) := by
  match bs, h with
  | a :: b :: c :: d :: e :: f :: g :: i :: r, _ => exact ⟨_, rfl⟩

theorem u64le_dec_some {bs : Bytes} (h : 8 ≤ bs.length) :
    ∃ a, u64le.dec bs = some (a, bs.drop 8) := by
  match bs, h with
  | a :: b :: c :: d :: e :: f :: g :: i :: r, _ => exact ⟨_, rfl⟩

theorem u8_dec_none {bs : Bytes} (h : bs.length < 1) : u8.dec bs = none := by
  match bs, h with
  | [], _ => rfl

theorem u64be_dec_none {bs : Bytes} (h : bs.length < 8) : u64be.dec bs = none := by
  have : ∀ a r, u64be.dec bs ≠ some (a, r) := by
    intro a r hd
    have := (u64be_exact bs a r hd).2
    rw [this] at h
    simp [u64be, map, pair, u32be, Prim.encU32BE] at h
    omega
  cases hd : u64be.dec bs with
  | none => rfl
  | some p => exact absurd hd (this p.1 p.2)

theorem u64le_dec_none {bs : Bytes} (h : bs.length < 8) : u64le.dec bs = none := by
  have : ∀ a r, u64le.dec bs ≠ some (a, r) := by
    intro a r hd
    have := (u64le_exact bs a r hd).2
    rw [this] at h
    simp [u64le, map, pair, u32le, Prim.encU32LE] at h
    omega
  cases hd : u64le.dec bs with
  | none => rfl
  | some p => exact absurd hd (this p.1 p.2)

/-- The value a successful read returns (junk when the read would fail). -/
def get {α} [Inhabited α] (c : Codec α) (bs : Bytes) : α :=
  match c.dec bs with
  | some (a, _) => a
  | none => default

theorem get_of_dec {α} [Inhabited α] {c : Codec α} {bs a r} (h : c.dec bs = some (a, r)) :
    c.get bs = a := by simp [get, h]

theorem rd_u8_run {bs : Bytes} (h : 1 ≤ bs.length) : Cur.rd u8 bs = .ok (u8.get bs, bs.drop 1) := by
  obtain ⟨a, ha⟩ := u8_dec_some h
  simp [Cur.rd, ha, get]

theorem rd_u32be_run {bs : Bytes} (h : 4 ≤ bs.length) :
    Cur.rd u32be bs = .ok (u32be.get bs, bs.drop 4) := by
  obtain ⟨a, ha⟩ := u32be_dec_some h
  simp [Cur.rd, ha, get]

theorem rd_u32le_run {bs : Bytes} (h : 4 ≤ bs.length) :
    Cur.rd u32le bs = .ok (u32le.get bs, bs.drop 4) := by
  obtain ⟨a, ha⟩ := u32le_dec_some h
  simp [Cur.rd, ha, get]

theorem rd_u64be_run {bs : Bytes} (h : 8 ≤ bs.length) :
    Cur.rd u64be bs = .ok (u64be.get bs, bs.drop 8) := by
  obtain ⟨a, ha⟩ := u64be_dec_some h
  simp [Cur.rd, ha, get]

theorem rd_u64le_run {bs : Bytes} (h : 8 ≤ bs.length) :
    Cur.rd u64le bs = .ok (u64le.get bs, bs.drop 8) := by
  obtain ⟨a, ha⟩ := u64le_dec_some h
  simp [Cur.rd, ha, get]

theorem takeN_run {n : Nat} {bs : Bytes} (h : n ≤ bs.length) :
    Cur.takeN n bs = .ok (bs.take n, bs.drop n) := by
  simp [Cur.takeN, h]

end Codec
end EngineModel
