/-
Model of `zlib_uncompress` (src/djinterop/engine/encode_decode_utils.cpp).

Two views:

* `uncompress` — the two nested `do … while` loops, statement by statement,
  over an *abstract* inflate oracle (`Oracle`): zlib itself is not modelled,
  only what the caller hands to it (`next_in`/`avail_in` regions, the fixed
  16384-byte output array) and what it does with the answers.  The region given
  to `inflate()` lying outside the input vector is the outcome
  `ub bad_zlib_region`; running out of fuel is `ub nontermination`.  The end
  pointer is a parameter (`endPos`) so that the defect repaired by 29ec84c
  (`end` four bytes past the buffer) is expressible.
* `unz` — the result-level model used by the driver: the same prologue, with
  the whole loop replaced by the independent `Zlib.inflate`.
-/
import EngineModel.Basic.Res
import EngineModel.Zlib.Stored

namespace EngineModel
namespace Impl
namespace Zlib

inductive Ret where
  | ok | streamEnd | needDict | bufError | dataError | memError | streamError
  deriving Repr, DecidableEq, Inhabited

/-- What one call `inflate(&strm, Z_NO_FLUSH)` answers, given the stream state,
the input window `[next_in, next_in + avail_in)` and `avail_out`:
return code, bytes consumed, bytes produced, new state. -/
structure Oracle (σ : Type) where
  step : σ → Bytes → Nat → Ret × Nat × Bytes × σ

def chunk : Nat := 16384

/-- The loop position: at the head of the outer loop, or inside the inner
loop with the current input window. -/
inductive Phase where
  | outer
  | inner (win : Bytes)
  deriving Repr, Inhabited

/-- The loops.  One unit of fuel per outer-loop head and per `inflate` call.
`ptr` indexes the input vector; `acc` is `uncompressed`. -/
def loop {σ} (o : Oracle σ) (buf : Bytes) (endPos : Nat) :
    Nat → σ → Nat → Phase → Bytes → Res Bytes
  | 0, _, _, _, _ => .ub .nontermination
  | fuel + 1, s, ptr, .outer, acc =>
    -- strm.avail_in = (ptr + chunk_size) < end ? chunk_size : static_cast<uInt>(end - ptr);
    let avail := if ptr + chunk < endPos then chunk else endPos - ptr
    if buf.length < ptr + avail then .ub .bad_zlib_region else
    if avail = 0 then .throw .system_error          -- break; ret != Z_STREAM_END
    else loop o buf endPos fuel s (ptr + avail) (.inner ((buf.drop ptr).take avail)) acc
  | fuel + 1, s, ptr, .inner win, acc =>
    match o.step s win chunk with
    | (ret, consumed, out, s') =>
      if ret = .needDict ∨ ret = .dataError ∨ ret = .memError then .throw .system_error else
      -- have = chunk_size - strm.avail_out; uncompressed.insert(…, out, out + have)
      let acc' := acc ++ out
      if out.length = chunk then loop o buf endPos fuel s' ptr (.inner (win.drop consumed)) acc'   -- avail_out == 0
      else if ret = .streamEnd then .ok acc'
      else loop o buf endPos fuel s' ptr .outer acc'

/-- signed reading of the 4-byte big-endian length prefix -/
def apparentSize (buf : Bytes) : Int :=
  match buf with
  | a :: b :: c :: d :: _ => Prim.s32 (Prim.decU32BE a b c d)
  | _ => 0

/-- Everything before the loops. `none` = go on to inflate. -/
def prologue (buf : Bytes) : Option (Res Bytes) :=
  if buf.length ≠ 0 ∧ buf.length < 4 then some (.throw .length_or_alloc) else
  if apparentSize buf = 0 then some (.ok []) else
  -- uncompressed.reserve(apparent_size): a negative int converts to a size_t above max_size()
  if apparentSize buf < 0 then some (.throw .length_or_alloc) else none

def uncompress {σ} (o : Oracle σ) (s0 : σ) (endPos : Nat) (fuel : Nat) (buf : Bytes) : Res Bytes :=
  match prologue buf with
  | some r => r
  | none => loop o buf endPos fuel s0 4 .outer []

/-- Result-level model: the loops replaced by the independent inflate. -/
def unz (buf : Bytes) : Res Bytes :=
  match prologue buf with
  | some r => r
  | none =>
    match EngineModel.Zlib.inflate (buf.drop 4) with
    | some (out, _) => .ok out
    | none => .throw .system_error

end Zlib
end Impl
end EngineModel
