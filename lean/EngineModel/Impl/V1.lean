/-
Model of the six schema-1.x performance-data codecs
(src/djinterop/engine/v1/performance_data_format.cpp), payload level.
The wire layouts reuse the Spec's primitive codecs; the logical values are the
C++ structs (`std::optional` fields with their sentinel conventions, 1.x beat
grids with derived `number_of_beats`, computed waveform maxima).
-/
import EngineModel.Impl.V2
import EngineModel.Basic.F64

namespace EngineModel
namespace Impl
namespace V1

open Codec Cur

abbrev Color := EngineModel.V2.Color

/-! ### values -/

structure GMarker where
  index : UInt32   -- `int`
  off : UInt64     -- `double`
  deriving Repr, DecidableEq, Inhabited

structure Beat where
  sampleRate : Option UInt64
  sampleCount : Option UInt64
  dflt : List GMarker
  adj : List GMarker
  deriving Repr, DecidableEq, Inhabited

structure HotCue where
  label : Bytes
  off : UInt64
  color : Color
  deriving Repr, DecidableEq, Inhabited

structure Cues where
  cues : List (Option HotCue)
  adjMain : UInt64
  defMain : UInt64
  deriving Repr, DecidableEq, Inhabited

structure LoopV where
  label : Bytes
  start : UInt64
  stop : UInt64
  color : Color
  deriving Repr, DecidableEq, Inhabited

abbrev Loops := List (Option LoopV)

structure Entry where
  lv : UInt8
  mv : UInt8
  hv : UInt8
  lo : UInt8
  mo : UInt8
  ho : UInt8
  deriving Repr, DecidableEq, Inhabited

structure Wave where
  spe : UInt64
  entries : List Entry
  deriving Repr, DecidableEq, Inhabited

structure Track where
  sampleRate : Option UInt64
  sampleCount : Option UInt64   -- int64
  loudness : Option UInt64
  key : Option UInt32           -- int32
  deriving Repr, DecidableEq, Inhabited

/-! ### beat data -/

/-- `validate_beatgrid` (encoder side). -/
def validGrid : List GMarker → Bool
  | [] => true
  | [_] => false
  | g => decide (g.length ≤ 32768) && go g
where
  go : List GMarker → Bool
    | a :: b :: rest =>
      let d := Prim.s32 b.index - Prim.s32 a.index
      decide (0 < d) && decide (d ≤ 2147483647) && !F64.le b.off a.off && go (b :: rest)
    | _ => true

/-- Wire markers: `number_of_beats` = index difference to the next marker, 0 on the last. -/
def toWire : List GMarker → List EngineModel.V2.Marker
  | [] => []
  | [a] => [⟨a.off, Prim.u64OfInt (Prim.s32 a.index), 0, 0⟩]
  | a :: b :: rest =>
    ⟨a.off, Prim.u64OfInt (Prim.s32 a.index), Prim.u32OfInt (Prim.s32 b.index - Prim.s32 a.index), 0⟩ ::
      toWire (b :: rest)

/-- `encode_beatgrid`: as `toWire`, with `diff = beatgrid[i + 1].index - beatgrid[i].index` computed in
`int` as the C++ does (checked: `ub signed_overflow` when the difference leaves the `int` range — which
`validate_beatgrid` excludes, `Proofs/CheckedArith.lean`). -/
def toWireC : List GMarker → Res (List EngineModel.V2.Marker)
  | [] => .ok []
  | [a] => .ok [⟨a.off, Prim.u64OfInt (Prim.s32 a.index), 0, 0⟩]
  | a :: b :: rest =>
    match Chk.sub32 (Prim.s32 b.index) (Prim.s32 a.index) with
    | .ok d =>
      match toWireC (b :: rest) with
      | .ok l => .ok (⟨a.off, Prim.u64OfInt (Prim.s32 a.index), Prim.u32OfInt d, 0⟩ :: l)
      | .throw e => .throw e
      | .ub u => .ub u
    | .throw e => .throw e
    | .ub u => .ub u

def encodeBeat (v : Beat) : Res Bytes :=
  if !validGrid v.dflt || !validGrid v.adj then .throw .invalid_argument else
  match toWireC v.dflt with
  | .throw e => .throw e
  | .ub u => .ub u
  | .ok wd =>
    match toWireC v.adj with
    | .throw e => .throw e
    | .ub u => .ub u
    | .ok wa =>
      let w : EngineModel.V2.Beat := ⟨v.sampleRate.getD 0, v.sampleCount.getD 0, 1, wd, wa⟩
      V2.writeInto (33 + 24 * (v.dflt.length + v.adj.length)) (EngineModel.V2.beat.enc w)

/-- `static_cast<int>(int64_t)`: low 32 bits. -/
def lowInt (x : UInt64) : UInt32 := UInt32.ofNat (x.toNat % 4294967296)

/-- The checks of the decoding loop, on the already-read wire markers.
`prev` = previous logical marker and the `number_of_beats` it announced. -/
def checkWire : Option (GMarker × UInt32) → List EngineModel.V2.Marker → Res (List GMarker)
  | prev, [] =>
    match prev with
    | some (_, nb) => if nb != 0 then .throw .invalid_argument else .ok []
    | none => .ok []
  | prev, m :: rest =>
    let cur : GMarker := ⟨lowInt m.beatNo, m.off⟩
    let bad : Bool :=
      match prev with
      | none => false
      | some (p, nb) =>
        decide (Prim.s32 cur.index ≤ Prim.s32 p.index) || F64.le cur.off p.off ||
          decide (Prim.s32 cur.index - Prim.s32 p.index ≠ Prim.s32 nb)
    if bad then .throw .invalid_argument else
    match checkWire (some (cur, m.nBeats)) rest with
    | .ok l => .ok (cur :: l)
    | .throw e => .throw e
    | .ub u => .ub u

/-- `decode_beatgrid(ptr, end)` of the 1.x format. -/
def decodeGrid : Cur (List GMarker) := do
  let rem ← remaining
  if rem < 8 then throwC .invalid_argument else
  let count ← rd u64be
  if Prim.s64 count = 0 then pure [] else
  if Prim.s64 count < 2 then throwC .invalid_argument else
  if Prim.s64 count > 32768 then throwC .invalid_argument else
  let rem ← remaining
  -- `end - ptr < 24 * count`: an `int64_t` product (checked)
  let need ← lift (Chk.mul64 24 (Prim.s64 count))
  if (rem : Int) < need then throwC .invalid_argument else
  let wire ← forN (rd EngineModel.V2.marker) count.toNat
  fun bs => match checkWire none wire with
    | .ok g => .ok (g, bs)
    | .throw e => .throw e
    | .ub u => .ub u

def allZero (bs : Bytes) : Bool := bs.all (· == 0)

def decodeBeat (bs : Bytes) : Res Beat :=
  if bs.length < 33 then .throw .invalid_argument else
  match (do
    let sr ← rd u64be
    let sc ← rd u64be
    let _flag ← rd u8
    pure (sr, sc) : Cur (UInt64 × UInt64)) bs with
  | .throw e => .throw e
  | .ub u => .ub u
  | .ok ((sr, sc), r0) =>
    -- try { default; adjusted } catch (invalid_argument) { both stay empty; ptr stays }
    let grids : Res (List GMarker × List GMarker × Bytes) :=
      match decodeGrid r0 with
      | .ub u => .ub u
      | .throw _ => .ok ([], [], r0)
      | .ok (d, r1) =>
        match decodeGrid r1 with
        | .ub u => .ub u
        | .throw _ => .ok ([], [], r1)
        | .ok (a, r2) => .ok (d, a, r2)
    match grids with
    | .ub u => .ub u
    | .throw e => .throw e
    | .ok (d, a, r) =>
      if !allZero r then .throw .invalid_argument else
      .ok ⟨if F64.isZero sr then none else some sr, if F64.isZero sc then none else some sc, d, a⟩

/-! ### quick cues -/

def cueLabels (v : List (Option HotCue)) : List Bytes := v.filterMap (fun q => q.map (·.label))

def encodeCueSlot : Option HotCue → Res Bytes
  | none => .ok (0 :: (u64be.enc F64.negOne ++ [0, 0, 0, 0]))
  | some q =>
    if q.label.length = 0 then .throw .invalid_argument
    else if 255 < q.label.length then .throw .invalid_argument
    else .ok (lp8.enc q.label ++ u64be.enc q.off ++ EngineModel.V2.color.enc q.color)

def encodeSlots {α} (f : α → Res Bytes) : List α → Res Bytes
  | [] => .ok []
  | a :: l =>
    match f a with
    | .ok b =>
      match encodeSlots f l with
      | .ok r => .ok (b ++ r)
      | .throw e => .throw e
      | .ub u => .ub u
    | .throw e => .throw e
    | .ub u => .ub u

def encodeCues (v : Cues) : Res Bytes :=
  if 8 < v.cues.length then .throw (.dj "hot_cues_overflow") else
  match encodeSlots encodeCueSlot v.cues with
  | .throw e => .throw e
  | .ub u => .ub u
  | .ok slots =>
    let out := u64be.enc (UInt64.ofNat v.cues.length) ++ slots ++ u64be.enc v.adjMain ++
      [if F64.eq v.adjMain v.defMain then 0 else 1] ++ u64be.enc v.defMain
    let size := 129 + V2.labelsLen (cueLabels v.cues)
    if size < out.length then .ub .oob_write
    else if out.length < size then .throw .runtime_error
    else .ok out

def decodeCue : Cur (Option HotCue) := do
  let q ← V2.decodeCue
  pure (if F64.ne q.off F64.negOne then some ⟨q.label, q.off, q.color⟩ else none)

def decodeCues (bs : Bytes) : Res Cues :=
  if bs.length < 25 then .throw .invalid_argument else
  (do
    let n ← rd u64be
    let rem ← remaining
    if Prim.s64 n < 0 ∨ (rem / 13 : Int) < Prim.s64 n then throwC .invalid_argument else
    let cs ← forN decodeCue n.toNat
    let adj ← rd u64be
    let flag ← rd u8
    let dflt ← rd u64be
    if flag.toNat > 1 ∨ (flag.toNat = 0 ∧ F64.ne adj dflt) then throwC .invalid_argument else
    let rem ← remaining
    if rem ≠ 0 then throwC .invalid_argument else
    pure (⟨cs, adj, dflt⟩ : Cues)) bs |>.bind (fun p => .ok p.1)

/-! ### loops -/

def loopLabels (v : Loops) : List Bytes := v.filterMap (fun q => q.map (·.label))

def encodeLoopSlot : Option LoopV → Res Bytes
  | none => .ok (0 :: (u64le.enc F64.negOne ++ u64le.enc F64.negOne ++ [0, 0, 0, 0, 0, 0]))
  | some l =>
    if l.label.length = 0 then .throw .logic_error
    else if 255 < l.label.length then .throw .invalid_argument
    else .ok (lp8.enc l.label ++ u64le.enc l.start ++ u64le.enc l.stop ++ [1, 1] ++
      EngineModel.V2.color.enc l.color)

def encodeLoops (v : Loops) : Res Bytes :=
  match encodeSlots encodeLoopSlot v with
  | .throw e => .throw e
  | .ub u => .ub u
  | .ok slots =>
    let out := u64le.enc (UInt64.ofNat v.length) ++ slots
    let size := 8 + 23 * v.length + V2.labelsLen (loopLabels v)
    if size < out.length then .ub .oob_write
    else if out.length < size then .throw .runtime_error
    else .ok out

def decodeLoop : Cur (Option LoopV) := do
  let l ← V2.decodeLoop
  pure (if F64.ne l.start F64.negOne then some ⟨l.label, l.start, l.stop, l.color⟩ else none)

def decodeLoops (bs : Bytes) : Res Loops :=
  if bs.length < 8 then .throw .invalid_argument else
  (do
    let n ← rd u64le
    let rem ← remaining
    if Prim.s64 n < 0 ∨ (rem / 23 : Int) < Prim.s64 n then throwC .invalid_argument else
    let ls ← forN decodeLoop n.toNat
    let rem ← remaining
    if rem ≠ 0 then throwC .invalid_argument else
    pure ls : Cur Loops) bs |>.bind (fun p => .ok p.1)

/-! ### waveforms -/

def maxOf (f : Entry → UInt8) (es : List Entry) : UInt8 :=
  es.foldl (fun m e => if m < f e then f e else m) 0

def encodeOvw (w : Wave) : Res Bytes :=
  let n := UInt64.ofNat w.entries.length
  let out := u64be.enc n ++ u64be.enc n ++ u64be.enc w.spe ++
    w.entries.flatMap (fun e => [e.lv, e.mv, e.hv]) ++
    [maxOf (·.lv) w.entries, maxOf (·.mv) w.entries, maxOf (·.hv) w.entries]
  V2.writeInto (27 + 3 * w.entries.length) out

def encodeHires (w : Wave) : Res Bytes :=
  let n := UInt64.ofNat w.entries.length
  let out := u64be.enc n ++ u64be.enc n ++ u64be.enc w.spe ++
    w.entries.flatMap (fun e => [e.lv, e.mv, e.hv, e.lo, e.mo, e.ho]) ++
    [maxOf (·.lv) w.entries, maxOf (·.mv) w.entries, maxOf (·.hv) w.entries,
     maxOf (·.lo) w.entries, maxOf (·.mo) w.entries, maxOf (·.ho) w.entries]
  V2.writeInto (30 + 6 * w.entries.length) out

def ovwEntry : Cur Entry := do
  let a ← rd u8; let b ← rd u8; let c ← rd u8
  pure ⟨a, b, c, 255, 255, 255⟩

def hiresEntry : Cur Entry := do
  let a ← rd u8; let b ← rd u8; let c ← rd u8
  let d ← rd u8; let e ← rd u8; let f ← rd u8
  pure ⟨a, b, c, d, e, f⟩

def decodeWave (minLen w : Nat) (entry : Cur Entry) (bs : Bytes) : Res Wave :=
  if bs.length < minLen then .throw .invalid_argument else
  (do
    let n1 ← rd u64be
    let n2 ← rd u64be
    let spe ← rd u64be
    if n1 ≠ n2 then throwC .invalid_argument else
    let rem ← remaining
    -- `n < 0 || n > (end - ptr) / w || end - ptr != w * (n + 1)`: short-circuit `||`; the `int64_t` sum and
    -- product are computed only when the first two tests are false, and are checked.
    if Prim.s64 n1 < 0 ∨ (rem / w : Int) < Prim.s64 n1 then throwC .invalid_argument else
    let n1p ← lift (Chk.add64 (Prim.s64 n1) 1)
    let need ← lift (Chk.mul64 (w : Int) n1p)
    if (rem : Int) ≠ need then throwC .invalid_argument else
    let es ← forN entry n1.toNat
    let _ ← takeN w
    let rem ← remaining
    if rem ≠ 0 then throwC .runtime_error else
    pure (⟨spe, es⟩ : Wave)) bs |>.bind (fun p => .ok p.1)

def decodeOvw : Bytes → Res Wave := decodeWave 27 3 ovwEntry
def decodeHires : Bytes → Res Wave := decodeWave 30 6 hiresEntry

/-! ### track data -/

def encodeTrack (v : Track) : Res Bytes :=
  V2.writeInto 28 (u64be.enc (v.sampleRate.getD 0) ++ u64be.enc (v.sampleCount.getD 0) ++
    u64be.enc (v.loudness.getD 0) ++ u32be.enc (v.key.getD 0))

def decodeTrack (bs : Bytes) : Res Track :=
  if bs.length ≠ 28 then .throw .invalid_argument else
  (do
    let sr ← rd u64be
    let n ← rd u64be
    let loud ← rd u64be
    let k ← rd u32be
    let rem ← remaining
    if rem ≠ 0 then throwC .runtime_error else
    pure (⟨if F64.isZero sr then none else some sr, if n = 0 then none else some n,
      if F64.isZero loud then none else some loud, if k = 0 then none else some k⟩ : Track)) bs
    |>.bind (fun p => .ok p.1)

end V1
end Impl
end EngineModel
