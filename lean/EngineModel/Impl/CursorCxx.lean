/-
Combinators used by the code that `tools/tr_blobs.py` generates from the C++
blob codecs (lean/EngineModel/Gen/ImplV2Gen.lean).  They extend the cursor monad
of Impl/Cursor.lean with what the C++ does beyond primitive reads:

* signed arithmetic is *checked* (`chkI64`, `chkI32`, `divI64`): a result out
  of range, or a zero divisor, is the outcome `ub signed_overflow` / `ub div_zero`;
* `||` / `&&` evaluate their right operand only when needed (`orElse`, `andAlso`);
* `string::assign(ptr, n)` reads `n` bytes without moving the cursor (`peekN`),
  `ptr += n` moves it (`advance`); both are out of bounds past the end;
* `vector::reserve(n)` / `resize(n)` throw `length_error` above `max_size()`;
* `for (T i = 0; i < n; ++i)` with an unused counter runs `max 0 n` times
  (`forCount`), a range-`for` over a vector of `n` elements runs `n` times
  (`forEach`);
* a `from_blob` function returns the decoded struct and drops the cursor
  (`fromBlob`);
* encoders write through a raw pointer into a buffer of fixed size (`Wr`).

Hand-written (not generated).  Mathlib-free.
-/
import EngineModel.Impl.Cursor
import EngineModel.Pure.Cxx

namespace EngineModel
namespace Cur

def ubC {α} (u : Ub) : Cur α := fun _ => .ub u

/-- The mathematical result of a signed 64-bit `+ - *`: undefined behaviour when
it is not representable. -/
def chkI64 (x : Int) : Cur Int := if Cxx.inI64 x then pure x else ubC .signed_overflow

/-- Same for `int` (operands narrower than `int` are promoted to it). -/
def chkI32 (x : Int) : Cur Int := if Cxx.inI32 x then pure x else ubC .signed_overflow

/-- Signed 64-bit `/` with an arbitrary divisor (truncation toward zero). -/
def divI64 (a b : Int) : Cur Int := if b = 0 then ubC .div_zero else chkI64 (Int.tdiv a b)

/-- `a || b` -/
def orElse (a b : Cur Bool) : Cur Bool := do
  let x ← a
  if x then pure true else b

/-- `a && b` -/
def andAlso (a b : Cur Bool) : Cur Bool := do
  let x ← a
  if x then b else pure false

/-- The `n` bytes at the cursor, cursor unchanged (`string::assign(ptr, n)`, `memcpy` from `ptr`). -/
def peekN (n : Nat) : Cur Bytes := fun bs =>
  if n ≤ bs.length then .ok (bs.take n, bs) else .ub .oob_read

/-- `ptr += n`: a pointer past one-past-the-end is undefined behaviour. -/
def advance (n : Nat) : Cur Unit := fun bs =>
  if n ≤ bs.length then .ok ((), bs.drop n) else .ub .oob_read

/-- `vector<T>::reserve(n)` / `resize(n)` with `sizeof(T) = elemSize`: `length_error`
above `max_size() = PTRDIFF_MAX / sizeof(T)`; the allocation itself is assumed to succeed. -/
def reserve (n : Nat) (elemSize : Nat) : Cur Unit :=
  if 9223372036854775807 / elemSize < n then throwC .length_or_alloc else pure ()

/-- `for (int64_t i = 0; i < n; ++i) { body; v.push_back(x); }` (counter not used by the body). -/
def forCount {α} (body : Cur α) (n : Int) : Cur (List α) := forN body n.toNat

/-- Range-`for` over a vector of `n` elements, each element assigned by `body`. -/
def forEach {α} (body : Cur α) (n : Nat) : Cur (List α) := forN body n

/-- A `from_blob` function: run the decoder over the whole payload and return its value. -/
def fromBlob {α} (m : Cur α) (bs : Bytes) : Res α := (m bs).bind (fun p => .ok p.1)

@[simp] theorem ubC_run {α} (u : Ub) (bs : Bytes) : (ubC u : Cur α) bs = .ub u := rfl

end Cur

/-! ### writers: `ptr = encode_x(value, ptr)` into a zero-initialised buffer of `size` bytes -/

/-- State of an encoder: the bytes written so far through `ptr`.  The buffer
size is fixed when the `std::vector<std::byte>` is constructed. -/
def Wr (α : Type) := Nat → Bytes → Res (α × Bytes)

namespace Wr

@[inline] def pure' {α} (a : α) : Wr α := fun _ out => .ok (a, out)
@[inline] def bind' {α β} (m : Wr α) (f : α → Wr β) : Wr β := fun size out =>
  match m size out with
  | .ok (a, o) => f a size o
  | .throw e => .throw e
  | .ub u => .ub u

instance : Monad Wr where
  pure := pure'
  bind := bind'

/-- Write `b` at `ptr` and advance: past the end of the buffer it is a heap overflow. -/
def put (b : Bytes) : Wr Unit := fun size out =>
  if out.length + b.length ≤ size then .ok ((), out ++ b) else .ub .oob_write

def throwW {α} (e : Exn) : Wr α := fun _ _ => .throw e

/-- `for (auto& x : xs) { body x }` -/
def forIn' {α} (xs : List α) (body : α → Wr Unit) : Wr Unit :=
  match xs with
  | [] => pure ()
  | x :: r => do body x; forIn' r body

/-- A `to_blob` function: `std::vector<std::byte> buf(size)` (`length_error` above `max_size()`)
allocates `size` zero bytes; run the writer; return the buffer (bytes not written stay zero; the
closing `assert(ptr == end)` is compiled out under NDEBUG). -/
def run (size : Nat) (m : Wr Unit) : Res Bytes :=
  if 9223372036854775807 < size then .throw .length_or_alloc else
  match m size [] with
  | .ok (_, out) => .ok (out ++ List.replicate (size - out.length) 0)
  | .throw e => .throw e
  | .ub u => .ub u

/-- The Lean value of an overview waveform keeps its points as one flat byte list, three bytes
(low, mid, high) per point: the C++ `std::vector<overview_waveform_point>` it stands for. -/
def triples : Bytes → List (UInt8 × UInt8 × UInt8)
  | a :: b :: c :: r => (a, b, c) :: triples r
  | _ => []

/-- One `overview_waveform_point` held as three bytes. -/
def triple (b : Bytes) : UInt8 × UInt8 × UInt8 := (b.getD 0 0, b.getD 1 0, b.getD 2 0)

end Wr
end EngineModel
