/-
Model of the five schema-2.x blob codecs as implemented in
src/djinterop/engine/v2/{beat_data,quick_cues,loops,overview_waveform_data,
track_data}_blob.cpp (payload level: the zlib framing is modelled separately).
Check order, guards and buffer sizing follow the C++ line by line; the
encoders reuse the Spec's primitive byte writers, the decoders the primitive
readers (see Impl/Cursor.lean).
-/
import EngineModel.Impl.Cursor
import EngineModel.Format.V2

namespace EngineModel
namespace Impl
namespace V2

open Codec Cur EngineModel.V2

/-- Writing `out` through a raw pointer into a buffer allocated with `size`
bytes (zero-initialised `std::vector<std::byte>`): more bytes than allocated is
a heap overflow; fewer leaves the zero tail (the closing `assert` is compiled
out under NDEBUG). -/
def writeInto (size : Nat) (out : Bytes) : Res Bytes :=
  if out.length ≤ size then .ok (out ++ List.replicate (size - out.length) 0) else .ub .oob_write

/-! ### beat data -/

def encodeBeat (v : Beat) (extra : Bytes) : Res Bytes :=
  writeInto (33 + 24 * (v.dflt.length + v.adj.length) + extra.length) (beat.enc v ++ extra)

/-- `decode_beatgrid(ptr, end)` -/
def decodeGrid : Cur (List Marker) := do
  let rem ← remaining
  if rem < 8 then throwC .invalid_argument else
  let count ← rd u64be
  let rem ← remaining
  if Prim.s64 count < 0 ∨ (rem / 24 : Int) < Prim.s64 count then throwC .invalid_argument else
  forN (rd marker) count.toNat

def decodeBeat (bs : Bytes) : Res (Beat × Bytes) :=
  if bs.length < 33 then .throw .invalid_argument else
  (do
    let sr ← rd u64be
    let n ← rd u64be
    let f ← rd u8
    let d ← decodeGrid
    let a ← decodeGrid
    let extra ← rest
    pure (⟨sr, n, f, d, a⟩, extra) : Cur (Beat × Bytes)) bs |>.bind (fun p => .ok p.1)

/-! ### quick cues -/

def labelsLen (ls : List Bytes) : Nat := (ls.map List.length).sum

def encodeCues (v : Cues) (extra : Bytes) : Res Bytes :=
  if v.cues.any (fun q => decide (255 < q.label.length)) then .throw .invalid_argument else
  writeInto (25 + 13 * v.cues.length + labelsLen (v.cues.map (·.label)) + extra.length)
    (cues.enc v ++ extra)

/-- `vector::reserve(n)` for a signed 64-bit `n` converted to `size_t`. -/
def reserveChk (n : Int) (elemSize : Nat) : Cur Unit :=
  if n < 0 ∨ 9223372036854775807 / (elemSize : Int) < n then throwC .length_or_alloc else pure ()

def decodeCue : Cur Cue := do
  let len ← rd u8
  let rem ← remaining
  if rem < 29 + len.toNat then throwC .invalid_argument else
  let label ← takeN len.toNat
  let off ← rd u64be
  let col ← rd color
  pure ⟨label, off, col⟩

def decodeCues (bs : Bytes) : Res (Cues × Bytes) :=
  if bs.length < 25 then .throw .invalid_argument else
  (do
    let n ← rd u64be
    let rem ← remaining
    -- every entry occupies at least 13 bytes: larger counts are rejected before `reserve`
    if Prim.s64 n < 0 ∨ (rem / 13 : Int) < Prim.s64 n then throwC .invalid_argument else
    let cs ← forN decodeCue n.toNat
    let adj ← rd u64be
    let flag ← rd u8
    let dflt ← rd u64be
    let extra ← rest
    pure (⟨cs, adj, flag != 0, dflt⟩, extra) : Cur (Cues × Bytes)) bs |>.bind (fun p => .ok p.1)

/-! ### loops (stored uncompressed) -/

def encodeLoops (v : Loops) (extra : Bytes) : Res Bytes :=
  if v.any (fun l => decide (255 < l.label.length)) then .throw .invalid_argument else
  writeInto (8 + 23 * v.length + labelsLen (v.map (·.label)) + extra.length) (loops.enc v ++ extra)

def decodeLoop : Cur Loop := do
  let rem ← remaining
  if rem < 23 then throwC .invalid_argument else
  let len ← rd u8
  let rem ← remaining
  if rem < 22 + len.toNat then throwC .invalid_argument else
  let label ← takeN len.toNat
  let s ← rd u64le
  let e ← rd u64le
  let f1 ← rd u8
  let f2 ← rd u8
  let col ← rd color
  pure ⟨label, s, e, f1, f2, col⟩

def decodeLoops (bs : Bytes) : Res (Loops × Bytes) :=
  if bs.length < 8 then .throw .invalid_argument else
  (do
    let n ← rd u64le
    let rem ← remaining
    if Prim.s64 n < 0 ∨ (rem / 23 : Int) < Prim.s64 n then throwC .invalid_argument else
    let ls ← forN decodeLoop n.toNat
    let extra ← rest
    pure (ls, extra) : Cur (Loops × Bytes)) bs |>.bind (fun p => .ok p.1)

/-! ### overview waveform -/

def encodeOvw (v : Ovw) (extra : Bytes) : Res Bytes :=
  writeInto (27 + 3 * (v.points.length / 3) + extra.length) (ovw.enc v ++ extra)

def decodeOvw (bs : Bytes) : Res (Ovw × Bytes) :=
  if bs.length < 27 then .throw .invalid_argument else
  (do
    let n1 ← rd u64be
    let n2 ← rd u64be
    let spp ← rd u64be
    if n1 ≠ n2 then throwC .invalid_argument else
    let rem ← remaining
    -- `num_entries_1 < 0 || num_entries_1 > (end - ptr) / 3 || end - ptr < 3 * (num_entries_1 + 1)`:
    -- `||` short-circuits, so the `int64_t` sum and product are only computed when the first two tests
    -- are false; both are checked (`ub signed_overflow` when out of range).
    if Prim.s64 n1 < 0 ∨ (rem / 3 : Int) < Prim.s64 n1 then throwC .invalid_argument else
    let n1p ← lift (Chk.add64 (Prim.s64 n1) 1)
    let need ← lift (Chk.mul64 3 n1p)
    if (rem : Int) < need then throwC .invalid_argument else
    let pts ← takeN (3 * n1.toNat)
    let mx ← takeN 3
    let extra ← rest
    pure (⟨spp, pts, mx⟩, extra) : Cur (Ovw × Bytes)) bs |>.bind (fun p => .ok p.1)

/-! ### track data -/

def encodeTrack (v : Track) (extra : Bytes) : Res Bytes :=
  writeInto (44 + extra.length) (track.enc v ++ extra)

def decodeTrack (bs : Bytes) : Res (Track × Bytes) :=
  if bs.length < 44 then .throw .invalid_argument else
  (do
    let sr ← rd u64be
    let n ← rd u64be
    let k ← rd u32be
    let lo ← rd u64be
    let mid ← rd u64be
    let hi ← rd u64be
    let extra ← rest
    pure (⟨sr, n, k, lo, mid, hi⟩, extra) : Cur (Track × Bytes)) bs |>.bind (fun p => .ok p.1)

end V2
end Impl
end EngineModel
