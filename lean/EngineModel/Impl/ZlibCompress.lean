/-
Model of `zlib_compress` (src/djinterop/engine/encode_decode_utils.cpp:122-184):
the 4-byte big-endian length prefix and the two nested `do … while` loops around
`deflate()`, statement by statement, over an *abstract* deflate oracle (zlib
itself is not modelled — only what the caller hands to it and what it does with
the answers).  The C++ ignores `deflate`'s return code; so does the model (the
code is carried along only so that theorems can talk about `Z_STREAM_END`).

    do {                                              -- outer
        strm.next_in = ptr;
        if (ptr + chunk_size < end) { avail_in = chunk_size; flush = Z_NO_FLUSH; }
        else                        { avail_in = end - ptr;  flush = Z_FINISH;   }
        ptr += strm.avail_in;
        do {                                          -- inner
            next_out = out; avail_out = chunk_size;
            deflate(&strm, flush);
            have = chunk_size - strm.avail_out;
            compressed.insert(compressed.end(), out, out + have);
        } while (strm.avail_out == 0);
    } while (flush != Z_FINISH);
-/
import EngineModel.Impl.Zlib

namespace EngineModel
namespace Impl
namespace Zlib

inductive Flush where
  | noFlush | finish
  deriving Repr, DecidableEq, Inhabited

/-- What one call `deflate(&strm, flush)` answers, given the stream state, the
input window `[next_in, next_in + avail_in)`, `avail_out` and the flush mode:
return code, bytes consumed, bytes produced, new state. -/
structure DOracle (σ : Type) where
  step : σ → Bytes → Nat → Flush → Ret × Nat × Bytes × σ

/-- One recorded call: what the loops asked for and what they got. -/
structure DCall where
  flush : Flush
  availIn : Nat
  consumed : Nat
  out : Bytes
  ret : Ret
  deriving Repr, Inhabited

inductive CPhase where
  | outer
  | inner (win : Bytes) (flush : Flush)
  deriving Repr, Inhabited

/-- The loops.  One unit of fuel per outer-loop head and per `deflate` call.
`ptr` indexes the input vector; `acc` is `compressed` after the 4-byte prefix;
`log` (reversed) records every call. -/
def cloop {σ} (o : DOracle σ) (buf : Bytes) :
    Nat → σ → Nat → CPhase → Bytes → List DCall → Res (Bytes × List DCall)
  | 0, _, _, _, _, _ => .ub .nontermination
  | fuel + 1, s, ptr, .outer, acc, log =>
    -- if (ptr + chunk_size < end) { avail_in = chunk_size; flush = Z_NO_FLUSH } else { end - ptr; Z_FINISH }
    let more := decide (ptr + chunk < buf.length)
    let avail := if more then chunk else buf.length - ptr
    let flush := if more then Flush.noFlush else Flush.finish
    cloop o buf fuel s (ptr + avail) (.inner ((buf.drop ptr).take avail) flush) acc log
  | fuel + 1, s, ptr, .inner win flush, acc, log =>
    match o.step s win chunk flush with
    | (ret, consumed, out, s') =>
      let acc' := acc ++ out
      let log' := (⟨flush, win.length, consumed, out, ret⟩ : DCall) :: log
      if out.length = chunk then cloop o buf fuel s' ptr (.inner (win.drop consumed) flush) acc' log'   -- avail_out == 0
      else if flush = .finish then .ok (acc', log'.reverse)
      else cloop o buf fuel s' ptr .outer acc' log'

/-- 4-byte big-endian prefix: `encode_int32_be(static_cast<int32_t>(size))`. -/
def lenPrefix (n : Nat) : Bytes := Prim.encU32BE (UInt32.ofNat n)

/-- `zlib_compress(uncompressed)`: prefix, then everything the loops collect.
Returns the blob and the call log.

`auto* ptr = &uncompressed[0];` — `operator[]` on an EMPTY vector violates its precondition
(`__n < this->size()`; an abort under `_GLIBCXX_ASSERTIONS`, which is how the harness is built), so the
empty payload is `ub oob_index`.  No codec reaches it: every payload handed to `zlib_compress` has at
least 25 bytes (`Proofs/ZlibCompressChunks.lean`, `*_payload_nonempty`). -/
def compress {σ} (o : DOracle σ) (s0 : σ) (fuel : Nat) (buf : Bytes) : Res (Bytes × List DCall) :=
  if buf.length = 0 then .ub .oob_index else
  match cloop o buf fuel s0 0 .outer [] [] with
  | .ok (acc, log) => .ok (lenPrefix buf.length ++ acc, log)
  | .throw e => .throw e
  | .ub u => .ub u

end Zlib
end Impl
end EngineModel
