/-
The primitive readers / writers REGENERATED from encode_decode_utils.hpp (Gen/PrimGen.lean, tools/tr_prim.py),
given the cursor-monad types the blob-codec models use: a reader is a `Cur` action (fewer bytes than the
primitive needs = `ub oob_read`, as for `Cur.rd`), a writer returns the bytes stored through `ptr`.
Same names and types as the hand-written stand-in `CxxPrims` (Impl/CxxPrims.lean), so that generated blob
codecs can be pointed at either; the agreement lemmas (`PrimCur.*_eq`, Proofs/PrimCur.lean) have the same
names and statements as `CxxPrims.*_eq`.
-/
import EngineModel.Impl.Cursor
import EngineModel.Gen.PrimGen

namespace EngineModel
namespace PrimCur

/-- a generated decoder (`none` = access outside the buffer) as a cursor action -/
def ofGen {α} (d : List UInt8 → Option (α × List UInt8)) : Cur α := fun bs =>
  match d bs with
  | some p => .ok p
  | none => .ub .oob_read

def decode_uint8 : Cur UInt8 := ofGen Gen.Prim.decode_uint8
def decode_int32_le : Cur UInt32 := ofGen Gen.Prim.decode_int32_le
def decode_int32_be : Cur UInt32 := ofGen Gen.Prim.decode_int32_be
def decode_int64_le : Cur UInt64 := ofGen Gen.Prim.decode_int64_le
def decode_int64_be : Cur UInt64 := ofGen Gen.Prim.decode_int64_be
def decode_double_le : Cur UInt64 := ofGen Gen.Prim.decode_double_le
def decode_double_be : Cur UInt64 := ofGen Gen.Prim.decode_double_be

def encode_uint8 (v : UInt8) : Bytes := Gen.Prim.encode_uint8 v
def encode_int32_le (v : UInt32) : Bytes := Gen.Prim.encode_int32_le v
def encode_int32_be (v : UInt32) : Bytes := Gen.Prim.encode_int32_be v
def encode_int64_le (v : UInt64) : Bytes := Gen.Prim.encode_int64_le v
def encode_int64_be (v : UInt64) : Bytes := Gen.Prim.encode_int64_be v
def encode_double_le (v : UInt64) : Bytes := Gen.Prim.encode_double_le v
def encode_double_be (v : UInt64) : Bytes := Gen.Prim.encode_double_be v

end PrimCur
end EngineModel
