/-
Blob-level Model: what `to_blob()` / `from_blob()` (2.x) and `encode()` / `decode()` (1.x) do with a
stored column — the payload codec composed with the zlib framing.  Nine kinds are compressed
(`zlib_compress` / `zlib_uncompress` around the payload), the two loops kinds are stored raw.

    std::vector<std::byte> X::to_blob() const { …payload…; return zlib_compress(uncompressed); }
    X X::from_blob(const std::vector<std::byte>& blob) { const auto raw = zlib_uncompress(blob); …decode raw… }
    loops_blob: `return uncompressed;` / decode `blob` directly.

`fromBlob*` use the result-level model `unz` of `zlib_uncompress` (prologue + independent inflate; the loop
model `uncompress` over a replay oracle is proved equal to it in Proofs/BlobLevel.lean).  `toBlob*` are
parameterised by the deflate oracle of `Impl/ZlibCompress.lean` and return the call log as well.
-/
import EngineModel.Impl.V1
import EngineModel.Impl.ZlibCompress

namespace EngineModel
namespace Impl
namespace Blob

open _root_.EngineModel.Impl.Zlib

/-- `from_blob` / `decode` of a compressed kind: uncompress, then decode the payload. -/
def fromBlob {α} (decode : Bytes → Res α) (blob : Bytes) : Res α := (unz blob).bind decode

/-- `to_blob` / `encode` of a compressed kind: encode the payload, then compress it. -/
def toBlob {σ} (o : DOracle σ) (s0 : σ) (fuel : Nat) (payload : Res Bytes) : Res (Bytes × List DCall) :=
  payload.bind (compress o s0 fuel)

-- schema 2.x
def fromBlobTrack2 := fromBlob V2.decodeTrack
def fromBlobBeat2 := fromBlob V2.decodeBeat
def fromBlobCues2 := fromBlob V2.decodeCues
def fromBlobOvw2 := fromBlob V2.decodeOvw
/-- loops are stored uncompressed -/
def fromBlobLoops2 (blob : Bytes) := V2.decodeLoops blob
def toBlobLoops2 (v : EngineModel.V2.Loops) (extra : Bytes) : Res Bytes := V2.encodeLoops v extra

-- schema 1.x
def fromBlobTrack1 := fromBlob V1.decodeTrack
def fromBlobBeat1 := fromBlob V1.decodeBeat
def fromBlobCues1 := fromBlob V1.decodeCues
def fromBlobOvw1 := fromBlob V1.decodeOvw
def fromBlobHires1 := fromBlob V1.decodeHires
def fromBlobLoops1 (blob : Bytes) := V1.decodeLoops blob
def toBlobLoops1 (v : V1.Loops) : Res Bytes := V1.encodeLoops v

end Blob
end Impl
end EngineModel
