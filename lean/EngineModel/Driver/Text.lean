/-
Canonical text form of values on the line protocol (mirror of
harness/djv_values.hpp): hex for doubles (bit patterns) and byte strings,
signed decimals for integers.
-/
import EngineModel.Basic.Prim
import EngineModel.Basic.Res

namespace EngineModel.Text

def hexDigit (n : Nat) : Char :=
  if n < 10 then Char.ofNat (48 + n) else Char.ofNat (87 + n)

def hexVal (c : Char) : Option Nat :=
  if '0' ≤ c ∧ c ≤ '9' then some (c.toNat - 48)
  else if 'a' ≤ c ∧ c ≤ 'f' then some (c.toNat - 87)
  else none

def hex64 (x : UInt64) : String :=
  String.ofList ((List.range 16).map fun i => hexDigit ((x.toNat >>> (4 * (15 - i))) % 16))

def parseHex64 (s : String) : Option UInt64 :=
  if s.length = 0 ∨ s.length > 16 then none else
  s.toList.foldlM (fun (acc : Nat) c => do let d ← hexVal c; pure (acc * 16 + d)) 0 |>.map UInt64.ofNat

def hexBytes (b : Bytes) : String :=
  if b.isEmpty then "-" else
  String.ofList (b.flatMap fun x => [hexDigit (x.toNat / 16), hexDigit (x.toNat % 16)])

partial def parseHexBytesAux : List Char → List UInt8 → Option (List UInt8)
  | [], acc => some acc.reverse
  | [_], _ => none
  | a :: b :: r, acc => do
    let x ← hexVal a
    let y ← hexVal b
    parseHexBytesAux r ((x * 16 + y).toUInt8 :: acc)

def parseHexBytes (s : String) : Option Bytes :=
  if s = "-" then some [] else parseHexBytesAux s.toList []

def parseInt (s : String) : Option Int := s.toInt?
def parseNat (s : String) : Option Nat := s.toNat?

def showI64 (x : UInt64) : String := toString (Prim.s64 x)
def showI32 (x : UInt32) : String := toString (Prim.s32 x)

def parseI64 (s : String) : Option UInt64 := do
  let i ← s.toInt?
  if i < -9223372036854775808 ∨ i > 9223372036854775807 then none else pure (Prim.u64OfInt i)

def parseI32 (s : String) : Option UInt32 := do
  let i ← s.toInt?
  if i < -2147483648 ∨ i > 2147483647 then none else pure (Prim.u32OfInt i)

def parseU8 (s : String) : Option UInt8 := do
  let n ← s.toNat?
  if n > 255 then none else pure n.toUInt8

/-- Token cursor. -/
abbrev P := StateT (List String) Option

def tok : P String := do
  match (← get) with
  | [] => failure
  | t :: r => set r; pure t

def peek : P (Option String) := do
  match (← get) with
  | [] => pure none
  | t :: _ => pure (some t)

def lift {α} (f : String → Option α) : P α := do
  let t ← tok
  match f t with
  | some a => pure a
  | none => failure

def pF : P UInt64 := lift parseHex64
def pI64 : P UInt64 := lift parseI64
def pI32 : P UInt32 := lift parseI32
def pU8 : P UInt8 := lift parseU8
def pBytes : P Bytes := lift parseHexBytes
def pNat : P Nat := lift parseNat

def pList {α} (p : P α) : P (List α) := do
  let n ← pNat
  let rec go : Nat → List α → P (List α)
    | 0, acc => pure acc.reverse
    | k + 1, acc => do let a ← p; go k (a :: acc)
  go n []

def pOpt {α} (p : P α) : P (Option α) := do
  match (← peek) with
  | some "none" => let _ ← tok; pure none
  | _ => let a ← p; pure (some a)

def runP {α} (p : P α) (toks : List String) : Option α :=
  match p.run toks with
  | some (a, []) => some a
  | _ => none

def unwords (l : List String) : String := " ".intercalate l

end EngineModel.Text
