import EngineModel.Driver.Text
import EngineModel.Format.V2
import EngineModel.Impl.V1

namespace EngineModel.Text
open EngineModel.V2

def pColor : P Color := do
  let a ← pU8; let r ← pU8; let g ← pU8; let b ← pU8
  pure ⟨a, r, g, b⟩

def sU8 (x : UInt8) : String := toString x.toNat
def sColor (c : Color) : String := unwords [sU8 c.a, sU8 c.r, sU8 c.g, sU8 c.b]

def pMarker : P Marker := do
  let off ← pF; let bn ← pI64; let nb ← pI32; let u ← pI32
  pure ⟨off, bn, nb, u⟩
def sMarker (m : Marker) : String := unwords [hex64 m.off, showI64 m.beatNo, showI32 m.nBeats, showI32 m.unk]

def sList {α} (f : α → String) (l : List α) : String :=
  unwords (toString l.length :: l.map f)

def pBeat : P (Beat × Bytes) := do
  let sr ← pF; let n ← pF; let f ← pU8
  let d ← pList pMarker; let a ← pList pMarker; let e ← pBytes
  pure (⟨sr, n, f, d, a⟩, e)
def sBeat (v : Beat × Bytes) : String :=
  unwords [hex64 v.1.sampleRate, hex64 v.1.samples, sU8 v.1.isSet, sList sMarker v.1.dflt,
    sList sMarker v.1.adj, hexBytes v.2]

def pCue : P Cue := do
  let l ← pBytes; let off ← pF; let c ← pColor
  pure ⟨l, off, c⟩
def sCue (q : Cue) : String := unwords [hexBytes q.label, hex64 q.off, sColor q.color]

def pCues : P (Cues × Bytes) := do
  let cs ← pList pCue
  let adj ← pF; let f ← pU8; let d ← pF; let e ← pBytes
  pure (⟨cs, adj, f != 0, d⟩, e)
def sCues (v : Cues × Bytes) : String :=
  unwords [sList sCue v.1.cues, hex64 v.1.adjMain, (if v.1.isAdj then "1" else "0"), hex64 v.1.defMain,
    hexBytes v.2]

def pLoop : P Loop := do
  let l ← pBytes; let s ← pF; let e ← pF; let f1 ← pU8; let f2 ← pU8; let c ← pColor
  pure ⟨l, s, e, f1, f2, c⟩
def sLoop (l : Loop) : String :=
  unwords [hexBytes l.label, hex64 l.start, hex64 l.stop, sU8 l.isStart, sU8 l.isEnd, sColor l.color]

def pLoops : P (Loops × Bytes) := do
  let ls ← pList pLoop; let e ← pBytes
  pure (ls, e)
def sLoops (v : Loops × Bytes) : String := unwords [sList sLoop v.1, hexBytes v.2]

def pOvw : P (Ovw × Bytes) := do
  let spp ← pF; let pts ← pBytes; let mx ← pBytes; let e ← pBytes
  pure (⟨spp, pts, mx⟩, e)
def sOvw (v : Ovw × Bytes) : String :=
  unwords [hex64 v.1.spp, hexBytes v.1.points, hexBytes v.1.maxPt, hexBytes v.2]

def pTrack : P (Track × Bytes) := do
  let sr ← pF; let n ← pI64; let k ← pI32; let lo ← pF; let mid ← pF; let hi ← pF; let e ← pBytes
  pure (⟨sr, n, k, lo, mid, hi⟩, e)
def sTrack (v : Track × Bytes) : String :=
  unwords [hex64 v.1.sampleRate, showI64 v.1.samples, showI32 v.1.key, hex64 v.1.lo, hex64 v.1.mid,
    hex64 v.1.hi, hexBytes v.2]

end EngineModel.Text

/-! ### schema 1.x values -/
namespace EngineModel.Text
open EngineModel.Impl.V1

def pGMarker : P GMarker := do
  let i ← pI32; let o ← pF
  pure ⟨i, o⟩
def sGMarker (m : GMarker) : String := unwords [showI32 m.index, hex64 m.off]

def sOptF : Option UInt64 → String
  | some x => hex64 x | none => "none"

def pBeat1 : P Beat := do
  let sr ← pOpt pF; let sc ← pOpt pF
  let d ← pList pGMarker; let a ← pList pGMarker
  pure ⟨sr, sc, d, a⟩
def sBeat1 (v : Beat) : String :=
  unwords [sOptF v.sampleRate, sOptF v.sampleCount, sList sGMarker v.dflt, sList sGMarker v.adj]

def entriesOfBytes : Bytes → Option (List Entry)
  | [] => some []
  | a :: b :: c :: d :: e :: f :: r => (entriesOfBytes r).map (⟨a, b, c, d, e, f⟩ :: ·)
  | _ => none
def bytesOfEntries (l : List Entry) : Bytes := l.flatMap fun e => [e.lv, e.mv, e.hv, e.lo, e.mo, e.ho]

def pWave : P Wave := do
  let spe ← pF
  let b ← pBytes
  match entriesOfBytes b with
  | some es => pure ⟨spe, es⟩
  | none => failure
def sWave (w : Wave) : String := unwords [hex64 w.spe, hexBytes (bytesOfEntries w.entries)]

def pSomeNone {α} (p : P α) : P (Option α) := do
  let t ← tok
  if t = "none" then pure none
  else if t = "some" then do let a ← p; pure (some a)
  else failure

def pHotCue : P HotCue := do
  let l ← pBytes; let o ← pF; let c ← pColor
  pure ⟨l, o, c⟩
def sOptCue : Option HotCue → String
  | none => "none"
  | some q => unwords ["some", hexBytes q.label, hex64 q.off, sColor q.color]

def pCues1 : P Impl.V1.Cues := do
  let cs ← pList (pSomeNone pHotCue)
  let a ← pF; let d ← pF
  pure ⟨cs, a, d⟩
def sCues1 (v : Impl.V1.Cues) : String := unwords [sList sOptCue v.cues, hex64 v.adjMain, hex64 v.defMain]

def pLoopV : P LoopV := do
  let l ← pBytes; let s ← pF; let e ← pF; let c ← pColor
  pure ⟨l, s, e, c⟩
def sOptLoop : Option LoopV → String
  | none => "none"
  | some l => unwords ["some", hexBytes l.label, hex64 l.start, hex64 l.stop, sColor l.color]

def pLoops1 : P Impl.V1.Loops := pList (pSomeNone pLoopV)
def sLoops1 (v : Impl.V1.Loops) : String := sList sOptLoop v

def pTrack1 : P Impl.V1.Track := do
  let sr ← pOpt pF; let sc ← pOpt pI64; let l ← pOpt pF; let k ← pOpt pI32
  pure ⟨sr, sc, l, k⟩
def sTrack1 (v : Impl.V1.Track) : String :=
  unwords [sOptF v.sampleRate, (match v.sampleCount with | some x => showI64 x | none => "none"),
    sOptF v.loudness, (match v.key with | some k => showI32 k | none => "none")]

end EngineModel.Text
