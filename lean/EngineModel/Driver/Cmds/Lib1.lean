/-
Driver side of the composite-v1 work-package:

* stateful mode `lib1`: the whole-library Model `EngineModel.Lib.V1` answering the script lines of
  harness/djv_db.cpp (crate / track / database commands), djv_cratesv1.cpp (`v1.obs`), djv_monitors.cpp (`reopen`)
  and djv_lib1.cpp (`lib1.dump`, `lib1.tobs`, `lib1.pragmas`, `lib1.mark`, `lib1.plantrefs`).  Every line is ONE
  `Lib.V1.CallR` (a public call, or the environment step `plantRefs`) stepped through `Lib.V1.stepR` (Lib/V1Refs.lean: the
  composite step + the rows of PlaylistTrackList / HistorylistTrackList / PreparelistTrackList / CopiedTrack) or a dump /
  observation of the state.  After every state-changing call the mode re-checks
  the executable invariant `libInvRaw` on its own state (a theorem: `bad-op libinv-broken` would be a divergence).
* stateful mode `lib1oracle` (direct oracle): `inv <schema> <real dump…>` parses the dump the HARNESS printed and
  evaluates the same `libInvRaw` / `fkViolationsAll` on it.
-/
import EngineModel.Driver.Cmds.CratesV1
import EngineModel.Driver.Cmds.CratesV1Oracle
import EngineModel.Driver.Cmds.TracksV1
import EngineModel.Lib.V1
import EngineModel.Lib.V1Refs

namespace Drv.Lib1
open EngineModel EngineModel.Text EngineModel.Lib.V1
open EngineModel.TracksV1 (Snap Field Derived TrackRows)

abbrev Id := Int

structure St where
  schema : Option VSchema := none
  L : Lib1 := Lib1.empty .s1_6_0 [] [] []
  refs : List (RefTable × Id) := []      -- rows of the four other tables with a key to Track (Lib/V1Refs.lean)
  cvars : List (String × Id) := []
  tvars : List (String × Id) := []

def put (vars : List (String × Id)) (v : String) (i : Id) : List (String × Id) := (vars.filter (·.1 != v)) ++ [(v, i)]
def get (vars : List (String × Id)) (v : String) : Option Id := (vars.find? (·.1 == v)).map (·.2)

def fops := Drv.TracksV1.fops

/-! ### text -/
def brk (l : List Id) : String := "[" ++ ",".intercalate (l.map toString) ++ "]"
def oid : Option Id → String
  | some i => toString i
  | none => "none"
def okText (s : String) : String := if s.isEmpty then "ok" else "ok " ++ s

/-- Render the outcome of a call; `f` renders a normal return. -/
def rres (f : Out → String) : Res Out → String
  | .ok a => okText (f a)
  | .throw e => "throw " ++ e.toString
  | .ub u => "ub " ++ u.toString

def outPlain : Out → String
  | .unit => ""
  | .id i => s!"id={i}"
  | .optId o => oid o
  | .ids l => brk l
  | .bool b => if b then "1" else "0"
  | .bytes b => hexBytes b
  | .snap x => Drv.TracksV1.sSnap x
  | .val f v => Drv.TracksV1.showVal f v

def guardedText (f : Out → String) : Res Out → String
  | .ok a => f a
  | .throw e => "!" ++ e.toString
  | .ub u => "!ub_" ++ u.toString

def uuidTok (b : Bytes) : String :=
  if b == TracksV1.strBytes "M" then "M" else if b == TracksV1.strBytes "P" then "P" else "s" ++ hexBytes b

def infoText (i : Info) : String := s!"({uuidTok i.uuid},{i.version.1},{i.version.2.1},{i.version.2.2})"

def rowsOr (l : List String) : String := if l.isEmpty then "()" else String.join l

def sortInts (l : List Id) : List Id := l.mergeSort (· ≤ ·)

def optI : Option Int → String
  | some i => toString i
  | none => "null"

/-- Mirror of `lib1.dump`. -/
def dumpText (s : VSchema) (L : Lib1) (refs : List (RefTable × Id) := []) : String :=
  let r := raw L
  let d := toDetect s
  Drv.CratesV1.rawText d L.cr ++
  " TA " ++ rowsOr ((r.trackArt.mergeSort fun a b => a.1 ≤ b.1).map fun t => s!"({t.1},{optI t.2})") ++
  " MD " ++ Drv.CratesV1.rawPairs r.metaStr ++
  " MI " ++ Drv.CratesV1.rawPairs r.metaInt ++
  " PD " ++ rowsOr ((sortInts r.perf).map fun i => s!"({i})") ++
  " AA " ++ rowsOr ((sortInts r.albumArt).map fun i => s!"({i})") ++
  " OT " ++ rowsOr (((refCodes s refs).mergeSort fun a b => a.1 < b.1 || (a.1 == b.1 && a.2 ≤ b.2)).map fun x => s!"({x.1},{x.2})") ++
  " IM " ++ rowsOr (r.infoM.map infoText) ++ " IP " ++ rowsOr (r.infoP.map infoText) ++
  " SEQ " ++ (if Api.CratesV1.trackAutoinc d then (if L.cr.trackSeq == 0 then "()" else s!"({L.cr.trackSeq})") else "-") ++
  String.join ((Drv.TracksV1.sortByKey L.tr.tracks).map fun e => s!" R {e.1} " ++ Drv.TracksV1.sRows s e.2)

def dedupSorted (l : List Id) : List Id := (sortInts l).eraseDups

/-- Mirror of `lib1.tobs`. -/
def tobsText (s : VSchema) (st : St) : String :=
  let L := st.L
  let q (c : Call) : Res Out := (step fops s L c).2
  guardedText outPlain (q .tracks) ++
  String.join ((dedupSorted (Api.CratesV1.dbTracks L.cr ++ st.tvars.map (·.2))).map fun t =>
    s!" T {t} " ++ guardedText outPlain (q (.trackIsValid t)) ++ " " ++ guardedText outPlain (q (.getDerived t .filename)) ++
    " " ++ guardedText outPlain (q (.getDerived t .fileExtension)) ++ " {" ++ guardedText outPlain (q (.snapshot t)) ++ "}")

/-! ### the interpreter -/

def withC (st : St) (v : String) (k : Id → St × String) : St × String :=
  match get st.cvars v with
  | some i => k i
  | none => (st, "bad-op crate var " ++ v)

def withT (st : St) (v : String) (k : Id → St × String) : St × String :=
  match get st.tvars v with
  | some i => k i
  | none => (st, "bad-op track var " ++ v)

/-- Step one call; after a mutating call the executable invariant is re-checked on the model's own state. -/
def call (st : St) (s : VSchema) (c : Call) (bind : St → Id → St := fun st _ => st) : St × String :=
  let (R', r) := stepR fops s ⟨st.L, st.refs⟩ (.api c)
  let st' := { st with L := R'.lib, refs := R'.refs }
  let st' := match r with
    | .ok (.id i) => bind st' i
    | _ => st'
  if !c.isObserver && !libInvRaw s (rawR s R') then
    (st', "bad-op libinv-broken " ++ ",".intercalate (libFailures s (rawR s R')))
  else (st', rres outPlain r)

def hexArg (st : St) (h : String) (k : Bytes → St × String) : St × String :=
  match parseHexBytes h with
  | some b => k b
  | none => (st, "bad-op hex")

def derivedOfName : String → Option Derived
  | "filename" => some .filename
  | "file_extension" => some .fileExtension
  | _ => none

def step1 (st : St) (cmd : String) (args : List String) : St × String :=
  match cmd, args with
  | "create", [sn, _] =>
    match TracksV1.Schema.ofName sn with
    | some s => ({ schema := some s, L := Lib1.empty s (TracksV1.strBytes "M") (TracksV1.strBytes "P") [] }, "ok")
    | none => (st, "bad-op schema " ++ sn)
  | _, _ =>
  match st.schema with
  | none => (st, "bad-op no database")
  | some s =>
  match cmd, args with
  | "lib1.mark", [] => (st, "ok nonempty nonempty distinct")
  | "lib1.plantrefs", v :: _ =>       -- `lib1.plantrefs <t> nulls`: same rows, other columns NULL (not modelled)
    withT st v fun t =>
    let (R', r) := stepR fops s ⟨st.L, st.refs⟩ (.plantRefs t)
    let st' := { st with L := R'.lib, refs := R'.refs }
    if !libInvRaw s (rawR s R') then (st', "bad-op libinv-broken " ++ ",".intercalate (libFailures s (rawR s R')))
    else match r with
      | .ok (.bool true) => (st', "ok planted fk " ++ (if (fkViolationsAll (rawR s R')).isEmpty then "()" else "MODEL-FK-VIOLATIONS"))
      | .ok _ => (st', "ok skipped")
      | .throw e => (st', "throw " ++ e.toString)
      | .ub u => (st', "ub " ++ u.toString)
  | "mkroot", [v, n] => hexArg st n fun n => call st s (.createRootCrate n) fun st i => { st with cvars := put st.cvars v i }
  | "mkroot_after", [v, n, a] =>
    hexArg st n fun n => withC st a fun a => call st s (.createRootCrateAfter n a) fun st i => { st with cvars := put st.cvars v i }
  | "mksub", [v, p, n] =>
    hexArg st n fun n => withC st p fun p => call st s (.createSubCrate p n) fun st i => { st with cvars := put st.cvars v i }
  | "mksub_after", [v, p, n, a] =>
    hexArg st n fun n => withC st p fun p => withC st a fun a =>
      call st s (.createSubCrateAfter p n a) fun st i => { st with cvars := put st.cvars v i }
  | "rename", [v, n] => withC st v fun c => hexArg st n fun n => call st s (.setName c n)
  | "setparent", [v, p] =>
    withC st v fun c =>
      if p == "-" then call st s (.setParent c none) else withC st p fun q => call st s (.setParent c (some q))
  | "rmcrate", [v] => withC st v fun c => call st s (.removeCrate c)
  | "addtrack", [v, t] => withC st v fun c => withT st t fun t => call st s (.addTrack c t)
  | "addtrackid", [v, t] =>
    withC st v fun c =>
    match t.toInt? with
    | some t => call st s (.addTrack c t)
    | none => (st, "bad-op i64 " ++ t)
  | "rmtrackfrom", [v, t] => withC st v fun c => withT st t fun t => call st s (.crateRemoveTrack c t)
  | "cleartracks", [v] => withC st v fun c => call st s (.clearTracks c)
  | "getcrate", [v, i] =>
    match i.toInt? with
    | some i =>
      match (step fops s st.L (.crateById i)).2 with
      | .ok (.optId (some c)) => ({ st with cvars := put st.cvars v c }, s!"ok id={c}")
      | .ok _ => (st, "ok none")
      | .throw e => (st, "throw " ++ e.toString)
      | .ub u => (st, "ub " ++ u.toString)
    | none => (st, "bad-op i64 " ++ i)
  | "gettrack", [v, i] =>
    match i.toInt? with
    | some i =>
      match (step fops s st.L (.trackById i)).2 with
      | .ok (.optId (some t)) => ({ st with tvars := put st.tvars v t }, s!"ok id={t}")
      | .ok _ => (st, "ok none")
      | .throw e => (st, "throw " ++ e.toString)
      | .ub u => (st, "ub " ++ u.toString)
    | none => (st, "bad-op i64 " ++ i)
  | "mktrack", v :: toks =>
    match runP Drv.TracksV1.pSnap toks with
    | some x => call st s (.createTrack x) fun st i => { st with tvars := put st.tvars v i }
    | none => (st, "bad-op mktrack")
  | "v1.mktrack", [v, n] =>
    let x : Snap := { Snap.empty with relativePath := some (TracksV1.strBytes ("t" ++ n ++ ".mp3")),
                                       sampleCount := some 441000, sampleRate := some 0x40e5888000000000 }
    call st s (.createTrack x) fun st i => { st with tvars := put st.tvars v i }
  | "update", v :: toks =>
    withT st v fun t =>
    match runP Drv.TracksV1.pSnap toks with
    | some x => call st s (.update t x)
    | none => (st, "bad-op update")
  | "rmtrack", [v] => withT st v fun t => call st s (.removeTrack t)
  | "set", v :: toks =>
    withT st v fun t =>
    match Drv.TracksV1.splitField toks with
    | some (f, rest) =>
      match runP (Drv.TracksV1.parseVal f) rest with
      | some val => call st s (.set t f val)
      | none => (st, "bad-op set value")
    | none => (st, "bad-op set field")
  | "get", v :: toks =>
    withT st v fun t =>
    match toks with
    | ["id"] => (st, s!"ok {t}")
    | ["valid"] => call st s (.trackIsValid t)
    | ["containing_crates"] => call st s (.containingCrates t)
    | [d] =>
      match derivedOfName d with
      | some k => call st s (.getDerived t k)
      | none =>
        match Drv.TracksV1.splitField toks with
        | some (f, []) => call st s (.get t f)
        | _ => (st, "bad-op get")
    | _ =>
      match Drv.TracksV1.splitField toks with
      | some (f, []) => call st s (.get t f)
      | _ => (st, "bad-op get")
  | "snap", [v] => withT st v fun t => call st s (.snapshot t)
  | "crate.q", v :: q :: rest =>
    withC st v fun c =>
    match q, rest with
    | "id", [] => (st, s!"ok {c}")
    | "valid", [] => call st s (.crateIsValid c)
    | "name", [] => call st s (.crateName c)
    | "parent", [] => call st s (.crateParent c)
    | "children", [] => call st s (.crateChildren c)
    | "descendants", [] => call st s (.crateDescendants c)
    | "tracks", [] => call st s (.crateTracks c)
    | "sub_by_name", [n] => hexArg st n fun n => call st s (.subCrateByName c n)
    | _, _ => (st, "bad-op crate query")
  | "db.q", q :: rest =>
    match q, rest with
    | "crates", [] => call st s .crates
    | "root_crates", [] => call st s .rootCrates
    | "tracks", [] => call st s .tracks
    | "crate_by_id", [i] =>
      match i.toInt? with
      | some i => call st s (.crateById i)
      | none => (st, "bad-op i64")
    | "track_by_id", [i] =>
      match i.toInt? with
      | some i => call st s (.trackById i)
      | none => (st, "bad-op i64")
    | "crates_by_name", [n] => hexArg st n fun n => call st s (.cratesByName n)
    | "root_by_name", [n] => hexArg st n fun n => call st s (.rootCrateByName n)
    | "tracks_by_path", [p] => hexArg st p fun p => call st s (.tracksByRelativePath p)
    | "uuid", [] =>
      match (step fops s st.L .uuid).2 with
      | .ok (.bytes b) => (st, if b.isEmpty then "ok empty" else "ok nonempty")
      | r => (st, rres outPlain r)
    | "version_name", [] => call st s .versionName
    | "verify", [] => call st s .verify
    | "directory", [] => (st, "ok same")
    | _, _ => (st, "bad-op db query")
  | "v1.obs", names =>
    match names.mapM parseHexBytes with
    | some ns =>
      let d := toDetect s
      (st, "ok " ++ Drv.CratesV1.obsText d st.L.cr
        (Api.CratesV1.observe d st.L.cr (st.cvars.map (·.2)) (st.tvars.map (·.2)) ns))
    | none => (st, "bad-op hex")
  | "lib1.tobs", [] => (st, "ok " ++ tobsText s st)
  | "lib1.dump", [] => (st, "ok " ++ dumpText s st.L st.refs)
  | "lib1.pragmas", [] =>
    let fk := fkViolationsAll (rawR s ⟨st.L, st.refs⟩)
    (st, "ok fkm " ++ (if fk.isEmpty then "()" else "MODEL-FK-VIOLATIONS") ++ " fkp () icm (s6f6b) icp (s6f6b)")
  | "lib1.fk", [] =>
    (st, "ok fk " ++ (if (fkViolationsAll (rawR s ⟨st.L, st.refs⟩)).isEmpty then "()" else "MODEL-FK-VIOLATIONS"))
  | "lib1.bk", [] => (st, "ok -")
  | "reopen", [] =>
    match reload s st.L with
    | some (s', L') =>
      let live (q : Id → Call) (i : Id) : Bool := match (step fops s' L' (q i)).2 with
        | .ok (.optId (some _)) => true
        | _ => false
      let cv := st.cvars.filter fun e => live .crateById e.2
      let tv := st.tvars.filter fun e => live .trackById e.2
      ({ schema := some s', L := L', refs := st.refs, cvars := cv, tvars := tv },
        s!"ok {s'.name} crates={cv.length} tracks={tv.length}")
    | none => (st, "throw unsupported_database")
  | _, _ => (st, "bad-op unknown")

def mode : Drv.Mode := Drv.mkMode "lib1" ({} : St) step1

/-! ### the direct oracle: `libInvRaw` on the dump the harness printed -/

open Drv.CratesV1Oracle (splitRows parsePairs parseCrateRows parseTrackRows parseIdRows)

def parseOptIntPairs (s : String) : Option (List (Id × Option Int)) := do
  let rs ← splitRows s
  rs.mapM fun r => match r with
    | [a, b] => do
      let a ← a.toInt?
      if b == "null" then pure (a, none) else do
        let b ← b.toInt?
        pure (a, some b)
    | _ => none

def parseInfo (s : String) : Option (List Info) := do
  let rs ← splitRows s
  rs.mapM fun r => match r with
    | [u, a, b, c] => do
      let a ← a.toInt?; let b ← b.toInt?; let c ← c.toInt?
      pure ⟨TracksV1.strBytes u, (a, b, c)⟩
    | _ => none

def tableName : Int → String
  | 1 => "PlaylistTrackList" | 2 => "HistorylistTrackList" | 3 => "PreparelistTrackList" | 5 => "CopiedTrack"
  | _ => "ListTrackList"

/-- Find the token after `key` in a token list. -/
def after (key : String) : List String → Option String
  | a :: b :: rest => if a == key then some b else after key (b :: rest)
  | _ => none

def parseDump (toks : List String) : Option Raw1 := do
  let crate ← (after "Crate" toks).bind parseCrateRows
  let cpl ← (after "CPL" toks).bind parsePairs
  let ch ← (after "CH" toks).bind parsePairs
  let ctlV ← (after "CTL" toks).bind parsePairs
  let track ← (after "Track" toks).bind parseTrackRows
  let ltl ← after "LTL" toks
  let ctl ← if ltl == "-" then pure ctlV else parsePairs ltl
  let ta ← (after "TA" toks).bind parseOptIntPairs
  let md ← (after "MD" toks).bind parsePairs
  let mi ← (after "MI" toks).bind parsePairs
  let pd ← (after "PD" toks).bind parseIdRows
  let aa ← (after "AA" toks).bind parseIdRows
  let ot ← (after "OT" toks).bind parsePairs
  let im ← (after "IM" toks).bind parseInfo
  let ip ← (after "IP" toks).bind parseInfo
  pure { cr := ⟨crate, cpl, ch, ctl, track, 0⟩, trackArt := ta, metaStr := md, metaInt := mi, perf := pd, albumArt := aa,
         otherTrackRefs := ot.map fun x => (tableName x.1, x.2), infoM := im, infoP := ip }

def oracleStep (st : Unit) (cmd : String) (args : List String) : Unit × String :=
  match cmd, args with
  | "inv", sn :: toks =>
    match TracksV1.Schema.ofName sn, parseDump toks with
    | some s, some r =>
      let fails := libFailures s r
      let fk := fkViolationsAll r
      (st, if fails.isEmpty then "ok" else
        "ok FAIL " ++ ",".intercalate fails ++ " wf=" ++ ",".intercalate (Api.CratesV1.wfFailures r.cr) ++
        " fk=" ++ ";".intercalate (fk.map fun v => s!"{v.1}:{v.2.1}:{v.2.2}"))
    | _, _ => (st, "bad-op inv parse")
  | _, _ => (st, "bad-op unknown")

def oracle : Drv.Mode := Drv.mkMode "lib1oracle" () oracleStep

end Drv.Lib1
