/-
Driver modes of the C15 fault stream (tools/props/parts/C15_faults.py): the C15 crate modes plus

  fault <k> <n>     arm a fault plan for the NEXT mutating call: the harness fails the k-th (0-based) faultable
                    statement; `n` = the number of faultable statements the real call was observed to issue in the
                    recording pass.  The model runs the call as its statement program (`Api/FaultsV2.callF`,
                    `Api/FaultsV1.callF`) with the fault at the model position that corresponds to k:
                    first ↦ first (BEGIN of a scoped call), last ↦ last (COMMIT), the others onto the statements
                    between (statement counts of model and code are not compared: the writes of a scope may be
                    split or merged freely); k ≥ n ↦ a position beyond the program (the fault does not fire).
  fault.status      `ok fired=<0|1> …` and disarm

  `c15fv2` = `c15cv2` + these (crates / memberships 2.x);  `c15fv1` = `c15cv1` + these (crates 1.x)
-/
import EngineModel.Driver.Cmds.C15
import EngineModel.Api.FaultsV2
import EngineModel.Api.FaultsV1

open EngineModel EngineModel.Text

namespace Drv.C15Faults

/-- model position of the harness position `k` of `n` on a program with `m` faultable statements -/
def mapPos (k n m : Nat) : Nat :=
  if k ≥ n then m            -- beyond the call: does not fire
  else if k + 1 ≥ n then m - 1
  else min k (m - 2)

structure Armed where
  k : Nat
  n : Nat
  deriving Inhabited

namespace CV2
open EngineModel.Db EngineModel.Db.V2 EngineModel.Api.GuardedV2 EngineModel.Api.FaultsV2

structure St where
  base : Drv.CratesV2.St := {}
  armed : Option Armed := none
  fired : Bool := false
  deriving Inhabited

/-- the mutating commands of mode `c15cv2`: operation, crate variable to bind, track variable to bind,
"answer `ok` only" (add_track returns nothing) -/
def parseOp (st : Drv.CratesV2.St) (cmd : String) (args : List String) : Option (Op × Option String × Option String × Bool) :=
  let cr (v : String) : Option Int := (st.crates.find? (·.1 == v)).map (·.2)
  let tr (v : String) : Option Int := (st.tracks.find? (·.1 == v)).map (·.2)
  match cmd, args with
  | "mkroot", [v, n] => (parseHexBytes n).map fun n => (.createRoot n, some v, none, false)
  | "mkroot_after", [v, n, a] =>
    match parseHexBytes n, cr a with
    | some n, some a => some (.createRootAfter n a, some v, none, false)
    | _, _ => none
  | "mksub", [v, p, n] =>
    match parseHexBytes n, cr p with
    | some n, some p => some (.createSub p n, some v, none, false)
    | _, _ => none
  | "mksub_after", [v, p, n, a] =>
    match parseHexBytes n, cr p, cr a with
    | some n, some p, some a => some (.createSubAfter p n a, some v, none, false)
    | _, _, _ => none
  | "rename", [v, n] =>
    match parseHexBytes n, cr v with
    | some n, some c => some (.rename c n, none, none, false)
    | _, _ => none
  | "setparent", [v, p] =>
    match cr v, (if p == "-" then some none else (cr p).map some) with
    | some c, some p => some (.setParent c p, none, none, false)
    | _, _ => none
  | "rmcrate", [v] => (cr v).map fun c => (.removeCrate c, none, none, false)
  | "v2.mktrack", [v, _] => some (.createTrack, none, some v, false)
  | "rmtrack", [v] => (tr v).map fun t => (.removeTrack t, none, none, false)
  | "addtrack", [c, t] =>
    match cr c, tr t with
    | some c, some t => some (.addTrack c t, none, none, true)
    | _, _ => none
  | "addtrackid", [c, t] =>
    match cr c, t.toInt? with
    | some c, some t => some (.addTrack c t, none, none, true)
    | _, _ => none
  | "rmtrackfrom", [c, t] =>
    match cr c, tr t with
    | some c, some t => some (.removeTrackFrom c t, none, none, false)
    | _, _ => none
  | "cleartracks", [c] => (cr c).map fun c => (.clearTracks c, none, none, false)
  | _, _ => none

def step (st : St) (cmd : String) (args : List String) : St × String :=
  match cmd, args with
  | "fault", k :: n :: _ =>
    match k.toNat?, n.toNat? with
    | some k, some n => ({ st with armed := some ⟨k, n⟩, fired := false }, "ok")
    | _, _ => (st, "bad-op args")
  | "fault.status", [] => ({ st with armed := none }, s!"ok fired={if st.fired then 1 else 0}")
  | _, _ =>
    match st.armed, parseOp st.base cmd args with
    | some a, some (op, bc, bt, okOnly) =>
      let d := st.base.db
      let m := positions d op
      let k' := mapPos a.k a.n m
      let (d', r) := callF d op (some ⟨k', false⟩)
      let b := { st.base with db := d' }
      let b := match r, bc with
        | .ok (some i), some v => { b with crates := Drv.CratesV2.bind b.crates v i }
        | _, _ => b
      let b := match r, bt with
        | .ok (some i), some v => { b with tracks := Drv.CratesV2.bind b.tracks v i }
        | _, _ => b
      let txt := Drv.CratesV2.renderOut r
      let txt := if okOnly && txt.startsWith "ok" then "ok" else txt
      -- the injected fault is one-shot: fired or not, the plan is spent once a faultable statement ran past it
      ({ base := b, armed := if k' < m then none else st.armed, fired := k' < m }, txt)
    | _, _ =>
      let (b, txt) := Drv.C15.CV2.step st.base cmd args
      ({ st with base := b }, txt)

def mode : Drv.Mode := Drv.mkMode "c15fv2" ({} : St) step
end CV2

namespace CV1
open EngineModel.Api.CratesV1 EngineModel.Api.FaultsV1 Drv.CratesV1

structure St where
  base : Drv.CratesV1.St := {}
  armed : Option Armed := none
  fired : Bool := false

/-- the mutating commands of mode `c15cv1`: operation, crate variable to bind, track variable to bind -/
def parseOp (st : Drv.CratesV1.St) (cmd : String) (args : List String) : Option (Op × Option String × Option String) :=
  let cr (v : String) : Option Id := get st.cvars v
  let tr (v : String) : Option Id := get st.tvars v
  match cmd, args with
  | "mkroot", [v, n] => (parseHexBytes n).map fun n => (.createRoot n, some v, none)
  | "mksub", [v, p, n] =>
    match parseHexBytes n, cr p with
    | some n, some p => some (.createSub p n, some v, none)
    | _, _ => none
  | "rename", [v, n] =>
    match parseHexBytes n, cr v with
    | some n, some c => some (.rename c n, none, none)
    | _, _ => none
  | "setparent", [v, p] =>
    match cr v, (if p == "-" then some none else (cr p).map some) with
    | some c, some p => some (.setParent c p, none, none)
    | _, _ => none
  | "rmcrate", [v] => (cr v).map fun c => (.removeCrate c, none, none)
  | "v1.mktrack", [v, _] => some (.createTrack, none, some v)
  | "rmtrack", [v] => (tr v).map fun t => (.removeTrack t, none, none)
  | "addtrack", [c, t] =>
    match cr c, tr t with
    | some c, some t => some (.addTrack c t, none, none)
    | _, _ => none
  | "addtrackid", [c, t] =>
    match cr c, t.toInt? with
    | some c, some t => some (.addTrack c t, none, none)
    | _, _ => none
  | "rmtrackfrom", [c, t] =>
    match cr c, tr t with
    | some c, some t => some (.removeTrackFrom c t, none, none)
    | _, _ => none
  | "cleartracks", [c] => (cr c).map fun c => (.clearTracks c, none, none)
  | _, _ => none

def step (st : St) (cmd : String) (args : List String) : St × String :=
  match cmd, args with
  | "fault", k :: n :: _ =>
    match k.toNat?, n.toNat? with
    | some k, some n => ({ st with armed := some ⟨k, n⟩, fired := false }, "ok")
    | _, _ => (st, "bad-op args")
  | "fault.status", [] => ({ st with armed := none }, s!"ok fired={if st.fired then 1 else 0}")
  | _, _ =>
    match st.armed, st.base.schema, parseOp st.base cmd args with
    | some a, some s, some (op, bc, bt) =>
      let d := st.base.db
      let m := positions s d op
      let k' := mapPos a.k a.n m
      let (d', r) := callF s d op (some ⟨k', false⟩)
      let b := { st.base with db := d' }
      let b := match r, bc with
        | .ok (.id i), some v => { b with cvars := put b.cvars v i }
        | _, _ => b
      let b := match r, bt with
        | .ok (.id i), some v => { b with tvars := put b.tvars v i }
        | _, _ => b
      ({ base := b, armed := if k' < m then none else st.armed, fired := k' < m }, outText r)
    | _, _, _ =>
      let (b, txt) := Drv.C15.CV1.step st.base cmd args
      ({ st with base := b }, txt)

def mode : Drv.Mode := Drv.mkMode "c15fv1" ({} : St) step
end CV1

def modes : List Drv.Mode := [CV2.mode, CV1.mode]

end Drv.C15Faults
