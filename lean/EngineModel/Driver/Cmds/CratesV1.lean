/-
Stateful driver mode `cratesv1`: the Lean Model of the schema-1.x crate code
answering the same script lines as harness/djv_db.cpp + djv_cratesv1.cpp.
Handles are script variables holding an id (a C++ handle is (storage, id)).
-/
import EngineModel.Driver.Loop
import EngineModel.Driver.Text
import EngineModel.Api.CratesV1

open EngineModel EngineModel.Text EngineModel.Pure.Detect

namespace Drv.CratesV1
open EngineModel.Api.CratesV1

structure Image where
  db : Db
  cvars : List (String × Id)
  tvars : List (String × Id)

structure St where
  schema : Option Schema := none
  db : Db := Db.empty
  cvars : List (String × Id) := []
  tvars : List (String × Id) := []
  saved : Option Image := none

def put (vars : List (String × Id)) (v : String) (i : Id) : List (String × Id) :=
  (vars.filter (·.1 != v)) ++ [(v, i)]

def get (vars : List (String × Id)) (v : String) : Option Id := (vars.find? (·.1 == v)).map (·.2)

/-! ### canonical text (mirror of djv_cratesv1.cpp) -/
def lst (l : List Id) : String := if l.isEmpty then "-" else ",".intercalate (l.map toString)
def oid : Option Id → String
  | some i => toString i
  | none => "none"
def rres {α} (f : α → String) : Res α → String
  | .ok a => f a
  | .throw e => "!" ++ e.toString
  | .ub u => "!ub_" ++ u.toString
def b01 (b : Bool) : String := if b then "1" else "0"

def bytesLe : Bytes → Bytes → Bool
  | [], _ => true
  | _ :: _, [] => false
  | a :: as, b :: bs => a < b || (a == b && bytesLe as bs)

def crateRowLe (a b : CrateRow) : Bool :=
  a.id < b.id || (a.id == b.id && (a.title != b.title && bytesLe a.title b.title ||
    (a.title == b.title && bytesLe a.path b.path)))

def pairLe (a b : Id × Id) : Bool := a.1 < b.1 || (a.1 == b.1 && a.2 ≤ b.2)

def rows (l : List String) : String := if l.isEmpty then "()" else String.join l

def rawPairs (l : List (Id × Id)) : String :=
  rows ((l.mergeSort pairLe).map fun r => s!"({r.1},{r.2})")

def rawText (s : Schema) (db : Db) : String :=
  "raw Crate " ++ rows ((db.crate.mergeSort crateRowLe).map fun r => s!"({r.id},s{hexBytes r.title},s{hexBytes r.path})") ++
  " CPL " ++ rawPairs db.cpl ++ " CH " ++ rawPairs db.ch ++ " CTL " ++ rawPairs (ctlView s db) ++
  " Track " ++ rows ((db.track.mergeSort (fun a b => a.id ≤ b.id)).map fun r => s!"({r.id},{b01 r.hasPath})") ++
  " LTL " ++ (if hasListViews s then rawPairs db.ctl else "-")

def obsText (s : Schema) (db : Db) (o : Obs) : String :=
  "crates " ++ lst o.crates ++ " roots " ++ lst o.roots ++ " tracks " ++ lst o.tracks ++
  String.join (o.perCrate.map fun c =>
    s!" C {c.id} {rres b01 c.valid} {rres hexBytes c.name} {rres oid c.parent} {lst c.children} {lst c.descendants} " ++
    s!"{lst c.tracks} {rres oid c.byId} {c.subByName.length}" ++ String.join (c.subByName.map fun r => " " ++ oid r)) ++
  String.join (o.perTrack.map fun t => s!" T {t.id} {rres b01 t.valid} {lst t.containing}") ++
  String.join (o.perName.map fun n => s!" N {hexBytes n.name} {lst n.byName} {oid n.rootByName}") ++
  " " ++ rawText s db

def outText : Res Out → String
  | .ok .unit => "ok"
  | .ok (.id i) => s!"ok id={i}"
  | .throw e => "throw " ++ e.toString
  | .ub u => "ub " ++ u.toString

/-! ### command interpreter -/
def withCrate (st : St) (v : String) (k : Id → St × String) : St × String :=
  match get st.cvars v with
  | some i => k i
  | none => (st, "bad-op crate var " ++ v)

def withTrack (st : St) (v : String) (k : Id → St × String) : St × String :=
  match get st.tvars v with
  | some i => k i
  | none => (st, "bad-op track var " ++ v)

def apply (st : St) (s : Schema) (op : Op) (bind : St → Id → St := fun st _ => st) : St × String :=
  let (db', r) := Api.CratesV1.step s st.db op
  let st' := { st with db := db' }
  match r with
  | .ok (.id i) => (bind st' i, outText r)
  | _ => (st', outText r)

def step (st : St) (cmd : String) (args : List String) : St × String :=
  match cmd, args with
  | "create", [sn, _] =>
    match Schema.ofName sn with
    | some s => if isV1 s then ({ schema := some s }, "ok") else (st, "bad-op not a 1.x schema")
    | none => (st, "bad-op schema " ++ sn)
  | _, _ =>
  match st.schema with
  | none => (st, "bad-op no database")
  | some s =>
  match cmd, args with
  | "mkroot", [v, n] =>
    match parseHexBytes n with
    | some n => apply st s (.createRoot n) (fun st i => { st with cvars := put st.cvars v i })
    | none => (st, "bad-op hex")
  | "mksub", [v, p, n] =>
    match parseHexBytes n with
    | some n => withCrate st p fun pid => apply st s (.createSub pid n) (fun st i => { st with cvars := put st.cvars v i })
    | none => (st, "bad-op hex")
  | "rename", [v, n] =>
    withCrate st v fun c =>
    match parseHexBytes n with
    | some n => apply st s (.rename c n)
    | none => (st, "bad-op hex")
  | "setparent", [v, p] =>
    withCrate st v fun c =>
      if p == "-" then apply st s (.setParent c none)
      else withCrate st p fun q => apply st s (.setParent c (some q))
  | "rmcrate", [v] => withCrate st v fun c => apply st s (.removeCrate c)
  | "addtrack", [v, t] => withCrate st v fun c => withTrack st t fun t => apply st s (.addTrack c t)
  | "addtrackid", [v, t] =>
    withCrate st v fun c =>
    match t.toInt? with
    | some t => apply st s (.addTrack c t)
    | none => (st, "bad-op i64 " ++ t)
  | "rmtrackfrom", [v, t] => withCrate st v fun c => withTrack st t fun t => apply st s (.removeTrackFrom c t)
  | "cleartracks", [v] => withCrate st v fun c => apply st s (.clearTracks c)
  | "v1.mktrack", [v, _] => apply st s .createTrack (fun st i => { st with tvars := put st.tvars v i })
  | "v1.mktrack", [v, _, _] => apply st s .createTrack (fun st i => { st with tvars := put st.tvars v i })
  | "rmtrack", [v] => withTrack st v fun t => apply st s (.removeTrack t)
  | "getcrate", [v, i] =>
    match i.toInt? with
    | some i =>
      match dbCrateById st.db i with
      | .ok (some c) => ({ st with cvars := put st.cvars v c }, s!"ok id={c}")
      | .ok none => (st, "ok none")
      | .throw e => (st, "throw " ++ e.toString)
      | .ub u => (st, "ub " ++ u.toString)
    | none => (st, "bad-op i64 " ++ i)
  | "v1.save", [] => ({ st with saved := some ⟨st.db, st.cvars, st.tvars⟩ }, "ok")
  | "v1.restore", [] =>
    match st.saved with
    | some im => ({ st with db := im.db, cvars := im.cvars, tvars := im.tvars }, "ok")
    | none => (st, "bad-op v1.restore: nothing saved")
  | "v1.obs", names =>
    match names.mapM parseHexBytes with
    | some ns =>
      (st, "ok " ++ obsText s st.db (observe s st.db (st.cvars.map (·.2)) (st.tvars.map (·.2)) ns))
    | none => (st, "bad-op hex")
  | _, _ => (st, "bad-op unknown")

def mode : Drv.Mode := Drv.mkMode "cratesv1" ({} : St) step

end Drv.CratesV1
