/-
Driver commands of the pure-core group added after the first round:
  bg.normq   beat-grid normalisation over EXACT rationals (the instance the C20
             theorems are about) on the same double inputs (every finite double
             is a dyadic rational) — the Float-vs-ℚ stream of C20;
  bg.window  the Spec's window (C20) over exact rationals.
-/
import EngineModel.Driver.Values
import EngineModel.Basic.F64
import EngineModel.Pure.BeatgridRat
import EngineModel.Pure.Detect
import EngineModel.Gen.DetectGen

open EngineModel EngineModel.Text

namespace Drv
open Pure.Beatgrid

/-- The exact value of a finite double. -/
def ratOfBits (x : UInt64) : Option Rat :=
  let e := F64.expOf x
  let m := F64.manOf x
  if e = 2047 then none else
  let mag : Rat :=
    if e = 0 then (m : Rat) / ((2 ^ 1074 : Nat) : Rat)
    else if e ≥ 1075 then (((m + 4503599627370496) * 2 ^ (e - 1075) : Nat) : Rat)
    else ((m + 4503599627370496 : Nat) : Rat) / ((2 ^ (1075 - e) : Nat) : Rat)
  some (if F64.signOf x then -mag else mag)

def showRat (q : Rat) : String := s!"{q.num}/{q.den}"

def pGridQ : P (Int × List (Marker Rat)) := do
  let n ← lift parseInt
  let g ← pList (do
    let i ← lift parseInt
    let o ← pF
    match ratOfBits o with
    | some q => pure (⟨i, q⟩ : Marker Rat)
    | none => failure)
  pure (n, g)

def okGrid (n : Int) (g : List (Marker Rat)) : Bool :=
  !(n < -9223372036854775808 ∨ n > 9223372036854775807) &&
  g.all (fun m => decide (In32 m.index))

def showGridQ (out : List (Marker Rat)) : String :=
  unwords (toString out.length :: out.flatMap fun m => [toString m.index, showRat m.off])

def bgNormQ (a : List String) : String :=
  match runP pGridQ a with
  | none => "bad-op args"
  | some (n, g) =>
    if !okGrid n g then "bad-op range" else
    (normalize ratNum g n).render showGridQ

def bgWindow (a : List String) : String :=
  match runP pGridQ a with
  | none => "bad-op args"
  | some (n, g) =>
    if !okGrid n g then "bad-op range" else
    "ok " ++ showGridQ (window ratNum g n)

/-! ### C13: `plant2 <presence> <tables> <maj> <min> <pat> <numeric>` -/
open Pure.Detect in
def worldOf (a : List String) : Option World :=
  match a with
  | [pres, tc, ma, mi, pa, nu] =>
    match tc.toInt?, ma.toInt?, mi.toInt?, pa.toInt? with
    | some tc, some ma, some mi, some pa =>
      some ⟨!pres.contains 'X', pres.contains 'L', pres.contains 'P', pres.contains 'D',
        tc, ma, mi, pa, nu == "1"⟩
    | _, _, _, _ => none
  | _ => none

open Pure.Detect in
def plant2 (spec : Bool) (a : List String) : String :=
  match worldOf a with
  | none => "bad-op args"
  | some w =>
    if spec then (specLoad w).render
    else (LoadOutcome.ofExcept (Gen.Detect.loadDatabaseGen w)).render

def pureTable (cmd : String) (args : List String) : Option String :=
  match cmd, args with
  | "bg.normq", a => some (bgNormQ a)
  | "bg.window", a => some (bgWindow a)
  | "plant2", a => some (plant2 false a)
  | "spec.plant2", a => some (plant2 true a)
  | _, _ => none

end Drv
