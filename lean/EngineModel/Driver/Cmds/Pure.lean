/-
Driver commands of the pure-core group added after the first round:
  bg.normq   beat-grid normalisation over EXACT rationals (the instance the C20
             theorems are about) on the same double inputs (every finite double
             is a dyadic rational) — the Float-vs-ℚ stream of C20;
  bg.window  the Spec's window (C20) over exact rationals.
-/
import EngineModel.Driver.Values
import EngineModel.Basic.F64
import EngineModel.Pure.BeatgridRat
import EngineModel.Pure.Detect
import EngineModel.Gen.DetectGen
import EngineModel.Gen.TrackUtilsGen
import EngineModel.Basic.F64Rat
import EngineModel.Driver.Cmds.TracksV1

open EngineModel EngineModel.Text

namespace Drv
open Pure.Beatgrid

/-- The exact value of a finite double (`F64.toRat`, the definition the C19/C20 proofs use). -/
def ratOfBits (x : UInt64) : Option Rat := if F64.isFinite x then some (F64.toRat x) else none

def showRat (q : Rat) : String := s!"{q.num}/{q.den}"

def pGridQ : P (Int × List (Marker Rat)) := do
  let n ← lift parseInt
  let g ← pList (do
    let i ← lift parseInt
    let o ← pF
    match ratOfBits o with
    | some q => pure (⟨i, q⟩ : Marker Rat)
    | none => failure)
  pure (n, g)

def okGrid (n : Int) (g : List (Marker Rat)) : Bool :=
  !(n < -9223372036854775808 ∨ n > 9223372036854775807) &&
  g.all (fun m => decide (In32 m.index))

def showGridQ (out : List (Marker Rat)) : String :=
  unwords (toString out.length :: out.flatMap fun m => [toString m.index, showRat m.off])

def bgNormQ (a : List String) : String :=
  match runP pGridQ a with
  | none => "bad-op args"
  | some (n, g) =>
    if !okGrid n g then "bad-op range" else
    (normalize ratNum g n).render showGridQ

def bgWindow (a : List String) : String :=
  match runP pGridQ a with
  | none => "bad-op args"
  | some (n, g) =>
    if !okGrid n g then "bad-op range" else
    "ok " ++ showGridQ (window ratNum g n)

/-! ### C13: `plant2 <presence> <tables> <maj> <min> <pat> <numeric>` -/
open Pure.Detect in
def worldOf (a : List String) : Option World :=
  match a with
  | [pres, tc, ma, mi, pa, nu] =>
    match tc.toInt?, ma.toInt?, mi.toInt?, pa.toInt? with
    | some tc, some ma, some mi, some pa =>
      some ⟨!pres.contains 'X', pres.contains 'L', pres.contains 'P', pres.contains 'D',
        tc, ma, mi, pa, nu == "1"⟩
    | _, _, _, _ => none
  | _ => none

open Pure.Detect in
def plant2 (spec : Bool) (a : List String) : String :=
  match worldOf a with
  | none => "bad-op args"
  | some w =>
    if spec then (specLoad w).render
    else (LoadOutcome.ofExcept (Gen.Detect.loadDatabaseGen w)).render

/-! ### C19: the regenerated waveform functions over the bit-exact `static_cast<int64_t>`
(`Fl.FOps.cxx`: `Fl.toI64` on bit patterns, hardware doubles for the other operations) — the
instance `C19_hi_property` / `C19_ov_property` are about. -/
def wfBits (hi : Bool) (a : List String) : String :=
  match a with
  | [n, r] =>
    match n.toNat?, parseHex64 r with
    | some n, some r =>
      if n ≥ 18446744073709551616 then "bad-op u64" else
      let ops := Drv.TracksV1.fops.cxx
      let res := if hi then Gen.TrackUtils.calculate_high_resolution_waveform_extents ops n r
        else Gen.TrackUtils.calculate_overview_waveform_extents ops n r
      match res with
      | some p => s!"ok {p.1} {hex64 p.2}"
      | none => "ub float_cast_range"
    | _, _ => "bad-op args"
  | _ => "bad-op args"

/-- `f64.val <bits>`: exact value `num/den` and the bit-exact int64 conversion. -/
def f64Val (a : List String) : String :=
  match a with
  | [r] =>
    match parseHex64 r with
    | some r =>
      let v := match ratOfBits r with | some q => showRat q | none => "nonfinite"
      let t := match EngineModel.TracksV1.Fl.toI64 r with | some i => toString i | none => "none"
      s!"ok {v} {t}"
    | none => "bad-op args"
  | _ => "bad-op args"

def pureTable (cmd : String) (args : List String) : Option String :=
  match cmd, args with
  | "bg.normq", a => some (bgNormQ a)
  | "bg.window", a => some (bgWindow a)
  | "wf.hib", a => some (wfBits true a)
  | "wf.ovb", a => some (wfBits false a)
  | "f64.val", a => some (f64Val a)
  | "plant2", a => some (plant2 false a)
  | "spec.plant2", a => some (plant2 true a)
  | _, _ => none

end Drv
