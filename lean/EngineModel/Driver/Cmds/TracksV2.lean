/-
Driver commands of the schema-2.x track group.
  mode `tracksv2` (stateful; same lines as harness/djv_db.cpp + djv_tracksv2.cpp):
     create <schema> mem|disk | mktrack <var> <snapshot> | update <var> <snapshot>
     snap <var> | get <var> <field> [i] | set <var> <field> <value…> | t2.row <var> | t2.skew <var>
  stateless Spec commands (the oracle, evaluated on the implementation's answers):
     t2.spec.norm <schema> <snapshot>          → ok <snapshot> | reject
     t2.spec.set <snapshot> <field> <value…>   → ok <snapshot> | reject
     t2.toi64 <double>                          → ok <int> | none      (self-test of the bit-level cast)
-/
import EngineModel.Driver.Values
import EngineModel.TracksV2.Lens
import EngineModel.TracksV2.Spec
import EngineModel.TracksV2.SpecLens
import EngineModel.Driver.Loop

open EngineModel EngineModel.Text EngineModel.TracksV2

namespace Drv.T2

/-- hardware floats -/
def hwOps : FOps where
  ofU64 n := n.toFloat.toBits
  ofI64 n := n.toInt64.toFloat.toBits
  div a b := (Float.ofBits a / Float.ofBits b).toBits

/-! ### text form of snapshots (harness `rd_snapshot` / `wr_snapshot`) -/

def pOStr : P (Option Bytes) := do
  let t ← tok
  if t = "none" then pure none
  else if t.startsWith "s" then
    match parseHexBytes (t.drop 1).toString with
    | some b => pure (some b)
    | none => failure
  else failure

def sOStr : Option Bytes → String
  | none => "none"
  | some b => "s" ++ hexBytes b

def pSomeNone' {α} (p : P α) : P (Option α) := do
  let t ← tok
  if t = "none" then pure none
  else if t = "some" then do let a ← p; pure (some a)
  else failure

def pHotCue' : P HotCue := do
  let l ← pBytes; let o ← pF; let c ← pColor
  pure ⟨l, o, c⟩
def sOptCue' : Option HotCue → String
  | none => "none"
  | some q => unwords ["some", hexBytes q.label, hex64 q.off, sColor q.color]

def pLoopV' : P LoopV := do
  let l ← pBytes; let s ← pF; let e ← pF; let c ← pColor
  pure ⟨l, s, e, c⟩
def sOptLoop' : Option LoopV → String
  | none => "none"
  | some l => unwords ["some", hexBytes l.label, hex64 l.start, hex64 l.stop, sColor l.color]

def pGM : P GMarker := do
  let i ← pI32; let o ← pF
  pure ⟨i, o⟩
def sGM (m : GMarker) : String := unwords [showI32 m.index, hex64 m.off]

def entriesOfBytes : Bytes → Option (List WEntry)
  | [] => some []
  | a :: b :: c :: d :: e :: f :: r => (entriesOfBytes r).map (⟨a, b, c, d, e, f⟩ :: ·)
  | _ => none
def bytesOfEntries (l : List WEntry) : Bytes := l.flatMap fun e => [e.lv, e.mv, e.hv, e.lo, e.mo, e.ho]

def pWf : P (List WEntry) := do
  let b ← pBytes
  match entriesOfBytes b with
  | some es => pure es
  | none => failure

def pU64 : P UInt64 := do
  let n ← pNat
  if n ≥ 18446744073709551616 then failure else pure (UInt64.ofNat n)

def sOpt {α} (f : α → String) : Option α → String
  | none => "none"
  | some a => f a

def sU64 (x : UInt64) : String := toString x.toNat

def pSnap : P Snap := do
  let album ← pOStr
  let artist ← pOStr
  let loud ← pOpt pF
  let grid ← pList pGM
  let bitrate ← pOpt pI32
  let bpm ← pOpt pF
  let comment ← pOStr
  let composer ← pOStr
  let duration ← pOpt pI64
  let fileBytes ← pOpt pI64
  let genre ← pOStr
  let cues ← pList (pSomeNone' pHotCue')
  let key ← pOpt pI32
  let played ← pOpt pI64
  let loops ← pList (pSomeNone' pLoopV')
  let mainCue ← pOpt pF
  let publisher ← pOStr
  let rating ← pOpt pI32
  let path ← pOStr
  let count ← pOpt pU64
  let rate ← pOpt pF
  let title ← pOStr
  let trackNo ← pOpt pI32
  let wf ← pWf
  let year ← pOpt pI32
  pure ⟨album, artist, loud, grid, bitrate, bpm, comment, composer, duration, fileBytes, genre, cues, key,
    played, loops, mainCue, publisher, rating, path, count, rate, title, trackNo, wf, year⟩

def sSnap (x : Snap) : String :=
  unwords [sOStr x.album, sOStr x.artist, sOptF x.averageLoudness, sList sGM x.beatgrid,
    sOpt showI32 x.bitrate, sOptF x.bpm, sOStr x.comment, sOStr x.composer, sOpt showI64 x.duration,
    sOpt sU64 x.fileBytes, sOStr x.genre, sList sOptCue' x.hotCues, sOpt showI32 x.key,
    sOpt showI64 x.lastPlayedAt, sList sOptLoop' x.loops, sOptF x.mainCue, sOStr x.publisher,
    sOpt showI32 x.rating, sOStr x.relativePath, sOpt sU64 x.sampleCount, sOptF x.sampleRate, sOStr x.title,
    sOpt showI32 x.trackNumber, hexBytes (bytesOfEntries x.waveform), sOpt showI32 x.year]

/-! ### setters: `set <var> <field> <value…>` -/

def pSetter (field : String) : P Setter :=
  match field with
  | "album" => Setter.album <$> pOStr
  | "artist" => Setter.artist <$> pOStr
  | "average_loudness" => Setter.averageLoudness <$> pOpt pF
  | "beatgrid" => Setter.beatgrid <$> pList pGM
  | "bitrate" => Setter.bitrate <$> pOpt pI32
  | "bpm" => Setter.bpm <$> pOpt pF
  | "comment" => Setter.comment <$> pOStr
  | "composer" => Setter.composer <$> pOStr
  | "duration" => Setter.duration <$> pOpt pI64
  | "genre" => Setter.genre <$> pOStr
  | "hot_cue_at" => do let i ← pI32; let c ← pSomeNone' pHotCue'; pure (Setter.hotCueAt i c)
  | "hot_cues" => Setter.hotCues <$> pList (pSomeNone' pHotCue')
  | "key" => Setter.key <$> pOpt pI32
  | "last_played_at" => Setter.lastPlayedAt <$> pOpt pI64
  | "loop_at" => do let i ← pI32; let c ← pSomeNone' pLoopV'; pure (Setter.loopAt i c)
  | "loops" => Setter.loops <$> pList (pSomeNone' pLoopV')
  | "main_cue" => Setter.mainCue <$> pOpt pF
  | "publisher" => Setter.publisher <$> pOStr
  | "rating" => Setter.rating <$> pOpt pI32
  | "relative_path" => Setter.relativePath <$> pBytes
  | "sample_count" => Setter.sampleCount <$> pOpt pU64
  | "sample_rate" => Setter.sampleRate <$> pOpt pF
  | "title" => Setter.title <$> pOStr
  | "track_number" => Setter.trackNumber <$> pOpt pI32
  | "waveform" => Setter.waveform <$> pWf
  | "year" => Setter.year <$> pOpt pI32
  | _ => failure

/-! ### getters: `get <var> <field> [i]` -/

def sCuesL (l : List (Option HotCue)) : String := sList sOptCue' l
def sLoopsL (l : List (Option LoopV)) : String := sList sOptLoop' l

def getCmd (r : Row) (field : String) (rest : List String) : String :=
  let ok (s : String) := if s.isEmpty then "ok" else "ok " ++ s
  match field, rest with
  | "album", [] => ok (sOStr (getAlbum r))
  | "artist", [] => ok (sOStr (getArtist r))
  | "average_loudness", [] => ok (sOptF (getAverageLoudness r))
  | "beatgrid", [] => ok (sList sGM (getBeatgrid r))
  | "bitrate", [] => ok (sOpt showI32 (getBitrate r))
  | "bpm", [] => ok (sOptF (getBpm hwOps r))
  | "comment", [] => ok (sOStr (getComment r))
  | "composer", [] => ok (sOStr (getComposer r))
  | "duration", [] => (getDuration r).render (sOpt showI64)
  | "file_extension", [] => ok (hexBytes (getFileExtension' r))
  | "filename", [] => ok (hexBytes (getFilename' r))
  | "genre", [] => ok (sOStr (getGenre r))
  | "hot_cue_at", [i] => match parseI32 i with
    | some i => (getHotCueAt r i).render sOptCue'
    | none => "bad-op index"
  | "hot_cues", [] => ok (sCuesL (getHotCues r))
  | "key", [] => ok (sOpt showI32 (getKey r))
  | "last_played_at", [] => ok (sOpt showI64 (getLastPlayedAt r))
  | "loop_at", [i] => match parseI32 i with
    | some i => (getLoopAt r i).render sOptLoop'
    | none => "bad-op index"
  | "loops", [] => ok (sLoopsL (getLoops r))
  | "main_cue", [] => ok (sOptF (getMainCue r))
  | "publisher", [] => ok (sOStr (getPublisher r))
  | "rating", [] => ok (sOpt showI32 (getRating r))
  | "relative_path", [] => ok (hexBytes (getRelativePath r))
  | "sample_count", [] => ok (sOpt sU64 (getSampleCount r))
  | "sample_rate", [] => ok (sOptF (getSampleRate r))
  | "title", [] => ok (sOStr (getTitle r))
  | "track_number", [] => ok (sOpt showI32 (getTrackNumber r))
  | "waveform", [] => ok (hexBytes (bytesOfEntries (getWaveform r)))
  | "year", [] => ok (sOpt showI32 (getYear r))
  | _, _ => "bad-op field"

/-! ### the raw Track row (`t2.row`) -/

def sNullI : Option UInt64 → String
  | none => "null" | some x => showI64 x
def sNullS : Option Bytes → String
  | none => "null" | some b => "s" ++ hexBytes b
def sB (b : Bool) : String := if b then "1" else "0"
def secs (t : UInt64) : UInt64 := Prim.u64OfInt (Int.tdiv (Prim.s64 t) 1000000000)

def sRow (s : Schema) (r : Row) : String :=
  unwords [sNullI r.playOrder, showI64 r.length, sNullI r.bpm, sNullI r.year, "s" ++ hexBytes r.path,
    "s" ++ hexBytes r.filename, sNullI r.bitrate,
    (match r.bpmAnalyzed with | none => "null" | some b => "f" ++ hex64 b),
    showI64 r.albumArtId, sNullI r.fileBytes, sNullS r.title, sNullS r.artist, sNullS r.album, sNullS r.genre,
    sNullS r.comment, sNullS r.label, sNullS r.composer, sNullS r.remixer,
    (match r.key with | none => "null" | some k => showI32 k), showI64 r.rating, sNullS r.albumArt,
    sNullI (r.timeLastPlayed.map secs), sB r.isPlayed, "s" ++ hexBytes r.fileType, sB r.isAnalyzed,
    showI64 (secs r.dateCreated), sB r.isAvailable, sB r.isMetadataOfPackedTrackChanged,
    sB r.isPerformanceDataOfPackedTrackChanged, sNullI r.playedIndicator, sB r.isMetadataImported,
    showI64 r.pdbImportKey, sNullS r.streamingSource, sNullS r.uri, sB r.isBeatGridLocked,
    sNullI r.thirdPartySourceId, showI64 r.streamingFlags, sB r.explicitLyrics,
    (if s.hasActiveOnLoadLoops then sNullI r.activeOnLoadLoops else "absent"),
    "|", sTrack r.trackData, "|", sOvw r.ovw, "|", sBeat r.beat, "|", sCues r.cues, "|", sLoops r.loops]

/-! ### the stateful mode -/

structure St where
  schema : Option Schema := none
  db : Db := Db.empty
  vars : List (String × Nat) := []

def St.var (st : St) (v : String) : Option Nat := (st.vars.find? (·.1 == v)).map (·.2)

def resUnit (r : Res Unit) : String := r.render fun _ => ""

def step (st : St) (cmd : String) (args : List String) : St × String :=
  match cmd, args with
  | "create", [sch, _] =>
    match Schema.ofName sch with
    | some s => ({ schema := some s, db := Db.empty, vars := [] }, "ok")
    | none => (st, "bad-op schema")
  | "mktrack", v :: toks =>
    match st.schema, runP pSnap toks with
    | some s, some x =>
      let (db', r) := st.db.create hwOps s x
      match r with
      | .ok id => ({ st with db := db', vars := (v, id) :: st.vars.filter (·.1 != v) }, s!"ok id={id}")
      | _ => (st, r.render fun _ => "")
    | none, _ => (st, "bad-op no database")
    | _, none => (st, "bad-op snapshot")
  | "update", v :: toks =>
    match st.schema, st.var v, runP pSnap toks with
    | some s, some id, some x =>
      -- `track::update` tests `relative_path` before anything else (same exception as snapshot_to_row)
      let (db', r) := st.db.update hwOps s id x
      ({ st with db := db' }, resUnit r)
    | _, _, _ => (st, "bad-op update")
  | "snap", [v] =>
    match st.var v with
    | some id => (st, (st.db.snapshot hwOps id).render sSnap)
    | none => (st, "bad-op var")
  | "get", v :: f :: rest =>
    match st.var v with
    | some id =>
      match st.db.get id with
      | some r => (st, getCmd r f rest)
      | none => (st, "throw runtime_error")
    | none => (st, "bad-op var")
  | "set", v :: f :: toks =>
    match st.var v, runP (pSetter f) toks with
    | some id, some σ =>
      let (db', r) := st.db.set hwOps id σ
      ({ st with db := db' }, resUnit r)
    | _, _ => (st, "bad-op set")
  | "t2.skew", [v] =>
    -- default grid / default main cue made different from the adjusted ones (planted on the real database too)
    match st.var v with
    | some id =>
      match st.db.get id with
      | some r =>
        let r' : Row := { r with
          beat := ({ r.beat.1 with dflt := [⟨0x40c81c8000000000, 7, 0, 0⟩] }, r.beat.2)
          cues := ({ r.cues.1 with defMain := 0x40ea862000000000 }, r.cues.2) }
        ({ st with db := st.db.put id r' }, "ok")
      | none => (st, "ok none")
    | none => (st, "bad-op var")
  | "t2.row", [v] =>
    match st.schema, st.var v with
    | some s, some id =>
      match st.db.get id with
      | some r => (st, s!"ok id={id} origin-ok uuid-ok " ++ sRow s r)
      | none => (st, "ok none")
    | _, _ => (st, "bad-op var")
  | _, _ => (st, "bad-op unknown")

def mode : Drv.Mode := Drv.mkMode "tracksv2" ({} : St) step

/-! ### Spec commands (stateless) -/

def specNorm (a : List String) : String :=
  match a with
  | sch :: toks =>
    match Schema.ofName sch, runP pSnap toks with
    | some s, some x =>
      match Spec.normalize s x with
      | some y => "ok " ++ sSnap y
      | none => "reject"
    | _, _ => "bad-op args"
  | _ => "bad-op args"

def specSet (a : List String) : String :=
  let p : P (Snap × Setter) := do
    let x ← pSnap
    let f ← tok
    let σ ← pSetter f
    pure (x, σ)
  match runP p a with
  | some (x, σ) =>
    match Spec.applySetter σ x with
    | some y => "ok " ++ sSnap y
    | none => "reject"
  | none => "bad-op args"

def toI64Cmd (a : List String) : String :=
  match a with
  | [h] => match parseHex64 h with
    | some b =>
      let m := match toI64 b with | some i => toString i | none => "none"
      let sp := match Spec.integerPart b with | some i => toString i | none => "none"
      s!"ok {m} {sp}"
    | none => "bad-op hex"
  | _ => "bad-op args"

def table (cmd : String) (args : List String) : Option String :=
  match cmd with
  | "t2.spec.norm" => some (specNorm args)
  | "t2.spec.set" => some (specSet args)
  | "t2.toi64" => some (toI64Cmd args)
  | _ => none

end Drv.T2
