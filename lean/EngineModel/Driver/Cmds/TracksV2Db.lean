/-
Driver commands of the statement-level 2.x Track table (C11, track part).
  mode `t2db` (stateful; same lines as harness/djv_db.cpp + djv_tracksv2.cpp):
     create <schema> mem|disk | mktrack <var> <snapshot> | update <var> <snapshot>
     set <var> <field> <value…> | rmtrack <var> | snap <var> | get <var> valid | t2.tracks
  stateless oracle, evaluated on the *implementation's* `t2.tracks` answer:
     t2.wf uuid=<v> seq=<v> n=<k> | <id> <path> <filename> <fileType> <originUuid> <originId> | …
        → ok | broken <which conjunct, which ids>
-/
import EngineModel.Driver.Cmds.TracksV2
import EngineModel.TracksV2.Table

open EngineModel EngineModel.Text EngineModel.TracksV2

namespace Drv.T2Db

open Drv.T2

/-- the model's stand-in for the random `Information.uuid` (printed as `UUID`; the
tie replaces the real uuid by the same token before comparing) -/
def modelUuid : Bytes := [85, 85, 73, 68]

structure St where
  schema : Option Schema := none
  db : TDb := TDb.empty modelUuid
  vars : List (String × Nat) := []

def St.var (st : St) (v : String) : Option Nat := (st.vars.find? (·.1 == v)).map (·.2)

def sText (b : Bytes) : String := "s" ++ hexBytes b

def sUuid (db : TDb) (u : Bytes) : String := if u == db.uuid then "UUID" else sText u

def sTracks (db : TDb) : String :=
  let rows := db.rows.map fun t =>
    unwords ["|", toString t.id, sText t.row.path, sText t.row.filename, sText t.row.fileType, sUuid db t.originUuid,
      toString t.originId]
  unwords (["ok", "uuid=UUID", s!"seq={if db.seq = 0 then "none" else toString db.seq}",
    s!"n={db.rows.length}"] ++ rows)

def resNat (r : Res Nat) : String := r.render fun _ => ""

def step (st : St) (cmd : String) (args : List String) : St × String :=
  match cmd, args with
  | "create", [sch, _] =>
    match Schema.ofName sch with
    | some s => ({ schema := some s, db := TDb.empty modelUuid, vars := [] }, "ok")
    | none => (st, "bad-op schema")
  | "mktrack", v :: toks =>
    match st.schema, runP pSnap toks with
    | some s, some x =>
      let (db', r) := st.db.step hwOps s (.create x)
      match r with
      | .ok id => ({ st with db := db', vars := (v, id) :: st.vars.filter (·.1 != v) }, s!"ok id={id}")
      | _ => ({ st with db := db' }, r.render fun _ => "")
    | none, _ => (st, "bad-op no database")
    | _, none => (st, "bad-op snapshot")
  | "update", v :: toks =>
    match st.schema, st.var v, runP pSnap toks with
    | some s, some id, some x =>
      let (db', r) := st.db.step hwOps s (.update id x)
      ({ st with db := db' }, resNat r)
    | _, _, _ => (st, "bad-op update")
  | "set", v :: f :: toks =>
    match st.schema, st.var v, runP (pSetter f) toks with
    | some s, some id, some σ =>
      let (db', r) := st.db.step hwOps s (.set id σ)
      ({ st with db := db' }, resNat r)
    | _, _, _ => (st, "bad-op set")
  | "rmtrack", [v] =>
    match st.schema, st.var v with
    | some s, some id =>
      let (db', r) := st.db.step hwOps s (.remove id)
      ({ st with db := db' }, resNat r)
    | _, _ => (st, "bad-op var")
  | "snap", [v] =>
    match st.var v with
    | some id =>
      match st.db.find id with
      | some t => (st, (readSnap hwOps t.row).render sSnap)
      | none => (st, "throw track_deleted")
    | none => (st, "bad-op var")
  | "get", [v, "valid"] =>
    match st.var v with
    | some id => (st, if (st.db.find id).isSome then "ok 1" else "ok 0")
    | none => (st, "bad-op var")
  | "t2.tracks", [] => (st, sTracks st.db)
  | _, _ => (st, "bad-op unknown")

def mode : Drv.Mode := Drv.mkMode "t2db" ({} : St) step

/-! ### the oracle on the implementation's raw rows -/

def pText : P Bytes := do
  let t ← tok
  if t.startsWith "s" then
    match parseHexBytes (t.drop 1).toString with
    | some b => pure b
    | none => failure
  else failure

def pKey (k : String) : P String := do
  let t ← tok
  if t.startsWith (k ++ "=") then pure (t.drop (k.length + 1)).toString else failure

def pRawRow : P TRow := do
  let bar ← tok
  if bar != "|" then failure
  let id ← pNat
  let path ← pText
  let filename ← pText
  let fileType ← pText
  let ou ← pText
  let oi ← pNat
  pure ⟨id, ou, oi, { (default : Row) with path := path, filename := filename, fileType := fileType }⟩

def pDump : P TDb := do
  let u ← pKey "uuid"
  let uuid ← match (if u.startsWith "s" then parseHexBytes (u.drop 1).toString else none) with
    | some b => pure b
    | none => failure
  let sq ← pKey "seq"
  let seq ← match (if sq = "none" then some 0 else parseNat sq) with
    | some n => pure n
    | none => failure
  let n ← pKey "n"
  let k ← match parseNat n with
    | some k => pure k
    | none => failure
  let rec go : Nat → List TRow → P (List TRow)
    | 0, acc => pure acc.reverse
    | j + 1, acc => do let r ← pRawRow; go j (r :: acc)
  let rows ← go k []
  pure ⟨uuid, seq, rows⟩

/-- which conjunct of `Spec.tracksWf` fails, for the replay text -/
def explain (db : TDb) : String :=
  let bad (p : TRow → Bool) := (db.rows.filter fun t => !p t).map fun t => toString t.id
  let parts : List (String × List String) :=
    [("filename", bad fun t => t.row.filename == Spec.fileNameOf t.row.path),
     ("fileType", bad fun t => t.row.fileType == Spec.fileTypeOf t.row.path),
     ("originDatabaseUuid", bad fun t => t.originUuid == db.uuid),
     ("originTrackId", bad fun t => t.originId == t.id),
     ("id-range", bad fun t => decide (1 ≤ t.id ∧ t.id ≤ db.seq))]
  let msgs := parts.filterMap fun (n, ids) => if ids.isEmpty then none else some (n ++ ":" ++ ",".intercalate ids)
  let msgs := if Spec.distinctBy (·.id) db.rows then msgs else msgs ++ ["duplicate-id"]
  let msgs := if Spec.distinctBy (·.row.path) db.rows then msgs else msgs ++ ["duplicate-path"]
  unwords msgs

def wfCmd (a : List String) : String :=
  match runP pDump a with
  | some db => if Spec.tracksWf db then "ok" else "broken " ++ explain db
  | none => "broken unparsable-or-null-column"

def table (cmd : String) (args : List String) : Option String :=
  match cmd with
  | "t2.wf" => some (wfCmd args)
  | _ => none

end Drv.T2Db
