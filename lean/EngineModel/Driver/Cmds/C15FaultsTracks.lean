/-
Driver mode `c15ftv2` of the C15 fault stream for schema-2.x TRACKS (tools/props/parts/C15_faults.py,
`track_stream`): the commands of `c15tv2` with the state kept as the statement-level Track table `TDb`, plus

  fault <k> <n>     arm a fault plan for the NEXT mutating call (mktrack / update / set / rmtrack): the harness fails the
                    k-th (0-based) faultable statement of the real call, `n` = the number the call was observed to
                    issue.  The model runs the call as its statement program (`Api/FaultsTracksV2.callF`) with the fault
                    at the corresponding model position (`Drv.C15Faults.mapPos`: first ↦ first, last ↦ last, the others
                    in between, k ≥ n ↦ beyond the program).
  fault.status      `ok fired=<0|1>` and disarm

Every mutating call — armed or not — goes through `callF` on the `TDb` (no plan = `TDb.step`); every other command
(getters, snapshot, is_valid, db.q …) is answered by mode `c15tv2` (`GuardedTracksV2.stepG` / `callG`) on `view` of
the table — the two sides of `v2t_C15_bridge`.
-/
import EngineModel.Driver.Cmds.C15Faults
import EngineModel.Api.FaultsTracksV2

open EngineModel EngineModel.Text

namespace Drv.C15FaultsTracks
open EngineModel.TracksV2 EngineModel.Api.FaultsTracksV2 Drv.C15Faults

structure St where
  base : Drv.T2.St := {}
  tdb : TDb := TDb.empty [117]
  armed : Option Armed := none
  fired : Bool := false

/-- the mutating commands: operation and the variable a `mktrack` binds -/
def parseOp (b : Drv.T2.St) (cmd : String) (args : List String) : Option (TOp × Option String) :=
  match cmd, args with
  | "mktrack", v :: toks => (runP Drv.T2.pSnap toks).map fun x => (.create x, some v)
  | "update", v :: toks =>
    match b.var v, runP Drv.T2.pSnap toks with
    | some id, some x => some (.update id x, none)
    | _, _ => none
  | "set", v :: f :: toks =>
    match b.var v, runP (Drv.T2.pSetter f) toks with
    | some id, some σ => some (.set id σ, none)
    | _, _ => none
  | "rmtrack", [v] => (b.var v).map fun id => (.remove id, none)
  | _, _ => none

def step (st : St) (cmd : String) (args : List String) : St × String :=
  match cmd, args with
  | "fault", k :: n :: _ =>
    match k.toNat?, n.toNat? with
    | some k, some n => ({ st with armed := some ⟨k, n⟩, fired := false }, "ok")
    | _, _ => (st, "bad-op args")
  | "fault.status", [] => ({ st with armed := none }, s!"ok fired={if st.fired then 1 else 0}")
  | "create", _ =>
    let (b, txt) := Drv.C15.TV2.step st.base cmd args
    ({ base := b, tdb := TDb.empty [117], armed := none, fired := false }, txt)
  | _, _ =>
    match st.base.schema, parseOp st.base cmd args with
    | some s, some (op, bv) =>
      let d := st.tdb
      let m := positions Drv.T2.hwOps s d op
      let (plan, armed', fired') : Option Plan × Option Armed × Bool :=
        match st.armed with
        | some a =>
          let k' := mapPos a.k a.n m
          -- the injected fault is one-shot: spent once a faultable statement ran past it
          (some ⟨k', false⟩, if k' < m then none else st.armed, k' < m)
        | none => (none, none, st.fired)
      let (d', r) := callF Drv.T2.hwOps s d op plan
      let b := { st.base with db := view d' }
      let b := match r, bv with
        | .ok i, some v => { b with vars := (v, i) :: b.vars.filter (·.1 != v) }
        | _, _ => b
      ({ base := b, tdb := d', armed := armed', fired := fired' }, Drv.C15.TV2.outText (mapRes (outOf op) r))
    | _, _ =>
      -- a query: answered by `c15tv2` on the row store; the table is not touched
      let (b, txt) := Drv.C15.TV2.step { st.base with db := view st.tdb } cmd args
      ({ st with base := { b with db := view st.tdb } }, txt)

def mode : Drv.Mode := Drv.mkMode "c15ftv2" ({} : St) step

def modes : List Drv.Mode := [mode]

end Drv.C15FaultsTracks
