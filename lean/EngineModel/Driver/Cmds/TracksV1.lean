/-
Driver side of the schema-1.x track commands (mirror of harness/djv_db.cpp's
`create / mktrack / update / snap / get / set` and harness/djv_tracksv1.cpp):
stateful mode `tracksv1` running the Model, plus stateless Spec commands
`v1spec.normalize` / `v1spec.normfield` / `v1spec.putfield` used by the direct
oracle.  After every state-changing command the mode re-checks, on the rows of
the track concerned, that the value-level codec model agrees with the
byte-level one and that the invariant `Inv` of the C06 theorems holds.
-/
import EngineModel.Driver.Loop
import EngineModel.Driver.Values
import EngineModel.TracksV1.SpecFields
import EngineModel.TracksV1.SpecLens
import EngineModel.TracksV1.Accept
import EngineModel.TracksV1.SpecLink
import EngineModel.TracksV1.Txn

namespace Drv
namespace TracksV1
open EngineModel EngineModel.Text EngineModel.TracksV1
open EngineModel.Impl.V1 (GMarker HotCue LoopV Entry Wave Beat Cues Loops)

/-- Hardware doubles for the opaque operations. -/
def fops : Fl.FOps where
  ofI64 i := (Int64.ofInt i).toFloat.toBits
  ofU64 n := (UInt64.ofNat n).toFloat.toBits
  div a b := (Float.ofBits a / Float.ofBits b).toBits
  ceil a := (Float.ofBits a).ceil.toBits

/-! ### text forms -/

def pOStr : P (Option Bytes) := do
  let t ← tok
  if t = "none" then pure none else
  match t.toList with
  | 's' :: rest =>
    match parseHexBytes (String.ofList rest) with
    | some b => pure (some b)
    | none => failure
  | _ => failure

def sOStr : Option Bytes → String
  | none => "none"
  | some b => "s" ++ hexBytes b

def low32 (x : UInt64) : UInt32 := UInt32.ofNat (x.toNat % 4294967296)
def pOInt : P (Option UInt32) := do let v ← pOpt pI64; pure (v.map low32)
def sOI32 : Option UInt32 → String
  | none => "none" | some x => showI32 x
def sOI64 : Option UInt64 → String
  | none => "none" | some x => showI64 x
def sOU64 : Option UInt64 → String
  | none => "none" | some x => toString x.toNat
def pOU64 : P (Option UInt64) := do
  let t ← tok
  if t = "none" then pure none else
  match t.toNat? with
  | some n => if n < 18446744073709551616 then pure (some (UInt64.ofNat n)) else failure
  | none => failure

def pWf : P (List Entry) := do
  let b ← pBytes
  match entriesOfBytes b with
  | some es => pure es
  | none => failure
def sWf (w : List Entry) : String := hexBytes (bytesOfEntries w)

def pCueList : P (List (Option HotCue)) := pList (pSomeNone pHotCue)
def pLoopList : P (List (Option LoopV)) := pList (pSomeNone pLoopV)

def pSnap : P Snap := do
  let album ← pOStr; let artist ← pOStr; let loud ← pOpt pF; let grid ← pList pGMarker
  let bitrate ← pOInt; let bpm ← pOpt pF; let comment ← pOStr; let composer ← pOStr
  let duration ← pOpt pI64; let fileBytes ← pOpt pI64; let genre ← pOStr
  let cues ← pCueList; let key ← pOInt; let last ← pOpt pI64; let loops ← pLoopList
  let mainCue ← pOpt pF; let publisher ← pOStr; let rating ← pOInt; let path ← pOStr
  let sc ← pOU64; let sr ← pOpt pF; let title ← pOStr; let tn ← pOInt; let wf ← pWf; let year ← pOInt
  pure ⟨album, artist, loud, grid, bitrate, bpm, comment, composer, duration, fileBytes, genre, cues, key,
    last, loops, mainCue, publisher, rating, path, sc, sr, title, tn, wf, year⟩

def sSnap (x : Snap) : String :=
  unwords [sOStr x.album, sOStr x.artist, sOptF x.averageLoudness, sList sGMarker x.beatgrid, sOI32 x.bitrate,
    sOptF x.bpm, sOStr x.comment, sOStr x.composer, sOI64 x.duration, sOU64 x.fileBytes, sOStr x.genre,
    sList sOptCue x.hotCues, sOI32 x.key, sOI64 x.lastPlayedAt, sList sOptLoop x.loops, sOptF x.mainCue,
    sOStr x.publisher, sOI32 x.rating, sOStr x.relativePath, sOU64 x.sampleCount, sOptF x.sampleRate,
    sOStr x.title, sOI32 x.trackNumber, sWf x.waveform, sOI32 x.year]

/-! ### raw rows (format of `raw_query` in the harness) -/

def cI : Option Int → String
  | none => "null" | some i => toString i
def cS : Option Bytes → String
  | none => "null" | some b => "s" ++ hexBytes b
def cF : Option Bits → String
  | none => "null" | some b => "f" ++ hex64 b

def tuple (cells : List String) : String := "(" ++ ",".intercalate cells ++ ")"

def insertSorted {β} (e : Int × β) : List (Int × β) → List (Int × β)
  | [] => [e]
  | h :: t => if e.1 < h.1 then e :: h :: t else h :: insertSorted e t
def sortByKey {β} (l : List (Int × β)) : List (Int × β) := l.foldl (fun acc e => insertSorted e acc) []

def rowsText {β} (f : Option β → String) (l : List (Int × Option β)) : String :=
  if l.isEmpty then "()" else String.join ((sortByKey l).map fun e => tuple [toString e.1, f e.2])

def sRows (s : Schema) (r : TrackRows) : String :=
  let t := r.track
  let tcells := [cI t.playOrder, cI t.length, cI t.lengthCalculated, cI t.bpm, cI t.year, cS t.path, cS t.filename,
    cI t.bitrate, cF t.bpmAnalyzed, cI t.trackType, cI t.isExternalTrack, cS t.uuidOfExternalDatabase,
    cI t.idTrackInExternalDatabase, cI t.idAlbumArt] ++
    (if s.ge .s1_7_1 then [cI t.pdbImportKey] else []) ++
    (if s.ge .s1_15_0 then [cI t.fileBytes, cS t.uri] else []) ++
    (if s.ge .s1_18_0_desktop then [cI t.isBeatGridLocked] else [])
  let p := match r.perf with
    | none => "P() noperf"
    | some p =>
      "P" ++ tuple ([toString p.isAnalyzed, toString p.isRendered, cI p.hasSerato] ++
        (if s.ge .s1_7_1 then [cI p.hasRekordbox] else []) ++
        (if s.ge .s1_11_1 then [cI p.hasTraktor] else [])) ++
      " td{" ++ sTrack1 p.trackData ++ "} hi{" ++ sWave p.hires ++ "} ov{" ++ sWave p.overview ++
      "} bt{" ++ sBeat1 p.beat ++ "} qc{" ++ sCues1 p.cues ++ "} lp{" ++ sLoops1 p.loops ++ "}"
  "T" ++ tuple tcells ++ " M" ++ rowsText cS r.mstr ++ " I" ++ rowsText cI r.mint ++ " " ++ p

/-! ### cross-check of the value-level codec effect against the byte-level codec model -/

def viaBytes {α} (enc : α → Res Bytes) (dec : Bytes → Res α) (v : α) : Res α := (enc v).bind dec

def codecAgree (p : PerfRow) : Bool :=
  (viaBytes Impl.V1.encodeTrack Impl.V1.decodeTrack p.trackData == .ok p.trackData) &&
  (viaBytes Impl.V1.encodeBeat Impl.V1.decodeBeat p.beat == .ok p.beat) &&
  (viaBytes Impl.V1.encodeCues Impl.V1.decodeCues p.cues == .ok p.cues) &&
  (viaBytes Impl.V1.encodeLoops Impl.V1.decodeLoops p.loops == .ok p.loops) &&
  (viaBytes Impl.V1.encodeHires Impl.V1.decodeHires p.hires == .ok p.hires) &&
  (viaBytes Impl.V1.encodeOvw Impl.V1.decodeOvw p.overview == .ok p.overview)

/-! ### fields on the line protocol -/

def fieldOfName (n : String) (idx : Option UInt32) : Option Field :=
  match n, idx with
  | "album", none => some .album | "artist", none => some .artist
  | "average_loudness", none => some .averageLoudness | "beatgrid", none => some .beatgrid
  | "bitrate", none => some .bitrate | "bpm", none => some .bpm | "comment", none => some .comment
  | "composer", none => some .composer | "duration", none => some .duration | "genre", none => some .genre
  | "hot_cues", none => some .hotCues | "hot_cue_at", some i => some (.hotCueAt i)
  | "key", none => some .key | "last_played_at", none => some .lastPlayedAt | "loops", none => some .loops
  | "loop_at", some i => some (.loopAt i) | "main_cue", none => some .mainCue
  | "publisher", none => some .publisher | "rating", none => some .rating
  | "relative_path", none => some .relativePath | "sample_count", none => some .sampleCount
  | "sample_rate", none => some .sampleRate | "title", none => some .title
  | "track_number", none => some .trackNumber | "waveform", none => some .waveform | "year", none => some .year
  | _, _ => none

def showVal : (f : Field) → f.ty → String
  | .album, v | .artist, v | .comment, v | .composer, v | .genre, v | .publisher, v | .title, v => sOStr v
  | .averageLoudness, v | .bpm, v | .mainCue, v | .sampleRate, v => sOptF v
  | .beatgrid, g => sList sGMarker g
  | .bitrate, v | .key, v | .rating, v | .trackNumber, v | .year, v => sOI32 v
  | .duration, v | .lastPlayedAt, v => sOI64 v
  | .sampleCount, v => sOU64 v
  | .hotCues, cs => sList sOptCue cs
  | .hotCueAt _, q => sOptCue q
  | .loops, ls => sList sOptLoop ls
  | .loopAt _, l => sOptLoop l
  | .relativePath, p => hexBytes p
  | .waveform, w => sWf w

def parseVal : (f : Field) → P f.ty
  | .album | .artist | .comment | .composer | .genre | .publisher | .title => pOStr
  | .averageLoudness | .bpm | .mainCue | .sampleRate => pOpt pF
  | .beatgrid => pList pGMarker
  | .bitrate | .key | .rating | .trackNumber | .year => pOInt
  | .duration | .lastPlayedAt => pOpt pI64
  | .sampleCount => pOU64
  | .hotCues => pCueList
  | .hotCueAt _ => pSomeNone pHotCue
  | .loops => pLoopList
  | .loopAt _ => pSomeNone pLoopV
  | .relativePath => pBytes
  | .waveform => pWf

def isSlot (n : String) : Bool := n == "hot_cue_at" || n == "loop_at"

/-- `<field> [index] rest…` → field and remaining tokens. -/
def splitField (toks : List String) : Option (Field × List String) :=
  match toks with
  | n :: rest =>
    if isSlot n then
      match rest with
      | i :: rest' => do
        let v ← parseI64 i
        let f ← fieldOfName n (some (low32 v))
        pure (f, rest')
      | [] => none
    else (fieldOfName n none).map fun f => (f, rest)
  | [] => none

/-! ### the stateful mode -/

structure St where
  db : Option Db := none
  vars : List (String × Int) := []
  fault : Option Nat := none     -- `fault k`: the next create_track / update runs statement by statement (Txn.lean)
  fired : Bool := false

def lookupVar (st : St) (v : String) : Option Int := (st.vars.find? (·.1 == v)).map (·.2)

def bad (st : St) (why : String) : St × String := (st, "bad-op " ++ why)

/-- `expectClean`: the theorems (`v1_C06_clean_db`) say the rows written must be `Clean` — after
`create_track` / `update` from a snapshot without NaN and after a setter call on clean rows.  With hardware
doubles for `FOps` this samples the hypothesis `FloatLaw` (which is assumed, not proved, of the hardware). -/
def checkCodec (d : Db) (id : Int) (expectClean : Bool := false) : Option String :=
  match d.rows id with
  | some r =>
    if !Inv r then some "bad-op invariant-broken" else
    if expectClean && !Clean r then some "bad-op clean-broken" else
    match r.perf with
    | some p => if codecAgree p then none else some "bad-op codec-mismatch"
    | none => none
  | none => none

def finishDb (st : St) (d : Db) (id : Int) (msg : String) (expectClean : Bool := false) : St × String :=
  match checkCodec d id expectClean with
  | some e => ({ st with db := some d }, e)
  | none => ({ st with db := some d }, msg)

def rowsClean (d : Db) (id : Int) : Bool :=
  match d.rows id with
  | some r => Clean r
  | none => true

/-- One instance of each law of `FloatLaw` on the hardware doubles. -/
def floatLawAt (b : Bits) (n : Nat) : Bool :=
  (!Fl.absLt63 b || (Fl.toI64 (fops.ceil b)).isSome) &&
  !F64.isNaN (fops.ofU64 n) &&
  (n == 0 || decide (18446744073709551616 ≤ n) || !F64.isZero (fops.ofU64 n)) &&
  !F64.isNaN (fops.ofI64 (Int.ofNat n)) && !F64.isNaN (fops.ofI64 (-(Int.ofNat n))) &&
  !F64.isNaN (fops.div (fops.ofU64 n) (fops.ofU64 1024))

def step (st : St) (cmd : String) (args : List String) : St × String :=
  match cmd, args with
  | "create", [sch, _] =>
    match Schema.ofName sch with
    | some s => ({ db := some ⟨s, []⟩, vars := [] }, "ok")
    | none => bad st "schema"
  | "fault", [k] =>
    match k.toNat? with
    | some n => ({ st with fault := some n, fired := false }, "ok")
    | none => bad st "fault"
  | "fault.status", [] =>
    ({ st with fault := none, fired := false }, "ok fired=" ++ (if st.fired then "1" else "0"))
  | "mktrack", v :: toks =>
    match st.db, runP pSnap toks with
    | some d, some x =>
      -- under `fault k`: the statement-level run; what it leaves is what `v1_C01_txn_create` says
      match st.fault, prepare fops x with
      | some k, .ok pr =>
        let id := nextId d
        let out := EngineModel.Spec.Txn.call (some k) false (writeCmds fops d.schema x pr id false) d
        let fired := out.trace.any (·.injected)
        let st1 := { st with fired := fired, db := some out.conn.committed }
        if out.raised then
          if fired then (st1, "throw sqlite_error") else
          match dbCreate fops d x with
          | .throw e => (st1, "throw " ++ e.toString)
          | _ => (st1, "bad-op txn-mismatch")
        else
          match dbCreate fops d x with
          | .ok (d', id') =>
            if id' = id && d'.tracks.length = out.conn.committed.tracks.length then
              finishDb { st1 with vars := (v, id) :: st.vars.filter (·.1 != v) } out.conn.committed id
                ("ok id=" ++ toString id) (Spec.NoNaN x)
            else (st1, "bad-op txn-mismatch")
          | _ => (st1, "bad-op txn-mismatch")
      | _, _ =>
      match dbCreate fops d x with
      | .ok (d', id) =>
        let st' := { st with vars := (v, id) :: st.vars.filter (·.1 != v) }
        finishDb st' d' id ("ok id=" ++ toString id) (Spec.NoNaN x)
      | .throw e => (st, "throw " ++ e.toString)
      | .ub u => (st, "ub " ++ u.toString)
    | _, _ => bad st "mktrack"
  | "update", v :: toks =>
    match st.db, lookupVar st v, runP pSnap toks with
    | some d, some id, some x =>
      match st.fault, prepare fops x with
      | some k, .ok pr =>
        let out := EngineModel.Spec.Txn.call (some k) false (writeCmds fops d.schema x pr id true) d
        let fired := out.trace.any (·.injected)
        let st1 := { st with fired := fired, db := some out.conn.committed }
        if out.raised then
          if fired then (st1, "throw sqlite_error") else
          match dbUpdate fops d id x with
          | .throw e => (st1, "throw " ++ e.toString)
          | _ => (st1, "bad-op txn-mismatch")
        else
          match dbUpdate fops d id x with
          | .ok d' =>
            if d'.rows id == out.conn.committed.rows id then finishDb st1 out.conn.committed id "ok" (Spec.NoNaN x)
            else (st1, "bad-op txn-mismatch")
          | _ => (st1, "bad-op txn-mismatch")
      | _, _ =>
      match dbUpdate fops d id x with
      | .ok d' => finishDb st d' id "ok" (Spec.NoNaN x)
      | .throw e => (st, "throw " ++ e.toString)
      | .ub u => (st, "ub " ++ u.toString)
    | _, _, _ => bad st "update"
  | "snap", [v] =>
    match st.db, lookupVar st v with
    | some d, some id => (st, (dbSnap fops d id).render sSnap)
    | _, _ => bad st "snap"
  | "v1.reupdate", [v] =>
    match st.db, lookupVar st v with
    | some d, some id =>
      match dbSnap fops d id with
      | .ok s1 =>
        match dbUpdate fops d id s1 with
        | .ok d' =>
          let (st', msg) := finishDb st d' id ""
          if msg.isEmpty then (st', (dbSnap fops d' id).render sSnap) else (st', msg)
        | .throw e => (st, "throw " ++ e.toString)
        | .ub u => (st, "ub " ++ u.toString)
      | .throw e => (st, "throw " ++ e.toString)
      | .ub u => (st, "ub " ++ u.toString)
    | _, _ => bad st "reupdate"
  | "v1.rows", [v] =>
    match st.db, lookupVar st v with
    | some d, some id =>
      match d.rows id with
      | some r => (st, "ok " ++ sRows d.schema r)
      | none => bad st "rows"
    | _, _ => bad st "rows"
  | "v1.rmperf", [v] =>
    match st.db, lookupVar st v with
    | some d, some id =>
      match d.rows id with
      | some r => ({ st with db := some { d with tracks := aset id { r with perf := none } d.tracks } }, "ok")
      | none => bad st "rmperf"
    | _, _ => bad st "rmperf"
  | "v1.skewgrid", [v] =>
    -- default grid made different from the adjusted one (as Engine does when a grid is adjusted)
    match st.db, lookupVar st v with
    | some d, some id =>
      match d.rows id with
      | some r =>
        match r.perf with
        | some p =>
          let dflt : List GMarker := if p.beat.adj.isEmpty then [⟨0, 0⟩, ⟨4, 0x40f5888000000000⟩] else []
          let r' := { r with perf := some { p with beat := { p.beat with dflt := dflt } } }
          finishDb st { d with tracks := aset id r' d.tracks } id "ok"
        | none => (st, "ok")
      | none => bad st "skewgrid"
    | _, _ => bad st "skewgrid"
  | "rmtrack", [v] =>
    match st.db, lookupVar st v with
    | some d, some id =>
      ({ st with db := some (dbRemove d id) }, "ok")
    | _, _ => bad st "rmtrack"
  | "get", v :: toks =>
    match st.db, lookupVar st v with
    | some d, some id =>
      match toks with
      | ["valid"] => (st, if dbIsValid d id then "ok 1" else "ok 0")
      | ["filename"] =>
        (st, match d.rows id with
          | some r => "ok " ++ hexBytes (getDerived r .filename)
          | none => "throw track_deleted")
      | ["file_extension"] =>
        (st, match d.rows id with
          | some r => "ok " ++ hexBytes (getDerived r .fileExtension)
          | none => "throw track_deleted")
      | _ =>
        match splitField toks with
        | some (f, []) => (st, (dbGet fops d id f).render (showVal f))
        | _ => bad st "get"
    | _, _ => bad st "get"
  | "set", v :: toks =>
    match st.db, lookupVar st v with
    | some d, some id =>
      match splitField toks with
      | some (f, rest) =>
        match runP (parseVal f) rest with
        | some val =>
          -- `v1_C06_accepts`: on clean rows the explicit guard decides the outcome
          let cl := rowsClean d id
          let acc := accepts d id f val
          match dbSet fops d id f val with
          | .ok d' => if cl && !acc then (st, "bad-op accepts-mismatch") else finishDb st d' id "ok" cl
          | .throw e => if cl && acc then (st, "bad-op accepts-mismatch") else (st, "throw " ++ e.toString)
          | .ub u => (st, "ub " ++ u.toString)
        | none => bad st "set value"
      | none => bad st "set field"
    | _, _ => bad st "set"
  | _, _ => bad st "unknown"

def mode : Mode := mkMode "tracksv1" ({} : St) step

/-! ### stateless Spec commands (direct oracle) -/

def specTable (cmd : String) (args : List String) : Option String :=
  match cmd, args with
  | "v1spec.normalize", sch :: toks =>
    some <| match Schema.ofName sch, runP pSnap toks with
      | some s, some x =>
        match Spec.normalize s x with
        | some y => "ok " ++ sSnap y
        | none => "ok reject"
      | _, _ => "bad-op v1spec.normalize"
  | "v1spec.normfield", toks =>
    some <| match splitField toks with
      | some (f, rest) =>
        match runP (parseVal f) rest with
        | some v =>
          match Spec.normField f v with
          | some w => "ok " ++ showVal f w
          | none => "ok reject"
        | none => "bad-op v1spec.normfield value"
      | none => "bad-op v1spec.normfield field"
  | "v1spec.putfield", toks =>
    -- the C06 lens on a snapshot: `<field> [index] <value> <snapshot>` → the snapshot after an accepted call
    some <| match splitField toks with
      | some (f, rest) =>
        match runP (do let v ← parseVal f; let y ← pSnap; pure (v, y)) rest with
        | some (v, y) =>
          match Spec.normField f v with
          | some w => "ok " ++ sSnap (Spec.putField y f w)
          | none => "ok reject"
        | none => "bad-op v1spec.putfield value"
      | none => "bad-op v1spec.putfield field"
  | "v1spec.normalizenan", sch :: toks =>
    -- `normalize` extended to NaN (what the library does, `v1_C01_nan_total`)
    some <| match Schema.ofName sch, runP pSnap toks with
      | some s, some x =>
        match Spec.normalizeNaN s x with
        | some y => "ok " ++ sSnap y
        | none => "ok reject"
      | _, _ => "bad-op v1spec.normalizenan"
  | "v1spec.accepts", an :: toks =>
    -- the value/row part of `Spec.callAccepted`: `<is-analysed 0|1> <field> [index] <value>`
    some <| match splitField toks with
      | some (f, rest) =>
        match runP (parseVal f) rest with
        | some v => if (!f.blobSetter || an == "1") && valueOk f v then "ok 1" else "ok 0"
        | none => "bad-op v1spec.accepts value"
      | none => "bad-op v1spec.accepts field"
  | "v1spec.floatlaw", [b, n] =>
    some <| match parseHex64 b, n.toNat? with
      | some bb, some nn => if floatLawAt bb nn then "ok 1" else "ok 0"
      | _, _ => "bad-op v1spec.floatlaw"
  | "v1spec.nonan", toks =>
    some <| match runP pSnap toks with
      | some x => if Spec.NoNaN x then "ok 1" else "ok 0"
      | none => "bad-op v1spec.nonan"
  | _, _ => none

end TracksV1
end Drv
