/-
Stateful driver mode `cratesv2spec`: the DIRECT ORACLE of C07/C08/C09/C11 (2.x).
It does not run the Model.  It is fed, line by line, the command that was given
to the real library together with the real library's answer
(`<command …> => <answer …>`), keeps the Spec state (Spec.Forest, Spec.Members,
the last observed ordered listings) and says `ok` or `VIOLATION <what>`:

* an operation line: the outcome (returned / threw) must be allowed by the
  Spec's verdict; a reported new id must be fresh;
* a `v2.obs` line: every component of the library's own answer is compared with
  the corresponding Spec query (C07: structure and lookups; C08: contents;
  C09: each ordered listing is duplicate-free and differs from the previous
  observation exactly by the change the property prescribes for the last op);
* a `v2.raw` line: the executable well-formedness predicate `wfRaw` (C11, 2.x
  part) is evaluated on the dumped rows;
* `pe.*` lines: the table-level entry lists against an ordered-list spec.
-/
import EngineModel.Driver.Loop
import EngineModel.Driver.Text
import EngineModel.Spec.Forest
import EngineModel.Spec.Members
import EngineModel.Spec.Ordered
import EngineModel.Db.V2Crates
import EngineModel.Db.V2Wf
import EngineModel.Spec.SqlCanon

open EngineModel EngineModel.Text EngineModel.Spec

namespace Drv.CratesV2Spec

open Ordered (Change)

structure St where
  f : Forest.Forest := Forest.empty
  m : Members.State := Members.empty
  cr : List (String × Int) := []
  tr : List (String × Int) := []
  kids : List (Int × List Int) := []      -- last observed ordered listing per key (0 = roots)
  ents : List (Int × List Int) := []      -- last observed ordered contents per crate
  pendK : List (Int × Change) := []
  pendE : List (Int × Change) := []
  opsSinceObs : Nat := 0
  lists : List (Int × List (Int × Int × Int)) := []   -- table level: list ↦ (entity, track, database uuid tag) in order
  deriving Inhabited

def lookupD {β} (l : List (Int × β)) (k : Int) (d : β) : β := ((l.find? (·.1 == k)).map (·.2)).getD d
def setK {β} (l : List (Int × β)) (k : Int) (v : β) : List (Int × β) := (l.filter (·.1 != k)) ++ [(k, v)]
def bindVar (m : List (String × Int)) (v : String) (i : Int) : List (String × Int) := (m.filter (·.1 != v)) ++ [(v, i)]
def sortInts (l : List Int) : List Int := l.mergeSort (· ≤ ·)
def keyOf : Option Int → Int
  | none => 0
  | some p => p

abbrev M := Except String

def parseIds (s : String) : M (List Int) :=
  if !(s.startsWith "[" && s.endsWith "]") then throw s!"unparsable list {s}" else
  let body := ((s.drop 1).dropEnd 1).toString
  if body.isEmpty then pure [] else
  (body.splitOn ",").mapM fun t => match t.toInt? with
    | some i => pure i
    | none => throw s!"unparsable id {t}"

def parseOptId (s : String) : M (Option Int) :=
  if s == "none" then pure none else match s.toInt? with
    | some i => pure (some i)
    | none => throw s!"unparsable id {s}"

def parseName (s : String) : M Bytes :=
  match parseHexBytes s with
  | some b => pure b
  | none => throw s!"unparsable name {s}"

def field (pfx tok : String) : M String :=
  if tok.startsWith pfx then pure (tok.drop pfx.length).toString else throw s!"expected {pfx}… got {tok}"

/-- `ok id=N` -/
def parseNewId (ans : List String) : Option Int :=
  match ans with
  | ["ok", t] => if t.startsWith "id=" then (t.drop 3).toString.toInt? else none
  | _ => none

def succeeded (ans : List String) : M Bool :=
  match ans with
  | "ok" :: _ => pure true
  | "throw" :: _ => pure false
  | _ => throw s!"the call neither returned nor threw a std::exception: {" ".intercalate ans}"

def showVerdict : Forest.Verdict → String
  | .accept _ => "must succeed"
  | .reject => "must be rejected"
  | .either _ => "may succeed or be rejected"

/-- One crate operation against Spec.Forest. -/
def forestOp (st : St) (op : Forest.Op) (newId : Int) (ok : Bool) (downgrade : Bool := false) : M St := do
  let v := Forest.step st.f op newId
  let v := if downgrade then (match v with | .accept f' => .either f' | v => v) else v
  match v.next st.f ok with
  | none => throw s!"C07: the call {if ok then "succeeded" else "was rejected"} but {showVerdict v}"
  | some f' => pure { st with f := f' }

def membersOp (st : St) (op : Members.Op) (ok : Bool) : M St := do
  let v := Members.step st.m op
  match v.next st.m ok with
  | none => throw s!"C08: the call {if ok then "succeeded" else "was rejected"} but the membership spec demands the opposite"
  | some m' => pure { st with m := m' }

def pendKids (st : St) (k : Int) (c : Change) : St := { st with pendK := setK st.pendK k c }
def pendEnts (st : St) (k : Int) (c : Change) : St := { st with pendE := setK st.pendE k c }

def crVar (st : St) (v : String) : M Int :=
  match st.cr.find? (·.1 == v) with
  | some (_, i) => pure i
  | none => throw s!"unbound crate variable {v}"
def trVar (st : St) (v : String) : M Int :=
  match st.tr.find? (·.1 == v) with
  | some (_, i) => pure i
  | none => throw s!"unbound track variable {v}"

def create (st : St) (v : String) (parent : Option Int) (name : Bytes) (after : Option Int) (ans : List String) : M St := do
  let ok ← succeeded ans
  let newId := (parseNewId ans).getD 0
  if ok && (parseNewId ans).isNone then throw "creation returned no id"
  if ok && !Forest.freshId st.f newId then throw s!"C07: new crate id {newId} collides with a live crate"
  if ok && newId ≤ 0 then throw s!"C07: new crate id {newId} is not positive"
  let op := match parent with
    | none => Forest.Op.createRoot name
    | some p => Forest.Op.createSub p name
  let sibs := st.f.childrenOpt parent
  let afterOk := match after with
    | none => true
    | some a => sibs.contains a
  let st' ← forestOp st op newId ok (downgrade := !afterOk)
  if !ok then pure st' else
  let st' ← membersOp st' (.newCrate newId) true
  let st' := { st' with cr := bindVar st'.cr v newId }
  let ch := match after with
    | some a => if afterOk then Change.insertedAfter a newId else Change.inserted newId
    | none => Change.inserted newId
  pure (pendKids st' (keyOf parent) ch)

def opLine (st : St) (cmd : List String) (ans : List String) : M St := do
  let st := { st with opsSinceObs := st.opsSinceObs + 1 }
  match cmd with
  | ["mkroot", v, n] => create st v none (← parseName n) none ans
  | ["mkroot_after", v, n, a] => create st v none (← parseName n) (some (← crVar st a)) ans
  | ["mksub", v, p, n] => create st v (some (← crVar st p)) (← parseName n) none ans
  | ["mksub_after", v, p, n, a] => create st v (some (← crVar st p)) (← parseName n) (some (← crVar st a)) ans
  | ["rename", v, n] =>
    let c ← crVar st v
    forestOp st (.rename c (← parseName n)) 0 (← succeeded ans)
  | ["setparent", v, p] =>
    let c ← crVar st v
    let p ← (if p == "-" then pure none else do pure (some (← crVar st p)))
    let ok ← succeeded ans
    let oldp := st.f.parentOf c
    let st' ← forestOp st (.setParent c p) 0 ok
    if ok && oldp != p then
      pure (pendKids (pendKids st' (keyOf oldp) (.erased c)) (keyOf p) (.inserted c))
    else pure st'
  | ["rmcrate", v] =>
    let c ← crVar st v
    let ok ← succeeded ans
    let wasLive := st.f.live c
    let gone := c :: st.f.descendants c
    let oldp := st.f.parentOf c
    let st' ← forestOp st (.remove c) 0 ok
    if ok && wasLive then
      let st' ← membersOp st' (.dropCrates gone) true
      let st' := pendKids st' (keyOf oldp) (.erased c)
      let st' := gone.foldl (fun s g => pendEnts (pendKids s g .dropped) g .dropped) st'
      pure st'
    else pure st'
  | ["v2.mktrack", v, _] =>
    let ok ← succeeded ans
    if !ok then throw "C08: creating a track from a valid snapshot failed"
    match parseNewId ans with
    | none => throw "track creation returned no id"
    | some t =>
      if st.m.tracks.contains t then throw s!"C08: new track id {t} collides with a live track"
      let st' ← membersOp st (.newTrack t) true
      pure { st' with tr := bindVar st'.tr v t }
  | ["rmtrack", v] =>
    let t ← trVar st v
    let ok ← succeeded ans
    let wasLive := st.m.tracks.contains t
    let st' ← membersOp st (.dropTrack t) ok
    if ok && wasLive then
      pure (st'.m.crates.foldl (fun s c => if (Members.tracksOf st.m c).contains t then pendEnts s c (.erased t) else s) st')
    else pure st'
  | ["getcrate", v, i] =>
    match i.toInt?, ans with
    | some i, ["ok", "none"] =>
      if st.f.live i then throw s!"C07: crate_by_id({i}) found nothing for a live crate" else pure st
    | some i, _ =>
      if parseNewId ans == some i && st.f.live i then pure { st with cr := bindVar st.cr v i }
      else throw s!"C07: crate_by_id({i}) returned a crate that is not live"
    | none, _ => throw "bad id"
  | ["addforeign", _, _, _] =>
    -- an entry of another database: no membership of this library changes, no listing of the crate API either
    let _ ← succeeded ans
    pure st
  | [c0, cv, tv] =>
    if c0 == "addtrack" || c0 == "addtrackid" then
      let c ← crVar st cv
      let t ← (if c0 == "addtrack" then trVar st tv else match tv.toInt? with
        | some t => pure t
        | none => throw "bad id")
      let ok ← succeeded ans
      let st' ← membersOp st (.add c t) ok
      if ok && st.m.crates.contains c && st.m.tracks.contains t && !(st.m.pairs.contains (c, t)) then
        pure (pendEnts st' c (.appended t))
      else pure st'
    else if c0 == "rmtrackfrom" then
      let c ← crVar st cv
      let t ← trVar st tv
      let ok ← succeeded ans
      let st' ← membersOp st (.remove c t) ok
      if ok && st.m.pairs.contains (c, t) then pure (pendEnts st' c (.erased t)) else pure st'
    else throw s!"unknown command {c0}"
  | ["cleartracks", cv] =>
    let c ← crVar st cv
    let ok ← succeeded ans
    let st' ← membersOp st (.clear c) ok
    if ok && st.m.crates.contains c then pure (pendEnts st' c .dropped) else pure st'
  | _ => throw s!"unknown command {" ".intercalate cmd}"

def checkListing (what : String) (pend : List (Int × Change)) (prev : List (Int × List Int)) (k : Int)
    (now : List Int) (check : Bool) : M Unit := do
  if !Ordered.nodup now then throw s!"C09: {what} of {k} lists an item twice: {now}"
  if check then
    let ch := lookupD pend k Change.same
    let old := lookupD prev k []
    if !ch.holds old now then
      throw s!"C09: {what} of {k} went from {old} to {now}, but the last operation prescribes {repr ch}"

def setEq (a b : List Int) : Bool := sortInts a == sortInts b

/-- A `v2.obs` answer against the Spec. -/
def obsLine (st : St) (ans : List String) : M St := do
  match ans with
  | "ok" :: cratesT :: rootsT :: rest =>
    let f := st.f
    let check := st.opsSinceObs ≤ 1
    let crates ← parseIds (← field "crates=" cratesT)
    if crates != Forest.sortIds f.ids then throw s!"C07: crates() = {crates}, live crates are {Forest.sortIds f.ids}"
    let roots ← parseIds (← field "roots=" rootsT)
    if !setEq roots f.roots then throw s!"C07: root_crates() = {roots}, parentless crates are {f.roots}"
    checkListing "root_crates()" st.pendK st.kids 0 roots check
    let mut kids : List (Int × List Int) := [(0, roots)]
    let mut ents : List (Int × List Int) := []
    let mut rest := rest
    for c in f.crates.mergeSort (fun a b => a.id ≤ b.id) do
      match rest with
      | idT :: nT :: pT :: chT :: deT :: trT :: vT :: subT :: rest' =>
        rest := rest'
        if idT != "{" ++ toString c.id then throw s!"C07: crate block {idT} where crate {c.id} was expected"
        let n ← parseName (← field "n=" nT)
        if n != c.name then throw s!"C07: name() of {c.id} is not the name it was given"
        let p ← parseOptId (← field "p=" pT)
        if p != c.parent then throw s!"C07: parent() of {c.id} = {p}, should be {c.parent}"
        let ch ← parseIds (← field "ch=" chT)
        if !setEq ch (f.children c.id) then throw s!"C07: children() of {c.id} = {ch}, crates whose parent it is: {f.children c.id}"
        checkListing "children()" st.pendK st.kids c.id ch check
        kids := kids ++ [(c.id, ch)]
        let de ← parseIds (← field "de=" deT)
        if !setEq de (f.descendants c.id) then throw s!"C07: descendants() of {c.id} = {de}, transitive closure of children: {f.descendants c.id}"
        let tr ← parseIds (← field "tr=" trT)
        if !setEq tr (Members.tracksOf st.m c.id) then throw s!"C08: tracks() of crate {c.id} = {tr}, added and not removed: {Members.tracksOf st.m c.id}"
        checkListing "tracks()" st.pendE st.ents c.id tr check
        ents := ents ++ [(c.id, tr)]
        if vT != "v=1" then throw s!"C07: is_valid() of live crate {c.id} is false"
        let subs := ((((← field "sub=[" subT).dropEnd 2).toString).splitOn ",").filter (· ≠ "")
        for s in subs do
          match s.splitOn ":" with
          | [nm, r] =>
            let nm ← parseName nm
            let r ← parseOptId r
            let want := f.byParentName (some c.id) nm
            let good := match r with
              | none => want.isEmpty
              | some i => want.contains i
            if !good then throw s!"C07: sub_crate_by_name of {c.id} returned {r}, children with that name: {want}"
          | _ => throw s!"unparsable sub entry {s}"
      | _ => throw "C07: observation lists fewer crates than are live"
    match rest with
    | [tracksT, namesT, hT] =>
      let tracks ← parseIds (← field "tracks=" tracksT)
      if tracks != sortInts st.m.tracks then throw s!"C08: tracks() of the database = {tracks}, live tracks are {sortInts st.m.tracks}"
      let names := ((((← field "names=[" namesT).dropEnd 1).toString).splitOn ";").filter (· ≠ "")
      for s in names do
        match s.splitOn ":" with
        | [nm, allT, rootT] =>
          let nm ← parseName nm
          let all ← parseIds (← field "all=" allT)
          if !setEq all (f.byName nm) then throw s!"C07: crates_by_name = {all}, crates with that name: {f.byName nm}"
          let r ← parseOptId (← field "root=" rootT)
          let want := f.byParentName none nm
          let good := match r with
            | none => want.isEmpty
            | some i => want.contains i
          if !good then throw s!"C07: root_crate_by_name returned {r}, root crates with that name: {want}"
        | _ => throw s!"unparsable names entry {s}"
      let hs := ((((← field "h=[" hT).dropEnd 1).toString).splitOn ",").filter (· ≠ "")
      for s in hs do
        match s.splitOn ":" with
        | [v, i, valid, byid] =>
          let want ← crVar st v
          if i.toInt? != some want then throw s!"C07: the id of handle {v} changed from {want} to {i}"
          let live := f.live want
          if (valid == "1") != live then throw s!"C07: is_valid() of handle {v} (crate {want}) = {valid}, live = {live}"
          let r ← parseOptId byid
          if r != (if live then some want else none) then throw s!"C07: crate_by_id({want}) = {r}, live = {live}"
        | _ => throw s!"unparsable handle entry {s}"
      pure { st with kids := kids, ents := ents, pendK := [], pendE := [], opsSinceObs := 0 }
    | _ => throw "C07: observation lists more crates than are live"
  | _ => throw s!"the observation itself failed: {" ".intercalate ans}"

/-- `(a,b,…)(…)` → rows of integer/text fields -/
def parseRows (s : String) : M (List (List String)) :=
  if s == "()" then pure [] else
  if !(s.startsWith "(" && s.endsWith ")") then throw s!"unparsable rows {s}" else
  pure (((((s.drop 1).dropEnd 1).toString).splitOn ")(").map (·.splitOn ","))

def pInt (s : String) : M Int := match s.toInt? with
  | some i => pure i
  | none => throw s!"unparsable integer {s}"

/-- A `v2.raw` answer: rebuild the modelled state from the dump and evaluate `wfRaw` on it. -/
def rawLine (chainsOnly : Bool) (ans : List String) : M Unit := do
  match ans with
  | ["ok", plT, peT, trT, seqT] =>
    let pl ← (← parseRows (← field "Playlist" plT)).mapM fun r => match r with
      | [i, t, p, pers, n, ex] => do
        if pers != "1" || ex != "1" then throw s!"C11: Playlist row {i} has isPersisted/isExplicitlyExported = {pers}/{ex}"
        let title ← (if t.startsWith "s" then parseName (t.drop 1).toString else throw s!"C11: Playlist row {i} has a non-text title")
        pure (⟨← pInt i, ← pInt p, ← pInt n, title⟩ : Db.Chain.Row Bytes)
      | _ => throw "unparsable Playlist row"
    let pe ← (← parseRows (← field "PlaylistEntity" peT)).mapM fun r => match r with
      | [i, l, t, n, mr, tag] => do
        -- tag 0 = the library's own uuid; other databases' entries are judged by `wfRaw` as such
        if mr != "0" then throw s!"C11: PlaylistEntity row {i} has membershipReference {mr}"
        pure (⟨← pInt i, ← pInt l, ← pInt n, ⟨← pInt t, ← pInt tag⟩⟩ : Db.Chain.Row Db.V2.Ent)
      | _ => throw "unparsable PlaylistEntity row"
    let tr ← (← parseRows (← field "Track" trT)).mapM fun r => match r with
      | [i] => pInt i
      | _ => throw "unparsable Track row"
    let seq ← (← parseRows (← field "seq" seqT)).mapM fun r => r.mapM pInt
    match seq with
    | [[a, b, c]] =>
      let d : Db.V2.Db := ⟨pl, a, pe, b, tr, c⟩
      match (if chainsOnly then Db.V2.wfChainsWhy d else Db.V2.wfRawWhy d) with
      | none => pure ()
      | some why => throw s!"C11: {why}"
    | _ => throw "unparsable seq"
  | _ => throw s!"the raw dump itself failed: {" ".intercalate ans}"

/-- table-level entry lists -/
def peLine (st : St) (cmd ans : List String) : M St := do
  match cmd with
  | ["pe.add", l, t, u, f] =>
    let l ← pInt l
    let t ← pInt t
    let u ← pInt u
    let ok ← succeeded ans
    let cur := lookupD st.lists l []
    -- an entry's identity is (list, database uuid, track id)
    match cur.find? (fun x => x.2.1 == t && x.2.2 == u) with
    | some (e, _) =>
      if f == "1" then
        if ok then throw "C09: add_back(throw_if_duplicate) accepted a duplicate entry" else pure st
      else if parseNewId ans == some e then pure st
      else throw s!"C09: add_back of a present track did not return the existing entity {e}"
    | none =>
      if !ok then throw "C09: add_back of a new entry failed"
      match parseNewId ans with
      | none => throw "add_back returned no id"
      | some e =>
        if st.lists.any (fun (_, es) => es.any (·.1 == e)) then throw s!"C09: new entity id {e} collides with an existing entity"
        pure { st with lists := setK st.lists l (cur ++ [(e, t, u)]) }
  | ["pe.remove", l, e] =>
    let l ← pInt l
    let e ← pInt e
    let _ ← succeeded ans
    pure { st with lists := setK st.lists l ((lookupD st.lists l []).filter (·.1 != e)) }
  | ["pe.clear", l] =>
    let l ← pInt l
    let _ ← succeeded ans
    pure { st with lists := setK st.lists l [] }
  | ["pe.list", l] =>
    let l ← pInt l
    let want := lookupD st.lists l []
    let wantS := "[" ++ ",".intercalate (want.map fun (e, t, u) => s!"{e}:{t}:{u}") ++ "]"
    let wantT := "[" ++ ",".intercalate (want.map fun (_, t, _) => toString t) ++ "]"
    if ans != ["ok", wantS, wantT] then
      throw s!"C09: get_for_list/track_ids of list {l} = {" ".intercalate (ans.drop 1)}, entries added and not removed, in order: {wantS} {wantT}"
    pure st
  | _ => throw "unknown pe command"

/-- `ddl.canon <hex sql>`: the DDL text modulo whitespace, comments and identifier quoting (Spec/SqlCanon.lean),
rendered back to text — used by tools/tr_v2ddl.py to canonicalise the catalog entries of the 2.x schemas. -/
def ddlCanon (h : String) : String :=
  match parseHexBytes h with
  | some b =>
    let s : List Char := b.map fun x => Char.ofNat x.toNat
    "ok " ++ hexBytes ((String.ofList (Spec.SqlCanon.render (Spec.SqlCanon.canonChars s))).toUTF8.toList)
  | none => "bad-op args"

def step (st : St) (cmd : String) (args : List String) : St × String :=
  if cmd == "ddl.canon" then (st, match args with | [h] => ddlCanon h | _ => "bad-op args") else
  let toks := cmd :: args
  let c := toks.takeWhile (· ≠ "=>")
  let ans := (toks.dropWhile (· ≠ "=>")).drop 1
  let r : M St :=
    match c with
    | "create" :: _ => pure {}
    | "v2.create" :: _ => pure {}
    | "v2.obs" :: _ => obsLine st ans
    | ["v2.raw"] => do rawLine false ans; pure st
    | ["v2.raw", "chains"] => do rawLine true ans; pure st
    | "crate.q" :: _ => pure st
    | "db.q" :: _ => pure st
    | "pl.list" :: _ => pure st
    | k :: _ => if k.startsWith "pe." then peLine st c ans else opLine st c ans
    | [] => pure st
  -- a command naming a handle that was never bound (its creation was rejected) is a no-op on every side
  if ans.head? == some "bad-op" then (st, "skip") else
  match r with
  | .ok st' => (st', "ok")
  | .error e => (st, "VIOLATION " ++ e)

def mode : Drv.Mode := Drv.mkMode "cratesv2spec" ({} : St) step

end Drv.CratesV2Spec
