/-
Driver commands for C12 / C17 (stateful mode `schema`).

  cat <id> <dump…>        register a catalog dump (as printed by the harness), canonicalise its DDL once
  eq <idA> <idB>          C12 comparison `schemaEq` of two registered dumps
  same <idA> <idB>        literal equality of two registered dumps (no canonicalisation)
  stamp <schema> a b c    the version triple is the one the creator is meant to stamp
                          (generated `stampGen`) and the one the public table lists
  detect a b c numeric    Spec table lookup (which schema a reference dump belongs to)
  canoncls <hex>*         for each text the index of the first text with the same `canon`
                          (the class table of Gen/SchemaFacts.lean; re-checked by the kernel there)

C17 (Spec/Catalog.lean, Spec/Validator.lean):
  c17.base <id> <dump>                      register the catalog of a created library (DDL text dropped)
  c17.exp <id> <label> <tables>             register the expectation tables of the REAL validator for one database file
                                            (extracted from schema_*.cpp by tools/tr_validators.py); answers whether they are
                                            closed, accept the created catalog <id>, and equal `expOf created`
  c17.mut <id> <mutation|-> minus <dump> plus <dump>
                                            the catalog read back from a rebuilt library = base − minus + plus;
                                            answers, over all database files of the library,
                                              walk=   the model of a complete validator (`verifyDb (expOf base)`) accepts it
                                              same=   `sameCat base new`      plain= `!deviatesPlain base new`
                                              wf=     both catalogs are well formed
                                              real=   the extracted tables of the real validator accept it (`na` if none registered)
                                              pure=   the catalog is exactly `apply m base` for the given single-element
                                                      mutation `m` (and `applicable m base`); `na` without a mutation
-/
import EngineModel.Driver.Loop
import EngineModel.Driver.Text
import EngineModel.Spec.SqlCanon
import EngineModel.Spec.SchemaDump
import EngineModel.Spec.Catalog
import EngineModel.Spec.Validator
import EngineModel.Pure.Detect
import EngineModel.Gen.DetectGen

open EngineModel EngineModel.Text
open EngineModel.Spec.SqlCanon EngineModel.Spec.SchemaDump

namespace Drv.Schema

def bytesToStr (b : Bytes) : Str := b.map fun x => Char.ofNat x.toNat

def pStr : P Str := bytesToStr <$> pBytes
def pOStr : P (Option Str) := pOpt pStr
def pInt : P Int := lift parseInt
def pPlain : P Str := String.toList <$> tok

def expect (s : String) : P Unit := do
  let t ← tok
  if t == s then pure () else failure

def pMaster : P MasterRow := do
  let db ← pPlain; let ty ← pPlain; let n ← pStr; let t ← pStr; let s ← pOStr
  pure ⟨db, ty, n, t, s⟩

def pColumn : P Column := do
  let n ← pStr; let t ← pStr; let nn ← pInt; let d ← pOStr; let pk ← pInt
  pure ⟨n, t, nn, d, pk⟩

def pTableCols : P TableCols := do
  let db ← pPlain; let t ← pStr; let cs ← pList pColumn
  pure ⟨db, t, cs⟩

def pIndexCol : P IndexCol := do
  let s ← pInt; let n ← pOStr
  pure ⟨s, n⟩

def pIndex : P Index := do
  let n ← pStr; let u ← pInt; let o ← pStr; let p ← pInt; let cs ← pList pIndexCol
  pure ⟨n, u, o, p, cs⟩

def pTableIdx : P TableIdx := do
  let db ← pPlain; let t ← pStr; let is ← pList pIndex
  pure ⟨db, t, is⟩

def pDump : P Dump := do
  expect "M"; let m ← pList pMaster
  expect "T"; let t ← pList pTableCols
  expect "X"; let x ← pList pTableIdx
  pure ⟨m, t, x⟩

structure Entry where
  id : String
  dump : Dump
  cdump : CDump

/-! ### C17 -/
section c17
open EngineModel.Spec
open EngineModel.Spec.Catalog (ofDump)
open EngineModel.Spec.Validator

def stripSql (d : Dump) : Dump := { d with master := d.master.map fun r => { r with sql := none } }

def minusL {α} [DecidableEq α] (xs ys : List α) : List α := xs.filter fun x => !ys.contains x

def applyDelta (base minus plus : Dump) : Dump :=
  ⟨minusL base.master minus.master ++ plus.master,
   minusL base.tables minus.tables ++ plus.tables,
   minusL base.indexes minus.indexes ++ plus.indexes⟩

def labelsOf (d : Dump) : List Str := (d.master.map (·.db)).eraseDups

def pCol : P Catalog.Col := do
  let n ← pStr; let t ← pStr; let nn ← pInt; let d ← pOStr; let pk ← pInt
  pure ⟨n, t, nn, d.getD [], pk⟩

def pIdx : P Catalog.Idx := do
  let n ← pStr; let u ← pInt; let o ← pStr; let p ← pInt
  let cs ← pList (do let s ← pInt; let c ← pOStr; pure (⟨s, c.getD []⟩ : Catalog.IdxCol))
  pure ⟨⟨n, u, o, p⟩, cs⟩

def pTable : P Catalog.Table := do
  let n ← pStr; let cs ← pList pCol; let is ← pList pIdx
  pure ⟨n, cs, is⟩

/-- `<label> <kind> args…` -/
def pMutation : P (Str × Catalog.Mutation) := do
  let l ← pPlain
  let k ← tok
  let m ← match k with
    | "dropTable" => Catalog.Mutation.dropTable <$> pStr
    | "addTable" => Catalog.Mutation.addTable <$> pTable
    | "renameTable" => Catalog.Mutation.renameTable <$> pStr <*> pStr
    | "dropView" => Catalog.Mutation.dropView <$> pStr
    | "addView" => Catalog.Mutation.addView <$> pStr
    | "renameView" => Catalog.Mutation.renameView <$> pStr <*> pStr
    | "dropCol" => Catalog.Mutation.dropCol <$> pStr <*> pStr
    | "addCol" => Catalog.Mutation.addCol <$> pStr <*> pCol
    | "updCol" => Catalog.Mutation.updCol <$> pStr <*> pStr <*> pCol
    | "dropIdx" => Catalog.Mutation.dropIdx <$> pStr <*> pStr
    | "addIdx" => Catalog.Mutation.addIdx <$> pStr <*> pIdx
    | "updIdx" => Catalog.Mutation.updIdx <$> pStr <*> pStr <*> pIdx
    | _ => failure
  pure (l, m)

def pMutOpt : P (Option (Str × Catalog.Mutation)) := do
  match (← peek) with
  | some "-" => let _ ← tok; pure none
  | _ => some <$> pMutation

def pBool : P Bool := do
  let t ← tok
  match t with
  | "1" => pure true
  | "0" => pure false
  | _ => failure

def pIdxE : P Catalog.IdxE := do
  let n ← pStr; let u ← pInt; let o ← pStr; let p ← pInt
  pure ⟨n, u, o, p⟩

def pIdxColsExp : P IdxColsExp := do
  let i ← pStr
  let cs ← pList (do let s ← pInt; let c ← pOStr; pure (⟨s, c.getD []⟩ : Catalog.IdxCol))
  let nm ← pBool
  pure ⟨i, cs, nm⟩

def pTableExp : P TableExp := do
  let n ← pStr
  let cs ← pList pCol; let cnm ← pBool
  let is ← pList pIdxE; let inm ← pBool
  let ic ← pList pIdxColsExp
  pure ⟨n, cs, cnm, is, inm, ic⟩

def pDbExp : P DbExp := do
  let ts ← pList pStr; let tnm ← pBool
  let vs ← pList pStr; let vnm ← pBool
  let per ← pList pTableExp
  pure ⟨ts, tnm, vs, vnm, per⟩

/-- same tables up to the order of the per-table descriptions -/
def sameExp (a b : DbExp) : Bool :=
  a.tables == b.tables && a.tablesNoMore == b.tablesNoMore && a.views == b.views && a.viewsNoMore == b.viewsNoMore &&
  a.perTable.all (fun t => b.perTable.contains t) && b.perTable.all (fun t => a.perTable.contains t)

def pMutLine : P (Option (Str × Catalog.Mutation) × Dump × Dump) := do
  let m ← pMutOpt
  expect "minus"; let a ← pDump
  expect "plus"; let b ← pDump
  pure (m, a, b)

def c17Mut (base : Dump) (exps : List (Str × DbExp)) (m : Option (Str × Catalog.Mutation)) (minus plus : Dump) : String :=
  let new := applyDelta base minus plus
  let ls := labelsOf base
  let pairs := ls.map fun l => (l, ofDump base l, ofDump new l)
  let walk := pairs.all fun (_, b, n) => verifyDb (expOf b) n
  let same := pairs.all fun (_, b, n) => sameCat b n
  let plain := pairs.all fun (_, b, n) => !deviatesPlain b n
  let wfb := pairs.all fun (_, b, n) => Catalog.wf b && Catalog.wf n
  let self := pairs.all fun (_, b, _) => verifyDb (expOf b) b && closed (expOf b)
  let pure := match m with
    | none => "na"
    | some (l, mu) =>
      toString <| pairs.all fun (l', b, n) =>
        if l' == l then
          Catalog.applicable mu b && sameCat (Catalog.apply mu b) n && sameCat n (Catalog.apply mu b)
        else sameCat b n && sameCat n b
  let real := if exps.isEmpty then "na" else
    toString <| pairs.all fun (l, _, n) =>
      match exps.find? (·.1 == l) with
      | some (_, e) => verifyDb e n
      | none => false
  s!"ok walk={walk} same={same} plain={plain} wf={wfb} self={self} real={real} pure={pure}"

end c17

structure State where
  cats : List Entry := []
  bases : List (String × Dump) := []
  exps : List (String × Str × EngineModel.Spec.Validator.DbExp) := []

def find (st : State) (id : String) : Option Entry := st.cats.find? (·.id == id)

open Pure.Detect in
def stampCmd (a : List String) : String :=
  match a with
  | [s, x, y, z] =>
    match Schema.ofName s, x.toInt?, y.toInt?, z.toInt? with
    | some s, some x, some y, some z =>
      let g := Gen.Detect.stampGen s
      s!"ok gen={decide (g = (x, y, z))} spec={decide (s.version = (x, y, z))}"
    | _, _, _, _ => "bad-op args"
  | _ => "bad-op args"

open Pure.Detect in
def detectCmd (a : List String) : String :=
  match a with
  | [x, y, z, m] =>
    match x.toInt?, y.toInt?, z.toInt? with
    | some x, some y, some z =>
      match specDetect x y z (m == "1") with
      | .schema s => "ok " ++ s.name
      | .unsupported => "ok unsupported"
    | _, _, _ => "bad-op args"
  | _ => "bad-op args"

def step (st : State) (cmd : String) (args : List String) : State × String :=
  match cmd, args with
  | "cat", id :: rest =>
    match runP pDump rest with
    | none => (st, "bad-op dump")
    | some d =>
      let c := canonDump d
      let ntok := c.master.foldl (fun n r => n + (r.sql.map List.length).getD 0) 0
      ({ st with cats := ⟨id, d, c⟩ :: st.cats.filter (·.id != id) },
       s!"ok master={d.master.length} tables={d.tables.length} indexes={c.indexes.length} tokens={ntok}")
  | "eq", [a, b] =>
    match find st a, find st b with
    | some x, some y =>
      if cdumpEq x.cdump y.cdump then (st, "ok true")
      else (st, "ok false " ++ " ".intercalate ((cdumpDiff x.cdump y.cdump).take 12))
    | _, _ => (st, "bad-op unknown-id")
  | "same", [a, b] =>
    match find st a, find st b with
    | some x, some y => (st, s!"ok {decide (x.dump = y.dump)}")
    | _, _ => (st, "bad-op unknown-id")
  | "c17.base", id :: rest =>
    match runP pDump rest with
    | none => (st, "bad-op dump")
    | some d =>
      let d := stripSql d
      ({ st with bases := (id, d) :: st.bases.filter (·.1 != id) },
       s!"ok master={d.master.length} tables={d.tables.length} labels={(labelsOf d).length}")
  | "c17.exp", id :: label :: rest =>
    match st.bases.find? (·.1 == id), runP pDbExp rest with
    | some (_, base), some e =>
      let l := label.toList
      let c := EngineModel.Spec.Catalog.ofDump base l
      ({ st with exps := (id, l, e) :: st.exps.filter (fun x => !(x.1 == id && x.2.1 == l)) },
       s!"ok closed={EngineModel.Spec.Validator.closed e} accepts={EngineModel.Spec.Validator.verifyDb e c} expOf={sameExp e (EngineModel.Spec.Validator.expOf c)}")
    | none, _ => (st, "bad-op unknown-id")
    | _, none => (st, "bad-op parse")
  | "c17.mut", id :: rest =>
    match st.bases.find? (·.1 == id), runP pMutLine rest with
    | some (_, base), some (m, minus, plus) =>
      (st, c17Mut base ((st.exps.filter (·.1 == id)).map (·.2)) m minus plus)
    | none, _ => (st, "bad-op unknown-id")
    | _, none => (st, "bad-op parse")
  | "canoncls", a =>
    match a.mapM (fun t => bytesToStr <$> parseHexBytes t) with
    | none => (st, "bad-op hex")
    | some ts =>
      let cs := (ts.map canonChars).toArray
      let cls := (List.range cs.size).map fun i =>
        ((List.range (i + 1)).find? fun j => cs[j]! == cs[i]!).getD i
      (st, "ok " ++ " ".intercalate (cls.map toString))
  | "stamp", a => (st, stampCmd a)
  | "detect", a => (st, detectCmd a)
  | _, _ => (st, "bad-op unknown")

def mode : Drv.Mode := Drv.mkMode "schema" ({} : State) step

end Drv.Schema
