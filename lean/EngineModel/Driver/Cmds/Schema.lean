/-
Driver commands for C12 / C17 (stateful mode `schema`).

  cat <id> <dump…>        register a catalog dump (as printed by the harness), canonicalise its DDL once
  eq <idA> <idB>          C12 comparison `schemaEq` of two registered dumps
  same <idA> <idB>        literal equality of two registered dumps (no canonicalisation)
  stamp <schema> a b c    the version triple is the one the creator is meant to stamp
                          (generated `stampGen`) and the one the public table lists
  detect a b c numeric    Spec table lookup (which schema a reference dump belongs to)
-/
import EngineModel.Driver.Loop
import EngineModel.Driver.Text
import EngineModel.Spec.SqlCanon
import EngineModel.Spec.SchemaDump
import EngineModel.Pure.Detect
import EngineModel.Gen.DetectGen

open EngineModel EngineModel.Text
open EngineModel.Spec.SqlCanon EngineModel.Spec.SchemaDump

namespace Drv.Schema

def bytesToStr (b : Bytes) : Str := b.map fun x => Char.ofNat x.toNat

def pStr : P Str := bytesToStr <$> pBytes
def pOStr : P (Option Str) := pOpt pStr
def pInt : P Int := lift parseInt
def pPlain : P Str := String.toList <$> tok

def expect (s : String) : P Unit := do
  let t ← tok
  if t == s then pure () else failure

def pMaster : P MasterRow := do
  let db ← pPlain; let ty ← pPlain; let n ← pStr; let t ← pStr; let s ← pOStr
  pure ⟨db, ty, n, t, s⟩

def pColumn : P Column := do
  let n ← pStr; let t ← pStr; let nn ← pInt; let d ← pOStr; let pk ← pInt
  pure ⟨n, t, nn, d, pk⟩

def pTableCols : P TableCols := do
  let db ← pPlain; let t ← pStr; let cs ← pList pColumn
  pure ⟨db, t, cs⟩

def pIndexCol : P IndexCol := do
  let s ← pInt; let n ← pOStr
  pure ⟨s, n⟩

def pIndex : P Index := do
  let n ← pStr; let u ← pInt; let o ← pStr; let p ← pInt; let cs ← pList pIndexCol
  pure ⟨n, u, o, p, cs⟩

def pTableIdx : P TableIdx := do
  let db ← pPlain; let t ← pStr; let is ← pList pIndex
  pure ⟨db, t, is⟩

def pDump : P Dump := do
  expect "M"; let m ← pList pMaster
  expect "T"; let t ← pList pTableCols
  expect "X"; let x ← pList pTableIdx
  pure ⟨m, t, x⟩

structure Entry where
  id : String
  dump : Dump
  cdump : CDump

structure State where
  cats : List Entry := []

def find (st : State) (id : String) : Option Entry := st.cats.find? (·.id == id)

open Pure.Detect in
def stampCmd (a : List String) : String :=
  match a with
  | [s, x, y, z] =>
    match Schema.ofName s, x.toInt?, y.toInt?, z.toInt? with
    | some s, some x, some y, some z =>
      let g := Gen.Detect.stampGen s
      s!"ok gen={decide (g = (x, y, z))} spec={decide (s.version = (x, y, z))}"
    | _, _, _, _ => "bad-op args"
  | _ => "bad-op args"

open Pure.Detect in
def detectCmd (a : List String) : String :=
  match a with
  | [x, y, z, m] =>
    match x.toInt?, y.toInt?, z.toInt? with
    | some x, some y, some z =>
      match specDetect x y z (m == "1") with
      | .schema s => "ok " ++ s.name
      | .unsupported => "ok unsupported"
    | _, _, _ => "bad-op args"
  | _ => "bad-op args"

def step (st : State) (cmd : String) (args : List String) : State × String :=
  match cmd, args with
  | "cat", id :: rest =>
    match runP pDump rest with
    | none => (st, "bad-op dump")
    | some d =>
      let c := canonDump d
      let ntok := c.master.foldl (fun n r => n + (r.sql.map List.length).getD 0) 0
      ({ st with cats := ⟨id, d, c⟩ :: st.cats.filter (·.id != id) },
       s!"ok master={d.master.length} tables={d.tables.length} indexes={c.indexes.length} tokens={ntok}")
  | "eq", [a, b] =>
    match find st a, find st b with
    | some x, some y =>
      if cdumpEq x.cdump y.cdump then (st, "ok true")
      else (st, "ok false " ++ " ".intercalate ((cdumpDiff x.cdump y.cdump).take 12))
    | _, _ => (st, "bad-op unknown-id")
  | "same", [a, b] =>
    match find st a, find st b with
    | some x, some y => (st, s!"ok {decide (x.dump = y.dump)}")
    | _, _ => (st, "bad-op unknown-id")
  | "stamp", a => (st, stampCmd a)
  | "detect", a => (st, detectCmd a)
  | _, _ => (st, "bad-op unknown")

def mode : Drv.Mode := Drv.mkMode "schema" ({} : State) step

end Drv.Schema
