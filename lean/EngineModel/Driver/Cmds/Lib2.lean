/-
Driver of the composite 2.x library (Lib/V2.lean).

  mode `lib2` (stateful; the same lines as harness/djv_db.cpp + djv_lib2.cpp):
     create <schema> mem|disk
     mktrack <v> <snapshot> | update <v> <snapshot> | set <v> <field> <value…> | rmtrack <v>
     snap <v> | get <v> <field> [i] | get <v> valid | gettrack <v> <id>
     mkroot <v> <name> | mkroot_after <v> <name> <after> | mksub <v> <parent> <name> | mksub_after <v> <parent> <name> <after>
     rename <v> <name> | setparent <v> <p>|- | rmcrate <v> | getcrate <v> <id>
     addtrack <c> <t> | addtrackid <c> <id> | rmtrackfrom <c> <t> | cleartracks <c>
     crate.q <v> <query> [arg] | db.q <query> [arg]
     lib2.plantprep <t>   (not a library call: Engine puts the track on its prepare list)
     lib2.raw     every table that the model holds, key columns (what `lib2.inv` judges)
     lib2.rows    every column of every Track row, blobs decoded
  stateless oracle commands, evaluated on the IMPLEMENTATION's `lib2.raw` answer:
     lib2.inv <schema> <dump>    → ok | broken <first failing conjunct of LibInv>
     lib2.fk <schema> <dump>     → ok <n> <violations of the modelled PRAGMA foreign_key_check>
-/
import EngineModel.Driver.Cmds.TracksV2
import EngineModel.Driver.Cmds.TracksV2Db
import EngineModel.Driver.Cmds.CratesV2
import EngineModel.Lib.V2

open EngineModel EngineModel.Text EngineModel.TracksV2 EngineModel.Lib.V2
open EngineModel.Table (Schema2)

namespace Drv.Lib2

open Drv.T2

abbrev CGetter := EngineModel.Api.C15TracksV2.Getter
abbrev CVal := EngineModel.Api.C15TracksV2.Val

def modelUuid : Bytes := [85, 85, 73, 68]     -- "UUID"

def schemaOfName (n : String) : Option Schema2 := Schema2.all.find? (fun s => s.name == n)

structure St where
  schema : Option Schema2 := none
  lib : Lib2 := Lib2.empty .s2_18_0 modelUuid
  crates : List (String × Int) := []
  tracks : List (String × Nat) := []

def bind {α} (m : List (String × α)) (v : String) (i : α) : List (String × α) := (m.filter (·.1 != v)) ++ [(v, i)]

def showIds (l : List Int) : String := "[" ++ ",".intercalate (l.map toString) ++ "]"
def sortInts (l : List Int) : List Int := l.mergeSort (· ≤ ·)
def showOpt : Option Int → String
  | some i => toString i
  | none => "none"

/-! ### getters -/

def pGetter (field : String) (rest : List String) : Option CGetter :=
  match field, rest with
  | "album", [] => some .album | "artist", [] => some .artist | "average_loudness", [] => some .averageLoudness
  | "beatgrid", [] => some .beatgrid | "bitrate", [] => some .bitrate | "bpm", [] => some .bpm
  | "comment", [] => some .comment | "composer", [] => some .composer | "duration", [] => some .duration
  | "file_extension", [] => some .fileExtension | "filename", [] => some .filename | "genre", [] => some .genre
  | "hot_cue_at", [i] => (parseI32 i).map .hotCueAt | "hot_cues", [] => some .hotCues | "key", [] => some .key
  | "last_played_at", [] => some .lastPlayedAt | "loop_at", [i] => (parseI32 i).map .loopAt | "loops", [] => some .loops
  | "main_cue", [] => some .mainCue | "publisher", [] => some .publisher | "rating", [] => some .rating
  | "relative_path", [] => some .relativePath | "sample_count", [] => some .sampleCount
  | "sample_rate", [] => some .sampleRate | "title", [] => some .title | "track_number", [] => some .trackNumber
  | "waveform", [] => some .waveform | "year", [] => some .year
  | _, _ => none

/-- text of a getter's answer (harness `get`) -/
def sVal (g : CGetter) : CVal → String
  | .obytes v => sOStr v
  | .of v => sOptF v
  | .grid v => sList sGM v
  | .ou32 v => sOpt showI32 v
  | .ou64 v => (match g with
      | .sampleCount => sOpt sU64 v
      | _ => sOpt showI64 v)
  | .bytes v => hexBytes v
  | .ocue v => sOptCue' v
  | .cues v => sCuesL v
  | .oloop v => sOptLoop' v
  | .loops v => sLoopsL v
  | .wave v => hexBytes (bytesOfEntries v)

/-! ### results -/

def sOut : Out → String
  | .unit => ""
  | .id i => s!"id={i}"
  | .oid i => showOpt i
  | .ids l => showIds l
  | .bool b => if b then "1" else "0"
  | .bytes b => hexBytes b
  | .text s => hexBytes s.toUTF8.toList
  | .snap x => sSnap x
  | .val _ => "?"

def call (st : St) (c : Call) : St × Res Out :=
  match st.schema with
  | some s => let r := step hwOps s st.lib c; ({ st with lib := r.1 }, r.2)
  | none => (st, .throw (.dj "no_database"))

def run (st : St) (c : Call) (f : Out → String := sOut) : St × String :=
  let (st', r) := call st c
  (st', r.render f)

/-! ### dumps -/

def sText (b : Bytes) : String := "s" ++ hexBytes b
def showRows (l : List String) : String := if l.isEmpty then "()" else "".intercalate l

def sUuid (L : Lib2) (u : Bytes) : String := if u == L.uuid then "UUID" else sText u

/-- every modelled table, key columns: the text the harness prints for the real database (`lib2.raw`) -/
def sRaw (s : Schema2) (L : Lib2) : String :=
  let tr := L.tdb.rows.map fun t =>
    s!"({t.id},{sText t.row.path},{sText t.row.filename},{sText t.row.fileType},{sUuid L t.originUuid},{t.originId},{t.row.albumArtId.toNat})"
  let pl := L.pl.map fun r => s!"({r.id},s{hexBytes r.val},{r.key},1,{r.next},1)"
  let pe := L.pe.map fun r => s!"({r.id},{r.key},{r.val.track},{r.next},0,{r.val.uuid})"
  let cl := L.log.map fun r => s!"({r.id},{match r.track with | some t => toString t | none => "null"})"
  let art := L.art.map fun i => s!"({i})"
  let prep := L.prep.map fun r => s!"({r.id},{match r.track with | some t => toString t | none => "null"})"
  let seq (n : Int) := if n == 0 then "none" else toString n
  unwords ["ok", s!"info(UUID,{L.ver.1},{L.ver.2.1},{L.ver.2.2})",
    s!"seq({seq L.tdb.seq},{seq L.plSeq},{seq L.peSeq},{if hasChangeLog s then seq L.logSeq else "absent"},{seq L.prepSeq})",
    "Track" ++ showRows tr, "Playlist" ++ showRows pl, "PlaylistEntity" ++ showRows pe,
    "ChangeLog" ++ (if hasChangeLog s then showRows cl else "absent"), "AlbumArt" ++ showRows art,
    "PreparelistEntity" ++ showRows prep]

def sRows (s : Schema2) (L : Lib2) : String :=
  unwords ("ok" :: s!"n={L.tdb.rows.length}" :: L.tdb.rows.map fun t => s!"|| id={t.id} " ++ sRow (toT s) t.row)

/-! ### the stateful mode -/

def step (st : St) (cmd : String) (args : List String) : St × String :=
  let cr (v : String) : Option Int := (st.crates.find? (·.1 == v)).map (·.2)
  let tr (v : String) : Option Nat := (st.tracks.find? (·.1 == v)).map (·.2)
  let mkCrate (v : String) (c : Call) : St × String :=
    let (st', r) := call st c
    match r with
    | .ok (.id i) => ({ st' with crates := bind st'.crates v i }, s!"ok id={i}")
    | _ => (st', r.render sOut)
  match cmd, args with
  | "create", [sch, _] =>
    match schemaOfName sch with
    | some s => ({ schema := some s, lib := Lib2.empty s modelUuid }, "ok")
    | none => (st, "bad-op schema")
  | "v2.create", [sch, _] =>      -- harness: the same through engine_library (table-level objects reachable: `addforeign`)
    match schemaOfName sch with
    | some s => ({ schema := some s, lib := Lib2.empty s modelUuid }, "ok")
    | none => (st, "bad-op schema")
  -- tracks
  | "mktrack", v :: toks =>
    match runP pSnap toks with
    | some x =>
      let (st', r) := call st (.createTrack x)
      match r with
      | .ok (.id i) => ({ st' with tracks := bind st'.tracks v i.toNat }, s!"ok id={i}")
      | _ => (st', r.render sOut)
    | none => (st, "bad-op snapshot")
  | "update", v :: toks =>
    match tr v, runP pSnap toks with
    | some t, some x => run st (.trackUpdate t x)
    | _, _ => (st, "bad-op update")
  | "set", v :: f :: toks =>
    match tr v, runP (pSetter f) toks with
    | some t, some σ => run st (.trackSet t σ)
    | _, _ => (st, "bad-op set")
  | "rmtrack", [v] =>
    match tr v with
    | some t => run st (.removeTrack t)
    | none => (st, "bad-op var")
  | "snap", [v] =>
    match tr v with
    | some t => run st (.trackSnapshot t)
    | none => (st, "bad-op var")
  | "get", [v, "valid"] =>
    match tr v with
    | some t => run st (.trackIsValid t)
    | none => (st, "bad-op var")
  | "get", [v, "id"] =>
    match tr v with
    | some t => (st, s!"ok {t}")
    | none => (st, "bad-op var")
  | "get", v :: f :: rest =>
    match tr v, pGetter f rest with
    | some t, some g => run st (.trackGet t g) fun o => match o with | .val x => sVal g x | o => sOut o
    | _, _ => (st, "bad-op get")
  | "gettrack", [v, i] =>
    match i.toInt? with
    | some i =>
      let (st', r) := call st (.trackById i)
      match r with
      | .ok (.oid (some j)) => ({ st' with tracks := bind st'.tracks v j.toNat }, s!"ok id={j}")
      | _ => (st', r.render sOut)
    | none => (st, "bad-op args")
  -- crates
  | "mkroot", [v, n] =>
    match parseHexBytes n with
    | some n => mkCrate v (.createRootCrate n)
    | none => (st, "bad-op args")
  | "mkroot_after", [v, n, a] =>
    match parseHexBytes n, cr a with
    | some n, some a => mkCrate v (.createRootCrateAfter n a)
    | _, _ => (st, "bad-op args")
  | "mksub", [v, p, n] =>
    match parseHexBytes n, cr p with
    | some n, some p => mkCrate v (.crateCreateSub p n)
    | _, _ => (st, "bad-op args")
  | "mksub_after", [v, p, n, a] =>
    match parseHexBytes n, cr p, cr a with
    | some n, some p, some a => mkCrate v (.crateCreateSubAfter p n a)
    | _, _, _ => (st, "bad-op args")
  | "rename", [v, n] =>
    match parseHexBytes n, cr v with
    | some n, some c => run st (.crateSetName c n)
    | _, _ => (st, "bad-op args")
  | "setparent", [v, p] =>
    match cr v, (if p == "-" then some none else (cr p).map some) with
    | some c, some p => run st (.crateSetParent c p)
    | _, _ => (st, "bad-op args")
  | "rmcrate", [v] =>
    match cr v with
    | some c => run st (.removeCrate c)
    | none => (st, "bad-op args")
  | "getcrate", [v, i] =>
    match i.toInt? with
    | some i =>
      let (st', r) := call st (.crateById i)
      match r with
      | .ok (.oid (some j)) => ({ st' with crates := bind st'.crates v j }, s!"ok id={j}")
      | _ => (st', r.render sOut)
    | none => (st, "bad-op args")
  | "addtrack", [c, t] =>
    match cr c, tr t with
    | some c, some t => run st (.crateAddTrack c t)
    | _, _ => (st, "bad-op args")
  | "addtrackid", [c, t] =>
    match cr c, t.toInt? with
    | some c, some t => run st (.crateAddTrack c t)
    | _, _ => (st, "bad-op args")
  | "addforeign", [c, t, u] =>
    -- other software adds an entry of another database (uuid tag u ≠ 0) for the numeric id of track t
    match cr c, tr t, u.toInt? with
    | some c, some t, some u =>
      if !(EngineModel.Db.V2.qValid st.lib.crates c) then (st, "ok skipped") else
      let (st', r) := call st (.foreignEntry c t u)
      (st', r.render fun _ => "")
    | _, _, _ => (st, "bad-op args")
  | "lib2.plantprep", [v] =>
    -- Engine puts the track on its prepare list (harness: INSERT INTO PreparelistEntity through the C API)
    match tr v with
    | some t =>
      if !(st.lib.tdb.find t).isSome then (st, "ok skipped") else
      let (st', r) := call st (.plantPrepare t)
      (st', r.render fun _ => "")
    | none => (st, "bad-op var")
  | "rmtrackfrom", [c, t] =>
    match cr c, tr t with
    | some c, some t => run st (.crateRemoveTrack c t)
    | _, _ => (st, "bad-op args")
  | "cleartracks", [c] =>
    match cr c with
    | some c => run st (.crateClearTracks c)
    | none => (st, "bad-op args")
  | "crate.q", v :: q :: rest =>
    match cr v with
    | none => (st, "bad-op args")
    | some c =>
      match q, rest with
      | "id", [] => (st, s!"ok {c}")
      | "valid", [] => run st (.crateIsValid c)
      | "name", [] => run st (.crateName c)
      | "parent", [] => run st (.crateParent c)
      | "children", [] => run st (.crateChildren c)
      | "descendants", [] => run st (.crateDescendants c) fun o => match o with | .ids l => showIds (sortInts l) | o => sOut o
      | "tracks", [] => run st (.crateTracks c)
      | "sub_by_name", [n] =>
        match parseHexBytes n with
        | some n => run st (.crateSubByName c n)
        | none => (st, "bad-op args")
      | _, _ => (st, "bad-op query")
  | "db.q", q :: rest =>
    let sorted (o : Out) : String := match o with | .ids l => showIds (sortInts l) | o => sOut o
    match q, rest with
    | "crates", [] => run st .crates sorted
    | "root_crates", [] => run st .rootCrates
    | "tracks", [] => run st .tracks sorted
    | "crate_by_id", [i] =>
      match i.toInt? with
      | some i => run st (.crateById i)
      | none => (st, "bad-op args")
    | "track_by_id", [i] =>
      match i.toInt? with
      | some i => run st (.trackById i)
      | none => (st, "bad-op args")
    | "crates_by_name", [n] =>
      match parseHexBytes n with
      | some n => run st (.cratesByName n) sorted
      | none => (st, "bad-op args")
    | "root_by_name", [n] =>
      match parseHexBytes n with
      | some n => run st (.rootCrateByName n)
      | none => (st, "bad-op args")
    | "tracks_by_path", [p] =>
      match parseHexBytes p with
      | some p => run st (.tracksByRelativePath p) sorted
      | none => (st, "bad-op args")
    | "uuid", [] => run st .uuid fun o => match o with | .bytes b => if b.isEmpty then "empty" else "nonempty" | o => sOut o
    | "version_name", [] => run st .versionName
    | _, _ => (st, "bad-op query")
  | "v2.obs", probe =>
    -- the whole crate / membership structure through the public API (same text as harness `v2.obs`)
    match probe.mapM parseHexBytes with
    | some p => (st, Drv.CratesV2.render (Drv.CratesV2.obs { db := st.lib.crates, crates := st.crates, tracks := [] } p))
    | none => (st, "bad-op args")
  | "reopen", [] =>
    -- every handle destroyed, the database closed, load_database(dir), the variables re-obtained by id:
    -- `Session.reload` — the stored library is what it was (no call leaves a transaction open), handles of
    -- objects that no longer exist are gone
    match st.schema with
    | some s =>
      let cs := st.crates.filter fun (_, i) => EngineModel.Db.V2.qValid st.lib.crates i
      let ts := st.tracks.filter fun (_, i) => (st.lib.tdb.find i).isSome
      ({ st with crates := cs, tracks := ts }, s!"ok {s.name} crates={cs.length} tracks={ts.length}")
    | none => (st, "bad-op no database")
  | "lib2.raw", [] =>
    match st.schema with
    | some s => (st, sRaw s st.lib)
    | none => (st, "bad-op no database")
  | "lib2.pragma", [] =>
    -- the model's prediction of `PRAGMA foreign_key_check` (`fkCheck`); `integrity_check` is SQLite's own (assumed ok)
    let v := fkCheck st.lib
    (st, "ok fk=" ++ (if v.isEmpty then "()" else "".intercalate (v.map fun x => s!"({x.table},{x.rowid},{x.parent})")) ++
      " integrity=(s6f6b)")
  | "lib2.rows", [] =>
    match st.schema with
    | some s => (st, sRows s st.lib)
    | none => (st, "bad-op no database")
  | _, _ => (st, "bad-op unknown")

def mode : Drv.Mode := Drv.mkMode "lib2" ({} : St) step

/-! ### the oracle on the implementation's dump -/

/-- `(a,b,c)(d,e,f)` or `()` → rows of fields -/
def splitRows (s : String) : Option (List (List String)) :=
  if s == "()" then some [] else
  if !(s.startsWith "(" && s.endsWith ")") then none else
  let inner := ((s.drop 1).dropEnd 1).toString
  some ((inner.splitOn ")(").map fun r => r.splitOn ",")

def pTextTok (t : String) : Option Bytes :=
  if t.startsWith "s" then parseHexBytes (t.drop 1).toString else none

def pUuidTok (t : String) : Option Bytes := if t == "UUID" then some modelUuid else pTextTok t

def pOptNat (t : String) : Option (Option Nat) := if t == "null" then some none else (parseNat t).map some

def pSeq (t : String) : Option Int := if t == "none" || t == "absent" then some 0 else t.toInt?

def stripPrefix (p s : String) : Option String := if s.startsWith p then some (s.drop p.length).toString else none

/-- the dump → a `Lib2` (columns the invariant does not read are at their defaults) -/
def parseDump (a : List String) : Option Lib2 :=
  match a with
  | [info, seq, tr, pl, pe, cl, art, prep] => do
    let info ← stripPrefix "info" info
    let seq ← stripPrefix "seq" seq
    let [[u, ma, mi, pa]] ← splitRows info | none
    let [[sT, sP, sE, sL, sR]] ← splitRows seq | none
    let uuid ← pUuidTok u
    let ver : Int × Int × Int := (← ma.toInt?, ← mi.toInt?, ← pa.toInt?)
    let trRows ← splitRows (← stripPrefix "Track" tr)
    let rows ← trRows.mapM fun r => match r with
      | [id, path, fn, ft, ou, oi, aa] => do
        pure (⟨← parseNat id, ← pUuidTok ou, ← parseNat oi,
          { (default : Row) with path := ← pTextTok path, filename := ← pTextTok fn, fileType := ← pTextTok ft,
                                 albumArtId := UInt64.ofNat (← parseNat aa) }⟩ : TRow)
      | _ => none
    let plRows ← splitRows (← stripPrefix "Playlist" pl)
    let pls ← plRows.mapM fun r => match r with
      | [id, title, parent, _, next, _] => do
        pure (⟨← id.toInt?, ← parent.toInt?, ← next.toInt?, ← pTextTok title⟩ : EngineModel.Db.Chain.Row Bytes)
      | _ => none
    let peRows ← splitRows (← stripPrefix "PlaylistEntity" pe)
    let pes ← peRows.mapM fun r => match r with
      | [id, l, t, next, _, u] => do
        pure (⟨← id.toInt?, ← l.toInt?, ← next.toInt?, ⟨← t.toInt?, ← u.toInt?⟩⟩ : EngineModel.Db.Chain.Row Ent)
      | _ => none
    let clText ← stripPrefix "ChangeLog" cl
    let logs ← if clText == "absent" then some [] else do
      let rs ← splitRows clText
      rs.mapM fun r => match r with
        | [id, t] => do pure (⟨← parseNat id, ← pOptNat t⟩ : LogRow)
        | _ => none
    let artRows ← splitRows (← stripPrefix "AlbumArt" art)
    let arts ← artRows.mapM fun r => match r with
      | [id] => parseNat id
      | _ => none
    let prepRows ← splitRows (← stripPrefix "PreparelistEntity" prep)
    let preps ← prepRows.mapM fun r => match r with
      | [id, t] => do pure (⟨← parseNat id, ← pOptNat t⟩ : PrepRow)
      | _ => none
    let seqT ← pSeq sT
    pure { tdb := ⟨uuid, seqT.toNat, rows⟩, pl := pls, plSeq := ← pSeq sP, pe := pes, peSeq := ← pSeq sE,
           log := logs, logSeq := (← pSeq sL).toNat, art := arts, prep := preps, prepSeq := (← pSeq sR).toNat, ver := ver }
  | _ => none

def invCmd (a : List String) : String :=
  match a with
  | sch :: "ok" :: dump =>
    match schemaOfName sch, parseDump dump with
    | some s, some L =>
      match libInvWhy s L with
      | none => "ok"
      | some why => "broken " ++ why
    | none, _ => "bad-op schema"
    | _, none => "broken the dump does not parse (a NULL or wrongly typed key column, or an empty Information row)"
  | _ => "bad-op args"

def fkCmd (a : List String) : String :=
  match a with
  | _ :: "ok" :: dump =>
    match parseDump dump with
    | some L =>
      let v := fkCheck L
      unwords ("ok" :: toString v.length :: v.map fun x => s!"{x.table}:{x.rowid}->{x.parent}")
    | none => "broken unparsable"
  | _ => "bad-op args"

def table (cmd : String) (args : List String) : Option String :=
  match cmd with
  | "lib2.inv" => some (invCmd args)
  | "lib2.fk" => some (fkCmd args)
  | _ => none

end Drv.Lib2
