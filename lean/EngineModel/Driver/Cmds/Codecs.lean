/-
Driver commands of the codec work-package (C02–C05):
  unz <blob>            result-level model of zlib_uncompress (Impl.Zlib.unz)
  decz <kind> <blob>    Model of from_blob / decode on a stored blob, framing included
  reenc <kind> <payload> Model of decode-then-encode (2.x kinds)
  inf <stream>          the independent inflate on a bare zlib stream
  stz <payload>         stored-block zlib stream with the 4-byte length prefix
  unframe <blob>        Spec reading of a stored compressed column
-/
import EngineModel.Driver.Cmds.Core
import EngineModel.Impl.Zlib
import EngineModel.Format.V1

open EngineModel EngineModel.Text

namespace Drv

def isRawKind (k : String) : Bool := k == "v2.loops" || k == "v1.loops"

def deczCmd (kind : String) (blob : Bytes) : String :=
  if isRawKind kind then decCmd kind blob else
  match Impl.Zlib.unz blob with
  | .ok payload => decCmd kind payload
  | .throw e => "throw " ++ e.toString
  | .ub u => "ub " ++ u.toString

def reencCmd (kind : String) (payload : Bytes) : String :=
  match kind with
  | "v2.beat" => renderRes hexBytes (Impl.V2.decodeBeat payload >>= fun p => Impl.V2.encodeBeat p.1 p.2)
  | "v2.cues" => renderRes hexBytes (Impl.V2.decodeCues payload >>= fun p => Impl.V2.encodeCues p.1 p.2)
  | "v2.loops" => renderRes hexBytes (Impl.V2.decodeLoops payload >>= fun p => Impl.V2.encodeLoops p.1 p.2)
  | "v2.ovw" => renderRes hexBytes (Impl.V2.decodeOvw payload >>= fun p => Impl.V2.encodeOvw p.1 p.2)
  | "v2.track" => renderRes hexBytes (Impl.V2.decodeTrack payload >>= fun p => Impl.V2.encodeTrack p.1 p.2)
  | _ => "bad-op kind"

/-- Spec encoders / decoders of all eleven kinds (`senc`, `sdec`). -/
def sencCmd (kind : String) (toks : List String) : String :=
  let r (o : Option Bytes) : String := match o with | some b => "ok " ++ hexBytes b | none => "reject"
  match kind with
  | "v1.beat" => match runP pBeat1 toks with | some v => r (V1.encodeBeat v) | none => "bad-op value"
  | "v1.cues" => match runP pCues1 toks with | some v => r (V1.encodeCues v) | none => "bad-op value"
  | "v1.loops" => match runP pLoops1 toks with | some v => r (V1.encodeLoops v) | none => "bad-op value"
  | "v1.ovw" => match runP pWave toks with | some v => r (V1.encodeOvw v) | none => "bad-op value"
  | "v1.hires" => match runP pWave toks with | some v => r (V1.encodeHires v) | none => "bad-op value"
  | "v1.track" => match runP pTrack1 toks with | some v => r (V1.encodeTrack v) | none => "bad-op value"
  | _ => specEncCmd kind toks

def sdecCmd (kind : String) (payload : Bytes) : String :=
  match kind with
  | "v1.beat" => renderSpec sBeat1 (V1.decodeBeat payload)
  | "v1.cues" => renderSpec sCues1 (V1.decodeCues payload)
  | "v1.loops" => renderSpec sLoops1 (V1.decodeLoops payload)
  | "v1.ovw" => renderSpec sWave (V1.decodeOvw payload)
  | "v1.hires" => renderSpec sWave (V1.decodeHires payload)
  | "v1.track" => renderSpec sTrack1 (V1.decodeTrack payload)
  | _ => specDecCmd kind payload

def withHex (h : String) (f : Bytes → String) : String :=
  match parseHexBytes h with
  | some b => f b
  | none => "bad-op hex"

def codecsTable (cmd : String) (args : List String) : Option String :=
  match cmd, args with
  | "unz", [h] => some (withHex h fun b => renderRes hexBytes (Impl.Zlib.unz b))
  | "decz", [k, h] => some (withHex h (deczCmd k))
  | "reenc", [k, h] => some (withHex h (reencCmd k))
  | "senc", k :: v => some (sencCmd k v)
  | "sdec", [k, h] => some (withHex h (sdecCmd k))
  | "inf", [h] => some (withHex h fun b =>
      match Zlib.inflate b with
      | some (o, r) => "ok " ++ hexBytes o ++ " " ++ hexBytes r
      | none => "reject")
  | "stz", [h] => some (withHex h fun b => "ok " ++ hexBytes (Zlib.frame b))
  | "unframe", [h] => some (withHex h fun b =>
      match Zlib.unframe b with
      | some o => "ok " ++ hexBytes o
      | none => "reject")
  | _, _ => none

end Drv
