/-
Driver commands of the codec work-package (C02–C05):
  unz <blob>            result-level model of zlib_uncompress (Impl.Zlib.unz)
  decz <kind> <blob>    Model of from_blob / decode on a stored blob, framing included
  reenc <kind> <payload> Model of decode-then-encode (2.x kinds)
  inf <stream>          the independent inflate on a bare zlib stream
  stz <payload>         stored-block zlib stream with the 4-byte length prefix
  unframe <blob>        Spec reading of a stored compressed column
-/
import EngineModel.Driver.Cmds.Core
import EngineModel.Impl.Zlib
import EngineModel.Impl.ZlibCompress
import EngineModel.Impl.Blob
import EngineModel.Format.V1

open EngineModel EngineModel.Text

namespace Drv

def isRawKind (k : String) : Bool := k == "v2.loops" || k == "v1.loops"

/-- `decz`: the blob-level Model (`Impl/Blob.lean`): `fromBlob = decode ∘ uncompress`, loops raw. -/
def deczCmd (kind : String) (blob : Bytes) : String :=
  match kind with
  | "v2.beat" => renderRes sBeat (Impl.Blob.fromBlobBeat2 blob)
  | "v2.cues" => renderRes sCues (Impl.Blob.fromBlobCues2 blob)
  | "v2.loops" => renderRes sLoops (Impl.Blob.fromBlobLoops2 blob)
  | "v2.ovw" => renderRes sOvw (Impl.Blob.fromBlobOvw2 blob)
  | "v2.track" => renderRes sTrack (Impl.Blob.fromBlobTrack2 blob)
  | "v1.beat" => renderRes sBeat1 (Impl.Blob.fromBlobBeat1 blob)
  | "v1.cues" => renderRes sCues1 (Impl.Blob.fromBlobCues1 blob)
  | "v1.loops" => renderRes sLoops1 (Impl.Blob.fromBlobLoops1 blob)
  | "v1.ovw" => renderRes sWave (Impl.Blob.fromBlobOvw1 blob)
  | "v1.hires" => renderRes sWave (Impl.Blob.fromBlobHires1 blob)
  | "v1.track" => renderRes sTrack1 (Impl.Blob.fromBlobTrack1 blob)
  | _ => "bad-op kind"

def reencCmd (kind : String) (payload : Bytes) : String :=
  match kind with
  | "v2.beat" => renderRes hexBytes (Impl.V2.decodeBeat payload >>= fun p => Impl.V2.encodeBeat p.1 p.2)
  | "v2.cues" => renderRes hexBytes (Impl.V2.decodeCues payload >>= fun p => Impl.V2.encodeCues p.1 p.2)
  | "v2.loops" => renderRes hexBytes (Impl.V2.decodeLoops payload >>= fun p => Impl.V2.encodeLoops p.1 p.2)
  | "v2.ovw" => renderRes hexBytes (Impl.V2.decodeOvw payload >>= fun p => Impl.V2.encodeOvw p.1 p.2)
  | "v2.track" => renderRes hexBytes (Impl.V2.decodeTrack payload >>= fun p => Impl.V2.encodeTrack p.1 p.2)
  | _ => "bad-op kind"

/-- `reencz`: decode-then-encode of a stored blob, framing included (`fromBlob = decode ∘ unz`): the payload
of the re-encoded blob. -/
def reenczCmd (kind : String) (blob : Bytes) : String :=
  match kind with
  | "v2.beat" => renderRes hexBytes (Impl.Blob.fromBlobBeat2 blob >>= fun p => Impl.V2.encodeBeat p.1 p.2)
  | "v2.cues" => renderRes hexBytes (Impl.Blob.fromBlobCues2 blob >>= fun p => Impl.V2.encodeCues p.1 p.2)
  | "v2.loops" => renderRes hexBytes (Impl.Blob.fromBlobLoops2 blob >>= fun p => Impl.V2.encodeLoops p.1 p.2)
  | "v2.ovw" => renderRes hexBytes (Impl.Blob.fromBlobOvw2 blob >>= fun p => Impl.V2.encodeOvw p.1 p.2)
  | "v2.track" => renderRes hexBytes (Impl.Blob.fromBlobTrack2 blob >>= fun p => Impl.V2.encodeTrack p.1 p.2)
  | _ => "bad-op kind"

/-- Spec encoders / decoders of all eleven kinds (`senc`, `sdec`). -/
def sencCmd (kind : String) (toks : List String) : String :=
  let r (o : Option Bytes) : String := match o with | some b => "ok " ++ hexBytes b | none => "reject"
  match kind with
  | "v1.beat" => match runP pBeat1 toks with | some v => r (V1.encodeBeat v) | none => "bad-op value"
  | "v1.cues" => match runP pCues1 toks with | some v => r (V1.encodeCues v) | none => "bad-op value"
  | "v1.loops" => match runP pLoops1 toks with | some v => r (V1.encodeLoops v) | none => "bad-op value"
  | "v1.ovw" => match runP pWave toks with | some v => r (V1.encodeOvw v) | none => "bad-op value"
  | "v1.hires" => match runP pWave toks with | some v => r (V1.encodeHires v) | none => "bad-op value"
  | "v1.track" => match runP pTrack1 toks with | some v => r (V1.encodeTrack v) | none => "bad-op value"
  | _ => specEncCmd kind toks

def sdecCmd (kind : String) (payload : Bytes) : String :=
  match kind with
  | "v1.beat" => renderSpec sBeat1 (V1.decodeBeat payload)
  | "v1.cues" => renderSpec sCues1 (V1.decodeCues payload)
  | "v1.loops" => renderSpec sLoops1 (V1.decodeLoops payload)
  | "v1.ovw" => renderSpec sWave (V1.decodeOvw payload)
  | "v1.hires" => renderSpec sWave (V1.decodeHires payload)
  | "v1.track" => renderSpec sTrack1 (V1.decodeTrack payload)
  | _ => specDecCmd kind payload

/-! `zreplay <payload length> <flush:avail_in:consumed:produced:ret>…` — the Model of the
`zlib_compress` loops run against the *recorded* answers of the real `deflate()` (an oracle that
replays the trace; output bytes are irrelevant for the control flow and are zeros).  Prints the
calls the Model makes; the tie requires them to be exactly the calls the C++ made. -/

def retOfInt (i : Int) : Impl.Zlib.Ret :=
  if i = 0 then .ok else if i = 1 then .streamEnd else if i = 2 then .needDict
  else if i = -5 then .bufError else if i = -3 then .dataError else if i = -4 then .memError else .streamError

def intOfRet : Impl.Zlib.Ret → Int
  | .ok => 0 | .streamEnd => 1 | .needDict => 2 | .bufError => -5 | .dataError => -3 | .memError => -4
  | .streamError => -2

structure TraceCall where
  flush : Nat
  availIn : Nat
  consumed : Nat
  produced : Nat
  ret : Int

def parseTraceCall (s : String) : Option TraceCall :=
  match s.splitOn ":" with
  | [f, a, c, p, r] =>
    match f.toNat?, a.toNat?, c.toNat?, p.toNat?, r.toInt? with
    | some f, some a, some c, some p, some r => some ⟨f, a, c, p, r⟩
    | _, _, _, _, _ => none
  | _ => none

/-- replays the recorded answers; a call beyond the trace answers `streamError` with nothing -/
def traceOracle : Impl.Zlib.DOracle (List TraceCall) where
  step s _win _n _flush :=
    match s with
    | [] => (.streamError, 0, [], [])
    | c :: rest => (retOfInt c.ret, c.consumed, List.replicate c.produced 0, rest)

def zreplayCmd (args : List String) : String :=
  match args with
  | n :: calls =>
    match n.toNat?, calls.mapM parseTraceCall with
    | some n, some tr =>
      let fuel := 2 * tr.length + n / Impl.Zlib.chunk + 16
      match Impl.Zlib.compress traceOracle tr fuel (List.replicate n 0) with
      | .ok (blob, log) =>
        let show1 (c : Impl.Zlib.DCall) : String :=
          (if c.flush = .finish then "4" else "0") ++ ":" ++ toString c.availIn ++ ":" ++ toString c.consumed ++ ":" ++
            toString c.out.length ++ ":" ++ toString (intOfRet c.ret)
        "ok len=" ++ toString blob.length ++ " calls=" ++ toString log.length ++
          String.join (log.map fun c => " " ++ show1 c)
      | .throw e => "throw " ++ e.toString
      | .ub u => "ub " ++ u.toString
    | _, _ => "bad-op trace"
  | _ => "bad-op args"

def withHex (h : String) (f : Bytes → String) : String :=
  match parseHexBytes h with
  | some b => f b
  | none => "bad-op hex"

def codecsTable (cmd : String) (args : List String) : Option String :=
  match cmd, args with
  | "unz", [h] => some (withHex h fun b => renderRes hexBytes (Impl.Zlib.unz b))
  | "decz", [k, h] => some (withHex h (deczCmd k))
  | "reenc", [k, h] => some (withHex h (reencCmd k))
  | "reencz", [k, h] => some (withHex h (reenczCmd k))
  | "senc", k :: v => some (sencCmd k v)
  | "sdec", [k, h] => some (withHex h (sdecCmd k))
  | "inf", [h] => some (withHex h fun b =>
      match Zlib.inflate b with
      | some (o, r) => "ok " ++ hexBytes o ++ " " ++ hexBytes r
      | none => "reject")
  | "zreplay", args => some (zreplayCmd args)
  | "stz", [h] => some (withHex h fun b => "ok " ++ hexBytes (Zlib.frame b))
  | "unframe", [h] => some (withHex h fun b =>
      match Zlib.unframe b with
      | some o => "ok " ++ hexBytes o
      | none => "reject")
  | _, _ => none

end Drv
