/-
Stateful driver mode `cratesv2`: the Model of the schema-2.x crate code
(Db/V2Crates.lean) behind the same line protocol as harness/djv_db.cpp +
harness/djv_cratesv2.cpp.  Handles are script variables bound to ids.
-/
import EngineModel.Driver.Loop
import EngineModel.Driver.Text
import EngineModel.Db.V2Crates

open EngineModel EngineModel.Text EngineModel.Db EngineModel.Db.V2

namespace Drv.CratesV2

structure St where
  db : Db := Db.empty
  crates : List (String × Int) := []
  tracks : List (String × Int) := []
  deriving Inhabited

def showIds (l : List Int) : String := "[" ++ ",".intercalate (l.map toString) ++ "]"
def sortInts (l : List Int) : List Int := l.mergeSort (· ≤ ·)
def showOpt : Option Int → String
  | some i => toString i
  | none => "none"

/-- std::string ordering (bytes, unsigned). -/
def bytesLe : Bytes → Bytes → Bool
  | [], _ => true
  | _ :: _, [] => false
  | a :: x, b :: y => if a < b then true else if b < a then false else bytesLe x y

def sortNames (l : List Bytes) : List Bytes := (l.mergeSort bytesLe).eraseDups

def bind (m : List (String × Int)) (v : String) (i : Int) : List (String × Int) :=
  (m.filter (·.1 != v)) ++ [(v, i)]

def render (r : Res String) : String := r.render id

def renderOut (r : Res Out) : String :=
  render (r.bind fun o => .ok (match o with | some i => s!"id={i}" | none => ""))

def resIds (r : Res (List Int)) : Res String := r.bind fun l => .ok (showIds l)

/-- `v2.obs`: mirror of the harness command (same queries, same text). -/
def obs (st : St) (probe : List Bytes) : Res String := do
  let d := st.db
  let all := sortInts (qCrates d)
  let names ← (all.mapM fun c => qName d c)
  let names := sortNames (probe ++ names)
  let roots ← qRoots d
  let mut o := s!"crates={showIds all} roots={showIds roots}"
  for c in all do
    let n ← qName d c
    let p ← qParent d c
    let ch ← qChildren d c
    let de ← qDescendants d c
    let tr ← qTracks d c
    let sub := ",".intercalate (names.map fun nm => s!"{hexBytes nm}:{showOpt (qByParentName d c nm)}")
    o := o ++ s!" \{{c} n={hexBytes n} p={showOpt p} ch={showIds ch} de={showIds (sortInts de)} " ++
      s!"tr={showIds tr} v={if qValid d c then 1 else 0} sub=[{sub}]}"
  o := o ++ s!" tracks={showIds (sortInts (qAllTracks d))}"
  let nm := ";".intercalate (names.map fun n =>
    s!"{hexBytes n}:all={showIds (sortInts (qByName d n))}:root={showOpt (qByParentName d 0 n)}")
  o := o ++ s!" names=[{nm}]"
  let hs := (st.crates.mergeSort (fun a b => a.1 ≤ b.1)).map fun (v, i) =>
    s!"{v}:{i}:{if qValid d i then 1 else 0}:{if qValid d i then toString i else "none"}"
  o := o ++ s!" h=[{",".intercalate hs}]"
  pure o

def showRows (l : List String) : String := if l.isEmpty then "()" else "".intercalate l

def raw (d : Db) : String :=
  let pl := d.pl.map fun r => s!"({r.id},s{hexBytes r.val},{r.key},1,{r.next},1)"
  let pe := d.pe.map fun r => s!"({r.id},{r.key},{r.val.track},{r.next},0,{r.val.uuid})"
  let tr := d.tracks.map fun t => s!"({t})"
  s!"Playlist{showRows pl} PlaylistEntity{showRows pe} Track{showRows tr} seq({d.plSeq},{d.peSeq},{d.trSeq})"

def doOp (st : St) (op : Op) (bindCrate bindTrack : Option String := none) : St × String :=
  let (d', r) := step st.db op
  let st' := { st with db := d' }
  let st' := match r, bindCrate with
    | .ok (some i), some v => { st' with crates := bind st'.crates v i }
    | _, _ => st'
  let st' := match r, bindTrack with
    | .ok (some i), some v => { st' with tracks := bind st'.tracks v i }
    | _, _ => st'
  (st', renderOut r)

def step (st : St) (cmd : String) (args : List String) : St × String :=
  let cr (v : String) : Option Int := (st.crates.find? (·.1 == v)).map (·.2)
  let tr (v : String) : Option Int := (st.tracks.find? (·.1 == v)).map (·.2)
  match cmd, args with
  | "create", [_, _] => ({}, "ok")
  | "v2.create", [_, _] => ({}, "ok")
  | "mkroot", [v, n] =>
    match parseHexBytes n with
    | some n => doOp st (.createRoot n) (some v)
    | none => (st, "bad-op args")
  | "mkroot_after", [v, n, a] =>
    match parseHexBytes n, cr a with
    | some n, some a => doOp st (.createRootAfter n a) (some v)
    | _, _ => (st, "bad-op args")
  | "mksub", [v, p, n] =>
    match parseHexBytes n, cr p with
    | some n, some p => doOp st (.createSub p n) (some v)
    | _, _ => (st, "bad-op args")
  | "mksub_after", [v, p, n, a] =>
    match parseHexBytes n, cr p, cr a with
    | some n, some p, some a => doOp st (.createSubAfter p n a) (some v)
    | _, _, _ => (st, "bad-op args")
  | "rename", [v, n] =>
    match parseHexBytes n, cr v with
    | some n, some c => doOp st (.rename c n)
    | _, _ => (st, "bad-op args")
  | "setparent", [v, p] =>
    match cr v, (if p == "-" then some none else (cr p).map some) with
    | some c, some p => doOp st (.setParent c p)
    | _, _ => (st, "bad-op args")
  | "rmcrate", [v] =>
    match cr v with
    | some c => doOp st (.removeCrate c)
    | none => (st, "bad-op args")
  | "v2.mktrack", [v, _] => doOp st .createTrack none (some v)
  | "rmtrack", [v] =>
    match tr v with
    | some t => doOp st (.removeTrack t)
    | none => (st, "bad-op args")
  | "addtrack", [c, t] =>
    match cr c, tr t with
    | some c, some t =>
      let (st', r) := doOp st (.addTrack c t)
      (st', if r.startsWith "ok" then "ok" else r)
    | _, _ => (st, "bad-op args")
  | "addtrackid", [c, t] =>
    match cr c, t.toInt? with
    | some c, some t =>
      let (st', r) := doOp st (.addTrack c t)
      (st', if r.startsWith "ok" then "ok" else r)
    | _, _ => (st, "bad-op args")
  | "addforeign", [c, t, u] =>
    match cr c, tr t, u.toInt? with
    | some c, some t, some u =>
      if !qValid st.db c then (st, "ok skipped") else
      let (st', r) := doOp st (.peAddBack c t u false)
      (st', if r.startsWith "ok" then "ok" else r)
    | _, _, _ => (st, "bad-op args")
  | "rmtrackfrom", [c, t] =>
    match cr c, tr t with
    | some c, some t => doOp st (.removeTrackFrom c t)
    | _, _ => (st, "bad-op args")
  | "cleartracks", [c] =>
    match cr c with
    | some c => doOp st (.clearTracks c)
    | none => (st, "bad-op args")
  | "getcrate", [v, i] =>
    match i.toInt? with
    | some i => if qValid st.db i then ({ st with crates := bind st.crates v i }, s!"ok id={i}") else (st, "ok none")
    | none => (st, "bad-op args")
  | "pe.add", [l, t, u, f] =>
    match l.toInt?, t.toInt?, u.toInt? with
    | some l, some t, some u => doOp st (.peAddBack l t u (f == "1"))
    | _, _, _ => (st, "bad-op args")
  | "pe.remove", [l, e] =>
    match l.toInt?, e.toInt? with
    | some l, some e => doOp st (.peRemove l e)
    | _, _ => (st, "bad-op args")
  | "pe.clear", [l] =>
    match l.toInt? with
    | some l => doOp st (.peClear l)
    | none => (st, "bad-op args")
  | "pe.list", [l] =>
    match l.toInt? with
    | some l =>
      (st, render do
        let es ← qEntities st.db l
        let ts ← qTrackIds st.db l
        pure s!"[{",".intercalate (es.map fun (e, t, u) => s!"{e}:{t}:{u}")}] {showIds ts}")
    | none => (st, "bad-op args")
  | "pl.list", [p] =>
    match p.toInt? with
    | some p => (st, render (resIds (qChildren st.db p)))
    | none => (st, "bad-op args")
  | "crate.q", v :: q :: rest =>
    match cr v with
    | none => (st, "bad-op args")
    | some c =>
      let d := st.db
      match q, rest with
      | "id", [] => (st, s!"ok {c}")
      | "valid", [] => (st, s!"ok {if qValid d c then 1 else 0}")
      | "name", [] => (st, render ((qName d c).bind fun n => .ok (hexBytes n)))
      | "parent", [] => (st, render ((qParent d c).bind fun p => .ok (showOpt p)))
      | "children", [] => (st, render (resIds (qChildren d c)))
      | "descendants", [] => (st, render (resIds ((qDescendants d c).bind fun l => .ok (sortInts l))))
      | "tracks", [] => (st, render (resIds (qTracks d c)))
      | "sub_by_name", [n] =>
        match parseHexBytes n with
        | some n => (st, s!"ok {showOpt (qByParentName d c n)}")
        | none => (st, "bad-op args")
      | _, _ => (st, "bad-op query")
  | "db.q", q :: rest =>
    let d := st.db
    match q, rest with
    | "crates", [] => (st, s!"ok {showIds (sortInts (qCrates d))}")
    | "root_crates", [] => (st, render (resIds (qRoots d)))
    | "tracks", [] => (st, s!"ok {showIds (sortInts (qAllTracks d))}")
    | "crate_by_id", [i] =>
      match i.toInt? with
      | some i => (st, s!"ok {if qValid d i then toString i else "none"}")
      | none => (st, "bad-op args")
    | "crates_by_name", [n] =>
      match parseHexBytes n with
      | some n => (st, s!"ok {showIds (sortInts (qByName d n))}")
      | none => (st, "bad-op args")
    | "root_by_name", [n] =>
      match parseHexBytes n with
      | some n => (st, s!"ok {showOpt (qByParentName d 0 n)}")
      | none => (st, "bad-op args")
    | _, _ => (st, "bad-op query")
  | "v2.obs", probe =>
    match probe.mapM parseHexBytes with
    | some p => (st, render (obs st p))
    | none => (st, "bad-op args")
  | "v2.raw", _ => (st, "ok " ++ raw st.db)
  | _, _ => (st, "bad-op unknown")

def mode : Drv.Mode := Drv.mkMode "cratesv2" ({} : St) step

end Drv.CratesV2
