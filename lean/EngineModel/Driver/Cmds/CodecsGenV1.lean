/-
Driver commands that run the 1.x model *regenerated from the C++ sources*
(Gen/ImplV1Gen.lean, tools/tr_blobs_v1.py) instead of the hand-written mirror Impl/V1.lean:
  g1dec <kind> <payload>   Gen.ImplV1.decode*   (1.x kinds)
  g1enc <kind> <value…>    Gen.ImplV1.encode*
Same input and output syntax as `dec` / `enc`.  The ties of C02/C03/C05 run them beside
the real library on every run (validation of the translator's mapping by execution).
-/
import EngineModel.Driver.Cmds.Core
import EngineModel.Gen.ImplV1Gen

open EngineModel EngineModel.Text

namespace Drv

def g1decCmd (kind : String) (payload : Bytes) : String :=
  match kind with
  | "v1.beat" => renderRes sBeat1 (Gen.ImplV1.decodeBeat payload)
  | "v1.cues" => renderRes sCues1 (Gen.ImplV1.decodeCues payload)
  | "v1.loops" => renderRes sLoops1 (Gen.ImplV1.decodeLoops payload)
  | "v1.ovw" => renderRes sWave (Gen.ImplV1.decodeOvw payload)
  | "v1.hires" => renderRes sWave (Gen.ImplV1.decodeHires payload)
  | "v1.track" => renderRes sTrack1 (Gen.ImplV1.decodeTrack payload)
  | _ => "bad-op kind"

def g1encCmd (kind : String) (toks : List String) : String :=
  match kind with
  | "v1.beat" => match runP pBeat1 toks with
    | some v => renderRes hexBytes (Gen.ImplV1.encodeBeat v) | none => "bad-op value"
  | "v1.cues" => match runP pCues1 toks with
    | some v => renderRes hexBytes (Gen.ImplV1.encodeCues v) | none => "bad-op value"
  | "v1.loops" => match runP pLoops1 toks with
    | some v => renderRes hexBytes (Gen.ImplV1.encodeLoops v) | none => "bad-op value"
  | "v1.ovw" => match runP pWave toks with
    | some v => renderRes hexBytes (Gen.ImplV1.encodeOvw v) | none => "bad-op value"
  | "v1.hires" => match runP pWave toks with
    | some v => renderRes hexBytes (Gen.ImplV1.encodeHires v) | none => "bad-op value"
  | "v1.track" => match runP pTrack1 toks with
    | some v => renderRes hexBytes (Gen.ImplV1.encodeTrack v) | none => "bad-op value"
  | _ => "bad-op kind"

def codecsGenV1Table (cmd : String) (args : List String) : Option String :=
  match cmd, args with
  | "g1dec", [k, h] => some (match parseHexBytes h with
      | some b => g1decCmd k b
      | none => "bad-op hex")
  | "g1enc", k :: v => some (g1encCmd k v)
  | _, _ => none

end Drv
