/-
Stateful driver mode `tableapi` (property C18): the Model of the schema-2.x
table API (Table/Track.lean, …) behind the line protocol of
harness/djv_tableapi.cpp (`tt.*`, `tpl.*`, `tpe.*`), and the stateless Spec
commands `c18.norm.*` the direct oracle uses (they depend on Table/Names.lean
and the Spec functions only, never on the generated binding tables).
-/
import EngineModel.Driver.Loop
import EngineModel.Driver.Text
import EngineModel.Driver.Values
import EngineModel.Table.Track
import EngineModel.Table.Lists
import EngineModel.Table.Info

open EngineModel EngineModel.Text EngineModel.Table

namespace Drv.TableApi

/-! ## text form of member values -/

def pInt64 : P Int := lift fun s => do
  let i ← s.toInt?
  if in64 i then pure i else none

def pInt32 : P Int := lift fun s => do
  let i ← s.toInt?
  if in32 i then pure i else none

def pOStr : P (Option Bytes) := do
  let t ← tok
  if t = "none" then pure none
  else if t.startsWith "s" then
    match parseHexBytes (t.drop 1).toString with
    | some b => pure (some b)
    | none => failure
  else failure

def pBool : P Bool := do
  let t ← tok
  if t = "1" then pure true else if t = "0" then pure false else failure

def pFVal : FTy → P FVal
  | .i64 => do let i ← pInt64; pure (.int i)
  | .oi64 => do let i ← pOpt pInt64; pure (.oint i)
  | .oi32 => do let i ← pOpt pInt32; pure (.oint i)
  | .str => do let s ← pBytes; pure (.str s)
  | .ostr => do let s ← pOStr; pure (.ostr s)
  | .odbl => do let x ← pOpt pF; pure (.oreal x)
  | .bool => do let b ← pBool; pure (.bool b)
  | .time => do let i ← pInt64; pure (.time i)
  | .timeText => do let i ← pInt64; pure (.time i)
  | .otime => do let i ← pOpt pInt64; pure (.otime i)
  | .blob .track => do let v ← pTrack; pure (.blob (.track v.1 v.2))
  | .blob .ovw => do let v ← pOvw; pure (.blob (.ovw v.1 v.2))
  | .blob .beat => do let v ← pBeat; pure (.blob (.beat v.1 v.2))
  | .blob .cues => do let v ← pCues; pure (.blob (.cues v.1 v.2))
  | .blob .loops => do let v ← pLoops; pure (.blob (.loops v.1 v.2))

def sOptInt : Option Int → String
  | some i => toString i
  | none => "none"

def sBlob : BlobV → String
  | .track v x => sTrack (v, x)
  | .ovw v x => sOvw (v, x)
  | .beat v x => sBeat (v, x)
  | .cues v x => sCues (v, x)
  | .loops v x => sLoops (v, x)

def sFVal : FVal → String
  | .int i => toString i
  | .oint o => sOptInt o
  | .str s => hexBytes s
  | .ostr none => "none"
  | .ostr (some s) => "s" ++ hexBytes s
  | .oreal none => "none"
  | .oreal (some x) => hex64 x
  | .bool b => if b then "1" else "0"
  | .time ns => toString ns
  | .otime o => sOptInt o
  | .blob v => sBlob v

/-- A row in member declaration order. -/
def pRowOf {F : Type} [DecidableEq F] (fields : List F) (ty : F → FTy) : P (Row F) := do
  let rec go : List F → List (F × FVal) → P (List (F × FVal))
    | [], acc => pure acc
    | f :: fs, acc => do let v ← pFVal (ty f); go fs ((f, v) :: acc)
  let l ← go fields []
  pure fun f => (l.lookup f).getD (.int 0)

def sRowOf {F : Type} (fields : List F) (r : Row F) : String :=
  unwords (fields.map fun f => sFVal (r f))

def showIds (l : List Int) : String := "[" ++ ",".intercalate (l.map toString) ++ "]"
def sortInts (l : List Int) : List Int := l.mergeSort (· ≤ ·)

/-! ## raw dump -/

def pad (n : Nat) (x : Nat) : String :=
  let s := toString x
  String.ofList (List.replicate (n - s.length) '0') ++ s

/-- Civil date of a day count since 1970-01-01 (proleptic Gregorian). -/
def civil (z0 : Int) : Int × Nat × Nat :=
  let z := z0 + 719468
  let era := z / 146097
  let doe := (z - era * 146097).toNat
  let yoe := (doe - doe / 1460 + doe / 36524 - doe / 146096) / 365
  let y : Int := (yoe : Int) + era * 400
  let doy := doe - (365 * yoe + yoe / 4 - yoe / 100)
  let mp := (5 * doy + 2) / 153
  let d := doy - (153 * mp + 2) / 5 + 1
  let m := if mp < 10 then mp + 3 else mp - 9
  (if m ≤ 2 then y + 1 else y, m, d)

/-- `date::format("%F %T", time_point<system_clock, nanoseconds>)` -/
def formatFt (sec frac : Int) : String :=
  let days := sec / 86400
  let sod := (sec % 86400).toNat
  let (y, m, d) := civil days
  let ys := if y < 0 then "-" ++ pad 4 (-y).toNat else pad 4 y.toNat
  s!"{ys}-{pad 2 m}-{pad 2 d} {pad 2 (sod / 3600)}:{pad 2 (sod / 60 % 60)}:{pad 2 (sod % 60)}.{pad 9 frac.toNat}"

def sVal : Val → String
  | .null => "null"
  | .int i => "i" ++ toString i
  | .real x => "f" ++ hex64 x
  | .text s => "s" ++ hexBytes s
  | .blob v => "b[" ++ sBlob v ++ "]"
  | .ft sec frac => "s" ++ hexBytes (formatFt sec frac).toUTF8.toList

def sRaw {C : Type} (cols : List C) (name : C → String) (seq : Int) (rows : Rows C) : String :=
  let rs := rows.map fun r => "{" ++ unwords (cols.map fun c => name c ++ "=" ++ sVal (r c)) ++ "}"
  unwords ((if seq = 0 then "seq=()" else s!"seq=({seq})") :: rs)

/-- The columns the Track table of schema `s` has (DDL order). -/
def trackCols (s : Schema2) : List TCol :=
  TCol.all.filter fun c =>
    if c = .activeOnLoadLoops then s.ge .s2_20_1 else if c = .lastEditTime then s.ge .s2_20_3 else true

/-! ## keeping rows strict

Model rows are functions column → value; a row that went through several
statements is a tower of closures whose tests are re-evaluated on every lookup.
After each command the driver replaces every row by a table of its values
(extensionally the same function). -/

@[noinline] def ofAssoc {C : Type} [DecidableEq C] (l : List (C × Val)) (c : C) : Val :=
  (l.lookup c).getD .null

/-- The values of every row, as data (forces every lookup once). -/
@[noinline] def dataOf {C : Type} (cols : List C) (t : Rows C) : List (List (C × Val)) :=
  t.map fun r => cols.map fun c => (c, r c)

@[noinline] def rowsOf {C : Type} [DecidableEq C] (d : List (List (C × Val))) : Rows C :=
  d.map fun l => ofAssoc l

def freezeRows {C : Type} [DecidableEq C] (cols : List C) (t : Rows C) : Rows C := rowsOf (dataOf cols t)

/-! ## state and commands -/

structure St where
  schema : Option Schema2 := none
  stmts : Option TStmts := none
  t : TDb := TDb.empty
  l : LDb := LDb.empty
  /-- Information.currentPlayedIndiciator (random at creation: known once `inf.setcpi` ran) -/
  cpi : Int := 0

instance : Inhabited St := ⟨{}⟩

def schemaOf (n : String) : Option Schema2 := Schema2.all.find? (·.name == n)
def fieldOf (n : String) : Option TField := TField.all.find? (·.name == n)

def renderUnit (r : Res Unit) : String := r.render fun _ => ""

def renderRow {F : Type} (fields : List F) (r : Res (Option (Row F))) : String :=
  r.render fun
    | none => "none"
    | some g => sRowOf fields g

def freezeSt (st : St) : St :=
  { st with t := { st.t with rows := freezeRows TCol.all st.t.rows },
            l := { st.l with pl := freezeRows PCol.all st.l.pl, pe := freezeRows ECol.all st.l.pe } }

def step0 (st : St) (cmd : String) (args : List String) : St × String :=
  match cmd, args with
  | "tt.create", [n] =>
    match schemaOf n with
    | some s => ({ schema := some s, stmts := genStmts s, t := TDb.empty, l := LDb.empty }, "ok")
    | none => (st, "bad-op schema")
  | _, _ =>
  match st.schema, st.stmts with
  | some s, some sm =>
    match cmd, args with
    | "tt.uuid", [h] =>
      match parseHexBytes h with
      | some b => ({ st with t := { st.t with uuid := .text b } }, "ok")
      | none => (st, "bad-op hex")
    | "tt.clock", [n] =>
      match n.toInt? with
      | some i => ({ st with t := { st.t with clock := i } }, "ok")
      | none => (st, "bad-op int")
    | "tt.add", toks =>
      match runP (pRowOf TField.all TField.ty) toks with
      | none => (st, "bad-op row")
      | some r =>
        let (d, res) := tAdd sm st.t r
        ({ st with t := d }, res.render toString)
    | "tt.update", toks =>
      match runP (pRowOf TField.all TField.ty) toks with
      | none => (st, "bad-op row")
      | some r =>
        let (d, res) := tUpdate s sm st.t r
        ({ st with t := d }, renderUnit res)
    | "tt.get", [i] =>
      match i.toInt? with
      | some i => (st, renderRow TField.all (tGet sm st.t i))
      | none => (st, "bad-op int")
    | "tt.remove", [i] =>
      match i.toInt? with
      | some i =>
        let (d, res) := tRemove sm st.t i
        ({ st with t := d }, renderUnit res)
      | none => (st, "bad-op int")
    | "tt.exists", [i] =>
      match i.toInt? with
      | some i => (st, if tExists st.t i then "ok 1" else "ok 0")
      | none => (st, "bad-op int")
    | "tt.ids", [] => (st, "ok " ++ showIds (sortInts (tIds st.t)))
    | "tt.find", [h] =>
      match parseHexBytes h with
      | some b => (st, "ok " ++ sOptInt (tFindByPath st.t b))
      | none => (st, "bad-op hex")
    | "tt.getc", [f, i] =>
      match fieldOf f, i.toInt? with
      | some f, some i => (st, (tGetc s sm st.t f i).render sFVal)
      | _, _ => (st, "bad-op args")
    | "tt.setc", f :: i :: toks =>
      match fieldOf f, i.toInt? with
      | some f, some i =>
        match runP (pFVal f.accTy) toks with
        | some v =>
          let (d, res) := tSetc s sm st.t f i v
          ({ st with t := d }, renderUnit res)
        | none => (st, "bad-op value")
      | _, _ => (st, "bad-op args")
    | "tt.raw", [] => (st, "ok " ++ sRaw (trackCols s) TCol.name st.t.seq st.t.rows)
    -- playlist_table
    | "tpl.add", toks =>
      match runP (pRowOf PField.all PField.ty) toks with
      | none => (st, "bad-op row")
      | some r =>
        let (d, res) := pAdd genLStmts st.l r
        ({ st with l := d }, res.render toString)
    | "tpl.update", toks =>
      match runP (pRowOf PField.all PField.ty) toks with
      | none => (st, "bad-op row")
      | some r =>
        let (d, res) := pUpdate genLStmts st.l r
        ({ st with l := d }, renderUnit res)
    | "tpl.get", [i] =>
      match i.toInt? with
      | some i => (st, renderRow PField.all (pGet genLStmts st.l i))
      | none => (st, "bad-op int")
    | "tpl.remove", [i] =>
      match i.toInt? with
      | some i =>
        let (d, res) := pRemove genLStmts st.l i
        ({ st with l := d }, renderUnit res)
      | none => (st, "bad-op int")
    | "tpl.exists", [i] =>
      match i.toInt? with
      | some i => (st, if pExists st.l i then "ok 1" else "ok 0")
      | none => (st, "bad-op int")
    | "tpl.ids", [] => (st, "ok " ++ showIds (sortInts (pIds st.l)))
    | "tpl.raw", [] => (st, "ok " ++ sRaw PCol.all PCol.name st.l.plSeq st.l.pl)
    -- playlist_entity_table
    | "tpe.add", toks =>
      match runP (do let r ← pRowOf EField.all EField.ty; let b ← pBool; pure (r, b)) toks with
      | none => (st, "bad-op row")
      | some (r, dup) =>
        let (d, res) := eAddBack genLStmts st.l r dup
        ({ st with l := d }, res.render toString)
    | "tpe.get", [l, t] =>
      match l.toInt?, t.toInt? with
      | some l, some t => (st, renderRow EField.all (eGet genLStmts st.l l t))
      | _, _ => (st, "bad-op int")
    | "tpe.remove", [l, e] =>
      match l.toInt?, e.toInt? with
      | some l, some e =>
        let (d, res) := eRemove genLStmts st.l l e
        ({ st with l := d }, renderUnit res)
      | _, _ => (st, "bad-op int")
    | "tpe.clear", [l] =>
      match l.toInt? with
      | some l => ({ st with l := eClear st.l l }, "ok")
      | none => (st, "bad-op int")
    | "tpe.raw", [] => (st, "ok " ++ sRaw ECol.all ECol.name st.l.peSeq st.l.pe)
    | "tpe.get3", [l, t, u] =>
      match l.toInt?, t.toInt?, parseHexBytes u with
      | some l, some t, some u => (st, renderRow EField.all (eGet3 genLStmts st.l l t u))
      | _, _, _ => (st, "bad-op args")
    | "tpe.list", [l] =>
      match l.toInt? with
      | some l => (st, (eGetForList genLStmts st.l l).render fun gs =>
          "[" ++ " | ".intercalate (gs.map (sRowOf EField.all)) ++ "]")
      | none => (st, "bad-op int")
    | "tpe.tracks", [l] =>
      match l.toInt? with
      | some l => (st, (eTrackIds genLStmts st.l l).render showIds)
      | none => (st, "bad-op int")
    -- information_table
    | "inf.get", [] =>
      (st, (iGet genIStmts (infoRow s st.t.uuid st.cpi)).render (sRowOf IField.all))
    | "inf.setcpi", [v] =>
      match v.toInt? with
      | some v =>
        -- the model row is rebuilt from (uuid, cpi): read the indicator back from the updated row
        let raw := iSetCpi genIStmts (infoRow s st.t.uuid st.cpi) v
        ({ st with cpi := readInt (raw .currentPlayedIndiciator) }, "ok")
      | none => (st, "bad-op int")
    | "inf.raw", [] => (st, "ok " ++ sRaw ICol.all ICol.name 1 [infoRow s st.t.uuid st.cpi])
    | _, _ => (st, "bad-op unknown")
  | _, _ => (st, "bad-op no table-api library")

/-! ## Spec commands (stateless): the oracle's side, independent of the binding tables -/

def pVal0 : P Val := do
  let t ← tok
  if t = "null" then pure .null else
  match parseHexBytes t with
  | some b => pure (.text b)
  | none => failure

def pSchema : P Schema2 := lift schemaOf
def pField : P TField := lift fieldOf
def pIntAny : P Int := lift fun s => s.toInt?

/-! ### dumps for the binding cross-check (tools/props/_tableapi.py `probe`)

`c18.spec <table> [schema]`: the Spec's member ↔ column pairing (Table/Names.lean);
`c18.bind <table> <stmt> [schema]`: the pairing of the regenerated binding table
(Gen/Bindings.lean), as `member:column` / `member:-` items.  The cross-check
compares both with the pairing *observed* on the real library. -/

def sWB {C F : Type} (cn : C → String) (fn : F → String) (ps : List (WB C F)) : String :=
  unwords (ps.map fun p => match p.src with
    | .field f _ => fn f ++ ":" ++ cn p.col
    | .const _ => "-:" ++ cn p.col)

def sRB {C F : Type} (cn : C → String) (fn : F → String) (sel : List (RB C F)) : String :=
  unwords (sel.map fun b => match b.src with
    | .col c _ _ => fn b.field ++ ":" ++ cn c
    | _ => fn b.field ++ ":-")

def sAcc (l : List (Acc TCol TField Schema2)) : String :=
  unwords (l.map fun a => a.field.name ++ ":" ++ a.col.name)

def specDump : List String → String
  | ["track", n] =>
    match schemaOf n with
    | some s => "ok " ++ unwords (TField.all.map fun f => f.name ++ ":" ++ (if f.present s then f.col.name else "-"))
    | none => "bad-op schema"
  | ["playlist"] => "ok " ++ unwords (PField.all.map fun f => f.name ++ ":" ++ f.col.name)
  | ["entity"] => "ok " ++ unwords (EField.all.map fun f => f.name ++ ":" ++ f.col.name)
  | ["info"] => "ok " ++ unwords (IField.all.map fun f => f.name ++ ":" ++ f.col.name)
  | _ => "bad-op args"

def bindDump : List String → String
  | ["track", what, n] =>
    match schemaOf n with
    | none => "bad-op schema"
    | some s =>
      match genStmts s with
      | none => "bad-op no-statements"
      | some st =>
        match what with
        | "ins" => "ok " ++ sWB TCol.name TField.name st.ins
        | "upd" => "ok " ++ sWB TCol.name TField.name st.upd
        | "sel" => "ok " ++ sRB TCol.name TField.name st.sel
        | "getters" => "ok " ++ sAcc st.getters
        | "setters" => "ok " ++ sAcc st.setters
        | _ => "bad-op stmt"
  | ["playlist", "ins"] => "ok " ++ sWB PCol.name PField.name genLStmts.pIns
  | ["playlist", "updsimple"] => "ok " ++ sWB PCol.name PField.name genLStmts.pUpdSimple
  | ["playlist", "updfull"] => "ok " ++ sWB PCol.name PField.name genLStmts.pUpdFull
  | ["playlist", "sel"] => "ok " ++ sRB PCol.name PField.name genLStmts.pSel
  | ["entity", "ins"] => "ok " ++ sWB ECol.name EField.name genLStmts.eIns
  | ["entity", "sel"] => "ok " ++ sRB ECol.name EField.name genLStmts.eSel
  | ["entity", "sel3"] => "ok " ++ sRB ECol.name EField.name genLStmts.eSel3
  | ["entity", "sellist"] => "ok " ++ sRB ECol.name EField.name genLStmts.eSelList
  | ["entity", "removewhere"] =>
    "ok " ++ unwords (genLStmts.eRemoveWhere.map fun ck => ck.1.name ++ ":" ++ toString ck.2)
  | ["info", "sel"] => "ok " ++ sRB ICol.name IField.name genIStmts.sel
  | ["info", "setcpi"] => "ok " ++ genIStmts.setCpi.name
  | _ => "bad-op args"

def specTable (cmd : String) (args : List String) : Option String :=
  match cmd with
  | "c18.norm.track" =>
    some <| match runP (do
        let s ← pSchema; let u ← pVal0; let le ← pOpt pIntAny; let i ← pIntAny
        let r ← pRowOf TField.all TField.ty
        pure (normRowT s u le i r)) args with
      | some r => "ok " ++ sRowOf TField.all r
      | none => "bad-op args"
  | "c18.set.track" =>
    some <| match runP (do
        let s ← pSchema; let u ← pVal0; let c ← pIntAny; let f ← pField
        let v ← pFVal f.accTy
        let r ← pRowOf TField.all TField.ty
        pure (normSetT s u c f v r)) args with
      | some r => "ok " ++ sRowOf TField.all r
      | none => "bad-op args"
  | "c18.norm.playlist" =>
    some <| match runP (do
        let i ← pIntAny
        let r ← pRowOf PField.all PField.ty
        pure (normRowP i r)) args with
      | some r => "ok " ++ sRowOf PField.all r
      | none => "bad-op args"
  | "c18.norm.entity" =>
    some <| match runP (do
        let i ← pIntAny
        let r ← pRowOf EField.all EField.ty
        pure (normRowE i r)) args with
      | some r => "ok " ++ sRowOf EField.all r
      | none => "bad-op args"
  | "c18.acc.track" =>
    some <| match runP (do
        let f ← pField
        let v ← pFVal f.accTy
        pure (fromAcc f v)) args with
      | some v => "ok " ++ sFVal v
      | none => "bad-op args"
  | "c18.norm.info" =>
    some <| match runP (do
        let s ← pSchema; let u ← pBytes; let c ← pIntAny
        pure (normInfo s u c)) args with
      | some r => "ok " ++ sRowOf IField.all r
      | none => "bad-op args"
  | "c18.set.info" =>
    some <| match runP (do
        let v ← pIntAny
        let r ← pRowOf IField.all IField.ty
        pure (normInfoSet v r)) args with
      | some r => "ok " ++ sRowOf IField.all r
      | none => "bad-op args"
  | "c18.spec" => some (specDump args)
  | "c18.bind" => some (bindDump args)
  | _ => none

def step (st : St) (cmd : String) (args : List String) : St × String :=
  match specTable cmd args with
  | some out => (st, out)        -- Spec commands: no state
  | none =>
    let (st', out) := step0 st cmd args
    (freezeSt st', out)

def mode : Drv.Mode := Drv.mkMode "tableapi" ({} : St) step

end Drv.TableApi
