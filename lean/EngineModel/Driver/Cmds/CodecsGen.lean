/-
Driver commands that run the model *regenerated from the C++ sources*
(Gen/ImplV2Gen.lean, tools/tr_blobs.py) instead of the hand-written mirror:
  gdec <kind> <payload>   Gen.ImplV2.decode*   (2.x kinds)
  genc <kind> <value…>    Gen.ImplV2.encode*
Same input and output syntax as `dec` / `enc`.  The tie of C02/C03/C05 runs
them beside the real library on every run: this validates the translator's
mapping (AST node kind ↦ combinator) by execution, independently of the proofs.
-/
import EngineModel.Driver.Cmds.Core
import EngineModel.Gen.ImplV2Gen

open EngineModel EngineModel.Text

namespace Drv

def gdecCmd (kind : String) (payload : Bytes) : String :=
  match kind with
  | "v2.beat" => renderRes sBeat (Gen.ImplV2.decodeBeat payload)
  | "v2.cues" => renderRes sCues (Gen.ImplV2.decodeCues payload)
  | "v2.loops" => renderRes sLoops (Gen.ImplV2.decodeLoops payload)
  | "v2.ovw" => renderRes sOvw (Gen.ImplV2.decodeOvw payload)
  | "v2.track" => renderRes sTrack (Gen.ImplV2.decodeTrack payload)
  | _ => "bad-op kind"

def gencCmd (kind : String) (toks : List String) : String :=
  match kind with
  | "v2.beat" => match runP pBeat toks with
    | some v => renderRes hexBytes (Gen.ImplV2.encodeBeat v.1 v.2) | none => "bad-op value"
  | "v2.cues" => match runP pCues toks with
    | some v => renderRes hexBytes (Gen.ImplV2.encodeCues v.1 v.2) | none => "bad-op value"
  | "v2.loops" => match runP pLoops toks with
    | some v => renderRes hexBytes (Gen.ImplV2.encodeLoops v.1 v.2) | none => "bad-op value"
  | "v2.ovw" => match runP pOvw toks with
    | some v => renderRes hexBytes (Gen.ImplV2.encodeOvw v.1 v.2) | none => "bad-op value"
  | "v2.track" => match runP pTrack toks with
    | some v => renderRes hexBytes (Gen.ImplV2.encodeTrack v.1 v.2) | none => "bad-op value"
  | _ => "bad-op kind"

def codecsGenTable (cmd : String) (args : List String) : Option String :=
  match cmd, args with
  | "gdec", [k, h] => some (match parseHexBytes h with
      | some b => gdecCmd k b
      | none => "bad-op hex")
  | "genc", k :: v => some (gencCmd k v)
  | _, _ => none

end Drv
