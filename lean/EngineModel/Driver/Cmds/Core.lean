/-
Driver commands of the first groups (pure cores, detection, blob codecs).
  model mode: `enc`/`dec`/… run the Model (Impl mirror of the C++);
  spec  mode: `spec.enc`/`spec.dec`/… run the Spec (the oracle).
A command table is a function `cmd → args → Option result`; `none` = not mine.
-/
import EngineModel.Driver.Values
import EngineModel.Pure.Cxx
import EngineModel.Pure.Waveform
import EngineModel.Pure.Beatgrid
import EngineModel.Pure.BeatgridFloat
import EngineModel.Pure.Detect
import EngineModel.Gen.TrackUtilsGen
import EngineModel.Gen.DetectGen
import EngineModel.Impl.V2
import EngineModel.Impl.V1

open EngineModel EngineModel.Text

namespace Drv

/-! ### hardware floats for the generated/pure code -/
def floatOps : Cxx.FloatOps Float where
  toI64 x :=
    if x.isNaN then none
    else if x ≥ 9223372036854775808.0 ∨ x < -9223372036854775808.0 then none
    else some x.toInt64.toInt
  ofI64 i := (Int64.ofInt i).toFloat
  ofU64 n := (UInt64.ofNat n).toFloat
  div a b := a / b

def fbits (x : Float) : String := hex64 x.toBits

def resOpt {α} (f : α → String) : Option α → String
  | some a => "ok " ++ f a
  | none => "ub float_cast_range"

def wfHi (a : List String) : String :=
  match a with
  | [n, r] =>
    match n.toNat?, parseHex64 r with
    | some n, some r =>
      if n ≥ 18446744073709551616 then "bad-op u64" else
      resOpt (fun p => s!"{p.1} {fbits p.2}")
        (Gen.TrackUtils.calculate_high_resolution_waveform_extents floatOps n (Float.ofBits r))
    | _, _ => "bad-op args"
  | _ => "bad-op args"

def wfOv (a : List String) : String :=
  match a with
  | [n, r] =>
    match n.toNat?, parseHex64 r with
    | some n, some r =>
      if n ≥ 18446744073709551616 then "bad-op u64" else
      resOpt (fun p => s!"{p.1} {fbits p.2}")
        (Gen.TrackUtils.calculate_overview_waveform_extents floatOps n (Float.ofBits r))
    | _, _ => "bad-op args"
  | _ => "bad-op args"

/-- Spec view of the same question: sizes from the hand model over ℕ
(`r` = truncated rate supplied by the caller). -/
def wfSpec (a : List String) : String :=
  match a with
  | [n, r] =>
    match n.toNat?, r.toNat? with
    | some n, some r =>
      s!"ok {Pure.Waveform.hiSize n r} {Pure.Waveform.hiSpan n r} {Pure.Waveform.ovSize n r} {Pure.Waveform.ovRounded n r}"
    | _, _ => "bad-op args"
  | _ => "bad-op args"

/-! ### beat grid normalisation over hardware floats -/
/-- The hardware-float instance lives in `Pure/BeatgridFloat.lean` (C20 states theorems about it). -/
abbrev floatNum : Pure.Beatgrid.Num Float := Pure.Beatgrid.floatNum

open Pure.Beatgrid in
def bgNorm (a : List String) : String :=
  let p : P (Int × List (Marker Float)) := do
    let n ← lift parseInt
    let g ← pList (do
      let i ← lift parseInt
      let o ← pF
      pure (⟨i, Float.ofBits o⟩ : Marker Float))
    pure (n, g)
  match runP p a with
  | none => "bad-op args"
  | some (n, g) =>
    if n < -9223372036854775808 ∨ n > 9223372036854775807 then "bad-op i64" else
    if g.any (fun m => m.index < -2147483648 ∨ m.index > 2147483647) then "bad-op i32" else
    (normalize floatNum g n).render fun out =>
      unwords (toString out.length :: out.flatMap fun m => [toString m.index, fbits m.off])

/-! ### schema / layout detection -/
open Pure.Detect in
def plantCmd (detect : Int → Int → Int → Bool → Detected) (a : List String) : String :=
  match a with
  | [pres, ma, mi, pa, nu] =>
    match ma.toInt?, mi.toInt?, pa.toInt? with
    | some ma, some mi, some pa =>
      let legacy := pres.contains 'L'
      let db2 := pres.contains 'D'
      (loadModel detect legacy db2 ma mi pa (nu == "1")).render
    | _, _, _ => "bad-op args"
  | _ => "bad-op args"

/-! ### blob codecs -/

def renderRes {α} (f : α → String) (r : Res α) : String := r.render f

def encCmd (kind : String) (toks : List String) : String :=
  match kind with
  | "v2.beat" => match runP pBeat toks with
    | some v => renderRes hexBytes (Impl.V2.encodeBeat v.1 v.2) | none => "bad-op value"
  | "v2.cues" => match runP pCues toks with
    | some v => renderRes hexBytes (Impl.V2.encodeCues v.1 v.2) | none => "bad-op value"
  | "v2.loops" => match runP pLoops toks with
    | some v => renderRes hexBytes (Impl.V2.encodeLoops v.1 v.2) | none => "bad-op value"
  | "v2.ovw" => match runP pOvw toks with
    | some v => renderRes hexBytes (Impl.V2.encodeOvw v.1 v.2) | none => "bad-op value"
  | "v2.track" => match runP pTrack toks with
    | some v => renderRes hexBytes (Impl.V2.encodeTrack v.1 v.2) | none => "bad-op value"
  | "v1.beat" => match runP pBeat1 toks with
    | some v => renderRes hexBytes (Impl.V1.encodeBeat v) | none => "bad-op value"
  | "v1.cues" => match runP pCues1 toks with
    | some v => renderRes hexBytes (Impl.V1.encodeCues v) | none => "bad-op value"
  | "v1.loops" => match runP pLoops1 toks with
    | some v => renderRes hexBytes (Impl.V1.encodeLoops v) | none => "bad-op value"
  | "v1.ovw" => match runP pWave toks with
    | some v => renderRes hexBytes (Impl.V1.encodeOvw v) | none => "bad-op value"
  | "v1.hires" => match runP pWave toks with
    | some v => renderRes hexBytes (Impl.V1.encodeHires v) | none => "bad-op value"
  | "v1.track" => match runP pTrack1 toks with
    | some v => renderRes hexBytes (Impl.V1.encodeTrack v) | none => "bad-op value"
  | _ => "bad-op kind"

def decCmd (kind : String) (payload : Bytes) : String :=
  match kind with
  | "v2.beat" => renderRes sBeat (Impl.V2.decodeBeat payload)
  | "v2.cues" => renderRes sCues (Impl.V2.decodeCues payload)
  | "v2.loops" => renderRes sLoops (Impl.V2.decodeLoops payload)
  | "v2.ovw" => renderRes sOvw (Impl.V2.decodeOvw payload)
  | "v2.track" => renderRes sTrack (Impl.V2.decodeTrack payload)
  | "v1.beat" => renderRes sBeat1 (Impl.V1.decodeBeat payload)
  | "v1.cues" => renderRes sCues1 (Impl.V1.decodeCues payload)
  | "v1.loops" => renderRes sLoops1 (Impl.V1.decodeLoops payload)
  | "v1.ovw" => renderRes sWave (Impl.V1.decodeOvw payload)
  | "v1.hires" => renderRes sWave (Impl.V1.decodeHires payload)
  | "v1.track" => renderRes sTrack1 (Impl.V1.decodeTrack payload)
  | _ => "bad-op kind"

def renderSpec {α} (f : α → String) : Option α → String
  | some a => "ok " ++ f a
  | none => "reject"

/-- Spec encoders: the layout only; `reject` when the value is outside the format. -/
def specEncCmd (kind : String) (toks : List String) : String :=
  match kind with
  | "v2.beat" => match runP pBeat toks with
    | some v => "ok " ++ hexBytes (V2.beat.enc v.1 ++ v.2) | none => "bad-op value"
  | "v2.cues" => match runP pCues toks with
    | some v => if v.1.cues.all (fun q => q.label.length ≤ 255) then "ok " ++ hexBytes (V2.cues.enc v.1 ++ v.2) else "reject"
    | none => "bad-op value"
  | "v2.loops" => match runP pLoops toks with
    | some v => if v.1.all (fun l => l.label.length ≤ 255) then "ok " ++ hexBytes (V2.loops.enc v.1 ++ v.2) else "reject"
    | none => "bad-op value"
  | "v2.ovw" => match runP pOvw toks with
    | some v => if v.1.points.length % 3 = 0 ∧ v.1.maxPt.length = 3 then "ok " ++ hexBytes (V2.ovw.enc v.1 ++ v.2) else "reject"
    | none => "bad-op value"
  | "v2.track" => match runP pTrack toks with
    | some v => "ok " ++ hexBytes (V2.track.enc v.1 ++ v.2) | none => "bad-op value"
  | _ => "bad-op kind"

def specDecCmd (kind : String) (payload : Bytes) : String :=
  match kind with
  | "v2.beat" => renderSpec sBeat (V2.beat.dec payload)
  | "v2.cues" => renderSpec sCues (V2.cues.dec payload)
  | "v2.loops" => renderSpec sLoops (V2.loops.dec payload)
  | "v2.ovw" => renderSpec sOvw (V2.ovw.dec payload)
  | "v2.track" => renderSpec sTrack (V2.track.dec payload)
  | _ => "bad-op kind"

def table (cmd : String) (args : List String) : Option String :=
  match cmd, args with
  | "wf.hi", a => some (wfHi a)
  | "wf.ov", a => some (wfOv a)
  | "wf.spec", a => some (wfSpec a)
  | "bg.norm", a => some (bgNorm a)
  | "plant", a => some (plantCmd Gen.Detect.detectGen a)
  | "spec.plant", a => some (plantCmd Pure.Detect.specDetect a)
  | "enc", k :: v => some (encCmd k v)
  | "dec", [k, h] => some (match parseHexBytes h with
      | some b => decCmd k b | none => "bad-op hex")
  | "spec.enc", k :: v => some (specEncCmd k v)
  | "spec.dec", [k, h] => some (match parseHexBytes h with
      | some b => specDecCmd k b | none => "bad-op hex")
  | _, _ => none

end Drv
