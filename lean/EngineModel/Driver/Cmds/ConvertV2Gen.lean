/-
Driver commands of the regenerated schema-2.x conversions (work-package convertv2):
  cv.<ns>_<function> <arguments>   runs `Gen.ConvertV2.<ns>_<function>` (translated from
  convert_track.hpp / convert_hot_cues.hpp / convert_loops.hpp by tools/tr_convert_v2.py on every
  run) over hardware floats; harness/djv_convertv2.cpp runs the real `convert::<ns>::<function>` on
  the same line and the two answers are compared as text (validation of the translator's mapping by
  execution, independent of the equality proofs).  Value syntax: the snapshot syntax of the
  `tracksv2` mode (`none` | value; doubles as hex bits; cues `none | some <label> <off> <a r g b>`).
-/
import EngineModel.Driver.Cmds.TracksV2
import EngineModel.Gen.ConvertV2Gen

open EngineModel EngineModel.Text EngineModel.TracksV2

namespace Drv.Cv
open Drv.T2 Gen.ConvertV2

def run {α β} (p : P α) (f : α → Res β) (s : β → String) (a : List String) : String :=
  match runP p a with
  | none => "bad-op args"
  | some x => (f x).render s

def sOF : Option F → String := sOpt hex64
def sOI64 : Option UInt64 → String := sOpt showI64
def sOI32 : Option UInt32 → String := sOpt showI32

/-- a `track_data_blob` with one interesting field -/
def tdWith (rate : F) (samples : UInt64) (lo : F) : V2.Track := ⟨rate, samples, 0, lo, lo, lo⟩

def pCueList : P (List V2.Cue) := pList pCue
def pLoopList : P (List V2.Loop) := pList pLoop

def table (cmd : String) (a : List String) : Option String :=
  match cmd with
  | "cv.write_rating" => some (run (pOpt pI32) write_rating showI64 a)
  | "cv.read_rating" => some (run pI64 read_rating sOI32 a)
  | "cv.write_duration" => some (run (pOpt pI64) write_duration showI64 a)
  | "cv.read_duration" => some (run pI64 read_duration sOI64 a)
  | "cv.write_bpm" => some (run (pOpt pF) write_bpm (fun p => unwords [sOF p.1, sOI64 p.2]) a)
  | "cv.read_bpm" => some (run (do let x ← pOpt pF; let y ← pOpt pI64; pure (x, y)) (fun p => read_bpm hwOps p.1 p.2) sOF a)
  | "cv.write_key" => some (run (pOpt pI32) write_key (fun p => unwords [sOI32 p.1, showI32 p.2]) a)
  | "cv.read_key" => some (run (pOpt pI32) read_key sOI32 a)
  | "cv.write_average_loudness" => some (run (pOpt pF) write_average_loudness hex64 a)
  | "cv.read_average_loudness" => some (run pF (fun x => read_average_loudness (tdWith 0 0 x)) sOF a)
  | "cv.write_sample_rate" => some (run (pOpt pF) write_sample_rate hex64 a)
  | "cv.read_sample_rate" => some (run pF (fun x => read_sample_rate (tdWith x 0 0)) sOF a)
  | "cv.write_sample_count" => some (run (pOpt pU64) (write_sample_count hwOps) (fun p => unwords [showI64 p.1, hex64 p.2]) a)
  | "cv.read_sample_count" => some (run pI64 (fun x => read_sample_count (tdWith 0 x 0)) (sOpt sU64) a)
  | "cv.write_album_art_id" => some (run (pOpt pI64) write_album_art_id showI64 a)
  | "cv.read_album_art_id" => some (run pI64 read_album_art_id sOI64 a)
  | "cv.write_main_cue" => some (run (pOpt pF) write_main_cue hex64 a)
  | "cv.read_main_cue" => some (run pF read_main_cue sOF a)
  | "cv.write_hot_cue" => some (run (pSomeNone' pHotCue') write_hot_cue sCue a)
  | "cv.read_hot_cue" => some (run pCue read_hot_cue sOptCue' a)
  | "cv.write_hot_cues" => some (run (pList (pSomeNone' pHotCue')) write_hot_cues (sList sCue) a)
  | "cv.read_hot_cues" => some (run pCueList (fun q => read_hot_cues ⟨q, 0, true, 0⟩) (sList sOptCue') a)
  | "cv.write_loop" => some (run (pSomeNone' pLoopV') write_loop sLoop a)
  | "cv.read_loop" => some (run pLoop read_loop sOptLoop' a)
  | "cv.write_loops" => some (run (pList (pSomeNone' pLoopV')) write_loops (fun b => sLoops (b.loops, b.extra)) a)
  | "cv.read_loops" => some (run pLoopList (fun l => read_loops ⟨l, []⟩) (sList sOptLoop') a)
  | "cv.read_beatgrid_marker" => some (run pMarker read_beatgrid_marker sGM a)
  | "cv.read_beatgrid_markers" => some (run (pList pMarker) read_beatgrid_markers (sList sGM) a)
  | "cv.write_beatgrid_markers" => some (run (pList pGM) write_beatgrid_markers (sList sMarker) a)
  | "cv.write_beatgrid" => some (run (pList pGM) write_beatgrid
      (fun p => unwords [sU8 p.1, sList sMarker p.2.1, sList sMarker p.2.2]) a)
  | "cv.empty_cue" => some (run (pure ()) (fun _ => quick_cue_blob_empty) sCue a)
  | "cv.empty_loop" => some (run (pure ()) (fun _ => loop_blob_empty) sLoop a)
  | _ => none

end Drv.Cv
