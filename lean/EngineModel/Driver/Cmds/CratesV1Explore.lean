/-
Driver mode `v1explore`: bounded-exhaustive exploration of the state space of
the schema-1.x crate Model, as a *generator of scripts* for the tie.

Input: ONE line  `explore <depth> <maxHandles>`.
The explorer runs exactly the interpreter the tie compares against the real
library (`Drv.CratesV1.step` on `Drv.CratesV1.St`), breadth first from the
state after `create schema_1_6_0 mem`, over DISTINCT states.  A state is
(Db, crate handle variables); it is keyed by the canonical text of the raw rows
(`Drv.CratesV1.rawText`, rows sorted) plus the variable bindings.  The forest
part of the Model does not depend on the schema version, so the printed scripts
are schema-parametric: the create line is printed as `create $SCHEMA mem`.

Alphabet at a state whose bound handles are c0..c(k-1) (a handle stays bound
after its crate was removed, so operations on removed handles are included),
names N = [61, 62, -, 783b79] = "a", "b", "", "x;y":
  k < maxHandles:  mkroot ck n (n ∈ N);  mksub ck h n (h handle, n ∈ N)
  rename h n (h handle, n ∈ N)
  setparent h q (h handle, q ∈ handles ∪ {-})
  rmcrate h (h handle)
A create that fails leaves ck unbound, so the next create re-uses the name.

Every distinct state at BFS depth ≤ depth-1 is expanded; for each one script
is printed: the shortest path of operations from the start state (an
observation after every operation), `v1.save`, then every edge of the alphabet
followed by an observation and `v1.restore`.  Last line:
  #end states=<distinct states> expanded=<scripts> edges=<edges> levels=<new states per depth>
-/
import Std.Data.HashSet
import EngineModel.Driver.Loop
import EngineModel.Driver.Cmds.CratesV1

open EngineModel EngineModel.Pure.Detect

namespace Drv.CratesV1Explore
open Drv.CratesV1

def names : List String := ["61", "62", "-", "783b79"]

def obsLine : String := "v1.obs 61 62 7a"

/-- The operation alphabet, in the order the edges are printed. -/
def alphabet (handles : List String) (maxHandles : Nat) : List (String × List String) :=
  let k := handles.length
  let creates :=
    if k < maxHandles then
      let v := s!"c{k}"
      names.map (fun n => ("mkroot", [v, n])) ++
      handles.flatMap (fun h => names.map fun n => ("mksub", [v, h, n]))
    else []
  creates ++
  handles.flatMap (fun h => names.map fun n => ("rename", [h, n])) ++
  handles.flatMap (fun h => (handles ++ ["-"]).map fun q => ("setparent", [h, q])) ++
  handles.map (fun h => ("rmcrate", [h]))

def opLine (op : String × List String) : String := " ".intercalate (op.1 :: op.2)

/-- Canonical key of a state: sorted raw rows + handle bindings. -/
def key (s : Schema) (st : St) : String :=
  rawText s st.db ++ " V" ++ String.join (st.cvars.map fun (v, i) => s!" {v}={i}")

structure Node where
  st : St
  rpath : List String      -- operation lines of the shortest path, last first

def scriptHead (n depth : Nat) (nd : Node) : String :=
  s!"#script {n} depth={depth}\n#mode cratesv1\ncreate $SCHEMA mem\n" ++
  String.join (nd.rpath.reverse.map fun l => l ++ "\n" ++ obsLine ++ "\n") ++
  "v1.save\n"

def explore (depth maxHandles : Nat) (out : IO.FS.Stream) : IO Unit := do
  let s := Schema.schema_1_6_0
  let (st0, _) := step ({} : St) "create" [s.name, "mem"]
  let mut seen : Std.HashSet String := {}
  seen := seen.insert (key s st0)
  let mut frontier : Array Node := #[⟨st0, []⟩]
  let mut levels : Array Nat := #[1]
  let mut nStates := 1
  let mut nScripts := 0
  let mut nEdges := 0
  for d in [0:depth] do
    let mut next : Array Node := #[]
    for nd in frontier do
      let mut buf := scriptHead nScripts d nd
      nScripts := nScripts + 1
      for op in alphabet (nd.st.cvars.map (·.1)) maxHandles do
        let l := opLine op
        buf := buf ++ l ++ "\n" ++ obsLine ++ "\nv1.restore\n"
        nEdges := nEdges + 1
        let (st', _) := step nd.st op.1 op.2
        let k := key s st'
        if !seen.contains k then
          seen := seen.insert k
          next := next.push ⟨st', l :: nd.rpath⟩
      out.putStr buf
    nStates := nStates + next.size
    levels := levels.push next.size
    frontier := next
  out.putStrLn (s!"#end states={nStates} expanded={nScripts} edges={nEdges} levels=" ++
    ",".intercalate (levels.toList.map toString))

def run (h out : IO.FS.Stream) : IO Unit := do
  let line ← h.getLine
  match tokens (chomp line) with
  | ["explore", d, m] =>
    match d.toNat?, m.toNat? with
    | some depth, some maxHandles => explore depth maxHandles out
    | _, _ => out.putStrLn "bad-op explore <depth> <maxHandles>"
  | _ => out.putStrLn "bad-op explore <depth> <maxHandles>"

def mode : Drv.Mode := ⟨"v1explore", run⟩

end Drv.CratesV1Explore
