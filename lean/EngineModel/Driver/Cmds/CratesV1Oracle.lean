/-
Stateful driver mode `v1oracle`: the DIRECT ORACLE of C07/C08/C11 (1.x half).
Input lines are the script lines of a history *followed by the real library's
answer*:      <command> <args…> => <what the harness printed>
The oracle never looks at the Model.  It steps `Spec.Forest` and `Spec.Members`
with the ids the implementation reported, checks every answer against the
Spec's verdict (accept / reject / either), compares every `v1.obs` answer with
`Spec.Forest.observe` / the membership relation, and evaluates the executable
`WfRaw` on the raw rows the harness read back.  Output per line: `ok`, or
`violation <tag> | <details>` (first failing check; later lines of that script
answer `skipped`).
-/
import EngineModel.Driver.Loop
import EngineModel.Driver.Text
import EngineModel.Api.CratesV1Wf
import EngineModel.Spec.Members
import EngineModel.Spec.PathParts

open EngineModel EngineModel.Text EngineModel.Pure.Detect

namespace Drv.CratesV1Oracle
open EngineModel.Api.CratesV1 (Id Name Db CrateRow TrackRow)
open EngineModel.Spec

/-! ### parsed implementation answers -/
structure ICrate where
  id : Id
  valid : Option Bool
  name : Option Name
  parent : Option (Option Id)
  children : Option (List Id)
  descendants : Option (List Id)
  tracks : Option (List Id)
  byId : Option (Option Id)
  sub : List (Option (Option Id))

structure ITrack where
  id : Id
  valid : Option Bool
  containing : Option (List Id)

structure IName where
  name : Name
  byName : Option (List Id)
  rootByName : Option (Option Id)

structure IObs where
  crates : Option (List Id)
  roots : Option (List Id)
  tracks : Option (List Id)
  perCrate : List ICrate
  perTrack : List ITrack
  perName : List IName
  raw : Db
  ctlView : List (Id × Id)

/-- A field that may be `!exception`: `none` = the query threw. -/
def pGuard {α} (f : String → Option α) : P (Option α) := do
  let t ← tok
  if t.startsWith "!" then pure none else
  match f t with
  | some a => pure (some a)
  | none => failure

def parseList (s : String) : Option (List Id) :=
  if s == "-" then some [] else (s.splitOn ",").mapM (·.toInt?)

def parseOid (s : String) : Option (Option Id) :=
  if s == "none" then some none else s.toInt?.map some

def parseB (s : String) : Option Bool :=
  if s == "1" then some true else if s == "0" then some false else none

def expect (s : String) : P Unit := do
  let t ← tok
  if t == s then pure () else failure

def splitRows (s : String) : Option (List (List String)) :=
  if s == "()" then some [] else
  if !(s.startsWith "(" && s.endsWith ")") then none else
  let inner := ((s.drop 1).dropEnd 1).toString
  some ((inner.splitOn ")(").map (·.splitOn ","))

def parsePairs (s : String) : Option (List (Id × Id)) := do
  let rs ← splitRows s
  rs.mapM fun r => match r with
    | [a, b] => do pure ((← a.toInt?), (← b.toInt?))
    | _ => none

def parseText (s : String) : Option Name :=
  if s.startsWith "s" then parseHexBytes (s.drop 1).toString else none

def parseCrateRows (s : String) : Option (List CrateRow) := do
  let rs ← splitRows s
  rs.mapM fun r => match r with
    | [a, b, c] => do pure ⟨(← a.toInt?), (← parseText b), (← parseText c)⟩
    | _ => none

def parseTrackRows (s : String) : Option (List TrackRow) := do
  let rs ← splitRows s
  rs.mapM fun r => match r with
    | [a, b] => do pure ⟨(← a.toInt?), (← parseB b)⟩
    | _ => none

partial def pEntries (cs : List ICrate) (ts : List ITrack) (ns : List IName) :
    P (List ICrate × List ITrack × List IName) := do
  match (← peek) with
  | some "C" =>
    let _ ← tok
    let id ← lift (·.toInt?)
    let valid ← pGuard parseB
    let name ← pGuard parseHexBytes
    let parent ← pGuard parseOid
    let ch ← pGuard parseList
    let de ← pGuard parseList
    let tr ← pGuard parseList
    let byId ← pGuard parseOid
    let k ← pNat
    let rec subs : Nat → List (Option (Option Id)) → P (List (Option (Option Id)))
      | 0, acc => pure acc.reverse
      | n + 1, acc => do let r ← pGuard parseOid; subs n (r :: acc)
    let sub ← subs k []
    pEntries (cs ++ [⟨id, valid, name, parent, ch, de, tr, byId, sub⟩]) ts ns
  | some "T" =>
    let _ ← tok
    let id ← lift (·.toInt?)
    let valid ← pGuard parseB
    let cont ← pGuard parseList
    pEntries cs (ts ++ [⟨id, valid, cont⟩]) ns
  | some "N" =>
    let _ ← tok
    let name ← lift parseHexBytes
    let byName ← pGuard parseList
    let root ← pGuard parseOid
    pEntries cs ts (ns ++ [⟨name, byName, root⟩])
  | _ => pure (cs, ts, ns)

def pObs : P IObs := do
  expect "crates"; let crates ← pGuard parseList
  expect "roots"; let roots ← pGuard parseList
  expect "tracks"; let tracks ← pGuard parseList
  let (cs, ts, ns) ← pEntries [] [] []
  expect "raw"
  expect "Crate"; let crate ← lift parseCrateRows
  expect "CPL"; let cpl ← lift parsePairs
  expect "CH"; let ch ← lift parsePairs
  expect "CTL"; let ctl ← lift parsePairs
  expect "Track"; let track ← lift parseTrackRows
  expect "LTL"
  let t ← tok
  let stored ← if t == "-" then pure ctl else match parsePairs t with
    | some l => pure l
    | none => failure
  pure { crates, roots, tracks, perCrate := cs, perTrack := ts, perName := ns,
         raw := ⟨crate, cpl, ch, stored, track, 0⟩, ctlView := ctl }

/-! ### oracle state -/
structure St where
  forest : Forest.Forest := Forest.empty
  members : Members.State := Members.empty
  cvars : List (String × Id) := []
  tvars : List (String × Id) := []
  dead : Bool := false
  lastOp : String := "create"
  removed : List Id := []      -- ids of crates removed in this history and not handed out again since

inductive IRes where
  | ok (id : Option Id)
  | none_          -- `ok none` (getcrate)
  | thrown
  | ub
  | other (s : String)

def parseIRes (toks : List String) : IRes :=
  match toks with
  | ["ok"] => .ok none
  | ["ok", "none"] => .none_
  | ["ok", t] =>
    if t.startsWith "id=" then
      match (t.drop 3).toString.toInt? with
      | some i => .ok (some i)
      | none => .other t
    else .other t
  | "throw" :: _ => .thrown
  | "ub" :: _ => .ub
  | l => .other (" ".intercalate l)

def put (vars : List (String × Id)) (v : String) (i : Id) : List (String × Id) :=
  (vars.filter (·.1 != v)) ++ [(v, i)]
def get (vars : List (String × Id)) (v : String) : Option Id := (vars.find? (·.1 == v)).map (·.2)

def viol (st : St) (tag details : String) : St × String :=
  ({ st with dead := true }, s!"violation {tag} | after {st.lastOp}: {details}")

/-- Judge one crate operation against `Spec.Forest.step`; `mem` = what the membership Spec is told on success. -/
def judgeForest (st : St) (op : Forest.Op) (r : IRes)
    (onOk : St → Forest.Forest → Forest.Forest → St) : St × String :=
  let f := st.forest
  let newId := match r with | .ok (some i) => i | _ => 0
  let isCreate := match op with | .createRoot _ | .createSub _ _ => true | _ => false
  match r with
  | .ub => viol st "ub" "the call has undefined behaviour"
  | .other s => viol st "protocol" s!"unexpected answer {s}"
  | .none_ => viol st "protocol" "unexpected answer none"
  | .thrown =>
    match Forest.step f op newId with
    | .accept _ => viol st "forest.verdict.must-accept" s!"{repr op} threw but the Spec accepts it"
    | _ => (st, "ok")
  | .ok _ =>
    match Forest.step f op newId with
    | .reject => viol st "forest.verdict.must-reject" s!"{repr op} succeeded but the Spec rejects it"
    | .accept f' | .either f' =>
      if isCreate && !Forest.freshId f newId then
        viol st "forest.id-collision" s!"new crate got id {newId} of a live crate"
      else
        let gone := f.ids.filter (fun i => !f'.ids.contains i)
        let st1 := onOk { st with forest := f', removed := (st.removed ++ gone).filter (· != newId || !isCreate) } f f'
        -- recorded finding `v1-removed-crate-id-reissued`: reported, but the oracle goes on judging
        if isCreate && st.removed.contains newId then
          (st1, s!"known forest.removed-id-reissued | after {st.lastOp}: the new crate got id {newId}, the id of a crate removed earlier in this history (handles to the removed crate now designate the new one)")
        else (st1, "ok")

def judgeMembers (st : St) (op : Members.Op) (r : IRes) : St × String :=
  match r with
  | .ub => viol st "ub" "the call has undefined behaviour"
  | .other s => viol st "protocol" s!"unexpected answer {s}"
  | .none_ => viol st "protocol" "unexpected answer none"
  | .thrown =>
    match Members.step st.members op with
    | .accept _ => viol st "members.verdict.must-accept" s!"{repr op} threw but the Spec accepts it"
    | _ => (st, "ok")
  | .ok _ =>
    match Members.step st.members op with
    | .reject => viol st "members.verdict.must-reject" s!"{repr op} succeeded but the Spec rejects it"
    | .accept s' | .either s' => ({ st with members := s' }, "ok")

def membersTell (st : St) (op : Members.Op) : St :=
  match Members.step st.members op with
  | .accept s' | .either s' => { st with members := s' }
  | .reject => st

/-! ### comparing an observation with the Specs -/
def sortIds := Forest.sortIds

def showL (l : List Id) : String := toString l
def showOL : Option (List Id) → String
  | some l => toString l
  | none => "<threw>"

/-- First failing check, as (tag, details). -/
def firstFail (checks : List (Unit → Option (String × String))) : Option (String × String) :=
  checks.findSome? (fun c => c ())

def chk (b : Bool) (tag : String) (details : Unit → String) : Unit → Option (String × String) :=
  fun _ => if b then none else some (tag, details ())

def checkForestObs (f : Forest.Forest) (o : IObs) : Option (String × String) :=
  let live := f.ids
  let liveSet (l : List Id) : Bool := l.all live.contains
  firstFail (
    [ chk (o.crates == some (sortIds f.ids)) "forest.crates" (fun _ => s!"crates() = {showOL o.crates}, Spec {showL (sortIds f.ids)}"),
      chk (o.roots == some (sortIds f.roots)) "forest.root_crates" (fun _ => s!"root_crates() = {showOL o.roots}, Spec {showL (sortIds f.roots)}") ] ++
    (f.crates.flatMap fun c =>
      match o.perCrate.find? (·.id == c.id) with
      | none => [chk false "forest.crates" (fun _ => s!"live crate {c.id} not observed")]
      | some ic =>
        [ chk (ic.valid == some true) "forest.is_valid" (fun _ => s!"live crate {c.id} is not valid"),
          chk (ic.name == some c.name) "forest.name" (fun _ => s!"name of {c.id}"),
          chk (ic.parent == some c.parent) "forest.parent" (fun _ => s!"parent({c.id}) = {repr ic.parent}, Spec {repr c.parent}"),
          chk (ic.children == some (sortIds (f.children c.id))) "forest.children"
            (fun _ => s!"children({c.id}) = {showOL ic.children}, Spec {showL (sortIds (f.children c.id))}"),
          chk (ic.descendants == some (sortIds (f.descendants c.id))) "forest.descendants"
            (fun _ => s!"descendants({c.id}) = {showOL ic.descendants}, Spec {showL (sortIds (f.descendants c.id))}"),
          chk (ic.byId == some (some c.id)) "forest.crate_by_id" (fun _ => s!"crate_by_id({c.id})") ] ++
        ((o.perName.map (·.name)).zip ic.sub).map fun (n, r) =>
          let m := f.byParentName (some c.id) n
          chk (match r with
               | some (some i) => m.contains i
               | some none => m.isEmpty
               | none => false) "forest.sub_crate_by_name"
            (fun _ => s!"{c.id}.sub_crate_by_name({hexBytes n}) = {repr r}, Spec matches {showL m}")) ++
    (o.perName.flatMap fun n =>
      [ chk (n.byName == some (sortIds (f.byName n.name))) "forest.crates_by_name"
          (fun _ => s!"crates_by_name({hexBytes n.name}) = {showOL n.byName}, Spec {showL (sortIds (f.byName n.name))}"),
        chk (match n.rootByName with
             | some (some i) => (f.byParentName none n.name).contains i
             | some none => (f.byParentName none n.name).isEmpty
             | none => false) "forest.root_crate_by_name"
          (fun _ => s!"root_crate_by_name({hexBytes n.name}) = {repr n.rootByName}, Spec matches {showL (f.byParentName none n.name)}") ]) ++
    -- removed crates: handles are invalid, lookups by id fail, and no query anywhere returns one
    ((o.perCrate.filter (fun ic => !live.contains ic.id)).flatMap fun ic =>
      [ chk (ic.valid == some false) "forest.removed.is_valid" (fun _ => s!"removed crate {ic.id} still valid"),
        chk (ic.byId == some none) "forest.removed.crate_by_id" (fun _ => s!"crate_by_id({ic.id}) finds a removed crate") ]) ++
    (o.perCrate.flatMap fun ic =>
      [ chk (liveSet (ic.children.getD []) && liveSet (ic.descendants.getD []) &&
             (match ic.parent with | some (some p) => live.contains p | _ => true) &&
             ic.sub.all (fun r => match r with | some (some i) => live.contains i | _ => true))
          "forest.removed-returned" (fun _ => s!"a query on crate {ic.id} returned a removed crate") ]) ++
    (o.perName.map fun n =>
      chk (liveSet (n.byName.getD []) && (match n.rootByName with | some (some i) => live.contains i | _ => true))
        "forest.removed-returned" (fun _ => s!"a lookup of name {hexBytes n.name} returned a removed crate")) ++
    (o.perTrack.map fun t =>
      chk (liveSet (t.containing.getD [])) "forest.removed-returned"
        (fun _ => s!"containing_crates({t.id}) returned a removed crate")))

def checkMembersObs (f : Forest.Forest) (s : Members.State) (o : IObs) : Option (String × String) :=
  firstFail (
    [ chk (o.tracks == some (sortIds s.tracks)) "members.db_tracks" (fun _ => s!"tracks() = {showOL o.tracks}, Spec {showL (sortIds s.tracks)}"),
      chk (sortIds s.crates == sortIds f.ids) "oracle.internal" (fun _ => "crate sets of the two Specs differ") ] ++
    (s.crates.flatMap fun c =>
      match o.perCrate.find? (·.id == c) with
      | none => []
      | some ic =>
        [ chk (ic.tracks == some (sortIds (Members.tracksOf s c))) "members.tracks"
            (fun _ => s!"{c}.tracks() = {showOL ic.tracks}, Spec {showL (sortIds (Members.tracksOf s c))}") ]) ++
    (s.tracks.flatMap fun t =>
      match o.perTrack.find? (·.id == t) with
      | none => [chk false "members.db_tracks" (fun _ => s!"live track {t} not observed")]
      | some it =>
        [ chk (it.valid == some true) "members.track_is_valid" (fun _ => s!"live track {t} is not valid"),
          chk (it.containing == some (sortIds (Members.cratesOf s t))) "members.containing_crates"
            (fun _ => s!"containing_crates({t}) = {showOL it.containing}, Spec {showL (sortIds (Members.cratesOf s t))}") ]) ++
    ((o.perTrack.filter (fun it => !s.tracks.contains it.id)).flatMap fun it =>
      [ chk (it.valid == some false) "members.removed.track_is_valid" (fun _ => s!"removed track {it.id} still valid"),
        chk (it.containing.getD [] == []) "members.removed.containing_crates"
          (fun _ => s!"removed track {it.id} is still in crates {showOL it.containing}") ]) ++
    ((o.perCrate.filter (fun ic => !s.crates.contains ic.id)).map fun ic =>
      chk (ic.tracks.getD [] == []) "members.removed.tracks" (fun _ => s!"removed crate {ic.id} still lists tracks {showOL ic.tracks}")))

/-- C11, derived per-track columns: `filename` is the file-name part of `path`, and the file-extension
MetaData row (type 13) holds the extension of that file name (NULL when there is none) — judged with the
independent Spec `Spec.PathParts` (longest suffix without '/' resp. '.'), not with the model's rfind/substr. -/
def parseOptText (s : String) : Option (Option Name) :=
  if s == "null" then some none else (parseText s).map some

def parseTrackCols (s : String) : Option (List (Id × Option Name × Option Name)) := do
  let rs ← splitRows s
  rs.mapM fun r => match r with
    | [a, b, c] => do pure ((← a.toInt?), (← parseOptText b), (← parseOptText c))
    | _ => none

def parseExtRows (s : String) : Option (List (Id × Option Name)) := do
  let rs ← splitRows s
  rs.mapM fun r => match r with
    | [a, b] => do pure ((← a.toInt?), (← parseOptText b))
    | _ => none

def checkTrackCols (tr : List (Id × Option Name × Option Name)) (ext : List (Id × Option Name)) : Option (String × String) :=
  firstFail (tr.flatMap fun (id, path, fname) =>
    match path with
    | none => []
    | some p =>
      let want := PathParts.fileNamePart p
      let wantExt := PathParts.extensionPart want
      let got := (ext.filter (·.1 == id)).map (·.2)
      [ chk (fname == some want) "wfraw.track-filename"
          (fun _ => s!"track {id}: path {hexBytes p}, filename {repr (fname.map hexBytes)}, expected {hexBytes want}"),
        chk (got == [wantExt] || (wantExt == none && got == [])) "wfraw.track-extension"
          (fun _ => s!"track {id}: path {hexBytes p}, extension rows {repr (got.map (·.map hexBytes))}, expected {repr (wantExt.map hexBytes)}") ])

def parseIdRows (s : String) : Option (List Id) := do
  let rs ← splitRows s
  rs.mapM fun r => match r with
    | [a] => a.toInt?
    | _ => none

/-- No MetaData / MetaDataInteger / PerformanceData row of a track that does not exist. -/
def checkTrackDeps (dep perf ids : List Id) : Option (String × String) :=
  firstFail [
    chk (dep.all ids.contains) "wfraw.metadata-of-missing-track"
      (fun _ => s!"MetaData / MetaDataInteger rows of tracks {dep.filter (fun i => !ids.contains i)} which are not in Track {ids}"),
    chk (perf.all ids.contains) "wfraw.performancedata-of-missing-track"
      (fun _ => s!"PerformanceData rows of tracks {perf.filter (fun i => !ids.contains i)} which are not in Track {ids}") ]

def checkWf (o : IObs) : Option (String × String) :=
  match Api.CratesV1.wfFailures o.raw with
  | [] => none
  | t :: rest => some ("wfraw." ++ t, s!"raw rows violate WfRaw: {t :: rest}")

/-! ### interpreter -/
def withC (st : St) (v : String) (k : Id → St × String) : St × String :=
  match get st.cvars v with
  | some i => k i
  | none => (st, "ok")       -- the harness answered bad-op; nothing to judge

def withT (st : St) (v : String) (k : Id → St × String) : St × String :=
  match get st.tvars v with
  | some i => k i
  | none => (st, "ok")

def splitArrow (toks : List String) : List String × List String :=
  (toks.takeWhile (· != "=>"), (toks.dropWhile (· != "=>")).drop 1)

def stepLine (st : St) (cmd : String) (args : List String) : St × String :=
  let (a, rt) := splitArrow args
  if st.dead then (st, "skipped") else
  if rt.head? == some "bad-op" then (st, "ok") else
  let r := parseIRes rt
  let st := if cmd == "v1.obs" then st else { st with lastOp := cmd }
  match cmd, a with
  | "create", _ => ({ lastOp := "create" }, "ok")
  | "mkroot", [v, n] =>
    match parseHexBytes n with
    | some n => judgeForest st (.createRoot n) r fun st _ _ =>
        match r with
        | .ok (some i) => membersTell { st with cvars := put st.cvars v i } (.newCrate i)
        | _ => st
    | none => (st, "ok")
  | "mksub", [v, p, n] =>
    match parseHexBytes n with
    | some n => withC st p fun pid => judgeForest st (.createSub pid n) r fun st _ _ =>
        match r with
        | .ok (some i) => membersTell { st with cvars := put st.cvars v i } (.newCrate i)
        | _ => st
    | none => (st, "ok")
  | "rename", [v, n] =>
    match parseHexBytes n with
    | some n => withC st v fun c => judgeForest st (.rename c n) r fun st _ _ => st
    | none => (st, "ok")
  | "setparent", [v, p] =>
    withC st v fun c =>
      if p == "-" then judgeForest st (.setParent c none) r fun st _ _ => st
      else withC st p fun q => judgeForest st (.setParent c (some q)) r fun st _ _ => st
  | "rmcrate", [v] =>
    withC st v fun c => judgeForest st (.remove c) r fun st f f' =>
      membersTell st (.dropCrates (f.ids.filter (fun i => !f'.ids.contains i)))
  | "getcrate", [v, i] =>
    match i.toInt?, r with
    | some i, .ok (some j) =>
      if i == j && st.forest.live i then ({ st with cvars := put st.cvars v j }, "ok")
      else viol st "forest.crate_by_id" s!"crate_by_id({i}) returned {j}"
    | some i, .none_ => if st.forest.live i then viol st "forest.crate_by_id" s!"crate_by_id({i}) found nothing" else (st, "ok")
    | _, _ => viol st "protocol" "getcrate"
  | "v1.mktrack", v :: _ =>
    match r with
    | .ok (some i) =>
      if st.members.tracks.contains i then viol st "members.id-collision" s!"new track got id {i} of a live track"
      else (membersTell { st with tvars := put st.tvars v i } (.newTrack i), "ok")
    | _ => viol st "protocol" "track creation failed"
  | "rmtrack", [v] => withT st v fun t => judgeMembers st (.dropTrack t) r
  | "addtrack", [v, t] => withC st v fun c => withT st t fun t => judgeMembers st (.add c t) r
  | "addtrackid", [v, t] =>
    match t.toInt? with
    | some t => withC st v fun c => judgeMembers st (.add c t) r
    | none => (st, "ok")
  | "rmtrackfrom", [v, t] => withC st v fun c => withT st t fun t => judgeMembers st (.remove c t) r
  | "cleartracks", [v] => withC st v fun c => judgeMembers st (.clear c) r
  | "v1.save", _ => (st, "ok")
  | "v1.restore", _ => (st, "ok")     -- handled by `stepWithImage`
  | "v1.trackcols", _ =>
    match rt with
    | ["ok", "Track", t, "Ext", e, "Dep", d, "Perf", p, "Ids", i] =>
      match parseTrackCols t, parseExtRows e, parseIdRows d, parseIdRows p, parseIdRows i with
      | some tr, some ex, some dep, some perf, some ids =>
        match checkTrackCols tr ex with
        | some (tag, d) => viol st tag d
        | none =>
          match checkTrackDeps dep perf ids with
          | some (tag, d) => viol st tag d
          | none => (st, "ok")
      | _, _, _, _, _ => viol st "protocol" "unparsable v1.trackcols"
    | _ => viol st "protocol" "v1.trackcols failed"
  | "rawq", _ =>
    -- supporting run-time checks: PRAGMA integrity_check answers one row 'ok', foreign_key_check no row
    match rt with
    | ["ok", "(s6f6b)"] | ["ok", "()"] => (st, "ok")
    | _ => viol st "wfraw.sqlite-check" ("PRAGMA check answered " ++ " ".intercalate rt)
  | "db.q", _ =>
    match a, r with
    | ["verify"], .ok none => (st, "ok")
    | ["verify"], _ => viol st "wfraw.verify" ("verify() answered " ++ " ".intercalate rt)
    | _, _ => (st, "ok")
  | "v1.obs", _ =>
    match rt with
    | "ok" :: body =>
      match runP pObs body with
      | none => viol st "protocol" "unparsable observation"
      | some o =>
        -- the three families are judged independently; every failing one is named (first failing check of each)
        match [checkForestObs st.forest o, checkMembersObs st.forest st.members o, checkWf o].filterMap id with
        | [] => (st, "ok")
        | (t, d) :: rest =>
          let (st', line) := viol st t d
          (st', line ++ String.join (rest.map fun (t, d) => s!" ## {t} | {d}"))
    | _ => viol st "protocol" "observation failed"
  | _, _ => (st, "ok")

/-- Oracle state plus the image taken at `v1.save`. -/
structure StI where
  cur : St := {}
  saved : Option St := none

def step (sti : StI) (cmd : String) (args : List String) : StI × String :=
  match cmd with
  | "v1.save" => ({ sti with saved := some sti.cur }, if sti.cur.dead then "skipped" else "ok")
  | "v1.restore" =>
    match sti.saved with
    | some s => ({ sti with cur := s }, "ok")
    | none => (sti, "ok")
  | _ =>
    let (st', r) := stepLine sti.cur cmd args
    ({ sti with cur := st' }, r)

def mode : Drv.Mode := Drv.mkMode "v1oracle" ({} : StI) step

end Drv.CratesV1Oracle
