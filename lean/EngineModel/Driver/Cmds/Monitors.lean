/-
Driver commands of the monitor properties C14 / C16 / C10.
  txn.shape    <kinds>              -> ok atomic | nonatomic         (C14: the monitor)
  txn.closed   <kinds>              -> ok closed | open              (C10: no scope left open)
  txn.observer <kinds>              -> ok readonly | writes          (C16: observer criterion)
  txn.faults   <kinds>              -> ok <number of faultable statements>
  txn.exec <k|none> <auto:0|1> <kinds>
        -> ok raised=<0|1> changed=<0|1> autocommit=<0|1> durable=<ids> trace=<kinds, ! = injected>
     the Model's run of the call under that fault plan; every write appends its
     position to a log, so `changed` = something became durable.
  c16.run <kinds>                   -> ok observer=<0|1> unchanged=<0|1> repeat=<0|1> nowrite=<0|1> closed=<0|1>
     the operation with these statements (every write appends to a log, the answer is the whole visible
     database) applied twice through `Observe.run` from rest: `isObserver`, "connection state as before",
     "both answers equal"; and the weaker criteria of C16_no_write_no_change / C10.
  c10.reload <schema>               -> ok <schema detected after stamping>   (Gen.Detect)
  c10.col <existing-schema|none> <requested-schema>
        -> ok created=<0|1> schema=<…>                                (create_or_load logic)
  dir.run <shape> <entry> <schema-1.x> <schema-2.x>
        -> ok a1=<answer> a2=<answer> after=<shape>
     the directory model (Spec/Dir.lean) on the shape of harness `c16.probe` (N0 | <m><p><d>), the entry point
     applied twice; answers: 1 | 0 | loaded_<schema> | created | throw:<class>
  dir.layout <schema>               -> ok <shape the creator of <schema> leaves in an empty directory>
  c14.skel <kinds>                  -> ok <skeleton: reads dropped, the writes of one scope counted once>
  c14.allowed <v1|v2> <operation>   -> ok <skeletons the concrete model's operation can have, '|' separated>
     | ok unmodelled     (public operation names as in tools/props/C14.py, without the '(...)' suffix)
`<kinds>` is a comma separated list of begin|commit|rollback|write|read, `-` = empty.
-/
import EngineModel.Driver.Text
import EngineModel.Spec.Txn
import EngineModel.Spec.Observe
import EngineModel.Spec.Dir
import EngineModel.Spec.Stmts
import EngineModel.Api.CratesV1Stmts
import EngineModel.Db.V2CratesStmts
import EngineModel.TracksV2.Stmts
import EngineModel.TracksV1.Stmts
import EngineModel.Pure.Detect
import EngineModel.Gen.DetectGen

open EngineModel EngineModel.Text EngineModel.Spec.Txn EngineModel.Spec.Observe

namespace Drv

def parseKinds (s : String) : Option (List CmdKind) :=
  if s = "-" then some [] else
  (s.splitOn ",").mapM fun t => CmdKind.ofName t

def showEv (e : Ev) : String := e.kind.name ++ (if e.injected then "!" else "")

def showTrace (t : List Ev) : String :=
  if t.isEmpty then "-" else ",".intercalate (t.map showEv)

def b01 (b : Bool) : String := if b then "1" else "0"

def txnExec (fault : Option Nat) (auto : Bool) (ks : List CmdKind) : String :=
  let r := call fault auto (logCmds ks 0) ([] : List Nat)
  let durable := if r.conn.committed.isEmpty then "-" else ",".intercalate (r.conn.committed.map toString)
  s!"ok raised={b01 r.raised} changed={b01 (!r.conn.committed.isEmpty)} " ++
  s!"autocommit={b01 r.conn.working.isNone} durable={durable} trace={showTrace r.trace}"

def c16Run (ks : List CmdKind) : String :=
  let op : Op (List Nat) (List Nat) := ⟨logCmds ks 0, id⟩
  let r := run (Conn.idle ([] : List Nat)) [op, op]
  let unchanged := r.1.committed.isEmpty && r.1.working.isNone
  let rep := match r.2 with
    | [some a, some b] => a == b
    | _ => false
  s!"ok observer={b01 (isObserver op)} unchanged={b01 unchanged} repeat={b01 rep} " ++
  s!"nowrite={b01 (ks.all (· != .write))} closed={b01 (closedShape ks)}"

/-- `track::set_<name>` of the 2.x model -/
def v2Setter : String → Option TracksV2.Setter
  | "album" => some (.album none) | "artist" => some (.artist none) | "average_loudness" => some (.averageLoudness none)
  | "beatgrid" => some (.beatgrid []) | "bitrate" => some (.bitrate none) | "bpm" => some (.bpm none)
  | "comment" => some (.comment none) | "composer" => some (.composer none) | "duration" => some (.duration none)
  | "genre" => some (.genre none) | "hot_cue_at" => some (.hotCueAt 0 none) | "hot_cues" => some (.hotCues [])
  | "key" => some (.key none) | "last_played_at" => some (.lastPlayedAt none) | "loop_at" => some (.loopAt 0 none)
  | "loops" => some (.loops []) | "main_cue" => some (.mainCue none) | "publisher" => some (.publisher none)
  | "rating" => some (.rating none) | "relative_path" => some (.relativePath []) | "sample_count" => some (.sampleCount none)
  | "sample_rate" => some (.sampleRate none) | "title" => some (.title none) | "track_number" => some (.trackNumber none)
  | "waveform" => some (.waveform []) | "year" => some (.year none)
  | _ => none

/-- `track::set_<name>` of the 1.x model -/
def v1Field : String → Option TracksV1.Field
  | "album" => some .album | "artist" => some .artist | "average_loudness" => some .averageLoudness
  | "beatgrid" => some .beatgrid | "bitrate" => some .bitrate | "bpm" => some .bpm
  | "comment" => some .comment | "composer" => some .composer | "duration" => some .duration
  | "genre" => some .genre | "hot_cue_at" => some (.hotCueAt 0) | "hot_cues" => some .hotCues
  | "key" => some .key | "last_played_at" => some .lastPlayedAt | "loop_at" => some (.loopAt 0)
  | "loops" => some .loops | "main_cue" => some .mainCue | "publisher" => some .publisher
  | "rating" => some .rating | "relative_path" => some .relativePath | "sample_count" => some .sampleCount
  | "sample_rate" => some .sampleRate | "title" => some .title | "track_number" => some .trackNumber
  | "waveform" => some .waveform | "year" => some .year
  | _ => none

open Spec.Stmts in
/-- the skeletons of the concrete statement programs, by public operation name -/
def c14Allowed (gen op : String) : Option (List Skeleton) :=
  let v1 (o : Api.CratesV1.Op) : Option (List Skeleton) := some [Api.CratesV1.skeletonOf o]
  let v2 (o : Db.V2.Op) : Option (List Skeleton) := some (Db.V2.allowed o)
  match gen, op with
  | "v1", "create_root_crate" | "v1", "create_root_crate_after" => v1 (.createRoot [])
  | "v1", "create_sub_crate" | "v1", "create_sub_crate_after" => v1 (.createSub 0 [])
  | "v1", "crate.set_name" => v1 (.rename 0 [])
  | "v1", "crate.set_parent" => v1 (.setParent 0 none)
  | "v1", "remove_crate" => v1 (.removeCrate 0)
  | "v1", "crate.add_track" => v1 (.addTrack 0 0)
  | "v1", "crate.remove_track" => v1 (.removeTrackFrom 0 0)
  | "v1", "crate.clear_tracks" => v1 (.clearTracks 0)
  | "v1", "create_track" => v1 .createTrack
  | "v1", "remove_track" => v1 (.removeTrack 0)
  | "v2", "create_root_crate" => v2 (.createRoot [])
  | "v2", "create_root_crate_after" => v2 (.createRootAfter [] 0)
  | "v2", "create_sub_crate" => v2 (.createSub 0 [])
  | "v2", "create_sub_crate_after" => v2 (.createSubAfter 0 [] 0)
  | "v2", "crate.set_name" => v2 (.rename 0 [])
  | "v2", "crate.set_parent" => v2 (.setParent 0 none)
  | "v2", "remove_crate" => v2 (.removeCrate 0)
  | "v2", "crate.add_track" => v2 (.addTrack 0 0)
  | "v2", "crate.remove_track" => v2 (.removeTrackFrom 0 0)
  | "v2", "crate.clear_tracks" => v2 (.clearTracks 0)
  | "v2", "create_track" => v2 .createTrack
  | "v2", "remove_track" => v2 (.removeTrack 0)
  | "v2", "track.update" => some [(TracksV2.TOp.update 0 default).skeleton]
  | "v1", "track.update" => some [(TracksV1.TOp.update 0 default).skeleton]
  | "v2", name =>
    if name.startsWith "track.set_" then (v2Setter (name.drop 10).toString).map fun σ => [(TracksV2.TOp.set 0 σ).skeleton] else none
  | "v1", name =>
    if name.startsWith "track.set_" then (v1Field (name.drop 10).toString).map fun f => [if f.scoped then .scope else .single] else none
  | _, _ => none

open Pure.Detect Spec.Dir in
def dirEntry (entry : String) (d : Dir) : Option (Dir × String) :=
  let showS (r : Res Schema) : String := showRes (fun s => "loaded_" ++ s.name) r
  let showB (r : Res Bool) : String := showRes (fun b => if b then "1" else "0") r
  let col (req : Schema) : Option (Dir × String) :=
    let r := createOrLoadAt d req
    some (r.dir, match r.res with
      | .ok s => if r.created then "created" else "loaded_" ++ s.name
      | e => showS e)
  match entry with
  | "engine.database_exists" => let r := databaseExists d; some (r.1, showB r.2)
  | "engine.load_database" | "engine.load_database(1-arg)" | "engine.load_and_observe" =>
    let r := loadDatabase d; some (r.1, showS r.2)
  | "engine.create_or_load_database(1.x)" => col .schema_1_18_0_os
  | "engine.create_or_load_database(2.x)" | "engine.create_or_load_database(3-arg)" => col .schema_2_21_2
  | "v2.engine_library.exists" => let r := v2Exists d; some (r.1, showB r.2)
  | "v2.engine_library.load" | "v2.engine_library.load_and_observe" => let r := v2Load d; some (r.1, showS r.2)
  | _ => none

open Pure.Detect Spec.Dir in
def dirRun (sh entry : String) (s1 s2 : Schema) : String :=
  match Dir.ofShape sh s1 s2 with
  | none => "bad-op shape"
  | some d =>
    match dirEntry entry d with
    | none => "bad-op entry"
    | some (d1, a1) =>
      match dirEntry entry d1 with
      | none => "bad-op entry"
      | some (d2, a2) => s!"ok a1={a1} a2={a2} after={d2.shape}"

open Pure.Detect in
def monitorsTable (cmd : String) (args : List String) : Option String :=
  match cmd, args with
  | "txn.shape", [k] => some (match parseKinds k with
      | some ks => if atomicShape ks then "ok atomic" else "ok nonatomic"
      | none => "bad-op kind")
  | "txn.closed", [k] => some (match parseKinds k with
      | some ks => if closedShape ks then "ok closed" else "ok open"
      | none => "bad-op kind")
  | "txn.observer", [k] => some (match parseKinds k with
      | some ks => if readOnlyShape ks then "ok readonly" else "ok writes"
      | none => "bad-op kind")
  | "txn.faults", [k] => some (match parseKinds k with
      | some ks => s!"ok {countFaultable ks}"
      | none => "bad-op kind")
  | "txn.exec", [f, a, k] => some (
      match parseKinds k, (if f = "none" then some none else f.toNat?.map some) with
      | some ks, some fault => txnExec fault (a == "1") ks
      | _, _ => "bad-op args")
  | "c16.run", [k] => some (match parseKinds k with
      | some ks => c16Run ks
      | none => "bad-op kind")
  | "c10.reload", [s] => some (match Schema.ofName s with
      | some s => (loadCreated s).render
      | none => "bad-op schema")
  | "c10.col", [ex, req] => some (
      match Schema.ofName req, (if ex = "none" then some none else (Schema.ofName ex).map some) with
      | some req, some ex =>
        match createOrLoadDir ex req with
        | (created, .loaded s) => s!"ok created={b01 created} schema={s.name}"
        | (_, o) => o.render
      | _, _ => "bad-op schema")
  | "c14.skel", [k] => some (match parseKinds k with
      | some ks => "ok " ++ Spec.Stmts.showKinds (Spec.Stmts.skeleton ks)
      | none => "bad-op kind")
  | "c14.allowed", [gen, op] => some (match c14Allowed gen op with
      | some l => "ok " ++ "|".intercalate (l.map Spec.Stmts.Skeleton.name)
      | none => "ok unmodelled")
  | "dir.run", [sh, en, s1, s2] => some (
      match Schema.ofName s1, Schema.ofName s2 with
      | some s1, some s2 => dirRun sh en s1 s2
      | _, _ => "bad-op schema")
  | "dir.layout", [s] => some (match Schema.ofName s with
      | some s => "ok " ++ (Spec.Dir.createDatabase Spec.Dir.emptyDir s).1.shape
      | none => "bad-op schema")
  | _, _ => none

end Drv
