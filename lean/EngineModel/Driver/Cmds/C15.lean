/-
Driver modes of C15 (no public call has undefined behaviour).  Each mode wraps
the mode of the work-package that owns the model (same line syntax, same text)
and routes the calls through the `step` dispatchers the C15 theorems are about:

  `c15tv1`  tracks 1.x  = `tracksv1`  + rmtrack, get <t> valid|id|copy        (Api/GuardedTracksV1.stepG over Api/C15TracksV1.step)
  `c15tv2`  tracks 2.x  = `tracksv2`  + rmtrack, get <t> valid|id|copy        (Api/GuardedTracksV2.stepG over Api/C15TracksV2.step)
  `c15cv1`  crates 1.x  = `cratesv1`  + crate.q / db.q / get <t> valid|id|copy (Api/CratesV1.lean)
  `c15cv2`  crates 2.x  = `cratesv2`  + crate.q <c> copy, get <t> valid|id|copy; the ordered queries and
            descendants() answered by the guarded walks of Api/GuardedV2.lean (fuel exhaustion = `ub`)
-/
import EngineModel.Driver.Cmds.TracksV1
import EngineModel.Driver.Cmds.TracksV2
import EngineModel.Driver.Cmds.CratesV1
import EngineModel.Driver.Cmds.CratesV2
import EngineModel.Api.C15TracksV1
import EngineModel.Api.C15TracksV2
import EngineModel.Api.GuardedV2
import EngineModel.Api.GuardedTracksV1
import EngineModel.Api.GuardedTracksV2

open EngineModel EngineModel.Text

namespace Drv.C15

def showIds (l : List Int) : String := "[" ++ ",".intercalate (l.map toString) ++ "]"
def sortInts (l : List Int) : List Int := l.mergeSort (· ≤ ·)
def resText {α} (f : α → String) (r : Res α) : String := r.render f

/-! ### tracks 2.x -/
namespace TV2
open EngineModel.TracksV2 EngineModel.Api.C15TracksV2

def getterOf (f : String) (rest : List String) : Option Getter :=
  match f, rest with
  | "album", [] => some .album | "artist", [] => some .artist | "average_loudness", [] => some .averageLoudness
  | "beatgrid", [] => some .beatgrid | "bitrate", [] => some .bitrate | "bpm", [] => some .bpm
  | "comment", [] => some .comment | "composer", [] => some .composer | "duration", [] => some .duration
  | "file_extension", [] => some .fileExtension | "filename", [] => some .filename | "genre", [] => some .genre
  | "hot_cue_at", [i] => (parseI32 i).map .hotCueAt | "hot_cues", [] => some .hotCues | "key", [] => some .key
  | "last_played_at", [] => some .lastPlayedAt | "loop_at", [i] => (parseI32 i).map .loopAt
  | "loops", [] => some .loops | "main_cue", [] => some .mainCue | "publisher", [] => some .publisher
  | "rating", [] => some .rating | "relative_path", [] => some .relativePath
  | "sample_count", [] => some .sampleCount | "sample_rate", [] => some .sampleRate | "title", [] => some .title
  | "track_number", [] => some .trackNumber | "waveform", [] => some .waveform | "year", [] => some .year
  | _, _ => none

def outText : Res Out → String
  | .ok .unit => "ok"
  | .ok (.id i) => s!"ok id={i}"
  | .ok (.bool b) => if b then "ok 1" else "ok 0"
  | .ok (.snap x) => "ok " ++ Drv.T2.sSnap x
  | .ok (.val _) => "ok"
  | .throw e => "throw " ++ e.toString
  | .ub u => "ub " ++ u.toString

def step (st : Drv.T2.St) (cmd : String) (args : List String) : Drv.T2.St × String :=
  let run (s : Schema) (op : Op) : Drv.T2.St × Res Out :=
    let p := Api.GuardedTracksV2.stepG Drv.T2.hwOps s st.db op
    ({ st with db := p.1 }, p.2)
  match st.schema with
  | none => Drv.T2.step st cmd args
  | some s =>
  match cmd, args with
  | "mktrack", v :: toks =>
    match runP Drv.T2.pSnap toks with
    | some x =>
      let (st', r) := run s (.create x)
      match r with
      | .ok (.id i) => ({ st' with vars := (v, i) :: st'.vars.filter (·.1 != v) }, outText r)
      | _ => (st', outText r)
    | none => (st, "bad-op snapshot")
  | "update", v :: toks =>
    match st.var v, runP Drv.T2.pSnap toks with
    | some id, some x => let (st', r) := run s (.update id x); (st', outText r)
    | _, _ => (st, "bad-op update")
  | "snap", [v] =>
    match st.var v with
    | some id => let (st', r) := run s (.snapshot id); (st', outText r)
    | none => (st, "bad-op var")
  | "rmtrack", [v] =>
    match st.var v with
    | some id => let (st', r) := run s (.remove id); (st', outText r)
    | none => (st, "bad-op var")
  | "get", [v, "valid"] =>
    match st.var v with
    | some id => let (st', r) := run s (.isValid id); (st', outText r)
    | none => (st, "bad-op var")
  | "get", [v, "id"] =>
    match st.var v with
    | some id => (st, match (run s (.handleId id)).2 with | .ok _ => s!"ok {id}" | r => outText r)
    | none => (st, "bad-op var")
  | "get", [v, "copy"] =>
    match st.var v with
    | some id => (st, match (run s (.handleCopy id)).2 with | .ok _ => s!"ok {id}" | r => outText r)
    | none => (st, "bad-op var")
  | "get", v :: f :: rest =>
    match st.var v, getterOf f rest with
    | some id, some g =>
      match (run s (.get id g)).2 with
      | .ok _ =>
        match st.db.get id with
        | some row => (st, Drv.T2.getCmd row f rest)
        | none => (st, "bad-op row")
      | r => (st, outText r)
    | none, _ => (st, "bad-op var")
    | _, none => (st, "bad-op field")
  | "set", v :: f :: toks =>
    match st.var v, runP (Drv.T2.pSetter f) toks with
    | some id, some σ => let (st', r) := run s (.set id σ); (st', outText r)
    | _, _ => (st, "bad-op set")
  | "c15.handles", [_, t] =>     -- copy / assign / move / destroy: no model content
    if t == "-" || (st.var t).isSome then (st, "ok") else (st, "bad-op var")
  | "db.q", q :: rest =>
    let call (c : Api.GuardedTracksV2.Call) : String :=
      match (Api.GuardedTracksV2.callG Drv.T2.hwOps s st.db c).2 with
      | .ok (.ids l) => "ok " ++ showIds (sortInts (l.map Int.ofNat))
      | .ok (.oid (some i)) => s!"ok {i}"
      | .ok (.oid none) => "ok none"
      | .ok _ => "ok"
      | .throw e => "throw " ++ e.toString
      | .ub u => "ub " ++ u.toString
    match q, rest with
    | "tracks", [] => (st, call .dbTracks)
    | "track_by_id", [i] =>
      match i.toInt? with
      | some i => (st, if i < 0 then "ok none" else call (.dbTrackById i.toNat))
      | none => (st, "bad-op i64")
    | "tracks_by_path", [h] =>
      match parseHexBytes h with
      | some p => (st, call (.dbTracksByPath p))
      | none => (st, "bad-op hex")
    | "uuid", [] => (st, call .dbUuid)
    | "version_name", [] => (st, call .dbVersionName)
    | "directory", [] => (st, call .dbDirectory)
    | "verify", [] => (st, call .dbVerify)
    | _, _ => (st, "bad-op db query")
  | _, _ => Drv.T2.step st cmd args

def mode : Drv.Mode := Drv.mkMode "c15tv2" ({} : Drv.T2.St) step
end TV2

/-! ### tracks 1.x -/
namespace TV1
open EngineModel.TracksV1 EngineModel.Api.C15TracksV1 Drv.TracksV1

def outText : Res Out → String
  | .ok .unit => "ok"
  | .ok (.id i) => s!"ok id={i}"
  | .ok (.bool b) => if b then "ok 1" else "ok 0"
  | .ok (.snap x) => "ok " ++ Drv.TracksV1.sSnap x
  | .ok (.val f v) => "ok " ++ Drv.TracksV1.showVal f v
  | .ok (.bytes b) => "ok " ++ hexBytes b
  | .throw e => "throw " ++ e.toString
  | .ub u => "ub " ++ u.toString

/-- a result of `showVal` that is empty prints as bare `ok` (as `Res.render` does) -/
def tidy (s : String) : String := if s == "ok " then "ok" else s

def step (st : Drv.TracksV1.St) (cmd : String) (args : List String) : Drv.TracksV1.St × String :=
  match st.db with
  | none => Drv.TracksV1.step st cmd args
  | some d =>
  let run (op : Op) : Drv.TracksV1.St × Res Out :=
    let p := Api.GuardedTracksV1.stepG Drv.TracksV1.fops d op
    ({ st with db := some p.1 }, p.2)
  match cmd, args with
  | "mktrack", v :: toks =>
    match runP Drv.TracksV1.pSnap toks with
    | some x =>
      let (st', r) := run (.create x)
      match r with
      | .ok (.id i) => ({ st' with vars := (v, i) :: st'.vars.filter (·.1 != v) }, outText r)
      | _ => (st', outText r)
    | none => (st, "bad-op mktrack")
  | "update", v :: toks =>
    match lookupVar st v, runP Drv.TracksV1.pSnap toks with
    | some id, some x => let (st', r) := run (.update id x); (st', outText r)
    | _, _ => (st, "bad-op update")
  | "snap", [v] =>
    match lookupVar st v with
    | some id => let (st', r) := run (.snapshot id); (st', outText r)
    | none => (st, "bad-op snap")
  | "rmtrack", [v] =>
    match lookupVar st v with
    | some id => let (st', r) := run (.remove id); (st', outText r)
    | none => (st, "bad-op var")
  | "get", [v, "valid"] =>
    match lookupVar st v with
    | some id => let (st', r) := run (.isValid id); (st', outText r)
    | none => (st, "bad-op var")
  | "get", [v, "id"] =>
    match lookupVar st v with
    | some id => (st, match (run (.handleId id)).2 with | .ok _ => s!"ok {id}" | r => outText r)
    | none => (st, "bad-op var")
  | "get", [v, "copy"] =>
    match lookupVar st v with
    | some id => (st, match (run (.handleCopy id)).2 with | .ok _ => s!"ok {id}" | r => outText r)
    | none => (st, "bad-op var")
  | "get", [v, "filename"] =>
    match lookupVar st v with
    | some id => (st, outText (run (.getDerived id .filename)).2)
    | none => (st, "bad-op var")
  | "get", [v, "file_extension"] =>
    match lookupVar st v with
    | some id => (st, outText (run (.getDerived id .fileExtension)).2)
    | none => (st, "bad-op var")
  | "get", v :: toks =>
    match lookupVar st v, splitField toks with
    | some id, some (f, []) => (st, tidy (outText (run (.get id f)).2))
    | _, _ => (st, "bad-op get")
  | "set", v :: toks =>
    match lookupVar st v, splitField toks with
    | some id, some (f, rest) =>
      match runP (parseVal f) rest with
      | some val => let (st', r) := run (.set id f val); (st', outText r)
      | none => (st, "bad-op set value")
    | _, _ => (st, "bad-op set")
  | "c15.handles", [_, t] =>     -- copy / assign / move / destroy: no model content
    if t == "-" || (lookupVar st t).isSome then (st, "ok") else (st, "bad-op var")
  | "db.q", q :: rest =>
    let call (c : Api.GuardedTracksV1.Call) : String :=
      match (Api.GuardedTracksV1.callG Drv.TracksV1.fops d c).2 with
      | .ok (.ids l) => "ok " ++ showIds (sortInts l)
      | .ok (.oid (some i)) => s!"ok {i}"
      | .ok (.oid none) => "ok none"
      | .ok _ => "ok"
      | .throw e => "throw " ++ e.toString
      | .ub u => "ub " ++ u.toString
    match q, rest with
    | "tracks", [] => (st, call .dbTracks)
    | "track_by_id", [i] =>
      match i.toInt? with
      | some i => (st, call (.dbTrackById i))
      | none => (st, "bad-op i64")
    | "tracks_by_path", [h] =>
      match parseHexBytes h with
      | some p => (st, call (.dbTracksByPath p))
      | none => (st, "bad-op hex")
    | "uuid", [] => (st, call .dbUuid)
    | "version_name", [] => (st, call .dbVersionName)
    | "directory", [] => (st, call .dbDirectory)
    | "verify", [] => (st, call .dbVerify)
    | _, _ => (st, "bad-op db query")
  | _, _ => Drv.TracksV1.step st cmd args

def mode : Drv.Mode := Drv.mkMode "c15tv1" ({} : Drv.TracksV1.St) step
end TV1

/-! ### crates 1.x -/
namespace CV1
open EngineModel.Api.CratesV1 Drv.CratesV1

def optId : Option Id → String
  | some i => toString i
  | none => "none"

def step (st : Drv.CratesV1.St) (cmd : String) (args : List String) : Drv.CratesV1.St × String :=
  match st.schema with
  | none => Drv.CratesV1.step st cmd args
  | some s =>
  let db := st.db
  match cmd, args with
  | "crate.q", v :: q :: rest =>
    withCrate st v fun c =>
    match q, rest with
    | "id", [] => (st, s!"ok {c}")
    | "copy", [] => (st, s!"ok {c}")
    | "valid", [] => (st, resText (fun b => if b then "1" else "0") (crateIsValid db c))
    | "name", [] => (st, resText hexBytes (crateName db c))
    | "parent", [] => (st, resText optId (crateParent db c))
    | "children", [] => (st, "ok " ++ showIds (sortInts (crateChildren db c)))
    | "descendants", [] => (st, "ok " ++ showIds (sortInts (crateDescendants db c)))
    | "tracks", [] => (st, "ok " ++ showIds (sortInts (crateTracks s db c)))
    | "sub_by_name", [n] =>
      match parseHexBytes n with
      | some n => (st, "ok " ++ optId (subCrateByName db c n))
      | none => (st, "bad-op hex")
    | _, _ => (st, "bad-op crate query")
  | "db.q", q :: rest =>
    match q, rest with
    | "crates", [] => (st, "ok " ++ showIds (dbCrates db))
    | "root_crates", [] => (st, "ok " ++ showIds (dbRootCrates db))
    | "tracks", [] => (st, "ok " ++ showIds (dbTracks db))
    | "crate_by_id", [i] =>
      match i.toInt? with
      | some i => (st, resText optId (dbCrateById db i))
      | none => (st, "bad-op i64")
    | "crates_by_name", [n] =>
      match parseHexBytes n with
      | some n => (st, "ok " ++ showIds (dbCratesByName db n))
      | none => (st, "bad-op hex")
    | "root_by_name", [n] =>
      match parseHexBytes n with
      | some n => (st, "ok " ++ optId (rootCrateByName db n))
      | none => (st, "bad-op hex")
    | "uuid", [] => (st, "ok")            -- uuid / version_name / directory / verify: no model content
    | "version_name", [] => (st, "ok")
    | "directory", [] => (st, "ok")
    | "verify", [] => (st, "ok")
    | _, _ => (st, "bad-op db query")
  | "c15.handles", [c, t] =>     -- copy / assign / move / destroy: no model content
    if (c == "-" || (get st.cvars c).isSome) && (t == "-" || (get st.tvars t).isSome) then (st, "ok") else (st, "bad-op var")
  | "c15.crate_db", [v] => withCrate st v fun _ => (st, "ok")     -- crate::db(): a new handle on the same storage
  | "get", [v, q] =>
    withTrack st v fun t =>
    match q with
    | "id" => (st, s!"ok {t}")
    | "copy" => (st, s!"ok {t}")
    | "valid" => (st, resText (fun b => if b then "1" else "0") (trackIsValid db t))
    | "containing_crates" => (st, "ok " ++ showIds (sortInts (trackContainingCrates s db t)))
    | _ => (st, "bad-op track query")
  | _, _ => Drv.CratesV1.step st cmd args

def mode : Drv.Mode := Drv.mkMode "c15cv1" ({} : Drv.CratesV1.St) step
end CV1

/-! ### crates 2.x -/
namespace CV2
open EngineModel.Db EngineModel.Db.V2 EngineModel.Api.GuardedV2

def idsOf {α} (r : Res (List (Chain.Row α))) : Res String := r.bind fun l => .ok (showIds (l.map (·.id)))

/-- `Drv.CratesV2.doOp` through the guarded step `stepG` (every dereference and both unbounded
evaluations of the C++ explicit; the guards are the regenerated `Gen.C15Guards`). -/
def doOpG (st : Drv.CratesV2.St) (op : Op) (bindCrate bindTrack : Option String := none) : Drv.CratesV2.St × String :=
  let (d', r) := stepG st.db op
  let st' := { st with db := d' }
  let st' := match r, bindCrate with
    | .ok (some i), some v => { st' with crates := Drv.CratesV2.bind st'.crates v i }
    | _, _ => st'
  let st' := match r, bindTrack with
    | .ok (some i), some v => { st' with tracks := Drv.CratesV2.bind st'.tracks v i }
    | _, _ => st'
  (st', Drv.CratesV2.renderOut r)

def okOnly (p : Drv.CratesV2.St × String) : Drv.CratesV2.St × String :=
  (p.1, if p.2.startsWith "ok" then "ok" else p.2)

def step (st : Drv.CratesV2.St) (cmd : String) (args : List String) : Drv.CratesV2.St × String :=
  let cr (v : String) : Option Int := (st.crates.find? (·.1 == v)).map (·.2)
  let tr (v : String) : Option Int := (st.tracks.find? (·.1 == v)).map (·.2)
  let d := st.db
  match cmd, args with
  -- the mutating operations: same syntax as mode `cratesv2`, executed by `stepG`
  | "mkroot", [v, n] =>
    match parseHexBytes n with
    | some n => doOpG st (.createRoot n) (some v)
    | none => (st, "bad-op args")
  | "mkroot_after", [v, n, a] =>
    match parseHexBytes n, cr a with
    | some n, some a => doOpG st (.createRootAfter n a) (some v)
    | _, _ => (st, "bad-op args")
  | "mksub", [v, p, n] =>
    match parseHexBytes n, cr p with
    | some n, some p => doOpG st (.createSub p n) (some v)
    | _, _ => (st, "bad-op args")
  | "mksub_after", [v, p, n, a] =>
    match parseHexBytes n, cr p, cr a with
    | some n, some p, some a => doOpG st (.createSubAfter p n a) (some v)
    | _, _, _ => (st, "bad-op args")
  | "rename", [v, n] =>
    match parseHexBytes n, cr v with
    | some n, some c => doOpG st (.rename c n)
    | _, _ => (st, "bad-op args")
  | "setparent", [v, p] =>
    match cr v, (if p == "-" then some none else (cr p).map some) with
    | some c, some p => doOpG st (.setParent c p)
    | _, _ => (st, "bad-op args")
  | "rmcrate", [v] =>
    match cr v with
    | some c => doOpG st (.removeCrate c)
    | none => (st, "bad-op args")
  | "v2.mktrack", [v, _] => doOpG st .createTrack none (some v)
  | "rmtrack", [v] =>
    match tr v with
    | some t => doOpG st (.removeTrack t)
    | none => (st, "bad-op args")
  | "addtrack", [c, t] =>
    match cr c, tr t with
    | some c, some t => okOnly (doOpG st (.addTrack c t))
    | _, _ => (st, "bad-op args")
  | "addtrackid", [c, t] =>
    match cr c, t.toInt? with
    | some c, some t => okOnly (doOpG st (.addTrack c t))
    | _, _ => (st, "bad-op args")
  | "rmtrackfrom", [c, t] =>
    match cr c, tr t with
    | some c, some t => doOpG st (.removeTrackFrom c t)
    | _, _ => (st, "bad-op args")
  | "cleartracks", [c] =>
    match cr c with
    | some c => doOpG st (.clearTracks c)
    | none => (st, "bad-op args")
  | "pe.add", [l, t, u, f] =>
    match l.toInt?, t.toInt?, u.toInt? with
    | some l, some t, some u => doOpG st (.peAddBack l t u (f == "1"))
    | _, _, _ => (st, "bad-op args")
  | "pe.remove", [l, e] =>
    match l.toInt?, e.toInt? with
    | some l, some e => doOpG st (.peRemove l e)
    | _, _ => (st, "bad-op args")
  | "pe.clear", [l] =>
    match l.toInt? with
    | some l => doOpG st (.peClear l)
    | none => (st, "bad-op args")
  -- queries over the guarded walks / dereferences
  | "crate.q", [v, "copy"] =>
    match cr v with
    | some c => (st, s!"ok {c}")
    | none => (st, "bad-op crate var")
  | "crate.q", [v, "children"] =>
    match cr v with
    | some c => (st, resText id (idsOf (sortIdsG d.pl c)))
    | none => (st, "bad-op crate var")
  | "crate.q", [v, "tracks"] =>
    match cr v with
    | some c => (st, resText id ((getForListG d.pe c).bind fun l => .ok (showIds (l.map (·.val.track)))))
    | none => (st, "bad-op crate var")
  | "crate.q", [v, "descendants"] =>
    match cr v with
    | some c => (st, resText id ((descendantIds d.pl c).bind fun l => .ok (showIds (sortInts l))))
    | none => (st, "bad-op crate var")
  | "crate.q", [v, "name"] =>
    match cr v with
    | some c => (st, resText hexBytes (qNameG d c))
    | none => (st, "bad-op crate var")
  | "crate.q", [v, "parent"] =>
    match cr v with
    | some c => (st, resText Drv.CratesV2.showOpt (qParentG d c))
    | none => (st, "bad-op crate var")
  | "crate.q", [v, "sub_by_name", n] =>
    match cr v, parseHexBytes n with
    | some c, some n => (st, resText Drv.CratesV2.showOpt (qByParentNameG d c n))
    | _, _ => (st, "bad-op args")
  | "db.q", ["root_crates"] => (st, resText id (idsOf (sortIdsG d.pl 0)))
  | "db.q", ["root_by_name", n] =>
    match parseHexBytes n with
    | some n => (st, resText Drv.CratesV2.showOpt (qByParentNameG d 0 n))
    | none => (st, "bad-op args")
  | "db.q", ["track_by_id", i] =>
    match i.toInt? with
    | some i => (st, resText id ((queryG d (.trackById i)).bind fun _ =>
        .ok (if d.tracks.contains i then toString i else "none")))
    | none => (st, "bad-op args")
  | "db.q", ["uuid"] => (st, resText (fun _ => "") (queryG d .dbUuid))
  | "db.q", ["version_name"] => (st, resText (fun _ => "") (queryG d .dbVersionName))
  | "db.q", ["directory"] => (st, resText (fun _ => "") (queryG d .dbDirectory))
  | "db.q", ["verify"] => (st, resText (fun _ => "") (queryG d .dbVerify))
  | "c15.handles", [c, t] =>     -- copy / assign / move / destroy: no model content
    if (c == "-" || (cr c).isSome) && (t == "-" || (tr t).isSome) then (st, "ok") else (st, "bad-op var")
  | "c15.crate_db", [v] =>
    match cr v with
    | some c => (st, resText (fun _ => "") (queryG d (.crateDb c)))
    | none => (st, "bad-op crate var")
  | "c15.add_tracks", v :: ts =>
    -- crate::add_tracks(first, last): the header template `for (it …) add_track(*it)`
    match cr v, ts.mapM tr with
    | some c, some ids =>
      let rec go (st : Drv.CratesV2.St) : List Int → Drv.CratesV2.St × String
        | [] => (st, "ok")
        | t :: rest =>
          let p := okOnly (doOpG st (.addTrack c t))
          if p.2 == "ok" then go p.1 rest else p
      go st ids
    | _, _ => (st, "bad-op args")
  | "get", [v, q] =>
    match tr v with
    | some t =>
      match q with
      | "id" => (st, s!"ok {t}")
      | "copy" => (st, s!"ok {t}")
      | "valid" => (st, if d.tracks.contains t then "ok 1" else "ok 0")
      | _ => (st, "bad-op track query")
    | none => (st, "bad-op track var")
  | _, _ => Drv.CratesV2.step st cmd args

def mode : Drv.Mode := Drv.mkMode "c15cv2" ({} : Drv.CratesV2.St) step
end CV2

/-- stateless: `c15.ceil <double bits>` — the hardware `ceil` of the driver against the bit-exact `ceilBits`
(NaN results compare equal whatever their payload). -/
def table (cmd : String) (args : List String) : Option String :=
  match cmd, args with
  | "c15.ceil", [h] =>
    some <| match parseHex64 h with
      | some b =>
        let hw := Drv.TracksV1.fops.ceil b
        let ex := EngineModel.Api.C15TracksV1.ceilBits b
        if hw == ex || (F64.isNaN hw && F64.isNaN ex) then "ok same" else s!"ok differ hw={hex64 hw} exact={hex64 ex}"
      | none => "bad-op hex"
  | _, _ => none

/-- the four C15 modes (one line in Driver/Main.lean) -/
def modes : List Drv.Mode := [TV1.mode, TV2.mode, CV1.mode, CV2.mode]

end Drv.C15
