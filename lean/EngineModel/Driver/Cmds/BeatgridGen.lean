/-
Driver commands of the regenerated beat-grid normalisation (work-package beatgridgen):
  bg.normgen   `Gen.Beatgrid.normalize` (translated from engine.cpp by tools/tr_beatgrid.py on
               every run) over hardware `Float` — same input and output format as `bg.norm`, so
               the C20 tie compares it bit for bit with the real library (validation of the
               translator's mapping by execution);
  bg.normgenq  the same over exact rationals (format of `bg.normq`).
-/
import EngineModel.Driver.Cmds.Core
import EngineModel.Driver.Cmds.Pure
import EngineModel.Gen.BeatgridGen

open EngineModel EngineModel.Text

namespace Drv
open Pure.Beatgrid

def bgNormGen (a : List String) : String :=
  let p : P (Int × List (Marker Float)) := do
    let n ← lift parseInt
    let g ← pList (do
      let i ← lift parseInt
      let o ← pF
      pure (⟨i, Float.ofBits o⟩ : Marker Float))
    pure (n, g)
  match runP p a with
  | none => "bad-op args"
  | some (n, g) =>
    if n < -9223372036854775808 ∨ n > 9223372036854775807 then "bad-op i64" else
    if g.any (fun m => m.index < -2147483648 ∨ m.index > 2147483647) then "bad-op i32" else
    (Gen.Beatgrid.normalize floatNum g n).render fun out =>
      unwords (toString out.length :: out.flatMap fun m => [toString m.index, fbits m.off])

def bgNormGenQ (a : List String) : String :=
  match runP pGridQ a with
  | none => "bad-op args"
  | some (n, g) =>
    if !okGrid n g then "bad-op range" else
    (Gen.Beatgrid.normalize ratNum g n).render showGridQ

def beatgridGenTable (cmd : String) (args : List String) : Option String :=
  match cmd, args with
  | "bg.normgen", a => some (bgNormGen a)
  | "bg.normgenq", a => some (bgNormGenQ a)
  | _, _ => none

end Drv
