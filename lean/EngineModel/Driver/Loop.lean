/-
Generic read-eval-print loops of the model driver.
A *stateless* group exports a table `cmd → args → Option result`.
A *stateful* group exports `mode : Drv.Mode` built with `Drv.mkMode init step`;
a script selects it with a first line `#mode <name>` (the C++ harness answers
`skip` to every `#` line, and so does the driver), after which every line is
given to that group's `step`.
-/
namespace Drv

def tokens (line : String) : List String := (line.splitOn " ").filter (· ≠ "")

def chomp (line : String) : String :=
  (line.dropEndWhile (fun c => c == '\n' || c == '\r')).toString

structure Mode where
  name : String
  run : IO.FS.Stream → IO.FS.Stream → IO Unit

partial def statefulLoop {σ : Type} (step : σ → String → List String → σ × String)
    (st : σ) (h out : IO.FS.Stream) : IO Unit := do
  let line ← h.getLine
  if line.isEmpty then return ()
  match tokens (chomp line) with
  | [] => out.putStrLn "skip"; statefulLoop step st h out
  | cmd :: args =>
    if cmd.startsWith "#" then
      out.putStrLn "skip"; statefulLoop step st h out
    else
      let (st', r) := step st cmd args
      out.putStrLn r
      statefulLoop step st' h out

def mkMode {σ : Type} (name : String) (init : σ) (step : σ → String → List String → σ × String) : Mode :=
  ⟨name, fun h out => statefulLoop step init h out⟩

end Drv
