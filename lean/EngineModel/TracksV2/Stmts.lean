/-
The public mutating track calls of the schema-2.x code as statement programs on
the connection of `Spec/Txn.lean` (C14, review item 3), derived from the
statement-level table model `TracksV2/Table.lean` (`callSet`, `callCreate`,
`callUpdate`, `callRemove`).

A setter that issues one UPDATE (preceded by the SELECTs it needs) is one
`write` whose function is the effect of the whole call on the table; the five
setters that issue several UPDATEs inside a `sqlite_transaction` scope
(`set_bpm`, `set_key`, `set_relative_path`, `set_sample_count`,
`set_sample_rate` — v2/track_impl.cpp) are `txn` of exactly those UPDATEs, in
the order of the C++, each a function of the current table (`updateStmt` with
its UNIQUE constraints and triggers; `none` = the statement fails by itself).
-/
import EngineModel.TracksV2.Table
import EngineModel.Spec.Stmts

namespace EngineModel
namespace TracksV2

open EngineModel.Spec.Txn EngineModel.Spec.Stmts

abbrev TProg := List (Cmd TDb)

/-- the table after a call that returned normally -/
def okTable {α} (r : TDb × Res α) : Option TDb :=
  match r.2 with
  | .ok _ => some r.1
  | _ => none

/-- `UPDATE Track SET col = ? WHERE id = ?` as `setCol` issues it: fails with no effect on a constraint / trigger
error; a call whose UPDATE changes no row throws afterwards (`rows_modified() == 0`). -/
def wSetCol (id : Nat) (f : Row → Row) : Cmd TDb := .write fun db => okTable (setCol id f db)

/-- a SELECT of the track's row followed by the UPDATE that uses what was read -/
def wSelSetCol (id : Nat) (g : Row → Row → Row) : Cmd TDb :=
  .write fun db => okTable ((selectRow id >>= fun r => setCol id (g r)) db)

def Setter.scoped : Setter → Bool
  | .bpm _ | .key _ | .relativePath _ | .sampleCount _ | .sampleRate _ => true
  | _ => false

/-- the reads and writes of `set_*` on prior table `db` (without BEGIN / COMMIT) -/
def setBody (ops : FOps) (db : TDb) (id : Nat) : Setter → TProg
  | .bpm v =>
    let f := writeBpm v
    [wSetCol id fun r => { r with bpmAnalyzed := storeReal f.1 }, wSetCol id fun r => { r with bpm := f.2 }]
  | .key v =>
    let c := writeKey v
    [wSetCol id fun r => { r with key := c.1 },
     wSelSetCol id fun r x => { x with trackData := ({ r.trackData.1 with key := c.2 }, r.trackData.2) }]
  | .relativePath p =>
    [wSetCol id fun r => { r with path := p }, wSetCol id fun r => { r with filename := getFilename p },
     wSetCol id fun r => { r with fileType := (getFileExtension (getFilename p)).getD [] }]
  | .sampleCount v =>
    match db.find id with
    | some t =>
      [.read, .read,
       wSetCol id fun x => { x with trackData := ({ t.row.trackData.1 with samples := v.getD 0 }, t.row.trackData.2) },
       wSetCol id fun x => { x with beat := ({ t.row.beat.1 with samples := ops.ofU64 (v.getD 0) }, t.row.beat.2) }]
    | none => [.read]
  | .sampleRate v =>
    match db.find id with
    | some t =>
      [.read, .read,
       wSetCol id fun x => { x with trackData := ({ t.row.trackData.1 with sampleRate := writeSampleRate v }, t.row.trackData.2) },
       wSetCol id fun x => { x with beat := ({ t.row.beat.1 with sampleRate := writeSampleRate v }, t.row.beat.2) }]
    | none => [.read]
  | σ => [.read, .write fun d => okTable (callSet ops id σ d)]

/-- reads and writes of a public track call -/
def topBody (ops : FOps) (s : Schema) (db : TDb) : TOp → TProg
  | .create x => [.write fun d => okTable (callCreate ops s x d)]
  | .update id x => [.write fun d => okTable (callUpdate ops s id x d)]
  | .set id σ => setBody ops db id σ
  | .remove id => [.write fun d => okTable ((M.stmt fun db => db.deleteStmt id) d)]

def TOp.scoped : TOp → Bool
  | .set _ σ => σ.scoped
  | .remove _ => true
  | _ => false

def topStmts (ops : FOps) (s : Schema) (db : TDb) (op : TOp) : TProg :=
  if op.scoped then txn (topBody ops s db op) else topBody ops s db op

def topShapeOf (ops : FOps) (s : Schema) (op : TOp) (db : TDb) : List CmdKind := (topStmts ops s db op).map Cmd.kind

def TOp.skeleton (op : TOp) : Skeleton := if op.scoped then .scope else .single

end TracksV2
end EngineModel
