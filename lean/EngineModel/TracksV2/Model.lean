/-
Model of src/djinterop/engine/v2/track_impl.cpp and v2/convert_*.hpp:
`snapshot_to_row` (`writeSnap`), `snapshot()` (`readSnap`), `create_track` /
`update`, every getter and setter, over a Track table that is a store of
`track_row` values (`tablePut` = what `track_table::add`/`update` followed by
`get` yields: C18's subject, mirrored here only as far as it changes or rejects
a row).  Statement order, guards and exceptions follow the C++.
-/
import EngineModel.TracksV2.Types

namespace EngineModel
namespace TracksV2

open Prim

/-! ### integer conversions (bit patterns) -/

/-- `static_cast<int64_t>(int)` -/
def sext32 (x : UInt32) : UInt64 := u64OfInt (s32 x)
/-- `static_cast<int>(int64_t)` (modular) -/
def trunc32 (x : UInt64) : UInt32 := UInt32.ofNat (x.toNat % 4294967296)

/-- `static_cast<int64_t>(double)`: truncation toward zero; `none` where the
conversion is undefined (NaN, ±inf, value outside `[-2^63, 2^63)`), which is
what `-fsanitize=float-cast-overflow` reports.  Exact on the bits. -/
def toI64 (x : F) : Option Int :=
  let e := F64.expOf x
  let m := F64.manOf x
  if e ≥ 1087 then
    -- |x| ≥ 2^64, inf or NaN — except nothing representable here
    none
  else if e < 1023 then some 0
  else
    let sig := m + 4503599627370496
    let mag : Nat := if e ≥ 1075 then sig * 2 ^ (e - 1075) else sig / 2 ^ (1075 - e)
    let v : Int := if F64.signOf x then -(mag : Int) else (mag : Int)
    if v < -9223372036854775808 ∨ 9223372036854775807 < v then none else some v

/-! ### util::get_filename / get_file_extension -/

/-- The part of `l` after the last occurrence of `c` (`rfind` + `substr`). -/
def afterLast (c : UInt8) : Bytes → Option Bytes
  | [] => none
  | x :: r =>
    match afterLast c r with
    | some s => some s
    | none => if x = c then some r else none

def getFilename (p : Bytes) : Bytes := (afterLast 47 p).getD p
def getFileExtension (p : Bytes) : Option Bytes := afterLast 46 (getFilename p)

/-! ### convert::write / convert::read (convert_track.hpp) -/

def negOne : F := F64.negOne

def writeAverageLoudness (v : Option F) : F := v.getD 0
def readAverageLoudness (t : V2.Track) : Option F := if F64.isZero t.lo then none else some t.lo

/-- `{bpm, in-range ? (int64) bpm : nullopt}` (after the range guard). -/
def writeBpm (v : Option F) : Option F × Option UInt64 :=
  (v, v.bind fun b => (toI64 b).map u64OfInt)
def readBpm (ops : FOps) (bpmAnalyzed : Option F) (bpm : Option UInt64) : Option F :=
  match bpmAnalyzed with
  | some b => some b
  | none => bpm.map ops.ofI64

/-- `duration.value_or(0ms).count() / 1000` -/
def writeDuration (d : Option UInt64) : UInt64 := u64OfInt (Int.tdiv (s64 (d.getD 0)) 1000)
/-- `length == 0 ? nullopt : milliseconds{length * 1000}` — the product is a
signed 64-bit multiplication. -/
def readDuration (len : UInt64) : Res (Option UInt64) :=
  if len = 0 then .ok none else
  let p := s64 len * 1000
  if p < -9223372036854775808 ∨ 9223372036854775807 < p then .ub .signed_overflow
  else .ok (some (u64OfInt p))

def writeKey (k : Option UInt32) : Option UInt32 × UInt32 := (k, k.getD 0)

/-- `std::clamp(rating.value_or(0), 0, 100)` -/
def writeRating (r : Option UInt32) : UInt64 :=
  let v := s32 (r.getD 0)
  u64OfInt (if v < 0 then 0 else if 100 < v then 100 else v)
def readRating (r : UInt64) : Option UInt32 := if r = 0 then none else some (trunc32 r)

def readSampleCount (t : V2.Track) : Option UInt64 := if t.samples = 0 then none else some t.samples
def writeSampleRate (v : Option F) : F := v.getD 0
def readSampleRate (t : V2.Track) : Option F := if F64.isZero t.sampleRate then none else some t.sampleRate

/-! ### hot cues / main cue (convert_hot_cues.hpp) -/

def zeroColor : Color := ⟨0, 0, 0, 0⟩
def emptyCue : V2.Cue := ⟨[], negOne, zeroColor⟩

def writeHotCue : Option HotCue → V2.Cue
  | none => emptyCue
  | some c => ⟨c.label, c.off, c.color⟩

def readHotCue (q : V2.Cue) : Option HotCue :=
  if F64.eq q.off negOne then none else some ⟨q.label, q.off, q.color⟩

/-- pad with empty slots up to `n` (`while (size < MAX) push_back(empty)`) -/
def padTo {α} (n : Nat) (e : α) (l : List α) : List α := l ++ List.replicate (n - l.length) e

def writeHotCues (cs : List (Option HotCue)) : Res (List V2.Cue) :=
  if 8 < cs.length then .throw (.dj "hot_cues_overflow") else .ok (padTo 8 emptyCue (cs.map writeHotCue))

def readHotCues (q : V2.Cues) : List (Option HotCue) := q.cues.map readHotCue

def writeMainCue (v : Option F) : F := v.getD 0
def readMainCue (v : F) : Option F := if F64.isZero v then none else some v

/-! ### loops (convert_loops.hpp) -/

def emptyLoop : V2.Loop := ⟨[], negOne, negOne, 0, 0, zeroColor⟩

def writeLoop : Option LoopV → V2.Loop
  | none => emptyLoop
  | some l => ⟨l.label, l.start, l.stop, 1, 1, l.color⟩

def readLoop (l : V2.Loop) : Option LoopV :=
  if l.isStart != 0 || l.isEnd != 0 then some ⟨l.label, l.start, l.stop, l.color⟩ else none

def writeLoops (ls : List (Option LoopV)) : Res V2.Loops :=
  if 8 < ls.length then .throw (.dj "loops_overflow") else .ok (padTo 8 emptyLoop (ls.map writeLoop))

def readLoops (ls : V2.Loops) : List (Option LoopV) := ls.map readLoop

/-! ### beat grid (convert_beatgrid.hpp) -/

/-- `beatgrid_markers`: each marker's `number_of_beats` is the distance to the
next one (`static_cast<int32_t>(next.index - prev.beat_number)`, an `int64_t`
subtraction of two values of `int` range), the last keeps 0. -/
def writeGridMarkers : List GMarker → List V2.Marker
  | [] => []
  | [m] => [⟨m.off, sext32 m.index, 0, 0⟩]
  | m :: n :: r =>
    ⟨m.off, sext32 m.index, u32OfInt (s32 n.index - s64 (sext32 m.index)), 0⟩ :: writeGridMarkers (n :: r)

def readGridMarkers (g : List V2.Marker) : List GMarker := g.map fun m => ⟨trunc32 m.beatNo, m.off⟩

/-! ### waveform (convert_waveform.hpp, track_utils.hpp) -/

/-- `waveform_quantisation_number`: `(static_cast<int64_t>(rate) / 210) * 2` -/
def quantisationNumber (t : Int) : Int := Int.tdiv t 210 * 2

/-- `w[w.size() * (2 * i + 1) / 2048]` for each `i` of the list (checked
indexing under `_GLIBCXX_ASSERTIONS`). -/
def resampleAt (w : List WEntry) : List Nat → Res (List WEntry)
  | [] => .ok []
  | i :: r =>
    match w[w.length * (2 * i + 1) / 2048]? with
    | none => .ub .oob_index
    | some e => (resampleAt w r).bind fun es => .ok (e :: es)

/-- the loop `for (i = 0; i < extents.size; ++i)` -/
def resample (w : List WEntry) (size : Nat) : Res (List WEntry) := resampleAt w (List.range size)

def maxOf (f : WEntry → UInt8) (l : List WEntry) : UInt8 := l.foldl (fun a e => if a < f e then f e else a) 0

def pointsOf (l : List WEntry) : Bytes := l.flatMap fun e => [e.lv, e.mv, e.hv]

/-- `convert::write::waveform(w, sample_count, sample_rate)` -/
def writeWaveform (ops : FOps) (w : List WEntry) (sampleCount : Option UInt64) (sampleRate : Option F) :
    Res V2.Ovw :=
  if w.isEmpty then .ok ⟨0, [], [0, 0, 0]⟩ else
  match sampleCount, sampleRate with
  | some n, some r =>
    match toI64 r with
    | none => .throw (.dj "invalid_track_snapshot")
    | some t =>
      let qn := quantisationNumber t
      -- calculate_overview_waveform_extents
      let (size, spe) : Nat × F :=
        if n = 0 ∨ qn = 0 then (0, 0)
        else
          let q := u64OfInt qn
          (1024, ops.div (ops.ofU64 ((n / q) * q)) (ops.ofU64 1024))
      -- `if (extents.size == 0) throw invalid_track_snapshot` (fix: the waveform was silently dropped)
      if size = 0 then .throw (.dj "invalid_track_snapshot") else
      (resample w size).bind fun es =>
        .ok ⟨spe, pointsOf es, [maxOf (·.lv) es, maxOf (·.mv) es, maxOf (·.hv) es]⟩
  | _, _ => .throw (.dj "invalid_track_snapshot")

/-- group the stored points in threes (`waveform_points`), opacity 255 -/
def entriesOfPoints : Bytes → List WEntry
  | a :: b :: c :: r => ⟨a, b, c, 255, 255, 255⟩ :: entriesOfPoints r
  | _ => []

def readWaveform (o : V2.Ovw) : List WEntry := entriesOfPoints o.points

/-! ### snapshot_to_row -/

def beatExtra : Bytes := List.replicate 9 0

/-- `snapshot_to_row(snapshot, information)` -/
def writeSnap (ops : FOps) (_s : Schema) (x : Snap) : Res Row :=
  match x.relativePath with
  | none => .throw (.dj "invalid_track_snapshot")
  | some path =>
    let filename := getFilename path
    let rating := writeRating x.rating
    match getFileExtension filename with
    | none => .throw (.dj "invalid_track_snapshot")
    | some fileType =>
      let loud := writeAverageLoudness x.averageLoudness
      let bpm := writeBpm x.bpm
      let len := writeDuration x.duration
      let key := writeKey x.key
      let samples := x.sampleCount.getD 0
      let rate := writeSampleRate x.sampleRate
      let trackData : V2.Track := ⟨rate, samples, key.2, loud, loud, loud⟩
      (writeWaveform ops x.waveform x.sampleCount x.sampleRate).bind fun ovw =>
      let grid := writeGridMarkers x.beatgrid
      let beat : V2.Beat := ⟨rate, ops.ofU64 samples, if grid.isEmpty then 0 else 1, grid, grid⟩
      (writeHotCues x.hotCues).bind fun cues =>
      let quick : V2.Cues := ⟨cues, writeMainCue x.mainCue, true, writeMainCue x.mainCue⟩
      (writeLoops x.loops).bind fun loops =>
      .ok {
        playOrder := x.trackNumber.map sext32
        length := len
        bpm := bpm.2
        year := x.year.map sext32
        path := path
        filename := filename
        bitrate := x.bitrate.map sext32
        bpmAnalyzed := bpm.1
        albumArtId := 1
        fileBytes := x.fileBytes
        title := x.title
        artist := x.artist
        album := x.album
        genre := x.genre
        comment := x.comment
        label := x.publisher
        composer := x.composer
        remixer := none
        key := key.1
        rating := rating
        albumArt := none
        timeLastPlayed := x.lastPlayedAt
        isPlayed := false
        fileType := fileType
        isAnalyzed := true
        dateCreated := 0
        isAvailable := true
        isMetadataOfPackedTrackChanged := false
        isPerformanceDataOfPackedTrackChanged := false
        playedIndicator := none
        isMetadataImported := true
        pdbImportKey := 0
        streamingSource := none
        uri := none
        isBeatGridLocked := false
        trackData := (trackData, [])
        ovw := (ovw, [])
        beat := (beat, beatExtra)
        cues := (quick, [])
        loops := (loops, [])
        thirdPartySourceId := none
        streamingFlags := 0
        explicitLyrics := false
        activeOnLoadLoops := some 0 }

/-! ### the Track table as a store of rows -/

/-- `to_timestamp` then `to_time_point`: whole seconds, truncated toward zero. -/
def storeTime (t : UInt64) : UInt64 := u64OfInt (Int.tdiv (s64 t) 1000000000 * 1000000000)

/-- A `REAL` column: NaN is stored as NULL, −0.0 comes back as +0.0. -/
def storeReal (v : Option F) : Option F :=
  match v with
  | none => none
  | some b => if F64.isNaN b then none else if b = F64.negZero then some 0 else some b

/-- `quick_cues_blob::to_blob()` / `loops_blob::to_blob()` reject labels that do
not fit the one-byte length prefix. -/
def cuesEncodable (q : V2.Cues) : Bool := q.cues.all fun c => decide (c.label.length ≤ 255)
def loopsEncodable (l : V2.Loops) : Bool := l.all fun c => decide (c.label.length ≤ 255)

def putCues (q : V2.Cues × Bytes) : Res (V2.Cues × Bytes) :=
  if cuesEncodable q.1 then .ok q else .throw .invalid_argument
def putLoops (l : V2.Loops × Bytes) : Res (V2.Loops × Bytes) :=
  if loopsEncodable l.1 then .ok l else .throw .invalid_argument

/-- What `track_table::add` / `update` followed by `get` makes of a row (the
blobs are converted in column order; `activeOnLoadLoops` exists from 2.20.1). -/
def tablePut (s : Schema) (r : Row) : Res Row :=
  (putCues r.cues).bind fun _ =>
  (putLoops r.loops).bind fun _ =>
  .ok { r with
    timeLastPlayed := r.timeLastPlayed.map storeTime
    dateCreated := storeTime r.dateCreated
    bpmAnalyzed := storeReal r.bpmAnalyzed
    activeOnLoadLoops := if s.hasActiveOnLoadLoops then r.activeOnLoadLoops else none }

/-! ### snapshot() -/

def readSnap (ops : FOps) (r : Row) : Res Snap :=
  (readDuration r.length).bind fun dur =>
  .ok {
    album := r.album
    artist := r.artist
    averageLoudness := readAverageLoudness r.trackData.1
    beatgrid := readGridMarkers r.beat.1.adj
    bitrate := r.bitrate.map trunc32
    bpm := readBpm ops r.bpmAnalyzed r.bpm
    comment := r.comment
    composer := r.composer
    duration := dur
    fileBytes := r.fileBytes
    genre := r.genre
    hotCues := readHotCues r.cues.1
    key := r.key
    lastPlayedAt := r.timeLastPlayed
    loops := readLoops r.loops.1
    mainCue := readMainCue r.cues.1.adjMain
    publisher := r.label
    rating := readRating r.rating
    relativePath := some r.path
    sampleCount := readSampleCount r.trackData.1
    sampleRate := readSampleRate r.trackData.1
    title := r.title
    trackNumber := r.playOrder.map trunc32
    waveform := readWaveform r.ovw.1
    year := r.year.map trunc32 }

/-- `create_track` / `update` on one row, then `snapshot()`. -/
def writeStore (ops : FOps) (s : Schema) (x : Snap) : Res Row := (writeSnap ops s x).bind (tablePut s)

end TracksV2
end EngineModel
