/-
Getters and setters of `v2::track_impl` as functions on one `track_row`
(each is a read of one column / blob, or a read-modify-write of one or two),
and the Track table as a list of rows with the `UNIQUE (path)` constraint.
-/
import EngineModel.TracksV2.Model

namespace EngineModel
namespace TracksV2

open Prim

/-- One call of a `set_*` member (24 fields; the cue and loop lists also have
per-slot setters).  The slot index is the C++ `int`. -/
inductive Setter where
  | album (v : Option Bytes)
  | artist (v : Option Bytes)
  | averageLoudness (v : Option F)
  | beatgrid (v : List GMarker)
  | bitrate (v : Option UInt32)
  | bpm (v : Option F)
  | comment (v : Option Bytes)
  | composer (v : Option Bytes)
  | duration (v : Option UInt64)
  | genre (v : Option Bytes)
  | hotCueAt (i : UInt32) (v : Option HotCue)
  | hotCues (v : List (Option HotCue))
  | key (v : Option UInt32)
  | lastPlayedAt (v : Option UInt64)
  | loopAt (i : UInt32) (v : Option LoopV)
  | loops (v : List (Option LoopV))
  | mainCue (v : Option F)
  | publisher (v : Option Bytes)
  | rating (v : Option UInt32)
  | relativePath (v : Bytes)
  | sampleCount (v : Option UInt64)
  | sampleRate (v : Option F)
  | title (v : Option Bytes)
  | trackNumber (v : Option UInt32)
  | waveform (v : List WEntry)
  | year (v : Option UInt32)
  deriving Repr, DecidableEq, Inhabited

/-- the path a call gives the track, if it is `set_relative_path` -/
def Setter.newPath : Setter → Option Bytes
  | .relativePath p => some p
  | _ => none

/-- `index < 0 || (unsigned) index >= size` → `std::out_of_range` -/
def slotIndex (i : UInt32) (size : Nat) : Res Nat :=
  if s32 i < 0 ∨ size ≤ i.toNat then .throw .out_of_range else .ok i.toNat

/-! ### getters (each reads exactly the columns the C++ getter reads) -/

def getAlbum (r : Row) : Option Bytes := r.album
def getArtist (r : Row) : Option Bytes := r.artist
def getAverageLoudness (r : Row) : Option F := readAverageLoudness r.trackData.1
def getBeatgrid (r : Row) : List GMarker := readGridMarkers r.beat.1.adj
def getBitrate (r : Row) : Option UInt32 := r.bitrate.map trunc32
def getBpm (ops : FOps) (r : Row) : Option F := readBpm ops r.bpmAnalyzed r.bpm
def getComment (r : Row) : Option Bytes := r.comment
def getComposer (r : Row) : Option Bytes := r.composer
def getDuration (r : Row) : Res (Option UInt64) := readDuration r.length
def getFilename' (r : Row) : Bytes := getFilename r.path
def getFileExtension' (r : Row) : Bytes := (getFileExtension r.path).getD []
def getGenre (r : Row) : Option Bytes := r.genre
def getHotCueAt (r : Row) (i : UInt32) : Res (Option HotCue) :=
  (slotIndex i r.cues.1.cues.length).bind fun k =>
    match r.cues.1.cues[k]? with
    | some q => .ok (readHotCue q)
    | none => .ub .oob_index
def getHotCues (r : Row) : List (Option HotCue) := readHotCues r.cues.1
def getKey (r : Row) : Option UInt32 := r.key
def getLastPlayedAt (r : Row) : Option UInt64 := r.timeLastPlayed
def getLoopAt (r : Row) (i : UInt32) : Res (Option LoopV) :=
  (slotIndex i r.loops.1.length).bind fun k =>
    match r.loops.1[k]? with
    | some q => .ok (readLoop q)
    | none => .ub .oob_index
def getLoops (r : Row) : List (Option LoopV) := readLoops r.loops.1
def getMainCue (r : Row) : Option F := readMainCue r.cues.1.adjMain
def getPublisher (r : Row) : Option Bytes := r.label
def getRating (r : Row) : Option UInt32 := readRating r.rating
def getRelativePath (r : Row) : Bytes := r.path
def getSampleCount (r : Row) : Option UInt64 := readSampleCount r.trackData.1
def getSampleRate (r : Row) : Option F := readSampleRate r.trackData.1
def getTitle (r : Row) : Option Bytes := r.title
def getTrackNumber (r : Row) : Option UInt32 := r.playOrder.map trunc32
def getWaveform (r : Row) : List WEntry := readWaveform r.ovw.1
def getYear (r : Row) : Option UInt32 := r.year.map trunc32

/-! ### setters -/

/-- The effect of one setter on the row of its track (column writes go through
the same per-column conversions as `tablePut`). -/
def applySetter (ops : FOps) (σ : Setter) (r : Row) : Res Row :=
  match σ with
  | .album v => .ok { r with album := v }
  | .artist v => .ok { r with artist := v }
  | .averageLoudness v =>
    let c := writeAverageLoudness v
    .ok { r with trackData := ({ r.trackData.1 with lo := c, mid := c, hi := c }, r.trackData.2) }
  | .beatgrid g =>
    let m := writeGridMarkers g
    .ok { r with beat := ({ r.beat.1 with adj := m, dflt := m, isSet := if m.isEmpty then 0 else 1 }, r.beat.2) }
  | .bitrate v => .ok { r with bitrate := v.map sext32 }
  | .bpm v =>
    let f := writeBpm v
    .ok { r with bpmAnalyzed := storeReal f.1, bpm := f.2 }
  | .comment v => .ok { r with comment := v }
  | .composer v => .ok { r with composer := v }
  | .duration v => .ok { r with length := writeDuration v }
  | .genre v => .ok { r with genre := v }
  | .hotCueAt i v =>
    (slotIndex i r.cues.1.cues.length).bind fun k =>
    (putCues ({ r.cues.1 with cues := r.cues.1.cues.set k (writeHotCue v) }, r.cues.2)).bind fun q =>
    .ok { r with cues := q }
  | .hotCues v =>
    (writeHotCues v).bind fun cs =>
    (putCues ({ r.cues.1 with cues := cs }, r.cues.2)).bind fun q =>
    .ok { r with cues := q }
  | .key v =>
    let c := writeKey v
    .ok { r with key := c.1, trackData := ({ r.trackData.1 with key := c.2 }, r.trackData.2) }
  | .lastPlayedAt v => .ok { r with timeLastPlayed := v.map storeTime }
  | .loopAt i v =>
    (slotIndex i r.loops.1.length).bind fun k =>
    (putLoops (r.loops.1.set k (writeLoop v), r.loops.2)).bind fun q =>
    .ok { r with loops := q }
  | .loops v =>
    -- read-modify-write: the stored blob's trailing `extra_data` is kept
    (writeLoops v).bind fun ls =>
    (putLoops (ls, r.loops.2)).bind fun q =>
    .ok { r with loops := q }
  | .mainCue v =>
    let c := v.getD 0
    .ok { r with cues := ({ r.cues.1 with adjMain := c, defMain := c, isAdj := true }, r.cues.2) }
  | .publisher v => .ok { r with label := v }
  | .rating v => .ok { r with rating := writeRating v }
  | .relativePath p =>
    let filename := getFilename p
    .ok { r with path := p, filename := filename, fileType := (getFileExtension filename).getD [] }
  | .sampleCount v =>
    let n := v.getD 0
    .ok { r with
      trackData := ({ r.trackData.1 with samples := n }, r.trackData.2)
      beat := ({ r.beat.1 with samples := ops.ofU64 n }, r.beat.2) }
  | .sampleRate v =>
    let c := writeSampleRate v
    .ok { r with
      trackData := ({ r.trackData.1 with sampleRate := c }, r.trackData.2)
      beat := ({ r.beat.1 with sampleRate := c }, r.beat.2) }
  | .title v => .ok { r with title := v }
  | .trackNumber v => .ok { r with playOrder := v.map sext32 }
  | .waveform w =>
    -- read-modify-write: the stored blob's trailing `extra_data` is kept
    (writeWaveform ops w (getSampleCount r) (getSampleRate r)).bind fun o =>
    .ok { r with ovw := (o, r.ovw.2) }
  | .year v => .ok { r with year := v.map sext32 }

/-! ### the table -/

structure Db where
  rows : List (Nat × Row)
  nextId : Nat
  deriving Repr, Inhabited

def Db.empty : Db := ⟨[], 1⟩

def Db.get (db : Db) (id : Nat) : Option Row := (db.rows.find? (·.1 == id)).map (·.2)

/-- `CONSTRAINT C_path UNIQUE (path)`: some *other* row already has the path. -/
def Db.pathTaken (db : Db) (id : Nat) (p : Bytes) : Bool :=
  db.rows.any fun e => e.1 != id && e.2.path == p

def Db.put (db : Db) (id : Nat) (r : Row) : Db :=
  { db with rows := db.rows.map fun e => if e.1 == id then (id, r) else e }

/-- `database::create_track(snapshot)` -/
def Db.create (ops : FOps) (s : Schema) (db : Db) (x : Snap) : Db × Res Nat :=
  match writeStore ops s x with
  | .ok r =>
    if db.pathTaken 0 r.path then (db, .throw .sqlite_error)
    else ({ rows := db.rows ++ [(db.nextId, r)], nextId := db.nextId + 1 }, .ok db.nextId)
  | .throw e => (db, .throw e)
  | .ub u => (db, .ub u)

/-- `track::update(snapshot)`: `snapshot_to_row`, the whole-row UPDATE, and (since `fix:` 8862536) the test of
`rows_modified()` — a track that is not there: `track_deleted`, whatever path the snapshot names (an UPDATE
that matches no row meets no constraint). -/
def Db.update (ops : FOps) (s : Schema) (db : Db) (id : Nat) (x : Snap) : Db × Res Unit :=
  match writeStore ops s x with
  | .ok r =>
    if (db.get id).isNone then (db, .throw (.dj "track_deleted"))
    else if db.pathTaken id r.path then (db, .throw .sqlite_error) else (db.put id r, .ok ())
  | .throw e => (db, .throw e)
  | .ub u => (db, .ub u)

/-- the call would give the track a path another track has -/
def Db.clash (db : Db) (id : Nat) (σ : Setter) : Bool :=
  match σ.newPath with
  | some p => db.pathTaken id p
  | none => false

/-- one `set_*` call on track `id` -/
def Db.set (ops : FOps) (db : Db) (id : Nat) (σ : Setter) : Db × Res Unit :=
  match db.get id with
  | none => (db, .throw .runtime_error)     -- track_row_id_error
  | some r =>
    match applySetter ops σ r with
    | .ok r' =>
      if db.clash id σ then (db, .throw .sqlite_error) else (db.put id r', .ok ())
    | .throw e => (db, .throw e)
    | .ub u => (db, .ub u)

/-- `track::snapshot()` -/
def Db.snapshot (ops : FOps) (db : Db) (id : Nat) : Res Snap :=
  match db.get id with
  | none => .throw (.dj "track_deleted")
  | some r => readSnap ops r

end TracksV2
end EngineModel
