/-
The schema-2.x Track table at *statement* level: the rows with their key and
origin columns, the constraints and triggers of `CREATE TABLE Track …`
(identical in all seven 2.x schema creators as far as they are modelled here:
`id INTEGER PRIMARY KEY AUTOINCREMENT`, `CONSTRAINT C_path UNIQUE (path)`,
`CONSTRAINT C_originDatabaseUuid_originTrackId UNIQUE (originDatabaseUuid,
originTrackId)`, `trigger_after_update_Track_check_Id`,
`trigger_after_{insert,update}_Track_fix_origin`), the SQL statements
`track_table` issues (`INSERT`, whole-row `UPDATE`, one-column `UPDATE … WHERE
id = ?` with its `rows_modified` test, `SELECT col … WHERE id = ?`, `DELETE`),
and every public track call of `v2::track_impl` / `database_impl` as the
*sequence* of those statements the C++ issues, with the RAII transaction scope
where the C++ has one.

A failing statement has no effect of its own (SQLite's statement atomicity,
`ON CONFLICT ABORT`) but leaves the effects of the earlier statements of the
call in place unless the call runs inside `transaction`, whose unwinding rolls
everything back (`sqlite_transaction.hpp`).  So a constraint failure at the
k-th statement of a call has exactly the modelled effect.
-/
import EngineModel.TracksV2.Lens

namespace EngineModel
namespace TracksV2

open Prim

/-- One row of table `Track`: the columns of `Row` plus the key and the two
origin columns (`dateAdded`, `lastEditTime` and the tables `ChangeLog` /
`PlaylistEntity` are outside this model). -/
structure TRow where
  id : Nat
  originUuid : Bytes        -- originDatabaseUuid (TEXT, bound from a std::string: never NULL)
  originId : Nat            -- originTrackId
  row : Row
  deriving Repr, DecidableEq, Inhabited

structure TDb where
  /-- `SELECT uuid FROM Information` -/
  uuid : Bytes
  /-- `sqlite_sequence.seq` of table Track (AUTOINCREMENT) -/
  seq : Nat
  rows : List TRow
  deriving Repr, DecidableEq, Inhabited

def TDb.empty (uuid : Bytes) : TDb := ⟨uuid, 0, []⟩

def TDb.find (db : TDb) (id : Nat) : Option TRow := db.rows.find? (·.id == id)

/-- the rows with the row whose rowid is `n.id` replaced by `n` -/
def replaceRow (rows : List TRow) (n : TRow) : List TRow := rows.map fun e => if e.id == n.id then n else e

/-! ### constraints and triggers -/

/-- The two UNIQUE constraints of the table, for the row image `n` about to be
written, against every row with a different rowid.  (SQLite only probes an
index whose columns the statement changes; on tables whose rows already satisfy
the constraints — every reachable one — that is the same.) -/
def conflicts (rows : List TRow) (n : TRow) : Bool :=
  rows.any fun e => e.id != n.id &&
    (e.row.path == n.row.path || (e.originUuid == n.originUuid && e.originId == n.originId))

/-- `WHEN IFNULL(NEW.originTrackId, 0) = 0 OR IFNULL(NEW.originDatabaseUuid, '') = ''` -/
def needsOriginFix (n : TRow) : Bool := n.originId == 0 || n.originUuid == []

/-- `trigger_after_insert_Track_fix_origin` / `trigger_after_update_Track_fix_origin`:
`UPDATE Track SET originTrackId = NEW.id, originDatabaseUuid = (SELECT uuid FROM
Information) WHERE track.id = NEW.id` — a nested UPDATE, subject to the UNIQUE
constraints like any other (its failure aborts the whole statement).  The
nested UPDATE does not fire the trigger again (recursive_triggers is off; and it
would write the same values). -/
def fixOrigin (uuid : Bytes) (rows : List TRow) (n : TRow) : Res (List TRow) :=
  if needsOriginFix n then
    let n' := { n with originId := n.id, originUuid := uuid }
    if conflicts rows n' then .throw .sqlite_error else .ok (replaceRow rows n')
  else .ok rows

/-! ### statements (result: the table afterwards and `sqlite3_changes()`; a
`throw` means the statement failed and the table is as before the statement) -/

/-- the rowid an AUTOINCREMENT table gives the next row: above `seq` and above every rowid in use -/
def TDb.freshId (db : TDb) : Nat := (db.rows.foldl (fun m e => max m e.id) db.seq) + 1

/-- `INSERT INTO Track (…every column but id…) VALUES (…)` -/
def TDb.insertStmt (db : TDb) (originUuid : Bytes) (originId : Nat) (r : Row) : Res (TDb × Nat) :=
  let n : TRow := ⟨db.freshId, originUuid, originId, r⟩
  if conflicts db.rows n then .throw .sqlite_error
  else
    -- (trigger_after_insert_Track_check_id cannot fire: the new id is above `seq`)
    (fixOrigin db.uuid (db.rows ++ [n]) n).bind fun rows' =>
    .ok ({ db with rows := rows', seq := n.id }, n.id)

/-- `UPDATE Track SET … WHERE id = ?` where `f` gives the new image of the row. -/
def TDb.updateStmt (db : TDb) (id : Nat) (f : TRow → TRow) : Res (TDb × Nat) :=
  match db.find id with
  | none => .ok (db, 0)
  | some old =>
    let n := f old
    if n.id != old.id then .throw .sqlite_error          -- trigger_after_update_Track_check_Id (RAISE ABORT)
    else if conflicts db.rows n then .throw .sqlite_error
    else
      (fixOrigin db.uuid (replaceRow db.rows n) n).bind fun rows' =>
      .ok ({ db with rows := rows' }, 1)

/-- `DELETE FROM Track WHERE id = ?` -/
def TDb.deleteStmt (db : TDb) (id : Nat) : Res (TDb × Nat) :=
  .ok ({ db with rows := db.rows.filter fun e => !(e.id == id) }, (db.rows.filter fun e => e.id == id).length)

/-! ### calls as statement sequences -/

/-- A piece of a public call: runs on the connection's current table, may fail
part-way (the table reached so far stays). -/
def M (α : Type) := TDb → TDb × Res α

namespace M

@[inline] def pure {α} (a : α) : M α := fun db => (db, .ok a)

@[inline] def bind {α β} (m : M α) (f : α → M β) : M β := fun db =>
  match m db with
  | (db', .ok a) => f a db'
  | (db', .throw e) => (db', .throw e)
  | (db', .ub u) => (db', .ub u)

instance : Monad M where
  pure := M.pure
  bind := M.bind

/-- a computation of the C++ that does not touch the database (conversions, `to_blob()`, index checks) -/
def lift {α} (r : Res α) : M α := fun db => (db, r)

def throw {α} (e : Exn) : M α := fun db => (db, .throw e)

/-- one SQL statement: on failure the table is as before the statement -/
def stmt (f : TDb → Res (TDb × Nat)) : M Nat := fun db =>
  match f db with
  | .ok (db', n) => (db', .ok n)
  | .throw e => (db, .throw e)
  | .ub u => (db, .ub u)

/-- `sqlite_transaction trans{db}; …body…; trans.commit();` — BEGIN, the body,
COMMIT; when the body throws, the destructor issues ROLLBACK: the table is
what it was at BEGIN. -/
def transaction {α} (body : M α) : M α := fun db =>
  match body db with
  | (db', .ok a) => (db', .ok a)
  | (_, .throw e) => (db, .throw e)
  | (_, .ub u) => (db, .ub u)

end M

open M in
/-- `get_column<T>(db, id, col)`: `SELECT col FROM Track WHERE id = ?`, no row → `track_row_id_error` -/
def selectRow (id : Nat) : M Row := fun db =>
  match db.find id with
  | some t => (db, .ok t.row)
  | none => (db, .throw .runtime_error)

/-- `set_column<T>(db, id, col, v)`: `UPDATE Track SET col = ? WHERE id = ?`, then
`rows_modified() == 0` → `track_row_id_error`. -/
def setCol (id : Nat) (f : Row → Row) : M Unit := do
  let n ← M.stmt fun db => db.updateStmt id fun t => { t with row := f t.row }
  if n = 0 then M.throw .runtime_error else pure ()

/-- one `set_*` member of `v2::track_impl`, statement by statement -/
def callSet (ops : FOps) (id : Nat) : Setter → M Unit
  | .album v => setCol id fun r => { r with album := v }
  | .artist v => setCol id fun r => { r with artist := v }
  | .averageLoudness v => do
    let r ← selectRow id                                   -- get_track_data
    let c := writeAverageLoudness v
    setCol id fun x => { x with trackData := ({ r.trackData.1 with lo := c, mid := c, hi := c }, r.trackData.2) }
  | .beatgrid g => do
    let r ← selectRow id                                   -- get_beat_data
    let m := writeGridMarkers g
    setCol id fun x =>
      { x with beat := ({ r.beat.1 with adj := m, dflt := m, isSet := if m.isEmpty then 0 else 1 }, r.beat.2) }
  | .bitrate v => setCol id fun r => { r with bitrate := v.map sext32 }
  | .bpm v =>
    let f := writeBpm v
    M.transaction do
      setCol id fun r => { r with bpmAnalyzed := storeReal f.1 }
      setCol id fun r => { r with bpm := f.2 }
  | .comment v => setCol id fun r => { r with comment := v }
  | .composer v => setCol id fun r => { r with composer := v }
  | .duration v => setCol id fun r => { r with length := writeDuration v }
  | .genre v => setCol id fun r => { r with genre := v }
  | .hotCueAt i v => do
    let r ← selectRow id                                   -- get_quick_cues
    let k ← M.lift (slotIndex i r.cues.1.cues.length)
    let q ← M.lift (putCues ({ r.cues.1 with cues := r.cues.1.cues.set k (writeHotCue v) }, r.cues.2))
    setCol id fun x => { x with cues := q }
  | .hotCues v => do
    let r ← selectRow id
    let cs ← M.lift (writeHotCues v)
    let q ← M.lift (putCues ({ r.cues.1 with cues := cs }, r.cues.2))
    setCol id fun x => { x with cues := q }
  | .key v =>
    let c := writeKey v
    M.transaction do
      setCol id fun r => { r with key := c.1 }
      let r ← selectRow id                                 -- get_track_data
      setCol id fun x => { x with trackData := ({ r.trackData.1 with key := c.2 }, r.trackData.2) }
  | .lastPlayedAt v => setCol id fun r => { r with timeLastPlayed := v.map storeTime }
  | .loopAt i v => do
    let r ← selectRow id                                   -- get_loops
    let k ← M.lift (slotIndex i r.loops.1.length)
    let q ← M.lift (putLoops (r.loops.1.set k (writeLoop v), r.loops.2))
    setCol id fun x => { x with loops := q }
  | .loops v => do
    let r ← selectRow id
    let ls ← M.lift (writeLoops v)
    let q ← M.lift (putLoops (ls, r.loops.2))
    setCol id fun x => { x with loops := q }
  | .mainCue v => do
    let r ← selectRow id
    let c := v.getD 0
    setCol id fun x => { x with cues := ({ r.cues.1 with adjMain := c, defMain := c, isAdj := true }, r.cues.2) }
  | .publisher v => setCol id fun r => { r with label := v }
  | .rating v => setCol id fun r => { r with rating := writeRating v }
  | .relativePath p =>
    M.transaction do
      setCol id fun r => { r with path := p }
      -- "The `filename` and `fileType` columns are derived from the path, and must follow it."
      let filename := getFilename p
      setCol id fun r => { r with filename := filename }
      setCol id fun r => { r with fileType := (getFileExtension filename).getD [] }
  | .sampleCount v =>
    let n := v.getD 0
    M.transaction do
      let r ← selectRow id                                 -- get_track_data
      let r2 ← selectRow id                                -- get_beat_data
      setCol id fun x => { x with trackData := ({ r.trackData.1 with samples := n }, r.trackData.2) }
      setCol id fun x => { x with beat := ({ r2.beat.1 with samples := ops.ofU64 n }, r2.beat.2) }
  | .sampleRate v =>
    let c := writeSampleRate v
    M.transaction do
      let r ← selectRow id
      let r2 ← selectRow id
      setCol id fun x => { x with trackData := ({ r.trackData.1 with sampleRate := c }, r.trackData.2) }
      setCol id fun x => { x with beat := ({ r2.beat.1 with sampleRate := c }, r2.beat.2) }
  | .title v => setCol id fun r => { r with title := v }
  | .trackNumber v => setCol id fun r => { r with playOrder := v.map sext32 }
  | .waveform w => do
    let r ← selectRow id                                   -- get_overview_waveform_data
    let rc ← selectRow id                                  -- sample_count(): get_track_data
    let rr ← selectRow id                                  -- sample_rate(): get_track_data
    let o ← M.lift (writeWaveform ops w (getSampleCount rc) (getSampleRate rr))
    setCol id fun x => { x with ovw := (o, r.ovw.2) }
  | .year v => setCol id fun r => { r with year := v.map sext32 }

/-- `create_track(library, snapshot)`: `snapshot_to_row` (origin = the library's
uuid, `origin_track_id = 0`), then `track_table::add`. -/
def callCreate (ops : FOps) (s : Schema) (x : Snap) : M Nat := do
  let r ← M.lift (writeStore ops s x)
  M.stmt fun db => db.insertStmt db.uuid 0 r

/-- `track_impl::update(snapshot)`: `snapshot_to_row`, `row.id = id()`, then the
whole-row `UPDATE` of `track_table::update` — which writes `originDatabaseUuid`
and `originTrackId = 0` too (the trigger repairs them) — and, since the `fix:`
"2.x track::update on a removed track returned normally", the test of
`rows_modified()`: no row ⇒ `track_deleted` (as the 1.x `update` since 353e3ca). -/
def callUpdate (ops : FOps) (s : Schema) (id : Nat) (x : Snap) : M Unit := do
  let r ← M.lift (writeStore ops s x)
  let n ← M.stmt fun db => db.updateStmt id fun t => { t with row := r, originUuid := db.uuid, originId := 0 }
  if n = 0 then M.throw (.dj "track_deleted") else pure ()

/-- `database_impl::remove_track`: inside one transaction the memberships of
the track are removed (none in this model) and then `track_table::remove`:
`DELETE`, `rows_modified() == 0` → `std::invalid_argument`. -/
def callRemove (id : Nat) : M Unit :=
  M.transaction do
    let n ← M.stmt fun db => db.deleteStmt id
    if n = 0 then M.throw .invalid_argument else pure ()

inductive TOp where
  | create (x : Snap)
  | update (id : Nat) (x : Snap)
  | set (id : Nat) (σ : Setter)
  | remove (id : Nat)
  deriving Repr, Inhabited

/-- one public call; the answer is the new track's id for `create`, 0 otherwise -/
def TDb.step (ops : FOps) (s : Schema) (db : TDb) : TOp → TDb × Res Nat
  | .create x => callCreate ops s x db
  | .update id x => (callUpdate ops s id x >>= fun _ => (pure 0 : M Nat)) db
  | .set id σ => (callSet ops id σ >>= fun _ => (pure 0 : M Nat)) db
  | .remove id => (callRemove id >>= fun _ => (pure 0 : M Nat)) db

/-- any history, whatever the outcomes of its calls -/
def TDb.run (ops : FOps) (s : Schema) (db : TDb) (h : List TOp) : TDb := h.foldl (fun d op => (d.step ops s op).1) db

/-! ### the breaking change this model is there to tell apart (seeded C11-2)

`set_relative_path` without the transaction scope and with the derived columns
written before the path. -/
def callSetRelativePathUnscoped (id : Nat) (p : Bytes) : M Unit := do
  let filename := getFilename p
  setCol id fun r => { r with filename := filename }
  setCol id fun r => { r with fileType := (getFileExtension filename).getD [] }
  setCol id fun r => { r with path := p }

/-! ### the well-formedness C11 asks of the stored Track rows (Spec, executable)

Written from the property text, independently of `getFilename` /
`getFileExtension`: the file name is what follows the last '/', the file type
what follows the last '.' of the file name (empty when there is none). -/
namespace Spec

def fileNameOf (path : Bytes) : Bytes := (path.reverse.takeWhile (· != 47)).reverse

def fileTypeOf (path : Bytes) : Bytes :=
  let name := fileNameOf path
  if name.contains 46 then (name.reverse.takeWhile (· != 46)).reverse else []

/-- filename / fileType agree with path; origin ids agree with the database uuid and the row's id -/
def derivedOk (uuid : Bytes) (t : TRow) : Bool :=
  t.row.filename == fileNameOf t.row.path && t.row.fileType == fileTypeOf t.row.path &&
  t.originUuid == uuid && t.originId == t.id

def distinctBy {α β} [BEq β] (f : α → β) : List α → Bool
  | [] => true
  | a :: l => !(l.any fun b => f b == f a) && distinctBy f l

/-- every row's derived columns agree; ids are a key, positive and within the
AUTOINCREMENT counter; paths are unique -/
def tracksWf (db : TDb) : Bool :=
  db.rows.all (derivedOk db.uuid) && distinctBy (·.id) db.rows && distinctBy (·.row.path) db.rows &&
  db.rows.all fun t => decide (1 ≤ t.id ∧ t.id ≤ db.seq)

end Spec

end TracksV2
end EngineModel
