/-
Spec (oracle) for C01 / C06 on schema 2.x, written from the property text and
the documented conventions of the public API — not from the conversion code:

* cue and loop lists are padded to eight slots; more than eight is rejected;
* durations and timestamps have whole-second resolution (truncated toward
  zero, as `std::chrono::duration_cast` does); a duration shorter than one
  second is "unknown" (2.x stores a mandatory whole-second `length`, 0 = unknown);
* ratings are clamped to 0..100; 0 = no rating;
* documented sentinels: ±0.0 = absent for main cue, average loudness and sample
  rate; 0 = absent for sample count; a hot cue at sample offset −1 is an empty slot;
* 2.x keeps only an overview waveform: the entries are resampled to the
  recommended overview size (`Pure.Waveform.ovSize`: 1024, or 0 when the track
  has no samples or the rate is below 210 Hz) and opacity is not stored (255);
* the tempo is stored in an SQL `REAL`: −0.0 reads back as +0.0 (equal under the
  snapshot's `operator==`), NaN is not storable (outside the property's
  quantifier "finite doubles"; listed so that the theorems need no side condition);
* rejected (`none`): no relative path, a file name without extension (2.x
  derives the mandatory `fileType` from it), more than eight cues / loops, a
  label longer than 255 bytes (one-byte length prefix), a non-empty waveform
  without sample count or sample rate, or with a rate that has no integer part
  in the 64-bit range (NaN, ±inf, |rate| ≥ 2^63), or for a track whose
  recommended overview size is 0 (sample count 0, or |rate| < 210 Hz): there the
  waveform could only be dropped.
-/
import EngineModel.TracksV2.Types
import EngineModel.Pure.Waveform

namespace EngineModel
namespace TracksV2
namespace Spec

open Prim

def pad8 {α} (l : List (Option α)) : List (Option α) := l ++ List.replicate (8 - l.length) none

/-- Whole seconds of a tick count with `perSecond` ticks per second. -/
def wholeSeconds (perSecond : Int) (t : UInt64) : UInt64 :=
  u64OfInt (Int.tdiv (s64 t) perSecond * perSecond)

def normDuration (d : Option UInt64) : Option UInt64 :=
  match d with
  | none => none
  | some ms => if Int.tdiv (s64 ms) 1000 = 0 then none else some (wholeSeconds 1000 ms)

def normTime (t : Option UInt64) : Option UInt64 := t.map (wholeSeconds 1000000000)

def normRating (r : Option UInt32) : Option UInt32 :=
  match r with
  | none => none
  | some v => if s32 v ≤ 0 then none else if 100 < s32 v then some 100 else some v

/-- ±0.0 means "absent". -/
def normZeroAbsent (v : Option F) : Option F :=
  match v with
  | none => none
  | some b => if b = 0 ∨ b = F64.negZero then none else some b

def normCount (v : Option UInt64) : Option UInt64 :=
  match v with
  | none => none
  | some n => if n = 0 then none else some n

def normBpm (v : Option F) : Option F :=
  match v with
  | none => none
  | some b => if F64.isNaN b then none else if b = F64.negZero then some 0 else some b

/-- A cue at offset −1.0 is an empty slot. -/
def normCue (c : Option HotCue) : Option HotCue :=
  match c with
  | none => none
  | some q => if q.off = F64.negOne then none else some q

def labelsOk {α} (label : α → Bytes) (l : List (Option α)) : Bool :=
  l.all fun o => match o with
    | none => true
    | some a => decide ((label a).length ≤ 255)

/-- Integer part of a double, when it has one in the 64-bit range (exact on
the bits; written independently of the Model's `toI64`). -/
def integerPart (x : F) : Option Int :=
  let e := x.toNat / 4503599627370496 % 2048
  let m := x.toNat % 4503599627370496 + 4503599627370496
  let neg := decide (9223372036854775808 ≤ x.toNat)
  if e = 2047 then none                                   -- inf / NaN
  else if e < 1023 then some 0                            -- |x| < 1 (incl. subnormals)
  else if 1086 < e then none                              -- |x| ≥ 2^64
  else
    let mag : Nat := if 1075 ≤ e then m * 2 ^ (e - 1075) else m / 2 ^ (1075 - e)
    if neg then (if mag ≤ 9223372036854775808 then some (-(mag : Int)) else none)
    else (if mag < 9223372036854775808 then some (mag : Int) else none)

/-- The overview waveform 2.x keeps: `size` entries picked at the centres of
`size` equal parts of the given waveform (entry `i` ↦ `w[len·(2i+1)/(2·1024)]`),
opacity not stored. -/
def overviewOf (w : List WEntry) (size : Nat) : List WEntry :=
  (List.range size).filterMap fun i =>
    (w[w.length * (2 * i + 1) / 2048]?).map fun e => { e with lo := 255, mo := 255, ho := 255 }

def normWaveform (w : List WEntry) (count : Option UInt64) (rate : Option F) : Option (List WEntry) :=
  if w = [] then some [] else
  match count, rate with
  | some n, some r =>
    match integerPart r with
    | none => none
    | some t =>
      -- a track without samples, or with a rate below the quantisation rate (210 Hz), has no overview
      -- waveform at all (recommended size 0): a non-empty waveform could only be dropped — not
      -- representable, so the write must be rejected ("never silently corrupted")
      if Pure.Waveform.ovSize n.toNat t.natAbs = 0 then none
      else some (overviewOf w (Pure.Waveform.ovSize n.toNat t.natAbs))
  | _, _ => none

/-- The file name (what follows the last '/') contains a '.': some '.' of the
path has no '/' after it. -/
def hasExtension : Bytes → Bool
  | [] => false
  | x :: r => hasExtension r || (x == 46 && !r.contains 47)

/-- The snapshot a write followed by a read must yield; `none` = the write must
be rejected with an exception. -/
def normalize (_s : Schema) (x : Snap) : Option Snap :=
  match x.relativePath with
  | none => none
  | some path =>
    if !hasExtension path then none
    else if 8 < x.hotCues.length ∨ 8 < x.loops.length then none
    else if !labelsOk HotCue.label x.hotCues then none
    else if !labelsOk LoopV.label x.loops then none
    else
      match normWaveform x.waveform x.sampleCount x.sampleRate with
      | none => none
      | some w =>
        some { x with
          averageLoudness := normZeroAbsent x.averageLoudness
          bpm := normBpm x.bpm
          duration := normDuration x.duration
          hotCues := pad8 (x.hotCues.map normCue)
          lastPlayedAt := normTime x.lastPlayedAt
          loops := pad8 x.loops
          mainCue := normZeroAbsent x.mainCue
          rating := normRating x.rating
          sampleCount := normCount x.sampleCount
          sampleRate := normZeroAbsent x.sampleRate
          waveform := w }

end Spec
end TracksV2
end EngineModel
