/-
Spec (oracle) for C06 on schema 2.x: what one `set_*` call must do to the
observable state of its track, stated on snapshots only (a snapshot is the
tuple of all getter values): the field named by the setter takes the
normalised value (same normalisation as C01), every other field is unchanged;
`none` = the call must be rejected with an exception (slot index outside the
slots of the track, more than eight cues / loops, a label over 255 bytes, a
non-empty waveform for a track without sample count / rate).
-/
import EngineModel.TracksV2.Spec
import EngineModel.TracksV2.Lens

namespace EngineModel
namespace TracksV2
namespace Spec

open Prim

def labelOk {α} (label : α → Bytes) : Option α → Bool
  | none => true
  | some a => decide ((label a).length ≤ 255)

/-- slot `i` (a C++ `int`) of a list of `n` slots -/
def slot (i : UInt32) (n : Nat) : Option Nat :=
  if 0 ≤ s32 i ∧ s32 i < (n : Int) then some i.toNat else none

def applySetter (σ : Setter) (y : Snap) : Option Snap :=
  match σ with
  | .album v => some { y with album := v }
  | .artist v => some { y with artist := v }
  | .averageLoudness v => some { y with averageLoudness := normZeroAbsent v }
  | .beatgrid v => some { y with beatgrid := v }
  | .bitrate v => some { y with bitrate := v }
  | .bpm v => some { y with bpm := normBpm v }
  | .comment v => some { y with comment := v }
  | .composer v => some { y with composer := v }
  | .duration v => some { y with duration := normDuration v }
  | .genre v => some { y with genre := v }
  | .hotCueAt i v =>
    match slot i y.hotCues.length with
    | none => none
    | some k => if labelOk HotCue.label v then some { y with hotCues := y.hotCues.set k (normCue v) } else none
  | .hotCues v =>
    if 8 < v.length ∨ !labelsOk HotCue.label v then none else some { y with hotCues := pad8 (v.map normCue) }
  | .key v => some { y with key := v }
  | .lastPlayedAt v => some { y with lastPlayedAt := normTime v }
  | .loopAt i v =>
    match slot i y.loops.length with
    | none => none
    | some k => if labelOk LoopV.label v then some { y with loops := y.loops.set k v } else none
  | .loops v =>
    if 8 < v.length ∨ !labelsOk LoopV.label v then none else some { y with loops := pad8 v }
  | .mainCue v => some { y with mainCue := normZeroAbsent v }
  | .publisher v => some { y with publisher := v }
  | .rating v => some { y with rating := normRating v }
  | .relativePath v => some { y with relativePath := some v }
  | .sampleCount v => some { y with sampleCount := normCount v }
  | .sampleRate v => some { y with sampleRate := normZeroAbsent v }
  | .title v => some { y with title := v }
  | .trackNumber v => some { y with trackNumber := v }
  | .waveform v =>
    match normWaveform v y.sampleCount y.sampleRate with
    | none => none
    | some w => some { y with waveform := w }
  | .year v => some { y with year := v }

end Spec
end TracksV2
end EngineModel
