/-
Spec (oracle) for C06 on schema 2.x: what one `set_*` call must do to the
observable state of its track, stated on snapshots only (a snapshot is the
tuple of all getter values): the field named by the setter takes the
normalised value (same normalisation as C01), every other field is unchanged;
`none` = the call must be rejected with an exception (slot index outside the
slots of the track, more than eight cues / loops, a label over 255 bytes, a
non-empty waveform for a track without sample count / rate).
-/
import EngineModel.TracksV2.Spec
import EngineModel.TracksV2.Lens

namespace EngineModel
namespace TracksV2
namespace Spec

open Prim

def labelOk {α} (label : α → Bytes) : Option α → Bool
  | none => true
  | some a => decide ((label a).length ≤ 255)

/-- slot `i` (a C++ `int`) of a list of `n` slots -/
def slot (i : UInt32) (n : Nat) : Option Nat :=
  if 0 ≤ s32 i ∧ s32 i < (n : Int) then some i.toNat else none

def applySetter (σ : Setter) (y : Snap) : Option Snap :=
  match σ with
  | .album v => some { y with album := v }
  | .artist v => some { y with artist := v }
  | .averageLoudness v => some { y with averageLoudness := normZeroAbsent v }
  | .beatgrid v => some { y with beatgrid := v }
  | .bitrate v => some { y with bitrate := v }
  | .bpm v => some { y with bpm := normBpm v }
  | .comment v => some { y with comment := v }
  | .composer v => some { y with composer := v }
  | .duration v => some { y with duration := normDuration v }
  | .genre v => some { y with genre := v }
  | .hotCueAt i v =>
    match slot i y.hotCues.length with
    | none => none
    | some k => if labelOk HotCue.label v then some { y with hotCues := y.hotCues.set k (normCue v) } else none
  | .hotCues v =>
    if 8 < v.length ∨ !labelsOk HotCue.label v then none else some { y with hotCues := pad8 (v.map normCue) }
  | .key v => some { y with key := v }
  | .lastPlayedAt v => some { y with lastPlayedAt := normTime v }
  | .loopAt i v =>
    match slot i y.loops.length with
    | none => none
    | some k => if labelOk LoopV.label v then some { y with loops := y.loops.set k v } else none
  | .loops v =>
    if 8 < v.length ∨ !labelsOk LoopV.label v then none else some { y with loops := pad8 v }
  | .mainCue v => some { y with mainCue := normZeroAbsent v }
  | .publisher v => some { y with publisher := v }
  | .rating v => some { y with rating := normRating v }
  | .relativePath v => some { y with relativePath := some v }
  | .sampleCount v => some { y with sampleCount := normCount v }
  | .sampleRate v => some { y with sampleRate := normZeroAbsent v }
  | .title v => some { y with title := v }
  | .trackNumber v => some { y with trackNumber := v }
  | .waveform v =>
    match normWaveform v y.sampleCount y.sampleRate with
    | none => none
    | some w => some { y with waveform := w }
  | .year v => some { y with year := v }


/-! ### fields, for stating the frame law over all ordered pairs -/

inductive Field where
  | album | artist | averageLoudness | beatgrid | bitrate | bpm | comment | composer | duration | fileBytes
  | genre | hotCues | key | lastPlayedAt | loops | mainCue | publisher | rating | relativePath | sampleCount
  | sampleRate | title | trackNumber | waveform | year
  deriving DecidableEq, Repr, Inhabited

inductive Val where
  | str (v : Option Bytes)
  | dbl (v : Option F)
  | grid (v : List GMarker)
  | int (v : Option UInt32)
  | u64 (v : Option UInt64)
  | cues (v : List (Option HotCue))
  | loops (v : List (Option LoopV))
  | wave (v : List WEntry)
  deriving DecidableEq, Repr, Inhabited

/-- the observable value of a field (getter = snapshot field) -/
def fieldOf (y : Snap) : Field → Val
  | .album => .str y.album | .artist => .str y.artist | .averageLoudness => .dbl y.averageLoudness
  | .beatgrid => .grid y.beatgrid | .bitrate => .int y.bitrate | .bpm => .dbl y.bpm | .comment => .str y.comment
  | .composer => .str y.composer | .duration => .u64 y.duration | .fileBytes => .u64 y.fileBytes
  | .genre => .str y.genre | .hotCues => .cues y.hotCues | .key => .int y.key | .lastPlayedAt => .u64 y.lastPlayedAt
  | .loops => .loops y.loops | .mainCue => .dbl y.mainCue | .publisher => .str y.publisher | .rating => .int y.rating
  | .relativePath => .str y.relativePath | .sampleCount => .u64 y.sampleCount | .sampleRate => .dbl y.sampleRate
  | .title => .str y.title | .trackNumber => .int y.trackNumber | .waveform => .wave y.waveform | .year => .int y.year

/-- the field a setter names -/
def fieldOfSetter : Setter → Field
  | .album _ => .album | .artist _ => .artist | .averageLoudness _ => .averageLoudness | .beatgrid _ => .beatgrid
  | .bitrate _ => .bitrate | .bpm _ => .bpm | .comment _ => .comment | .composer _ => .composer
  | .duration _ => .duration | .genre _ => .genre | .hotCueAt _ _ => .hotCues | .hotCues _ => .hotCues
  | .key _ => .key | .lastPlayedAt _ => .lastPlayedAt | .loopAt _ _ => .loops | .loops _ => .loops
  | .mainCue _ => .mainCue | .publisher _ => .publisher | .rating _ => .rating | .relativePath _ => .relativePath
  | .sampleCount _ => .sampleCount | .sampleRate _ => .sampleRate | .title _ => .title
  | .trackNumber _ => .trackNumber | .waveform _ => .waveform | .year _ => .year

/-- the value the named field must have after an accepted call: the value given,
under C01's normalisation (per-slot setters: the list with that slot replaced;
waveform: resampled for the track's current sample count and rate) -/
def newValue (σ : Setter) (y : Snap) : Option Val :=
  match σ with
  | .album v => some (.str v) | .artist v => some (.str v)
  | .averageLoudness v => some (.dbl (normZeroAbsent v))
  | .beatgrid v => some (.grid v) | .bitrate v => some (.int v) | .bpm v => some (.dbl (normBpm v))
  | .comment v => some (.str v) | .composer v => some (.str v) | .duration v => some (.u64 (normDuration v))
  | .genre v => some (.str v)
  | .hotCueAt i v => (slot i y.hotCues.length).map fun k => .cues (y.hotCues.set k (normCue v))
  | .hotCues v => some (.cues (pad8 (v.map normCue)))
  | .key v => some (.int v) | .lastPlayedAt v => some (.u64 (normTime v))
  | .loopAt i v => (slot i y.loops.length).map fun k => .loops (y.loops.set k v)
  | .loops v => some (.loops (pad8 v))
  | .mainCue v => some (.dbl (normZeroAbsent v)) | .publisher v => some (.str v)
  | .rating v => some (.int (normRating v)) | .relativePath v => some (.str (some v))
  | .sampleCount v => some (.u64 (normCount v)) | .sampleRate v => some (.dbl (normZeroAbsent v))
  | .title v => some (.str v) | .trackNumber v => some (.int v)
  | .waveform v => (normWaveform v y.sampleCount y.sampleRate).map .wave
  | .year v => some (.int v)


/-! ### several tracks -/

/-- the observable state of the library's tracks: (id, snapshot) -/
abbrev Obs := List (Nat × Snap)

/-- the call would give the track a relative path another track has -/
def clashObs (o : Obs) (id : Nat) (σ : Setter) : Bool :=
  match σ.newPath with
  | some p => o.any fun e => e.1 != id && e.2.relativePath == some p
  | none => false

/-- One `set_*` call on track `id`: only that track's snapshot changes, by
`applySetter`; a rejected call — or a relative path another track already has
(the library keeps paths unique) — changes nothing. -/
def stepObs (o : Obs) (id : Nat) (σ : Setter) : Obs :=
  if clashObs o id σ then o else
  o.map fun e => if e.1 == id then (match applySetter σ e.2 with | some y' => (e.1, y') | none => e) else e

/-- a history of calls, interleaved over the tracks -/
def runObs (o : Obs) (h : List (Nat × Setter)) : Obs := h.foldl (fun o c => stepObs o c.1 c.2) o

end Spec

/-- the Model's counterpart: run the calls, ignoring their outcomes -/
def Db.run (ops : FOps) (db : Db) (h : List (Nat × Setter)) : Db := h.foldl (fun db c => (db.set ops c.1 c.2).1) db

end TracksV2
end EngineModel
