/-
Schema-2.x ("Database2") tracks: the public `track_snapshot` (25 fields), the
`track_row` the engine code converts it to, and the floating-point operations
whose results never reach a snapshot (abstract in theorems, hardware in the
driver).  Integers are bit patterns (`UInt32` = C++ `int`/`int32_t`, `UInt64` =
`int64_t`/`unsigned long long`/`std::chrono` counts), doubles are the `UInt64`
of their IEEE-754 bits, strings are byte lists.
-/
import EngineModel.Basic.Prim
import EngineModel.Basic.Res
import EngineModel.Basic.F64
import EngineModel.Format.V2

namespace EngineModel
namespace TracksV2

/-- The seven schema-2.x versions (`engine_schema` enumerators, in order). -/
inductive Schema where
  | s2_18_0 | s2_20_1 | s2_20_2 | s2_20_3 | s2_21_0 | s2_21_1 | s2_21_2
  deriving DecidableEq, Repr, Inhabited

def Schema.all : List Schema :=
  [.s2_18_0, .s2_20_1, .s2_20_2, .s2_20_3, .s2_21_0, .s2_21_1, .s2_21_2]

def Schema.ord : Schema → Nat
  | .s2_18_0 => 0 | .s2_20_1 => 1 | .s2_20_2 => 2 | .s2_20_3 => 3
  | .s2_21_0 => 4 | .s2_21_1 => 5 | .s2_21_2 => 6

def Schema.name : Schema → String
  | .s2_18_0 => "schema_2_18_0" | .s2_20_1 => "schema_2_20_1" | .s2_20_2 => "schema_2_20_2"
  | .s2_20_3 => "schema_2_20_3" | .s2_21_0 => "schema_2_21_0" | .s2_21_1 => "schema_2_21_1"
  | .s2_21_2 => "schema_2_21_2"

def Schema.ofName (n : String) : Option Schema := Schema.all.find? (fun s => s.name == n)

/-- `schema >= schema_2_20_1`: the `activeOnLoadLoops` column exists. -/
def Schema.hasActiveOnLoadLoops (s : Schema) : Bool := decide (1 ≤ s.ord)

abbrev F := F64.Bits
abbrev Color := V2.Color

/-- `djinterop::hot_cue` -/
structure HotCue where
  label : Bytes
  off : F
  color : Color
  deriving Repr, DecidableEq, Inhabited

/-- `djinterop::loop` -/
structure LoopV where
  label : Bytes
  start : F
  stop : F
  color : Color
  deriving Repr, DecidableEq, Inhabited

/-- `djinterop::beatgrid_marker` -/
structure GMarker where
  index : UInt32    -- `int`
  off : F
  deriving Repr, DecidableEq, Inhabited

/-- `djinterop::waveform_entry`: three (value, opacity) points. -/
structure WEntry where
  lv : UInt8
  mv : UInt8
  hv : UInt8
  lo : UInt8
  mo : UInt8
  ho : UInt8
  deriving Repr, DecidableEq, Inhabited

/-- `djinterop::track_snapshot`, fields in declaration order. -/
structure Snap where
  album : Option Bytes
  artist : Option Bytes
  averageLoudness : Option F
  beatgrid : List GMarker
  bitrate : Option UInt32
  bpm : Option F
  comment : Option Bytes
  composer : Option Bytes
  duration : Option UInt64        -- milliseconds, `int64_t` count
  fileBytes : Option UInt64
  genre : Option Bytes
  hotCues : List (Option HotCue)
  key : Option UInt32             -- `musical_key` (an `int` enum)
  lastPlayedAt : Option UInt64    -- system_clock ticks (ns), `int64_t` count
  loops : List (Option LoopV)
  mainCue : Option F
  publisher : Option Bytes
  rating : Option UInt32
  relativePath : Option Bytes
  sampleCount : Option UInt64
  sampleRate : Option F
  title : Option Bytes
  trackNumber : Option UInt32
  waveform : List WEntry
  year : Option UInt32
  deriving Repr, DecidableEq, Inhabited

/-- The snapshot `track_snapshot{}` (everything absent / empty). -/
def Snap.empty : Snap :=
  ⟨none, none, none, [], none, none, none, none, none, none, none, [], none, none, [], none, none, none,
   none, none, none, none, none, [], none⟩

/-- `djinterop::engine::v2::track_row` without the columns whose value is an
input of the run (`id`, `dateAdded` = now(), `originDatabaseUuid`,
`lastEditTime`) and `originTrackId` (kept equal to `id` by a trigger).
Time points are system_clock tick counts (ns). -/
structure Row where
  playOrder : Option UInt64
  length : UInt64
  bpm : Option UInt64
  year : Option UInt64
  path : Bytes
  filename : Bytes
  bitrate : Option UInt64
  bpmAnalyzed : Option F
  albumArtId : UInt64
  fileBytes : Option UInt64
  title : Option Bytes
  artist : Option Bytes
  album : Option Bytes
  genre : Option Bytes
  comment : Option Bytes
  label : Option Bytes
  composer : Option Bytes
  remixer : Option Bytes
  key : Option UInt32
  rating : UInt64
  albumArt : Option Bytes
  timeLastPlayed : Option UInt64
  isPlayed : Bool
  fileType : Bytes
  isAnalyzed : Bool
  dateCreated : UInt64
  isAvailable : Bool
  isMetadataOfPackedTrackChanged : Bool
  isPerformanceDataOfPackedTrackChanged : Bool
  playedIndicator : Option UInt64
  isMetadataImported : Bool
  pdbImportKey : UInt64
  streamingSource : Option Bytes
  uri : Option Bytes
  isBeatGridLocked : Bool
  trackData : V2.Track × Bytes
  ovw : V2.Ovw × Bytes
  beat : V2.Beat × Bytes
  cues : V2.Cues × Bytes
  loops : V2.Loops × Bytes
  thirdPartySourceId : Option UInt64
  streamingFlags : UInt64
  explicitLyrics : Bool
  activeOnLoadLoops : Option UInt64
  deriving Repr, DecidableEq, Inhabited

/-- Floating-point operations whose results are stored but never read back into
a snapshot by the code paths of C01/C06 (theorems hold for every instance; the
driver instantiates them with the hardware). -/
structure FOps where
  /-- `(double) unsigned long long` -/
  ofU64 : UInt64 → F
  /-- `static_cast<double>(int64_t)` (argument: the bit pattern of the integer) -/
  ofI64 : UInt64 → F
  /-- `a / b` on doubles -/
  div : F → F → F

end TracksV2
end EngineModel
