/-
`create_track` / `track::update` at the level of SQL statements (engine_track_impl.cpp +
engine_storage.cpp): the values prepared BEFORE the transaction (`prepare`: a missing path, nine loops
throw here — no statement has been stepped), then

    BEGIN ; INSERT INTO Track … | UPDATE Track … WHERE id = ?      (UNIQUE(path); no row ⇒ track_deleted)
          ; INSERT OR REPLACE INTO MetaData … (bulk)
          ; INSERT OR REPLACE INTO MetaDataInteger … (bulk)
          ; INSERT OR REPLACE INTO PerformanceData …               (the six blob encoders run first and may throw)
    COMMIT

as a command list of the generic transaction theory `Spec.Txn` (SQLite's connection: committed database,
working copy, statement-level atomicity, RAII rollback), so that a failure — of a statement by itself, or
injected at ANY position — can be followed statement by statement.  `Db` keeps the four tables joined
by track id; a statement changes the component of its table.
-/
import EngineModel.TracksV1.Accessors
import EngineModel.Spec.Txn

namespace EngineModel
namespace TracksV1

open Impl.V1 (GMarker HotCue LoopV Entry Wave Beat Cues Loops)
open Fl (FOps)
open Spec.Txn (Cmd)

/-- What is computed before the transaction opens. -/
structure Prep where
  path : Bytes
  lenCalc : Option Int
  bpmI : Option Int
  ovw : Wave
  hires : Wave
  loops : Loops
  deriving Repr

def prepare (o : FOps) (x : Snap) : Res Prep :=
  match x.relativePath with
  | none => .throw (.dj "invalid_track_snapshot")
  | some path =>
    (lengthCalculated x.sampleCount x.sampleRate).bind fun lenCalc =>
    (roundedBpm x.bpm).bind fun bpmI =>
    (toOverview o x.sampleCount x.sampleRate x.waveform).bind fun ovw =>
    (toHires o x.sampleCount x.sampleRate x.waveform).bind fun hires =>
    (toLoops x.loops).bind fun loops =>
    .ok ⟨path, lenCalc, bpmI, ovw, hires, loops⟩

/-- The three blob encoders of `set_performance_data` that can throw. -/
def perfCols (o : FOps) (x : Snap) (pr : Prep) : Res (Beat × Cues × Loops) :=
  (normBeat ⟨x.sampleRate, x.sampleCount.map (fun n => o.ofU64 n.toNat), x.beatgrid, x.beatgrid⟩).bind fun b =>
  (normCues (toCues x.hotCues x.mainCue)).bind fun c =>
  (normLoops pr.loops).bind fun l =>
  .ok (b, c, l)

def snapLen (x : Snap) : Option Int := x.duration.map fun d => tdivPos (Prim.s64 d) 1000

/-- A statement `… WHERE id = ?` on the rows of one track (`none`: no such track). -/
def modRows (d : Db) (id : Int) (g : TrackRows → Option TrackRows) : Option Db :=
  match d.rows id with
  | none => none
  | some r => (g r).map fun r' => { d with tracks := aset id r' d.tracks }

def stTrackInsert (s : Schema) (x : Snap) (pr : Prep) (id : Int) (d : Db) : Option Db :=
  if pathTaken d id pr.path then none
  else
    let t := writeTrackRow s TrackRow.blank x pr.path (snapLen x) pr.lenCalc pr.bpmI
    some { d with tracks := d.tracks ++ [(id, { blankRows with track := t })] }

def stTrackUpdate (s : Schema) (x : Snap) (pr : Prep) (id : Int) (d : Db) : Option Db :=
  if pathTaken d id pr.path then none
  else modRows d id fun r => some { r with track := writeTrackRow s r.track x pr.path (snapLen x) pr.lenCalc pr.bpmI }

def stMeta (s : Schema) (x : Snap) (pr : Prep) (id : Int) (d : Db) : Option Db :=
  let everPlayed : Option Bytes := if x.lastPlayedAt.isSome then oneText else none
  let rows := metaBulk s x ((snapLen x).map mmss) everPlayed (getExtension (getFilename pr.path))
  modRows d id fun r => some { r with mstr := asetMany rows r.mstr }

def stMetaInt (s : Schema) (x : Snap) (id : Int) (d : Db) : Option Db :=
  let rows := metaIntBulk s (x.key.map Prim.s32) (x.rating.map clampRating) (x.lastPlayedAt.map toTimestamp)
  modRows d id fun r => some { r with mint := asetMany rows r.mint }

def stPerf (o : FOps) (s : Schema) (x : Snap) (pr : Prep) (id : Int) (d : Db) : Option Db :=
  modRows d id fun r =>
    match perfCols o x pr with
    | .ok c =>
      let p : PerfRow :=
        { isAnalyzed := 1, isRendered := 0,
          trackData := normTrack ⟨x.sampleRate, x.sampleCount, x.averageLoudness, x.key⟩,
          hires := normHires pr.hires, overview := normOvw pr.ovw, beat := c.1, cues := c.2.1, loops := c.2.2,
          hasSerato := some 0,
          hasRekordbox := if s.ge .s1_7_1 then some 0 else none,
          hasTraktor := if s.ge .s1_11_1 then some 0 else none }
      some { r with perf := some p }
    | _ => none

/-- The statements of `create_track` (`upd = false`) / `update` (`upd = true`) after `prepare`. -/
def writeCmds (o : FOps) (s : Schema) (x : Snap) (pr : Prep) (id : Int) (upd : Bool) : List (Cmd Db) :=
  [.begin,
   .write (if upd then stTrackUpdate s x pr id else stTrackInsert s x pr id),
   .write (stMeta s x pr id), .write (stMetaInt s x id), .write (stPerf o s x pr id),
   .commit]

/-- Statement-level `create_track` / `update` under fault injection: `(database after, raised)`;
an exception before the transaction opens leaves the database as it is without stepping anything. -/
def writeCall (o : FOps) (d : Db) (x : Snap) (id : Int) (upd : Bool) (fault : Option Nat) (auto : Bool) : Db × Bool :=
  match prepare o x with
  | .ok pr =>
    let out := Spec.Txn.call fault auto (writeCmds o d.schema x pr id upd) d
    (out.conn.committed, out.raised)
  | _ => (d, true)

end TracksV1
end EngineModel
