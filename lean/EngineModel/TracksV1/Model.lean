/-
Model of the schema-1.x track code
(src/djinterop/engine/v1/engine_track_impl.cpp + the track parts of
engine_storage.{hpp,cpp}), statement by statement, over the rows of ONE track:

* `writeSnap`  = `create_track` (no prior rows) / `track::update` (prior rows);
* `readSnap`   = `track::snapshot()`;
* every getter and setter (`get*` / `set*`).

A PerformanceData blob column holds the codec's value-level result
`decode (encode v)` (`norm*` below, taken from Impl/V1.lean's encoders and
decoders); `colGuard` is the run-time decode-after-encode check of
`set_performance_data_column`, which the bulk path `set_performance_data` does
not have.  Everything that can throw or be undefined is explicit in `Res`.
-/
import EngineModel.TracksV1.Types
import EngineModel.TracksV1.Float
import EngineModel.Gen.TrackUtilsGen

namespace EngineModel
namespace TracksV1

open Impl.V1 (GMarker HotCue LoopV Entry Wave Beat Cues Loops)
open Fl (FOps)

/-! ### value-level effect of the six codecs (`decode ∘ encode`) -/

def zeroNoneF (x : Option Bits) : Option Bits := x.bind fun v => if F64.isZero v then none else some v

def normTrack (v : Impl.V1.Track) : Impl.V1.Track :=
  ⟨zeroNoneF v.sampleRate, v.sampleCount.bind (fun n => if n = 0 then none else some n),
   zeroNoneF v.loudness, v.key.bind (fun k => if k = 0 then none else some k)⟩

def normBeat (v : Beat) : Res Beat :=
  if !Impl.V1.validGrid v.dflt || !Impl.V1.validGrid v.adj then .throw .invalid_argument
  else .ok ⟨zeroNoneF v.sampleRate, zeroNoneF v.sampleCount, v.dflt, v.adj⟩

def mapRes {α β} (f : α → Res β) : List α → Res (List β)
  | [] => .ok []
  | a :: l =>
    match f a with
    | .ok b =>
      match mapRes f l with
      | .ok r => .ok (b :: r)
      | .throw e => .throw e
      | .ub u => .ub u
    | .throw e => .throw e
    | .ub u => .ub u

def normCueSlot : Option HotCue → Res (Option HotCue)
  | none => .ok none
  | some q =>
    if q.label.length = 0 then .throw .invalid_argument
    else if 255 < q.label.length then .throw .invalid_argument
    else .ok (if F64.ne q.off F64.negOne then some q else none)

def normCues (v : Cues) : Res Cues :=
  if 8 < v.cues.length then .throw (.dj "hot_cues_overflow") else
  match mapRes normCueSlot v.cues with
  | .throw e => .throw e
  | .ub u => .ub u
  | .ok cs => if v.cues.length < 8 then .throw .runtime_error else .ok ⟨cs, v.adjMain, v.defMain⟩

def normLoopSlot : Option LoopV → Res (Option LoopV)
  | none => .ok none
  | some l =>
    if l.label.length = 0 then .throw .logic_error
    else if 255 < l.label.length then .throw .invalid_argument
    else .ok (if F64.ne l.start F64.negOne then some l else none)

def normLoops (v : Loops) : Res Loops := mapRes normLoopSlot v

def normHires (w : Wave) : Wave := w
def opaque255 (e : Entry) : Entry := { e with lo := 255, mo := 255, ho := 255 }
def normOvw (w : Wave) : Wave := ⟨w.spe, w.entries.map opaque255⟩

/-! ### the C++ `operator==` of the six structs (doubles compare numerically) -/

def eqOptF : Option Bits → Option Bits → Bool
  | none, none => true
  | some a, some b => F64.eq a b
  | _, _ => false

def eqTrack (a b : Impl.V1.Track) : Bool :=
  eqOptF a.sampleRate b.sampleRate && a.sampleCount == b.sampleCount && eqOptF a.loudness b.loudness &&
    a.key == b.key

def all2 {α} (f : α → α → Bool) : List α → List α → Bool
  | [], [] => true
  | a :: l, b :: r => f a b && all2 f l r
  | _, _ => false

def eqMarker (a b : GMarker) : Bool := a.index == b.index && F64.eq a.off b.off
def eqBeat (a b : Beat) : Bool :=
  eqOptF a.sampleRate b.sampleRate && eqOptF a.sampleCount b.sampleCount &&
    all2 eqMarker a.dflt b.dflt && all2 eqMarker a.adj b.adj

def eqOpt {α} (f : α → α → Bool) : Option α → Option α → Bool
  | none, none => true
  | some a, some b => f a b
  | _, _ => false

def eqCue (a b : HotCue) : Bool := a.label == b.label && F64.eq a.off b.off && a.color == b.color
def eqCues (a b : Cues) : Bool :=
  all2 (eqOpt eqCue) a.cues b.cues && F64.eq a.adjMain b.adjMain && F64.eq a.defMain b.defMain
def eqLoop (a b : LoopV) : Bool :=
  a.label == b.label && F64.eq a.start b.start && F64.eq a.stop b.stop && a.color == b.color
def eqLoops (a b : Loops) : Bool := all2 (eqOpt eqLoop) a b
def eqWave (a b : Wave) : Bool := F64.eq a.spe b.spe && a.entries == b.entries

/-- `set_performance_data_column`'s check `T::decode(content.encode()) == content`
(`logic_error` otherwise); the value stored is the decoded one. -/
def colGuard {α} (norm : α → Res α) (eq : α → α → Bool) (v : α) : Res α :=
  match norm v with
  | .ok v' => if eq v' v then .ok v' else .throw .logic_error
  | .throw e => .throw e
  | .ub u => .ub u

/-! ### helpers of engine_track_impl.cpp -/

/-- C++ `/` on `int64_t` with a positive divisor (truncation toward zero). -/
def tdivPos (a : Int) (b : Nat) : Int := if 0 ≤ a then a / (b : Int) else -((-a) / (b : Int))
def tmodPos (a : Int) (b : Nat) : Int := a - tdivPos a b * (b : Int)

/-- `to_length_calculated` (after the `fix:`): whole seconds, only for sample
rates with a non-zero 64-bit integer truncation. -/
def lengthCalculated (count : Option UInt64) (rate : Option Bits) : Res (Option Int) :=
  match count, rate with
  | some c, some r =>
    if !Fl.rateDivisible r then .ok none else
    match Fl.toI64 r with
    | none => .ub .float_cast_range
    | some d =>
      match Cxx.I64.div (Prim.s64 c) d with
      | some q => .ok (some q)
      | none => .ub .div_zero
  | _, _ => .ok none

/-- `"MM:SS"` of `to_length_fields`. -/
def mmss (len : Int) : Bytes := pad2 (tdivPos len 60) ++ [58] ++ pad2 (tmodPos len 60)
/-- `set_duration`'s variant: `setw` applies to the minutes only. -/
def mmssSetter (len : Int) : Bytes := pad2 (tdivPos len 60) ++ [58] ++ strBytes (toString (tmodPos len 60))

/-- `static_cast<int64_t>(bpm)` guarded by `fabs(bpm) < 2^63`. -/
def roundedBpm (bpm : Option Bits) : Res (Option Int) :=
  match bpm with
  | none => .ok none
  | some b =>
    if !Fl.absLt63 b then .ok none else
    match Fl.toI64 b with
    | some i => .ok (some i)
    | none => .ub .float_cast_range

/-- `to_extents_sample_rate`. -/
def extentsRate (r : Bits) : Bits := if Fl.absLt63 r then r else F64.zero

def liftUb {α} (x : Option α) (u : Ub) : Res α :=
  match x with
  | some a => .ok a
  | none => .ub u

def ovwExtents (o : FOps) (n : UInt64) (r : Bits) : Res (Nat × Bits) :=
  liftUb (Gen.TrackUtils.calculate_overview_waveform_extents o.cxx n.toNat (extentsRate r)) .signed_overflow
def hiresExtents (o : FOps) (n : UInt64) (r : Bits) : Res (Nat × Bits) :=
  liftUb (Gen.TrackUtils.calculate_high_resolution_waveform_extents o.cxx n.toNat (extentsRate r)) .signed_overflow

/-- The resampling loop `waveform[waveform.size() * (2 * i + 1) / (2 * size)]`, `i < size`. -/
def resample (w : List Entry) (size : Nat) : Res (List Entry) :=
  mapRes (fun i => liftUb (w[w.length * (2 * i + 1) / (2 * size)]?) .oob_index) (List.range size)

def toOverview (o : FOps) (count : Option UInt64) (rate : Option Bits) (w : List Entry) : Res Wave :=
  match count, rate with
  | some n, some r =>
    match ovwExtents o n r with
    | .ok (size, spe) =>
      if w.isEmpty then .ok ⟨spe, []⟩ else
      match resample w size with
      | .ok es => .ok ⟨spe, es⟩
      | .throw e => .throw e
      | .ub u => .ub u
    | .throw e => .throw e
    | .ub u => .ub u
  | _, _ => .ok ⟨F64.zero, []⟩

def toHires (o : FOps) (count : Option UInt64) (rate : Option Bits) (w : List Entry) : Res Wave :=
  match count, rate with
  | some n, some r =>
    if n = 0 || F64.isZero r then
      (if w.isEmpty then .ok ⟨F64.zero, []⟩ else .throw (.dj "invalid_track_snapshot"))
    else
      match hiresExtents o n r with
      | .ok (_, spe) => .ok ⟨spe, w⟩
      | .throw e => .throw e
      | .ub u => .ub u
  | _, _ => if w.isEmpty then .ok ⟨F64.zero, []⟩ else .throw (.dj "invalid_track_snapshot")

def padTo8 {α} (l : List (Option α)) : List (Option α) := l ++ List.replicate (8 - l.length) none

def toCues (cs : List (Option HotCue)) (main : Option Bits) : Cues :=
  ⟨padTo8 cs, main.getD F64.zero, main.getD F64.zero⟩

def toLoops (ls : List (Option LoopV)) : Res Loops :=
  if 8 < ls.length then .throw (.dj "loops_overflow") else .ok (padTo8 ls)

/-- `duration_cast<seconds>(ns)` (truncation toward zero). -/
def toTimestamp (t : UInt64) : Int := tdivPos (Prim.s64 t) 1000000000

/-- Checked `int64_t` product (overflow is undefined behaviour). -/
def mulI64 (a b : Int) : Res Int := liftUb (Cxx.I64.mul a b) .signed_overflow

/-! ### bulk meta-data statements -/

def oneText : Option Bytes := some [49]

def metaBulk (s : Schema) (x : Snap) (mmssV everPlayed ext : Option Bytes) : List (Int × Option Bytes) :=
  [(1, x.title), (2, x.artist), (3, x.album), (4, x.genre), (5, x.comment), (6, x.publisher),
   (7, x.composer), (8, none), (9, none), (10, mmssV), (12, everPlayed), (13, ext), (15, oneText),
   (16, oneText)] ++ (if s.ge .s1_15_0 then [(17, none)] else [])

def metaIntBulk (s : Schema) (key rating lastPlayed : Option Int) : List (Int × Option Int) :=
  [(4, key), (5, rating), (1, lastPlayed), (2, none), (3, none), (6, none), (8, none), (7, none),
   (9, none), (10, none), (11, some 1)] ++ (if s.ge .s1_11_1 then [(12, some 1)] else [])

def clampRating (r : UInt32) : Int :=
  let v := Prim.s32 r
  if v < 0 then 0 else if 100 < v then 100 else v

/-! ### create_track / update -/

/-- The `Track` columns written by `create_track` / `update_track` for schema `s`
(columns the statement does not name keep their prior value). -/
def writeTrackRow (s : Schema) (prior : TrackRow) (x : Snap) (path : Bytes) (len lenCalc bpmI : Option Int) :
    TrackRow :=
  { prior with
    playOrder := x.trackNumber.map Prim.s32
    length := len
    lengthCalculated := lenCalc
    bpm := bpmI
    year := x.year.map Prim.s32
    path := some path
    filename := some (getFilename path)
    bitrate := x.bitrate.map Prim.s32
    bpmAnalyzed := x.bpm.bind Fl.realCell
    trackType := some 1
    isExternalTrack := some 0
    uuidOfExternalDatabase := none
    idTrackInExternalDatabase := none
    idAlbumArt := some 1
    fileBytes := if s.ge .s1_15_0 then x.fileBytes.map Prim.s64 else prior.fileBytes
    pdbImportKey := if s.ge .s1_7_1 then some 0 else prior.pdbImportKey
    uri := if s.ge .s1_15_0 then none else prior.uri
    isBeatGridLocked := if s.ge .s1_18_0_desktop then some 0 else prior.isBeatGridLocked }

def blankRows : TrackRows := ⟨TrackRow.blank, [], [], none⟩

/-- The rows after the transaction, from the values prepared before it. -/
def assemble (s : Schema) (x : Snap) (prior : Option TrackRows) (path : Bytes) (lenCalc bpmI : Option Int)
    (ovw hires : Wave) (beat' : Beat) (cues' : Cues) (loops' : Loops) : TrackRows :=
  let len : Option Int := x.duration.map fun d => tdivPos (Prim.s64 d) 1000
  let ext := getExtension (getFilename path)
  let ts : Option Int := x.lastPlayedAt.map toTimestamp
  let everPlayed : Option Bytes := if x.lastPlayedAt.isSome then oneText else none
  let td : Impl.V1.Track := ⟨x.sampleRate, x.sampleCount, x.averageLoudness, x.key⟩
  let p := prior.getD blankRows
  { track := writeTrackRow s p.track x path len lenCalc bpmI
    mstr := asetMany (metaBulk s x (len.map mmss) everPlayed ext) p.mstr
    mint := asetMany (metaIntBulk s (x.key.map Prim.s32) (x.rating.map clampRating) ts) p.mint
    perf := some
      { isAnalyzed := 1, isRendered := 0, trackData := normTrack td, hires := normHires hires,
        overview := normOvw ovw, beat := beat', cues := cues', loops := loops',
        hasSerato := some 0,
        hasRekordbox := if s.ge .s1_7_1 then some 0 else none,
        hasTraktor := if s.ge .s1_11_1 then some 0 else none } }

/-- `create_track` (`prior = none`) / `update` (`prior = some rows`): the rows of
the track after a successful call.  A `throw` leaves the database unchanged
(the transaction is rolled back).  Order as in the C++: the conversions before
the transaction (`to_length_fields`, `to_bpm_fields`, `to_overview_waveform_data`,
`to_high_res_waveform_data`, `to_loops_data`), then the statements; the blob
encoders of `set_performance_data` run left to right (beat data, quick cues,
loops can throw) and there is no decode-after-encode check on this path. -/
def writeSnap (o : FOps) (s : Schema) (x : Snap) (prior : Option TrackRows) : Res TrackRows :=
  match x.relativePath with
  | none => .throw (.dj "invalid_track_snapshot")
  | some path =>
    (lengthCalculated x.sampleCount x.sampleRate).bind fun lenCalc =>
    (roundedBpm x.bpm).bind fun bpmI =>
    (toOverview o x.sampleCount x.sampleRate x.waveform).bind fun ovw =>
    (toHires o x.sampleCount x.sampleRate x.waveform).bind fun hires =>
    (toLoops x.loops).bind fun loops =>
    (normBeat ⟨x.sampleRate, x.sampleCount.map (fun n => o.ofU64 n.toNat), x.beatgrid, x.beatgrid⟩).bind fun beat' =>
    (normCues (toCues x.hotCues x.mainCue)).bind fun cues' =>
    (normLoops loops).bind fun loops' =>
    .ok (assemble s x prior path lenCalc bpmI ovw hires beat' cues' loops')

/-! ### snapshot() -/

/-- A non-NULL cell of the row with the given type, if any. -/
def cell {β} (k : Int) (l : List (Int × Option β)) : Option β := (aget k l).join

def defaultPerfCols : Impl.V1.Track × Wave × Wave × Beat × Cues × Loops :=
  (⟨none, none, none, none⟩, ⟨F64.zero, []⟩, ⟨F64.zero, []⟩, ⟨none, none, [], []⟩, ⟨[], F64.zero, F64.zero⟩, [])

/-- `get_track`: `file_bytes` is only selected from 1.15.0 on. -/
def fileBytesCol (s : Schema) (t : TrackRow) : Option Int := if s.ge .s1_15_0 then t.fileBytes else none

def optMul (k : Int) (v : Option Int) : Res (Option Int) :=
  match v with
  | none => .ok none
  | some a => (mulI64 k a).bind fun r => .ok (some r)

def readSnap (o : FOps) (s : Schema) (r : TrackRows) : Res Snap := do
  let t := r.track
  let durMs ← optMul 1000 t.length
  let lastNs ← optMul 1000000000 (cell 1 r.mint)
  let tdKey : Option UInt32 := r.perf.bind (·.trackData.key)
  pure
    { album := cell 3 r.mstr
      artist := cell 2 r.mstr
      averageLoudness := r.perf.bind (·.trackData.loudness)
      beatgrid := (r.perf.map (·.beat.adj)).getD []
      bitrate := t.bitrate.map Prim.u32OfInt
      bpm := match t.bpmAnalyzed with
        | some b => some b
        | none => t.bpm.map o.ofI64
      comment := cell 5 r.mstr
      composer := cell 7 r.mstr
      duration := durMs.map Prim.u64OfInt
      fileBytes := (fileBytesCol s t).map Prim.u64OfInt
      genre := cell 4 r.mstr
      hotCues := (r.perf.map (·.cues.cues)).getD []
      key := match tdKey with
        | some k => some k
        | none => (cell 4 r.mint).map Prim.u32OfInt
      lastPlayedAt := lastNs.map Prim.u64OfInt
      loops := (r.perf.map (·.loops)).getD []
      mainCue := r.perf.bind fun p => if F64.isZero p.cues.adjMain then none else some p.cues.adjMain
      publisher := cell 6 r.mstr
      rating := (cell 5 r.mint).map Prim.u32OfInt
      relativePath := t.path
      sampleCount := r.perf.bind (·.trackData.sampleCount)
      sampleRate := r.perf.bind (·.trackData.sampleRate)
      title := cell 1 r.mstr
      trackNumber := t.playOrder.map Prim.u32OfInt
      waveform := (r.perf.map (·.hires.entries)).getD []
      year := t.year.map Prim.u32OfInt }

end TracksV1
end EngineModel
