/-
The two Spec normalisations side by side: `Spec.normFields` (C01: a whole
snapshot written by `create_track` / `update`) and `Spec.normField` (C06: one
value passed to one setter).  `fieldOf x f` is the value a caller would pass to
setter `f` to store what snapshot `x` holds in that field.

Where the two entry points differ — decided from the property texts and the
real library:

* the NORMALISATION of a value both accept is the same (C06: "under the same
  normalisation as a snapshot"): `Properties/C06V1Link.lean`, `v1_C06_normField_normFields`;
* ACCEPTANCE differs in exactly one, cross-field, condition: a snapshot with a
  waveform but without a non-zero sample count and sample rate is rejected by
  `create_track` / `update` (the 1.x waveform blobs cannot be computed; C01 allows
  "rejected with an exception"), whereas `set_waveform` — a single-field setter that
  cannot be asked to look at other fields by a property that says "each getter
  returns the value last set for its field" — stores the waveform and returns it.
  `waveformStorable` is that condition.
-/
import EngineModel.TracksV1.SpecLens

namespace EngineModel
namespace TracksV1
namespace Spec

open Impl.V1 (GMarker HotCue LoopV Entry)

/-- The value of field `f` in snapshot `x`, as an argument for setter `f` (`none`: the snapshot has no
such value — no relative path, or a slot beyond the list). -/
def fieldOf (x : Snap) : (f : Field) → Option f.ty
  | .album => some x.album
  | .artist => some x.artist
  | .averageLoudness => some x.averageLoudness
  | .beatgrid => some x.beatgrid
  | .bitrate => some x.bitrate
  | .bpm => some x.bpm
  | .comment => some x.comment
  | .composer => some x.composer
  | .duration => some x.duration
  | .genre => some x.genre
  | .hotCues => some x.hotCues
  | .hotCueAt i => (slotOf i x.hotCues.length).bind fun k => x.hotCues[k]?
  | .key => some x.key
  | .lastPlayedAt => some x.lastPlayedAt
  | .loops => some x.loops
  | .loopAt i => (slotOf i x.loops.length).bind fun k => x.loops[k]?
  | .mainCue => some x.mainCue
  | .publisher => some x.publisher
  | .rating => some x.rating
  | .relativePath => x.relativePath
  | .sampleCount => some x.sampleCount
  | .sampleRate => some x.sampleRate
  | .title => some x.title
  | .trackNumber => some x.trackNumber
  | .waveform => some x.waveform
  | .year => some x.year

/-- The one cross-field condition of the snapshot path: a waveform needs a non-zero sample count and a
non-zero sample rate. -/
def waveformStorable (x : Snap) : Bool :=
  x.waveform.isEmpty || (present x.sampleRate && (x.sampleCount.any fun n => n ≠ 0))

end Spec
end TracksV1
end EngineModel
