/-
Floating-point facts the 1.x track code relies on, defined exactly on bit
patterns: `std::fabs`, comparisons against the constants 1 and 2^63,
`static_cast<int64_t>(double)` (exact truncation, `none` = undefined
behaviour: NaN, infinity or out of range), and what SQLite does to a double
bound to a REAL column.  Arithmetic whose result only ever reaches raw columns
(`samples_per_entry`, the `double` sample count of beat data, `ceil`) is an
opaque parameter `FOps` (instantiated with hardware floats in the driver).
-/
import EngineModel.Basic.F64
import EngineModel.Pure.Cxx

namespace EngineModel
namespace TracksV1
namespace Fl

abbrev Bits := F64.Bits

def signBit : Nat := 9223372036854775808

/-- `std::fabs`: clear the sign bit. -/
def fabs (x : Bits) : Bits := UInt64.ofNat (x.toNat % signBit)

/-- 2^63 as a double. -/
def two63 : Bits := 0x43e0000000000000

/-- `std::fabs(x) < 9223372036854775808.0`. -/
def absLt63 (x : Bits) : Bool := F64.lt (fabs x) two63

/-- `x >= 1 && x < 9223372036854775808.0`. -/
def rateDivisible (x : Bits) : Bool := F64.le F64.one x && F64.lt x two63

/-- `static_cast<int64_t>(x)`: exact truncation toward zero. -/
def toI64 (x : Bits) : Option Int :=
  let e := F64.expOf x
  let m := F64.manOf x
  if e = 2047 then none else
  let mag : Nat :=
    if e = 0 then 0                                   -- subnormals and zeros truncate to 0
    else if e ≥ 1075 then (m + 4503599627370496) * 2 ^ (e - 1075)
    else (m + 4503599627370496) / 2 ^ (1075 - e)
  let v : Int := if F64.signOf x then -(mag : Int) else (mag : Int)
  if Cxx.inI64 v then some v else none

/-- A double bound to a column with REAL affinity and read back with
`sqlite3_column_double`: NaN is stored as NULL; values that are integers are
stored as integers internally, which turns `-0.0` into `+0.0`. -/
def realCell (x : Bits) : Option Bits :=
  if F64.isNaN x then none else if x = F64.negZero then some F64.zero else some x

/-- Opaque double arithmetic (results only reach raw columns). -/
structure FOps where
  ofI64 : Int → Bits
  ofU64 : Nat → Bits
  div : Bits → Bits → Bits
  ceil : Bits → Bits

/-- The `Cxx.FloatOps` instance the generated `track_utils` code runs over. -/
def FOps.cxx (o : FOps) : Cxx.FloatOps Bits := ⟨toI64, o.ofI64, o.ofU64, o.div⟩

end Fl
end TracksV1
end EngineModel
