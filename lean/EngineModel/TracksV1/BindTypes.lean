/-
Types of the regenerated schema-1.x storage-binding tables
(`Gen/BindingsV1.lean`, written by tools/tr_v1bindings.py).  Plain data: names are
`String`s exactly as they appear in the C++ source / the SQL text, so the generated file
always elaborates; what the names must satisfy is stated (and decided) in
`Proofs/BindingsV1*.lean`.
-/

namespace EngineModel.TracksV1.Bind

/-- An operand bound to one `?` of a statement of engine_storage.cpp (or the SQL text standing
in the place of a placeholder). -/
inductive Opnd where
  /-- the `idx`-th parameter (0-based) of the enclosing function; the name is informational -/
  | param (idx : Nat) (name : String)
  /-- `<parameter>.encode()` -/
  | encode (idx : Nat) (name : String)
  /-- `T{}.encode()` -/
  | encodeDefault (type : String)
  /-- `static_cast<int64_t>(metadata_str_type::e)` -/
  | enumStr (e : String)
  /-- `static_cast<int64_t>(metadata_int_type::e)` -/
  | enumInt (e : String)
  /-- a local `std::optional` that holds no value (`no_value`) -/
  | localNull (name : String)
  | text (s : String)
  | int (n : Int)
  | real (s : String)
  | null
  /-- not a placeholder: this SQL text stands in the statement itself -/
  | sql (s : String)
  deriving DecidableEq, Repr, Inhabited

/-- What a caller in engine_track_impl.cpp passes to a storage function. -/
inductive Src where
  /-- the track id (`id()`, or the value `storage->create_track` returned) -/
  | id
  /-- `snapshot.<member>` (possibly through `optional_static_cast` / `std::move`) -/
  | snap (member : String)
  /-- a local of the caller, or a member of it -/
  | loc (name : String) (member : Option String)
  /-- a file-scope constant -/
  | const (name : String)
  deriving DecidableEq, Repr, Inhabited

/-- One storage access of a member function of `engine_track_impl`. -/
inductive Acc where
  | getStr (enumerator : String)
  | setStr (enumerator : String)
  | getInt (enumerator : String)
  | setInt (enumerator : String)
  | getCol (column : String)
  | setCol (column : String)
  | getPerf (column : String)
  | setPerf (column : String)
  /-- a whole-row / bulk storage function -/
  | call (fn : String)
  /-- a statement issued directly on `storage_->db` -/
  | sql (text : String)
  deriving DecidableEq, Repr, Inhabited

end EngineModel.TracksV1.Bind
