/-
C06 on the legacy layout, Spec side: the track as a record of 25 observable
fields (the snapshot) with one lens per setter, written from the property text:

  * `snapField y f`   — what getter `f` must return when `snapshot()` is `y`;
  * `putField y f w`  — the snapshot after setter `f` stored the (normalised)
                        value `w`: that field, nothing else;
  * `independent f g` — the ordered pairs of the frame law (every pair of
                        different fields except a slot and the list holding it);
  * `replay`          — a whole history of calls on several tracks, as seen from
                        one track.

and, Model side, what the theorems quantify over: the invariant `Inv` of the
rows the library itself builds, and `dbRun` (a finite history of setter calls,
each of which either succeeds or leaves the database as it was).
-/
import EngineModel.TracksV1.SpecFields

namespace EngineModel
namespace TracksV1

open Impl.V1 (GMarker HotCue LoopV Entry)
open Fl (FOps)

namespace Spec

/-- `vector.at(i)`-style slot lookup: `i` is a C++ `int`. -/
def slotOf (i : UInt32) (n : Nat) : Option Nat :=
  let v := Prim.s32 i
  if 0 ≤ v ∧ v < (n : Int) then some v.toNat else none

def slotGet {α} (l : List (Option α)) (i : UInt32) : Res (Option α) :=
  match slotOf i l.length with
  | some k =>
    match l[k]? with
    | some c => .ok c
    | none => .ub .oob_index
  | none => .throw .out_of_range

def slotPut {α} (l : List (Option α)) (i : UInt32) (w : Option α) : List (Option α) :=
  match slotOf i l.length with
  | some k => l.set k w
  | none => l

/-- The getter's answer, given the snapshot. -/
def snapField (y : Snap) : (f : Field) → Res f.ty
  | .album => .ok y.album
  | .artist => .ok y.artist
  | .averageLoudness => .ok y.averageLoudness
  | .beatgrid => .ok y.beatgrid
  | .bitrate => .ok y.bitrate
  | .bpm => .ok y.bpm
  | .comment => .ok y.comment
  | .composer => .ok y.composer
  | .duration => .ok y.duration
  | .genre => .ok y.genre
  | .hotCues => .ok y.hotCues
  | .hotCueAt i => slotGet y.hotCues i
  | .key => .ok y.key
  | .lastPlayedAt => .ok y.lastPlayedAt
  | .loops => .ok y.loops
  | .loopAt i => slotGet y.loops i
  | .mainCue => .ok y.mainCue
  | .publisher => .ok y.publisher
  | .rating => .ok y.rating
  | .relativePath => .ok (y.relativePath.getD [])
  | .sampleCount => .ok y.sampleCount
  | .sampleRate => .ok y.sampleRate
  | .title => .ok y.title
  | .trackNumber => .ok y.trackNumber
  | .waveform => .ok y.waveform
  | .year => .ok y.year

/-- The snapshot after a setter stored `w` (already normalised): one field changes. -/
def putField (y : Snap) : (f : Field) → f.ty → Snap
  | .album, w => { y with album := w }
  | .artist, w => { y with artist := w }
  | .averageLoudness, w => { y with averageLoudness := w }
  | .beatgrid, w => { y with beatgrid := w }
  | .bitrate, w => { y with bitrate := w }
  | .bpm, w => { y with bpm := w }
  | .comment, w => { y with comment := w }
  | .composer, w => { y with composer := w }
  | .duration, w => { y with duration := w }
  | .genre, w => { y with genre := w }
  | .hotCues, w => { y with hotCues := w }
  | .hotCueAt i, w => { y with hotCues := slotPut y.hotCues i w }
  | .key, w => { y with key := w }
  | .lastPlayedAt, w => { y with lastPlayedAt := w }
  | .loops, w => { y with loops := w }
  | .loopAt i, w => { y with loops := slotPut y.loops i w }
  | .mainCue, w => { y with mainCue := w }
  | .publisher, w => { y with publisher := w }
  | .rating, w => { y with rating := w }
  | .relativePath, w => { y with relativePath := some w }
  | .sampleCount, w => { y with sampleCount := w }
  | .sampleRate, w => { y with sampleRate := w }
  | .title, w => { y with title := w }
  | .trackNumber, w => { y with trackNumber := w }
  | .waveform, w => { y with waveform := w }
  | .year, w => { y with year := w }

/-- Ordered pairs (setter `f`, getter `g`) of the frame law: different fields, except that a slot
and the list that holds it are two views of the same field. -/
def independent : Field → Field → Bool
  | .hotCues, .hotCueAt _ => false
  | .hotCueAt _, .hotCues => false
  | .loops, .loopAt _ => false
  | .loopAt _, .loops => false
  | f, g => decide (f ≠ g)

/-- One accepted call, on the snapshot: the field takes the normalised value. -/
def applyOk (y : Snap) (f : Field) (v : f.ty) : Snap :=
  match normField f v with
  | some w => putField y f w
  | none => y

/-- NaN is outside the quantifier (as in C01); the only setter it matters for is `set_bpm`
(SQLite stores a NaN bound to a REAL column as NULL). -/
def finiteArg : (f : Field) → f.ty → Bool
  | .bpm, v => optFinite v
  | _, _ => true

end Spec

/-! ### the invariant of rows built by the library -/

def fitsI64 (v : Int) : Bool := decide (-9223372036854775808 ≤ v ∧ v ≤ 9223372036854775807)

/-- What `create_track` / `update` establish and every setter keeps: a path is present; the stored
seconds can be scaled back to milliseconds / nanoseconds; the cue and loop blobs hold eight slots;
the key held by the track-data blob is the one in `MetaDataInteger`. -/
def Inv (r : TrackRows) : Bool :=
  r.track.path.isSome &&
  (r.track.length.all fun l => fitsI64 (1000 * l)) &&
  ((cell 1 r.mint).all fun t => fitsI64 (1000000000 * t)) &&
  (r.perf.all fun p =>
    decide (p.cues.cues.length = 8) && decide (p.loops.length = 8) &&
    (p.trackData.key.all fun k => decide (cell 4 r.mint = some (Prim.s32 k))))

def DbInv (d : Db) : Prop := ∀ id r, d.rows id = some r → Inv r = true

/-! ### the `Track` table's own constraints -/

/-- Primary key of `Track`: no id occurs twice. -/
def KeysDistinct (d : Db) : Prop := (d.tracks.map (·.1)).Nodup

/-- `UNIQUE ([path])` of the `Track` table from 1.11.1 on: no two tracks hold the same path. -/
def PathsUnique (d : Db) : Prop :=
  d.schema.ge .s1_11_1 = true →
    ∀ e1 ∈ d.tracks, ∀ e2 ∈ d.tracks, e1.1 ≠ e2.1 → ∀ p, e1.2.track.path = some p → e2.2.track.path ≠ some p

/-- The constraints of the `Track` table together with the row invariant. -/
structure TableOk (d : Db) : Prop where
  keys : KeysDistinct d
  paths : PathsUnique d
  rows : DbInv d

/-- `std::ceil` keeps a double of magnitude below 2^63 inside the range of `int64_t` — the one law of
the otherwise opaque double arithmetic `FOps` that `set_bpm` relies on (`static_cast<int64_t>(std::ceil(bpm))`). -/
def CeilInRange (o : FOps) : Prop := ∀ b, Fl.absLt63 b = true → ∃ i, Fl.toI64 (o.ceil b) = some i

/-! ### histories -/

/-- One setter call: which track, which field, which value. -/
structure SetOp where
  id : Int
  f : Field
  v : f.ty

/-- A call either succeeds or (exception) leaves the database as it was. -/
def dbStep (o : FOps) (d : Db) (op : SetOp) : Db × Bool :=
  match dbSet o d op.id op.f op.v with
  | .ok d' => (d', true)
  | _ => (d, false)

/-- A finite history; the trace records which calls returned normally. -/
def dbRun (o : FOps) : Db → List SetOp → Db × List (SetOp × Bool)
  | d, [] => (d, [])
  | d, op :: t =>
    let s := dbStep o d op
    let rest := dbRun o s.1 t
    (rest.1, (op, s.2) :: rest.2)

namespace Spec

/-- The history as seen from track `id`: the successful calls on it, in order, each as its lens. -/
def replay (id : Int) : List (SetOp × Bool) → Snap → Snap
  | [], y => y
  | (op, ok) :: t, y => replay id t (if ok && decide (op.id = id) then applyOk y op.f op.v else y)

end Spec

end TracksV1
end EngineModel
