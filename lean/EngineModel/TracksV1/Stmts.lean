/-
The public mutating track calls of the schema-1.x code as statement programs on
the connection of `Spec/Txn.lean` (C14, review item 3).

The 1.x track model (`TracksV1/Accessors.lean`) is at *call* granularity: a
setter is one function on the rows of the track (it has no statement level, in
contrast to crates 1.x / 2.x and the 2.x Track table).  A call is therefore
represented by ONE `write` — the joint effect of its INSERT OR REPLACE / UPDATE
statements — inside the `sqlite_transaction` scope where
engine_track_impl.cpp / engine_database_impl.cpp have one (`Field.scoped`: every
setter that issues more than one statement or goes through a performance-data
column; `create_track`, `track::update`, `remove_track`).  What Lean adds here
is the scope table per operation and the all-or-nothing theorem over BEGIN /
the write / COMMIT; the tie compares the skeleton of every real call with it.
-/
import EngineModel.TracksV1.Accessors
import EngineModel.Spec.Stmts

namespace EngineModel
namespace TracksV1

open EngineModel.Spec.Txn EngineModel.Spec.Stmts
open Fl (FOps)

/-- setters of engine_track_impl.cpp that run inside a `sqlite_transaction` scope; the others issue a single
`INSERT OR REPLACE INTO MetaData…` / `UPDATE Track …` in autocommit mode -/
def Field.scoped : Field → Bool
  | .album | .artist | .bitrate | .comment | .composer | .genre | .publisher | .rating | .title | .trackNumber
  | .year => false
  | _ => true

inductive TOp where
  | create (x : Snap)
  | update (id : Int) (x : Snap)
  | set (id : Int) (f : Field) (v : f.ty)
  | remove (id : Int)

def TOp.scoped : TOp → Bool
  | .set _ f _ => f.scoped
  | _ => true

/-- one public call on the tables of the 1.x track model -/
def topStep (o : FOps) (d : Db) : TOp → Res Db
  | .create x => (dbCreate o d x).bind fun r => .ok r.1
  | .update id x => dbUpdate o d id x
  | .set id f v => dbSet o d id f v
  | .remove id => .ok (dbRemove d id)

def topBody (o : FOps) (op : TOp) : List (Cmd Db) := [.read, .write fun d => (topStep o d op).toOption]

def topStmts (o : FOps) (op : TOp) : List (Cmd Db) := if op.scoped then txn (topBody o op) else topBody o op

def topShapeOf (o : FOps) (op : TOp) : List CmdKind := (topStmts o op).map Cmd.kind

def TOp.skeleton (op : TOp) : Skeleton := if op.scoped then .scope else .single

end TracksV1
end EngineModel
