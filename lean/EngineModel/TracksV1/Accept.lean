/-
C06 on the legacy layout, acceptance side: WHICH setter calls return normally.

* `FloatLaw o`     — the laws of IEEE doubles that the otherwise opaque double arithmetic `FOps`
                     has to obey for the statements below (the hardware instance of the driver is
                     sampled against them on every run);
* `Clean r`        — `Inv r` and every stored PerformanceData blob passes the run-time
                     decode-after-encode check of `set_performance_data_column` (no NaN, no
                     "absent" encodings held as present): what `create_track` / `update` establish
                     from a snapshot without NaN and what every setter keeps;
* `acceptsRow` / `accepts` — the explicit, decidable guards of the 26 C++ setters on such rows:
                     PerformanceData row present for the blob setters, slot index 0..7, at most
                     eight cues / loops, labels of 1..255 bytes, (start) offset neither −1.0 (the
                     reserved "empty slot" encoding, which a setter refuses) nor NaN, a grid the
                     format can hold, no NaN for average loudness / main cue / sample rate, the path
                     not held by another track (`UNIQUE(path)`, from 1.11.1), the track exists;
* `dbRunStrict`    — a history in which an undefined step is NOT skipped but is the result;
* `Spec.Lib`, `Spec.callAccepted`, `Spec.stepCall`, `Spec.runCalls` — the same history on the
                     abstract state "snapshot + is-analysed flag per track": the Spec side decides
                     which calls succeed and what they store.
-/
import EngineModel.TracksV1.SpecLens

namespace EngineModel
namespace TracksV1

open Impl.V1 (GMarker HotCue LoopV Entry Wave Beat Cues Loops)
open Fl (FOps)

/-! ### the float law -/

/-- What the theorems of the acceptance side assume of the double arithmetic `o` (all true of IEEE-754
binary64 with round-to-nearest): `ceil` keeps |x| < 2^63 inside `int64_t` (`CeilInRange`, for
`set_bpm`); converting an integer to double never yields NaN, and yields zero only for zero; dividing
a converted unsigned integer by 1024 never yields NaN. -/
structure FloatLaw (o : FOps) : Prop where
  ceil : CeilInRange o
  ofU64_num : ∀ n, F64.isNaN (o.ofU64 n) = false
  ofU64_pos : ∀ n, 0 < n → n < 18446744073709551616 → F64.isZero (o.ofU64 n) = false
  ofI64_num : ∀ i, F64.isNaN (o.ofI64 i) = false
  div_num : ∀ a, F64.isNaN (o.div (o.ofU64 a) (o.ofU64 1024)) = false

/-! ### blobs that pass the decode-after-encode check -/

/-- An optional double as the codecs store it: absent, or a number other than ±0.0. -/
def numOpt (x : Option Bits) : Bool := x.all fun v => !F64.isNaN v && !F64.isZero v

/-- An optional double argument that is not NaN. -/
def finOpt (x : Option Bits) : Bool := x.all fun v => !F64.isNaN v

def gridNum (g : List GMarker) : Bool := g.all fun m => !F64.isNaN m.off

def stableTrack (t : Impl.V1.Track) : Bool :=
  numOpt t.sampleRate && (t.sampleCount != some 0) && numOpt t.loudness && (t.key != some 0)

def stableBeat (b : Beat) : Bool :=
  numOpt b.sampleRate && numOpt b.sampleCount && Impl.V1.validGrid b.dflt && Impl.V1.validGrid b.adj &&
    gridNum b.dflt && gridNum b.adj

/-- A cue slot a setter accepts and a stored blob holds: empty, or a label of 1..255 bytes and an offset
that is neither the reserved −1.0 nor NaN. -/
def cueStored : Option HotCue → Bool
  | none => true
  | some q => Spec.labelOk q.label && (q.off != F64.negOne) && !F64.isNaN q.off

def loopStored : Option LoopV → Bool
  | none => true
  | some l => Spec.labelOk l.label && (l.start != F64.negOne) && !F64.isNaN l.start && !F64.isNaN l.stop

def stableCues (c : Cues) : Bool :=
  decide (c.cues.length = 8) && c.cues.all cueStored && !F64.isNaN c.adjMain && !F64.isNaN c.defMain

def stableLoops (l : Loops) : Bool := l.all loopStored

def stableWave (w : Wave) : Bool := !F64.isNaN w.spe

def stablePerf (p : PerfRow) : Bool :=
  stableTrack p.trackData && stableBeat p.beat && stableCues p.cues && stableLoops p.loops &&
    stableWave p.hires && stableWave p.overview

/-- Rows as the library builds them from NaN-free input: the invariant `Inv` and every blob passes the
decode-after-encode check. -/
def Clean (r : TrackRows) : Bool := Inv r && r.perf.all stablePerf

def DbClean (d : Db) : Prop := ∀ id r, d.rows id = some r → Clean r = true

/-! ### the guards of the setters -/

/-- The setters that write a PerformanceData blob (they need the row to exist). -/
def Field.blobSetter : Field → Bool
  | .averageLoudness | .beatgrid | .hotCues | .hotCueAt _ | .key | .loops | .loopAt _ | .mainCue | .sampleCount
  | .sampleRate | .waveform => true
  | _ => false

/-- The guards on the value alone. -/
def valueOk : (f : Field) → f.ty → Bool
  | .averageLoudness, v => finOpt v
  | .mainCue, v => finOpt v
  | .sampleRate, v => finOpt v
  | .beatgrid, g => Spec.gridOk g && gridNum g
  | .hotCues, cs => decide (cs.length ≤ 8) && cs.all cueStored
  | .hotCueAt i, q => Spec.slotInRange i && cueStored q
  | .loops, ls => decide (ls.length ≤ 8) && ls.all loopStored
  | .loopAt i, l => Spec.slotInRange i && loopStored l
  | _, _ => true

/-- One setter on the rows of one (existing) track. -/
def acceptsRow (r : TrackRows) (f : Field) (v : f.ty) : Bool :=
  (!f.blobSetter || r.perf.isSome) && valueOk f v

/-- `UNIQUE(path)`: `set_relative_path` to a path another track holds. -/
def pathConflict (d : Db) (id : Int) : (f : Field) → f.ty → Bool
  | .relativePath, p => pathTaken d id p
  | _, _ => false

/-- **Which setter calls return normally.** -/
def accepts (d : Db) (id : Int) (f : Field) (v : f.ty) : Bool :=
  match d.rows id with
  | none => false
  | some r => acceptsRow r f v && !pathConflict d id f v

/-! ### histories in which an undefined step is not skipped -/

def Res.mapOk {α β} (g : α → β) : Res α → Res β
  | .ok a => .ok (g a)
  | .throw e => .throw e
  | .ub u => .ub u

/-- As `dbRun`, but undefined behaviour of any call is the outcome of the whole history. -/
def dbRunStrict (o : FOps) : Db → List SetOp → Res (Db × List (SetOp × Bool))
  | d, [] => .ok (d, [])
  | d, op :: t =>
    match dbSet o d op.id op.f op.v with
    | .ub u => .ub u
    | .ok d' => Res.mapOk (fun s => (s.1, (op, true) :: s.2)) (dbRunStrict o d' t)
    | .throw _ => Res.mapOk (fun s => (s.1, (op, false) :: s.2)) (dbRunStrict o d t)

/-! ### the history on the abstract state -/

namespace Spec

/-- What the public API shows of one track, plus whether it has performance data. -/
structure TrackSt where
  snap : Snap
  analysed : Bool
  deriving DecidableEq, Repr

/-- The library as the Spec sees it: schema version and the tracks by id. -/
structure Lib where
  schema : Schema
  tracks : List (Int × TrackSt)
  deriving Repr

def Lib.find (L : Lib) (id : Int) : Option TrackSt := aget id L.tracks

def pathHeld (L : Lib) (id : Int) (p : Bytes) : Bool :=
  L.schema.ge .s1_11_1 && L.tracks.any fun e => e.1 ≠ id && e.2.snap.relativePath == some p

def pathClash (L : Lib) (id : Int) : (f : Field) → f.ty → Bool
  | .relativePath, p => pathHeld L id p
  | _, _ => false

/-- The call returns normally. -/
def callAccepted (L : Lib) (op : SetOp) : Bool :=
  match L.find op.id with
  | none => false
  | some t => (!op.f.blobSetter || t.analysed) && valueOk op.f op.v && !pathClash L op.id op.f op.v

/-- An accepted call stores the normalised value in its field of its track; a refused call changes nothing. -/
def stepCall (L : Lib) (op : SetOp) : Lib :=
  if callAccepted L op then
    match L.find op.id with
    | some t => { L with tracks := aset op.id { t with snap := applyOk t.snap op.f op.v } L.tracks }
    | none => L
  else L

def runCalls : Lib → List SetOp → Lib × List (SetOp × Bool)
  | L, [] => (L, [])
  | L, op :: t =>
    let rest := runCalls (stepCall L op) t
    (rest.1, (op, callAccepted L op) :: rest.2)

end Spec

end TracksV1
end EngineModel
