/-
The storage bindings the schema-1.x hand model (`Model.lean`, `Accessors.lean`) uses, as EXPLICIT
DATA in the vocabulary of the C++ source (enumerator names, SQL column names, snapshot members,
helper functions), together with theorems — for all rows / snapshots / values — that the model's
definitions ARE these tables read through an explicit naming table (`eval*`, `put*`, `locEq`).

`Proofs/BindingsV1.lean` then decides that the tables regenerated from the working tree of /repo
(`Gen/BindingsV1.lean`, tools/tr_v1bindings.py) are aligned and equal to the tables here.  Nothing
in `Model.lean` / `Accessors.lean` is changed.
-/
import EngineModel.TracksV1.Accessors
import EngineModel.TracksV1.BindTypes

namespace EngineModel.TracksV1.Bind
open EngineModel.TracksV1
open Impl.V1 (Wave Beat Cues Loops)


/-- Where a stored value comes from, end to end: statement operand → parameter of the storage
function → argument of the caller in engine_track_impl.cpp → snapshot. -/
inductive RVal where
  /-- the track id -/
  | id
  /-- `snapshot.<member>` itself (through `optional_static_cast` at most) -/
  | snap (member : String)
  /-- a local of the caller: the helper its initialiser calls, the member of the result that is
  passed on (if any), the snapshot members the initialiser reads -/
  | derived (fn : String) (member : Option String) (deps : List String)
  /-- an integer constant; `none` = NULL / a value-less optional -/
  | const (v : Option Int)
  /-- a text literal -/
  | text (s : String)
  deriving DecidableEq, Repr, Inhabited

/-! ### MetaData (text): the seven string fields -/

inductive StrField where
  | title | artist | album | genre | comment | publisher | composer
  deriving DecidableEq, Repr

namespace StrField

def all : List StrField := [title, artist, album, genre, comment, publisher, composer]

/-- the C++ name: getter, `set_` + setter, snapshot member AND `metadata_str_type` enumerator -/
def name : StrField → String
  | title => "title" | artist => "artist" | album => "album" | genre => "genre" | comment => "comment"
  | publisher => "publisher" | composer => "composer"

/-- the `MetaData.type` number the hand model uses -/
def code : StrField → Int
  | title => 1 | artist => 2 | album => 3 | genre => 4 | comment => 5 | publisher => 6 | composer => 7

def field : StrField → Field
  | title => .title | artist => .artist | album => .album | genre => .genre | comment => .comment
  | publisher => .publisher | composer => .composer

def ofSnap (x : Snap) : StrField → Option Bytes
  | title => x.title | artist => x.artist | album => x.album | genre => x.genre | comment => x.comment
  | publisher => x.publisher | composer => x.composer

theorem mem_all (f : StrField) : f ∈ all := by cases f <;> decide

end StrField

/-- the model's getter of a string field -/
def getStr (o : Fl.FOps) (r : TrackRows) : StrField → Res (Option Bytes)
  | .title => get o r .title | .artist => get o r .artist | .album => get o r .album | .genre => get o r .genre
  | .comment => get o r .comment | .publisher => get o r .publisher | .composer => get o r .composer

/-- the model's setter of a string field -/
def setStr (o : Fl.FOps) (r : TrackRows) : StrField → Option Bytes → Res TrackRows
  | .title, v => set o r .title v | .artist, v => set o r .artist v | .album, v => set o r .album v
  | .genre, v => set o r .genre v | .comment, v => set o r .comment v | .publisher, v => set o r .publisher v
  | .composer, v => set o r .composer v

theorem getStr_eq (o : Fl.FOps) (r : TrackRows) (f : StrField) : getStr o r f = .ok (cell f.code r.mstr) := by
  cases f <;> rfl

theorem setStr_eq (o : Fl.FOps) (r : TrackRows) (f : StrField) (v : Option Bytes) :
    setStr o r f v = .ok { r with mstr := aset f.code v r.mstr } := by
  cases f <;> rfl

theorem strCode_eq (f : StrField) : strCode f.field = some f.code := by cases f <;> rfl

/-! ### MetaDataInteger: the three integer fields -/

inductive IntField where
  | lastPlayedAt | key | rating
  deriving DecidableEq, Repr

namespace IntField

def all : List IntField := [lastPlayedAt, key, rating]

/-- getter / snapshot member -/
def name : IntField → String
  | lastPlayedAt => "last_played_at" | key => "key" | rating => "rating"

/-- `metadata_int_type` enumerator -/
def enumerator : IntField → String
  | lastPlayedAt => "last_played_ts" | key => "musical_key" | rating => "rating"

def code : IntField → Int
  | lastPlayedAt => 1 | key => 4 | rating => 5

end IntField

/-- the three integer getters read the cell of `IntField.code` -/
theorem getInt_eq (o : Fl.FOps) (r : TrackRows) :
    get o r .lastPlayedAt = optMulU 1000000000 (cell IntField.lastPlayedAt.code r.mint) ∧
    get o r .key = .ok ((cell IntField.key.code r.mint).map Prim.u32OfInt) ∧
    get o r .rating = .ok ((cell IntField.rating.code r.mint).map Prim.u32OfInt) :=
  ⟨rfl, rfl, rfl⟩

/-- the three integer setters write the row of `IntField.code` (and `set_last_played_at` the text row 12) -/
theorem setInt_eq (o : Fl.FOps) (r : TrackRows) (t : Option UInt64) (k v : Option UInt32) :
    set o r .lastPlayedAt t =
      .ok { r with mstr := aset 12 (some (if t.isSome then [49] else [48])) r.mstr,
                   mint := aset IntField.lastPlayedAt.code (t.map toTimestamp) r.mint } ∧
    set o r .key k =
      ((setTrackCol r { colTrack r with key := k.bind fun x => if x = 0 then none else some x }).bind fun r' =>
        .ok { r' with mint := aset IntField.key.code (k.map Prim.s32) r'.mint }) ∧
    set o r .rating v = .ok { r with mint := aset IntField.rating.code (v.map clampRating) r.mint } :=
  ⟨rfl, rfl, rfl⟩

/-! ### snapshot(): the ten meta-data members -/

theorem readSnap_meta (o : Fl.FOps) (s : Schema) (r : TrackRows) (y : Snap) (h : readSnap o s r = .ok y) :
    (∀ f : StrField, f.ofSnap y = cell f.code r.mstr) ∧
    y.rating = (cell IntField.rating.code r.mint).map Prim.u32OfInt ∧
    y.key = (match r.perf.bind (·.trackData.key) with
      | some k => some k
      | none => (cell IntField.key.code r.mint).map Prim.u32OfInt) ∧
    (∃ ns, optMul 1000000000 (cell IntField.lastPlayedAt.code r.mint) = .ok ns ∧
      y.lastPlayedAt = ns.map Prim.u64OfInt) := by
  unfold readSnap at h
  simp only [bind, Res.bind, pure] at h
  split at h <;> try contradiction
  split at h <;> try contradiction
  rename_i a ha b hb
  injection h with h
  subst h
  exact ⟨fun f => by cases f <;> rfl, rfl, rfl, b, hb, rfl⟩

/-! ### the bulk statements of create_track / update

On the model side sources and columns are small enumerations (so that the theorems below are closed by
`rfl`); `.rval` / `.name` are the naming table into the vocabulary of the C++ source. -/

def lenDeps : List String := ["duration", "sample_count", "sample_rate"]

/-- sources of the bulk `MetaData` statement -/
inductive SSrc where
  | field (f : StrField) | mmss | everPlayed | ext | one | null
  deriving DecidableEq, Repr

def SSrc.rval : SSrc → RVal
  | .field f => .snap f.name
  | .mmss => .derived "to_length_fields" (some "length_mm_ss") lenDeps
  | .everPlayed => .derived "to_timestamp_fields" (some "ever_played") ["last_played_at"]
  | .ext => .derived "get_file_extension" none ["relative_path"]
  | .one => .text "1"
  | .null => .const none

/-- `set_meta_data` (bulk): `(type, value)` per VALUES tuple, in statement order -/
def bulkStrH (s : Schema) : List (Int × SSrc) :=
  [(1, .field .title), (2, .field .artist), (3, .field .album), (4, .field .genre), (5, .field .comment),
   (6, .field .publisher), (7, .field .composer), (8, .null), (9, .null), (10, .mmss), (12, .everPlayed), (13, .ext),
   (15, .one), (16, .one)] ++ (if s.ge .s1_15_0 then [(17, .null)] else [])

def bulkStr (s : Schema) : List (Int × RVal) := (bulkStrH s).map fun p => (p.1, p.2.rval)

/-- sources of the bulk `MetaDataInteger` statement (`last_modified_at_ts`, `last_accessed_at_ts` are always
value-less: `to_timestamp_fields` returns `nullopt` for them; `last_play_hash` is default-constructed) -/
inductive ISrc where
  | key | rating | lastPlayed | lastModified | lastAccessed | lastPlayHash | const (n : Int) | null
  deriving DecidableEq, Repr

def ISrc.rval : ISrc → RVal
  | .key => .derived "to_key_num" none ["key"]
  | .rating => .derived "" none ["rating"]
  | .lastPlayed => .derived "to_timestamp_fields" (some "last_played_at_ts") ["last_played_at"]
  | .lastModified => .derived "to_timestamp_fields" (some "last_modified_at_ts") ["last_played_at"]
  | .lastAccessed => .derived "to_timestamp_fields" (some "last_accessed_at_ts") ["last_played_at"]
  | .lastPlayHash => .derived "" none []
  | .const n => .const (some n)
  | .null => .const none

/-- `set_meta_data_integer` (bulk) -/
def bulkIntH (s : Schema) : List (Int × ISrc) :=
  [(4, .key), (5, .rating), (1, .lastPlayed), (2, .lastModified), (3, .lastAccessed), (6, .null), (8, .null),
   (7, .null), (9, .null), (10, .lastPlayHash), (11, .const 1)] ++ (if s.ge .s1_11_1 then [(12, .const 1)] else [])

def bulkInt (s : Schema) : List (Int × RVal) := (bulkIntH s).map fun p => (p.1, p.2.rval)

/-- naming table, text values: what each source denotes in `assemble` -/
def evalText (x : Snap) (mmssV everPlayed ext : Option Bytes) : SSrc → Option Bytes
  | .field f => f.ofSnap x
  | .mmss => mmssV
  | .everPlayed => everPlayed
  | .ext => ext
  | .one => oneText
  | .null => none

/-- naming table, integer values -/
def evalInt (key rating lastPlayed : Option Int) : ISrc → Option Int
  | .key => key
  | .rating => rating
  | .lastPlayed => lastPlayed
  | .const n => some n
  | _ => none

theorem metaBulk_eq (s : Schema) (x : Snap) (m e ext : Option Bytes) :
    metaBulk s x m e ext = (bulkStrH s).map fun p => (p.1, evalText x m e ext p.2) := by
  cases s <;> rfl

theorem metaIntBulk_eq (s : Schema) (key rating lastPlayed : Option Int) :
    metaIntBulk s key rating lastPlayed = (bulkIntH s).map fun p => (p.1, evalInt key rating lastPlayed p.2) := by
  cases s <;> rfl

/-! ### the Track row -/

inductive TCol where
  | playOrder | length | lengthCalculated | bpm | year | path | filename | bitrate | bpmAnalyzed | trackType
  | isExternalTrack | uuidOfExternalDatabase | idTrackInExternalDatabase | idAlbumArt | fileBytes | pdbImportKey | uri
  | isBeatGridLocked
  deriving DecidableEq, Repr

/-- the SQL column name -/
def TCol.name : TCol → String
  | .playOrder => "playOrder" | .length => "length" | .lengthCalculated => "lengthCalculated" | .bpm => "bpm"
  | .year => "year" | .path => "path" | .filename => "filename" | .bitrate => "bitrate" | .bpmAnalyzed => "bpmAnalyzed"
  | .trackType => "trackType" | .isExternalTrack => "isExternalTrack"
  | .uuidOfExternalDatabase => "uuidOfExternalDatabase" | .idTrackInExternalDatabase => "idTrackInExternalDatabase"
  | .idAlbumArt => "idAlbumArt" | .fileBytes => "fileBytes" | .pdbImportKey => "pdbImportKey" | .uri => "uri"
  | .isBeatGridLocked => "isBeatGridLocked"

/-- the member of `track_row` (= parameter of `create_track`, by position) a column is read into -/
def TCol.member : TCol → String
  | .playOrder => "play_order" | .length => "length" | .lengthCalculated => "length_calculated" | .bpm => "bpm"
  | .year => "year" | .path => "relative_path" | .filename => "filename" | .bitrate => "bitrate"
  | .bpmAnalyzed => "bpm_analyzed" | .trackType => "track_type" | .isExternalTrack => "is_external_track"
  | .uuidOfExternalDatabase => "uuid_of_external_database"
  | .idTrackInExternalDatabase => "id_track_in_external_database" | .idAlbumArt => "album_art_id"
  | .fileBytes => "file_bytes" | .pdbImportKey => "pdb_import_key" | .uri => "uri"
  | .isBeatGridLocked => "is_beatgrid_locked"

def TCol.all : List TCol :=
  [.playOrder, .length, .lengthCalculated, .bpm, .year, .path, .filename, .bitrate, .bpmAnalyzed, .trackType,
   .isExternalTrack, .uuidOfExternalDatabase, .idTrackInExternalDatabase, .idAlbumArt, .fileBytes, .pdbImportKey, .uri,
   .isBeatGridLocked]

/-- SQL column ↔ member of `track_row` -/
def trackColMember : List (String × String) := TCol.all.map fun c => (c.name, c.member)

inductive TSrc where
  | trackNumber | length | lengthCalc | bpmInt | bpmAnalyzed | year | path | filename | bitrate | fileBytes
  | const (n : Int) | null
  deriving DecidableEq, Repr

def TSrc.rval : TSrc → RVal
  | .trackNumber => .derived "" none ["track_number"]
  | .length => .derived "to_length_fields" (some "length") lenDeps
  | .lengthCalc => .derived "to_length_fields" (some "length_calculated") lenDeps
  | .bpmInt => .derived "to_bpm_fields" (some "bpm") ["bpm"]
  | .bpmAnalyzed => .derived "to_bpm_fields" (some "bpm_analyzed") ["bpm"]
  | .year => .derived "" none ["year"]
  | .path => .snap "relative_path"
  | .filename => .derived "get_filename" none ["relative_path"]
  | .bitrate => .snap "bitrate"
  | .fileBytes => .snap "file_bytes"
  | .const n => .const (some n)
  | .null => .const none

/-- `create_track` / `update_track`: column ← source, for the columns the statement of schema `s` names -/
def trackColsH (s : Schema) : List (TCol × TSrc) :=
  [(.playOrder, .trackNumber), (.length, .length), (.lengthCalculated, .lengthCalc), (.bpm, .bpmInt), (.year, .year),
   (.path, .path), (.filename, .filename), (.bitrate, .bitrate), (.bpmAnalyzed, .bpmAnalyzed), (.trackType, .const 1),
   (.isExternalTrack, .const 0), (.uuidOfExternalDatabase, .null), (.idTrackInExternalDatabase, .null),
   (.idAlbumArt, .const 1)] ++
  (if s.ge .s1_15_0 then [(.fileBytes, .fileBytes)] else []) ++
  (if s.ge .s1_7_1 then [(.pdbImportKey, .const 0)] else []) ++
  (if s.ge .s1_15_0 then [(.uri, .null)] else []) ++
  (if s.ge .s1_18_0_desktop then [(.isBeatGridLocked, .const 0)] else [])

def trackCols (s : Schema) : List (String × RVal) := (trackColsH s).map fun p => (p.1.name, p.2.rval)

inductive Cell where
  | null
  | int (v : Option Int)
  | text (v : Option Bytes)
  | real (v : Option Bits)

/-- naming table, `Track` values: what each source denotes in `writeTrackRow` -/
def evalTrack (x : Snap) (path : Bytes) (len lenCalc bpmI : Option Int) : TSrc → Cell
  | .trackNumber => .int (x.trackNumber.map Prim.s32)
  | .length => .int len
  | .lengthCalc => .int lenCalc
  | .bpmInt => .int bpmI
  | .bpmAnalyzed => .real (x.bpm.bind Fl.realCell)
  | .year => .int (x.year.map Prim.s32)
  | .path => .text (some path)
  | .filename => .text (some (getFilename path))
  | .bitrate => .int (x.bitrate.map Prim.s32)
  | .fileBytes => .int (x.fileBytes.map Prim.s64)
  | .const n => .int (some n)
  | .null => .null

/-- naming table, `Track` columns: column → field of the model's `TrackRow` -/
def putTrack (t : TrackRow) : TCol → Cell → TrackRow
  | .playOrder, .int v => { t with playOrder := v }
  | .length, .int v => { t with length := v }
  | .lengthCalculated, .int v => { t with lengthCalculated := v }
  | .bpm, .int v => { t with bpm := v }
  | .year, .int v => { t with year := v }
  | .path, .text v => { t with path := v }
  | .filename, .text v => { t with filename := v }
  | .bitrate, .int v => { t with bitrate := v }
  | .bpmAnalyzed, .real v => { t with bpmAnalyzed := v }
  | .trackType, .int v => { t with trackType := v }
  | .isExternalTrack, .int v => { t with isExternalTrack := v }
  | .uuidOfExternalDatabase, .null => { t with uuidOfExternalDatabase := none }
  | .idTrackInExternalDatabase, .null => { t with idTrackInExternalDatabase := none }
  | .idAlbumArt, .int v => { t with idAlbumArt := v }
  | .fileBytes, .int v => { t with fileBytes := v }
  | .pdbImportKey, .int v => { t with pdbImportKey := v }
  | .uri, .null => { t with uri := none }
  | .isBeatGridLocked, .int v => { t with isBeatGridLocked := v }
  | _, _ => t

theorem writeTrackRow_eq (s : Schema) (prior : TrackRow) (x : Snap) (path : Bytes) (len lenCalc bpmI : Option Int) :
    writeTrackRow s prior x path len lenCalc bpmI =
      (trackColsH s).foldl (fun t cv => putTrack t cv.1 (evalTrack x path len lenCalc bpmI cv.2)) prior := by
  cases s <;> rfl

/-- `get_track` + `snapshot()`: the snapshot members that come from `Track` columns (column, snapshot member) -/
def trackReadsH (s : Schema) : List (TCol × String) :=
  [(.bitrate, "bitrate"), (.bpmAnalyzed, "bpm"), (.bpm, "bpm"), (.length, "duration"), (.path, "relative_path"),
   (.playOrder, "track_number"), (.year, "year")] ++ (if s.ge .s1_15_0 then [(.fileBytes, "file_bytes")] else [])

/-! ### the PerformanceData row -/

def tdDeps : List String := ["sample_count", "sample_rate", "average_loudness", "key"]
def wfDeps : List String := ["sample_count", "sample_rate", "waveform"]

inductive PCol where
  | id | isAnalyzed | isRendered | trackData | hires | overview | beatData | quickCues | loops | hasSerato
  | hasRekordbox | hasTraktor
  deriving DecidableEq, Repr

def PCol.name : PCol → String
  | .id => "id" | .isAnalyzed => "isAnalyzed" | .isRendered => "isRendered" | .trackData => "trackData"
  | .hires => "highResolutionWaveFormData" | .overview => "overviewWaveFormData" | .beatData => "beatData"
  | .quickCues => "quickCues" | .loops => "loops" | .hasSerato => "hasSeratoValues"
  | .hasRekordbox => "hasRekordboxValues" | .hasTraktor => "hasTraktorValues"

/-- the member of `performance_data_row` (= parameter of `set_performance_data`, by position) -/
def PCol.member : PCol → String
  | .id => "id" | .isAnalyzed => "is_analyzed" | .isRendered => "is_rendered" | .trackData => "track_performance_data"
  | .hires => "high_res_waveform" | .overview => "overview_waveform" | .beatData => "beats" | .quickCues => "quick_cues"
  | .loops => "loops" | .hasSerato => "has_serato_values" | .hasRekordbox => "has_rekordbox_values"
  | .hasTraktor => "has_traktor_values"

def PCol.all : List PCol :=
  [.id, .isAnalyzed, .isRendered, .trackData, .hires, .overview, .beatData, .quickCues, .loops, .hasSerato,
   .hasRekordbox, .hasTraktor]

def perfColMember : List (String × String) := PCol.all.map fun c => (c.name, c.member)

inductive PSrc where
  | id | const (n : Int) | trackData | hires | overview | beat | cues | loops
  deriving DecidableEq, Repr

def PSrc.rval : PSrc → RVal
  | .id => .id
  | .const n => .const (some n)
  | .trackData => .derived "to_track_data" none tdDeps
  | .hires => .derived "to_high_res_waveform_data" none wfDeps
  | .overview => .derived "to_overview_waveform_data" none wfDeps
  | .beat => .derived "to_beat_data" none ["sample_count", "sample_rate", "beatgrid"]
  | .cues => .derived "to_cues_data" none ["hot_cues", "main_cue"]
  | .loops => .derived "to_loops_data" none ["loops"]

/-- `set_performance_data`: column ← source -/
def perfColsH (s : Schema) : List (PCol × PSrc) :=
  [(.id, .id), (.isAnalyzed, .const 1), (.isRendered, .const 0), (.trackData, .trackData), (.hires, .hires),
   (.overview, .overview), (.beatData, .beat), (.quickCues, .cues), (.loops, .loops), (.hasSerato, .const 0)] ++
  (if s.ge .s1_7_1 then [(.hasRekordbox, .const 0)] else []) ++
  (if s.ge .s1_11_1 then [(.hasTraktor, .const 0)] else [])

def perfCols (s : Schema) : List (String × RVal) := (perfColsH s).map fun p => (p.1.name, p.2.rval)

inductive PCell where
  | none
  | int (v : Int)
  | track (v : Impl.V1.Track)
  | wave (v : Wave)
  | beat (v : Beat)
  | cues (v : Cues)
  | loops (v : Loops)

/-- naming table, PerformanceData values: what each source denotes in `assemble` (the value-level codec
effect `norm*` of the blob the helper built) -/
def evalPerf (x : Snap) (ovw hires : Wave) (beat' : Beat) (cues' : Cues) (loops' : Loops) : PSrc → PCell
  | .trackData => .track (normTrack ⟨x.sampleRate, x.sampleCount, x.averageLoudness, x.key⟩)
  | .hires => .wave (normHires hires)
  | .overview => .wave (normOvw ovw)
  | .beat => .beat beat'
  | .cues => .cues cues'
  | .loops => .loops loops'
  | .const n => .int n
  | .id => .none

/-- naming table, PerformanceData columns -/
def putPerf (p : PerfRow) : PCol → PCell → PerfRow
  | .isAnalyzed, .int v => { p with isAnalyzed := v }
  | .isRendered, .int v => { p with isRendered := v }
  | .trackData, .track v => { p with trackData := v }
  | .hires, .wave v => { p with hires := v }
  | .overview, .wave v => { p with overview := v }
  | .beatData, .beat v => { p with beat := v }
  | .quickCues, .cues v => { p with cues := v }
  | .loops, .loops v => { p with loops := v }
  | .hasSerato, .int v => { p with hasSerato := some v }
  | .hasRekordbox, .int v => { p with hasRekordbox := some v }
  | .hasTraktor, .int v => { p with hasTraktor := some v }
  | _, _ => p

def blankPerf : PerfRow :=
  ⟨0, 0, ⟨none, none, none, none⟩, ⟨F64.zero, []⟩, ⟨F64.zero, []⟩, ⟨none, none, [], []⟩, ⟨[], F64.zero, F64.zero⟩, [],
   none, none, none⟩

theorem assemble_perf_eq (s : Schema) (x : Snap) (prior : Option TrackRows) (path : Bytes) (lenCalc bpmI : Option Int)
    (ovw hires : Wave) (beat' : Beat) (cues' : Cues) (loops' : Loops) :
    (assemble s x prior path lenCalc bpmI ovw hires beat' cues' loops').perf =
      some ((perfColsH s).foldl (fun p cv => putPerf p cv.1 (evalPerf x ovw hires beat' cues' loops' cv.2)) blankPerf) := by
  cases s <;> rfl

/-- whole seconds of `to_length_fields` -/
def lenOf (x : Snap) : Option Int := x.duration.map fun d => tdivPos (Prim.s64 d) 1000

/-- `assemble` feeds `writeTrackRow` and the two bulk statements from the prepared values -/
theorem assemble_track_eq (s : Schema) (x : Snap) (prior : Option TrackRows) (path : Bytes) (lenCalc bpmI : Option Int)
    (ovw hires : Wave) (beat' : Beat) (cues' : Cues) (loops' : Loops) :
    (assemble s x prior path lenCalc bpmI ovw hires beat' cues' loops').track =
      (trackColsH s).foldl (fun t cv => putTrack t cv.1 (evalTrack x path (lenOf x) lenCalc bpmI cv.2))
        (prior.getD blankRows).track :=
  writeTrackRow_eq s (prior.getD blankRows).track x path (lenOf x) lenCalc bpmI

theorem assemble_mstr_eq (s : Schema) (x : Snap) (prior : Option TrackRows) (path : Bytes) (lenCalc bpmI : Option Int)
    (ovw hires : Wave) (beat' : Beat) (cues' : Cues) (loops' : Loops) :
    (assemble s x prior path lenCalc bpmI ovw hires beat' cues' loops').mstr =
      asetMany ((bulkStrH s).map fun q => (q.1, evalText x ((lenOf x).map mmss)
        (if x.lastPlayedAt.isSome then oneText else none) (getExtension (getFilename path)) q.2))
        (prior.getD blankRows).mstr := by
  simp only [assemble, metaBulk_eq, lenOf]

theorem assemble_mint_eq (s : Schema) (x : Snap) (prior : Option TrackRows) (path : Bytes) (lenCalc bpmI : Option Int)
    (ovw hires : Wave) (beat' : Beat) (cues' : Cues) (loops' : Loops) :
    (assemble s x prior path lenCalc bpmI ovw hires beat' cues' loops').mint =
      asetMany ((bulkIntH s).map fun q => (q.1, evalInt (x.key.map Prim.s32) (x.rating.map clampRating)
        (x.lastPlayedAt.map toTimestamp) q.2)) (prior.getD blankRows).mint := by
  simp only [assemble, metaIntBulk_eq]

/-! ### getters / setters: which storage locations each one touches -/

/-- the C++ member function of a field's getter (the setter is `"set_" ++` this) -/
def cxxName : Field → String
  | .album => "album" | .artist => "artist" | .averageLoudness => "average_loudness" | .beatgrid => "beatgrid"
  | .bitrate => "bitrate" | .bpm => "bpm" | .comment => "comment" | .composer => "composer" | .duration => "duration"
  | .genre => "genre" | .hotCues => "hot_cues" | .hotCueAt _ => "hot_cue_at" | .key => "key"
  | .lastPlayedAt => "last_played_at" | .loops => "loops" | .loopAt _ => "loop_at" | .mainCue => "main_cue"
  | .publisher => "publisher" | .rating => "rating" | .relativePath => "relative_path" | .sampleCount => "sample_count"
  | .sampleRate => "sample_rate" | .title => "title" | .trackNumber => "track_number" | .waveform => "waveform"
  | .year => "year"

/-- one representative per getter / setter of the public API (slot accessors at index 0) -/
def Field.reps : List Field :=
  [.album, .artist, .averageLoudness, .beatgrid, .bitrate, .bpm, .comment, .composer, .duration, .genre, .hotCues,
   .hotCueAt 0, .key, .lastPlayedAt, .loops, .loopAt 0, .mainCue, .publisher, .rating, .relativePath, .sampleCount,
   .sampleRate, .title, .trackNumber, .waveform, .year]

/-- a storage location of the model rows -/
inductive Loc where
  | str (code : Int) | int (code : Int) | col (c : TCol) | perf (c : PCol)
  deriving DecidableEq, Repr

/-- the enumerator tables of the hand model (name, number), to be compared with the header -/
def strEnumHand : List (String × Int) :=
  [("title", 1), ("artist", 2), ("album", 3), ("genre", 4), ("comment", 5), ("publisher", 6), ("composer", 7),
   ("unknown_8", 8), ("unknown_9", 9), ("duration_mm_ss", 10), ("ever_played", 12), ("file_extension", 13),
   ("unknown_15", 15), ("unknown_16", 16), ("unknown_17", 17)]

def intEnumHand : List (String × Int) :=
  [("last_played_ts", 1), ("last_modified_ts", 2), ("last_accessed_ts", 3), ("musical_key", 4), ("rating", 5),
   ("unknown_6", 6), ("unknown_7", 7), ("unknown_8", 8), ("unknown_9", 9), ("last_play_hash", 10), ("unknown_11", 11),
   ("unknown_12", 12)]

def nameOf (tbl : List (String × Int)) (n : Int) : String := ((tbl.find? fun p => p.2 == n).map (·.1)).getD "?"

/-- naming table: a location as a read / write access in the vocabulary of the source -/
def Loc.read : Loc → Acc
  | .str n => .getStr (nameOf strEnumHand n) | .int n => .getInt (nameOf intEnumHand n)
  | .col c => .getCol c.name | .perf c => .getPerf c.name

def Loc.write : Loc → Acc
  | .str n => .setStr (nameOf strEnumHand n) | .int n => .setInt (nameOf intEnumHand n)
  | .col c => .setCol c.name | .perf c => .setPerf c.name

/-- the storage locations the model's getter reads -/
def fieldReadsH : Field → List Loc
  | .album => [.str 3] | .artist => [.str 2] | .comment => [.str 5] | .composer => [.str 7] | .genre => [.str 4]
  | .publisher => [.str 6] | .title => [.str 1]
  | .key => [.int 4] | .lastPlayedAt => [.int 1] | .rating => [.int 5]
  | .bitrate => [.col .bitrate] | .bpm => [.col .bpmAnalyzed, .col .bpm] | .duration => [.col .length]
  | .relativePath => [.col .path] | .trackNumber => [.col .playOrder] | .year => [.col .year]
  | .averageLoudness | .sampleCount | .sampleRate => [.perf .trackData]
  | .beatgrid => [.perf .beatData]
  | .hotCues | .hotCueAt _ | .mainCue => [.perf .quickCues]
  | .loops | .loopAt _ => [.perf .loops]
  | .waveform => [.perf .hires]

/-- the storage locations the model's setter writes -/
def fieldWritesH : Field → List Loc
  | .album => [.str 3] | .artist => [.str 2] | .comment => [.str 5] | .composer => [.str 7] | .genre => [.str 4]
  | .publisher => [.str 6] | .title => [.str 1]
  | .key => [.perf .trackData, .int 4]
  | .lastPlayedAt => [.str 12, .int 1]
  | .rating => [.int 5]
  | .bitrate => [.col .bitrate] | .bpm => [.col .bpmAnalyzed, .col .bpm]
  | .duration => [.col .length, .str 10]
  | .relativePath => [.col .path, .col .filename, .str 13]
  | .trackNumber => [.col .playOrder] | .year => [.col .year]
  | .averageLoudness => [.perf .trackData]
  | .sampleCount => [.col .lengthCalculated, .perf .beatData, .perf .trackData, .perf .overview]
  | .sampleRate => [.col .lengthCalculated, .perf .beatData, .perf .trackData, .perf .hires, .perf .overview]
  | .beatgrid => [.perf .beatData]
  | .hotCues | .hotCueAt _ | .mainCue => [.perf .quickCues]
  | .loops | .loopAt _ => [.perf .loops]
  | .waveform => [.perf .overview, .perf .hires]

def fieldReads (f : Field) : List Acc := (fieldReadsH f).map Loc.read
def fieldWrites (f : Field) : List Acc := (fieldWritesH f).map Loc.write

/-- naming table, locations: two row sets agree at a storage location -/
def trackColEq (t t' : TrackRow) : TCol → Prop
  | .playOrder => t.playOrder = t'.playOrder | .length => t.length = t'.length
  | .lengthCalculated => t.lengthCalculated = t'.lengthCalculated | .bpm => t.bpm = t'.bpm | .year => t.year = t'.year
  | .path => t.path = t'.path | .filename => t.filename = t'.filename | .bitrate => t.bitrate = t'.bitrate
  | .bpmAnalyzed => t.bpmAnalyzed = t'.bpmAnalyzed | .trackType => t.trackType = t'.trackType
  | .isExternalTrack => t.isExternalTrack = t'.isExternalTrack
  | .uuidOfExternalDatabase => t.uuidOfExternalDatabase = t'.uuidOfExternalDatabase
  | .idTrackInExternalDatabase => t.idTrackInExternalDatabase = t'.idTrackInExternalDatabase
  | .idAlbumArt => t.idAlbumArt = t'.idAlbumArt | .fileBytes => t.fileBytes = t'.fileBytes
  | .pdbImportKey => t.pdbImportKey = t'.pdbImportKey | .uri => t.uri = t'.uri
  | .isBeatGridLocked => t.isBeatGridLocked = t'.isBeatGridLocked

def perfColEq (r r' : TrackRows) : PCol → Prop
  | .trackData => colTrack r = colTrack r'
  | .beatData => colBeat r = colBeat r'
  | .quickCues => colCues r = colCues r'
  | .loops => colLoops r = colLoops r'
  | .hires => colHires r = colHires r'
  | .overview => colOvw r = colOvw r'
  | .id => True
  | .isAnalyzed => r.perf.map (·.isAnalyzed) = r'.perf.map (·.isAnalyzed)
  | .isRendered => r.perf.map (·.isRendered) = r'.perf.map (·.isRendered)
  | .hasSerato => r.perf.map (·.hasSerato) = r'.perf.map (·.hasSerato)
  | .hasRekordbox => r.perf.map (·.hasRekordbox) = r'.perf.map (·.hasRekordbox)
  | .hasTraktor => r.perf.map (·.hasTraktor) = r'.perf.map (·.hasTraktor)

def locEq (r r' : TrackRows) : Loc → Prop
  | .str n => aget n r.mstr = aget n r'.mstr
  | .int n => aget n r.mint = aget n r'.mint
  | .col c => trackColEq r.track r'.track c
  | .perf c => perfColEq r r' c

def locEqAll (r r' : TrackRows) : List Loc → Prop
  | [] => True
  | l :: t => locEq r r' l ∧ locEqAll r r' t

/-- every getter of the model depends on the rows only through the locations of `fieldReadsH` -/
theorem get_reads_only (o : Fl.FOps) (r r' : TrackRows) (f : Field) (h : locEqAll r r' (fieldReadsH f)) :
    get o r f = get o r' f := by
  cases f <;> simp only [fieldReadsH, locEqAll, locEq, trackColEq, perfColEq, and_true] at h <;>
    simp only [get, cell] <;> first
    | rw [h]
    | (obtain ⟨h1, h2⟩ := h; rw [h1, h2])

end EngineModel.TracksV1.Bind
