/-
Model of every schema-1.x track getter and setter
(engine_track_impl.cpp:542-1113), on the rows of one track, and the
database-level step over several tracks (`UNIQUE(path)` from 1.11.1 on).
-/
import EngineModel.TracksV1.Model

namespace EngineModel
namespace TracksV1

open Impl.V1 (GMarker HotCue LoopV Entry Wave Beat Cues Loops)
open Fl (FOps)

/-! ### PerformanceData columns -/

def colTrack (r : TrackRows) : Impl.V1.Track := (r.perf.map (·.trackData)).getD ⟨none, none, none, none⟩
def colHires (r : TrackRows) : Wave := (r.perf.map (·.hires)).getD ⟨F64.zero, []⟩
def colOvw (r : TrackRows) : Wave := (r.perf.map (·.overview)).getD ⟨F64.zero, []⟩
def colBeat (r : TrackRows) : Beat := (r.perf.map (·.beat)).getD ⟨none, none, [], []⟩
def colCues (r : TrackRows) : Cues := (r.perf.map (·.cues)).getD ⟨[], F64.zero, F64.zero⟩
def colLoops (r : TrackRows) : Loops := (r.perf.map (·.loops)).getD []

/-- `set_performance_data_column`: guard, then (row missing) the INSERT of default
blobs — which fails in `quick_cues_data{}.encode()` (0 slots, buffer sized for 8)
— then the UPDATE of the one column and `isAnalyzed = 1`. -/
def setCol {α} (r : TrackRows) (norm : α → Res α) (eq : α → α → Bool) (v : α)
    (put : PerfRow → α → PerfRow) : Res TrackRows :=
  match colGuard norm eq v with
  | .throw e => .throw e
  | .ub u => .ub u
  | .ok v' =>
    match r.perf with
    | none => .throw .runtime_error
    | some p => .ok { r with perf := some { put p v' with isAnalyzed := 1 } }

def setTrackCol (r : TrackRows) (v : Impl.V1.Track) : Res TrackRows :=
  setCol r (fun x => .ok (normTrack x)) eqTrack v (fun p x => { p with trackData := x })
def setBeatCol (r : TrackRows) (v : Beat) : Res TrackRows :=
  setCol r normBeat eqBeat v (fun p x => { p with beat := x })
def setCuesCol (r : TrackRows) (v : Cues) : Res TrackRows :=
  setCol r normCues eqCues v (fun p x => { p with cues := x })
def setLoopsCol (r : TrackRows) (v : Loops) : Res TrackRows :=
  setCol r normLoops eqLoops v (fun p x => { p with loops := x })
def setHiresCol (r : TrackRows) (v : Wave) : Res TrackRows :=
  setCol r (fun x => .ok (normHires x)) eqWave v (fun p x => { p with hires := x })
/-- `set_overview_waveform_data` first forces every opacity to 255. -/
def setOvwCol (r : TrackRows) (v : Wave) : Res TrackRows :=
  setCol r (fun x => .ok (normOvw x)) eqWave ⟨v.spe, v.entries.map opaque255⟩ (fun p x => { p with overview := x })

/-! ### fields -/

inductive Field where
  | album | artist | averageLoudness | beatgrid | bitrate | bpm | comment | composer | duration
  | genre | hotCues | hotCueAt (i : UInt32) | key | lastPlayedAt | loops | loopAt (i : UInt32) | mainCue
  | publisher | rating | relativePath | sampleCount | sampleRate | title | trackNumber | waveform | year
  deriving DecidableEq, Repr

/-- Getter-only observations derived from the path. -/
inductive Derived where
  | filename | fileExtension
  deriving DecidableEq, Repr

/-- The C++ type of a field's value. -/
def Field.ty : Field → Type
  | .album | .artist | .comment | .composer | .genre | .publisher | .title => Option Bytes
  | .averageLoudness | .bpm | .mainCue | .sampleRate => Option Bits
  | .beatgrid => List GMarker
  | .bitrate | .key | .rating | .trackNumber | .year => Option UInt32
  | .duration | .lastPlayedAt | .sampleCount => Option UInt64
  | .hotCues => List (Option HotCue)
  | .hotCueAt _ => Option HotCue
  | .loops => List (Option LoopV)
  | .loopAt _ => Option LoopV
  | .relativePath => Bytes
  | .waveform => List Entry

/-- The `MetaData` type code of a string field. -/
def strCode : Field → Option Int
  | .title => some 1 | .artist => some 2 | .album => some 3 | .genre => some 4 | .comment => some 5
  | .publisher => some 6 | .composer => some 7 | _ => none

/-- `vector[index]` after the range check added by the `fix:` (`index` is an `int`). -/
def slotIndex {α} (i : UInt32) (l : List α) : Res Nat :=
  let v := Prim.s32 i
  if v < 0 ∨ (l.length : Int) ≤ v then .throw .out_of_range else .ok v.toNat

def optMulU (k : Int) (v : Option Int) : Res (Option UInt64) :=
  (optMul k v).bind fun r => .ok (r.map Prim.u64OfInt)

/-! ### getters -/

def get (o : FOps) (r : TrackRows) : (f : Field) → Res f.ty
  | .album => .ok (cell 3 r.mstr)
  | .artist => .ok (cell 2 r.mstr)
  | .comment => .ok (cell 5 r.mstr)
  | .composer => .ok (cell 7 r.mstr)
  | .genre => .ok (cell 4 r.mstr)
  | .publisher => .ok (cell 6 r.mstr)
  | .title => .ok (cell 1 r.mstr)
  | .averageLoudness => .ok (colTrack r).loudness
  | .beatgrid => .ok (colBeat r).adj
  | .bitrate => .ok (r.track.bitrate.map Prim.u32OfInt)
  | .bpm => .ok (match r.track.bpmAnalyzed with
      | some b => some b
      | none => r.track.bpm.map o.ofI64)
  | .duration => optMulU 1000 r.track.length
  | .hotCues => .ok (colCues r).cues
  | .hotCueAt i =>
    let cs := (colCues r).cues
    (slotIndex i cs).bind fun k => liftUb cs[k]? .oob_index
  | .key => .ok ((cell 4 r.mint).map Prim.u32OfInt)
  | .lastPlayedAt => optMulU 1000000000 (cell 1 r.mint)
  | .loops => .ok (colLoops r)
  | .loopAt i =>
    let ls := colLoops r
    (slotIndex i ls).bind fun k => liftUb ls[k]? .oob_index
  | .mainCue => .ok (let c := (colCues r).adjMain; if F64.isZero c then none else some c)
  | .rating => .ok ((cell 5 r.mint).map Prim.u32OfInt)
  | .relativePath => .ok (r.track.path.getD [])
  | .sampleCount => .ok (colTrack r).sampleCount
  | .sampleRate => .ok (colTrack r).sampleRate
  | .trackNumber => .ok (r.track.playOrder.map Prim.u32OfInt)
  | .waveform => .ok (colHires r).entries
  | .year => .ok (r.track.year.map Prim.u32OfInt)

def getDerived (r : TrackRows) : Derived → Bytes
  | .filename => getFilename (r.track.path.getD [])
  | .fileExtension => (getExtension (r.track.path.getD [])).getD []

/-! ### setters -/

def setAt {α} (l : List α) (k : Nat) (v : α) : List α := l.set k v

/-- `static_cast<int64_t>(std::ceil(bpm))` guarded by `fabs(bpm) < 2^63`. -/
def ceiledBpm (o : FOps) (bpm : Option Bits) : Res (Option Int) :=
  match bpm with
  | none => .ok none
  | some b =>
    if !Fl.absLt63 b then .ok none else
    match Fl.toI64 (o.ceil b) with
    | some i => .ok (some i)
    | none => .ub .float_cast_range

/-- Part shared by `set_sample_count` / `set_sample_rate` after the new values are known. -/
def resample1024 (w : List Entry) (size : Nat) : Res (List Entry) := resample w size

def set (o : FOps) (r : TrackRows) : (f : Field) → f.ty → Res TrackRows
  | .album, v => .ok { r with mstr := aset 3 v r.mstr }
  | .artist, v => .ok { r with mstr := aset 2 v r.mstr }
  | .comment, v => .ok { r with mstr := aset 5 v r.mstr }
  | .composer, v => .ok { r with mstr := aset 7 v r.mstr }
  | .genre, v => .ok { r with mstr := aset 4 v r.mstr }
  | .publisher, v => .ok { r with mstr := aset 6 v r.mstr }
  | .title, v => .ok { r with mstr := aset 1 v r.mstr }
  | .averageLoudness, v =>
    let td := colTrack r
    setTrackCol r { td with loudness := if F64.isZero (v.getD F64.zero) then none else v }
  | .beatgrid, g =>
    let b := colBeat r
    setBeatCol r { b with adj := g, dflt := g }
  | .bitrate, v => .ok { r with track := { r.track with bitrate := v.map Prim.s32 } }
  | .bpm, v => do
    -- two statements, no transaction: the first is already applied if the second is undefined
    let c ← ceiledBpm o v
    pure { r with track := { r.track with bpmAnalyzed := v.bind Fl.realCell, bpm := c } }
  | .duration, v =>
    let secs : Option Int := v.map fun d => tdivPos (Prim.s64 d) 1000
    .ok { r with track := { r.track with length := secs }, mstr := aset 10 (secs.map mmssSetter) r.mstr }
  | .hotCues, cs =>
    let c := colCues r
    setCuesCol r { c with cues := padTo8 cs }
  | .hotCueAt i, q =>
    let c := colCues r
    (slotIndex i c.cues).bind fun k => setCuesCol r { c with cues := setAt c.cues k q }
  | .key, k =>
    let td := colTrack r
    -- C major (0) is held by track data as "no key"
    let k' : Option UInt32 := k
    (setTrackCol r { td with key := k'.bind fun x => if x = 0 then none else some x }).bind fun r' =>
      .ok { r' with mint := aset 4 (k.map Prim.s32) r'.mint }
  | .lastPlayedAt, t =>
    .ok { r with mstr := aset 12 (some (if t.isSome then [49] else [48])) r.mstr,
                 mint := aset 1 (t.map toTimestamp) r.mint }
  | .loops, ls =>
    if 8 < ls.length then .throw (.dj "loops_overflow") else setLoopsCol r (padTo8 ls)
  | .loopAt i, l =>
    let ls := colLoops r
    (slotIndex i ls).bind fun k => setLoopsCol r (setAt ls k l)
  | .mainCue, v =>
    let c := colCues r
    setCuesCol r { c with adjMain := v.getD F64.zero, defMain := v.getD F64.zero }
  | .rating, v => .ok { r with mint := aset 5 (v.map clampRating) r.mint }
  | .relativePath, p =>
    .ok { r with track := { r.track with path := some p, filename := some (getFilename p) },
                 mstr := aset 13 (getExtension (getFilename p)) r.mstr }
  | .sampleCount, n0 => do
    let n0' : Option UInt64 := n0
    let n : Option UInt64 := n0'.bind fun x => if x = 0 then none else some x   -- zero = no sample count
    let td := colTrack r
    let b := colBeat r
    let ov := colOvw r
    let secs ← lengthCalculated n td.sampleRate
    let r1 := { r with track := { r.track with lengthCalculated := secs } }
    let r2 ← setBeatCol r1 { b with sampleCount := n.map fun k => o.ofU64 k.toNat }
    let r3 ← setTrackCol r2 { td with sampleCount := n }
    if ov.entries.isEmpty then pure r3 else do
      let e ← ovwExtents o (n.getD 0) (td.sampleRate.getD F64.zero)
      setOvwCol r3 { ov with spe := e.2 }
  | .sampleRate, v0 => do
    let v : Option Bits := zeroNoneF v0                          -- zero = no sample rate
    let td := colTrack r
    let b := colBeat r
    let hi := colHires r
    let ov := colOvw r
    let secs ← lengthCalculated td.sampleCount v
    let r1 := { r with track := { r.track with lengthCalculated := secs } }
    let r2 ← setBeatCol r1 { b with sampleRate := v }
    let r3 ← setTrackCol r2 { td with sampleRate := v }
    let r4 ← (if hi.entries.isEmpty then pure r3 else do
      let e ← hiresExtents o (td.sampleCount.getD 0) (v.getD F64.zero)
      setHiresCol r3 { hi with spe := e.2 })
    if ov.entries.isEmpty then pure r4 else do
      let e ← ovwExtents o (td.sampleCount.getD 0) (v.getD F64.zero)
      setOvwCol r4 { ov with spe := e.2 }
  | .trackNumber, v => .ok { r with track := { r.track with playOrder := v.map Prim.s32 } }
  | .waveform, w => do
    let (ov, hi) ← (if w.isEmpty then pure ((⟨F64.zero, []⟩ : Wave), (⟨F64.zero, []⟩ : Wave)) else do
      let td := colTrack r
      let n := td.sampleCount.getD 0
      let rate := td.sampleRate.getD F64.zero
      let oe ← ovwExtents o n rate
      let es ← resample w oe.1
      let he ← hiresExtents o n rate
      pure ((⟨oe.2, es⟩ : Wave), (⟨he.2, w⟩ : Wave)))
    let r1 ← setOvwCol r ov
    setHiresCol r1 hi
  | .year, v => .ok { r with track := { r.track with year := v.map Prim.s32 } }

/-! ### several tracks -/

structure Db where
  schema : Schema
  tracks : List (Int × TrackRows)
  deriving Repr

def Db.rows (d : Db) (id : Int) : Option TrackRows := aget id d.tracks

/-- `UNIQUE ([path])` of the `Track` table, from 1.11.1 on: another row already has this path. -/
def pathTaken (d : Db) (id : Int) (p : Bytes) : Bool :=
  d.schema.ge .s1_11_1 && d.tracks.any fun e => e.1 ≠ id && e.2.track.path == some p

def nextId (d : Db) : Int := (d.tracks.foldl (fun m e => if m < e.1 then e.1 else m) 0) + 1

/-- `database::create_track`. -/
def dbCreate (o : FOps) (d : Db) (x : Snap) : Res (Db × Int) :=
  let id := nextId d
  match writeSnap o d.schema x none with
  | .ub u => .ub u
  | .throw e =>
    -- the preparation steps throw before the INSERT; the codec errors after it
    match x.relativePath with
    | none => .throw e
    | some p =>
      if e = .dj "invalid_track_snapshot" ∨ e = .dj "loops_overflow" then .throw e
      else if pathTaken d id p then .throw .sqlite_error else .throw e
  | .ok rows =>
    if pathTaken d id (rows.track.path.getD []) then .throw .sqlite_error
    else .ok ({ d with tracks := d.tracks ++ [(id, rows)] }, id)

/-- `track::update` on a track that exists. -/
def dbUpdate (o : FOps) (d : Db) (id : Int) (x : Snap) : Res Db :=
  match d.rows id with
  | none =>
    -- the preparation steps run (and may throw) first; then `UPDATE Track` finds no row (after the `fix:`;
    -- before it the call went on to write the dependent rows of the missing track and returned normally)
    match writeSnap o d.schema x none with
    | .ub u => .ub u
    | .throw e =>
      if x.relativePath.isNone ∨ e = .dj "invalid_track_snapshot" ∨ e = .dj "loops_overflow" then .throw e
      else .throw (.dj "track_deleted")
    | .ok _ => .throw (.dj "track_deleted")
  | some prior =>
    match writeSnap o d.schema x (some prior) with
    | .ub u => .ub u
    | .throw e =>
      match x.relativePath with
      | none => .throw e
      | some p =>
        if e = .dj "invalid_track_snapshot" ∨ e = .dj "loops_overflow" then .throw e
        else if pathTaken d id p then .throw .sqlite_error else .throw e
    | .ok rows =>
      if pathTaken d id (rows.track.path.getD []) then .throw .sqlite_error
      else .ok { d with tracks := aset id rows d.tracks }

/-- Getters that read a `Track` column (`get_track_column` throws `track_deleted` when the row is gone);
the others read MetaData / MetaDataInteger / PerformanceData rows and, on the handle of a removed track,
answer as for a track that has no such rows. -/
def Field.trackColumn : Field → Bool
  | .bitrate | .bpm | .duration | .relativePath | .trackNumber | .year => true
  | _ => false

/-- Setters whose first write is an `UPDATE Track … WHERE id = ?` or a single MetaData /
MetaDataInteger row: on the handle of a removed track they throw `track_deleted` (after the `fix:`;
before it they returned normally and the meta-data ones inserted rows for the missing track).  The
remaining setters go through a PerformanceData blob column first and fail there. -/
def Field.rowSetter : Field → Bool
  | .averageLoudness | .beatgrid | .hotCues | .hotCueAt _ | .key | .loops | .loopAt _ | .mainCue | .waveform => false
  | _ => true

def dbGet (o : FOps) (d : Db) (id : Int) (f : Field) : Res f.ty :=
  match d.rows id with
  | none => if f.trackColumn then .throw (.dj "track_deleted") else get o blankRows f
  | some r => get o r f

def dbSet (o : FOps) (d : Db) (id : Int) (f : Field) (v : f.ty) : Res Db :=
  match d.rows id with
  | none =>
    if f.rowSetter then .throw (.dj "track_deleted") else
    -- the blob setters read default columns, then fail in the guard / the INSERT of default blobs
    match set o blankRows f v with
    | .ok _ => .throw .runtime_error
    | .throw e => .throw e
    | .ub u => .ub u
  | some r =>
    let conflict : Bool := match f, v with
      | .relativePath, p => pathTaken d id p
      | _, _ => false
    if conflict then .throw .sqlite_error else
    match set o r f v with
    | .ok r' => .ok { d with tracks := aset id r' d.tracks }
    | .throw e => .throw e
    | .ub u => .ub u

/-- `database::remove_track`: the rows of the track in all four tables go (after the `fix:`). -/
def dbRemove (d : Db) (id : Int) : Db := { d with tracks := d.tracks.filter fun e => e.1 ≠ id }

/-- `track::is_valid`: the `Track` row exists. -/
def dbIsValid (d : Db) (id : Int) : Bool := (d.rows id).isSome

def dbSnap (o : FOps) (d : Db) (id : Int) : Res Snap :=
  match d.rows id with
  | none => .throw (.dj "track_deleted")
  | some r => readSnap o d.schema r

end TracksV1
end EngineModel
