/-
C06 Spec: the value a getter must return after its setter was called with `v`
("the value last set, under the same normalisation as a snapshot"), written
from the property text.  `none` = the library must reject the call.
-/
import EngineModel.TracksV1.Spec
import EngineModel.TracksV1.Accessors

namespace EngineModel
namespace TracksV1
namespace Spec

open Impl.V1 (GMarker HotCue LoopV Entry)

def slotInRange (i : UInt32) : Bool := decide (0 ≤ Prim.s32 i ∧ Prim.s32 i < 8)

def normField : (f : Field) → f.ty → Option f.ty
  | .album, v | .artist, v | .comment, v | .composer, v | .genre, v | .publisher, v | .title, v => some v
  | .averageLoudness, v => some (dropZero v)
  | .mainCue, v => some (dropZero v)
  | .sampleRate, v => some (dropZero v)
  | .bpm, v => some (v.map fun b => if b = F64.negZero then F64.zero else b)
  | .beatgrid, g => if gridOk g then some g else none
  | .bitrate, v | .key, v | .trackNumber, v | .year, v => some v
  | .rating, v => some (v.map clamp100)
  | .duration, v => some (v.map (wholeUnits 1000))
  | .lastPlayedAt, v => some (v.map (wholeUnits 1000000000))
  | .sampleCount, v => some (v.bind fun n => if n = 0 then none else some n)
  | .hotCues, cs => if decide (cs.length ≤ 8) && cs.all cueOk then some (pad8 (cs.map normCue)) else none
  | .hotCueAt i, q => if slotInRange i && cueOk q then some (normCue q) else none
  | .loops, ls => if decide (ls.length ≤ 8) && ls.all loopOk then some (pad8 (ls.map normLoop)) else none
  | .loopAt i, l => if slotInRange i && loopOk l then some (normLoop l) else none
  | .relativePath, p => some p
  | .waveform, w => some w

end Spec
end TracksV1
end EngineModel
